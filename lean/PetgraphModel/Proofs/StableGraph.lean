import PetgraphModel.Model.StableGraph
import PetgraphModel.Spec.StableGraphSpec
/-
Helper definitions and lemmas for C02 (`StableGraph`).  The property theorems are in `Theorems/C02.lean`.

Part 1: `Chain` — the representation predicate of every linked list in the structure (adjacency lists,
the free edge list, the free node list), DESIGN Appendix D.
-/
namespace PetgraphModel.SGProofs
open PetgraphModel PetgraphModel.SG

/-- `Chain nxt fin i l`: following `nxt` from `i` visits exactly `l` and then reaches `fin` -/
inductive Chain (nxt : Nat → Option Nat) (fin : Nat) : Nat → List Nat → Prop
  | nil : Chain nxt fin fin []
  | cons {i j : Nat} {l : List Nat} : i ≠ fin → nxt i = some j → Chain nxt fin j l → Chain nxt fin i (i :: l)

namespace Chain
variable {nxt nxt' : Nat → Option Nat} {fin : Nat}

theorem nil_iff {i : Nat} : Chain nxt fin i [] ↔ i = fin := by
  constructor
  · intro h; cases h; rfl
  · intro h; subst h; exact .nil

theorem cons_iff {i x : Nat} {l : List Nat} :
    Chain nxt fin i (x :: l) ↔ x = i ∧ i ≠ fin ∧ ∃ j, nxt i = some j ∧ Chain nxt fin j l := by
  constructor
  · intro h; cases h with | cons h1 h2 h3 => exact ⟨rfl, h1, _, h2, h3⟩
  · rintro ⟨rfl, h1, j, h2, h3⟩; exact .cons h1 h2 h3

theorem functional {i : Nat} {l l' : List Nat} (h : Chain nxt fin i l) (h' : Chain nxt fin i l') : l = l' := by
  induction h generalizing l' with
  | nil => cases h' with
    | nil => rfl
    | cons h1 _ _ => exact absurd rfl h1
  | cons h1 h2 _ ih =>
    cases h' with
    | nil => exact absurd rfl h1
    | cons _ h2' h3' =>
      rw [h2] at h2'; cases h2'
      rw [ih h3']

theorem fin_not_mem {i : Nat} {l : List Nat} (h : Chain nxt fin i l) : fin ∉ l := by
  induction h with
  | nil => simp
  | cons h1 _ _ ih => simp only [List.mem_cons, not_or]; exact ⟨fun e => h1 e.symm, ih⟩

theorem congr {i : Nat} {l : List Nat} (h : Chain nxt fin i l) (hc : ∀ x ∈ l, nxt' x = nxt x) :
    Chain nxt' fin i l := by
  induction h with
  | nil => exact .nil
  | cons h1 h2 _ ih =>
    refine .cons h1 ?_ (ih fun x hx => hc x (List.mem_cons_of_mem _ hx))
    rw [hc _ (List.mem_cons_self)]; exact h2

/-- the part of a chain from one of its elements on is the chain of that element -/
theorem suffix {i x : Nat} {l1 l2 : List Nat} (h : Chain nxt fin i (l1 ++ x :: l2)) :
    Chain nxt fin x (x :: l2) := by
  induction l1 generalizing i with
  | nil =>
    have := (cons_iff.1 h).1
    subst this; exact h
  | cons y l1 ih =>
    obtain ⟨_, _, j, _, h3⟩ := cons_iff.1 h
    exact ih h3

theorem nodup {i : Nat} {l : List Nat} (h : Chain nxt fin i l) : l.Nodup := by
  induction h with
  | nil => exact List.nodup_nil
  | @cons i j l h1 h2 h3 ih =>
    refine List.nodup_cons.2 ⟨?_, ih⟩
    intro hm
    obtain ⟨l1, l2, rfl⟩ := List.append_of_mem hm
    have hs := suffix h3
    have hfull : Chain nxt fin i (i :: (l1 ++ i :: l2)) := .cons h1 h2 h3
    have := functional hs hfull
    have hl := congrArg List.length this
    simp at hl
    omega

/-- every element of a chain has a successor pointer -/
theorem nxt_some {i x : Nat} {l : List Nat} (h : Chain nxt fin i l) (hx : x ∈ l) : ∃ j, nxt x = some j := by
  induction h with
  | nil => simp at hx
  | cons _ h2 _ ih =>
    rcases List.mem_cons.1 hx with rfl | hx
    · exact ⟨_, h2⟩
    · exact ih hx

theorem ne_fin {i x : Nat} {l : List Nat} (h : Chain nxt fin i l) (hx : x ∈ l) : x ≠ fin :=
  fun e => fin_not_mem h (e ▸ hx)

theorem head_mem_or_fin {i : Nat} {l : List Nat} (h : Chain nxt fin i l) : i = fin ∨ i ∈ l := by
  cases h with
  | nil => exact .inl rfl
  | cons _ _ _ => exact .inr List.mem_cons_self

/-- pushing a new element in front -/
theorem push {i x : Nat} {l : List Nat} (h : Chain nxt fin i l) (hx : x ≠ fin)
    (hn : nxt' x = some i) (hc : ∀ y ∈ l, nxt' y = nxt y) : Chain nxt' fin x (x :: l) :=
  .cons hx hn (h.congr hc)

/-- the chain behind an element -/
theorem tail_of {i j : Nat} {l : List Nat} (h : Chain nxt fin i (i :: l)) (hj : nxt i = some j) :
    Chain nxt fin j l := by
  obtain ⟨_, _, j', h2, h3⟩ := cons_iff.1 h
  rw [hj] at h2; cases h2; exact h3

/-- **unlink**, head case: the chain behind the head -/
theorem unlink_head {e r : Nat} {l2 : List Nat} (h : Chain nxt fin e (e :: l2)) (hr : nxt e = some r)
    (hc : ∀ y ∈ l2, nxt' y = nxt y) : Chain nxt' fin r l2 :=
  (tail_of h hr).congr hc

/-- **unlink**, inner case: redirecting the pointer of the predecessor `p` of `e` to the successor of `e`
removes `e` from the chain and nothing else -/
theorem unlink_mid {i p e r : Nat} {l1 l2 : List Nat} (h : Chain nxt fin i (l1 ++ p :: e :: l2))
    (hr : nxt e = some r) (hp : nxt' p = some r) (hc : ∀ y ∈ l1 ++ l2, nxt' y = nxt y) :
    Chain nxt' fin i (l1 ++ p :: l2) := by
  induction l1 generalizing i with
  | nil =>
    simp only [List.nil_append] at *
    obtain ⟨rfl, h1, j, h2, h3⟩ := cons_iff.1 h
    have hj : j = e := ((cons_iff.1 h3).1).symm
    subst hj
    exact .cons h1 hp ((tail_of h3 hr).congr hc)
  | cons y l1 ih =>
    simp only [List.cons_append] at *
    obtain ⟨rfl, h1, j, h2, h3⟩ := cons_iff.1 h
    refine .cons h1 ?_ (ih h3 fun z hz => hc z (List.mem_cons_of_mem _ hz))
    rw [hc y List.mem_cons_self]; exact h2

/-- splitting a chain at a member -/
theorem split_at {i x : Nat} {l : List Nat} (_h : Chain nxt fin i l) (hx : x ∈ l) :
    ∃ l1 l2, l = l1 ++ x :: l2 := List.append_of_mem hx

end Chain


/-! ## Part 2: pointer views of the two arrays -/

/-- successor of edge slot `e` in direction `k` (`next[k]`); direction 0 of the *vacant* slots is the free list -/
def enext (es : List Edge) (k : Nat) (e : Nat) : Option Nat := (es[e]?).map (fun x => x.next k)
/-- successor of node slot `i` in the free node list (`next[0]`) -/
def nfree (ns : List Node) (i : Nat) : Option Nat := (ns[i]?).map (fun n => n.n0)

theorem enext_some {es : List Edge} {k e j : Nat} : enext es k e = some j ↔ ∃ x, es[e]? = some x ∧ x.next k = j := by
  simp [enext]

theorem nfree_some {ns : List Node} {i j : Nat} : nfree ns i = some j ↔ ∃ n, ns[i]? = some n ∧ n.n0 = j := by
  simp [nfree]

@[simp] theorem Edge.next_setNext_same (x : Edge) (k v : Nat) : (x.setNext k v).next k = v := by
  unfold Edge.setNext Edge.next; split <;> simp_all
theorem Edge.next_setNext_other (x : Edge) (k k' v : Nat) (hk : k < 2) (hk' : k' < 2) (h : k ≠ k') :
    (x.setNext k v).next k' = x.next k' := by
  unfold Edge.setNext Edge.next; split <;> split <;> simp_all <;> omega
@[simp] theorem Edge.w_setNext (x : Edge) (k v : Nat) : (x.setNext k v).w = x.w := by
  unfold Edge.setNext; split <;> rfl
@[simp] theorem Edge.a_setNext (x : Edge) (k v : Nat) : (x.setNext k v).a = x.a := by
  unfold Edge.setNext; split <;> rfl
@[simp] theorem Edge.b_setNext (x : Edge) (k v : Nat) : (x.setNext k v).b = x.b := by
  unfold Edge.setNext; split <;> rfl
@[simp] theorem Edge.node_setNext (x : Edge) (k v k' : Nat) : (x.setNext k v).node k' = x.node k' := by
  unfold Edge.node; split <;> simp
@[simp] theorem Node.next_setNext_same (x : Node) (k v : Nat) : (x.setNext k v).next k = v := by
  unfold Node.setNext Node.next; split <;> simp_all
theorem Node.next_setNext_other (x : Node) (k k' v : Nat) (hk : k < 2) (hk' : k' < 2) (h : k ≠ k') :
    (x.setNext k v).next k' = x.next k' := by
  unfold Node.setNext Node.next; split <;> split <;> simp_all <;> omega
@[simp] theorem Node.w_setNext (x : Node) (k v : Nat) : (x.setNext k v).w = x.w := by
  unfold Node.setNext; split <;> rfl

/-- the walk of `change_edge_links` finds the predecessor of `e` and redirects exactly its pointer -/
theorem relinkWalk_spec {es : List Edge} {k e r fin : Nat} {l1 l2 : List Nat} {h p : Nat}
    (hc : Chain (enext es k) fin h (l1 ++ p :: e :: l2)) (fuel : Nat) (hf : l1.length + 1 ≤ fuel) :
    ∃ xp, es[p]? = some xp ∧ relinkWalk es k e r fuel h = .ok (es.set p (xp.setNext k r)) := by
  have hnd := hc.nodup
  induction l1 generalizing h fuel with
  | nil =>
    simp only [List.nil_append] at hc hnd
    obtain ⟨rfl, _, j, h2, h3⟩ := Chain.cons_iff.1 hc
    have hj : j = e := ((Chain.cons_iff.1 h3).1).symm
    subst hj
    obtain ⟨xp, hxp, hn⟩ := enext_some.1 h2
    refine ⟨xp, hxp, ?_⟩
    cases fuel with
    | zero => simp at hf
    | succ f => simp [relinkWalk, hxp, hn]
  | cons y l1 ih =>
    simp only [List.cons_append] at hc hnd
    obtain ⟨rfl, _, j, h2, h3⟩ := Chain.cons_iff.1 hc
    obtain ⟨xy, hxy, hn⟩ := enext_some.1 h2
    have hnd' := List.nodup_cons.1 hnd
    cases fuel with
    | zero => simp at hf
    | succ f =>
      have hne : xy.next k ≠ e := by
        rw [hn]
        intro he
        subst he
        cases l1 with
        | nil =>
          simp only [List.nil_append] at h3 hnd'
          have hp : p = j := (Chain.cons_iff.1 h3).1
          subst hp
          exact (List.nodup_cons.1 hnd'.2).1 (by simp)
        | cons z t =>
          simp only [List.cons_append] at h3 hnd'
          have hz : z = j := (Chain.cons_iff.1 h3).1
          subst hz
          exact (List.nodup_cons.1 hnd'.2).1 (by simp)
      obtain ⟨xp, hxp, hw⟩ := ih h3 f (by simp at hf; omega) hnd'.2
      refine ⟨xp, hxp, ?_⟩
      simp only [relinkWalk, hxy, if_neg hne]
      rw [hn]; exact hw


/-! ## Part 3: adjacency lists and `change_edge_links` -/

/-- nodes that own adjacency lists: the live ones and, while `remove_node` runs, the node `d` whose weight
has already been taken -/
def Act (d : Option Nat) (i : Nat) (n : Node) : Prop := n.w.isSome ∨ d = some i

/-- direction-`k` adjacency structure: the list hanging off every active node consists exactly of the live
edges whose `node[k]` is that node — except the edges in `ex`, which have been unlinked already -/
def AdjK (fin : Nat) (ns : List Node) (es : List Edge) (d : Option Nat) (ex : List Nat) (k : Nat) : Prop :=
  ∀ i n, ns[i]? = some n → Act d i n →
    ∃ l, Chain (enext es k) fin (n.next k) l ∧
      ∀ e, e ∈ l ↔ (e ∉ ex ∧ ∃ x, es[e]? = some x ∧ x.w.isSome ∧ x.node k = i)

/-- what one direction of `change_edge_links` may touch: `next[k]` of active nodes and live edges only -/
structure FrameK (k : Nat) (d : Option Nat) (s s1 : State) : Prop where
  rest : s1 = { s with nodes := s1.nodes, edges := s1.edges }
  lenN : s1.nodes.length = s.nodes.length
  lenE : s1.edges.length = s.edges.length
  node : ∀ (i : Nat) (n : Node), s.nodes[i]? = some n → ∃ n1 : Node, s1.nodes[i]? = some n1 ∧ n1.w = n.w ∧
    (∀ k', k' < 2 → k' ≠ k → n1.next k' = n.next k') ∧ (¬ Act d i n → n1 = n)
  edge : ∀ (e : Nat) (x : Edge), s.edges[e]? = some x → ∃ x1 : Edge, s1.edges[e]? = some x1 ∧ x1.w = x.w ∧ x1.a = x.a ∧ x1.b = x.b ∧
    (∀ k', k' < 2 → k' ≠ k → x1.next k' = x.next k') ∧ (x.w = none → x1 = x)

theorem changeEdgeLinksDir_spec {s : State} {d : Option Nat} {ex : List Nat} {k e : Nat} {x : Edge} {node : Node}
    (hk : k < 2) (hadj : AdjK s.fin s.nodes s.edges d ex k)
    (hx : s.edges[e]? = some x) (hlive : x.w.isSome) (hex : e ∉ ex)
    (hnode : s.nodes[x.node k]? = some node) (hact : Act d (x.node k) node) :
    ∃ s1, changeEdgeLinksDir s k (x.node k) e (x.next k) = .ok (some s1) ∧
      AdjK s.fin s1.nodes s1.edges d (e :: ex) k ∧ FrameK k d s s1 := by
  obtain ⟨l, hl, hmem⟩ := hadj _ _ hnode hact
  have he : e ∈ l := (hmem e).2 ⟨hex, x, hx, hlive, rfl⟩
  obtain ⟨l1, l2, rfl⟩ := List.append_of_mem he
  have hnd := hl.nodup
  have hxn : enext s.edges k e = some (x.next k) := enext_some.2 ⟨x, hx, rfl⟩
  rcases List.eq_nil_or_concat l1 with rfl | ⟨l1', p, rfl⟩
  · -- `e` is the head of the list
    simp only [List.nil_append] at hl hnd hmem
    have hhead : node.next k = e := ((Chain.cons_iff.1 hl).1).symm
    refine ⟨{ s with nodes := s.nodes.set (x.node k) (node.setNext k (x.next k)) }, ?_, ?_, ?_⟩
    · simp [changeEdgeLinksDir, hnode, hhead]
    · intro i n hn hactn
      simp only at hn ⊢
      by_cases hi : i = x.node k
      · subst hi
        have hlt : x.node k < s.nodes.length := (List.getElem?_eq_some_iff.1 hnode).1
        rw [List.getElem?_set_self hlt] at hn
        cases hn
        refine ⟨l2, ?_, ?_⟩
        · rw [Node.next_setNext_same]
          exact Chain.tail_of (by rw [← hhead] at hl ⊢; exact hl) hxn
        · intro e'
          have hnd' := List.nodup_cons.1 hnd
          constructor
          · intro h'
            have := (hmem e').1 (List.mem_cons_of_mem _ h')
            refine ⟨?_, this.2⟩
            simp only [List.mem_cons, not_or]
            exact ⟨fun e'' => hnd'.1 (e'' ▸ h'), this.1⟩
          · rintro ⟨h1, h2⟩
            simp only [List.mem_cons, not_or] at h1
            have := (hmem e').2 ⟨h1.2, h2⟩
            rcases List.mem_cons.1 this with h' | h'
            · exact absurd h' h1.1
            · exact h'
      · rw [List.getElem?_set_ne (fun h' => hi h'.symm)] at hn
        obtain ⟨li, hli, hmi⟩ := hadj i n hn hactn
        refine ⟨li, hli, fun e' => ?_⟩
        rw [hmi e']
        constructor
        · rintro ⟨h1, x', h2, h3, h4⟩
          refine ⟨?_, x', h2, h3, h4⟩
          simp only [List.mem_cons, not_or]
          refine ⟨?_, h1⟩
          rintro rfl
          rw [hx] at h2; cases h2
          exact hi h4.symm
        · rintro ⟨h1, h2⟩
          simp only [List.mem_cons, not_or] at h1
          exact ⟨h1.2, h2⟩
    · refine ⟨rfl, by simp, rfl, ?_, ?_⟩
      · intro i n hn
        simp only
        by_cases hi : i = x.node k
        · subst hi
          have hlt : x.node k < s.nodes.length := (List.getElem?_eq_some_iff.1 hnode).1
          rw [hnode] at hn; cases hn
          refine ⟨_, List.getElem?_set_self hlt, by simp, ?_, fun h' => absurd hact h'⟩
          intro k' hk' hne
          exact Node.next_setNext_other _ _ _ _ hk hk' (fun h' => hne h'.symm)
        · exact ⟨n, by rw [List.getElem?_set_ne (fun h' => hi h'.symm)]; exact hn, rfl, fun _ _ _ => rfl, fun _ => rfl⟩
      · intro e' x' hx'
        exact ⟨x', hx', rfl, rfl, rfl, fun _ _ _ => rfl, fun _ => rfl⟩
  · -- `e` has a predecessor `p` in the list
    simp only [List.concat_eq_append] at hl hmem hnd he
    have hl' : Chain (enext s.edges k) s.fin (node.next k) (l1' ++ p :: e :: l2) := by
      simpa [List.append_assoc] using hl
    have hnd' : (l1' ++ p :: e :: l2).Nodup := by simpa [List.append_assoc] using hnd
    have hhead : node.next k ≠ e := by
      intro h'
      cases l1' with
      | nil =>
        simp only [List.nil_append] at hl' hnd'
        have : p = node.next k := (Chain.cons_iff.1 hl').1
        rw [h'] at this; subst this
        exact (List.nodup_cons.1 hnd').1 (by simp)
      | cons z t =>
        simp only [List.cons_append] at hl' hnd'
        have : z = node.next k := (Chain.cons_iff.1 hl').1
        rw [h'] at this; subst this
        exact (List.nodup_cons.1 hnd').1 (by simp)
    obtain ⟨xp, hxp, hw⟩ := relinkWalk_spec (r := x.next k) hl' (s.edges.length + 1) (by
      have h1 : (l1' ++ p :: e :: l2).length ≤ s.edges.length := by
        -- all members are distinct valid edge indices
        have hsub : ∀ y ∈ (l1' ++ p :: e :: l2), y < s.edges.length := by
          intro y hy
          obtain ⟨j, hj⟩ := hl'.nxt_some hy
          obtain ⟨xy, hxy, _⟩ := enext_some.1 hj
          exact (List.getElem?_eq_some_iff.1 hxy).1
        have := List.Nodup.length_le_of_subset (l₂ := List.range s.edges.length) hnd' (by
          intro y hy; exact List.mem_range.2 (hsub y hy))
        simpa using this
      simp at h1 ⊢; omega)
    have hpl : p < s.edges.length := (List.getElem?_eq_some_iff.1 hxp).1
    have hpmem : p ∈ l1' ++ [p] ++ e :: l2 := by simp
    have hpnode : xp.w.isSome ∧ xp.node k = x.node k := by
      obtain ⟨_, x', h2, h3, h4⟩ := (hmem p).1 hpmem
      rw [hxp] at h2; cases h2; exact ⟨h3, h4⟩
    have hpe : p ≠ e := by
      intro h'; subst h'
      have := hnd'
      simp [List.nodup_append, List.nodup_cons] at this
    refine ⟨{ s with edges := s.edges.set p (xp.setNext k (x.next k)) }, ?_, ?_, ?_⟩
    · simp [changeEdgeLinksDir, hnode, hhead, hw]
    · -- the new pointer view in direction k
      have hnx : ∀ y, y ≠ p → enext (s.edges.set p (xp.setNext k (x.next k))) k y = enext s.edges k y := by
        intro y hy
        simp [enext, List.getElem?_set_ne (fun h' => hy h'.symm)]
      have hnp : enext (s.edges.set p (xp.setNext k (x.next k))) k p = some (x.next k) := by
        simp [enext, List.getElem?_set_self hpl]
      -- membership is insensitive to the pointer update
      have hmem' : ∀ (e' i : Nat), (∃ x' : Edge, (s.edges.set p (xp.setNext k (x.next k)))[e']? = some x' ∧ x'.w.isSome ∧ x'.node k = i) ↔
          (∃ x' : Edge, s.edges[e']? = some x' ∧ x'.w.isSome ∧ x'.node k = i) := by
        intro e' i
        by_cases hep : e' = p
        · subst hep
          rw [List.getElem?_set_self hpl, hxp]
          simp
        · rw [List.getElem?_set_ne (fun h' => hep h'.symm)]
      intro i n hn hactn
      simp only at hn ⊢
      by_cases hi : i = x.node k
      · subst hi
        rw [hnode] at hn; cases hn
        refine ⟨l1' ++ p :: l2, Chain.unlink_mid hl' hxn hnp (fun y hy => hnx y ?_), fun e' => ?_⟩
        · rintro rfl
          have := hnd'
          simp [List.nodup_append, List.nodup_cons] at this hy
          grind
        rw [hmem']
        have hnde : e ∉ l1' ++ p :: l2 := by
          have := hnd'
          simp [List.nodup_append, List.nodup_cons] at this ⊢
          grind
        constructor
        · intro h'
          have hin : e' ∈ l1' ++ [p] ++ e :: l2 := by
            simp at h' ⊢; grind
          have := (hmem e').1 hin
          refine ⟨?_, this.2⟩
          simp only [List.mem_cons, not_or]
          exact ⟨fun e'' => hnde (e'' ▸ h'), this.1⟩
        · rintro ⟨h1, h2⟩
          simp only [List.mem_cons, not_or] at h1
          have := (hmem e').2 ⟨h1.2, h2⟩
          simp at this ⊢
          grind
      · obtain ⟨li, hli, hmi⟩ := hadj i n hn hactn
        have hpli : p ∉ li := by
          intro h'
          obtain ⟨_, x', h2, _, h4⟩ := (hmi p).1 h'
          rw [hxp] at h2; cases h2
          exact hi (h4.symm.trans hpnode.2)
        refine ⟨li, hli.congr (fun y hy => hnx y (fun h' => hpli (h' ▸ hy))), fun e' => ?_⟩
        rw [hmem', hmi e']
        constructor
        · rintro ⟨h1, x', h2, h3, h4⟩
          refine ⟨?_, x', h2, h3, h4⟩
          simp only [List.mem_cons, not_or]
          refine ⟨?_, h1⟩
          rintro rfl
          rw [hx] at h2; cases h2
          exact hi h4.symm
        · rintro ⟨h1, h2⟩
          simp only [List.mem_cons, not_or] at h1
          exact ⟨h1.2, h2⟩
    · refine ⟨rfl, rfl, by simp, ?_, ?_⟩
      · intro i n hn
        exact ⟨n, hn, rfl, fun _ _ _ => rfl, fun _ => rfl⟩
      · intro e' x' hx'
        simp only
        by_cases hep : e' = p
        · subst hep
          rw [hxp] at hx'; cases hx'
          refine ⟨_, List.getElem?_set_self hpl, by simp, by simp, by simp, ?_, ?_⟩
          · intro k' hk' hne
            exact Edge.next_setNext_other _ _ _ _ hk hk' (fun h' => hne h'.symm)
          · intro h'; rw [h'] at hpnode; simp at hpnode
        · exact ⟨x', by rw [List.getElem?_set_ne (fun h' => hep h'.symm)]; exact hx', rfl, rfl, rfl, fun _ _ _ => rfl, fun _ => rfl⟩


/-! ## Part 4: the representation invariant -/

@[simp] theorem Edge.node_zero (x : Edge) : x.node 0 = x.a := rfl
@[simp] theorem Edge.node_one (x : Edge) : x.node 1 = x.b := rfl
@[simp] theorem Edge.next_zero (x : Edge) : x.next 0 = x.n0 := rfl
@[simp] theorem Edge.next_one (x : Edge) : x.next 1 = x.n1 := rfl
@[simp] theorem Node.next_zero (x : Node) : x.next 0 = x.n0 := rfl
@[simp] theorem Node.next_one (x : Node) : x.next 1 = x.n1 := rfl

/-- back pointers (`next[1]`) of the doubly linked free node list -/
def Back (ns : List Node) : Nat → List Nat → Prop
  | _, [] => True
  | prev, i :: l => (∃ n, ns[i]? = some n ∧ n.n1 = prev) ∧ Back ns i l

theorem Back.congr {ns ns' : List Node} {prev : Nat} {l : List Nat} (h : Back ns prev l)
    (hc : ∀ i ∈ l, ∀ n, ns[i]? = some n → ∃ n', ns'[i]? = some n' ∧ n'.n1 = n.n1) : Back ns' prev l := by
  induction l generalizing prev with
  | nil => trivial
  | cons i l ih =>
    obtain ⟨⟨n, hn, hp⟩, hb⟩ := h
    obtain ⟨n', hn', hp'⟩ := hc i List.mem_cons_self n hn
    exact ⟨⟨n', hn', hp'.trans hp⟩, ih hb fun j hj => hc j (List.mem_cons_of_mem _ hj)⟩

/-- The representation invariant, generalised over (`d`) the node detached by a running `remove_node` and
over the heads `fn`/`fe` of the two free lists (`filter_map` keeps them in local variables while it builds
its result). `Inv s` below is the instance every public call starts and ends in. -/
structure InvG (s : State) (d : Option Nat) (fn fe : Nat) : Prop where
  lenN : s.nodes.length ≤ s.fin
  lenE : s.edges.length ≤ s.fin
  /-- vacant edge slots carry `end()` in both endpoints -/
  vacE : ∀ (e : Nat) (x : Edge), s.edges[e]? = some x → x.w = none → x.a = s.fin ∧ x.b = s.fin
  /-- the endpoints of a live edge exist -/
  endp : ∀ (e : Nat) (x : Edge), s.edges[e]? = some x → x.w.isSome → ∀ k, k < 2 →
    ∃ n, s.nodes[x.node k]? = some n ∧ Act d (x.node k) n
  /-- adjacency lists: exactly the live edges with that endpoint, each once -/
  adj : ∀ k, k < 2 → AdjK s.fin s.nodes s.edges d [] k
  /-- the free edge list consists of exactly the vacant edge slots -/
  freeE : ∃ l, Chain (enext s.edges 0) s.fin fe l ∧ ∀ e, e ∈ l ↔ ∃ x, s.edges[e]? = some x ∧ x.w = none
  /-- the free node list is a well-formed doubly linked list of exactly the vacant node slots -/
  freeN : ∃ l, Chain (nfree s.nodes) s.fin fn l ∧
    (∀ i, i ∈ l ↔ ∃ n, s.nodes[i]? = some n ∧ n.w = none ∧ d ≠ some i) ∧ Back s.nodes s.fin l
  det : ∀ i, d = some i → ∃ n, s.nodes[i]? = some n ∧ n.w = none
  cntN : s.nodeCount = s.nodes.countP (fun n => n.w.isSome) + (if d.isSome then 1 else 0)
  cntE : s.edgeCount = s.edges.countP (fun x => x.w.isSome)

/-- the invariant of a `StableGraph` between public calls -/
def Inv (s : State) : Prop := InvG s none s.freeNode s.freeEdge

/-- generic: a pointwise forward relation between equally long lists also holds backwards -/
theorem rev_of_fwd {α : Type} {R : α → α → Prop} {l l1 : List α} (hlen : l1.length = l.length)
    (fwd : ∀ (i : Nat) (a : α), l[i]? = some a → ∃ b, l1[i]? = some b ∧ R a b) :
    ∀ (i : Nat) (b : α), l1[i]? = some b → ∃ a, l[i]? = some a ∧ R a b := by
  intro i b hb
  have hi : i < l.length := hlen ▸ (List.getElem?_eq_some_iff.1 hb).1
  obtain ⟨b', hb', hr⟩ := fwd i l[i] (List.getElem?_eq_getElem hi)
  rw [hb] at hb'; cases hb'
  exact ⟨_, List.getElem?_eq_getElem hi, hr⟩

namespace FrameK
variable {k : Nat} {d : Option Nat} {s s1 : State}

theorem fin_eq (h : FrameK k d s s1) : s1.fin = s.fin := by have := congrArg State.fin h.rest; simpa using this
theorem freeNode_eq (h : FrameK k d s s1) : s1.freeNode = s.freeNode := by
  have := congrArg State.freeNode h.rest; simpa using this
theorem freeEdge_eq (h : FrameK k d s s1) : s1.freeEdge = s.freeEdge := by
  have := congrArg State.freeEdge h.rest; simpa using this
theorem nodeCount_eq (h : FrameK k d s s1) : s1.nodeCount = s.nodeCount := by
  have := congrArg State.nodeCount h.rest; simpa using this
theorem edgeCount_eq (h : FrameK k d s s1) : s1.edgeCount = s.edgeCount := by
  have := congrArg State.edgeCount h.rest; simpa using this
theorem debug_eq (h : FrameK k d s s1) : s1.debug = s.debug := by
  have := congrArg State.debug h.rest; simpa using this

theorem node_rev (h : FrameK k d s s1) : ∀ (i : Nat) (n1 : Node), s1.nodes[i]? = some n1 → ∃ n : Node, s.nodes[i]? = some n ∧
    n1.w = n.w ∧ (∀ k', k' < 2 → k' ≠ k → n1.next k' = n.next k') ∧ (¬ Act d i n → n1 = n) := by
  intro i n1 hn1
  have hi : i < s.nodes.length := h.lenN ▸ (List.getElem?_eq_some_iff.1 hn1).1
  obtain ⟨n1', h1, h2⟩ := h.node i s.nodes[i] (List.getElem?_eq_getElem hi)
  rw [hn1] at h1; cases h1
  exact ⟨_, List.getElem?_eq_getElem hi, h2⟩

theorem edge_rev (h : FrameK k d s s1) : ∀ (e : Nat) (x1 : Edge), s1.edges[e]? = some x1 → ∃ x : Edge, s.edges[e]? = some x ∧
    x1.w = x.w ∧ x1.a = x.a ∧ x1.b = x.b ∧ (∀ k', k' < 2 → k' ≠ k → x1.next k' = x.next k') ∧ (x.w = none → x1 = x) := by
  intro e x1 hx1
  have hi : e < s.edges.length := h.lenE ▸ (List.getElem?_eq_some_iff.1 hx1).1
  obtain ⟨x1', h1, h2⟩ := h.edge e s.edges[e] (List.getElem?_eq_getElem hi)
  rw [hx1] at h1; cases h1
  exact ⟨_, List.getElem?_eq_getElem hi, h2⟩

theorem enext_other (h : FrameK k d s s1) {k' : Nat} (hk' : k' < 2) (hne : k' ≠ k) (y : Nat) :
    enext s1.edges k' y = enext s.edges k' y := by
  unfold enext
  by_cases hy : y < s.edges.length
  · obtain ⟨x1, h1, _, _, _, h5, _⟩ := h.edge y s.edges[y] (List.getElem?_eq_getElem hy)
    rw [h1, List.getElem?_eq_getElem hy]
    simp [h5 k' hk' hne]
  · have h1 : s.edges[y]? = none := List.getElem?_eq_none_iff.2 (by omega)
    have h2 : s1.edges[y]? = none := List.getElem?_eq_none_iff.2 (by rw [h.lenE]; omega)
    rw [h1, h2]

/-- the free edge list lives in `next[0]` of vacant slots, which no direction of `change_edge_links` touches -/
theorem enext_vacant (h : FrameK k d s s1) {y : Nat} {x : Edge} (hx : s.edges[y]? = some x) (hv : x.w = none) (k' : Nat) :
    enext s1.edges k' y = enext s.edges k' y := by
  obtain ⟨x1, h1, _, _, _, _, h6⟩ := h.edge y x hx
  unfold enext; rw [h1, hx, h6 hv]

theorem act_iff (h : FrameK k d s s1) {i : Nat} {n n1 : Node} (hn : s.nodes[i]? = some n) (hn1 : s1.nodes[i]? = some n1) :
    Act d i n1 ↔ Act d i n := by
  obtain ⟨n1', h1, h2, _⟩ := h.node i n hn
  rw [hn1] at h1; cases h1
  unfold Act; rw [h2]

end FrameK

/-- the adjacency structure of the other direction survives one direction of `change_edge_links` -/
theorem AdjK.frame_other {k k' : Nat} {d : Option Nat} {s s1 : State} {ex : List Nat}
    (h : FrameK k d s s1) (hk' : k' < 2) (hne : k' ≠ k) (hadj : AdjK s.fin s.nodes s.edges d ex k') :
    AdjK s.fin s1.nodes s1.edges d ex k' := by
  intro i n1 hn1 hact1
  obtain ⟨n, hn, _, hnext, _⟩ := h.node_rev i n1 hn1
  obtain ⟨l, hl, hmem⟩ := hadj i n hn ((h.act_iff hn hn1).1 hact1)
  refine ⟨l, ?_, fun e => ?_⟩
  · rw [hnext k' hk' hne]
    exact hl.congr fun y _ => h.enext_other hk' hne y
  · rw [hmem e]
    constructor
    · rintro ⟨h1, x, h2, h3, h4⟩
      obtain ⟨x1, g1, g2, g3, g4, _⟩ := h.edge e x h2
      refine ⟨h1, x1, g1, by rw [g2]; exact h3, ?_⟩
      rw [← h4]; unfold Edge.node; rw [g3, g4]
    · rintro ⟨h1, x1, h2, h3, h4⟩
      obtain ⟨x, g1, g2, g3, g4, _⟩ := h.edge_rev e x1 h2
      refine ⟨h1, x, g1, by rw [← g2]; exact h3, ?_⟩
      rw [← h4]; unfold Edge.node; rw [g3, g4]

/-- turning the unlinked edge `e` into a vacant slot: no list contains it any more -/
theorem AdjK.tombstone {fin : Nat} {ns : List Node} {es : List Edge} {d : Option Nat} {k e : Nat} {vac : Edge}
    (hv : vac.w = none) (hadj : AdjK fin ns es d [e] k) : AdjK fin ns (es.set e vac) d [] k := by
  intro i n hn hact
  obtain ⟨l, hl, hmem⟩ := hadj i n hn hact
  have hel : e ∉ l := fun h' => by have := ((hmem e).1 h').1; simp at this
  refine ⟨l, hl.congr fun y hy => ?_, fun e' => ?_⟩
  · have hye : e ≠ y := fun h' => hel (by rw [h']; exact hy)
    unfold enext; rw [List.getElem?_set_ne hye]
  · rw [hmem e']
    by_cases he : e' = e
    · subst he
      simp only [List.mem_cons, List.not_mem_nil, or_false, not_true_eq_false, false_and, not_false_eq_true, true_and, false_iff]
      rintro ⟨x, h1, h2, _⟩
      rw [List.getElem?_set] at h1
      split at h1
      · split at h1
        · cases h1; rw [hv] at h2; simp at h2
        · cases h1
      · rename_i hh; exact hh rfl
    · rw [List.getElem?_set_ne (fun h' => he h'.symm)]
      simp [he]


/-! ## Part 5: `remove_edge` -/

/-- what a call may change as far as weights, endpoints and the vacant slots are concerned -/
structure Frame (d : Option Nat) (s s1 : State) : Prop where
  rest : s1 = { s with nodes := s1.nodes, edges := s1.edges }
  lenN : s1.nodes.length = s.nodes.length
  lenE : s1.edges.length = s.edges.length
  node : ∀ (i : Nat) (n : Node), s.nodes[i]? = some n → ∃ n1 : Node, s1.nodes[i]? = some n1 ∧ n1.w = n.w ∧ (¬ Act d i n → n1 = n)
  edge : ∀ (e : Nat) (x : Edge), s.edges[e]? = some x → ∃ x1 : Edge, s1.edges[e]? = some x1 ∧ x1.w = x.w ∧ x1.a = x.a ∧ x1.b = x.b ∧
    (x.w = none → x1 = x)

theorem FrameK.toFrame {k : Nat} {d : Option Nat} {s s1 : State} (h : FrameK k d s s1) : Frame d s s1 :=
  ⟨h.rest, h.lenN, h.lenE,
   fun i n hn => by obtain ⟨n1, h1, h2, _, h4⟩ := h.node i n hn; exact ⟨n1, h1, h2, h4⟩,
   fun e x hx => by obtain ⟨x1, h1, h2, h3, h4, _, h6⟩ := h.edge e x hx; exact ⟨x1, h1, h2, h3, h4, h6⟩⟩

namespace Frame
variable {d : Option Nat} {s s1 s2 : State}

theorem refl (s : State) : Frame d s s :=
  ⟨rfl, rfl, rfl, fun _ n hn => ⟨n, hn, rfl, fun _ => rfl⟩, fun _ x hx => ⟨x, hx, rfl, rfl, rfl, fun _ => rfl⟩⟩

theorem trans (h1 : Frame d s s1) (h2 : Frame d s1 s2) : Frame d s s2 := by
  refine ⟨?_, h2.lenN.trans h1.lenN, h2.lenE.trans h1.lenE, ?_, ?_⟩
  · have a := h1.rest; have b := h2.rest
    rw [b, a]
  · intro i n hn
    obtain ⟨n1, g1, g2, g3⟩ := h1.node i n hn
    obtain ⟨n2, k1, k2, k3⟩ := h2.node i n1 g1
    refine ⟨n2, k1, k2.trans g2, fun hna => ?_⟩
    have := g3 hna; subst this
    exact k3 hna
  · intro e x hx
    obtain ⟨x1, g1, g2, g3, g4, g5⟩ := h1.edge e x hx
    obtain ⟨x2, k1, k2, k3, k4, k5⟩ := h2.edge e x1 g1
    refine ⟨x2, k1, k2.trans g2, k3.trans g3, k4.trans g4, fun hv => ?_⟩
    have := g5 hv; subst this
    exact k5 hv

theorem fin_eq (h : Frame d s s1) : s1.fin = s.fin := by have := congrArg State.fin h.rest; simpa using this
theorem freeNode_eq (h : Frame d s s1) : s1.freeNode = s.freeNode := by
  have := congrArg State.freeNode h.rest; simpa using this
theorem freeEdge_eq (h : Frame d s s1) : s1.freeEdge = s.freeEdge := by
  have := congrArg State.freeEdge h.rest; simpa using this
theorem nodeCount_eq (h : Frame d s s1) : s1.nodeCount = s.nodeCount := by
  have := congrArg State.nodeCount h.rest; simpa using this
theorem edgeCount_eq (h : Frame d s s1) : s1.edgeCount = s.edgeCount := by
  have := congrArg State.edgeCount h.rest; simpa using this
theorem debug_eq (h : Frame d s s1) : s1.debug = s.debug := by
  have := congrArg State.debug h.rest; simpa using this
theorem directed_eq (h : Frame d s s1) : s1.directed = s.directed := by
  have := congrArg State.directed h.rest; simpa using this
theorem noLimit_eq (h : Frame d s s1) : s1.noLimit = s.noLimit := by
  have := congrArg State.noLimit h.rest; simpa using this

theorem node_rev (h : Frame d s s1) : ∀ (i : Nat) (n1 : Node), s1.nodes[i]? = some n1 → ∃ n : Node, s.nodes[i]? = some n ∧
    n1.w = n.w ∧ (¬ Act d i n → n1 = n) := by
  intro i n1 hn1
  have hi : i < s.nodes.length := h.lenN ▸ (List.getElem?_eq_some_iff.1 hn1).1
  obtain ⟨n1', h1, h2⟩ := h.node i s.nodes[i] (List.getElem?_eq_getElem hi)
  rw [hn1] at h1; cases h1
  exact ⟨_, List.getElem?_eq_getElem hi, h2⟩

theorem edge_rev (h : Frame d s s1) : ∀ (e : Nat) (x1 : Edge), s1.edges[e]? = some x1 → ∃ x : Edge, s.edges[e]? = some x ∧
    x1.w = x.w ∧ x1.a = x.a ∧ x1.b = x.b ∧ (x.w = none → x1 = x) := by
  intro e x1 hx1
  have hi : e < s.edges.length := h.lenE ▸ (List.getElem?_eq_some_iff.1 hx1).1
  obtain ⟨x1', h1, h2⟩ := h.edge e s.edges[e] (List.getElem?_eq_getElem hi)
  rw [hx1] at h1; cases h1
  exact ⟨_, List.getElem?_eq_getElem hi, h2⟩

theorem nodes_w (h : Frame d s s1) : s1.nodes.map (·.w) = s.nodes.map (·.w) := by
  apply List.ext_getElem?
  intro i
  simp only [List.getElem?_map]
  by_cases hi : i < s.nodes.length
  · obtain ⟨n1, h1, h2, _⟩ := h.node i s.nodes[i] (List.getElem?_eq_getElem hi)
    rw [h1, List.getElem?_eq_getElem hi]; simp [h2]
  · have := h.lenN
    rw [List.getElem?_eq_none_iff.2 (by omega), List.getElem?_eq_none_iff.2 (by omega)]

theorem edges_w (h : Frame d s s1) : s1.edges.map (·.w) = s.edges.map (·.w) := by
  apply List.ext_getElem?
  intro i
  simp only [List.getElem?_map]
  by_cases hi : i < s.edges.length
  · obtain ⟨n1, h1, h2, _⟩ := h.edge i s.edges[i] (List.getElem?_eq_getElem hi)
    rw [h1, List.getElem?_eq_getElem hi]; simp [h2]
  · have := h.lenE
    rw [List.getElem?_eq_none_iff.2 (by omega), List.getElem?_eq_none_iff.2 (by omega)]

theorem countN (h : Frame d s s1) : s1.nodes.countP (fun n => n.w.isSome) = s.nodes.countP (fun n => n.w.isSome) := by
  have e1 : ∀ l : List Node, l.countP (fun n => n.w.isSome) = (l.map (·.w)).countP Option.isSome := by
    intro l; rw [List.countP_map]; rfl
  rw [e1, e1, h.nodes_w]

theorem countE (h : Frame d s s1) : s1.edges.countP (fun n => n.w.isSome) = s.edges.countP (fun n => n.w.isSome) := by
  have e1 : ∀ l : List Edge, l.countP (fun n => n.w.isSome) = (l.map (·.w)).countP Option.isSome := by
    intro l; rw [List.countP_map]; rfl
  rw [e1, e1, h.edges_w]

/-- the free node list is untouched: it consists of inactive nodes only -/
theorem freeN (h : Frame d s s1) {fn : Nat} {l : List Nat}
    (hl : Chain (nfree s.nodes) s.fin fn l)
    (hmem : ∀ i, i ∈ l ↔ ∃ n, s.nodes[i]? = some n ∧ n.w = none ∧ d ≠ some i) (hb : Back s.nodes s.fin l) :
    Chain (nfree s1.nodes) s1.fin fn l ∧
    (∀ i, i ∈ l ↔ ∃ n, s1.nodes[i]? = some n ∧ n.w = none ∧ d ≠ some i) ∧ Back s1.nodes s1.fin l := by
  have hsame : ∀ i ∈ l, ∀ n, s.nodes[i]? = some n → s1.nodes[i]? = some n := by
    intro i hi n hn
    obtain ⟨n', hn', hv, hd⟩ := (hmem i).1 hi
    rw [hn] at hn'; cases hn'
    obtain ⟨n1, g1, _, g3⟩ := h.node i n hn
    have : ¬ Act d i n := by
      unfold Act; rw [hv]; simp; exact hd
    rw [g3 this] at g1; exact g1
  rw [h.fin_eq]
  refine ⟨hl.congr fun y hy => ?_, fun i => ?_, hb.congr fun i hi n hn => ⟨n, hsame i hi n hn, rfl⟩⟩
  · obtain ⟨j, hj⟩ := hl.nxt_some hy
    obtain ⟨n, hn, _⟩ := nfree_some.1 hj
    unfold nfree; rw [hsame y hy n hn, hn]
  · rw [hmem i]
    constructor
    · rintro ⟨n, g1, g2, g3⟩
      obtain ⟨n1, k1, k2, _⟩ := h.node i n g1
      exact ⟨n1, k1, k2.trans g2, g3⟩
    · rintro ⟨n1, g1, g2, g3⟩
      obtain ⟨n, k1, k2, _⟩ := h.node_rev i n1 g1
      exact ⟨n, k1, k2 ▸ g2, g3⟩

end Frame


/-- what `remove_edge e` changes, as far as weights, endpoints and vacant slots are concerned -/
structure RemFrame (d : Option Nat) (s s' : State) (e : Nat) : Prop where
  rest : s' = { s with nodes := s'.nodes, edges := s'.edges, freeEdge := s'.freeEdge, edgeCount := s'.edgeCount }
  lenN : s'.nodes.length = s.nodes.length
  lenE : s'.edges.length = s.edges.length
  node : ∀ (i : Nat) (n : Node), s.nodes[i]? = some n → ∃ n1 : Node, s'.nodes[i]? = some n1 ∧ n1.w = n.w ∧ (¬ Act d i n → n1 = n)
  edge : ∀ (e' : Nat) (x : Edge), e' ≠ e → s.edges[e']? = some x →
    ∃ x1 : Edge, s'.edges[e']? = some x1 ∧ x1.w = x.w ∧ x1.a = x.a ∧ x1.b = x.b ∧ (x.w = none → x1 = x)
  gone : ∃ x1 : Edge, s'.edges[e]? = some x1 ∧ x1.w = none
  cnt : s'.edgeCount + 1 = s.edgeCount

theorem countP_pos_of_getElem? {α : Type} {p : α → Bool} {l : List α} {i : Nat} {a : α}
    (h : l[i]? = some a) (hp : p a = true) : 0 < l.countP p :=
  List.countP_pos_iff.2 ⟨a, List.mem_of_getElem? h, hp⟩

theorem removeEdge_spec {s : State} {d : Option Nat} {fn : Nat} (hinv : InvG s d fn s.freeEdge)
    {e : Nat} {x : Edge} {w : Int} (hx : s.edges[e]? = some x) (hw : x.w = some w) :
    ∃ s', removeEdge s e = .ok (s', some w) ∧ InvG s' d fn s'.freeEdge ∧ RemFrame d s s' e := by
  have hlive : x.w.isSome := by rw [hw]; rfl
  have hel : e < s.edges.length := (List.getElem?_eq_some_iff.1 hx).1
  obtain ⟨na, hna, hacta⟩ := hinv.endp e x hx hlive 0 (by omega)
  obtain ⟨s1, hs1, hadj1, hf1⟩ := changeEdgeLinksDir_spec (k := 0) (by omega) (hinv.adj 0 (by omega)) hx hlive (by simp) hna hacta
  obtain ⟨x1, hx1, hw1, ha1, hb1, hnx1, _⟩ := hf1.edge e x hx
  obtain ⟨nb, hnb, hactb⟩ := hinv.endp e x hx hlive 1 (by omega)
  obtain ⟨nb1, hnb1, hwb1, _, _⟩ := hf1.node _ nb hnb
  have hadj1' : AdjK s1.fin s1.nodes s1.edges d [] 1 := by
    rw [hf1.fin_eq]; exact AdjK.frame_other hf1 (by omega) (by omega) (hinv.adj 1 (by omega))
  have hx1n : x1.node 1 = x.node 1 := by simp [hb1]
  obtain ⟨s2, hs2, hadj2, hf2⟩ := changeEdgeLinksDir_spec (k := 1) (by omega) hadj1' hx1 (by rw [hw1]; exact hlive)
    (by simp) (by rw [hx1n]; exact hnb1) (by rw [hx1n]; unfold Act; rw [hwb1]; exact hactb)
  obtain ⟨x2, hx2, hw2, _, _, _, _⟩ := hf2.edge e x1 hx1
  have hF : Frame d s s2 := hf1.toFrame.trans hf2.toFrame
  have hfin2 : s2.fin = s.fin := hF.fin_eq
  have hcnt : s2.edgeCount = s.edgeCount := hF.edgeCount_eq
  have hpos : 0 < s.edgeCount := by
    rw [hinv.cntE]; exact countP_pos_of_getElem? hx (by simpa using hlive)
  let vac : Edge := { w := none, n0 := s2.freeEdge, n1 := s2.fin, a := s2.fin, b := s2.fin }
  let s3 : State := { s2 with edges := s2.edges.set e vac, freeEdge := e, edgeCount := s2.edgeCount - 1 }
  have hel2 : e < s2.edges.length := (List.getElem?_eq_some_iff.1 hx2).1
  have hrun : removeEdge s e = .ok (s3, some w) := by
    have h1 : changeEdgeLinks s x.a x.b e x.n0 x.n1 = .ok s2 := by
      simp only [Edge.node_zero, Edge.next_zero] at hs1
      have h1n : x1.n1 = x.n1 := by have := hnx1 1 (by omega) (by omega); simpa using this
      simp only [Edge.node_one, Edge.next_one, hb1, h1n] at hs2
      simp [changeEdgeLinks, hs1, hs2]
    have h2 : decr s2.edgeCount = .ok (s2.edgeCount - 1) := by
      unfold decr; rw [hcnt]; simp; omega
    simp only [removeEdge, hx, hw, h1, modifyEdge, hx2, h2]
    rfl
  refine ⟨s3, hrun, ?_, ?_⟩
  · -- the invariant of the result
    have hvacw : vac.w = none := rfl
    refine ⟨?_, ?_, ?_, ?_, ?_, ?_, ?_, ?_, ?_, ?_⟩
    · show s2.nodes.length ≤ s2.fin
      rw [hF.lenN, hfin2]; exact hinv.lenN
    · show (s2.edges.set e vac).length ≤ s2.fin
      rw [List.length_set, hF.lenE, hfin2]; exact hinv.lenE
    · intro e' x3 h3 hv
      show x3.a = s2.fin ∧ x3.b = s2.fin
      by_cases he : e' = e
      · subst he
        have : (s2.edges.set e' vac)[e']? = some vac := List.getElem?_set_self hel2
        rw [show s3.edges = s2.edges.set e' vac from rfl, this] at h3
        cases h3; exact ⟨rfl, rfl⟩
      · rw [show s3.edges = s2.edges.set e vac from rfl, List.getElem?_set_ne (fun h' => he h'.symm)] at h3
        obtain ⟨x0, g1, g2, _, _, g5⟩ := hF.edge_rev e' x3 h3
        have := g5 (g2 ▸ hv); subst this
        rw [hfin2]; exact hinv.vacE e' x3 g1 hv
    · intro e' x3 h3 hl3 k hk
      show ∃ n, s2.nodes[x3.node k]? = some n ∧ Act d (x3.node k) n
      have he : e' ≠ e := by
        rintro rfl
        have : (s2.edges.set e' vac)[e']? = some vac := List.getElem?_set_self hel2
        rw [show s3.edges = s2.edges.set e' vac from rfl, this] at h3
        cases h3; simp [vac] at hl3
      rw [show s3.edges = s2.edges.set e vac from rfl, List.getElem?_set_ne (fun h' => he h'.symm)] at h3
      obtain ⟨x0, g1, g2, g3, g4, _⟩ := hF.edge_rev e' x3 h3
      have hnk : x3.node k = x0.node k := by unfold Edge.node; rw [g3, g4]
      obtain ⟨n, hn, hact⟩ := hinv.endp e' x0 g1 (g2 ▸ hl3) k hk
      obtain ⟨n2, k1, k2, _⟩ := hF.node _ n hn
      exact ⟨n2, hnk ▸ k1, by rw [hnk]; unfold Act at hact ⊢; rw [k2]; exact hact⟩
    · intro k hk
      show AdjK s2.fin s2.nodes (s2.edges.set e vac) d [] k
      rw [hfin2]
      apply AdjK.tombstone hvacw
      have hk01 : k = 0 ∨ k = 1 := by omega
      rcases hk01 with rfl | rfl
      · have := AdjK.frame_other hf2 (k' := 0) (by omega) (by omega) (by rw [hf1.fin_eq]; exact hadj1)
        rw [hf1.fin_eq] at this; exact this
      · rw [hf1.fin_eq] at hadj2; exact hadj2
    · -- free edge list: `e` is pushed in front
      obtain ⟨l, hl, hmem⟩ := hinv.freeE
      have hvac_same : ∀ y ∈ l, enext s2.edges 0 y = enext s.edges 0 y := by
        intro y hy
        obtain ⟨xy, g1, g2⟩ := (hmem y).1 hy
        obtain ⟨xy1, k1, _, _, _, _, k6⟩ := hf1.edge y xy g1
        have := k6 g2; subst this
        rw [hf2.enext_vacant k1 g2, hf1.enext_vacant g1 g2]
      have hel' : e ∉ l := by
        intro h'
        obtain ⟨xy, g1, g2⟩ := (hmem e).1 h'
        rw [hx] at g1; cases g1; rw [hw] at g2; cases g2
      refine ⟨e :: l, ?_, fun e' => ?_⟩
      · show Chain (enext (s2.edges.set e vac) 0) s2.fin e (e :: l)
        rw [hfin2]
        refine Chain.push hl (by have := hinv.lenE; omega) ?_ ?_
        · simp only [enext, List.getElem?_set_self hel2, Option.map_some, Edge.next_zero, vac]
          rw [hF.freeEdge_eq]
        · intro y hy
          have hye : e ≠ y := fun h' => hel' (h' ▸ hy)
          rw [← hvac_same y hy]
          unfold enext; rw [List.getElem?_set_ne hye]
      · show e' ∈ e :: l ↔ ∃ x3, (s2.edges.set e vac)[e']? = some x3 ∧ x3.w = none
        by_cases he : e' = e
        · subst he
          simp only [List.mem_cons, true_or, true_iff]
          exact ⟨vac, List.getElem?_set_self hel2, rfl⟩
        · rw [List.getElem?_set_ne (fun h' => he h'.symm)]
          simp only [List.mem_cons, he, false_or]
          rw [hmem e']
          constructor
          · rintro ⟨x0, g1, g2⟩
            obtain ⟨x3, k1, k2, _⟩ := hF.edge e' x0 g1
            exact ⟨x3, k1, k2.trans g2⟩
          · rintro ⟨x3, g1, g2⟩
            obtain ⟨x0, k1, k2, _⟩ := hF.edge_rev e' x3 g1
            exact ⟨x0, k1, k2 ▸ g2⟩
    · obtain ⟨l, hl, hmem, hb⟩ := hinv.freeN
      exact ⟨l, hF.freeN hl hmem hb⟩
    · intro i hi
      obtain ⟨n, hn, hv⟩ := hinv.det i hi
      obtain ⟨n2, k1, k2, _⟩ := hF.node i n hn
      exact ⟨n2, k1, k2.trans hv⟩
    · show s2.nodeCount = s2.nodes.countP (fun n => n.w.isSome) + _
      rw [hF.nodeCount_eq, hF.countN]; exact hinv.cntN
    · show s2.edgeCount - 1 = (s2.edges.set e vac).countP (fun x => x.w.isSome)
      rw [List.countP_set hel2, hcnt, hinv.cntE, hF.countE]
      have h1 : s2.edges[e] = x2 := by
        have := List.getElem?_eq_getElem hel2; rw [hx2] at this; cases this; rfl
      have h2 : x2.w.isSome = true := by rw [hw2, hw1]; exact hlive
      simp [h1, h2, vac]
  · -- the frame
    refine ⟨?_, hF.lenN, ?_, ?_, ?_, ?_, ?_⟩
    · have := hF.rest
      show s3 = _
      simp only [s3]
      rw [this]
    · show (s2.edges.set e vac).length = s.edges.length
      rw [List.length_set]; exact hF.lenE
    · exact hF.node
    · intro e' x0 he g1
      show ∃ x1, (s2.edges.set e vac)[e']? = some x1 ∧ _
      rw [List.getElem?_set_ne (fun h' => he h'.symm)]
      exact hF.edge e' x0 g1
    · exact ⟨vac, List.getElem?_set_self hel2, rfl⟩
    · show s2.edgeCount - 1 + 1 = s.edgeCount
      rw [hcnt]; omega


/-! ## Part 6: adding nodes -/

theorem getElem?_append_single {α : Type} {l : List α} {a b : α} {i : Nat} :
    (l ++ [a])[i]? = some b ↔ l[i]? = some b ∨ (i = l.length ∧ b = a) := by
  by_cases hi : i < l.length
  · rw [List.getElem?_append_left hi]
    constructor
    · exact .inl
    · rintro (h | ⟨h, _⟩)
      · exact h
      · omega
  · rw [List.getElem?_append_right (by omega)]
    have hn : l[i]? = none := List.getElem?_eq_none_iff.2 (by omega)
    rw [hn]
    by_cases hi' : i = l.length
    · subst hi'; simp [eq_comm]
    · have : i - l.length ≠ 0 := by omega
      have h2 : [a][i - l.length]? = none := by
        apply List.getElem?_eq_none_iff.2; simp; omega
      rw [h2]; simp [hi']

theorem canPush_spec {s : State} {len : Nat} (h : canPush s len = true) (hle : len ≤ s.fin) :
    len < s.fin ∧ mkIx s len = len := by
  unfold canPush mkIx at *
  by_cases hn : s.noLimit
  · simp [hn] at h ⊢; exact h
  · simp [hn] at h ⊢
    have hm : len % (s.fin + 1) = len := Nat.mod_eq_of_lt (by omega)
    rw [hm] at h
    refine ⟨by omega, ?_⟩
    first | exact hm | omega

theorem canPush_false {s : State} {len : Nat} (h : canPush s len = false) (hle : len ≤ s.fin) : len = s.fin := by
  unfold canPush mkIx at *
  by_cases hn : s.noLimit
  · simp [hn] at h; omega
  · simp [hn] at h
    have hm : len % (s.fin + 1) = len := Nat.mod_eq_of_lt (by omega)
    rw [hm] at h; exact h.symm

/-- appending a live node with empty adjacency lists -/
theorem InvG.push_live {s : State} {d : Option Nat} {fn fe : Nat} (hinv : InvG s d fn fe) (w : Int)
    (hlt : s.nodes.length < s.fin) :
    InvG { s with nodes := s.nodes ++ [{ w := some w, n0 := s.fin, n1 := s.fin }], nodeCount := s.nodeCount + 1 } d fn fe := by
  have hold : ∀ (i : Nat) (n : Node), s.nodes[i]? = some n →
      (s.nodes ++ [({ w := some w, n0 := s.fin, n1 := s.fin } : Node)])[i]? = some n :=
    fun i n hn => getElem?_append_single.2 (.inl hn)
  refine ⟨?_, hinv.lenE, hinv.vacE, ?_, ?_, hinv.freeE, ?_, ?_, ?_, hinv.cntE⟩
  · show (s.nodes ++ [_]).length ≤ s.fin
    simp; omega
  · intro e x hx hl k hk
    obtain ⟨n, hn, hact⟩ := hinv.endp e x hx hl k hk
    exact ⟨n, hold _ n hn, hact⟩
  · intro k hk i n hn hact
    rcases getElem?_append_single.1 hn with h | ⟨rfl, rfl⟩
    · exact hinv.adj k hk i n h hact
    · refine ⟨[], ?_, fun e => ?_⟩
      · have : ({ w := some w, n0 := s.fin, n1 := s.fin } : Node).next k = s.fin := by
          unfold Node.next; split <;> rfl
        rw [this]; exact .nil
      · simp only [List.not_mem_nil, not_false_eq_true, true_and, false_iff]
        rintro ⟨x, h1, h2, h3⟩
        obtain ⟨n, hn', _⟩ := hinv.endp e x h1 h2 k hk
        have := (List.getElem?_eq_some_iff.1 hn').1
        omega
  · obtain ⟨l, hl, hmem, hb⟩ := hinv.freeN
    refine ⟨l, hl.congr fun y hy => ?_, fun i => ?_, hb.congr fun i _ n hn => ⟨n, hold i n hn, rfl⟩⟩
    · obtain ⟨n, hn, _⟩ := (hmem y).1 hy
      unfold nfree; rw [hold y n hn, hn]
    · rw [hmem i]
      constructor
      · rintro ⟨n, h1, h2⟩; exact ⟨n, hold i n h1, h2⟩
      · rintro ⟨n, h1, h2, h3⟩
        rcases getElem?_append_single.1 h1 with h | ⟨_, rfl⟩
        · exact ⟨n, h, h2, h3⟩
        · simp at h2
  · intro i hi
    obtain ⟨n, hn, hv⟩ := hinv.det i hi
    exact ⟨n, hold i n hn, hv⟩
  · show s.nodeCount + 1 = (s.nodes ++ [_]).countP _ + _
    rw [List.countP_append, hinv.cntN]; simp; omega


/-- the node array after `occupy_vacant_node(idx, w)`, slot by slot -/
def occNode (fin idx prev next : Nat) (w : Int) (i : Nat) (n : Node) : Node :=
  if i = idx then { w := some w, n0 := fin, n1 := fin }
  else if i = prev then { n with n0 := next }
  else if i = next then { n with n1 := prev }
  else n

theorem occupy_nodes {s : State} {idx : Nat} {w : Int} {slot : Node}
    (hslot : s.nodes[idx]? = some slot) (hv : slot.w = none) (hlen : s.nodes.length ≤ s.fin)
    (hp : slot.n1 = s.fin ∨ slot.n1 < s.nodes.length) (hn : slot.n0 = s.fin ∨ slot.n0 < s.nodes.length)
    (hpi : slot.n1 ≠ idx) (hni : slot.n0 ≠ idx) (hpn : slot.n1 ≠ slot.n0 ∨ slot.n1 = s.fin) :
    ∃ s', occupyVacantNode s idx w = .ok s' ∧
      s' = { s with nodes := s'.nodes, freeNode := if s.freeNode = idx then slot.n0 else s.freeNode, nodeCount := s.nodeCount + 1 } ∧
      s'.nodes.length = s.nodes.length ∧
      ∀ (i : Nat) (n : Node), s.nodes[i]? = some n → s'.nodes[i]? = some (occNode s.fin idx slot.n1 slot.n0 w i n) := by
  have hil : idx < s.nodes.length := (List.getElem?_eq_some_iff.1 hslot).1
  unfold occupyVacantNode
  simp only [hslot, hv, Option.isSome_none, Bool.and_false, Bool.false_eq_true, if_false]
  by_cases h1 : slot.n1 = s.fin <;> by_cases h2 : slot.n0 = s.fin
  all_goals simp only [h1, h2, ne_eq, not_true_eq_false, not_false_eq_true, if_true, if_false, modifyNode]
  · refine ⟨_, rfl, rfl, by simp, fun i n hi => ?_⟩
    have hi' : i < s.nodes.length := (List.getElem?_eq_some_iff.1 hi).1
    simp only [List.getElem?_set, occNode]
    grind
  · have hnl : slot.n0 < s.nodes.length := by omega
    obtain ⟨nn, hnn⟩ : ∃ nn, s.nodes[slot.n0]? = some nn := ⟨_, List.getElem?_eq_getElem hnl⟩
    rw [List.getElem?_set_ne (fun h => hni h.symm), hnn]
    refine ⟨_, rfl, rfl, by simp, fun i n hi => ?_⟩
    have hi' : i < s.nodes.length := (List.getElem?_eq_some_iff.1 hi).1
    simp only [List.getElem?_set, occNode, List.length_set]
    grind
  · have hpl : slot.n1 < s.nodes.length := by omega
    obtain ⟨np, hnp⟩ : ∃ np, s.nodes[slot.n1]? = some np := ⟨_, List.getElem?_eq_getElem hpl⟩
    rw [List.getElem?_set_ne (fun h => hpi h.symm), hnp]
    refine ⟨_, rfl, rfl, by simp, fun i n hi => ?_⟩
    have hi' : i < s.nodes.length := (List.getElem?_eq_some_iff.1 hi).1
    simp only [List.getElem?_set, occNode, List.length_set]
    grind
  · have hpl : slot.n1 < s.nodes.length := by omega
    have hnl : slot.n0 < s.nodes.length := by omega
    obtain ⟨np, hnp⟩ : ∃ np, s.nodes[slot.n1]? = some np := ⟨_, List.getElem?_eq_getElem hpl⟩
    obtain ⟨nn, hnn⟩ : ∃ nn, s.nodes[slot.n0]? = some nn := ⟨_, List.getElem?_eq_getElem hnl⟩
    have hpn' : slot.n1 ≠ slot.n0 := by omega
    rw [List.getElem?_set_ne (fun h => hpi h.symm), hnp]
    simp only
    rw [List.getElem?_set_ne hpn', List.getElem?_set_ne (fun h => hni h.symm), hnn]
    refine ⟨_, rfl, rfl, by simp, fun i n hi => ?_⟩
    have hi' : i < s.nodes.length := (List.getElem?_eq_some_iff.1 hi).1
    simp only [List.getElem?_set, occNode, List.length_set]
    grind

namespace Back
variable {ns ns' : List Node}

theorem prev_snoc {P p i : Nat} {l1 l2 : List Nat} (h : Back ns P (l1 ++ p :: i :: l2)) :
    ∃ n, ns[i]? = some n ∧ n.n1 = p := by
  induction l1 generalizing P with
  | nil => exact h.2.1
  | cons y l1 ih => exact ih h.2

theorem suffix {P i : Nat} {l1 l2 : List Nat} (h : Back ns P (l1 ++ i :: l2)) : Back ns i l2 := by
  induction l1 generalizing P with
  | nil => exact h.2
  | cons y l1 ih => exact ih h.2

/-- give the first element of a list a new predecessor -/
theorem rehead {old new : Nat} {l2 : List Nat} (h : Back ns old l2)
    (hh : ∀ h t, l2 = h :: t → ∃ n', ns'[h]? = some n' ∧ n'.n1 = new)
    (ht : ∀ h t, l2 = h :: t → ∀ y ∈ t, ∀ n, ns[y]? = some n → ∃ n', ns'[y]? = some n' ∧ n'.n1 = n.n1) :
    Back ns' new l2 := by
  cases l2 with
  | nil => trivial
  | cons a t => exact ⟨hh a t rfl, h.2.congr (ht a t rfl)⟩

/-- keep a prefix (ending in `p`), replace what follows -/
theorem replace_tail {P p : Nat} {l1 rest l2 : List Nat} (h : Back ns P (l1 ++ p :: rest))
    (hsame : ∀ y ∈ l1 ++ [p], ∀ n, ns[y]? = some n → ∃ n', ns'[y]? = some n' ∧ n'.n1 = n.n1)
    (hl2 : Back ns' p l2) : Back ns' P (l1 ++ p :: l2) := by
  induction l1 generalizing P with
  | nil =>
    obtain ⟨⟨n, hn, hp⟩, _⟩ := h
    obtain ⟨n', hn', hp'⟩ := hsame p (by simp) n hn
    exact ⟨⟨n', hn', hp'.trans hp⟩, hl2⟩
  | cons y l1 ih =>
    obtain ⟨⟨n, hn, hp⟩, hr⟩ := h
    obtain ⟨n', hn', hp'⟩ := hsame y (by simp) n hn
    exact ⟨⟨n', hn', hp'.trans hp⟩, ih hr (fun z hz => hsame z (List.mem_cons_of_mem _ hz))⟩

end Back


/-- `occupy_vacant_node` on any vacant slot (the head for `try_add_node`, an arbitrary member of the free list
for `ensure_node_exists`) -/
theorem occupy_spec {s : State} {d : Option Nat} {fe idx : Nat} {w : Int} {slot : Node}
    (hinv : InvG s d s.freeNode fe) (hslot : s.nodes[idx]? = some slot) (hv : slot.w = none) (hd : d ≠ some idx) :
    ∃ s', occupyVacantNode s idx w = .ok s' ∧ InvG s' d s'.freeNode fe ∧
      s' = { s with nodes := s'.nodes, freeNode := s'.freeNode, nodeCount := s.nodeCount + 1 } ∧
      s'.nodes.length = s.nodes.length ∧
      (∀ (i : Nat) (n : Node), s.nodes[i]? = some n → ∃ n', s'.nodes[i]? = some n' ∧
        n'.w = (if i = idx then some w else n.w) ∧ (Act d i n → n' = n)) := by
  obtain ⟨l, hl, hmem, hb⟩ := hinv.freeN
  have hidx : idx ∈ l := (hmem idx).2 ⟨slot, hslot, hv, hd⟩
  obtain ⟨l1, l2, rfl⟩ := List.append_of_mem hidx
  have hnd := hl.nodup
  have hil : idx < s.nodes.length := (List.getElem?_eq_some_iff.1 hslot).1
  have hrange : ∀ y ∈ l1 ++ idx :: l2, y < s.nodes.length := fun y hy => by
    obtain ⟨n, hn, _⟩ := (hmem y).1 hy; exact (List.getElem?_eq_some_iff.1 hn).1
  -- the successor
  have hsuf : Chain (nfree s.nodes) s.fin idx (idx :: l2) := hl.suffix
  have hnx : nfree s.nodes idx = some slot.n0 := nfree_some.2 ⟨slot, hslot, rfl⟩
  have hl2 : Chain (nfree s.nodes) s.fin slot.n0 l2 := Chain.tail_of hsuf hnx
  have hnext : slot.n0 = s.fin ∨ slot.n0 ∈ l2 := hl2.head_mem_or_fin
  have hnd2 : idx ∉ l1 ∧ idx ∉ l2 ∧ ∀ y ∈ l1, y ∉ l2 := by
    have := hnd
    simp only [List.nodup_append, List.nodup_cons] at this
    refine ⟨fun h => this.2.2 idx h idx (by simp) rfl, this.2.1.1, fun y hy hy2 => this.2.2 y hy y (by simp [hy2]) rfl⟩
  -- the predecessor
  have hprev : (l1 = [] ∧ slot.n1 = s.fin) ∨ (∃ l1' p, l1 = l1' ++ [p] ∧ slot.n1 = p) := by
    rcases List.eq_nil_or_concat l1 with rfl | ⟨l1', p, rfl⟩
    · left
      obtain ⟨⟨n, hn, hp⟩, _⟩ := hb
      rw [hslot] at hn; cases hn; exact ⟨rfl, hp⟩
    · right
      refine ⟨l1', p, by simp, ?_⟩
      have hb' : Back s.nodes s.fin (l1' ++ p :: idx :: l2) := by simpa [List.append_assoc] using hb
      obtain ⟨n, hn, hp⟩ := hb'.prev_snoc
      rw [hslot] at hn; cases hn; exact hp
  have hp1 : slot.n1 = s.fin ∨ slot.n1 < s.nodes.length := by
    rcases hprev with ⟨_, h⟩ | ⟨l1', p, rfl, h⟩
    · exact .inl h
    · exact .inr (h ▸ hrange p (by simp))
  have hn1 : slot.n0 = s.fin ∨ slot.n0 < s.nodes.length := by
    rcases hnext with h | h
    · exact .inl h
    · exact .inr (hrange _ (by simp [h]))
  have hpi : slot.n1 ≠ idx := by
    rcases hprev with ⟨_, h⟩ | ⟨l1', p, rfl, h⟩
    · rw [h]; have := hinv.lenN; omega
    · rw [h]; rintro rfl; exact hnd2.1 (by simp)
  have hni : slot.n0 ≠ idx := by
    rcases hnext with h | h
    · rw [h]; have := hinv.lenN; omega
    · rintro h'; exact hnd2.2.1 (h' ▸ h)
  have hpn : slot.n1 ≠ slot.n0 ∨ slot.n1 = s.fin := by
    rcases hprev with ⟨_, h⟩ | ⟨l1', p, rfl, h⟩
    · exact .inr h
    · rcases hnext with h' | h'
      · by_cases hpf : slot.n1 = s.fin
        · exact .inr hpf
        · left; rw [h']; exact hpf
      · left; rw [h]; rintro rfl; exact hnd2.2.2 _ (by simp) h'
  obtain ⟨s', hrun, hs', hlen', hpt⟩ := occupy_nodes (w := w) hslot hv hinv.lenN hp1 hn1 hpi hni hpn
  have hfin' : s'.fin = s.fin := by rw [hs']
  have hedges' : s'.edges = s.edges := by rw [hs']
  -- members of the free list other than idx, prev, next are untouched; active nodes are untouched
  have hmemv : ∀ y ∈ l1 ++ idx :: l2, ∃ n, s.nodes[y]? = some n ∧ n.w = none ∧ d ≠ some y := fun y hy => (hmem y).1 hy
  have hnotfree : ∀ (i : Nat) (n : Node), s.nodes[i]? = some n → Act d i n → i ∉ l1 ++ idx :: l2 := by
    intro i n hn hact hi
    obtain ⟨n', hn', hv', hd'⟩ := hmemv i hi
    rw [hn] at hn'; cases hn'
    unfold Act at hact; rw [hv'] at hact; simp at hact; exact hd' hact
  have hprev_mem : slot.n1 = s.fin ∨ slot.n1 ∈ l1 := by
    rcases hprev with ⟨_, h⟩ | ⟨l1', p, rfl, h⟩
    · exact .inl h
    · exact .inr (by simp [h])
  have hactsame : ∀ (i : Nat) (n : Node), s.nodes[i]? = some n → Act d i n → occNode s.fin idx slot.n1 slot.n0 w i n = n := by
    intro i n hn hact
    have hi := hnotfree i n hn hact
    have hil' : i < s.nodes.length := (List.getElem?_eq_some_iff.1 hn).1
    have h1 : i ≠ idx := fun h => hi (by simp [h])
    have h2 : i ≠ slot.n1 := by
      rcases hprev_mem with h | h
      · rw [h]; have := hinv.lenN; omega
      · rintro rfl; exact hi (by simp [h])
    have h3 : i ≠ slot.n0 := by
      rcases hnext with h | h
      · rw [h]; have := hinv.lenN; omega
      · rintro rfl; exact hi (by simp [h])
    simp [occNode, h1, h2, h3]
  have hw' : ∀ (i : Nat) (n : Node), (occNode s.fin idx slot.n1 slot.n0 w i n).w = if i = idx then some w else n.w := by
    intro i n
    by_cases h1 : i = idx
    · simp [occNode, h1]
    · by_cases h2 : i = slot.n1
      · subst h2; simp [occNode, h1]
      · by_cases h3 : i = slot.n0
        · subst h3; simp [occNode, h1, h2]
        · simp [occNode, h1, h2, h3]
  have hsub : ∀ y, y ∈ l1 ++ l2 → y ∈ l1 ++ idx :: l2 := by
    intro y hy
    rcases List.mem_append.1 hy with h | h
    · exact List.mem_append_left _ h
    · exact List.mem_append_right _ (List.mem_cons_of_mem _ h)
  have hsub' : ∀ y, y ∈ l1 ++ idx :: l2 → y ≠ idx → y ∈ l1 ++ l2 := by
    intro y hy hne
    rcases List.mem_append.1 hy with h | h
    · exact List.mem_append_left _ h
    · rcases List.mem_cons.1 h with h | h
      · exact absurd h hne
      · exact List.mem_append_right _ h
  refine ⟨s', hrun, ?_, ?_, hlen', ?_⟩
  · refine ⟨by rw [hlen', hfin']; exact hinv.lenN, by rw [hedges', hfin']; exact hinv.lenE,
      by rw [hedges', hfin']; exact hinv.vacE, ?_, ?_, by rw [hedges', hfin']; exact hinv.freeE, ?_, ?_, ?_,
      by rw [hedges', show s'.edgeCount = s.edgeCount by rw [hs']]; exact hinv.cntE⟩
    · -- endpoints stay active
      intro e x hx hlx k hk
      rw [hedges'] at hx
      obtain ⟨n, hn, hact⟩ := hinv.endp e x hx hlx k hk
      refine ⟨n, ?_, hact⟩
      rw [hpt _ n hn, hactsame _ n hn hact]
    · -- adjacency lists
      intro k hk i n' hn' hact'
      rw [hfin', hedges']
      have hi' : i < s.nodes.length := hlen' ▸ (List.getElem?_eq_some_iff.1 hn').1
      have hn0 := hpt i s.nodes[i] (List.getElem?_eq_getElem hi')
      rw [hn'] at hn0; cases hn0
      by_cases hii : i = idx
      · subst hii
        have hsl : s.nodes[i] = slot := by
          have := List.getElem?_eq_getElem hi'; rw [hslot] at this; cases this; rfl
        refine ⟨[], ?_, fun e => ?_⟩
        · simp only [occNode, if_true]
          have : ({ w := some w, n0 := s.fin, n1 := s.fin } : Node).next k = s.fin := by
            unfold Node.next; split <;> rfl
          rw [this]; exact .nil
        · simp only [List.not_mem_nil, not_false_eq_true, true_and, false_iff]
          rintro ⟨x, h1, h2, h3⟩
          obtain ⟨n, hn, hact⟩ := hinv.endp e x h1 h2 k hk
          rw [h3] at hn hact
          rw [hslot] at hn; cases hn
          unfold Act at hact; rw [hv] at hact; simp at hact; exact hd hact
      · have hact0 : Act d i s.nodes[i] := by
          unfold Act at hact' ⊢; rw [hw'] at hact'; simpa [hii] using hact'
        rw [hactsame i _ (List.getElem?_eq_getElem hi') hact0]
        exact hinv.adj k hk i _ (List.getElem?_eq_getElem hi') hact0
    · -- the free node list without idx
      rw [hfin']
      have hn0same : ∀ y ∈ l1 ++ l2, y ≠ slot.n1 → ∀ n, s.nodes[y]? = some n →
          ∃ n', s'.nodes[y]? = some n' ∧ n'.n0 = n.n0 := by
        intro y hy hyp n hn
        refine ⟨_, hpt y n hn, ?_⟩
        have : y ≠ idx := by rintro rfl; simp at hy; exact hy.elim hnd2.1 hnd2.2.1
        unfold occNode; simp only [this, hyp, if_false]; split <;> rfl
      have hn1same : ∀ y ∈ l1 ++ l2, y ≠ slot.n0 → ∀ n, s.nodes[y]? = some n →
          ∃ n', s'.nodes[y]? = some n' ∧ n'.n1 = n.n1 := by
        intro y hy hyp n hn
        refine ⟨_, hpt y n hn, ?_⟩
        have : y ≠ idx := by rintro rfl; simp at hy; exact hy.elim hnd2.1 hnd2.2.1
        unfold occNode; simp only [this, hyp, if_false]; split <;> rfl
      have hmem' : ∀ i, i ∈ l1 ++ l2 ↔ ∃ n, s'.nodes[i]? = some n ∧ n.w = none ∧ d ≠ some i := by
        intro i
        constructor
        · intro hi
          obtain ⟨n, hn, hvn, hdn⟩ := hmemv i (hsub i hi)
          have : i ≠ idx := by rintro rfl; simp at hi; exact hi.elim hnd2.1 hnd2.2.1
          exact ⟨_, hpt i n hn, by rw [hw']; simp [this, hvn], hdn⟩
        · rintro ⟨n', hn', hvn, hdn⟩
          have hi' : i < s.nodes.length := hlen' ▸ (List.getElem?_eq_some_iff.1 hn').1
          have hn0 := hpt i s.nodes[i] (List.getElem?_eq_getElem hi')
          rw [hn'] at hn0; cases hn0
          rw [hw'] at hvn
          by_cases hii : i = idx
          · simp [hii] at hvn
          · simp only [hii, if_false] at hvn
            exact hsub' i ((hmem i).2 ⟨_, List.getElem?_eq_getElem hi', hvn, hdn⟩) hii
      have hnext_head : ∀ h t, l2 = h :: t → h = slot.n0 := by
        intro h t hl2'; subst hl2'
        exact (Chain.cons_iff.1 hl2).1
      rcases hprev with ⟨rfl, hp⟩ | ⟨l1', p, rfl, hp⟩
      · -- idx was the head
        have hhead : s.freeNode = idx := ((Chain.cons_iff.1 hl).1).symm
        have hfn' : s'.freeNode = slot.n0 := by rw [hs']; simp [hhead]
        simp only [List.nil_append] at *
        refine ⟨l2, ?_, hmem', ?_⟩
        · rw [hfn']
          refine Chain.unlink_head hsuf hnx fun y hy => ?_
          obtain ⟨n, hn, _⟩ := hmemv y (by simp [hy])
          have hyp : y ≠ slot.n1 := by rw [hp]; have := hinv.lenN; have := hrange y (by simp [hy]); omega
          obtain ⟨n', hn', h0⟩ := hn0same y hy hyp n hn
          unfold nfree; rw [hn', hn]; simp [h0]
        · refine hb.2.rehead (new := s.fin) ?_ ?_
          · intro h t hl2'
            obtain ⟨n, hn, _⟩ := hmemv h (by simp [hl2'])
            refine ⟨_, hpt h n hn, ?_⟩
            have h1 : h ≠ idx := by rintro rfl; exact hnd2.2.1 (by simp [hl2'])
            have h2 : h ≠ slot.n1 := by rw [hp]; have := hinv.lenN; have := hrange h (by simp [hl2']); omega
            have h3 : h = slot.n0 := hnext_head h t hl2'
            have h1' : slot.n0 ≠ idx := h3 ▸ h1
            have h2' : slot.n0 ≠ s.fin := by rw [← h3, ← hp]; exact h2
            rw [h3]; simp [occNode, h1', h2', hp]
          · intro h t hl2' y hy n hn
            have hyn : y ≠ slot.n0 := by
              rw [← hnext_head h t hl2']; rintro rfl
              have := hl2.nodup; rw [hl2'] at this; exact (List.nodup_cons.1 this).1 hy
            exact hn1same y (by simp [hl2', hy]) hyn n hn
      · -- idx had the predecessor p
        have hl' : Chain (nfree s.nodes) s.fin s.freeNode (l1' ++ p :: idx :: l2) := by
          simpa [List.append_assoc] using hl
        have hb' : Back s.nodes s.fin (l1' ++ p :: idx :: l2) := by simpa [List.append_assoc] using hb
        have hpne : p ≠ idx := by rintro rfl; exact hnd2.1 (by simp)
        have hhead : s.freeNode ≠ idx := by
          intro h'
          have hh := hl'.head_mem_or_fin
          cases l1' with
          | nil =>
            simp only [List.nil_append] at hl'
            exact hpne ((Chain.cons_iff.1 hl').1.trans h')
          | cons z t =>
            simp only [List.cons_append] at hl'
            have : z = idx := (Chain.cons_iff.1 hl').1.trans h'
            subst this; exact hnd2.1 (by simp)
        have hfn' : s'.freeNode = s.freeNode := by rw [hs']; simp [hhead]
        have hpn0 : p ≠ slot.n0 := by
          rcases hnext with h | h
          · rw [h]; have := hinv.lenN; have := hrange p (by simp); omega
          · rintro rfl; exact hnd2.2.2 _ (by simp) h
        refine ⟨l1' ++ p :: l2, ?_, ?_, ?_⟩
        · rw [hfn']
          refine Chain.unlink_mid hl' hnx ?_ fun y hy => ?_
          · obtain ⟨n, hn, _⟩ := hmemv p (by simp)
            unfold nfree; rw [hpt p n hn]
            simp [occNode, hpne, hp]
          · have hy' : y ∈ (l1' ++ [p]) ++ l2 := by
              rcases List.mem_append.1 hy with h | h
              · exact List.mem_append_left _ (List.mem_append_left _ h)
              · exact List.mem_append_right _ h
            obtain ⟨n, hn, _⟩ := hmemv y (hsub y hy')
            have hyp : y ≠ slot.n1 := by
              rw [hp]; rintro rfl
              have := hnd; simp [List.nodup_append, List.nodup_cons] at this hy
              grind
            obtain ⟨n', hn', h0⟩ := hn0same y hy' hyp n hn
            unfold nfree; rw [hn', hn]; simp [h0]
        · intro i; rw [← hmem' i]; simp
        · refine hb'.replace_tail (fun y hy n hn => ?_) ?_
          · have hy1 : y ∈ l1' ++ [p] := hy
            have hyn : y ≠ slot.n0 := by
              rcases hnext with h | h
              · rw [h]; have := hinv.lenN; have := hrange y (List.mem_append_left _ hy1); omega
              · rintro rfl; exact hnd2.2.2 _ hy1 h
            exact hn1same y (List.mem_append_left _ hy1) hyn n hn
          · have hbs : Back s.nodes idx l2 := by
              have : Back s.nodes s.fin ((l1' ++ [p]) ++ idx :: l2) := by simpa [List.append_assoc] using hb'
              exact this.suffix
            refine hbs.rehead (new := p) ?_ ?_
            · intro h t hl2'
              obtain ⟨n, hn, _⟩ := hmemv h (by simp [hl2'])
              refine ⟨_, hpt h n hn, ?_⟩
              have h1 : h ≠ idx := by rintro rfl; exact hnd2.2.1 (by simp [hl2'])
              have h3 : h = slot.n0 := hnext_head h t hl2'
              have h1' : slot.n0 ≠ idx := h3 ▸ h1
              have h2' : slot.n0 ≠ p := fun h' => hpn0 h'.symm
              rw [h3]; simp [occNode, h1', h2', hp]
            · intro h t hl2' y hy n hn
              have hyn : y ≠ slot.n0 := by
                rw [← hnext_head h t hl2']; rintro rfl
                have := hl2.nodup; rw [hl2'] at this; exact (List.nodup_cons.1 this).1 hy
              exact hn1same y (by simp [hl2', hy]) hyn n hn
    · intro i hi
      obtain ⟨n, hn, hvn⟩ := hinv.det i hi
      refine ⟨_, hpt i n hn, ?_⟩
      rw [hw']
      have : i ≠ idx := by rintro rfl; exact hd hi
      simp [this, hvn]
    · -- one more live node
      have hmapw : s'.nodes.map (·.w) = (s.nodes.map (·.w)).set idx (some w) := by
        apply List.ext_getElem?
        intro i
        simp only [List.getElem?_map, List.getElem?_set, List.length_map]
        by_cases hi' : i < s.nodes.length
        · rw [hpt i s.nodes[i] (List.getElem?_eq_getElem hi'), List.getElem?_eq_getElem hi']
          simp only [Option.map_some, hw']
          by_cases hii : i = idx
          · subst hii; simp [hi']
          · have hii' : idx ≠ i := fun h => hii h.symm
            simp [hii, hii']
        · have h1 : s'.nodes[i]? = none := List.getElem?_eq_none_iff.2 (by omega)
          have h2 : s.nodes[i]? = none := List.getElem?_eq_none_iff.2 (by omega)
          have : idx ≠ i := by omega
          simp [h1, h2, this]
      have e1 : ∀ l : List Node, l.countP (fun n => n.w.isSome) = (l.map (·.w)).countP Option.isSome := by
        intro l; rw [List.countP_map]; rfl
      have hcnt : s'.nodeCount = s.nodeCount + 1 := by rw [hs']
      rw [hcnt, e1, hmapw, List.countP_set (by simpa using hil), hinv.cntN, e1]
      have : (s.nodes.map (·.w))[idx]'(by simpa using hil) = none := by
        simp only [List.getElem_map]
        have := List.getElem?_eq_getElem hil; rw [hslot] at this; cases this; exact hv
      simp [this]; omega
  · have hfree : s'.freeNode = (if s.freeNode = idx then slot.n0 else s.freeNode) := by rw [hs']
    rw [hfree]; exact hs'
  · intro i n hn
    refine ⟨_, hpt i n hn, hw' i n, fun hact => hactsame i n hn hact⟩


theorem Chain.of_head_fin {nxt : Nat → Option Nat} {fin : Nat} {l : List Nat} (h : Chain nxt fin fin l) : l = [] := by
  cases h with
  | nil => rfl
  | cons h1 _ _ => exact absurd rfl h1

theorem inv_empty (directed : Bool) (fin : Nat) (noLimit debug : Bool) : Inv (empty directed fin noLimit debug) := by
  refine ⟨by simp [empty], by simp [empty], ?_, ?_, ?_, ⟨[], .nil, by simp [empty]⟩, ⟨[], .nil, by simp [empty], trivial⟩, ?_, by simp [empty], by simp [empty]⟩
  · intro e x hx; simp [empty] at hx
  · intro e x hx; simp [empty] at hx
  · intro k _ i n hn; simp [empty] at hn
  · intro i hi; cases hi

/-- `try_add_node`: either a fresh index is handed out and the invariant is kept, or the index space is
exhausted and nothing changes -/
theorem tryAddNode_spec {s : State} {d : Option Nat} {fe : Nat} (w : Int) (hinv : InvG s d s.freeNode fe) :
    (∃ s' i, tryAddNode s w = .ok (s', .ok i) ∧ InvG s' d s'.freeNode fe ∧
        nodeWeight s i = none ∧ i < s.fin ∧ d ≠ some i ∧ s'.edges = s.edges ∧ s'.fin = s.fin ∧ s'.freeEdge = s.freeEdge ∧
        s'.edgeCount = s.edgeCount ∧ s'.debug = s.debug ∧ s'.directed = s.directed ∧ s'.noLimit = s.noLimit ∧
        s'.nodes.map (·.w) = SGSpec.setAt (s.nodes.map (·.w)) i (some w)) ∨
    (tryAddNode s w = .ok (s, .error .nodeIxLimit) ∧ s.nodeCount + (if d.isSome then 0 else 0) = s.nodeCount ∧
        s.nodes.length = s.fin ∧ s.freeNode = s.fin) := by
  obtain ⟨l, hl, hmem, hb⟩ := hinv.freeN
  by_cases hf : s.freeNode = s.fin
  · -- no vacancy: push
    by_cases hc : canPush s s.nodes.length = true
    · left
      obtain ⟨hlt, hix⟩ := canPush_spec hc hinv.lenN
      have hinv' := hinv.push_live w hlt
      refine ⟨{ s with nodes := s.nodes ++ [{ w := some w, n0 := s.fin, n1 := s.fin }], nodeCount := s.nodeCount + 1 },
        s.nodes.length, ?_, ?_, ?_, hlt, ?_, rfl, rfl, rfl, rfl, rfl, rfl, rfl, ?_⟩
      · simp [tryAddNode, hf, pushNode, hc, hix]
      · exact hinv'
      · simp [nodeWeight]
      · intro hd
        obtain ⟨n, hn, _⟩ := hinv.det _ hd
        have := (List.getElem?_eq_some_iff.1 hn).1; omega
      · simp [SGSpec.setAt]
    · right
      have hc' : canPush s s.nodes.length = false := by simpa using hc
      refine ⟨by simp [tryAddNode, hf, pushNode, hc'], by simp, canPush_false hc' hinv.lenN, hf⟩
  · left
    have hhead : s.freeNode ∈ l := by
      rcases hl.head_mem_or_fin with h | h
      · exact absurd h hf
      · exact h
    obtain ⟨slot, hslot, hv, hd⟩ := (hmem _).1 hhead
    obtain ⟨s', hrun, hinv', hs', hlen', hpt⟩ := occupy_spec (w := w) hinv hslot hv hd
    have hil : s.freeNode < s.nodes.length := (List.getElem?_eq_some_iff.1 hslot).1
    refine ⟨s', s.freeNode, ?_, hinv', ?_, by have := hinv.lenN; omega, hd, by rw [hs'], by rw [hs'], by rw [hs'],
      by rw [hs'], by rw [hs'], by rw [hs'], by rw [hs'], ?_⟩
    · simp [tryAddNode, hf, hrun]
    · simp [nodeWeight, hslot, hv]
    · apply List.ext_getElem?
      intro i
      simp only [SGSpec.setAt, List.length_map, hil, if_true, List.getElem?_map, List.getElem?_set]
      by_cases hi : i < s.nodes.length
      · obtain ⟨n', hn', hw', _⟩ := hpt i s.nodes[i] (List.getElem?_eq_getElem hi)
        rw [hn', List.getElem?_eq_getElem hi]
        by_cases hii : i = s.freeNode
        · subst hii; simp [hw', hi]
        · have hii' : s.freeNode ≠ i := fun h => hii h.symm
          simp [hw', hii, hii']
      · have h1 : s'.nodes[i]? = none := List.getElem?_eq_none_iff.2 (by omega)
        have h2 : s.nodes[i]? = none := List.getElem?_eq_none_iff.2 (by omega)
        have : s.freeNode ≠ i := by omega
        simp [h1, h2, this]


/-! ## Part 7: adding edges -/

/-- the node array after the linking step of `try_add_edge`, slot by slot -/
def linkNode (a b idx i : Nat) (n : Node) : Node :=
  { w := n.w, n0 := if i = a then idx else n.n0, n1 := if i = b then idx else n.n1 }

theorem linkNodes_ok {nodes nodes' : List Node} {a b idx x0 x1 : Nat}
    (h : linkNodes nodes a b idx = .ok (nodes', x0, x1)) :
    ∃ an bn, nodes[a]? = some an ∧ an.w.isSome ∧ nodes[b]? = some bn ∧ bn.w.isSome ∧ x0 = an.n0 ∧ x1 = bn.n1 ∧
      nodes'.length = nodes.length ∧
      ∀ (i : Nat) (n : Node), nodes[i]? = some n → nodes'[i]? = some (linkNode a b idx i n) := by
  unfold linkNodes at h
  split at h
  · cases h
  · split at h
    · rename_i hab
      subst hab
      split at h
      · cases h
      · rename_i an han
        split at h
        · cases h
        · rename_i hw
          cases h
          have hal : a < nodes.length := (List.getElem?_eq_some_iff.1 han).1
          have hw' : an.w.isSome = true := by cases hx : an.w <;> simp_all
          refine ⟨an, an, han, hw', han, hw', rfl, rfl, by simp, fun i n hn => ?_⟩
          simp only [List.getElem?_set, linkNode]
          by_cases hi : a = i
          · subst hi; rw [han] at hn; cases hn; simp [hal]
          · have hi' : i ≠ a := fun h => hi h.symm
            simp [hi, hi', hn]
    · rename_i hab
      split at h
      · rename_i an bn han hbn
        split at h
        · cases h
        · split at h
          · cases h
          · rename_i hwa hwb
            cases h
            have hal : a < nodes.length := (List.getElem?_eq_some_iff.1 han).1
            have hbl : b < nodes.length := (List.getElem?_eq_some_iff.1 hbn).1
            have hwa' : an.w.isSome = true := by cases hx : an.w <;> simp_all
            have hwb' : bn.w.isSome = true := by cases hx : bn.w <;> simp_all
            refine ⟨an, bn, han, hwa', hbn, hwb', rfl, rfl, by simp, fun i n hn => ?_⟩
            simp only [List.getElem?_set, linkNode, List.length_set]
            by_cases hia : i = a
            · subst hia
              have hib : b ≠ i := fun h => hab h.symm
              rw [han] at hn; cases hn
              simp [hib, hal, hab]
            · by_cases hib : i = b
              · subst hib
                rw [hbn] at hn; cases hn
                simp [hbl, hia]
              · have h1 : a ≠ i := fun h => hia h.symm
                have h2 : b ≠ i := fun h => hib h.symm
                simp [h1, h2, hia, hib, hn]
      · cases h

theorem linkNodes_err {nodes : List Node} {a b idx i : Nat} (h : linkNodes nodes a b idx = .error i) :
    (i = a ∨ i = b) ∧ ∀ n, nodes[i]? = some n → n.w = none := by
  unfold linkNodes at h
  split at h
  · rename_i hm
    cases h
    refine ⟨by omega, fun n hn => ?_⟩
    have := (List.getElem?_eq_some_iff.1 hn).1; omega
  · rename_i hm
    split at h
    · rename_i hab; subst hab
      split at h
      · cases h; exact ⟨.inl rfl, fun n hn => by simp_all⟩
      · rename_i an han
        split at h
        · rename_i hw; cases h
          exact ⟨.inl rfl, fun n hn => by rw [han] at hn; cases hn; simpa using hw⟩
        · cases h
    · split at h
      · rename_i an bn han hbn
        split at h
        · rename_i hw; cases h
          exact ⟨.inl rfl, fun n hn => by rw [han] at hn; cases hn; simpa using hw⟩
        · split at h
          · rename_i hw; cases h
            exact ⟨.inr rfl, fun n hn => by rw [hbn] at hn; cases hn; simpa using hw⟩
          · cases h
      · rename_i hno
        cases h
        have ha : a < nodes.length := by omega
        have hb : b < nodes.length := by omega
        exact absurd (List.getElem?_eq_getElem hb) (hno _ _ (List.getElem?_eq_getElem ha))

/-- **cons**: a new live edge `idx` (appended, or a re-used vacant slot) with `node[k] = c` becomes the head of
`c`'s direction-`k` list -/
theorem AdjK.cons {fin : Nat} {ns ns' : List Node} {es es' : List Edge} {d : Option Nat} {k c idx : Nat}
    {nc : Node} {new : Edge}
    (hadj : AdjK fin ns es d [] k)
    (hsame : ∀ (y : Nat) (x : Edge), es[y]? = some x → x.w.isSome → es'[y]? = some x)
    (hnew : es'[idx]? = some new) (hnl : new.w.isSome) (hnk : new.node k = c) (hnn : new.next k = nc.next k)
    (hvac : ∀ x, es[idx]? = some x → x.w = none)
    (hother : ∀ (y : Nat) (x' : Edge), es'[y]? = some x' → x'.w.isSome → y = idx ∨ es[y]? = some x')
    (hidx : idx ≠ fin) (hlen : ns'.length = ns.length)
    (hnodes : ∀ (i : Nat) (n : Node), ns[i]? = some n → ∃ n', ns'[i]? = some n' ∧ n'.w = n.w ∧
      n'.next k = if i = c then idx else n.next k)
    (hc : ns[c]? = some nc) : AdjK fin ns' es' d [] k := by
  intro i n' hn' hact'
  have hi : i < ns.length := hlen ▸ (List.getElem?_eq_some_iff.1 hn').1
  obtain ⟨n'', h1, hw, hnx⟩ := hnodes i ns[i] (List.getElem?_eq_getElem hi)
  rw [hn'] at h1; cases h1
  have hact : Act d i ns[i] := by unfold Act at hact' ⊢; rw [← hw]; exact hact'
  obtain ⟨l, hl, hmem⟩ := hadj i _ (List.getElem?_eq_getElem hi) hact
  have hlive : ∀ y ∈ l, ∃ x, es[y]? = some x ∧ x.w.isSome ∧ x.node k = i := fun y hy => ((hmem y).1 hy).2
  have hcongr : ∀ y ∈ l, enext es' k y = enext es k y := by
    intro y hy
    obtain ⟨x, hx, hxl, _⟩ := hlive y hy
    unfold enext; rw [hsame y x hx hxl, hx]
  by_cases hic : i = c
  · subst hic
    have : ns[i] = nc := by
      have := List.getElem?_eq_getElem hi; rw [hc] at this; cases this; rfl
    rw [this] at hl
    refine ⟨idx :: l, ?_, fun e => ?_⟩
    · rw [hnx]; simp only [if_true]
      refine Chain.push hl hidx ?_ hcongr
      unfold enext; rw [hnew]; simp [hnn]
    · simp only [List.not_mem_nil, not_false_eq_true, true_and]
      constructor
      · intro he
        rcases List.mem_cons.1 he with rfl | he
        · exact ⟨new, hnew, hnl, hnk⟩
        · obtain ⟨x, hx, hxl, hxk⟩ := hlive e he
          exact ⟨x, hsame e x hx hxl, hxl, hxk⟩
      · rintro ⟨x', hx', hxl, hxk⟩
        rcases hother e x' hx' hxl with rfl | hold
        · exact List.mem_cons_self
        · exact List.mem_cons_of_mem _ ((hmem e).2 ⟨by simp, x', hold, hxl, hxk⟩)
  · refine ⟨l, ?_, fun e => ?_⟩
    · rw [hnx]; simp only [hic, if_false]
      exact hl.congr hcongr
    · simp only [List.not_mem_nil, not_false_eq_true, true_and]
      constructor
      · intro he
        obtain ⟨x, hx, hxl, hxk⟩ := hlive e he
        exact ⟨x, hsame e x hx hxl, hxl, hxk⟩
      · rintro ⟨x', hx', hxl, hxk⟩
        rcases hother e x' hx' hxl with rfl | hold
        · rw [hnew] at hx'; cases hx'
          exact absurd (hnk.symm.trans hxk) (fun h => hic h.symm)
        · exact (hmem e).2 ⟨by simp, x', hold, hxl, hxk⟩


/-- abstraction to the reference multigraph: forget `next` pointers, free lists and counters -/
def absEdge (x : Edge) : Option SGSpec.SEdge := x.w.map (fun w => ⟨x.a, x.b, w⟩)
def abs (s : State) : SGSpec.Spec :=
  { directed := s.directed, nodes := s.nodes.map (·.w), edges := s.edges.map absEdge }

/-- node-array changes that keep weights and leave inactive (vacant, not detached) nodes alone -/
def NodesKeep (d : Option Nat) (ns ns' : List Node) : Prop :=
  ns'.length = ns.length ∧
  ∀ (i : Nat) (n : Node), ns[i]? = some n → ∃ n1 : Node, ns'[i]? = some n1 ∧ n1.w = n.w ∧ (¬ Act d i n → n1 = n)

namespace NodesKeep
variable {d : Option Nat} {ns ns' : List Node}

theorem rev (h : NodesKeep d ns ns') : ∀ (i : Nat) (n1 : Node), ns'[i]? = some n1 →
    ∃ n : Node, ns[i]? = some n ∧ n1.w = n.w ∧ (¬ Act d i n → n1 = n) := by
  intro i n1 hn1
  have hi : i < ns.length := h.1 ▸ (List.getElem?_eq_some_iff.1 hn1).1
  obtain ⟨n1', h1, h2⟩ := h.2 i ns[i] (List.getElem?_eq_getElem hi)
  rw [hn1] at h1; cases h1
  exact ⟨_, List.getElem?_eq_getElem hi, h2⟩

theorem map_w (h : NodesKeep d ns ns') : ns'.map (·.w) = ns.map (·.w) := by
  apply List.ext_getElem?
  intro i
  simp only [List.getElem?_map]
  by_cases hi : i < ns.length
  · obtain ⟨n1, h1, h2, _⟩ := h.2 i ns[i] (List.getElem?_eq_getElem hi)
    rw [h1, List.getElem?_eq_getElem hi]; simp [h2]
  · have := h.1
    rw [List.getElem?_eq_none_iff.2 (by omega), List.getElem?_eq_none_iff.2 (by omega)]

theorem count (h : NodesKeep d ns ns') : ns'.countP (fun n => n.w.isSome) = ns.countP (fun n => n.w.isSome) := by
  have e1 : ∀ l : List Node, l.countP (fun n => n.w.isSome) = (l.map (·.w)).countP Option.isSome := by
    intro l; rw [List.countP_map]; rfl
  rw [e1, e1, h.map_w]

theorem freeN (h : NodesKeep d ns ns') {fin fn : Nat} {l : List Nat}
    (hl : Chain (nfree ns) fin fn l)
    (hmem : ∀ i, i ∈ l ↔ ∃ n, ns[i]? = some n ∧ n.w = none ∧ d ≠ some i) (hb : Back ns fin l) :
    Chain (nfree ns') fin fn l ∧
    (∀ i, i ∈ l ↔ ∃ n, ns'[i]? = some n ∧ n.w = none ∧ d ≠ some i) ∧ Back ns' fin l := by
  have hsame : ∀ i ∈ l, ∀ n, ns[i]? = some n → ns'[i]? = some n := by
    intro i hi n hn
    obtain ⟨n', hn', hv, hd⟩ := (hmem i).1 hi
    rw [hn] at hn'; cases hn'
    obtain ⟨n1, g1, _, g3⟩ := h.2 i n hn
    have : ¬ Act d i n := by
      unfold Act; rw [hv]; simp; exact hd
    rw [g3 this] at g1; exact g1
  refine ⟨hl.congr fun y hy => ?_, fun i => ?_, hb.congr fun i hi n hn => ⟨n, hsame i hi n hn, rfl⟩⟩
  · obtain ⟨j, hj⟩ := hl.nxt_some hy
    obtain ⟨n, hn, _⟩ := nfree_some.1 hj
    unfold nfree; rw [hsame y hy n hn, hn]
  · rw [hmem i]
    constructor
    · rintro ⟨n, g1, g2, g3⟩
      obtain ⟨n1, k1, k2, _⟩ := h.2 i n g1
      exact ⟨n1, k1, k2.trans g2, g3⟩
    · rintro ⟨n1, g1, g2, g3⟩
      obtain ⟨n, k1, k2, _⟩ := h.rev i n1 g1
      exact ⟨n, k1, k2 ▸ g2, g3⟩

theorem det (h : NodesKeep d ns ns') (hd : ∀ i, d = some i → ∃ n, ns[i]? = some n ∧ n.w = none) :
    ∀ i, d = some i → ∃ n, ns'[i]? = some n ∧ n.w = none := by
  intro i hi
  obtain ⟨n, hn, hv⟩ := hd i hi
  obtain ⟨n1, k1, k2, _⟩ := h.2 i n hn
  exact ⟨n1, k1, k2.trans hv⟩

theorem act (h : NodesKeep d ns ns') {i : Nat} {n : Node} (hn : ns[i]? = some n) (ha : Act d i n) :
    ∃ n1, ns'[i]? = some n1 ∧ Act d i n1 := by
  obtain ⟨n1, k1, k2, _⟩ := h.2 i n hn
  exact ⟨n1, k1, by unfold Act at ha ⊢; rw [k2]; exact ha⟩

end NodesKeep

theorem linkNodes_keep {d : Option Nat} {nodes nodes' : List Node} {a b idx x0 x1 : Nat}
    (h : linkNodes nodes a b idx = .ok (nodes', x0, x1)) : NodesKeep d nodes nodes' := by
  obtain ⟨an, bn, han, hwa, hbn, hwb, _, _, hlen, hpt⟩ := linkNodes_ok h
  refine ⟨hlen, fun i n hn => ⟨_, hpt i n hn, rfl, fun hna => ?_⟩⟩
  have hia : i ≠ a := by
    rintro rfl; rw [han] at hn; cases hn; exact hna (.inl hwa)
  have hib : i ≠ b := by
    rintro rfl; rw [hbn] at hn; cases hn; exact hna (.inl hwb)
  simp [linkNode, hia, hib]

/-- what a successful `try_add_edge(a, b, w)` returning `e` does -/
structure AddEdgeOk (s s' : State) (a b : Nat) (w : Int) (e : Nat) : Prop where
  rest : s' = { s with nodes := s'.nodes, edges := s'.edges, freeEdge := s'.freeEdge, edgeCount := s.edgeCount + 1 }
  nodesW : s'.nodes.map (·.w) = s.nodes.map (·.w)
  edgesA : s'.edges.map absEdge = SGSpec.setAt (s.edges.map absEdge) e (some ⟨a, b, w⟩)
  fresh : edgeWeight s e = none
  lt : e < s.fin
  liveA : (nodeWeight s a).isSome
  liveB : (nodeWeight s b).isSome

/-- `try_add_edge` when the free edge list of the graph itself is empty (the push branch) -/
theorem tryAddEdge_push {s : State} {d : Option Nat} {fn fe : Nat} (a b : Nat) (w : Int)
    (hinv : InvG s d fn fe) (hfree : s.freeEdge = s.fin) :
    (tryAddEdge s a b w = .ok (s, .error .edgeIxLimit) ∧ s.edges.length = s.fin) ∨
    (∃ i, tryAddEdge s a b w = .ok (s, .error (.nodeMissed i)) ∧ (i = a ∨ i = b) ∧ nodeWeight s i = none) ∨
    (∃ s', tryAddEdge s a b w = .ok (s', .ok s.edges.length) ∧ InvG s' d fn fe ∧ s'.freeEdge = s.freeEdge ∧
      AddEdgeOk s s' a b w s.edges.length) := by
  by_cases hc : canPush s s.edges.length = true
  · obtain ⟨hlt, hix⟩ := canPush_spec hc hinv.lenE
    cases hlink : linkNodes s.nodes a b s.edges.length with
    | error i =>
      right; left
      obtain ⟨hi, hv⟩ := linkNodes_err hlink
      refine ⟨i, by simp [tryAddEdge, hfree, hc, hix, hlink], hi, ?_⟩
      unfold nodeWeight
      cases hn : s.nodes[i]? with
      | none => rfl
      | some n => simpa using hv n hn
    | ok r =>
      obtain ⟨nodes', x0, x1⟩ := r
      right; right
      obtain ⟨an, bn, han, hwa, hbn, hwb, hx0, hx1, hlen, hpt⟩ := linkNodes_ok hlink
      have hkeep : NodesKeep d s.nodes nodes' := linkNodes_keep hlink
      let new : Edge := { w := some w, n0 := x0, n1 := x1, a := a, b := b }
      let s' : State := { s with nodes := nodes', edges := s.edges ++ [new], edgeCount := s.edgeCount + 1 }
      have hold : ∀ (y : Nat) (x : Edge), s.edges[y]? = some x → (s.edges ++ [new])[y]? = some x :=
        fun y x hx => getElem?_append_single.2 (.inl hx)
      refine ⟨s', by simp [tryAddEdge, hfree, hc, hix, hlink, s', new], ?_, rfl, ?_⟩
      · refine ⟨by show nodes'.length ≤ s.fin; rw [hlen]; exact hinv.lenN,
          by show (s.edges ++ [new]).length ≤ s.fin; simp; omega, ?_, ?_, ?_, ?_, ?_, ?_, ?_, ?_⟩
        · intro e x hx hv
          rcases getElem?_append_single.1 hx with h | ⟨_, rfl⟩
          · exact hinv.vacE e x h hv
          · simp [new] at hv
        · intro e x hx hl k hk
          show ∃ n, nodes'[x.node k]? = some n ∧ Act d (x.node k) n
          rcases getElem?_append_single.1 hx with h | ⟨_, rfl⟩
          · obtain ⟨n, hn, hact⟩ := hinv.endp e x h hl k hk
            exact hkeep.act hn hact
          · have hk01 : k = 0 ∨ k = 1 := by omega
            rcases hk01 with rfl | rfl
            · exact hkeep.act han (.inl hwa)
            · exact hkeep.act hbn (.inl hwb)
        · intro k hk
          show AdjK s.fin nodes' (s.edges ++ [new]) d [] k
          have hk01 : k = 0 ∨ k = 1 := by omega
          have hvacuous : ∀ x, s.edges[s.edges.length]? = some x → x.w = none := by
            intro x hx; have := (List.getElem?_eq_some_iff.1 hx).1; omega
          have hother : ∀ (y : Nat) (x' : Edge), (s.edges ++ [new])[y]? = some x' → x'.w.isSome →
              y = s.edges.length ∨ s.edges[y]? = some x' := by
            intro y x' hx' _
            rcases getElem?_append_single.1 hx' with h | ⟨h, _⟩
            · exact .inr h
            · exact .inl h
          rcases hk01 with rfl | rfl
          · refine AdjK.cons (c := a) (nc := an) (new := new) (hinv.adj 0 (by omega)) (fun y x hx _ => hold y x hx)
              List.getElem?_concat_length rfl rfl (by simp [new, hx0]) hvacuous hother (by omega) hlen ?_ han
            intro i n hn
            exact ⟨_, hpt i n hn, rfl, by simp [linkNode]⟩
          · refine AdjK.cons (c := b) (nc := bn) (new := new) (hinv.adj 1 (by omega)) (fun y x hx _ => hold y x hx)
              List.getElem?_concat_length rfl rfl (by simp [new, hx1]) hvacuous hother (by omega) hlen ?_ hbn
            intro i n hn
            exact ⟨_, hpt i n hn, rfl, by simp [linkNode]⟩
        · obtain ⟨l, hl, hmem⟩ := hinv.freeE
          refine ⟨l, hl.congr fun y hy => ?_, fun e => ?_⟩
          · obtain ⟨x, hx, _⟩ := (hmem y).1 hy
            show enext (s.edges ++ [new]) 0 y = _
            unfold enext; rw [hold y x hx, hx]
          · rw [hmem e]
            constructor
            · rintro ⟨x, h1, h2⟩; exact ⟨x, hold e x h1, h2⟩
            · rintro ⟨x, h1, h2⟩
              rcases getElem?_append_single.1 h1 with h | ⟨_, rfl⟩
              · exact ⟨x, h, h2⟩
              · simp [new] at h2
        · obtain ⟨l, hl, hmem, hb⟩ := hinv.freeN
          exact ⟨l, hkeep.freeN hl hmem hb⟩
        · exact hkeep.det hinv.det
        · show s.nodeCount = nodes'.countP _ + _
          rw [hkeep.count]; exact hinv.cntN
        · show s.edgeCount + 1 = (s.edges ++ [new]).countP _
          rw [List.countP_append, hinv.cntE]; simp [new]
      · refine ⟨rfl, hkeep.map_w, ?_, ?_, hlt, ?_, ?_⟩
        · show (s.edges ++ [new]).map absEdge = _
          simp [SGSpec.setAt, absEdge, new]
        · simp [edgeWeight]
        · simp [nodeWeight, han, hwa]
        · simp [nodeWeight, hbn, hwb]
  · left
    have hc' : canPush s s.edges.length = false := by simpa using hc
    exact ⟨by simp [tryAddEdge, hfree, hc'], canPush_false hc' hinv.lenE⟩


theorem set_self_of_getElem? {α : Type} {l : List α} {i : Nat} {a : α} (h : l[i]? = some a) : l.set i a = l := by
  obtain ⟨hi, rfl⟩ := List.getElem?_eq_some_iff.1 h
  exact List.set_getElem_self hi

/-- `try_add_edge` re-using the head of the free edge list: on an error the slot is put back and the state is
exactly what it was -/
theorem tryAddEdge_reuse {s : State} {d : Option Nat} {fn : Nat} (a b : Nat) (w : Int)
    (hinv : InvG s d fn s.freeEdge) (hfree : s.freeEdge ≠ s.fin) :
    (∃ i, tryAddEdge s a b w = .ok (s, .error (.nodeMissed i)) ∧ (i = a ∨ i = b) ∧ nodeWeight s i = none) ∨
    (∃ s', tryAddEdge s a b w = .ok (s', .ok s.freeEdge) ∧ InvG s' d fn s'.freeEdge ∧
      AddEdgeOk s s' a b w s.freeEdge) := by
  obtain ⟨l, hl, hmem⟩ := hinv.freeE
  have hhead : s.freeEdge ∈ l := by
    rcases hl.head_mem_or_fin with h | h
    · exact absurd h hfree
    · exact h
  obtain ⟨slot, hslot, hv⟩ := (hmem _).1 hhead
  obtain ⟨hsa, hsb⟩ := hinv.vacE _ slot hslot hv
  have hel : s.freeEdge < s.edges.length := (List.getElem?_eq_some_iff.1 hslot).1
  obtain ⟨l', rfl⟩ : ∃ l', l = s.freeEdge :: l' := by
    cases l with
    | nil => simp at hhead
    | cons z t => exact ⟨t, by rw [(Chain.cons_iff.1 hl).1]⟩
  have hnx : enext s.edges 0 s.freeEdge = some slot.n0 := enext_some.2 ⟨slot, hslot, rfl⟩
  have hl' : Chain (enext s.edges 0) s.fin slot.n0 l' := Chain.tail_of hl hnx
  have hnd := List.nodup_cons.1 hl.nodup
  have hdbg : (s.debug && slot.w.isSome) = false := by rw [hv]; simp
  cases hlink : linkNodes s.nodes a b s.freeEdge with
  | error i =>
    left
    obtain ⟨hi, hvi⟩ := linkNodes_err hlink
    refine ⟨i, ?_, hi, ?_⟩
    · have hback : ({ w := none, n0 := slot.n0, n1 := slot.n1, a := s.fin, b := s.fin } : Edge) = slot := by
        cases slot; simp_all
      simp only [tryAddEdge, hfree, ne_eq, not_false_eq_true, if_true, hslot, hdbg, Bool.false_eq_true, if_false,
        hlink, modifyEdge, List.getElem?_set_self hel, List.set_set, hback, set_self_of_getElem? hslot]
    · unfold nodeWeight
      cases hn : s.nodes[i]? with
      | none => rfl
      | some n => simpa using hvi n hn
  | ok r =>
    obtain ⟨nodes', x0, x1⟩ := r
    right
    obtain ⟨an, bn, han, hwa, hbn, hwb, hx0, hx1, hlen, hpt⟩ := linkNodes_ok hlink
    have hkeep : NodesKeep d s.nodes nodes' := linkNodes_keep hlink
    let new : Edge := { w := some w, n0 := x0, n1 := x1, a := a, b := b }
    let s' : State := { s with nodes := nodes', edges := s.edges.set s.freeEdge new, freeEdge := slot.n0,
                               edgeCount := s.edgeCount + 1 }
    have hold : ∀ (y : Nat) (x : Edge), s.edges[y]? = some x → y ≠ s.freeEdge → (s.edges.set s.freeEdge new)[y]? = some x :=
      fun y x hx hy => by rw [List.getElem?_set_ne (fun h => hy h.symm)]; exact hx
    have hliveNe : ∀ (y : Nat) (x : Edge), s.edges[y]? = some x → x.w.isSome → y ≠ s.freeEdge := by
      rintro y x hx hxl rfl
      rw [hslot] at hx; cases hx; rw [hv] at hxl; simp at hxl
    have hrev : ∀ (y : Nat) (x' : Edge), (s.edges.set s.freeEdge new)[y]? = some x' →
        (y = s.freeEdge ∧ x' = new) ∨ (y ≠ s.freeEdge ∧ s.edges[y]? = some x') := by
      intro y x' hx'
      by_cases hy : y = s.freeEdge
      · subst hy; rw [List.getElem?_set_self hel] at hx'; cases hx'; exact .inl ⟨rfl, rfl⟩
      · rw [List.getElem?_set_ne (fun h => hy h.symm)] at hx'; exact .inr ⟨hy, hx'⟩
    refine ⟨s', ?_, ?_, ?_⟩
    · simp only [tryAddEdge, hfree, ne_eq, not_false_eq_true, if_true, hslot, hdbg, Bool.false_eq_true, if_false,
        hlink, modifyEdge, List.getElem?_set_self hel, List.set_set, s', new]
    · refine ⟨by show nodes'.length ≤ s.fin; rw [hlen]; exact hinv.lenN,
        by show (s.edges.set s.freeEdge new).length ≤ s.fin; rw [List.length_set]; exact hinv.lenE, ?_, ?_, ?_, ?_, ?_, ?_, ?_, ?_⟩
      · intro e x hx hvx
        rcases hrev e x hx with ⟨_, rfl⟩ | ⟨_, h⟩
        · simp [new] at hvx
        · exact hinv.vacE e x h hvx
      · intro e x hx hlx k hk
        show ∃ n, nodes'[x.node k]? = some n ∧ Act d (x.node k) n
        rcases hrev e x hx with ⟨_, rfl⟩ | ⟨_, h⟩
        · have hk01 : k = 0 ∨ k = 1 := by omega
          rcases hk01 with rfl | rfl
          · exact hkeep.act han (.inl hwa)
          · exact hkeep.act hbn (.inl hwb)
        · obtain ⟨n, hn, hact⟩ := hinv.endp e x h hlx k hk
          exact hkeep.act hn hact
      · intro k hk
        show AdjK s.fin nodes' (s.edges.set s.freeEdge new) d [] k
        have hk01 : k = 0 ∨ k = 1 := by omega
        have hvac : ∀ x, s.edges[s.freeEdge]? = some x → x.w = none := by
          intro x hx; rw [hslot] at hx; cases hx; exact hv
        have hother : ∀ (y : Nat) (x' : Edge), (s.edges.set s.freeEdge new)[y]? = some x' → x'.w.isSome →
            y = s.freeEdge ∨ s.edges[y]? = some x' := by
          intro y x' hx' _
          rcases hrev y x' hx' with ⟨h, _⟩ | ⟨_, h⟩
          · exact .inl h
          · exact .inr h
        rcases hk01 with rfl | rfl
        · refine AdjK.cons (c := a) (nc := an) (new := new) (hinv.adj 0 (by omega))
            (fun y x hx hxl => hold y x hx (hliveNe y x hx hxl))
            (List.getElem?_set_self hel) rfl rfl (by simp [new, hx0]) hvac hother hfree hlen ?_ han
          intro i n hn
          exact ⟨_, hpt i n hn, rfl, by simp [linkNode]⟩
        · refine AdjK.cons (c := b) (nc := bn) (new := new) (hinv.adj 1 (by omega))
            (fun y x hx hxl => hold y x hx (hliveNe y x hx hxl))
            (List.getElem?_set_self hel) rfl rfl (by simp [new, hx1]) hvac hother hfree hlen ?_ hbn
          intro i n hn
          exact ⟨_, hpt i n hn, rfl, by simp [linkNode]⟩
      · refine ⟨l', hl'.congr fun y hy => ?_, fun e => ?_⟩
        · have hye : y ≠ s.freeEdge := fun h => hnd.1 (h ▸ hy)
          show enext (s.edges.set s.freeEdge new) 0 y = _
          unfold enext; rw [List.getElem?_set_ne (fun h => hye h.symm)]
        · constructor
          · intro he
            have hye : e ≠ s.freeEdge := fun h => hnd.1 (h ▸ he)
            obtain ⟨x, hx, hvx⟩ := (hmem e).1 (List.mem_cons_of_mem _ he)
            exact ⟨x, hold e x hx hye, hvx⟩
          · rintro ⟨x, hx, hvx⟩
            rcases hrev e x hx with ⟨_, rfl⟩ | ⟨hne, h⟩
            · simp [new] at hvx
            · rcases List.mem_cons.1 ((hmem e).2 ⟨x, h, hvx⟩) with h' | h'
              · exact absurd h' hne
              · exact h'
      · obtain ⟨lf, hlf, hmemf, hb⟩ := hinv.freeN
        exact ⟨lf, hkeep.freeN hlf hmemf hb⟩
      · exact hkeep.det hinv.det
      · show s.nodeCount = nodes'.countP _ + _
        rw [hkeep.count]; exact hinv.cntN
      · show s.edgeCount + 1 = (s.edges.set s.freeEdge new).countP _
        rw [List.countP_set hel, hinv.cntE]
        have : s.edges[s.freeEdge] = slot := by
          have := List.getElem?_eq_getElem hel; rw [hslot] at this; cases this; rfl
        simp [this, hv, new]
    · refine ⟨rfl, hkeep.map_w, ?_, ?_, by have := hinv.lenE; omega, ?_, ?_⟩
      · show (s.edges.set s.freeEdge new).map absEdge = _
        rw [List.map_set]
        simp [SGSpec.setAt, hel, absEdge, new]
      · simp [edgeWeight, hslot, hv]
      · simp [nodeWeight, han, hwa]
      · simp [nodeWeight, hbn, hwb]


/-! ## Part 8: `remove_node` -/

theorem Chain.length_le {nxt : Nat → Option Nat} {fin i N : Nat} {l : List Nat} (h : Chain nxt fin i l)
    (hN : ∀ y ∈ l, y < N) : l.length ≤ N := by
  have := List.Nodup.length_le_of_subset (l₂ := List.range N) h.nodup (fun y hy => List.mem_range.2 (hN y hy))
  simpa using this

theorem RemFrame.edge_rev {d : Option Nat} {s s' : State} {e : Nat} (h : RemFrame d s s' e) :
    ∀ (e' : Nat) (x1 : Edge), e' ≠ e → s'.edges[e']? = some x1 →
      ∃ x : Edge, s.edges[e']? = some x ∧ x1.w = x.w ∧ x1.a = x.a ∧ x1.b = x.b := by
  intro e' x1 hne hx1
  have hi : e' < s.edges.length := h.lenE ▸ (List.getElem?_eq_some_iff.1 hx1).1
  obtain ⟨x1', g1, g2, g3, g4, _⟩ := h.edge e' s.edges[e'] hne (List.getElem?_eq_getElem hi)
  rw [hx1] at g1; cases g1
  exact ⟨_, List.getElem?_eq_getElem hi, g2, g3, g4⟩

/-- what the edge-removal loops of `remove_node a` (direction `k`) change -/
structure LoopFrame (a k : Nat) (s s' : State) : Prop where
  rest : s' = { s with nodes := s'.nodes, edges := s'.edges, freeEdge := s'.freeEdge, edgeCount := s'.edgeCount }
  nodes : NodesKeep (some a) s.nodes s'.nodes
  lenE : s'.edges.length = s.edges.length
  edge : ∀ (e : Nat) (x : Edge), s.edges[e]? = some x → ∃ x1 : Edge, s'.edges[e]? = some x1 ∧
    ((x1.w = x.w ∧ x1.a = x.a ∧ x1.b = x.b) ∨ (x1.w = none ∧ x.w.isSome ∧ x.node k = a))

theorem LoopFrame.refl (a k : Nat) (s : State) : LoopFrame a k s s :=
  ⟨rfl, ⟨rfl, fun _ n hn => ⟨n, hn, rfl, fun _ => rfl⟩⟩, rfl, fun _ x hx => ⟨x, hx, .inl ⟨rfl, rfl, rfl⟩⟩⟩

theorem NodesKeep.trans {d : Option Nat} {ns ns1 ns2 : List Node} (h1 : NodesKeep d ns ns1) (h2 : NodesKeep d ns1 ns2) :
    NodesKeep d ns ns2 := by
  refine ⟨h2.1.trans h1.1, fun i n hn => ?_⟩
  obtain ⟨n1, g1, g2, g3⟩ := h1.2 i n hn
  obtain ⟨n2, k1, k2, k3⟩ := h2.2 i n1 g1
  refine ⟨n2, k1, k2.trans g2, fun hna => ?_⟩
  have := g3 hna; subst this
  exact k3 hna

theorem LoopFrame.trans {a k : Nat} {s s1 s2 : State} (h1 : LoopFrame a k s s1) (h2 : LoopFrame a k s1 s2) :
    LoopFrame a k s s2 := by
  refine ⟨?_, h1.nodes.trans h2.nodes, h2.lenE.trans h1.lenE, fun e x hx => ?_⟩
  · have a1 := h1.rest; have a2 := h2.rest
    rw [a2, a1]
  · obtain ⟨x1, g1, g2⟩ := h1.edge e x hx
    obtain ⟨x2, k1, k2⟩ := h2.edge e x1 g1
    refine ⟨x2, k1, ?_⟩
    rcases g2 with ⟨g2, g3, g4⟩ | ⟨g2, g3, g4⟩
    · rcases k2 with ⟨k2, k3, k4⟩ | ⟨k2, k3, k4⟩
      · exact .inl ⟨k2.trans g2, k3.trans g3, k4.trans g4⟩
      · refine .inr ⟨k2, g2 ▸ k3, ?_⟩
        rw [← k4]; unfold Edge.node; rw [g3, g4]
    · rcases k2 with ⟨k2, _, _⟩ | ⟨_, k3, _⟩
      · exact .inr ⟨k2.trans g2, g3, g4⟩
      · rw [g2] at k3; simp at k3

theorem removeNodeEdges_spec {a k : Nat} (hk : k < 2) : ∀ (fuel : Nat) {s : State} {fn : Nat} {l : List Nat} {n : Node},
    InvG s (some a) fn s.freeEdge → s.nodes[a]? = some n → Chain (enext s.edges k) s.fin (n.next k) l → l.length < fuel →
    ∃ s', removeNodeEdges a k fuel s = .ok s' ∧ InvG s' (some a) fn s'.freeEdge ∧ LoopFrame a k s s' ∧
      (∀ (e : Nat) (x1 : Edge), s'.edges[e]? = some x1 → x1.w.isSome → x1.node k ≠ a) := by
  intro fuel
  induction fuel with
  | zero => intro s fn l n _ _ _ hlt; omega
  | succ f ih =>
    intro s fn l n hinv hn hl hlt
    have hact : Act (some a) a n := .inr rfl
    obtain ⟨l0, hl0, hmem⟩ := hinv.adj k hk a n hn hact
    have hll : l0 = l := hl0.functional hl
    subst hll
    by_cases hhead : n.next k = s.fin
    · -- the list is empty
      rw [hhead] at hl0
      have hnil := hl0.of_head_fin
      subst hnil
      refine ⟨s, by simp [removeNodeEdges, hn, hhead], hinv, LoopFrame.refl a k s, fun e x1 hx1 hlive hnode => ?_⟩
      have := (hmem e).2 ⟨by simp, x1, hx1, hlive, hnode⟩
      simp at this
    · have hmemhead : n.next k ∈ l0 := by
        rcases hl0.head_mem_or_fin with h | h
        · exact absurd h hhead
        · exact h
      obtain ⟨_, x, hx, hxl, hxk⟩ := (hmem _).1 hmemhead
      obtain ⟨w, hw⟩ := Option.isSome_iff_exists.1 hxl
      obtain ⟨s1, hrun, hinv1, hrf⟩ := removeEdge_spec hinv hx hw
      obtain ⟨n1, hn1, _, _⟩ := hrf.node a n hn
      have hfin1 : s1.fin = s.fin := by have := congrArg State.fin hrf.rest; simpa using this
      have hdbg1 : s1.debug = s.debug := by have := congrArg State.debug hrf.rest; simpa using this
      obtain ⟨l1, hl1, hmem1⟩ := hinv1.adj k hk a n1 hn1 (.inr rfl)
      -- the new list is contained in the old one without its head
      have hsub : ∀ y ∈ l1, y ∈ l0 ∧ y ≠ n.next k := by
        intro y hy
        obtain ⟨_, x1, hx1, hx1l, hx1k⟩ := (hmem1 y).1 hy
        have hne : y ≠ n.next k := by
          rintro rfl
          obtain ⟨xg, hxg, hvg⟩ := hrf.gone
          rw [hx1] at hxg; cases hxg; rw [hvg] at hx1l; simp at hx1l
        obtain ⟨x0, hx0, g2, g3, g4⟩ := hrf.edge_rev y x1 hne hx1
        refine ⟨(hmem y).2 ⟨by simp, x0, hx0, g2 ▸ hx1l, ?_⟩, hne⟩
        rw [← hx1k]; unfold Edge.node; rw [g3, g4]
      have hlen1 : l1.length < f := by
        have h1 : l1.length ≤ (l0.erase (n.next k)).length := by
          apply List.Nodup.length_le_of_subset hl1.nodup
          intro y hy
          obtain ⟨h1, h2⟩ := hsub y hy
          exact (List.mem_erase_of_ne h2).2 h1
        rw [List.length_erase_of_mem hmemhead] at h1
        have := List.length_pos_of_mem hmemhead
        omega
      obtain ⟨s', hrun', hinv', hlf', hpost⟩ := ih hinv1 hn1 hl1 hlen1
      refine ⟨s', ?_, hinv', ?_, hpost⟩
      · simp [removeNodeEdges, hn, hhead, hrun, hrun']
      · refine LoopFrame.trans ⟨?_, ⟨hrf.lenN, hrf.node⟩, hrf.lenE, fun e x0 hx0 => ?_⟩ hlf'
        · exact hrf.rest
        · by_cases he : e = n.next k
          · subst he
            obtain ⟨xg, hxg, hvg⟩ := hrf.gone
            rw [hx] at hx0; cases hx0
            exact ⟨xg, hxg, .inr ⟨hvg, hxl, hxk⟩⟩
          · obtain ⟨x1, g1, g2, g3, g4, _⟩ := hrf.edge e x0 he hx0
            exact ⟨x1, g1, .inl ⟨g2, g3, g4⟩⟩


/-- first step of `remove_node a`: the weight is taken, the node keeps its adjacency lists for the moment -/
theorem InvG.detach {s : State} {fn fe a : Nat} {n : Node} (hinv : InvG s none fn fe)
    (hn : s.nodes[a]? = some n) (hlive : n.w.isSome) :
    InvG { s with nodes := s.nodes.set a { n with w := none } } (some a) fn fe := by
  have hal : a < s.nodes.length := (List.getElem?_eq_some_iff.1 hn).1
  have hget : ∀ (i : Nat) (m : Node), (s.nodes.set a { n with w := none })[i]? = some m →
      (i = a ∧ m = { n with w := none }) ∨ (i ≠ a ∧ s.nodes[i]? = some m) := by
    intro i m hm
    by_cases hi : i = a
    · subst hi; rw [List.getElem?_set_self hal] at hm; cases hm; exact .inl ⟨rfl, rfl⟩
    · rw [List.getElem?_set_ne (fun h => hi h.symm)] at hm; exact .inr ⟨hi, hm⟩
  have hvac_ne : ∀ (i : Nat) (m : Node), s.nodes[i]? = some m → m.w = none → i ≠ a := by
    rintro i m hm hv rfl
    rw [hn] at hm; cases hm; rw [hv] at hlive; simp at hlive
  refine ⟨by show (s.nodes.set a _).length ≤ s.fin; rw [List.length_set]; exact hinv.lenN,
    hinv.lenE, hinv.vacE, ?_, ?_, hinv.freeE, ?_, ?_, ?_, hinv.cntE⟩
  · intro e x hx hxl k hk
    show ∃ m, (s.nodes.set a _)[x.node k]? = some m ∧ Act (some a) (x.node k) m
    obtain ⟨m, hm, hact⟩ := hinv.endp e x hx hxl k hk
    by_cases hi : x.node k = a
    · rw [hi]; exact ⟨_, List.getElem?_set_self hal, .inr rfl⟩
    · exact ⟨m, by rw [List.getElem?_set_ne (fun h => hi h.symm)]; exact hm, .inl (by
        rcases hact with h | h
        · exact h
        · cases h)⟩
  · intro k hk i m hm hact
    rcases hget i m hm with ⟨rfl, rfl⟩ | ⟨hi, hm'⟩
    · exact hinv.adj k hk i n hn (.inl hlive)
    · refine hinv.adj k hk i m hm' (.inl ?_)
      rcases hact with h | h
      · exact h
      · cases h; exact absurd rfl hi
  · obtain ⟨l, hl, hmem, hb⟩ := hinv.freeN
    have hsame : ∀ i ∈ l, ∀ m, s.nodes[i]? = some m → (s.nodes.set a { n with w := none })[i]? = some m := by
      intro i hi m hm
      obtain ⟨m', hm', hv, _⟩ := (hmem i).1 hi
      rw [hm] at hm'; cases hm'
      rw [List.getElem?_set_ne (fun h => hvac_ne i m hm hv h.symm)]; exact hm
    refine ⟨l, hl.congr fun y hy => ?_, fun i => ?_, hb.congr fun i hi m hm => ⟨m, hsame i hi m hm, rfl⟩⟩
    · obtain ⟨m, hm, _⟩ := (hmem y).1 hy
      show nfree (s.nodes.set a _) y = _
      unfold nfree; rw [hsame y hy m hm, hm]
    · rw [hmem i]
      constructor
      · rintro ⟨m, h1, h2, _⟩
        have hia := hvac_ne i m h1 h2
        exact ⟨m, by show (s.nodes.set a _)[i]? = _; rw [List.getElem?_set_ne (fun h => hia h.symm)]; exact h1, h2,
          fun h => hia (by cases h; rfl)⟩
      · rintro ⟨m, h1, h2, h3⟩
        rcases hget i m h1 with ⟨rfl, _⟩ | ⟨_, hm'⟩
        · exact absurd rfl h3
        · exact ⟨m, hm', h2, by simp⟩
  · intro i hi
    cases hi
    exact ⟨_, List.getElem?_set_self hal, rfl⟩
  · show s.nodeCount = (s.nodes.set a _).countP _ + _
    rw [List.countP_set hal, hinv.cntN]
    have h1 : s.nodes[a] = n := by
      have := List.getElem?_eq_getElem hal; rw [hn] at this; cases this; rfl
    have hpos := countP_pos_of_getElem? (p := fun n => n.w.isSome) hn hlive
    simp [h1, hlive]; omega

/-- the tail of `remove_node`: link slot `a` in front of the free node list headed by `fn` -/
def pushFreeNode (nodes : List Node) (fin fn a : Nat) : Except Fault (List Node) :=
  match modifyNode nodes a (fun nd => { nd with n0 := fn, n1 := fin }) with
  | .error x => .error x
  | .ok nodes1 => if fn ≠ fin then modifyNode nodes1 fn (fun nd => { nd with n1 := a }) else .ok nodes1

/-- last step of `remove_node a`: the detached node, by now without incident edges, is pushed on the free list -/
theorem InvG.attach {s : State} {fn fe a : Nat} {n2 : Node} (hinv : InvG s (some a) fn fe)
    (hn2 : s.nodes[a]? = some n2)
    (hpost : ∀ (e : Nat) (x : Edge), s.edges[e]? = some x → x.w.isSome → x.a ≠ a ∧ x.b ≠ a) :
    ∃ nodes3, pushFreeNode s.nodes s.fin fn a = .ok nodes3 ∧
      0 < s.nodeCount ∧
      InvG { s with nodes := nodes3, freeNode := a, nodeCount := s.nodeCount - 1 } none a fe ∧
      nodes3.map (·.w) = s.nodes.map (·.w) := by
  obtain ⟨l, hl, hmem, hb⟩ := hinv.freeN
  have hal : a < s.nodes.length := (List.getElem?_eq_some_iff.1 hn2).1
  obtain ⟨n2', hn2', hv2⟩ := hinv.det a rfl
  rw [hn2] at hn2'; cases hn2'
  have hanl : a ∉ l := fun h => by obtain ⟨_, _, _, h3⟩ := (hmem a).1 h; exact h3 rfl
  have hfn : fn = s.fin ∨ fn ∈ l := hl.head_mem_or_fin
  have hfna : fn ≠ a := by
    rcases hfn with h | h
    · rw [h]; have := hinv.lenN; omega
    · rintro rfl; exact hanl h
  -- slot-by-slot description of the new node array
  let upd : Nat → Node → Node := fun i m =>
    if i = a then { m with n0 := fn, n1 := s.fin } else if i = fn then { m with n1 := a } else m
  obtain ⟨nodes3, hrun, hlen3, hpt⟩ : ∃ nodes3, pushFreeNode s.nodes s.fin fn a = .ok nodes3 ∧ nodes3.length = s.nodes.length ∧
        ∀ (i : Nat) (m : Node), s.nodes[i]? = some m → nodes3[i]? = some (upd i m) := by
    simp only [pushFreeNode, modifyNode, hn2]
    by_cases hf : fn = s.fin
    · simp only [hf, ne_eq, not_true_eq_false, if_false]
      refine ⟨_, rfl, by simp, fun i m hm => ?_⟩
      have hil : i < s.nodes.length := (List.getElem?_eq_some_iff.1 hm).1
      simp only [List.getElem?_set, upd]
      by_cases hia : i = a
      · subst hia; rw [hn2] at hm; cases hm; simp [hil, hf]
      · have : a ≠ i := fun h => hia h.symm
        have hif : i ≠ s.fin := by have := hinv.lenN; omega
        simp [this, hia, hm, hf, hif]
    · have hfl : fn ∈ l := hfn.resolve_left hf
      obtain ⟨nf, hnf, _⟩ := (hmem fn).1 hfl
      simp only [ne_eq, hf, not_false_eq_true, if_true]
      rw [List.getElem?_set_ne (fun h => hfna h.symm), hnf]
      refine ⟨_, rfl, by simp, fun i m hm => ?_⟩
      have hil : i < s.nodes.length := (List.getElem?_eq_some_iff.1 hm).1
      simp only [List.getElem?_set, upd, List.length_set]
      by_cases hia : i = a
      · subst hia; rw [hn2] at hm; cases hm
        have : fn ≠ i := hfna
        simp [hil, this]
      · by_cases hif : i = fn
        · subst hif; rw [hnf] at hm; cases hm
          simp [hil, hia]
        · have h1 : a ≠ i := fun h => hia h.symm
          have h2 : fn ≠ i := fun h => hif h.symm
          simp [h1, h2, hia, hif, hm]
  have hw3 : ∀ (i : Nat) (m : Node), (upd i m).w = m.w := by
    intro i m; simp only [upd]; split
    · rfl
    · split <;> rfl
  have hmapw : nodes3.map (·.w) = s.nodes.map (·.w) := by
    apply List.ext_getElem?
    intro i
    simp only [List.getElem?_map]
    by_cases hi : i < s.nodes.length
    · rw [hpt i s.nodes[i] (List.getElem?_eq_getElem hi), List.getElem?_eq_getElem hi]; simp [hw3]
    · rw [List.getElem?_eq_none_iff.2 (by omega), List.getElem?_eq_none_iff.2 (by omega)]
  have hrev : ∀ (i : Nat) (m3 : Node), nodes3[i]? = some m3 → ∃ m, s.nodes[i]? = some m ∧ m3 = upd i m := by
    intro i m3 hm3
    have hi : i < s.nodes.length := hlen3 ▸ (List.getElem?_eq_some_iff.1 hm3).1
    have := hpt i s.nodes[i] (List.getElem?_eq_getElem hi)
    rw [hm3] at this; cases this
    exact ⟨_, List.getElem?_eq_getElem hi, rfl⟩
  have hlive_same : ∀ (i : Nat) (m : Node), s.nodes[i]? = some m → m.w.isSome → upd i m = m := by
    intro i m hm hlv
    have h1 : i ≠ a := by rintro rfl; rw [hn2] at hm; cases hm; rw [hv2] at hlv; simp at hlv
    have h2 : i ≠ fn := by
      rintro rfl
      rcases hfn with h | h
      · have := (List.getElem?_eq_some_iff.1 hm).1; have := hinv.lenN; omega
      · obtain ⟨m', hm', hv', _⟩ := (hmem i).1 h
        rw [hm] at hm'; cases hm'; rw [hv'] at hlv; simp at hlv
    simp [upd, h1, h2]
  have hpos : 0 < s.nodeCount := by rw [hinv.cntN]; simp
  refine ⟨nodes3, hrun, hpos, ?_, hmapw⟩
  refine ⟨by show nodes3.length ≤ s.fin; rw [hlen3]; exact hinv.lenN, hinv.lenE, hinv.vacE, ?_, ?_, hinv.freeE, ?_, ?_, ?_, hinv.cntE⟩
  · intro e x hx hxl k hk
    show ∃ m, nodes3[x.node k]? = some m ∧ Act none (x.node k) m
    obtain ⟨m, hm, hact⟩ := hinv.endp e x hx hxl k hk
    have hne : x.node k ≠ a := by
      obtain ⟨h1, h2⟩ := hpost e x hx hxl
      unfold Edge.node; split <;> assumption
    have hml : m.w.isSome := by
      rcases hact with h | h
      · exact h
      · cases h; exact absurd rfl hne
    exact ⟨_, hpt _ m hm, .inl (by rw [hw3]; exact hml)⟩
  · intro k hk i m3 hm3 hact
    show ∃ l, Chain (enext s.edges k) s.fin (m3.next k) l ∧ _
    obtain ⟨m, hm, rfl⟩ := hrev i m3 hm3
    have hml : m.w.isSome := by
      rcases hact with h | h
      · rw [hw3] at h; exact h
      · cases h
    rw [hlive_same i m hm hml]
    exact hinv.adj k hk i m hm (.inl hml)
  · -- the free list with `a` in front
    refine ⟨a :: l, ?_, fun i => ?_, ?_⟩
    · show Chain (nfree nodes3) s.fin a (a :: l)
      refine Chain.push hl (by have := hinv.lenN; omega) ?_ fun y hy => ?_
      · unfold nfree; rw [hpt a n2 hn2]; simp [upd]
      · obtain ⟨m, hm, _⟩ := (hmem y).1 hy
        have hya : y ≠ a := fun h => hanl (h ▸ hy)
        unfold nfree; rw [hpt y m hm, hm]
        simp only [upd, hya, if_false, Option.map_some]
        split <;> rfl
    · constructor
      · intro hi
        rcases List.mem_cons.1 hi with rfl | hi
        · exact ⟨_, hpt i n2 hn2, by rw [hw3]; exact hv2, by simp⟩
        · obtain ⟨m, hm, hv, _⟩ := (hmem i).1 hi
          exact ⟨_, hpt i m hm, by rw [hw3]; exact hv, by simp⟩
      · rintro ⟨m3, hm3, hv3, _⟩
        obtain ⟨m, hm, rfl⟩ := hrev i m3 hm3
        rw [hw3] at hv3
        by_cases hia : i = a
        · exact hia ▸ List.mem_cons_self
        · exact List.mem_cons_of_mem _ ((hmem i).2 ⟨m, hm, hv3, fun h => hia (by cases h; rfl)⟩)
    · show Back nodes3 s.fin (a :: l)
      refine ⟨⟨_, hpt a n2 hn2, by simp [upd]⟩, hb.rehead (new := a) ?_ ?_⟩
      · intro h t hlt
        have hh : h = fn := by rw [hlt] at hl; exact (Chain.cons_iff.1 hl).1
        obtain ⟨m, hm, _⟩ := (hmem h).1 (by rw [hlt]; exact List.mem_cons_self)
        refine ⟨_, hpt h m hm, ?_⟩
        rw [hh]; simp [upd, hfna]
      · intro h t hlt y hy m hm
        refine ⟨_, hpt y m hm, ?_⟩
        have hyl : y ∈ l := by rw [hlt]; exact List.mem_cons_of_mem _ hy
        have hya : y ≠ a := fun h => hanl (h ▸ hyl)
        have hyf : y ≠ fn := by
          have hh : h = fn := by rw [hlt] at hl; exact (Chain.cons_iff.1 hl).1
          rintro rfl
          have := hl.nodup; rw [hlt] at this
          exact (List.nodup_cons.1 this).1 (hh ▸ hy)
        simp [upd, hya, hyf]
  · intro i hi; cases hi
  · show s.nodeCount - 1 = nodes3.countP _ + _
    have e1 : ∀ l : List Node, l.countP (fun n => n.w.isSome) = (l.map (·.w)).countP Option.isSome := by
      intro l; rw [List.countP_map]; rfl
    rw [e1, hmapw, ← e1, hinv.cntN]; simp


/-- what a successful `remove_node a` does to weights and endpoints -/
structure RemNodeOk (s s' : State) (a : Nat) : Prop where
  fin : s'.fin = s.fin
  directed : s'.directed = s.directed
  noLimit : s'.noLimit = s.noLimit
  debug : s'.debug = s.debug
  nodesW : s'.nodes.map (·.w) = (s.nodes.map (·.w)).set a none
  lenE : s'.edges.length = s.edges.length
  edges : ∀ (e : Nat) (x : Edge), s.edges[e]? = some x → ∃ x1 : Edge, s'.edges[e]? = some x1 ∧
    ((x.w.isSome ∧ (x.a = a ∨ x.b = a) ∧ x1.w = none) ∨
     (¬ (x.w.isSome ∧ (x.a = a ∨ x.b = a)) ∧ x1.w = x.w ∧ x1.a = x.a ∧ x1.b = x.b))

theorem LoopFrame.fields {a k : Nat} {s s' : State} (h : LoopFrame a k s s') :
    s'.fin = s.fin ∧ s'.freeNode = s.freeNode ∧ s'.nodeCount = s.nodeCount ∧ s'.directed = s.directed ∧
    s'.noLimit = s.noLimit ∧ s'.debug = s.debug := by
  have := h.rest
  refine ⟨?_, ?_, ?_, ?_, ?_, ?_⟩ <;> (rw [this])

theorem removeNode_spec {s : State} (hinv : Inv s) {a : Nat} {n : Node} {w : Int}
    (hn : s.nodes[a]? = some n) (hw : n.w = some w) :
    ∃ s', removeNode s a = .ok (s', some w) ∧ Inv s' ∧ RemNodeOk s s' a := by
  have hlive : n.w.isSome := by rw [hw]; rfl
  have hal : a < s.nodes.length := (List.getElem?_eq_some_iff.1 hn).1
  let n0 : Node := { n with w := none }
  let s0 : State := { s with nodes := s.nodes.set a n0 }
  have hinv0 : InvG s0 (some a) s.freeNode s0.freeEdge := InvG.detach hinv hn hlive
  have hn0 : s0.nodes[a]? = some n0 := List.getElem?_set_self hal
  have hmemlt : ∀ {st : State} {k : Nat} {h : Nat} {l : List Nat}, Chain (enext st.edges k) st.fin h l → ∀ y ∈ l, y < st.edges.length := by
    intro st k h l hl y hy
    obtain ⟨j, hj⟩ := hl.nxt_some hy
    obtain ⟨x, hx, _⟩ := enext_some.1 hj
    exact (List.getElem?_eq_some_iff.1 hx).1
  -- outgoing edges
  obtain ⟨l0, hl0, _⟩ := hinv0.adj 0 (by omega) a n0 hn0 (.inr rfl)
  obtain ⟨s1, hrun1, hinv1, hlf1, hpost1⟩ := removeNodeEdges_spec (k := 0) (by omega) (s0.edges.length + 1) hinv0 hn0 hl0
    (by have := hl0.length_le (hmemlt hl0); omega)
  -- incoming edges
  obtain ⟨n1, hn1, _, _⟩ := hlf1.nodes.2 a n0 hn0
  obtain ⟨hfin1, hfn1, hnc1, hdir1, hnl1, hdbg1⟩ := hlf1.fields
  have hinv1' : InvG s1 (some a) s.freeNode s1.freeEdge := hinv1
  obtain ⟨l1, hl1, _⟩ := hinv1.adj 1 (by omega) a n1 hn1 (.inr rfl)
  obtain ⟨s2, hrun2, hinv2, hlf2, hpost2⟩ := removeNodeEdges_spec (k := 1) (by omega) (s1.edges.length + 1) hinv1 hn1 hl1
    (by have := hl1.length_le (hmemlt hl1); omega)
  obtain ⟨n2, hn2, _, _⟩ := hlf2.nodes.2 a n1 hn1
  obtain ⟨hfin2, hfn2, hnc2, hdir2, hnl2, hdbg2⟩ := hlf2.fields
  have hfn20 : s2.freeNode = s.freeNode := hfn2.trans hfn1
  have hpost : ∀ (e : Nat) (x : Edge), s2.edges[e]? = some x → x.w.isSome → x.a ≠ a ∧ x.b ≠ a := by
    intro e x hx hxl
    refine ⟨?_, by simpa using hpost2 e x hx hxl⟩
    have hi : e < s1.edges.length := hlf2.lenE ▸ (List.getElem?_eq_some_iff.1 hx).1
    obtain ⟨x2, g1, g2⟩ := hlf2.edge e s1.edges[e] (List.getElem?_eq_getElem hi)
    rw [hx] at g1; cases g1
    rcases g2 with ⟨g2, g3, _⟩ | ⟨g2, _, _⟩
    · rw [g3]
      simpa using hpost1 e _ (List.getElem?_eq_getElem hi) (g2 ▸ hxl)
    · rw [g2] at hxl; simp at hxl
  have hinv2' : InvG s2 (some a) s2.freeNode s2.freeEdge := hfn20 ▸ hinv2
  obtain ⟨nodes3, hpush, hpos, hinv3, hw3⟩ := hinv2'.attach hn2 hpost
  let s3 : State := { s2 with nodes := nodes3, freeNode := a, nodeCount := s2.nodeCount - 1 }
  refine ⟨s3, ?_, hinv3, ?_⟩
  · have hdecr : decr s2.nodeCount = .ok (s2.nodeCount - 1) := by
      unfold decr; simp; omega
    have hpush' := hpush
    simp only [pushFreeNode] at hpush'
    have h1 := hrun1
    simp only [s0, n0] at h1
    simp only [removeNode, hn, hw, h1, hrun2]
    cases hm1 : modifyNode s2.nodes a (fun nd => { nd with n0 := s2.freeNode, n1 := s2.fin }) with
    | error x => rw [hm1] at hpush'; cases hpush'
    | ok nodes1 =>
      rw [hm1] at hpush'
      simp only at hpush' ⊢
      rw [hpush']
      simp only [hdecr]
      rfl
  · -- the frame
    have hN : NodesKeep (some a) s0.nodes s2.nodes := hlf1.nodes.trans hlf2.nodes
    refine ⟨by show s2.fin = s.fin; rw [hfin2, hfin1], by show s2.directed = _; rw [hdir2, hdir1],
      by show s2.noLimit = _; rw [hnl2, hnl1], by show s2.debug = _; rw [hdbg2, hdbg1], ?_, ?_, ?_⟩
    · show nodes3.map (·.w) = _
      rw [hw3, hN.map_w]
      show (s.nodes.set a n0).map (·.w) = _
      rw [List.map_set]
    · show s2.edges.length = s.edges.length
      rw [hlf2.lenE, hlf1.lenE]
    · intro e x hx
      show ∃ x1, s2.edges[e]? = some x1 ∧ _
      obtain ⟨x1, g1, g2⟩ := hlf1.edge e x hx
      obtain ⟨x2, k1, k2⟩ := hlf2.edge e x1 g1
      refine ⟨x2, k1, ?_⟩
      rcases g2 with ⟨g2, g3, g4⟩ | ⟨g2, g3, g4⟩
      · rcases k2 with ⟨k2, k3, k4⟩ | ⟨k2, k3, k4⟩
        · right
          refine ⟨?_, k2.trans g2, k3.trans g3, k4.trans g4⟩
          rintro ⟨hxl, hinc⟩
          have hx2l : x2.w.isSome := by rw [k2, g2]; exact hxl
          obtain ⟨p1, p2⟩ := hpost e x2 k1 hx2l
          rw [k3, g3] at p1; rw [k4, g4] at p2
          rcases hinc with h | h
          · exact p1 h
          · exact p2 h
        · left
          refine ⟨g2 ▸ k3, .inr ?_, k2⟩
          simpa [g4] using k4
      · left
        refine ⟨g3, .inl (by simpa using g4), ?_⟩
        rcases k2 with ⟨k2, _, _⟩ | ⟨k2, _, _⟩
        · exact k2.trans g2
        · exact k2

/-- `remove_node` of an absent index answers `None` and changes nothing -/
theorem removeNode_absent {s : State} {a : Nat} (h : nodeWeight s a = none) : removeNode s a = .ok (s, none) := by
  unfold nodeWeight at h
  unfold removeNode
  cases hn : s.nodes[a]? with
  | none => rfl
  | some n => rw [hn] at h; simp only at h; simp [h]

theorem removeEdge_absent {s : State} {e : Nat} (h : edgeWeight s e = none) : removeEdge s e = .ok (s, none) := by
  unfold edgeWeight at h
  unfold removeEdge
  cases hn : s.edges[e]? with
  | none => rfl
  | some n => rw [hn] at h; simp only at h; simp [h]


/-! ## Part 9: weight updates, `reverse`, `clear`, `clear_edges` -/

/-- the invariant only looks at which slots are live and at the pointers, never at the weights themselves -/
theorem InvG.reweight {s s' : State} {d : Option Nat} {fn fe : Nat} (hinv : InvG s d fn fe)
    (hfin : s'.fin = s.fin) (hnc : s'.nodeCount = s.nodeCount) (hec : s'.edgeCount = s.edgeCount)
    (hlenN : s'.nodes.length = s.nodes.length) (hlenE : s'.edges.length = s.edges.length)
    (hN : ∀ (i : Nat) (n : Node), s.nodes[i]? = some n → ∃ n' : Node, s'.nodes[i]? = some n' ∧
      n'.w.isSome = n.w.isSome ∧ n'.n0 = n.n0 ∧ n'.n1 = n.n1)
    (hE : ∀ (e : Nat) (x : Edge), s.edges[e]? = some x → ∃ x' : Edge, s'.edges[e]? = some x' ∧
      x'.w.isSome = x.w.isSome ∧ x'.n0 = x.n0 ∧ x'.n1 = x.n1 ∧ x'.a = x.a ∧ x'.b = x.b) :
    InvG s' d fn fe := by
  have hNrev : ∀ (i : Nat) (n' : Node), s'.nodes[i]? = some n' → ∃ n : Node, s.nodes[i]? = some n ∧
      n'.w.isSome = n.w.isSome ∧ n'.n0 = n.n0 ∧ n'.n1 = n.n1 := rev_of_fwd hlenN hN
  have hErev : ∀ (e : Nat) (x' : Edge), s'.edges[e]? = some x' → ∃ x : Edge, s.edges[e]? = some x ∧
      x'.w.isSome = x.w.isSome ∧ x'.n0 = x.n0 ∧ x'.n1 = x.n1 ∧ x'.a = x.a ∧ x'.b = x.b := rev_of_fwd hlenE hE
  have hnone : ∀ {o o' : Option Int}, o'.isSome = o.isSome → (o' = none ↔ o = none) := by
    intro o o' h; cases o <;> cases o' <;> simp_all
  have henext : ∀ k y, enext s'.edges k y = enext s.edges k y := by
    intro k y
    unfold enext
    cases hx : s.edges[y]? with
    | none =>
      have : s'.edges[y]? = none := List.getElem?_eq_none_iff.2 (by rw [hlenE]; exact List.getElem?_eq_none_iff.1 hx)
      rw [this]
    | some x =>
      obtain ⟨x', h1, _, h3, h4, _⟩ := hE y x hx
      rw [h1]; simp [Edge.next, h3, h4]
  have hnfree : ∀ y, nfree s'.nodes y = nfree s.nodes y := by
    intro y
    unfold nfree
    cases hx : s.nodes[y]? with
    | none =>
      have : s'.nodes[y]? = none := List.getElem?_eq_none_iff.2 (by rw [hlenN]; exact List.getElem?_eq_none_iff.1 hx)
      rw [this]
    | some x =>
      obtain ⟨x', h1, _, h3, _⟩ := hN y x hx
      rw [h1]; simp [h3]
  have hactiff : ∀ (i : Nat) (n n' : Node), n'.w.isSome = n.w.isSome → (Act d i n' ↔ Act d i n) := by
    intro i n n' h; unfold Act; rw [h]
  refine ⟨by rw [hlenN, hfin]; exact hinv.lenN, by rw [hlenE, hfin]; exact hinv.lenE, ?_, ?_, ?_, ?_, ?_, ?_, ?_, ?_⟩
  · intro e x' hx' hv
    obtain ⟨x, hx, h2, _, _, h5, h6⟩ := hErev e x' hx'
    rw [h5, h6, hfin]; exact hinv.vacE e x hx ((hnone h2).1 hv)
  · intro e x' hx' hl k hk
    obtain ⟨x, hx, h2, _, _, h5, h6⟩ := hErev e x' hx'
    have hnk : x'.node k = x.node k := by unfold Edge.node; rw [h5, h6]
    obtain ⟨n, hn, hact⟩ := hinv.endp e x hx (h2 ▸ hl) k hk
    obtain ⟨n', hn', g2, _⟩ := hN _ n hn
    exact ⟨n', hnk ▸ hn', by rw [hnk]; exact (hactiff _ n n' g2).2 hact⟩
  · intro k hk i n' hn' hact'
    obtain ⟨n, hn, g2, g3, g4⟩ := hNrev i n' hn'
    obtain ⟨l, hl, hmem⟩ := hinv.adj k hk i n hn ((hactiff i n n' g2).1 hact')
    have hnk : n'.next k = n.next k := by unfold Node.next; rw [g3, g4]
    refine ⟨l, by rw [hfin, hnk]; exact hl.congr fun y _ => henext k y, fun e => ?_⟩
    rw [hmem e]
    constructor
    · rintro ⟨h1, x, hx, hxl, hxk⟩
      obtain ⟨x', h1', h2, _, _, h5, h6⟩ := hE e x hx
      exact ⟨h1, x', h1', h2 ▸ hxl, by rw [← hxk]; unfold Edge.node; rw [h5, h6]⟩
    · rintro ⟨h1, x', hx', hxl, hxk⟩
      obtain ⟨x, hx, h2, _, _, h5, h6⟩ := hErev e x' hx'
      exact ⟨h1, x, hx, h2 ▸ hxl, by rw [← hxk]; unfold Edge.node; rw [h5, h6]⟩
  · obtain ⟨l, hl, hmem⟩ := hinv.freeE
    refine ⟨l, by rw [hfin]; exact hl.congr fun y _ => henext 0 y, fun e => ?_⟩
    rw [hmem e]
    constructor
    · rintro ⟨x, hx, hv⟩
      obtain ⟨x', h1', h2, _⟩ := hE e x hx
      exact ⟨x', h1', (hnone h2).2 hv⟩
    · rintro ⟨x', hx', hv⟩
      obtain ⟨x, hx, h2, _⟩ := hErev e x' hx'
      exact ⟨x, hx, (hnone h2).1 hv⟩
  · obtain ⟨l, hl, hmem, hb⟩ := hinv.freeN
    refine ⟨l, by rw [hfin]; exact hl.congr fun y _ => hnfree y, fun i => ?_, ?_⟩
    · rw [hmem i]
      constructor
      · rintro ⟨n, hn, hv, hd⟩
        obtain ⟨n', h1', h2, _⟩ := hN i n hn
        exact ⟨n', h1', (hnone h2).2 hv, hd⟩
      · rintro ⟨n', hn', hv, hd⟩
        obtain ⟨n, hn, h2, _⟩ := hNrev i n' hn'
        exact ⟨n, hn, (hnone h2).1 hv, hd⟩
    · rw [hfin]
      exact hb.congr fun i _ n hn => by
        obtain ⟨n', h1', _, _, h4⟩ := hN i n hn
        exact ⟨n', h1', h4⟩
  · intro i hi
    obtain ⟨n, hn, hv⟩ := hinv.det i hi
    obtain ⟨n', h1', h2, _⟩ := hN i n hn
    exact ⟨n', h1', (hnone h2).2 hv⟩
  · rw [hnc, hinv.cntN]
    congr 1
    have : s'.nodes.map (fun n => n.w.isSome) = s.nodes.map (fun n => n.w.isSome) := by
      apply List.ext_getElem?
      intro i
      simp only [List.getElem?_map]
      cases hx : s.nodes[i]? with
      | none =>
        have : s'.nodes[i]? = none := List.getElem?_eq_none_iff.2 (by rw [hlenN]; exact List.getElem?_eq_none_iff.1 hx)
        rw [this]
      | some n =>
        obtain ⟨n', h1, h2, _⟩ := hN i n hx
        rw [h1]; simp [h2]
    have e1 : ∀ l : List Node, l.countP (fun n => n.w.isSome) = (l.map (fun n => n.w.isSome)).countP id := by
      intro l; rw [List.countP_map]; rfl
    rw [e1, e1, this]
  · rw [hec, hinv.cntE]
    have : s'.edges.map (fun n => n.w.isSome) = s.edges.map (fun n => n.w.isSome) := by
      apply List.ext_getElem?
      intro i
      simp only [List.getElem?_map]
      cases hx : s.edges[i]? with
      | none =>
        have : s'.edges[i]? = none := List.getElem?_eq_none_iff.2 (by rw [hlenE]; exact List.getElem?_eq_none_iff.1 hx)
        rw [this]
      | some n =>
        obtain ⟨n', h1, h2, _⟩ := hE i n hx
        rw [h1]; simp [h2]
    have e1 : ∀ l : List Edge, l.countP (fun n => n.w.isSome) = (l.map (fun n => n.w.isSome)).countP id := by
      intro l; rw [List.countP_map]; rfl
    rw [e1, e1, this]


theorem getElem?_set_cases {α : Type} {l : List α} {i j : Nat} {a b : α} (h : (l.set i a)[j]? = some b) :
    (j = i ∧ b = a ∧ i < l.length) ∨ (j ≠ i ∧ l[j]? = some b) := by
  rw [List.getElem?_set] at h
  by_cases hij : i = j
  · subst hij
    simp only [if_true] at h
    split at h
    · cases h; exact .inl ⟨rfl, rfl, by assumption⟩
    · cases h
  · simp only [hij, if_false] at h
    exact .inr ⟨fun h' => hij h'.symm, h⟩

theorem setNodeWeight_inv {s : State} {d : Option Nat} {fn fe : Nat} (hinv : InvG s d fn fe) (a : Nat) (w : Int) :
    InvG (setNodeWeight s a w).1 d fn fe := by
  unfold setNodeWeight
  split
  · rename_i n hn
    split
    · rename_i hl
      have hal : a < s.nodes.length := (List.getElem?_eq_some_iff.1 hn).1
      refine hinv.reweight rfl rfl rfl (by simp) rfl (fun i m hm => ?_) (fun e x hx => ⟨x, hx, rfl, rfl, rfl, rfl, rfl⟩)
      by_cases hi : i = a
      · subst hi
        rw [hn] at hm; cases hm
        exact ⟨_, List.getElem?_set_self hal, by simpa using hl.symm, rfl, rfl⟩
      · exact ⟨m, by simp only; rw [List.getElem?_set_ne (fun h => hi h.symm)]; exact hm, rfl, rfl, rfl⟩
    · exact hinv
  · exact hinv

theorem setEdgeWeight_inv {s : State} {d : Option Nat} {fn fe : Nat} (hinv : InvG s d fn fe) (e : Nat) (w : Int) :
    InvG (setEdgeWeight s e w).1 d fn fe := by
  unfold setEdgeWeight
  split
  · rename_i x hx
    split
    · rename_i hl
      have hal : e < s.edges.length := (List.getElem?_eq_some_iff.1 hx).1
      refine hinv.reweight rfl rfl rfl rfl (by simp) (fun i m hm => ⟨m, hm, rfl, rfl, rfl⟩) (fun i m hm => ?_)
      by_cases hi : i = e
      · subst hi
        rw [hx] at hm; cases hm
        exact ⟨_, List.getElem?_set_self hal, by simpa using hl.symm, rfl, rfl, rfl, rfl⟩
      · exact ⟨m, by simp only; rw [List.getElem?_set_ne (fun h => hi h.symm)]; exact hm, rfl, rfl, rfl, rfl, rfl⟩
    · exact hinv
  · exact hinv

theorem mapGraph_inv {s : State} {d : Option Nat} {fn fe : Nat} (hinv : InvG s d fn fe) (cn ce : Int) :
    InvG (mapGraph s cn ce).1 d fn fe := by
  refine hinv.reweight rfl rfl rfl (by simp [mapGraph]) (by simp [mapGraph]) (fun i m hm => ?_) (fun e x hx => ?_)
  · refine ⟨{ m with w := m.w.map (· + cn) }, by simp [mapGraph, hm], ?_, rfl, rfl⟩
    cases m.w <;> rfl
  · refine ⟨{ x with w := x.w.map (· + ce) }, by simp [mapGraph, hx], ?_, rfl, rfl, rfl, rfl⟩
    cases x.w <;> rfl

theorem clear_inv (s : State) : Inv (clear s) := by
  refine ⟨by simp [clear], by simp [clear], ?_, ?_, ?_, ⟨[], .nil, by simp [clear]⟩, ⟨[], .nil, by simp [clear], trivial⟩, ?_, by simp [clear], by simp [clear]⟩
  · intro e x hx; simp [clear] at hx
  · intro e x hx; simp [clear] at hx
  · intro k _ i n hn; simp [clear] at hn
  · intro i hi; cases hi

theorem clearEdges_inv {s : State} (hinv : Inv s) : Inv (clearEdges s) := by
  have hkeep : NodesKeep none s.nodes (clearEdges s).nodes := by
    refine ⟨by simp [clearEdges], fun i n hn => ?_⟩
    refine ⟨if n.w.isSome then { n with n0 := s.fin, n1 := s.fin } else n, by simp [clearEdges, hn], by split <;> rfl, ?_⟩
    intro hna
    have : ¬ n.w.isSome := fun h => hna (.inl h)
    simp [this]
  obtain ⟨l, hl, hmem, hb⟩ := hinv.freeN
  refine ⟨by rw [hkeep.1]; exact hinv.lenN, by simp [clearEdges], ?_, ?_, ?_, ⟨[], .nil, by simp [clearEdges]⟩,
    ⟨l, hkeep.freeN hl hmem hb⟩, ?_, ?_, by simp [clearEdges]⟩
  · intro e x hx; simp [clearEdges] at hx
  · intro e x hx; simp [clearEdges] at hx
  · intro k hk i n' hn' hact
    obtain ⟨n, hn, hw, _⟩ := hkeep.rev i n' hn'
    have hlive : n.w.isSome := by
      rcases hact with h | h
      · rw [hw] at h; exact h
      · cases h
    have : n' = { n with n0 := s.fin, n1 := s.fin } := by
      have h2 : (clearEdges s).nodes[i]? = some (if n.w.isSome then { n with n0 := s.fin, n1 := s.fin } else n) := by
        simp [clearEdges, hn]
      rw [hn'] at h2; simp [hlive] at h2; exact h2
    subst this
    refine ⟨[], ?_, fun e => by simp [clearEdges]⟩
    have : ({ n with n0 := s.fin, n1 := s.fin } : Node).next k = s.fin := by unfold Node.next; split <;> rfl
    rw [this]; exact .nil
  · intro i hi; cases hi
  · show s.nodeCount = (clearEdges s).nodes.countP _ + _
    rw [hkeep.count]; exact hinv.cntN

theorem reverse_inv {s : State} (hinv : Inv s) : Inv (reverse s) := by
  -- slot-wise description
  have hN : ∀ (i : Nat) (n : Node), s.nodes[i]? = some n →
      (reverse s).nodes[i]? = some (if n.w.isSome then { n with n0 := n.n1, n1 := n.n0 } else n) := by
    intro i n hn; simp [reverse, hn]
  have hE : ∀ (e : Nat) (x : Edge), s.edges[e]? = some x →
      (reverse s).edges[e]? = some (if x.w.isSome then { x with a := x.b, b := x.a, n0 := x.n1, n1 := x.n0 } else x) := by
    intro e x hx; simp [reverse, hx]
  have hlenN : (reverse s).nodes.length = s.nodes.length := by simp [reverse]
  have hlenE : (reverse s).edges.length = s.edges.length := by simp [reverse]
  have hNrev : ∀ (i : Nat) (n' : Node), (reverse s).nodes[i]? = some n' → ∃ n, s.nodes[i]? = some n ∧
      n' = (if n.w.isSome then { n with n0 := n.n1, n1 := n.n0 } else n) := by
    intro i n' hn'
    have hi : i < s.nodes.length := hlenN ▸ (List.getElem?_eq_some_iff.1 hn').1
    have := hN i _ (List.getElem?_eq_getElem hi)
    rw [hn'] at this; cases this
    exact ⟨_, List.getElem?_eq_getElem hi, rfl⟩
  have hErev : ∀ (e : Nat) (x' : Edge), (reverse s).edges[e]? = some x' → ∃ x, s.edges[e]? = some x ∧
      x' = (if x.w.isSome then { x with a := x.b, b := x.a, n0 := x.n1, n1 := x.n0 } else x) := by
    intro e x' hx'
    have hi : e < s.edges.length := hlenE ▸ (List.getElem?_eq_some_iff.1 hx').1
    have := hE e _ (List.getElem?_eq_getElem hi)
    rw [hx'] at this; cases this
    exact ⟨_, List.getElem?_eq_getElem hi, rfl⟩
  have hkeep : NodesKeep none s.nodes (reverse s).nodes := by
    refine ⟨hlenN, fun i n hn => ⟨_, hN i n hn, by split <;> rfl, fun hna => ?_⟩⟩
    have : ¬ n.w.isSome := fun h => hna (.inl h)
    simp [this]
  -- direction k of the reversed graph is direction 1-k of the original one
  have henext : ∀ (k : Nat), k < 2 → ∀ (y : Nat) (x : Edge), s.edges[y]? = some x → x.w.isSome →
      enext (reverse s).edges k y = enext s.edges (1 - k) y := by
    intro k hk y x hx hxl
    unfold enext; rw [hE y x hx, hx]
    have hk01 : k = 0 ∨ k = 1 := by omega
    rcases hk01 with rfl | rfl <;> simp [hxl, Edge.next]
  obtain ⟨lf, hlf, hmemf, hbf⟩ := hinv.freeN
  refine ⟨by rw [hlenN]; exact hinv.lenN, by rw [hlenE]; exact hinv.lenE, ?_, ?_, ?_, ?_, ⟨lf, hkeep.freeN hlf hmemf hbf⟩,
    (fun i hi => by cases hi), ?_, ?_⟩
  · intro e x' hx' hv
    obtain ⟨x, hx, rfl⟩ := hErev e x' hx'
    by_cases hl : x.w.isSome
    · simp [hl] at hv; rw [hv] at hl; simp at hl
    · simp only [hl, Bool.false_eq_true, if_false] at hv ⊢
      exact hinv.vacE e x hx hv
  · intro e x' hx' hl' k hk
    obtain ⟨x, hx, rfl⟩ := hErev e x' hx'
    have hl : x.w.isSome := by
      by_cases h : x.w.isSome
      · exact h
      · simp [h] at hl'
    simp only [hl, if_true]
    have hk01 : k = 0 ∨ k = 1 := by omega
    obtain ⟨n, hn, hact⟩ := hinv.endp e x hx hl (1 - k) (by omega)
    have hnode : ({ x with a := x.b, b := x.a, n0 := x.n1, n1 := x.n0 } : Edge).node k = x.node (1 - k) := by
      rcases hk01 with rfl | rfl <;> rfl
    rw [hnode]
    exact hkeep.act hn hact
  · intro k hk i n' hn' hact'
    obtain ⟨n, hn, rfl⟩ := hNrev i n' hn'
    have hl : n.w.isSome := by
      rcases hact' with h | h
      · by_cases h' : n.w.isSome
        · exact h'
        · simp [h'] at h
      · cases h
    simp only [hl, if_true]
    have hk01 : k = 0 ∨ k = 1 := by omega
    obtain ⟨l, hlc, hmem⟩ := hinv.adj (1 - k) (by omega) i n hn (.inl hl)
    have hnext : ({ n with n0 := n.n1, n1 := n.n0 } : Node).next k = n.next (1 - k) := by
      rcases hk01 with rfl | rfl <;> rfl
    refine ⟨l, ?_, fun e => ?_⟩
    · rw [hnext]
      show Chain (enext (reverse s).edges k) s.fin _ l
      refine hlc.congr fun y hy => ?_
      obtain ⟨_, x, hx, hxl, _⟩ := (hmem y).1 hy
      exact henext k hk y x hx hxl
    · rw [hmem e]
      constructor
      · rintro ⟨h1, x, hx, hxl, hxk⟩
        refine ⟨h1, _, hE e x hx, by simp [hxl], ?_⟩
        simp only [hxl, if_true]
        rw [← hxk]
        rcases hk01 with rfl | rfl <;> rfl
      · rintro ⟨h1, x', hx', hxl', hxk'⟩
        obtain ⟨x, hx, rfl⟩ := hErev e x' hx'
        have hxl : x.w.isSome := by
          by_cases h : x.w.isSome
          · exact h
          · simp [h] at hxl'
        refine ⟨h1, x, hx, hxl, ?_⟩
        simp only [hxl, if_true] at hxk'
        rw [← hxk']
        rcases hk01 with rfl | rfl <;> rfl
  · obtain ⟨l, hl, hmem⟩ := hinv.freeE
    refine ⟨l, hl.congr fun y hy => ?_, fun e => ?_⟩
    · obtain ⟨x, hx, hv⟩ := (hmem y).1 hy
      show enext (reverse s).edges 0 y = _
      unfold enext; rw [hE y x hx, hx]; simp [hv]
    · rw [hmem e]
      constructor
      · rintro ⟨x, hx, hv⟩
        exact ⟨_, hE e x hx, by simp [hv]⟩
      · rintro ⟨x', hx', hv'⟩
        obtain ⟨x, hx, rfl⟩ := hErev e x' hx'
        refine ⟨x, hx, ?_⟩
        by_cases h : x.w.isSome
        · simp [h] at hv'; rw [hv'] at h; simp at h
        · simpa using h
  · show s.nodeCount = (reverse s).nodes.countP _ + _
    rw [hkeep.count]; exact hinv.cntN
  · show s.edgeCount = (reverse s).edges.countP _
    rw [hinv.cntE]
    have : (reverse s).edges.map (fun x => x.w.isSome) = s.edges.map (fun x => x.w.isSome) := by
      simp only [reverse, List.map_map]
      apply List.map_congr_left
      intro x _
      simp only [Function.comp]
      split <;> rfl
    have e1 : ∀ l : List Edge, l.countP (fun n => n.w.isSome) = (l.map (fun n => n.w.isSome)).countP id := by
      intro l; rw [List.countP_map]; rfl
    rw [e1, e1, this]


/-! ## Part 10: `find_edge`, `update_edge` -/

theorem findLoop_spec {es : List Edge} {k b fin : Nat} (hfin : es.length ≤ fin) {h : Nat} {l : List Nat}
    (hl : Chain (enext es k) fin h l) : ∀ fuel, l.length < fuel →
    ∃ r, findLoop es k b fuel h = .ok r ∧
      (∀ e, r = some e → e ∈ l ∧ ∃ x, es[e]? = some x ∧ x.node (1 - k) = b) ∧
      (r = none → ∀ y ∈ l, ∀ x, es[y]? = some x → x.node (1 - k) ≠ b) := by
  induction hl with
  | nil =>
    intro fuel hf
    cases fuel with
    | zero => simp at hf
    | succ f =>
      have : es[fin]? = none := List.getElem?_eq_none_iff.2 hfin
      exact ⟨none, by simp [findLoop, this], by simp, by simp⟩
  | @cons i j l h1 h2 h3 ih =>
    intro fuel hf
    cases fuel with
    | zero => simp at hf
    | succ f =>
      obtain ⟨x, hx, hn⟩ := enext_some.1 h2
      by_cases hb : x.node (1 - k) = b
      · exact ⟨some i, by simp [findLoop, hx, hb], fun e he => by cases he; exact ⟨List.mem_cons_self, x, hx, hb⟩, by simp⟩
      · obtain ⟨r, hr, hr1, hr2⟩ := ih f (by simp at hf; omega)
        refine ⟨r, by simp [findLoop, hx, hb, hn, hr], fun e he => ?_, fun hnone y hy x' hx' => ?_⟩
        · obtain ⟨g1, g2⟩ := hr1 e he
          exact ⟨List.mem_cons_of_mem _ g1, g2⟩
        · rcases List.mem_cons.1 hy with rfl | hy
          · rw [hx] at hx'; cases hx'; exact hb
          · exact hr2 hnone y hy x' hx'

/-- does the edge lead from `a` to `b` (or, in an undirected graph, connect them)? -/
def Connects (s : State) (x : Edge) (a b : Nat) : Prop :=
  (x.a = a ∧ x.b = b) ∨ (s.directed = false ∧ x.a = b ∧ x.b = a)

theorem chain_len_lt {s : State} {k h : Nat} {l : List Nat} (hl : Chain (enext s.edges k) s.fin h l) :
    l.length < s.edges.length + 1 := by
  have := hl.length_le (N := s.edges.length) (fun y hy => by
    obtain ⟨j, hj⟩ := hl.nxt_some hy
    obtain ⟨x, hx, _⟩ := enext_some.1 hj
    exact (List.getElem?_eq_some_iff.1 hx).1)
  omega

theorem getNode_some {s : State} {a : Nat} {n : Node} : getNode s a = some n ↔ s.nodes[a]? = some n ∧ n.w.isSome := by
  unfold getNode
  cases hn : s.nodes[a]? with
  | none => simp
  | some m =>
    by_cases hm : m.w.isSome
    · simp only [hm, if_true, Option.some.injEq]
      constructor
      · rintro rfl; exact ⟨rfl, hm⟩
      · rintro ⟨h, _⟩; exact h
    · simp only [hm, Bool.false_eq_true, if_false, Option.some.injEq]
      constructor
      · intro h; cases h
      · rintro ⟨rfl, h⟩; exact absurd h hm

theorem getNode_none {s : State} {a : Nat} : getNode s a = none ↔ nodeWeight s a = none := by
  unfold getNode nodeWeight
  cases hn : s.nodes[a]? with
  | none => simp
  | some m => cases hw : m.w <;> simp [hw]

/-- `find_edge` neither faults nor misses: it answers a live connecting edge iff there is one -/
theorem findEdge_spec {s : State} (hinv : Inv s) (a b : Nat) :
    ∃ r, findEdge s a b = .ok r ∧
      (∀ e, r = some e → ∃ x, s.edges[e]? = some x ∧ x.w.isSome ∧ Connects s x a b) ∧
      (r = none → ∀ (e : Nat) (x : Edge), s.edges[e]? = some x → x.w.isSome → ¬ Connects s x a b) := by
  cases hg : getNode s a with
  | none =>
    have hwn := getNode_none.1 hg
    have hno : ∀ (e : Nat) (x : Edge), s.edges[e]? = some x → x.w.isSome → ¬ Connects s x a b := by
      intro e x hx hxl hc
      have hk : ∃ k, k < 2 ∧ x.node k = a := by
        rcases hc with ⟨h, _⟩ | ⟨_, _, h⟩
        · exact ⟨0, by omega, h⟩
        · exact ⟨1, by omega, h⟩
      obtain ⟨k, hk, hka⟩ := hk
      obtain ⟨n, hn, hact⟩ := hinv.endp e x hx hxl k hk
      rw [hka] at hn hact
      unfold nodeWeight at hwn; rw [hn] at hwn
      rcases hact with h | h
      · simp only at hwn; rw [hwn] at h; simp at h
      · cases h
    refine ⟨none, ?_, by simp, fun _ => hno⟩
    unfold findEdge findEdgeUndirected
    simp [hg]
  | some n =>
    obtain ⟨hn, hnl⟩ := getNode_some.1 hg
    obtain ⟨l0, hl0, hm0⟩ := hinv.adj 0 (by omega) a n hn (.inl hnl)
    obtain ⟨l1, hl1, hm1⟩ := hinv.adj 1 (by omega) a n hn (.inl hnl)
    obtain ⟨r0, hr0, hr0a, hr0b⟩ := findLoop_spec (b := b) hinv.lenE hl0 (s.edges.length + 1) (chain_len_lt hl0)
    obtain ⟨r1, hr1, hr1a, hr1b⟩ := findLoop_spec (b := b) hinv.lenE hl1 (s.edges.length + 1) (chain_len_lt hl1)
    simp only [Node.next_zero, Node.next_one] at hr0 hr1
    by_cases hd : s.directed = true
    · refine ⟨r0, by simp [findEdge, hd, hg, hr0], fun e he => ?_, fun hnone e x hx hxl hc => ?_⟩
      · obtain ⟨g1, x, hx, hxb⟩ := hr0a e he
        obtain ⟨_, x', hx', hxl, hxa⟩ := (hm0 e).1 g1
        rw [hx] at hx'; cases hx'
        exact ⟨x, hx, hxl, .inl ⟨by simpa using hxa, by simpa using hxb⟩⟩
      · rcases hc with ⟨h1, h2⟩ | ⟨h1, _⟩
        · have := (hm0 e).2 ⟨by simp, x, hx, hxl, by simpa using h1⟩
          exact hr0b hnone e this x hx (by simpa using h2)
        · rw [hd] at h1; cases h1
    · have hd' : s.directed = false := by simpa using hd
      cases hr0v : r0 with
      | some e0 =>
        subst hr0v
        refine ⟨some e0, by simp [findEdge, hd', findEdgeUndirected, hg, hr0], fun e he => ?_, by simp⟩
        cases he
        obtain ⟨g1, x, hx, hxb⟩ := hr0a e0 rfl
        obtain ⟨_, x', hx', hxl, hxa⟩ := (hm0 e0).1 g1
        rw [hx] at hx'; cases hx'
        exact ⟨x, hx, hxl, .inl ⟨by simpa using hxa, by simpa using hxb⟩⟩
      | none =>
        subst hr0v
        cases hr1v : r1 with
        | some e1 =>
          subst hr1v
          refine ⟨some e1, by simp [findEdge, hd', findEdgeUndirected, hg, hr0, hr1], fun e he => ?_, by simp⟩
          cases he
          obtain ⟨g1, x, hx, hxb⟩ := hr1a e1 rfl
          obtain ⟨_, x', hx', hxl, hxa⟩ := (hm1 e1).1 g1
          rw [hx] at hx'; cases hx'
          exact ⟨x, hx, hxl, .inr ⟨hd', by simpa using hxb, by simpa using hxa⟩⟩
        | none =>
          subst hr1v
          refine ⟨none, by simp [findEdge, hd', findEdgeUndirected, hg, hr0, hr1], by simp, fun _ e x hx hxl hc => ?_⟩
          rcases hc with ⟨h1, h2⟩ | ⟨_, h1, h2⟩
          · have := (hm0 e).2 ⟨by simp, x, hx, hxl, by simpa using h1⟩
            exact hr0b rfl e this x hx (by simpa using h2)
          · have := (hm1 e).2 ⟨by simp, x, hx, hxl, by simpa using h2⟩
            exact hr1b rfl e this x hx (by simpa using h1)


/-! ## Part 11: the debug-only self check, `retain_nodes`, `retain_edges` -/

/-- a duplicate-free list of exactly the indices whose slot satisfies `p` is as long as the count of `p` -/
theorem length_eq_countP_of_mem {α : Type} (p : α → Bool) : ∀ (n : Nat) (ns : List α) (l : List Nat), ns.length = n →
    l.Nodup → (∀ i, i ∈ l ↔ ∃ a, ns[i]? = some a ∧ p a = true) → l.length = ns.countP p := by
  intro n
  induction n with
  | zero =>
    intro ns l hlen _ hmem
    have : ns = [] := List.length_eq_zero_iff.1 hlen
    subst this
    cases l with
    | nil => rfl
    | cons x t => have := (hmem x).1 List.mem_cons_self; simp at this
  | succ m ih =>
    intro ns l hlen hnd hmem
    rcases List.eq_nil_or_concat ns with rfl | ⟨ns', a, rfl⟩
    · simp at hlen
    · simp only [List.concat_eq_append] at *
      have hlen' : ns'.length = m := by simp at hlen; omega
      by_cases hpa : p a = true
      · have hm : m ∈ l := (hmem m).2 ⟨a, by rw [← hlen']; exact List.getElem?_concat_length, hpa⟩
        have := ih ns' (l.erase m) hlen' (hnd.erase m) (fun i => by
          rw [hnd.mem_erase_iff, hmem i]
          constructor
          · rintro ⟨hne, b, hb, hpb⟩
            rcases getElem?_append_single.1 hb with h | ⟨h, _⟩
            · exact ⟨b, h, hpb⟩
            · omega
          · rintro ⟨b, hb, hpb⟩
            have := (List.getElem?_eq_some_iff.1 hb).1
            exact ⟨by omega, b, getElem?_append_single.2 (.inl hb), hpb⟩)
        rw [List.length_erase_of_mem hm] at this
        have hpos := List.length_pos_of_mem hm
        rw [List.countP_append]; simp [hpa]; omega
      · have := ih ns' l hlen' hnd (fun i => by
          rw [hmem i]
          constructor
          · rintro ⟨b, hb, hpb⟩
            rcases getElem?_append_single.1 hb with h | ⟨_, rfl⟩
            · exact ⟨b, h, hpb⟩
            · exact absurd hpb hpa
          · rintro ⟨b, hb, hpb⟩
            exact ⟨b, getElem?_append_single.2 (.inl hb), hpb⟩)
        rw [List.countP_append]; simp [hpa]; exact this

theorem countP_live_add_vacant {α : Type} (f : α → Option Int) (ns : List α) :
    ns.countP (fun n => (f n).isSome) + ns.countP (fun n => (f n).isNone) = ns.length := by
  induction ns with
  | nil => rfl
  | cons a t ih =>
    simp only [List.countP_cons, List.length_cons]
    cases f a <;> simp <;> omega

theorem checkFreeNodes_spec {ns : List Node} {fin : Nat} {h : Nat} {l : List Nat} (hl : Chain (nfree ns) fin h l) :
    ∀ (fuel prev len : Nat), Back ns prev l → (∀ y ∈ l, ∀ n, ns[y]? = some n → n.w = none) → l.length < fuel →
    checkFreeNodes ns fin fuel h prev len = .ok (len + l.length) := by
  induction hl with
  | nil =>
    intro fuel prev len _ _ hf
    cases fuel with
    | zero => simp at hf
    | succ f => simp [checkFreeNodes]
  | @cons i j l h1 h2 h3 ih =>
    intro fuel prev len hb hv hf
    cases fuel with
    | zero => simp at hf
    | succ f =>
      obtain ⟨n, hn, hn0⟩ := nfree_some.1 h2
      obtain ⟨⟨n', hn', hp⟩, hb'⟩ := hb
      rw [hn] at hn'; cases hn'
      have hvn := hv i List.mem_cons_self n hn
      have := ih f i (len + 1) hb' (fun y hy => hv y (List.mem_cons_of_mem _ hy)) (by simp at hf; omega)
      simp only [checkFreeNodes, h1, if_false, hn, hvn, Option.isSome_none, Bool.false_eq_true, hp, ne_eq, not_true_eq_false, hn0, this]
      simp; omega

theorem checkFreeEdges_spec {es : List Edge} {fin : Nat} {h : Nat} {l : List Nat} (hl : Chain (enext es 0) fin h l) :
    ∀ (fuel len : Nat), (∀ y ∈ l, ∀ x, es[y]? = some x → x.w = none) → l.length < fuel →
    checkFreeEdges es fin fuel h len = .ok (len + l.length) := by
  induction hl with
  | nil =>
    intro fuel len _ hf
    cases fuel with
    | zero => simp at hf
    | succ f => simp [checkFreeEdges]
  | @cons i j l h1 h2 h3 ih =>
    intro fuel len hv hf
    cases fuel with
    | zero => simp at hf
    | succ f =>
      obtain ⟨x, hx, hn0⟩ := enext_some.1 h2
      have hvx := hv i List.mem_cons_self x hx
      have := ih f (len + 1) (fun y hy => hv y (List.mem_cons_of_mem _ hy)) (by simp at hf; omega)
      simp only [checkFreeEdges, h1, if_false, hx, hvx, Option.isSome_none, Bool.false_eq_true]
      simp only [Edge.next_zero] at hn0
      rw [hn0, this]
      simp; omega

/-- under the invariant the debug-only self check `check_free_lists` passes -/
theorem checkFreeLists_ok {s : State} (hinv : Inv s) : checkFreeLists s = .ok () := by
  unfold checkFreeLists
  by_cases hd : s.debug = true
  · simp only [hd, Bool.not_true, Bool.false_eq_true, if_false]
    obtain ⟨ln, hln, hmn, hbn⟩ := hinv.freeN
    obtain ⟨le, hle, hme⟩ := hinv.freeE
    have hnlen : ln.length ≤ s.nodes.length := hln.length_le fun y hy => by
      obtain ⟨n, hn, _⟩ := (hmn y).1 hy; exact (List.getElem?_eq_some_iff.1 hn).1
    have helen : le.length ≤ s.edges.length := hle.length_le fun y hy => by
      obtain ⟨n, hn, _⟩ := (hme y).1 hy; exact (List.getElem?_eq_some_iff.1 hn).1
    have h1 := checkFreeNodes_spec hln (s.nodes.length + 1) s.fin 0 hbn (fun y hy n hn => by
      obtain ⟨n', hn', hv, _⟩ := (hmn y).1 hy; rw [hn] at hn'; cases hn'; exact hv) (by omega)
    have h2 := checkFreeEdges_spec hle (s.edges.length + 1) 0 (fun y hy n hn => by
      obtain ⟨n', hn', hv⟩ := (hme y).1 hy; rw [hn] at hn'; cases hn'; exact hv) (by omega)
    have hcn : ln.length = s.nodes.countP (fun n => n.w.isNone) :=
      length_eq_countP_of_mem (fun n : Node => n.w.isNone) _ s.nodes ln rfl hln.nodup (fun i => by
        rw [hmn i]
        constructor
        · rintro ⟨n, hn, hv, _⟩; exact ⟨n, hn, by rw [hv]; rfl⟩
        · rintro ⟨n, hn, hv⟩; exact ⟨n, hn, by cases hw : n.w <;> simp_all, by simp⟩)
    have hce : le.length = s.edges.countP (fun n => n.w.isNone) :=
      length_eq_countP_of_mem (fun n : Edge => n.w.isNone) _ s.edges le rfl hle.nodup (fun i => by
        rw [hme i]
        constructor
        · rintro ⟨n, hn, hv⟩; exact ⟨n, hn, by rw [hv]; rfl⟩
        · rintro ⟨n, hn, hv⟩; exact ⟨n, hn, by cases hw : n.w <;> simp_all⟩)
    have hsn := countP_live_add_vacant (fun n : Node => n.w) s.nodes
    have hse := countP_live_add_vacant (fun n : Edge => n.w) s.edges
    have hcntN := hinv.cntN
    have hcntE := hinv.cntE
    simp only [Option.isSome_none, Bool.false_eq_true, if_false, Nat.add_zero] at hcntN
    rw [h1, h2]
    simp only [Nat.zero_add]
    have c1 : ¬ (ln.length > s.nodes.length) := by omega
    have c2 : ¬ (s.nodeCount ≠ s.nodes.length - ln.length) := by omega
    have c3 : ¬ (le.length > s.edges.length) := by omega
    have c4 : ¬ (s.edgeCount ≠ s.edges.length - le.length) := by omega
    simp [c1, c2, c3, c4]
  · simp [hd]


/-! ## Part 12: the public calls preserve the invariant and never fault -/

theorem AddEdgeOk.freeNode {s s' : State} {a b e : Nat} {w : Int} (h : AddEdgeOk s s' a b w e) :
    s'.freeNode = s.freeNode := by have := congrArg State.freeNode h.rest; simpa using this

theorem setNodeWeight_free (s : State) (a : Nat) (w : Int) :
    (setNodeWeight s a w).1.freeNode = s.freeNode ∧ (setNodeWeight s a w).1.freeEdge = s.freeEdge := by
  unfold setNodeWeight
  split
  · split
    · exact ⟨rfl, rfl⟩
    · exact ⟨rfl, rfl⟩
  · exact ⟨rfl, rfl⟩

theorem setEdgeWeight_free (s : State) (a : Nat) (w : Int) :
    (setEdgeWeight s a w).1.freeNode = s.freeNode ∧ (setEdgeWeight s a w).1.freeEdge = s.freeEdge := by
  unfold setEdgeWeight
  split
  · split
    · exact ⟨rfl, rfl⟩
    · exact ⟨rfl, rfl⟩
  · exact ⟨rfl, rfl⟩

/-- `try_add_edge`: summary for a graph between public calls -/
theorem tryAddEdge_inv {s : State} (hinv : Inv s) (a b : Nat) (w : Int) :
    ∃ s' r, tryAddEdge s a b w = .ok (s', r) ∧ Inv s' ∧
      (∀ err, r = .error err → s' = s ∧
        (err = .edgeIxLimit → s.edgeCount = s.fin) ∧
        (∀ i, err = .nodeMissed i → (i = a ∨ i = b) ∧ nodeWeight s i = none) ∧ err ≠ .nodeIxLimit) ∧
      (∀ e, r = .ok e → AddEdgeOk s s' a b w e) := by
  by_cases hf : s.freeEdge = s.fin
  · rcases tryAddEdge_push (d := none) (fn := s.freeNode) (fe := s.freeEdge) a b w hinv hf with ⟨h, hlen⟩ | ⟨i, h, hi, hw⟩ | ⟨s', h, hinv', hfe, hok⟩
    · refine ⟨s, _, h, hinv, fun err he => ?_, fun e he => by cases he⟩
      cases he
      refine ⟨rfl, fun _ => ?_, (fun i hi => by cases hi), by simp⟩
      -- the free edge list is empty, so every slot is live
      obtain ⟨l, hl, hmem⟩ := hinv.freeE
      rw [hf] at hl
      have hnil := hl.of_head_fin
      subst hnil
      rw [hinv.cntE, ← hlen]
      apply List.countP_eq_length.2
      intro x hx
      obtain ⟨i, hi, rfl⟩ := List.getElem_of_mem hx
      have := (hmem i).2
      cases hxw : s.edges[i].w with
      | none => exact absurd (this ⟨s.edges[i], List.getElem?_eq_getElem hi, hxw⟩) (by simp)
      | some _ => simp
    · refine ⟨s, _, h, hinv, fun err he => ?_, fun e he => by cases he⟩
      cases he
      exact ⟨rfl, (fun h' => by cases h'), (fun j hj => by cases hj; exact ⟨hi, hw⟩), by simp⟩
    · refine ⟨s', _, h, ?_, (fun err he => by cases he), (fun e he => by cases he; exact hok)⟩
      unfold Inv; rw [hok.freeNode, hfe]; exact hinv'
  · rcases tryAddEdge_reuse (d := none) (fn := s.freeNode) a b w hinv hf with ⟨i, h, hi, hw⟩ | ⟨s', h, hinv', hok⟩
    · refine ⟨s, _, h, hinv, fun err he => ?_, fun e he => by cases he⟩
      cases he
      exact ⟨rfl, (fun h' => by cases h'), (fun j hj => by cases hj; exact ⟨hi, hw⟩), by simp⟩
    · refine ⟨s', _, h, ?_, (fun err he => by cases he), (fun e he => by cases he; exact hok)⟩
      unfold Inv; rw [hok.freeNode]; exact hinv'

theorem Inv.of_reweight {s s' : State} (h : InvG s' none s.freeNode s.freeEdge)
    (h1 : s'.freeNode = s.freeNode) (h2 : s'.freeEdge = s.freeEdge) : Inv s' := by
  unfold Inv; rw [h1, h2]; exact h

theorem tryUpdateEdge_inv {s : State} (hinv : Inv s) (a b : Nat) (w : Int) :
    ∃ s' r, tryUpdateEdge s a b w = .ok (s', r) ∧ Inv s' ∧ (∀ err, r = .error err → s' = s) := by
  obtain ⟨r, hr, hsome, _⟩ := findEdge_spec hinv a b
  cases r with
  | none =>
    obtain ⟨s', r', h, hinv', herr, _⟩ := tryAddEdge_inv hinv a b w
    exact ⟨s', r', by simp [tryUpdateEdge, hr, h], hinv', fun err he => (herr err he).1⟩
  | some ix =>
    obtain ⟨x, hx, hxl, _⟩ := hsome ix rfl
    have hn : x.w.isNone = false := by cases hw : x.w <;> simp_all
    refine ⟨(setEdgeWeight s ix w).1, .ok ix, ?_, ?_, (fun err he => by cases he)⟩
    · simp [tryUpdateEdge, hr, hx, hn, setEdgeWeight, hxl]
    · exact Inv.of_reweight (setEdgeWeight_inv hinv ix w) (setEdgeWeight_free s ix w).1 (setEdgeWeight_free s ix w).2

theorem removeEdge_inv {s : State} (hinv : Inv s) (e : Nat) : ∃ s' r, removeEdge s e = .ok (s', r) ∧ Inv s' := by
  cases hw : edgeWeight s e with
  | none => exact ⟨s, none, removeEdge_absent hw, hinv⟩
  | some w =>
    unfold edgeWeight at hw
    cases hx : s.edges[e]? with
    | none => rw [hx] at hw; cases hw
    | some x =>
      rw [hx] at hw
      obtain ⟨s', hrun, hinv', hrf⟩ := removeEdge_spec (d := none) (fn := s.freeNode) hinv hx hw
      refine ⟨s', some w, hrun, ?_⟩
      have : s'.freeNode = s.freeNode := by have := congrArg State.freeNode hrf.rest; simpa using this
      unfold Inv; rw [this]; exact hinv'

theorem removeNode_inv {s : State} (hinv : Inv s) (a : Nat) : ∃ s' r, removeNode s a = .ok (s', r) ∧ Inv s' := by
  cases hw : nodeWeight s a with
  | none => exact ⟨s, none, removeNode_absent hw, hinv⟩
  | some w =>
    unfold nodeWeight at hw
    cases hn : s.nodes[a]? with
    | none => rw [hn] at hw; cases hw
    | some n =>
      rw [hn] at hw
      obtain ⟨s', hrun, hinv', _⟩ := removeNode_spec hinv hn hw
      exact ⟨s', some w, hrun, hinv'⟩

theorem retainNodesLoop_inv (rm : List Nat) : ∀ (is : List Nat) {s : State}, Inv s →
    ∃ s' vis, retainNodesLoop rm is s = .ok (s', vis) ∧ Inv s' := by
  intro is
  induction is with
  | nil => intro s hinv; exact ⟨s, [], rfl, hinv⟩
  | cons i is ih =>
    intro s hinv
    by_cases hc : containsNode s (mkIx s i) = true
    · by_cases hr : mkIx s i ∈ rm
      · obtain ⟨s1, r, hrun, hinv1⟩ := removeNode_inv hinv (mkIx s i)
        obtain ⟨s', vis, h', hinv'⟩ := ih hinv1
        exact ⟨s', mkIx s i :: vis, by simp [retainNodesLoop, hc, hr, hrun, h'], hinv'⟩
      · obtain ⟨s', vis, h', hinv'⟩ := ih hinv
        exact ⟨s', mkIx s i :: vis, by simp [retainNodesLoop, hc, hr, h'], hinv'⟩
    · obtain ⟨s', vis, h', hinv'⟩ := ih hinv
      exact ⟨s', vis, by simp [retainNodesLoop, hc, h'], hinv'⟩

theorem retainEdgesLoop_inv (rm : List Nat) : ∀ (is : List Nat) {s : State}, Inv s →
    ∃ s' vis, retainEdgesLoop rm is s = .ok (s', vis) ∧ Inv s' := by
  intro is
  induction is with
  | nil => intro s hinv; exact ⟨s, [], rfl, hinv⟩
  | cons i is ih =>
    intro s hinv
    by_cases hc : (edgeWeight s (mkIx s i)).isSome = true
    · by_cases hr : mkIx s i ∈ rm
      · obtain ⟨s1, r, hrun, hinv1⟩ := removeEdge_inv hinv (mkIx s i)
        obtain ⟨s', vis, h', hinv'⟩ := ih hinv1
        exact ⟨s', mkIx s i :: vis, by simp [retainEdgesLoop, hc, hr, hrun, h'], hinv'⟩
      · obtain ⟨s', vis, h', hinv'⟩ := ih hinv
        exact ⟨s', mkIx s i :: vis, by simp [retainEdgesLoop, hc, hr, h'], hinv'⟩
    · obtain ⟨s', vis, h', hinv'⟩ := ih hinv
      exact ⟨s', vis, by simp [retainEdgesLoop, hc, h'], hinv'⟩

/-- the calls for which the invariant proof is complete: everything except `filter_map`,
`extend_with_edges` and the round trip through `Graph` -/
def CoreOp : Op → Prop
  | .filterMap _ _ _ _ => False
  | .extendWithEdges _ => False
  | .compact => False
  | _ => True

/-- every core call, with arbitrary (valid or invalid) arguments, returns without a fault and re-establishes the
invariant -/
theorem step_inv {s : State} (hinv : Inv s) (op : Op) (hcore : CoreOp op) :
    ∃ s' out, step s op = .ok (s', out) ∧ Inv s' := by
  cases op with
  | addNode w =>
    rcases tryAddNode_spec (d := none) (fe := s.freeEdge) w hinv with ⟨s', i, h, hinv', _, _, _, _, _, hfe, _⟩ | ⟨h, _⟩
    · exact ⟨s', .idx (.ok i), by simp [step, h], by unfold Inv; rw [hfe]; exact hinv'⟩
    · exact ⟨s, .idx (.error .nodeIxLimit), by simp [step, h], hinv⟩
  | addEdge a b w =>
    obtain ⟨s', r, h, hinv', _⟩ := tryAddEdge_inv hinv a b w
    exact ⟨s', .idx r, by simp [step, h], hinv'⟩
  | updateEdge a b w =>
    obtain ⟨s', r, h, hinv', _⟩ := tryUpdateEdge_inv hinv a b w
    exact ⟨s', .idx r, by simp [step, h], hinv'⟩
  | removeNode a =>
    obtain ⟨s', r, h, hinv'⟩ := removeNode_inv hinv a
    exact ⟨s', .weight r, by simp [step, h], hinv'⟩
  | removeEdge e =>
    obtain ⟨s', r, h, hinv'⟩ := removeEdge_inv hinv e
    exact ⟨s', .weight r, by simp [step, h], hinv'⟩
  | setNodeWeight a w =>
    exact ⟨(setNodeWeight s a w).1, .flag (setNodeWeight s a w).2, by simp [step],
      Inv.of_reweight (setNodeWeight_inv hinv a w) (setNodeWeight_free s a w).1 (setNodeWeight_free s a w).2⟩
  | setEdgeWeight e w =>
    exact ⟨(setEdgeWeight s e w).1, .flag (setEdgeWeight s e w).2, by simp [step],
      Inv.of_reweight (setEdgeWeight_inv hinv e w) (setEdgeWeight_free s e w).1 (setEdgeWeight_free s e w).2⟩
  | reverse => exact ⟨reverse s, .unit, by simp [step], reverse_inv hinv⟩
  | clear => exact ⟨clear s, .unit, by simp [step], clear_inv s⟩
  | clearEdges => exact ⟨clearEdges s, .unit, by simp [step], clearEdges_inv hinv⟩
  | retainNodes rm =>
    obtain ⟨s', vis, h, hinv'⟩ := retainNodesLoop_inv rm (List.range (nodeBound s)) hinv
    exact ⟨s', .visited vis [], by simp [step, retainNodes, h, checkFreeLists_ok hinv'], hinv'⟩
  | retainEdges rm =>
    obtain ⟨s', vis, h, hinv'⟩ := retainEdgesLoop_inv rm (List.range (edgeBound s)) hinv
    exact ⟨s', .visited [] vis, by simp [step, retainEdges, h, checkFreeLists_ok hinv'], hinv'⟩
  | map cn ce =>
    exact ⟨(mapGraph s cn ce).1, .visited (mapGraph s cn ce).2.1 (mapGraph s cn ce).2.2, by simp [step],
      Inv.of_reweight (mapGraph_inv hinv cn ce) rfl rfl⟩
  | filterMap _ _ _ _ => exact absurd hcore (by simp [CoreOp])
  | extendWithEdges _ => exact absurd hcore (by simp [CoreOp])
  | compact => exact absurd hcore (by simp [CoreOp])
  | clone => exact ⟨s, .unit, by simp [step], hinv⟩

end PetgraphModel.SGProofs
