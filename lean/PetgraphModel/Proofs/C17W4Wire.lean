import PetgraphModel.Proofs.C17W4Judge
/-
C17 wave 4 — soundness of `wireValid` ("this wire value is the serialization of a valid graph of the target type") and
of `absWire` (the graph a wire value denotes): a valid stream below the capacity of the index type is loaded by the
mirror model, as exactly the graph `absWire` says.
-/
namespace PetgraphModel.SerdeProofs
open PetgraphModel.Serde PetgraphModel.SerdeSpec PetgraphModel.SerdeCheck

/-! ### strictly increasing holes below the total are the `Holes` of a slot sequence -/

theorem pairwise_length_bound (l : List Nat) (hp : l.Pairwise (· < ·)) :
    ∀ (a b : Nat), (∀ x, x ∈ l → a ≤ x ∧ x < b) → l.length + a ≤ b ∨ l = [] := by
  induction l with
  | nil => intro a b _; exact Or.inr rfl
  | cons x t ih =>
    intro a b h
    obtain ⟨h1, h2⟩ := List.pairwise_cons.1 hp
    have hx := h x (List.mem_cons_self ..)
    rcases ih h2 (x + 1) b (fun y hy => ⟨h1 y hy, (h y (List.mem_cons_of_mem _ hy)).2⟩) with h3 | h3
    · left; simp only [List.length_cons]; omega
    · subst h3; left; simp only [List.length_cons, List.length_nil]; omega

theorem slots_exist : ∀ (k pos : Nat) (holes : List Nat) (nodes : List Int), k = nodes.length + holes.length →
    holes.Pairwise (· < ·) → (∀ h, h ∈ holes → pos ≤ h ∧ h < pos + k) →
    ∃ ws : List (Option Int), somesW ws = nodes ∧ holesW pos ws = holes := by
  intro k
  induction k with
  | zero =>
    intro pos holes nodes hk _ _
    have h1 : nodes = [] := List.eq_nil_of_length_eq_zero (by omega)
    have h2 : holes = [] := List.eq_nil_of_length_eq_zero (by omega)
    subst h1 h2
    exact ⟨[], rfl, rfl⟩
  | succ k ih =>
    intro pos holes nodes hk hp hr
    by_cases hh : ∃ hs, holes = pos :: hs
    · obtain ⟨hs, rfl⟩ := hh
      obtain ⟨h1, h2⟩ := List.pairwise_cons.1 hp
      obtain ⟨ws, e1, e2⟩ := ih (pos + 1) hs nodes (by simp only [List.length_cons] at hk; omega) h2
        (fun h hm => ⟨h1 h hm, by have := (hr h (List.mem_cons_of_mem _ hm)).2; omega⟩)
      exact ⟨none :: ws, by simpa [somesW] using e1, by simp [holesW, e2]⟩
    · -- the head of the holes (if any) lies beyond `pos`: a node comes first
      have hgt : ∀ h, h ∈ holes → pos + 1 ≤ h := by
        intro h hm
        cases holes with
        | nil => simp at hm
        | cons h0 hs =>
          have h0ne : h0 ≠ pos := fun e => hh ⟨hs, by rw [e]⟩
          have := (hr h0 (List.mem_cons_self ..)).1
          rcases List.mem_cons.1 hm with rfl | hm'
          · omega
          · have := (List.pairwise_cons.1 hp).1 h hm'; omega
      cases nodes with
      | nil =>
        exfalso
        simp only [List.length_nil, Nat.zero_add] at hk
        rcases pairwise_length_bound holes hp (pos + 1) (pos + (k + 1)) (fun x hx => ⟨hgt x hx, (hr x hx).2⟩) with h | h
        · omega
        · subst h; simp at hk
      | cons x xs =>
        obtain ⟨ws, e1, e2⟩ := ih (pos + 1) holes xs (by simp only [List.length_cons] at hk; omega) hp
          (fun h hm => ⟨hgt h hm, by have := (hr h hm).2; omega⟩)
        exact ⟨some x :: ws, by simpa [somesW] using e1, by simp [holesW, e2]⟩

theorem holesW_ge (ws : List (Option Int)) : ∀ j h, h ∈ holesW j ws → j ≤ h := by
  induction ws with
  | nil => intro j h hh; simp [holesW] at hh
  | cons o ws ih =>
    intro j h hh
    cases o with
    | none =>
      simp only [holesW, List.mem_cons] at hh
      rcases hh with rfl | hh
      · omega
      · have := ih (j + 1) h hh; omega
    | some x =>
      simp only [holesW] at hh
      have := ih (j + 1) h hh; omega

theorem present_of_not_hole (ws : List (Option Int)) : ∀ (j a : Nat), j ≤ a → a - j < ws.length → a ∉ holesW j ws →
    ∃ wa, ws[a - j]? = some (some wa) := by
  induction ws with
  | nil => intro j a _ h _; simp at h
  | cons o ws ih =>
    intro j a hja hlt hn
    by_cases haj : a = j
    · subst haj
      cases o with
      | none => simp [holesW] at hn
      | some x => exact ⟨x, by simp⟩
    · have hn' : a ∉ holesW (j + 1) ws := by
        cases o with
        | none => simp only [holesW, List.mem_cons, not_or] at hn; exact hn.2
        | some x => simpa [holesW] using hn
      obtain ⟨wa, hwa⟩ := ih (j + 1) a (by omega) (by simp only [List.length_cons] at hlt; omega) hn'
      refine ⟨wa, ?_⟩
      have : a - j = (a - (j + 1)) + 1 := by omega
      rw [this, List.getElem?_cons_succ]
      exact hwa

/-! ### what a wire value denotes -/

theorem wireNodes_slots (ws : List (Option Int)) : ∀ j : Nat,
    ((List.range' j ws.length).filter (fun i => !(holesW j ws).contains i)).zip (somesW ws) =
      (enumFrom j ws).filterMap (fun (x : Nat × Option Int) => x.2.map fun w => (x.1, w)) := by
  induction ws with
  | nil => intro j; rfl
  | cons o ws ih =>
    intro j
    have hcong : ∀ (hs : List Nat), (∀ i, i ∈ List.range' (j + 1) ws.length → ((j :: hs).contains i) = hs.contains i) := by
      intro hs i hi
      have : j + 1 ≤ i := (List.mem_range'_1.1 hi).1
      simp only [List.contains_eq_mem, List.mem_cons]
      have : i ≠ j := by omega
      simp [this]
    cases o with
    | none =>
      simp only [List.length_cons, List.range'_succ, holesW, somesW, List.filterMap_cons, id, enumFrom, Option.map_none]
      rw [List.filter_cons_of_neg (by simp)]
      rw [List.filter_congr (fun i hi => by rw [hcong _ i hi])]
      exact ih (j + 1)
    | some x =>
      simp only [List.length_cons, List.range'_succ, holesW, somesW, List.filterMap_cons, id, enumFrom, Option.map_some]
      rw [List.filter_cons_of_pos (by
        simp only [List.contains_eq_mem, Bool.not_eq_true', decide_eq_false_iff_not]
        intro hm
        have := holesW_ge ws (j + 1) j hm
        omega)]
      simp only [List.zip_cons_cons, List.cons.injEq, true_and]
      exact ih (j + 1)

theorem wireNodes_eq (w : Wire) (ws : List (Option Int)) (h1 : w.nodes = somesW ws) (h2 : w.holes = holesW 0 ws) :
    wireNodes w = (enumFrom 0 ws).filterMap (fun (x : Nat × Option Int) => x.2.map fun w => (x.1, w)) := by
  have hl := somes_holes_length ws 0
  unfold wireNodes livePositions
  rw [h1, h2, hl, List.range_eq_range']
  exact wireNodes_slots ws 0

theorem wireEdges_eq (w : Wire) :
    wireEdges w = (enumFrom 0 w.edges).filterMap
      (fun (x : Nat × Option (Nat × Nat × Int)) => x.2.map fun t => (x.1, t.1, t.2.1, t.2.2)) := rfl

/-! ### `wireValid` -/

/-- "the wire value is the serialization of a valid graph of the target kind": what `wireValid` decides.
    `ws` is the sequence of node slots (a weight, or vacant) the stream describes through `nodes` / `node_holes`. -/
structure WireOK (kind : Kind) (END : Nat) (directed : Bool) (order : List Field) (w : Wire) : Prop where
  fields : Field.n ∈ order ∧ Field.p ∈ order ∧ Field.e ∈ order
  prop : w.prop = some directed
  lenE : w.edges.length ≤ END
  slots : ∃ ws : List (Option Int), w.nodes = somesW ws ∧ (effWire order w).holes = holesW 0 ws ∧ ws.length ≤ END ∧
    ∀ a b x, some (a, b, x) ∈ w.edges → (∃ wa, ws[a]? = some (some wa)) ∧ (∃ wb, ws[b]? = some (some wb))
  compact : kind ≠ .stable → (effWire order w).holes = [] ∧ none ∉ w.edges

theorem wireValid_sound (kind : Kind) (END : Nat) (directed : Bool) (order : List Field) (w : Wire)
    (h : wireValid kind END directed order w = true) : WireOK kind END directed order w := by
  have hcommon : wireCommon END directed order (effWire order w) = true ∧
      (kind ≠ .stable → (effWire order w).holes.isEmpty = true ∧ (effWire order w).edges.all (·.isSome) = true) := by
    unfold wireValid at h
    cases kind <;> simp_all
  obtain ⟨hc, hk⟩ := hcommon
  unfold wireCommon at hc
  have en : (effWire order w).nodes = w.nodes := by unfold effWire; split <;> rfl
  have ee : (effWire order w).edges = w.edges := by unfold effWire; split <;> rfl
  have ep : (effWire order w).prop = w.prop := by unfold effWire; split <;> rfl
  rw [en, ee, ep] at hc
  rw [ee] at hk
  simp only [Bool.and_eq_true, List.contains_eq_mem, decide_eq_true_eq, beq_iff_eq, List.all_eq_true] at hc
  obtain ⟨⟨⟨⟨⟨⟨⟨⟨hn, hp⟩, he⟩, hprop⟩, htot⟩, hlenE⟩, hinc⟩, hlt⟩, hedges⟩ := hc
  have hpw := (strictlyIncreasing_pairwise _).1 hinc
  obtain ⟨ws, e1, e2⟩ := slots_exist _ 0 (effWire order w).holes w.nodes rfl hpw
    (fun h hm => ⟨Nat.zero_le _, by have := hlt h hm; omega⟩)
  have hlen : ws.length = w.nodes.length + (effWire order w).holes.length := by
    have := somes_holes_length ws 0
    rw [e1, e2] at this
    exact this.symm
  refine { fields := ⟨hn, hp, he⟩, prop := hprop, lenE := hlenE, slots := ⟨ws, e1.symm, e2.symm, by omega, ?_⟩,
           compact := ?_ }
  · intro a b x hm
    have := hedges _ hm
    simp only [Bool.and_eq_true, decide_eq_true_eq, Bool.not_eq_true', decide_eq_false_iff_not] at this
    obtain ⟨⟨⟨ha, hb⟩, hna⟩, hnb⟩ := this
    have pa := present_of_not_hole ws 0 a (Nat.zero_le _) (by omega) (by rw [e2]; exact hna)
    have pb := present_of_not_hole ws 0 b (Nat.zero_le _) (by omega) (by rw [e2]; exact hnb)
    simpa using And.intro pa pb
  · intro hks
    obtain ⟨h1, h2⟩ := hk hks
    refine ⟨List.isEmpty_iff.1 h1, fun hm => ?_⟩
    have := List.all_eq_true.1 h2 none hm
    simp at this

/-! ### a valid stream loads, as the graph `absWire` says -/

theorem parseField_holes_irrelevant (stable : Bool) (m : Nat) (w : Wire) (hs : List Nat) (f : Field) (hf : f ≠ .h) :
    parseField stable m { w with holes := hs } f = parseField stable m w f := by
  cases f <;> first | rfl | exact absurd rfl hf

theorem findSome_parseField_no_h (stable : Bool) (m : Nat) (w : Wire) (hs : List Nat) (order : List Field)
    (hh : Field.h ∉ order) :
    order.findSome? (parseField stable m { w with holes := hs }) = order.findSome? (parseField stable m w) := by
  induction order with
  | nil => rfl
  | cons f t ih =>
    have hf : f ≠ .h := fun e => hh (e ▸ List.mem_cons_self ..)
    simp only [List.findSome?_cons, parseField_holes_irrelevant stable m w hs f hf,
      ih (fun hm => hh (List.mem_cons_of_mem _ hm))]

theorem parseStage_no_h (stable : Bool) (m : Nat) (w : Wire) (hs : List Nat) (order : List Field) (hh : Field.h ∉ order) :
    parseStage stable m { w with holes := hs } order = parseStage stable m w order := by
  unfold parseStage
  rw [findSome_parseField_no_h stable m w hs order hh]

/-- a stream without the `node_holes` field is read like the same stream with an empty `node_holes` field in front -/
theorem deStable_no_h (END : Nat) (directed : Bool) (order : List Field) (w : Wire) (hh : Field.h ∉ order) :
    deStable END directed order w = deStable END directed (.h :: order) { w with holes := [] } := by
  have hc : order.contains Field.h = false := by simpa using hh
  have h1 : parseStage true (END + 1) { w with holes := [] } (.h :: order) = parseStage true (END + 1) w order := by
    have := parseStage_no_h true (END + 1) w [] order hh
    unfold parseStage at this ⊢
    simp only [List.findSome?_cons, parseField, parseHoles]
    have hn : (Field.h :: order).contains Field.n = order.contains Field.n := by simp
    have hp : (Field.h :: order).contains Field.p = order.contains Field.p := by simp
    have he : (Field.h :: order).contains Field.e = order.contains Field.e := by simp
    rw [hn, hp, he]
    exact this
  unfold deStable
  rw [h1]
  simp [hh]

theorem deGraph_effWire (END : Nat) (directed : Bool) (order : List Field) (w : Wire) :
    deGraph END directed order w = deGraph END directed order (effWire order w) := by
  unfold effWire
  by_cases hc : order.contains Field.h = true
  · rw [if_pos hc]
  · rw [if_neg hc]
    have hh : Field.h ∉ order := by simpa using hc
    unfold deGraph
    rw [parseStage_no_h false (END + 1) w [] order hh]
    simp [hh]

theorem absWire_nodes (kind : Kind) (hk : kind ≠ .map) (END : Nat) (directed : Bool) (order : List Field) (w : Wire) :
    (absWire kind END directed order w).nodes = wireNodes (effWire order w) ∧
    (absWire kind END directed order w).edges = wireEdges (effWire order w) := by
  cases kind <;> first | exact ⟨rfl, rfl⟩ | exact absurd rfl hk

theorem effWire_edges (order : List Field) (w : Wire) : (effWire order w).edges = w.edges := by
  unfold effWire; split <;> rfl

theorem effWire_nodes (order : List Field) (w : Wire) : (effWire order w).nodes = w.nodes := by
  unfold effWire; split <;> rfl

/-- **`wireValid` / `absWire` are sound, `StableGraph`**: a stream the judge calls valid, below the capacity of the
index type, IS loaded by the mirror model — as a consistent `StableGraph` whose live nodes (index, weight) and live edges
(index, source, target, weight) are exactly the abstract graph `absWire` assigns to the stream.  (At exactly `END`
elements the code refuses: open finding D20.) -/
theorem wireValid_loads_stable (END : Nat) (directed : Bool) (order : List Field) (w : Wire)
    (hv : wireValid .stable END directed order w = true)
    (hcapN : w.nodes.length + (effWire order w).holes.length < END) (hcapE : w.edges.length < END) :
    ∃ s, deStable END directed order w = .ok s ∧ StableInv s ∧
      liveNodes s.g = (absWire .stable END directed order w).nodes ∧
      liveEdges s.g = (absWire .stable END directed order w).edges := by
  obtain ⟨⟨hn, hp, he⟩, hprop, _, ⟨ws, e1, e2, _, hend⟩, _⟩ := wireValid_sound _ _ _ _ _ hv
  have hlen : ws.length = w.nodes.length + (effWire order w).holes.length := by
    have := somes_holes_length ws 0
    rw [← e1, ← e2] at this
    exact this.symm
  obtain ⟨hN, hE⟩ := absWire_nodes .stable (by decide) END directed order w
  have key : ∀ order' : List Field, FullOrder order' →
      deStable END directed order w = deStable END directed order' (effWire order w) →
      ∃ s, deStable END directed order w = .ok s ∧ StableInv s ∧
        liveNodes s.g = (absWire .stable END directed order w).nodes ∧
        liveEdges s.g = (absWire .stable END directed order w).edges := by
    intro order' ho' heq
    obtain ⟨s, hs, hw, hsk⟩ := deStable_complete END directed order' ws w.edges ho' (by omega) hcapE hend
    have hwire : effWire order w = { nodes := somesW ws, holes := holesW 0 ws, prop := some directed, edges := w.edges } := by
      have h1 := effWire_nodes order w
      have h3 := effWire_edges order w
      have h4 : (effWire order w).prop = w.prop := by unfold effWire; split <;> rfl
      cases hw' : effWire order w with
      | mk n h p e =>
        rw [hw'] at h1 h3 h4 e2
        simp only at h1 h3 h4 e2
        rw [h1, h3, h4, e2, e1, hprop]
    rw [← hwire, ← heq] at hs
    refine ⟨s, hs, (deStable_de hs).inv, ?_, ?_⟩
    · rw [hN, liveNodes_eq, hw]
      exact (wireNodes_eq (effWire order w) ws (by rw [effWire_nodes]; exact e1) e2).symm
    · rw [hE, liveEdges_eq, hsk, wireEdges_eq, effWire_edges]
  by_cases hc : order.contains Field.h = true
  · have hh : Field.h ∈ order := by simpa using hc
    exact key order ⟨hn, hh, hp, he⟩ (by unfold effWire; rw [if_pos hc])
  · have hh : Field.h ∉ order := by simpa using hc
    refine key (.h :: order) ⟨List.mem_cons_of_mem _ hn, List.mem_cons_self .., List.mem_cons_of_mem _ hp,
      List.mem_cons_of_mem _ he⟩ ?_
    rw [deStable_no_h END directed order w hh]
    unfold effWire
    rw [if_neg hc]

/-- **`wireValid` / `absWire` are sound, `Graph`**. -/
theorem wireValid_loads_graph (END : Nat) (directed : Bool) (order : List Field) (w : Wire)
    (hv : wireValid .graph END directed order w = true)
    (hcapN : w.nodes.length < END) (hcapE : w.edges.length < END) :
    ∃ g, deGraph END directed order w = .ok g ∧ GraphInv g ∧
      liveNodes g = (absWire .graph END directed order w).nodes ∧
      liveEdges g = (absWire .graph END directed order w).edges := by
  obtain ⟨⟨hn, hp, he⟩, hprop, _, ⟨ws, e1, e2, _, hend⟩, hcompact⟩ := wireValid_sound _ _ _ _ _ hv
  obtain ⟨hh0, hnone⟩ := hcompact (by decide)
  have hlen : ws.length = w.nodes.length := by
    have := somes_holes_length ws 0
    rw [← e1, ← e2, hh0] at this
    simpa using this.symm
  obtain ⟨hN, hE⟩ := absWire_nodes .graph (by decide) END directed order w
  have hes : w.edges = (w.edges.filterMap id).map some := by
    have := map_eq_map_some_filterMap (id : Option (Nat × Nat × Int) → Option (Nat × Nat × Int)) w.edges (by
      intro x hx
      cases x with
      | none => exact absurd hx hnone
      | some t => rfl)
    simpa using this
  obtain ⟨g, hg, hw, hsk⟩ := deGraph_complete END directed order w.nodes (w.edges.filterMap id) ⟨hn, hp, he⟩ hcapN
    (by have := congrArg List.length hes; simp only [List.length_map] at this; omega)
    (by
      intro a b x hm
      have hm' : some (a, b, x) ∈ w.edges := by rw [hes]; exact List.mem_map.2 ⟨_, hm, rfl⟩
      obtain ⟨⟨wa, h1⟩, ⟨wb, h2⟩⟩ := hend a b x hm'
      have := (List.getElem?_eq_some_iff.1 h1).1
      have := (List.getElem?_eq_some_iff.1 h2).1
      omega)
  have hwire : effWire order w = { nodes := w.nodes, holes := [], prop := some directed, edges := (w.edges.filterMap id).map some } := by
    have h1 := effWire_nodes order w
    have h3 := effWire_edges order w
    have h4 : (effWire order w).prop = w.prop := by unfold effWire; split <;> rfl
    cases hw' : effWire order w with
    | mk n h p e =>
      rw [hw'] at h1 h3 h4 hh0
      simp only at h1 h3 h4 hh0
      rw [h1, h3, h4, hh0, hprop, ← hes]
  rw [← hwire, ← deGraph_effWire] at hg
  refine ⟨g, hg, (deGraph_de hg).inv, ?_, ?_⟩
  · rw [hN, liveNodes_eq, hw]
    have hws : ws = w.nodes.map some := by
      -- no holes: every slot is present
      have : ∀ (l : List (Option Int)) (j : Nat), holesW j l = [] → l = (somesW l).map some := by
        intro l
        induction l with
        | nil => intro j _; rfl
        | cons o t ih =>
          intro j hj
          cases o with
          | none => simp [holesW] at hj
          | some x =>
            simp only [holesW] at hj
            have := ih (j + 1) hj
            simp only [somesW, List.filterMap_cons, id, List.map_cons] at this ⊢
            rw [← this]
      have h' := this ws 0 (by rw [← e2, hh0])
      rw [← e1] at h'
      exact h'
    rw [← hws]
    exact (wireNodes_eq (effWire order w) ws (by rw [effWire_nodes]; exact e1) e2).symm
  · rw [hE, liveEdges_eq, hsk, wireEdges_eq, effWire_edges, ← hes]

/-! ### the judge of a serialization -/

theorem effWire_full (w : Wire) : effWire [Field.n, .h, .p, .e] w = w := by
  unfold effWire
  rw [if_pos (by decide)]

/-- **soundness of the serialization judge**: a stream the judge accepts is a well-formed stream of the graph's own
type (`WireOK`) and denotes exactly the abstract graph: the same (index, weight) nodes and (index, source, target,
weight) edges — for a `GraphMap` the same node values and (key, weight) edges after `from_graph`'s merging. -/
theorem judgeSer_sound (spec : AGraph) (w : Wire) (h : judgeSer spec w = none) :
    WireOK (if spec.kind == .map then Kind.graph else spec.kind) spec.END spec.directed [.n, .h, .p, .e] w ∧
    (spec.kind ≠ .map → (wireNodes w).Perm spec.nodes ∧ (wireEdges w).Perm spec.edges) ∧
    (spec.kind = .map →
      (mapOfGraph spec.directed (wireNodes w) (wireEdges w)).1.Perm spec.mnodes ∧
      (mapOfGraph spec.directed (wireNodes w) (wireEdges w)).2.Perm spec.medges) := by
  unfold judgeSer at h
  have e1 : ∀ k, (absWire k spec.END spec.directed [.n, .h, .p, .e] w).nodes =
      (match k with | .map => [] | _ => wireNodes w) := by
    intro k; cases k <;> simp only [absWire, effWire_full] <;> rfl
  have e2 : ∀ k, (absWire k spec.END spec.directed [.n, .h, .p, .e] w).edges =
      (match k with | .map => [] | _ => wireEdges w) := by
    intro k; cases k <;> simp only [absWire, effWire_full] <;> rfl
  have e3 : (absWire Kind.map spec.END spec.directed [.n, .h, .p, .e] w).mnodes =
      (mapOfGraph spec.directed (wireNodes w) (wireEdges w)).1 := by
    simp only [absWire, effWire_full]
  have e4 : (absWire Kind.map spec.END spec.directed [.n, .h, .p, .e] w).medges =
      (mapOfGraph spec.directed (wireNodes w) (wireEdges w)).2 := by
    simp only [absWire, effWire_full]
  cases hkind : spec.kind with
  | map =>
    simp only [hkind, beq_self_eq_true, if_true] at h ⊢
    by_cases hv : wireValid Kind.graph spec.END spec.directed [.n, .h, .p, .e] w = true
    · simp only [hv, Bool.not_true, Bool.false_eq_true, if_false] at h
      refine ⟨wireValid_sound _ _ _ _ _ hv, fun hk => absurd rfl hk, fun _ => ?_⟩
      by_cases hc : (sameMultiset (absWire Kind.map spec.END spec.directed [.n, .h, .p, .e] w).mnodes spec.mnodes &&
          sameMultiset (absWire Kind.map spec.END spec.directed [.n, .h, .p, .e] w).medges spec.medges) = true
      · simp only [Bool.and_eq_true] at hc
        rw [e3] at hc; rw [e4] at hc
        exact ⟨sameMultiset_perm _ _ hc.1, sameMultiset_perm _ _ hc.2⟩
      · rw [if_neg hc] at h; cases h
    · rw [if_pos (by simpa using hv)] at h; cases h
  | graph =>
    have hb : (Kind.graph == Kind.map) = false := rfl
    simp only [hkind, hb, Bool.false_eq_true, if_false] at h ⊢
    by_cases hv : wireValid Kind.graph spec.END spec.directed [.n, .h, .p, .e] w = true
    · simp only [hv, Bool.not_true, Bool.false_eq_true, if_false] at h
      refine ⟨wireValid_sound _ _ _ _ _ hv, fun _ => ?_, fun hk => by cases hk⟩
      by_cases hc : (sameMultiset (absWire Kind.graph spec.END spec.directed [.n, .h, .p, .e] w).nodes spec.nodes &&
          sameMultiset (absWire Kind.graph spec.END spec.directed [.n, .h, .p, .e] w).edges spec.edges) = true
      · simp only [Bool.and_eq_true] at hc
        rw [e1] at hc; rw [e2] at hc
        exact ⟨sameMultiset_perm _ _ hc.1, sameMultiset_perm _ _ hc.2⟩
      · rw [if_neg hc] at h; cases h
    · rw [if_pos (by simpa using hv)] at h; cases h
  | stable =>
    have hb : (Kind.stable == Kind.map) = false := rfl
    simp only [hkind, hb, Bool.false_eq_true, if_false] at h ⊢
    by_cases hv : wireValid Kind.stable spec.END spec.directed [.n, .h, .p, .e] w = true
    · simp only [hv, Bool.not_true, Bool.false_eq_true, if_false] at h
      refine ⟨wireValid_sound _ _ _ _ _ hv, fun _ => ?_, fun hk => by cases hk⟩
      by_cases hc : (sameMultiset (absWire Kind.stable spec.END spec.directed [.n, .h, .p, .e] w).nodes spec.nodes &&
          sameMultiset (absWire Kind.stable spec.END spec.directed [.n, .h, .p, .e] w).edges spec.edges) = true
      · simp only [Bool.and_eq_true] at hc
        rw [e1] at hc; rw [e2] at hc
        exact ⟨sameMultiset_perm _ _ hc.1, sameMultiset_perm _ _ hc.2⟩
      · rw [if_neg hc] at h; cases h
    · rw [if_pos (by simpa using hv)] at h; cases h

end PetgraphModel.SerdeProofs
