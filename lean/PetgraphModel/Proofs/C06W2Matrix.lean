import PetgraphModel.Model.C06Views
import PetgraphModel.Proofs.C06W2Base
import PetgraphModel.Proofs.MatrixGraph
/-
C06 wave 2 — `MatrixGraph`: the table of `visit`-trait answers computed from the storage model
(`matrixTable`, Model/C06ViewsMatrix.lean) is consistent in every state that satisfies the representation
invariant `Inv` and refines a simple graph (`R s g`: this is what says that no edge touches an id that is not
live); no bound on the node ids (wave 5: the pair edge id code `pcode a b` is injective on all pairs).

* undirected kind: `TableConsistent ids (matrixTable s)`;
* directed kind: `TableConsistent ids (repairD6 (matrixTable s))` — `edges_directed(_, Incoming)` has the
  recorded open finding D6; every other clause holds of the table as it stands
  (`matrixTable_consistent_directed_asIs`: the table with `edgesIn := none`);
* all histories (`C04_all_histories`): `matrixTable_all_histories`.
-/
namespace PetgraphModel.Visit
open PetgraphModel PetgraphModel.Matrix PetgraphModel.MatrixSpec PetgraphModel.MatrixProofs
open PetgraphModel.Visit.MXView

namespace MXProofs

/-! ### facts about the model's iterators -/

/-- an edge of the matrix joins live ids -/
theorem live_of_weight {s : State} {g : G} (h : Inv s) (r : R s g) {a b : Nat} {w : Int}
    (he : getEdgeWeight s a b = some w) : a ∈ s.nodes.ids ∧ b ∈ s.nodes.ids := by
  rw [← r.edges] at he
  have := live_of_edge r.wf he
  rw [live_eq r, live_eq r] at this
  exact ⟨(Ids.mem_ids_iff_live h.ids a).2 this.1, (Ids.mem_ids_iff_live h.ids b).2 this.2⟩

theorem edgeRefs_nodup (s : State) : (edgeRefs s).Nodup := by
  apply List.Pairwise.imp _ (edgeRefs_pairwise s)
  intro t t' h e; exact h ⟨by rw [e], by rw [e]⟩

theorem edgesOut_nodup (s : State) (a : Nat) : (edgesOut s a).Nodup :=
  nodup_of_nodup_map _ _ (neighborsOut_nodup s a)

theorem edgesIn_nodup (s : State) (a : Nat) : (edgesIn s a).Nodup :=
  nodup_of_nodup_map _ _ (neighborsIn_nodup s a)

theorem eref_inj (s : State) {x y : Nat × Nat × Int} (e : eref s x = eref s y) : x = y := by
  obtain ⟨a, b, w⟩ := x
  obtain ⟨a', b', w'⟩ := y
  simp only [eref, ERef.mk.injEq] at e
  simp only [Prod.mk.injEq]
  exact ⟨e.2.1, e.2.2.1, e.2.2.2⟩

theorem mapRows_rowsOver {α β : Type} (f : Nat → List α → List β) (qs : List Nat) (g : Nat → List α) :
    mapRows f (rowsOver qs g) = rowsOver qs fun a => f a (g a) := by
  simp [mapRows, rowsOver, List.map_map, Function.comp_def]

/-! ### the node clauses -/

theorem ids_ok {s : State} (h : Inv s) : idsOk s.nodes.ids (matrixTable s) := by
  simp only [idsOk, matrixTable, whenSome_some]
  exact ⟨Ids.ids_nodup _, fun a ha => ha, (Ids.len_eq_length_ids h.ids).symm⟩

theorem map_fst_filterMap_self {β : Type} (f : Nat → Option β) : ∀ l : List Nat,
    (∀ i ∈ l, (f i).isSome = true) → (l.filterMap fun i => (f i).map fun w => (i, w)).map (·.1) = l
  | [], _ => rfl
  | x :: t, hl => by
    have hx := hl x (by simp)
    cases hf : f x with
    | none => rw [hf] at hx; cases hx
    | some w =>
      simp only [List.filterMap_cons, hf, Option.map_some, List.map_cons]
      rw [map_fst_filterMap_self f t (fun i hi => hl i (List.mem_cons_of_mem _ hi))]

theorem refs_ok {s : State} (h : Inv s) : refsOk (matrixTable s) := by
  simp only [refsOk, matrixTable, whenSome_some]
  unfold nodeRefs
  rw [map_fst_filterMap_self _ _ (fun i hi => (Ids.mem_ids_iff_live h.ids i).1 hi)]

theorem index_ok {s : State} (h : Inv s) : indexOk (matrixTable s) := by
  simp only [indexOk, matrixTable, whenSome_some]
  have hto : ∀ a ∈ s.nodes.ids, (s.nodes.ids.map fun q => (q, toIndex s q)).lookup a = some a :=
    fun a ha => lookup_map_self (fun q => toIndex s q) _ a ha
  refine ⟨fun a ha => ?_, ?_, fun a ha => ?_⟩
  · rw [hto a ha]
    exact ((Ids.mem_ids s.nodes a).1 ha).1
  · apply nodup_map_of_inj_on _ _ (Ids.ids_nodup _)
    intro x hx y hy e
    rw [hto x hx, hto y hy] at e
    exact Option.some.inj e
  · rw [lookup_map_self (fun q => fromIndex s (toIndex s q)) _ a ha]
    have h1 := ((Ids.mem_ids s.nodes a).1 ha).1
    have h2 := h.ubIx
    simp only [fromIndex, toIndex]
    rw [Nat.mod_eq_of_lt (by omega)]

theorem compact_ok (s : State) : compactOk (matrixTable s) := by
  intro hc; simp [matrixTable] at hc

theorem eix_ok (s : State) : eixOk (matrixTable s) := by
  simp only [eixOk, matrixTable, whenSome_some]
  exact whenSome_none _

/-! ### `edge_references` -/

theorem pairCode_inj_dir {a b a' b' : Nat}
    (e : pairCode false a b = pairCode false a' b') : a = a' ∧ b = b' := by
  rw [pairCode_false, pairCode_false] at e
  exact pcode_inj e

/-- on pairs written larger endpoint first (as `edge_references` of the undirected kind writes them) -/
theorem pairCode_inj_sym {a b a' b' : Nat} (h : b ≤ a) (h' : b' ≤ a')
    (e : pairCode true a b = pairCode true a' b') : a = a' ∧ b = b' := by
  rw [pairCode_comm a b, pairCode_comm a' b', pairCode_le true h, pairCode_le true h'] at e
  have := pcode_inj e
  exact ⟨this.2, this.1⟩

theorem erefIds_nodup {s : State} {g : G} (h : Inv s) (r : R s g) :
    (((edgeRefs s).map (eref s)).map (·.id)).Nodup := by
  rw [List.map_map]
  apply nodup_map_of_inj_on _ _ (edgeRefs_nodup s)
  intro x hx y hy e
  obtain ⟨a, b, w⟩ := x
  obtain ⟨a', b', w'⟩ := y
  have h1 := (mem_edgeRefs s _).1 hx
  have h2 := (mem_edgeRefs s _).1 hy
  have l1 := live_of_weight h r h1.2
  have l2 := live_of_weight h r h2.2
  simp only [Function.comp, eref] at e h1 h2 l1 l2
  have hab : a = a' ∧ b = b' := by
    cases hd : s.dir
    · rw [hd] at h1 h2 e
      simp only [Bool.false_eq_true, false_or, Bool.not_false] at h1 h2 e
      exact pairCode_inj_sym h1.1 h2.1 e
    · rw [hd] at e
      exact pairCode_inj_dir e
  obtain ⟨rfl, rfl⟩ := hab
  have hw : some w = some w' := by rw [← h1.2, ← h2.2]
  cases hw; rfl

theorem erefs_ok {s : State} {g : G} (h : Inv s) (r : R s g) :
    erefsOk (matrixTable s) := by
  simp only [erefsOk, matrixTable, whenSome_some]
  refine ⟨erefIds_nodup h r, by rw [List.length_map]; exact edgeRefs_length r, ?_⟩
  intro e he
  rw [List.mem_map] at he
  obtain ⟨t, ht, rfl⟩ := he
  exact live_of_weight h r ((mem_edgeRefs s t).1 ht).2

/-! ### the per-node iterators against the rows prescribed by `edge_references` -/

/-- `edges(a)` (= `edges_directed(a, Outgoing)`): `Edges::on_columns(a)` -/
theorem edgesOut_perm {s : State} {g : G} (h : Inv s) (r : R s g) (a : Nat) :
    ((edgesOut s a).map (eref s)).Perm (expOut s.dir ((edgeRefs s).map (eref s)) a) := by
  apply perm_of_nodup_mem
    (nodup_map_of_inj_on _ _ (edgesOut_nodup s a) (fun x _ y _ e => eref_inj s e))
    (expOut_nodup (erefIds_nodup h r) a)
  intro e
  cases hd : s.dir
  · -- undirected: every incident edge once, `a` as source
    simp only [expOut, Bool.false_eq_true, if_false, List.mem_map, List.mem_filter, mem_edgesOut, mem_edgeRefs, hd,
      false_or]
    constructor
    · rintro ⟨⟨x, b, w⟩, ⟨hx, hw⟩, rfl⟩
      simp only at hx hw
      subst hx
      by_cases hba : b ≤ x
      · refine ⟨eref s (x, b, w), ⟨⟨(x, b, w), ⟨hba, hw⟩, rfl⟩, by simp [incident, eref]⟩, by simp [orientOut, eref]⟩
      · refine ⟨eref s (b, x, w), ⟨⟨(b, x, w), ⟨by simp only; omega, by rw [getEdgeWeight_symm hd]; exact hw⟩, rfl⟩,
          by simp [incident, eref]⟩, ?_⟩
        have hne : ¬ b = x := by omega
        simp [orientOut, eref, hne, ERef.swap, hd, pairCode_comm b x]
    · rintro ⟨_, ⟨⟨⟨x, y, w⟩, ⟨hyx, hw⟩, rfl⟩, hinc⟩, rfl⟩
      simp only at hyx hw
      by_cases hxa : x = a
      · subst hxa
        exact ⟨(x, y, w), ⟨rfl, hw⟩, by simp [orientOut, eref]⟩
      · have hya : y = a := by simpa [incident, eref, hxa] using hinc
        subst hya
        refine ⟨(y, x, w), ⟨rfl, by rw [getEdgeWeight_symm hd]; exact hw⟩, ?_⟩
        simp [orientOut, eref, hxa, ERef.swap, hd, pairCode_comm x y]
  · -- directed: the edges with source `a`
    simp only [expOut, if_true, List.mem_map, List.mem_filter, mem_edgesOut, mem_edgeRefs, hd, true_or, true_and]
    constructor
    · rintro ⟨t, ⟨ht1, ht2⟩, rfl⟩
      exact ⟨⟨t, by rw [ht1]; exact ht2, rfl⟩, by simp [eref, ht1]⟩
    · rintro ⟨⟨t, hw, rfl⟩, hsrc⟩
      have ht : t.1 = a := by simpa [eref] using hsrc
      exact ⟨t, ⟨ht, by rw [← ht]; exact hw⟩, rfl⟩

theorem neighborsOut_perm {s : State} {g : G} (h : Inv s) (r : R s g) (a : Nat) :
    (neighborsOut s a).Perm ((expOut s.dir ((edgeRefs s).map (eref s)) a).map (·.tgt)) := by
  have := (edgesOut_perm h r a).map (·.tgt)
  rw [List.map_map] at this
  exact this

/-- the repair of D6 applied to one reference of the directed kind: `(a, b)` becomes `(b, a)` -/
def fixD6 (e : ERef) : ERef := { e with id := pcode e.tgt e.src, src := e.tgt, tgt := e.src }

theorem fixD6_eref {s : State} (hd : s.dir = true) (a b : Nat) (w : Int) :
    fixD6 (eref s (a, b, w)) = eref s (b, a, w) := by
  simp [fixD6, eref, hd, pairCode_false]

/-- `edges_directed(a, Incoming)` of the directed kind, REPAIRED (D6): `Edges::on_rows(a)` with the pairs turned -/
theorem edgesIn_perm {s : State} {g : G} (h : Inv s) (r : R s g)
    (hd : s.dir = true) (a : Nat) :
    (((edgesIn s a).map (eref s)).map fixD6).Perm (expIn s.dir ((edgeRefs s).map (eref s)) a) := by
  rw [List.map_map]
  apply perm_of_nodup_mem
    (nodup_map_of_inj_on _ _ (edgesIn_nodup s a) (fun x _ y _ e => by
      obtain ⟨x1, x2, x3⟩ := x
      obtain ⟨y1, y2, y3⟩ := y
      simp only [Function.comp, fixD6_eref hd] at e
      have := eref_inj s e
      simp only [Prod.mk.injEq] at this ⊢
      exact ⟨this.2.1, this.1, this.2.2⟩))
    (expIn_nodup (erefIds_nodup h r) a)
  intro e
  simp only [expIn, if_true, List.mem_map, List.mem_filter, mem_edgesIn, mem_edgeRefs, hd, true_or, true_and,
    Function.comp]
  constructor
  · rintro ⟨⟨x, b, w⟩, ⟨hx, hw⟩, rfl⟩
    simp only at hx hw
    subst hx
    rw [fixD6_eref hd]
    exact ⟨⟨(b, x, w), hw, rfl⟩, by simp [eref]⟩
  · rintro ⟨⟨⟨x, y, w⟩, hw, rfl⟩, htgt⟩
    have ht : y = a := by simpa [eref] using htgt
    subst ht
    exact ⟨(y, x, w), ⟨rfl, hw⟩, fixD6_eref hd _ _ _⟩

/-- `neighbors_directed(a, Incoming)` is right as it stands (D6 turns the pair, the neighbour is its `.1`) -/
theorem neighborsIn_perm {s : State} {g : G} (h : Inv s) (r : R s g)
    (hd : s.dir = true) (a : Nat) :
    (neighborsIn s a).Perm ((expIn s.dir ((edgeRefs s).map (eref s)) a).map (·.src)) := by
  have := (edgesIn_perm h r hd a).map (·.src)
  rw [List.map_map, List.map_map] at this
  exact this

/-- `is_adjacent` = `has_edge` -/
theorem hasEdge_iff_expAdj {s : State} (a b : Nat) :
    hasEdge s a b = true ↔ expAdj s.dir ((edgeRefs s).map (eref s)) a b = true := by
  rw [hasEdge_eq]
  simp only [expAdj, List.any_eq_true, List.mem_map, mem_edgeRefs]
  constructor
  · intro hw
    cases hw' : getEdgeWeight s a b with
    | none => rw [hw'] at hw; cases hw
    | some w =>
      cases hd : s.dir
      · by_cases hba : b ≤ a
        · exact ⟨eref s (a, b, w), ⟨(a, b, w), ⟨Or.inr hba, hw'⟩, rfl⟩, by simp [eref]⟩
        · exact ⟨eref s (b, a, w), ⟨(b, a, w), ⟨Or.inr (by simp only; omega), by rw [getEdgeWeight_symm hd]; exact hw'⟩, rfl⟩,
            by simp [eref]⟩
      · exact ⟨eref s (a, b, w), ⟨(a, b, w), ⟨Or.inl rfl, hw'⟩, rfl⟩, by simp [eref]⟩
  · rintro ⟨_, ⟨⟨x, y, w⟩, ⟨hdc, hw⟩, rfl⟩, hab⟩
    simp only [eref, Bool.or_eq_true, Bool.and_eq_true, beq_iff_eq, Bool.not_eq_true'] at hab hw
    rcases hab with ⟨rfl, rfl⟩ | ⟨⟨hd, rfl⟩, rfl⟩
    · rw [hw]; rfl
    · rw [getEdgeWeight_symm hd, hw]; rfl

/-! ### the row clauses of the table -/

section clauses
variable {s : State} {g : G} (h : Inv s) (r : R s g)
include h r

theorem nbrs_ok : nbrsOk s.nodes.ids (matrixTable s) := by
  simp only [nbrsOk, matrixTable, whenSome_some]
  exact rowsMatch_rowsOver fun a _ => neighborsOut_perm h r a

theorem nbrsOut_ok : nbrsOutOk s.nodes.ids (matrixTable s) := by
  unfold nbrsOutOk
  simp only [matrixTable, whenSome_some]
  by_cases hd : s.dir = true
  · rw [if_pos hd, whenSome_some]
    exact rowsMatch_rowsOver fun a _ => neighborsOut_perm h r a
  · rw [if_neg hd]; exact whenSome_none _

theorem nbrsIn_ok : nbrsInOk s.nodes.ids (matrixTable s) := by
  unfold nbrsInOk
  simp only [matrixTable, whenSome_some]
  by_cases hd : s.dir = true
  · rw [if_pos hd, whenSome_some]
    exact rowsMatch_rowsOver fun a _ => neighborsIn_perm h r hd a
  · rw [if_neg hd]; exact whenSome_none _

theorem edges_ok : edgesOk s.nodes.ids (matrixTable s) := by
  simp only [edgesOk, matrixTable, whenSome_some]
  exact rowsMatch_rowsOver fun a _ => edgesOut_perm h r a

theorem edgesOut_ok : edgesOutOk s.nodes.ids (matrixTable s) := by
  unfold edgesOutOk
  simp only [matrixTable, whenSome_some]
  by_cases hd : s.dir = true
  · rw [if_pos hd, whenSome_some]
    exact rowsMatch_rowsOver fun a _ => edgesOut_perm h r a
  · rw [if_neg hd]; exact whenSome_none _

/-- `edges_directed(_, Incoming)` with the repair of D6 (for the undirected kind the field is absent) -/
theorem edgesIn_ok_repaired : edgesInOk s.nodes.ids (repairD6 (matrixTable s)) := by
  unfold edgesInOk
  simp only [repairD6, matrixTable, whenSome_some]
  by_cases hd : s.dir = true
  · rw [if_pos hd, Option.map_some, mapRows_rowsOver, whenSome_some]
    exact rowsMatch_rowsOver fun a _ => edgesIn_perm h r hd a
  · rw [if_neg hd]; exact whenSome_none _

omit h r in
theorem edgesIn_ok_undirected (hd : s.dir = false) : edgesInOk s.nodes.ids (matrixTable s) := by
  unfold edgesInOk
  simp only [matrixTable, whenSome_some, hd]
  exact whenSome_none _

omit h r in
theorem adj_ok : adjOk s.nodes.ids (matrixTable s) := by
  simp only [adjOk, matrixTable, whenSome_some]
  refine ⟨rowsOver_keys _ _, fun a ha b hb' => ?_⟩
  rw [rowOf_rowsOver _ _ a ha, List.mem_filter, ← hasEdge_iff_expAdj]
  exact ⟨fun x => x.2, fun x => ⟨hb', x⟩⟩

end clauses

end MXProofs

open MXProofs

/-! ### the theorems -/

/-- **undirected `MatrixGraph`**: in every state that satisfies the invariant and refines a simple graph, the
`visit` traits describe one consistent graph. -/
theorem matrixTable_consistent_undirected {s : State} {g : G} (h : Inv s) (r : R s g)
    (hd : s.dir = false) :
    TableConsistent s.nodes.ids (matrixTable s) :=
  ⟨ids_ok h, refs_ok h, index_ok h, compact_ok s, erefs_ok h r, eix_ok s, nbrs_ok h r, nbrsOut_ok h r,
    nbrsIn_ok h r, edges_ok h r, edgesOut_ok h r, edgesIn_ok_undirected hd, adj_ok⟩

/-- **`MatrixGraph` of either kind, `edges_directed(_, Incoming)` repaired (D6)**; for the undirected kind
`repairD6` changes nothing (the field is absent). -/
theorem matrixTable_consistent_repaired {s : State} {g : G} (h : Inv s) (r : R s g)
    :
    TableConsistent s.nodes.ids (repairD6 (matrixTable s)) :=
  ⟨ids_ok h, refs_ok h, index_ok h, compact_ok s, erefs_ok h r, eix_ok s, nbrs_ok h r, nbrsOut_ok h r,
    nbrsIn_ok h r, edges_ok h r, edgesOut_ok h r, edgesIn_ok_repaired h r, adj_ok⟩

/-- **directed `MatrixGraph`** (the statement asked for; `hd` is not needed by the proof) -/
theorem matrixTable_consistent_directed {s : State} {g : G} (h : Inv s) (r : R s g)
    (_hd : s.dir = true) :
    TableConsistent s.nodes.ids (repairD6 (matrixTable s)) :=
  matrixTable_consistent_repaired h r

/-- the table AS IT STANDS, without the one field D6 is about: every other clause holds of the code as it is -/
theorem matrixTable_consistent_asIs {s : State} {g : G} (h : Inv s) (r : R s g)
    :
    TableConsistent s.nodes.ids { matrixTable s with edgesIn := none } :=
  ⟨ids_ok h, refs_ok h, index_ok h, compact_ok s, erefs_ok h r, eix_ok s, nbrs_ok h r, nbrsOut_ok h r,
    nbrsIn_ok h r, edges_ok h r, edgesOut_ok h r, fun _ _ => whenSome_none _, adj_ok⟩

theorem repairD6_matrixTable_undirected {s : State} (hd : s.dir = false) :
    repairD6 (matrixTable s) = matrixTable s := by
  simp [repairD6, matrixTable, hd]

/-! ### all histories -/

theorem specStep_directed (nz : Bool) (ixMax : Nat) (g : G) (op : Matrix.Op) (id : Nat) :
    (specStep nz ixMax g op id).1.directed = g.directed := by
  cases op <;> simp only [specStep] <;> (repeat' split) <;> rfl

theorem absRun_directed : ∀ (ops : List Matrix.Op) (s : State) (g : G), (absRun s g ops).directed = g.directed
  | [], _, _ => rfl
  | op :: ops, s, g => by
    rw [absRun, absRun_directed ops, specStep_directed]

/-- **all histories** (`C04_all_histories`): from every constructor, after every call sequence inside the
property's quantifier (edge-writing calls between existing nodes), the kind is still the constructor's and the
table of the state reached is consistent — as it stands for the undirected kind, with `edges_directed(_,
Incoming)` repaired (D6) for the directed kind (wave 5: no bound on the ids). -/
theorem matrixTable_all_histories (dir nz : Bool) (ixMax k : Nat) (ops : List Matrix.Op) :
    ∃ s0, withCapacity dir nz ixMax k = .ok s0 ∧
      (ValidHist s0 (MatrixSpec.G.empty dir) ops →
        (run s0 ops).1.dir = dir ∧
        TableConsistent (run s0 ops).1.nodes.ids
          (if dir then repairD6 (matrixTable (run s0 ops).1) else matrixTable (run s0 ops).1)) := by
  obtain ⟨s0, e, hi, hr, _⟩ := withCapacity_spec dir nz ixMax k
  refine ⟨s0, e, fun hv => ?_⟩
  obtain ⟨i1, i2, _⟩ := run_refines ops s0 _ hi hr hv
  have hd : (run s0 ops).1.dir = dir := by
    rw [← i2.dir, absRun_directed]; rfl
  refine ⟨hd, ?_⟩
  cases dir
  · exact matrixTable_consistent_undirected i1 i2 hd
  · exact matrixTable_consistent_directed i1 i2 hd

theorem matrixTable_all_histories_undirected (nz : Bool) (ixMax k : Nat) (ops : List Matrix.Op) :
    ∃ s0, withCapacity false nz ixMax k = .ok s0 ∧
      (ValidHist s0 (MatrixSpec.G.empty false) ops →
        TableConsistent (run s0 ops).1.nodes.ids (matrixTable (run s0 ops).1)) := by
  obtain ⟨s0, e, hh⟩ := matrixTable_all_histories false nz ixMax k ops
  exact ⟨s0, e, fun hv => (hh hv).2⟩

theorem matrixTable_all_histories_directed (nz : Bool) (ixMax k : Nat) (ops : List Matrix.Op) :
    ∃ s0, withCapacity true nz ixMax k = .ok s0 ∧
      (ValidHist s0 (MatrixSpec.G.empty true) ops →
        TableConsistent (run s0 ops).1.nodes.ids (repairD6 (matrixTable (run s0 ops).1))) := by
  obtain ⟨s0, e, hh⟩ := matrixTable_all_histories true nz ixMax k ops
  exact ⟨s0, e, fun hv => (hh hv).2⟩

/-! ### non-vacuity, and D6 is really there -/

/-- a directed history inside the quantifier: two nodes, one edge `0 → 1` -/
def d6Ops : List Matrix.Op := [.addNode 10, .addNode 11, .addEdge 0 1 5]
def d6Init : State := { dir := true, nz := false, ixMax := 255 }
def d6State : State := (run d6Init d6Ops).1

theorem d6_init : withCapacity true false 255 0 = .ok d6Init := by decide

theorem d6_valid : ValidHist d6Init (MatrixSpec.G.empty true) d6Ops := by
  refine ⟨trivial, trivial, ⟨?_, ?_⟩, trivial⟩ <;> decide

/-- the table as it stands violates exactly the clause about `edges_directed(_, Incoming)` (finding D6) … -/
theorem matrixTable_D6_witness :
    ¬ edgesInOk d6State.nodes.ids (matrixTable d6State) ∧ ¬ TableConsistent d6State.nodes.ids (matrixTable d6State) := by
  have h : ¬ edgesInOk d6State.nodes.ids (matrixTable d6State) := by decide
  exact ⟨h, fun c => h c.edgesIn⟩

/-- … and the repaired table of that state is consistent by the general theorem (its hypotheses are met) -/
theorem matrixTable_D6_repaired : TableConsistent d6State.nodes.ids (repairD6 (matrixTable d6State)) := by
  obtain ⟨s0, e, hh⟩ := matrixTable_all_histories_directed false 255 0 d6Ops
  rw [d6_init] at e
  cases e
  exact hh d6_valid

end PetgraphModel.Visit
