import PetgraphModel.Proofs.C12W2Oracle
/-
C12, wave 2 — the judge `judgeForest` has no false alarms.

1. necessity of the cycle property (`minimal_cycleProperty`, the exchange argument): in a minimum
   spanning forest `M` of `E`, a forest edge `f` on the forest path between the endpoints of an unused
   non-loop edge `e` weighs at most `e.w` — otherwise `M − f + e` is a lighter spanning forest;
2. `matchEdges` is complete: it matches the stream's edge elements greedily, by (unordered endpoints,
   weight); if the stream denotes SOME sub-multiset `M` of the edges, the greedy matching succeeds and
   its result `M'` is element-wise similar to `M` (`Sim`: same unordered endpoints, same weight);
3. `Conn`, `Acyclic`, `weight` are invariant under `Sim`, hence `M'` is a minimum spanning forest too;
4. all the checks of the judge then pass (`Proofs/C12W2Oracle.lean`).
-/
namespace PetgraphModel.MST
open PetgraphModel MGraph Oracle

/-! ### 1. a minimum spanning forest satisfies the cycle property -/

theorem weight_cons (e : Edge) (F : List Edge) : weight (e :: F) = e.w + weight F := by
  simp [weight]

theorem minimal_cycleProperty {E M R : List Edge} (hperm : (M ++ R).Perm E)
    (hmin : MinSpanningForest E M) : CycleProperty M R := by
  intro e he hne l1 f l2 hM hnc
  refine Classical.byContradiction fun hlt => ?_
  have hlt' : e.w < f.w := by omega
  obtain ⟨hsf, hmin⟩ := hmin
  -- M is f plus G
  have hMp : M.Perm (f :: (l1 ++ l2)) := by rw [hM]; exact List.perm_middle
  have hacG : Acyclic (l1 ++ l2) := (hsf.acyclic.perm hMp).tail
  obtain ⟨r1, r2, hR⟩ := List.append_of_mem he
  have hRp : R.Perm (e :: (r1 ++ r2)) := by rw [hR]; exact List.perm_middle
  have heE : e ∈ E := hperm.mem_iff.mp (List.mem_append_right _ he)
  -- the exchanged forest
  have hsub : SubMulti (e :: (l1 ++ l2)) E := by
    refine ⟨f :: (r1 ++ r2), ?_⟩
    refine List.Perm.trans ?_ hperm
    refine List.Perm.trans ?_ (hMp.append hRp).symm
    simp only [List.cons_append]
    refine ((List.perm_middle (a := f) (l₁ := l1 ++ l2) (l₂ := r1 ++ r2)).cons e).trans ?_
    refine List.Perm.trans (List.Perm.swap f e _) ?_
    exact (List.perm_middle (a := e) (l₁ := l1 ++ l2) (l₂ := r1 ++ r2)).symm.cons f
  have hac : Acyclic (e :: (l1 ++ l2)) := acyclic_cons hacG hnc
  have hcM : Conn (f :: (l1 ++ l2)) e.src e.tgt := (conn_perm hMp).mp (hsf.spanning _ _ (Conn.edge heE))
  have hmono : ∀ {a b}, Conn (l1 ++ l2) a b → Conn (e :: (l1 ++ l2)) a b :=
    fun h => h.mono fun _ hx => List.mem_cons_of_mem _ hx
  have hee : Conn (e :: (l1 ++ l2)) e.src e.tgt := Conn.edge (List.mem_cons_self ..)
  have hf : Conn (e :: (l1 ++ l2)) f.src f.tgt := by
    rcases conn_cons hcM with h0 | ⟨h1, h2⟩ | ⟨h1, h2⟩
    · exact absurd h0 hnc
    · exact (hmono h1).symm.trans (hee.trans (hmono h2).symm)
    · exact (hmono h2).trans (hee.symm.trans (hmono h1))
  have hsp : Spanning E (e :: (l1 ++ l2)) := by
    intro a b hc
    have hc' : Conn (f :: (l1 ++ l2)) a b := (conn_perm hMp).mp (hsf.spanning _ _ hc)
    refine hc'.of_edges ?_
    intro x hx
    rcases List.mem_cons.mp hx with rfl | hx
    · exact hf
    · exact hmono (Conn.edge hx)
  have hle := hmin _ ⟨hsub, hac, hsp⟩
  rw [weight_perm hMp, weight_cons, weight_cons] at hle
  omega

/-! ### 2. similarity of edge lists: same unordered endpoints, same weight, position by position -/

def SimE (e e' : Edge) : Prop :=
  ((e.src = e'.src ∧ e.tgt = e'.tgt) ∨ (e.src = e'.tgt ∧ e.tgt = e'.src)) ∧ e.w = e'.w

inductive Sim : List Edge → List Edge → Prop
  | nil : Sim [] []
  | cons {e e' : Edge} {M M' : List Edge} : SimE e e' → Sim M M' → Sim (e :: M) (e' :: M')

theorem SimE.symm {e e' : Edge} (h : SimE e e') : SimE e' e := by
  obtain ⟨h1 | h1, h2⟩ := h
  · exact ⟨Or.inl ⟨h1.1.symm, h1.2.symm⟩, h2.symm⟩
  · exact ⟨Or.inr ⟨h1.2.symm, h1.1.symm⟩, h2.symm⟩

theorem Sim.symm : ∀ {M M' : List Edge}, Sim M M' → Sim M' M
  | _, _, .nil => .nil
  | _, _, .cons h t => .cons h.symm t.symm

theorem sim_of_denotes : ∀ {S : List (Nat × Nat × Int)} {M M' : List Edge},
    DenotesAll S M → DenotesAll S M' → Sim M M'
  | _, _, _, .nil, .nil => .nil
  | _, _, _, .cons h t, .cons h' t' => by
    refine .cons ?_ (sim_of_denotes t t')
    obtain ⟨h1, h2⟩ := h
    obtain ⟨h1', h2'⟩ := h'
    refine ⟨?_, by rw [h2, h2']⟩
    rcases h1 with ⟨a, b⟩ | ⟨a, b⟩ <;> rcases h1' with ⟨a', b'⟩ | ⟨a', b'⟩
    · exact Or.inl ⟨by rw [a, a'], by rw [b, b']⟩
    · exact Or.inr ⟨by rw [a, b'], by rw [b, a']⟩
    · exact Or.inr ⟨by rw [a, b'], by rw [b, a']⟩
    · exact Or.inl ⟨by rw [a, a'], by rw [b, b']⟩

theorem Sim.mem : ∀ {M M' : List Edge}, Sim M M' → ∀ {e : Edge}, e ∈ M → ∃ e' ∈ M', SimE e e'
  | _, _, .cons h t, e, he => by
    rcases List.mem_cons.mp he with rfl | he
    · exact ⟨_, List.mem_cons_self .., h⟩
    · obtain ⟨e', he', hs⟩ := t.mem he
      exact ⟨e', List.mem_cons_of_mem _ he', hs⟩

theorem SimE.conn {e e' : Edge} (h : SimE e e') {F : List Edge} (hc : Conn F e'.src e'.tgt) :
    Conn F e.src e.tgt := by
  obtain ⟨⟨h1, h2⟩ | ⟨h1, h2⟩, _⟩ := h
  · rw [h1, h2]; exact hc
  · rw [h1, h2]; exact hc.symm

theorem Sim.conn {M M' : List Edge} (h : Sim M M') {a b : Nat} (hc : Conn M a b) : Conn M' a b := by
  refine hc.of_edges ?_
  intro e he
  obtain ⟨e', he', hs⟩ := h.mem he
  exact hs.conn (Conn.edge he')

theorem Sim.weight_eq : ∀ {M M' : List Edge}, Sim M M' → weight M = weight M'
  | _, _, .nil => rfl
  | _, _, .cons h t => by rw [weight_cons, weight_cons, h.2, t.weight_eq]

theorem Sim.append : ∀ {l1 l1' l2 l2' : List Edge}, Sim l1 l1' → Sim l2 l2' → Sim (l1 ++ l2) (l1' ++ l2')
  | _, _, _, _, .nil, h => h
  | _, _, _, _, .cons h t, h' => .cons h (t.append h')

theorem Sim.split : ∀ {M M' : List Edge}, Sim M M' → ∀ {l1' l2' : List Edge} {e' : Edge},
    M' = l1' ++ e' :: l2' → ∃ l1 e l2, M = l1 ++ e :: l2 ∧ Sim l1 l1' ∧ SimE e e' ∧ Sim l2 l2'
  | _, _, .nil, l1', l2', e', h => by simp at h
  | _, _, .cons (e := x) (M := M0) hx t, l1', l2', e', h => by
    rcases List.cons_eq_append_iff.mp h with ⟨rfl, h2⟩ | ⟨m1, rfl, h2⟩
    · simp only [List.cons.injEq] at h2
      obtain ⟨rfl, rfl⟩ := h2
      exact ⟨[], x, M0, rfl, .nil, hx, t⟩
    · obtain ⟨l1, e, l2, hM, s1, se, s2⟩ := t.split h2
      exact ⟨x :: l1, e, l2, by rw [hM]; rfl, .cons hx s1, se, s2⟩

theorem Sim.acyclic {M M' : List Edge} (h : Sim M M') (hac : Acyclic M) : Acyclic M' := by
  intro l1' e' l2' hM' hc
  obtain ⟨l1, e, l2, hM, s1, se, s2⟩ := h.split hM'
  refine hac l1 e l2 hM ?_
  exact se.conn ((s1.append s2).symm.conn hc)

/-! ### 3. the greedy matching is complete -/

/-- the class of a stream edge: unordered endpoints and weight -/
def keyP (a b : Nat) (w : Int) (e : Edge) : Bool := sameEnds e a b && e.w == w

theorem keyP_of_denotes {s : Nat × Nat × Int} {e : Edge} (h : Denotes s e) : keyP s.1 s.2.1 s.2.2 e = true := by
  obtain ⟨h1, h2⟩ := h
  simp only [keyP, sameEnds, Bool.and_eq_true, Bool.or_eq_true, beq_iff_eq]
  exact ⟨h1, h2⟩

/-- two edges denoted by the same stream edge lie in the same classes -/
theorem keyP_congr {s : Nat × Nat × Int} {e m : Edge} (he : Denotes s e) (hm : Denotes s m)
    (a b : Nat) (w : Int) : keyP a b w e = keyP a b w m := by
  obtain ⟨h1, h2⟩ := he
  obtain ⟨h1', h2'⟩ := hm
  rw [Bool.eq_iff_iff]
  simp only [keyP, sameEnds, Bool.and_eq_true, Bool.or_eq_true, beq_iff_eq]
  omega

theorem takeEdge_complete {a b : Nat} {w : Int} : ∀ {pool : List Edge},
    (∃ e ∈ pool, keyP a b w e = true) → ∃ e r, takeEdge a b w pool = some (e, r)
  | [], h => by obtain ⟨_, he, _⟩ := h; cases he
  | x :: rest, h => by
    simp only [takeEdge]
    by_cases hx : (sameEnds x a b && x.w == w) = true
    · rw [if_pos hx]; exact ⟨_, _, rfl⟩
    · rw [if_neg hx]
      obtain ⟨e, he, hk⟩ := h
      rcases List.mem_cons.mp he with rfl | he
      · exact absurd hk hx
      · obtain ⟨e', r, hr⟩ := takeEdge_complete (pool := rest) ⟨e, he, hk⟩
        rw [hr]; exact ⟨_, _, rfl⟩

theorem matchEdges_complete : ∀ {S : List (Nat × Nat × Int)} {M pool : List Edge},
    DenotesAll S M → (∀ a b w, M.countP (keyP a b w) ≤ pool.countP (keyP a b w)) →
    ∃ M' R', matchEdges S pool = some (M', R')
  | _, _, pool, .nil, _ => ⟨[], pool, rfl⟩
  | _, _, pool, .cons (s := s) (e := m) (S := S) (M := M0) hd t, hcnt => by
    have hkm := keyP_of_denotes hd
    have hpos : 0 < pool.countP (keyP s.1 s.2.1 s.2.2) := by
      have := hcnt s.1 s.2.1 s.2.2
      rw [List.countP_cons_of_pos hkm] at this
      omega
    obtain ⟨x, hx, hkx⟩ := List.countP_pos_iff.mp hpos
    obtain ⟨e, pool', htake⟩ := takeEdge_complete ⟨x, hx, hkx⟩
    obtain ⟨hp, hde⟩ := takeEdge_spec htake
    have hcnt' : ∀ a b w, M0.countP (keyP a b w) ≤ pool'.countP (keyP a b w) := by
      intro a b w
      have h1 := hcnt a b w
      rw [← hp.countP_eq, List.countP_cons, List.countP_cons, keyP_congr hde hd a b w] at h1
      omega
    obtain ⟨M', R', hrec⟩ := matchEdges_complete t hcnt'
    exact ⟨e :: M', R', by simp only [matchEdges, htake, hrec]⟩

theorem matchEdges_of_subMulti {S : List (Nat × Nat × Int)} {M R E : List Edge}
    (hperm : (M ++ R).Perm E) (hd : DenotesAll S M) : ∃ M' R', matchEdges S E = some (M', R') := by
  refine matchEdges_complete hd ?_
  intro a b w
  rw [← hperm.countP_eq, List.countP_append]
  omega

/-! ### 4. the judge accepts every minimum spanning forest -/

theorem judgeForest_complete_of_match {V : List Nat} {E : List Edge} {bound : Nat}
    {S : List (Nat × Nat × Int)} {M R : List Edge} (hV : V.Nodup)
    (hends : ∀ e ∈ E, e.src ∈ V ∧ e.tgt ∈ V) (hmatch : matchEdges S E = some (M, R))
    (hmin : MinSpanningForest E M) : judgeForest V E bound S = none := by
  obtain ⟨hperm, _⟩ := matchEdges_spec hmatch
  obtain ⟨reps, hreps⟩ := compReps_total E V []
  have hcount := spanningForest_count hV hends hmin.1 (compReps_repSystem hreps)
  have hcert := cycleCert_complete (minimal_cycleProperty hperm hmin)
  unfold judgeForest
  simp only [hmatch, forestMust_of_acyclic hmin.1.acyclic, spanMust_complete hmin.1.spanning, hreps,
    hcount, hcert, Bool.not_true, Bool.false_eq_true, if_false, bne_self_eq_false]
  split
  · obtain ⟨m, hm⟩ := bruteMin_isSome hmin.1
    obtain ⟨F, hF, hw⟩ := bruteMin_attained hm
    simp only [hm]
    rw [if_pos (by rw [← hw]; exact hmin.2 F hF)]
  · rfl

/-- **Completeness of the judge** (no false alarms): whenever the stream `S` denotes, edge by edge,
a minimum spanning forest `M` of `(V, E)`, `judgeForest` accepts — whatever the brute-force bound. -/
theorem judgeForest_complete {V : List Nat} {E : List Edge} {bound : Nat}
    {S : List (Nat × Nat × Int)} {M R : List Edge} (hV : V.Nodup)
    (hends : ∀ e ∈ E, e.src ∈ V ∧ e.tgt ∈ V) (hperm : (M ++ R).Perm E) (hd : DenotesAll S M)
    (hmin : MinSpanningForest E M) : judgeForest V E bound S = none := by
  obtain ⟨M', R', hmatch⟩ := matchEdges_of_subMulti hperm hd
  obtain ⟨hperm', hd'⟩ := matchEdges_spec hmatch
  have hsim : Sim M M' := sim_of_denotes hd hd'
  refine judgeForest_complete_of_match hV hends hmatch ⟨⟨⟨R', hperm'⟩, hsim.acyclic hmin.1.acyclic, ?_⟩, ?_⟩
  · intro a b hc
    exact hsim.conn (hmin.1.spanning a b hc)
  · intro F' hF'
    rw [← hsim.weight_eq]
    exact hmin.2 F' hF'

end PetgraphModel.MST
