import PetgraphModel.Proofs.C16W2ApInv
/-
C16, second wave — articulation points, Part I (h): `children_count` bookkeeping and the
potential function that bounds the number of steps of one `dfsLoop`.
-/
namespace PetgraphModel.C16P.W2Ap
open PetgraphModel MGraph C16M

/-! ### `bump` -/

theorem lookup_map_bump (k j : Nat) : ∀ cc : List (Nat × Nat),
    (cc.map fun (a, c) => if a == k then (a, c + 1) else (a, c)).lookup j =
      if j = k then (cc.lookup j).map (· + 1) else cc.lookup j := by
  intro cc
  induction cc with
  | nil => simp
  | cons x cc ih =>
    obtain ⟨a, c⟩ := x
    simp only [List.map_cons]
    by_cases hak : a = k
    · subst hak
      simp only [beq_self_eq_true, if_true, List.lookup_cons]
      by_cases hja : j = a
      · subst hja; simp
      · have : (j == a) = false := by simpa using hja
        simp only [this, ih, if_neg hja]
    · have hak' : (a == k) = false := by simpa using hak
      simp only [hak', Bool.false_eq_true, if_false, List.lookup_cons]
      by_cases hja : j = a
      · subst hja
        simp [hak]
      · have : (j == a) = false := by simpa using hja
        simp only [this, ih]

theorem lookup_bump (cc : List (Nat × Nat)) (k j : Nat) :
    ((bump cc k).lookup j).getD 0 = if j = k then (cc.lookup k).getD 0 + 1 else (cc.lookup j).getD 0 := by
  unfold bump
  cases h : cc.lookup k with
  | none =>
    simp only [List.lookup_append]
    by_cases hjk : j = k
    · subst hjk; simp [h, List.lookup]
    · have : (j == k) = false := by simpa using hjk
      simp [List.lookup, this, hjk]
  | some c =>
    simp only [lookup_map_bump]
    by_cases hjk : j = k
    · subst hjk; simp [h]
    · simp [hjk]

/-! ### `CcOk` -/

theorem ccOk_congr {st st' : AP} (hp : ∀ j, pO st' j = pO st j) {r n : Nat} (K : CcOk st r n) :
    CcOk st' r n := by
  refine ⟨?_, ?_, ?_⟩
  · intro h c; rw [hp]; exact K.zero h c
  · intro h; obtain ⟨c0, h1, h2⟩ := K.one h
    exact ⟨c0, by rw [hp]; exact h1, fun c hc => h2 c (by rw [← hp]; exact hc)⟩
  · intro h; obtain ⟨c1, c2, hne, h1, h2⟩ := K.many h
    exact ⟨c1, c2, hne, by rw [hp]; exact h1, by rw [hp]; exact h2⟩

/-- a new tree edge `u → t` -/
theorem ccOk_new {st : AP} {r u t : Nat} {cc : List (Nat × Nat)} (hpl : t < st.parent.length)
    (hpt : pO st t = none) (K : CcOk st r ((cc.lookup r).getD 0)) :
    CcOk (stPar st t u) r (((bump cc u).lookup r).getD 0) := by
  have hpO : ∀ j, pO (stPar st t u) j = if j = t then some u else pO st j := fun j => pO_stPar st t u j hpl
  have hold : ∀ c x, pO st c = some x → pO (stPar st t u) c = some x := by
    intro c x h
    rw [hpO, if_neg]; exact h
    intro h'; subst h'; rw [hpt] at h; cases h
  rw [lookup_bump]
  by_cases hru : r = u
  · subst hru
    rw [if_pos rfl]
    have hnew : pO (stPar st t r) t = some r := by rw [hpO, if_pos rfl]
    have hback : ∀ c, c ≠ t → pO (stPar st t r) c = some r → pO st c = some r := by
      intro c hc h; rw [hpO, if_neg hc] at h; exact h
    refine ⟨fun h => by omega, ?_, ?_⟩
    · intro h
      refine ⟨t, hnew, ?_⟩
      intro c hc
      apply Classical.byContradiction
      intro hct
      exact K.zero (by omega) c (hback c hct hc)
    · intro h
      by_cases h1 : (cc.lookup r).getD 0 = 1
      · obtain ⟨c0, hc0, _⟩ := K.one h1
        refine ⟨c0, t, ?_, hold _ _ hc0, hnew⟩
        intro h'; subst h'; rw [hpt] at hc0; cases hc0
      · obtain ⟨c1, c2, hne, h1', h2'⟩ := K.many (by omega)
        exact ⟨c1, c2, hne, hold _ _ h1', hold _ _ h2'⟩
  · rw [if_neg hru]
    have hback : ∀ c, pO (stPar st t u) c = some r → pO st c = some r := by
      intro c h
      rw [hpO] at h
      split at h
      · cases h; exact (hru rfl).elim
      · exact h
    refine ⟨?_, ?_, ?_⟩
    · intro h c hc; exact K.zero h c (hback c hc)
    · intro h; obtain ⟨c0, h1, h2⟩ := K.one h
      exact ⟨c0, hold _ _ h1, fun c hc => h2 c (hback c hc)⟩
    · intro h; obtain ⟨c1, c2, hne, h1, h2⟩ := K.many h
      exact ⟨c1, c2, hne, hold _ _ h1, hold _ _ h2⟩

/-! ### the potential -/

def wt : RStep → Nat
  | .base _ => 0
  | .child _ _ => 2
  | .noBack _ _ => 1
  | .rootCheck _ => 1

/-- weight of the nodes that are still unvisited -/
def unv (v : View) (st : AP) : Nat :=
  ((v.g.nodes.filter fun a => decide (v.toIndex a ∉ st.visited)).map fun a => 2 * (v.succ a).length + 2).sum

def pot (v : View) (stack : List RStep) (st : AP) : Nat := (stack.map wt).sum + unv v st

theorem wt_children (u : Nat) (R : List Nat) : ((R.map (RStep.child u)).map wt).sum = 2 * R.length := by
  induction R with
  | nil => rfl
  | cons t R ih => simp only [List.map_cons, List.sum_cons, ih, wt, List.length_cons]; omega

theorem sum_filter_remove (f : Nat → Nat) (p : Nat → Bool) (a : Nat) : ∀ (l : List Nat), l.Nodup → a ∈ l →
    p a = true →
    ((l.filter fun b => p b && decide (b ≠ a)).map f).sum + f a = ((l.filter p).map f).sum := by
  intro l
  induction l with
  | nil => intro _ h; cases h
  | cons x l ih =>
    intro hn ha hp
    simp only [List.nodup_cons] at hn
    by_cases hxa : x = a
    · subst hxa
      have h1 : (l.filter fun b => p b && decide (¬ b = x)) = l.filter p := by
        apply List.filter_congr
        intro b hb
        have : b ≠ x := fun h => hn.1 (h ▸ hb)
        simp [this]
      simp only [List.filter_cons, hp, if_true, ne_eq, not_true_eq_false, decide_false, Bool.and_false,
        Bool.false_eq_true, if_false, List.map_cons, List.sum_cons]
      rw [h1]; omega
    · have ha' : a ∈ l := by
        cases List.mem_cons.mp ha with
        | inl h => exact (hxa h.symm).elim
        | inr h => exact h
      have := ih hn.2 ha' hp
      simp only [List.filter_cons]
      by_cases hpx : p x = true
      · simp only [hpx, ne_eq, hxa, not_false_eq_true, decide_true, Bool.and_self, if_true,
          List.map_cons, List.sum_cons]
        simp only [ne_eq] at this
        omega
      · have hpx' : p x = false := by simpa using hpx
        simp only [hpx', Bool.false_and, Bool.false_eq_true, if_false]
        exact this

/-- visiting the node `a` (index `c`) pays for its `base` step -/
theorem unv_base (v : View) (hwf : v.g.WellFormed) (hi : IndexOk v) (st : AP) (a : Nat)
    (ha : a ∈ v.g.nodes) (hc : v.toIndex a ∉ st.visited) :
    unv v (stBase st (v.toIndex a)) + (2 * (v.succ a).length + 2) = unv v st := by
  unfold unv
  have h1 : (v.g.nodes.filter fun b => decide (v.toIndex b ∉ (stBase st (v.toIndex a)).visited)) =
      v.g.nodes.filter fun b => decide (v.toIndex b ∉ st.visited) && decide (b ≠ a) := by
    apply List.filter_congr
    intro b hb
    have : v.toIndex b = v.toIndex a ↔ b = a := ⟨hi.inj b a hb ha, fun h => h ▸ rfl⟩
    simp only [vis_stBase, List.mem_cons, not_or, this]
    by_cases hba : b = a <;> simp [hba]
  rw [h1]
  exact sum_filter_remove (fun a => 2 * (v.succ a).length + 2) (fun b => decide (v.toIndex b ∉ st.visited))
    a v.g.nodes hwf.1 ha (by simpa using hc)

/-! ### the fuel covers the potential -/

theorem sum_map_le (f g : Nat → Nat) : ∀ l : List Nat, (∀ a ∈ l, f a ≤ g a) → (l.map f).sum ≤ (l.map g).sum := by
  intro l
  induction l with
  | nil => intro _; exact Nat.le_refl _
  | cons x l ih =>
    intro h
    simp only [List.map_cons, List.sum_cons]
    have := h x (List.mem_cons_self ..)
    have := ih (fun a ha => h a (List.mem_cons_of_mem _ ha))
    omega

theorem sum_map_add (f g : Nat → Nat) : ∀ l : List Nat,
    (l.map fun a => f a + g a).sum = (l.map f).sum + (l.map g).sum := by
  intro l
  induction l with
  | nil => rfl
  | cons x l ih => simp only [List.map_cons, List.sum_cons, ih]; omega

theorem sum_filter_le (f : Nat → Nat) (p : Nat → Bool) : ∀ l : List Nat,
    ((l.filter p).map f).sum ≤ (l.map f).sum := by
  intro l
  induction l with
  | nil => exact Nat.le_refl _
  | cons x l ih =>
    simp only [List.filter_cons]
    split <;> simp only [List.map_cons, List.sum_cons] <;> omega

theorem sum_map_zero : ∀ l : List Nat, (l.map fun _ => 0).sum = 0 := by
  intro l
  induction l with
  | nil => rfl
  | cons _ l ih => simp only [List.map_cons, List.sum_cons, ih]

theorem sum_indicator_le (x : Nat) : ∀ l : List Nat, l.Nodup → (l.map fun a => if x = a then 1 else 0).sum ≤ 1 := by
  intro l
  induction l with
  | nil => intro _; simp
  | cons y l ih =>
    intro hn
    simp only [List.nodup_cons] at hn
    simp only [List.map_cons, List.sum_cons]
    by_cases hxy : x = y
    · subst hxy
      have : (l.map fun a => if x = a then 1 else 0).sum = 0 := by
        have h0 : (l.map fun a => if x = a then 1 else 0) = l.map fun _ => 0 := by
          apply List.map_congr_left
          intro a ha
          have : x ≠ a := fun h => hn.1 (h ▸ ha)
          simp [this]
        rw [h0]
        clear h0 ih hn
        induction l with
        | nil => rfl
        | cons _ l ih => simp only [List.map_cons, List.sum_cons, ih]
      simp [this]
    · have := ih hn.2
      simp only [hxy, if_false]
      omega

/-- successor list over an arbitrary edge list -/
def succL (d : Bool) (E : List Edge) (a : Nat) : List Nat :=
  E.filterMap fun e =>
    if e.src = a then some e.tgt
    else if d = false ∧ e.tgt = a then some e.src
    else none

theorem succ_eq_succL (g : MGraph) (a : Nat) : g.succ a = succL g.directed g.edges a := rfl

theorem sum_succL_le (d : Bool) (l : List Nat) (hn : l.Nodup) : ∀ E : List Edge,
    (l.map fun a => (succL d E a).length).sum ≤ 2 * E.length := by
  intro E
  induction E with
  | nil => simp only [succL, List.filterMap_nil, List.length_nil]; rw [sum_map_zero]; omega
  | cons e E ih =>
    have hstep : ∀ a, (succL d (e :: E) a).length ≤
        ((if e.src = a then 1 else 0) + (if e.tgt = a then 1 else 0)) + (succL d E a).length := by
      intro a
      simp only [succL, List.filterMap_cons]
      by_cases h1 : e.src = a
      · simp [h1]; omega
      · by_cases h2 : d = false ∧ e.tgt = a
        · simp [h1, h2]; omega
        · simp only [h1, if_false, h2]
          split <;> omega
    have := sum_map_le _ _ l (fun a _ => hstep a)
    rw [sum_map_add, sum_map_add] at this
    have h1 := sum_indicator_le e.src l hn
    have h2 := sum_indicator_le e.tgt l hn
    simp only [List.length_cons]
    omega

theorem unv_le (v : View) (hwf : v.g.WellFormed) (hb : SuccBounded v) (st : AP) :
    unv v st ≤ 4 * v.g.edges.length + 2 * v.g.nodes.length := by
  unfold unv
  refine Nat.le_trans (sum_filter_le _ _ _) ?_
  have h1 := sum_map_le (fun a => 2 * (v.succ a).length + 2) (fun a => 2 * (v.g.succ a).length + 2)
    v.g.nodes (fun a _ => by have := hb a; omega)
  have h2 : (v.g.nodes.map fun a => (v.g.succ a).length).sum ≤ 2 * v.g.edges.length :=
    sum_succL_le v.g.directed v.g.nodes hwf.1 v.g.edges
  have h3 : (v.g.nodes.map fun a => 2 * (v.g.succ a).length + 2).sum =
      2 * (v.g.nodes.map fun a => (v.g.succ a).length).sum + 2 * v.g.nodes.length := by
    generalize v.g.nodes = l
    induction l with
    | nil => rfl
    | cons x l ih =>
      simp only [List.map_cons, List.sum_cons, List.length_cons, ih]
      omega
  omega

end PetgraphModel.C16P.W2Ap
