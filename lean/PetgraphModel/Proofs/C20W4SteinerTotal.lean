import PetgraphModel.Proofs.C20W4SteinerTop
import PetgraphModel.Proofs.C10Dijkstra
/-
C20, wave 4 — the mirror model of `steiner_tree`, part 4: TOTALITY.  When the terminals are pairwise
connected in a well-formed graph with positive costs that fit the cost type, the model answers `ok`
for every hash order: no index panic in the metric closure (`dijkstra(..)[&target]` finds every
target), no `Err` of Floyd–Warshall, the `while current != source` walks terminate (the distance
`dist[source][·]` strictly drops along `prev[source][·]`, so a walk visits every node at most once and
the model's fuel `|V| + 1` suffices), and the rounds of `non_terminal_leaves` end (every round but the
last removes a node).
-/
namespace PetgraphModel.C20.Steiner
open PetgraphModel PetgraphModel.MGraph PetgraphModel.C20 PetgraphModel.C11M PetgraphModel.MstModel
open PetgraphModel.C11W3 PetgraphModel.DistProofs PetgraphModel.C11P PetgraphModel.C11MP

/-! ### counting -/

theorem filter_length_le {l : List Nat} {P Q : Nat → Bool} (hPQ : ∀ x ∈ l, P x = true → Q x = true) :
    (l.filter P).length ≤ (l.filter Q).length := by
  induction l with
  | nil => simp
  | cons x xs ih =>
    have ih' := ih (fun y hy => hPQ y (List.mem_cons_of_mem _ hy))
    have hx := hPQ x (List.mem_cons_self ..)
    simp only [List.filter_cons]
    cases hp : P x <;> cases hq : Q x <;> simp_all <;> omega

theorem filter_length_lt {l : List Nat} {P Q : Nat → Bool} (hPQ : ∀ x ∈ l, P x = true → Q x = true)
    {q : Nat} (hq : q ∈ l) (hQq : Q q = true) (hPq : P q = false) :
    (l.filter P).length < (l.filter Q).length := by
  induction l with
  | nil => cases hq
  | cons x xs ih =>
    have hx := hPQ x (List.mem_cons_self ..)
    have hrest : ∀ y ∈ xs, P y = true → Q y = true := fun y hy => hPQ y (List.mem_cons_of_mem _ hy)
    simp only [List.filter_cons]
    rcases List.mem_cons.mp hq with h | h
    · subst h
      have := filter_length_le hrest
      simp [hQq, hPq]; omega
    · have := ih hrest h
      cases hp : P x <;> cases hqq : Q x <;> simp_all <;> omega

/-! ### the walks terminate -/

/-- the facts about one row of `floyd_warshall_path`'s result that make the walk terminate -/
structure RowOk (g : MGraph) (dv : Nat → Option Int) (prev : Nat → Option Nat) (s : Nat) : Prop where
  some_prev : ∀ j, j ≠ s → (dv j).isSome → (prev j).isSome
  drop : ∀ j q, j ≠ s → prev j = some q → q ∈ g.nodes ∧ ∃ a w, dv q = some a ∧ dv j = some (a + w) ∧ 0 < w

/-- number of nodes strictly closer to the source than `cur` -/
def closer (g : MGraph) (dv : Nat → Option Int) (cur : Nat) : Nat :=
  (g.nodes.filter fun x => match dv x, dv cur with
    | some a, some b => decide (a < b)
    | _, _ => false).length

theorem walk_total {g : MGraph} {prevAll : Nat → Nat → Option Nat} {s : Nat} {dv : Nat → Option Int}
    (hrow : RowOk g dv (prevAll s) s) :
    ∀ (f cur : Nat) (acc : List (Nat × Nat)), (dv cur).isSome → closer g dv cur < f →
      (walk prevAll s f cur acc).isSome := by
  intro f
  induction f with
  | zero => intro cur acc _ h; omega
  | succ f ih =>
    intro cur acc hd hlt
    simp only [walk]
    split
    · rfl
    · rename_i hne
      obtain ⟨q, hq⟩ := Option.isSome_iff_exists.mp (hrow.some_prev cur hne hd)
      rw [hq]
      obtain ⟨hqn, a, w, h1, h2, h3⟩ := hrow.drop cur q hne hq
      apply ih q _ (by rw [h1]; rfl)
      have : closer g dv q < closer g dv cur := by
        unfold closer
        rw [h1, h2]
        apply filter_length_lt (q := q)
        · intro x _ hx
          cases hdx : dv x with
          | none => simp [hdx] at hx
          | some c =>
            simp only [hdx, decide_eq_true_eq] at hx ⊢
            omega
        · exact hqn
        · simp only [h1, decide_eq_true_eq]; omega
        · simp [h1]
      omega

theorem closer_le (g : MGraph) (dv : Nat → Option Int) (cur : Nat) : closer g dv cur ≤ g.nodes.length :=
  List.length_filter_le _ _

theorem expand_total {g : MGraph} {prevAll : Nat → Nat → Option Nat} {dist : Nat → Nat → Option Int}
    (hrow : ∀ s ∈ g.nodes, RowOk g (dist s) (prevAll s) s) :
    ∀ (items : List Item) (acc : List (Nat × Nat)),
      (∀ it ∈ items, it.a ∈ g.nodes ∧ (dist it.a it.b).isSome) →
      (expand prevAll g.nodes.length items acc).isSome := by
  intro items
  induction items with
  | nil => intro acc _; rfl
  | cons it rest ih =>
    intro acc h
    obtain ⟨ha, hd⟩ := h it (List.mem_cons_self ..)
    have hw := walk_total (hrow it.a ha) (g.nodes.length + 1) it.b acc hd
      (Nat.lt_succ_of_le (closer_le g _ _))
    obtain ⟨acc', hacc⟩ := Option.isSome_iff_exists.mp hw
    simp only [expand, hacc]
    exact ih acc' (fun it' h' => h it' (List.mem_cons_of_mem _ h'))

/-! ### the rounds end -/

theorem prune_total (nodes : List Nat) (es : List Edge) (terms : List Nat) :
    ∀ (f : Nat) (removed : List Nat), (nodes.filter fun x => !removed.contains x).length < f →
      (prune nodes es terms f removed).isSome := by
  intro f
  induction f with
  | zero => intro removed h; omega
  | succ f ih =>
    intro removed h
    simp only [prune]
    split
    · rfl
    · rename_i hne
      apply ih
      have hne' : leafRound nodes es terms removed ≠ [] := by simpa using hne
      obtain ⟨x, hx⟩ := List.exists_mem_of_ne_nil _ hne'
      obtain ⟨hxn, _, hxr, _⟩ := mem_leafRound.mp hx
      have : (nodes.filter fun y => !(removed ++ leafRound nodes es terms removed).contains y).length <
          (nodes.filter fun y => !removed.contains y).length := by
        apply filter_length_lt (q := x)
        · intro y _ hy
          simp only [Bool.not_eq_true', List.contains_eq_mem, decide_eq_false_iff_not, List.mem_append, not_or] at hy ⊢
          exact hy.1
        · exact hxn
        · simpa using hxr
        · simp [hx]
      omega

/-! ### the metric closure is defined -/

theorem dist_isSome {v : View} (hv : C10P.ViewArcs v) (hw : C10P.NonNeg v.g) {s t : Nat} (h : Reach v.g s t) :
    (dist v s t).isSome := by
  unfold dist
  obtain ⟨m, hm⟩ := C10P.dijkstra_terminates C10P.popMin_isMinPop v s (some t)
  rw [hm]
  simp only [Option.bind_some]
  have D := C10P.dijkstra_correct C10P.popMin_isMinPop hv hw s (some t) m hm
  have := (D.goalExact t rfl).2
  cases hg : SP.amGet m t with
  | none => exact absurd h (this.mp hg)
  | some y => rfl

theorem closureAux_isSome {v : View} (hv : C10P.ViewArcs v) (hw : C10P.NonNeg v.g) :
    ∀ (ps : List (Nat × Nat)), (∀ p ∈ ps, Reach v.g p.1 p.2) → (closureAux v ps).isSome := by
  intro ps
  induction ps with
  | nil => intro _; rfl
  | cons p ps ih =>
    intro h
    obtain ⟨d, hd⟩ := Option.isSome_iff_exists.mp (dist_isSome hv hw (h p (List.mem_cons_self ..)))
    obtain ⟨r, hr⟩ := Option.isSome_iff_exists.mp (ih (fun q hq => h q (List.mem_cons_of_mem _ hq)))
    simp [closureAux, hd, hr]

/-! ### Floyd–Warshall answers, and its rows make the walks terminate -/

theorem walk_nonneg {g : MGraph} (hpos : ∀ e ∈ g.edges, 0 < e.w) {a b : Nat} {c : Int} (h : WalkCost g a b c) : 0 ≤ c := by
  induction h with
  | nil => exact Int.le_refl 0
  | snoc _ harc ih =>
    obtain ⟨e, he, hw, _⟩ := mem_arcs.mp harc
    have := hpos e he
    omega

theorem rowOk_of_floyd (B : Meas) (v : View) (hwf : v.g.WellFormed) (Wm : Int) (hWm : 0 ≤ Wm)
    (hW : ∀ e ∈ v.g.edges, -Wm ≤ e.w ∧ e.w ≤ Wm) (hpos : ∀ e ∈ v.g.edges, 0 < e.w) (hfit : LinFit B v.g Wm)
    (fw : FW) (h : floydWarshall B v = some fw) :
    ∀ s ∈ v.g.nodes, RowOk v.g (fun x => tget fw.d (s, x)) (prevOf fw s) s := by
  intro s hs
  have hok := (floydWarshall_ok_lin B v hwf Wm hWm hW hfit fw h).1 s hs
  have harc := floydWarshall_prev_arc_lin B v hwf Wm hWm hW hfit fw h s hs
  constructor
  · intro j hj hd
    obtain ⟨y, hy⟩ := Option.isSome_iff_exists.mp hd
    have hwalk : ∃ c, WalkCost v.g s j c := ⟨y, (hok.1 j y hy).1⟩
    cases hp : prevOf fw s j with
    | some q => rfl
    | none => exact absurd hwalk (((harc j hj).1).mp hp)
  · intro j q hj hq
    obtain ⟨a, w, _, h2, h3, h4, _⟩ := (harc j hj).2 q hq
    obtain ⟨e, he, hew, hor⟩ := mem_arcs.mp h3
    have hn := hwf.2 e he
    have hqn : q ∈ v.g.nodes := by
      rcases hor with ⟨h1, _⟩ | ⟨_, _, h1⟩
      · exact h1 ▸ hn.1
      · exact h1 ▸ hn.2
    have := hpos e he
    exact ⟨hqn, a, w, h2, h4, by omega⟩

theorem floyd_isSome (B : Meas) (hB : 0 ≤ B.max) (v : View) (hpos : ∀ e ∈ v.g.edges, 0 < e.w) :
    (floydWarshall B v).isSome := by
  cases h : floydWarshall B v with
  | some _ => rfl
  | none =>
    obtain ⟨u, c, hw, hc⟩ := floydWarshall_err B hB v h
    have := walk_nonneg hpos hw
    omega

/-- **totality, any pop order**: with pairwise connected terminals the part of the function after the
heap answers `ok` -/
theorem steinerFrom_total (B : Meas) (v : View) (hwf : v.g.WellFormed) (Wm : Int) (hWm : 0 ≤ Wm)
    (hW : ∀ e ∈ v.g.edges, 0 < e.w ∧ e.w ≤ Wm) (hfit : LinFit B v.g Wm)
    {terms : List Nat} (hterms : ∀ t ∈ terms, t ∈ v.g.nodes)
    (hconn : ∀ a ∈ terms, ∀ b ∈ terms, Reach v.g a b) {pops : List Item}
    (hends : ∀ it ∈ pops, it.a ∈ terms ∧ it.b ∈ terms) :
    ∃ N E, steinerFrom B v terms pops = .ok N E := by
  have hpos : ∀ e ∈ v.g.edges, 0 < e.w := fun e he => (hW e he).1
  have hW' : ∀ e ∈ v.g.edges, -Wm ≤ e.w ∧ e.w ≤ Wm := fun e he => ⟨by have := hW e he; omega, (hW e he).2⟩
  have hB : 0 ≤ B.max := by
    have h1 := hfit.1
    have : 0 ≤ (v.g.nodes.length : Int) * Wm := Int.mul_nonneg (Int.natCast_nonneg _) hWm
    omega
  obtain ⟨fw, hfw⟩ := Option.isSome_iff_exists.mp (floyd_isSome B hB v hpos)
  have hrow := rowOk_of_floyd B v hwf Wm hWm hW' hpos hfit fw hfw
  have hok := (floydWarshall_ok_lin B v hwf Wm hWm hW' hfit fw hfw).1
  have hitems : ∀ it ∈ mstOf pops, it.a ∈ v.g.nodes ∧ (tget fw.d (it.a, it.b)).isSome := by
    intro it hit
    obtain ⟨ha, hb⟩ := hends it ((mstOf_spec pops).2 it hit)
    refine ⟨hterms _ ha, ?_⟩
    have hr := hconn _ ha _ hb
    have hwalk := (walk_iff_reach v.g it.a it.b).mpr hr
    cases hd : tget fw.d (it.a, it.b) with
    | some _ => rfl
    | none => exact absurd hwalk (((hok it.a (hterms _ ha)).2 it.b).mp hd)
  obtain ⟨se, hse⟩ := Option.isSome_iff_exists.mp
    (expand_total (g := v.g) (prevAll := prevOf fw) (dist := fun s x => tget fw.d (s, x)) hrow (mstOf pops) [] hitems)
  obtain ⟨removed, hrem⟩ := Option.isSome_iff_exists.mp
    (prune_total (keptNodes v.g se terms) (baseEdges v.g se terms) terms ((keptNodes v.g se terms).length + 1) []
      (Nat.lt_succ_of_le (List.length_filter_le _ _)))
  exact ⟨(keptNodes v.g se terms).filter fun x => !removed.contains x,
    (dropNodes removed (baseEdges v.g se terms)).map (·.id), by simp [steinerFrom, hfw, steinerWith, hse, hrem]⟩

/-- **`steiner_tree` is total on its domain, every hash order**: a well-formed graph, a view whose
`edges()` describe it, positive costs that fit the cost type, terminals that are nodes and pairwise
connected ⇒ the mirror model answers `ok` (no panic, no endless loop) -/
theorem steiner_total (B : Meas) (v : View) (hwf : v.g.WellFormed) (hv : C10P.ViewArcs v) (Wm : Int) (hWm : 0 ≤ Wm)
    (hW : ∀ e ∈ v.g.edges, 0 < e.w ∧ e.w ≤ Wm) (hfit : LinFit B v.g Wm)
    {terms : List Nat} (hterms : ∀ t ∈ terms, t ∈ v.g.nodes)
    (hconn : ∀ a ∈ terms, ∀ b ∈ terms, Reach v.g a b) (o : Oracle) (ho : o.Valid) :
    ∃ N E, steiner B v terms o = .ok N E := by
  have hnn : C10P.NonNeg v.g := by
    intro a b w harc
    obtain ⟨e, he, hw, _⟩ := mem_arcs.mp harc
    have := (hW e he).1
    omega
  have hcl : (closure v terms).isSome := by
    unfold closure
    obtain ⟨c0, hc0⟩ := Option.isSome_iff_exists.mp
      (closureAux_isSome hv hnn (pairs terms) (fun p hp => hconn _ (mem_pairs hp).1 _ (mem_pairs hp).2))
    simp [hc0]
  obtain ⟨c, hc⟩ := Option.isSome_iff_exists.mp hcl
  obtain ⟨_, p2⟩ := pops_of_oracle hc o ho
  obtain ⟨N, E, h⟩ := steinerFrom_total B v hwf Wm hWm hW hfit hterms hconn p2
  exact ⟨N, E, by simp [steiner, hc, h]⟩

/-! ### every edge of the answer lies on a shortest path from a terminal -/

/-- **the proved half of the weight bound's first step**: every edge of the answer joins a node `c` to
its predecessor `p` on a SHORTEST path from some terminal `s` (`dist(s,c) = dist(s,p) + w` for an arc
`p → c` of cost `w`) — the answer is a union of shortest paths between terminals, one per edge of the
closure's spanning tree -/
theorem steinerFrom_edges_tight (B : Meas) (v : View) (hwf : v.g.WellFormed) (Wm : Int) (hWm : 0 ≤ Wm)
    (hW : ∀ e ∈ v.g.edges, -Wm ≤ e.w ∧ e.w ≤ Wm) (hfit : LinFit B v.g Wm)
    {terms : List Nat} (hterms : ∀ t ∈ terms, t ∈ v.g.nodes) {pops : List Item}
    (hends : ∀ it ∈ pops, it.a ∈ terms ∧ it.b ∈ terms)
    {N E : List Nat} (h : steinerFrom B v terms pops = .ok N E) :
    ∃ es : List Edge, es.Sublist v.g.edges ∧ E = es.map (·.id) ∧
      ∀ e ∈ es, ∃ s ∈ terms, ∃ (p c : Nat) (a w : Int),
        ((e.src = p ∧ e.tgt = c) ∨ (e.src = c ∧ e.tgt = p)) ∧
        IsShortest v.g s p a ∧ (p, c, w) ∈ v.g.arcs ∧ IsShortest v.g s c (a + w) := by
  obtain ⟨fw, se, removed, hfw, hse, hrem, hN, hE⟩ := steinerFrom_ok h
  refine ⟨answerEdges v.g se terms removed, answerEdges_sublist _ _ _ _, hE, ?_⟩
  intro e he
  obtain ⟨_, hpair, _⟩ := mem_answerEdges he
  obtain ⟨_, _, e3⟩ := expand_spec _ _ _ hse
  have key : ∀ pr ∈ se, ∃ s ∈ terms, ∃ (a w : Int),
      IsShortest v.g s pr.1 a ∧ (pr.1, pr.2, w) ∈ v.g.arcs ∧ IsShortest v.g s pr.2 (a + w) := by
    intro pr hpr
    rcases e3 pr hpr with h0 | ⟨it, hit, h1, h2, _, _⟩
    · cases h0
    · have hta := (hends it ((mstOf_spec pops).2 it hit)).1
      obtain ⟨a, w, q1, _, q3, _, q5⟩ :=
        (floydWarshall_prev_arc_lin B v hwf Wm hWm hW hfit fw hfw it.a (hterms _ hta) pr.2 h2).2 pr.1 h1
      exact ⟨it.a, hta, a, w, q1, q3, q5⟩
  simp only [pairIn, Bool.or_eq_true, List.contains_eq_mem, decide_eq_true_eq] at hpair
  rcases hpair with h1 | h1
  · obtain ⟨s, hs, a, w, k1, k2, k3⟩ := key _ h1
    exact ⟨s, hs, e.src, e.tgt, a, w, Or.inl ⟨rfl, rfl⟩, k1, k2, k3⟩
  · obtain ⟨s, hs, a, w, k1, k2, k3⟩ := key _ h1
    exact ⟨s, hs, e.tgt, e.src, a, w, Or.inr ⟨rfl, rfl⟩, k1, k2, k3⟩

/-! ### run-time check of the domain -/

theorem termsConnB_sound {g : MGraph} (hd : g.directed = false) {terms : List Nat} (h : termsConnB g terms = true) :
    ∀ a ∈ terms, ∀ b ∈ terms, Reach g a b := by
  unfold termsConnB at h
  split at h
  · intro a ha; cases ha
  · rename_i t0 rest
    split at h
    · cases h
    · rename_i r hr
      have hall : ∀ t ∈ t0 :: rest, Reach g t0 t := by
        intro t ht
        rcases List.mem_cons.mp ht with h1 | h1
        · subst h1; exact Reach.refl _
        · have := List.all_eq_true.mp h t h1
          exact ((Oracle.reachFrom_spec g t0 r hr).2 t).mp (by simpa using this)
      intro a ha b hb
      exact reach_trans (reach_symm_undirected hd (hall a ha)) (hall b hb)

theorem domainB_sound {v : View} {terms : List Nat} (h : domainB v terms = true) :
    v.g.directed = false ∧ C10P.ViewArcs v ∧ (∀ e ∈ v.g.edges, 0 < e.w) ∧ ∀ a ∈ terms, ∀ b ∈ terms, Reach v.g a b := by
  simp only [domainB, Bool.and_eq_true, Bool.not_eq_true', List.all_eq_true, decide_eq_true_eq] at h
  obtain ⟨⟨⟨h1, h2⟩, h3⟩, h4⟩ := h
  exact ⟨h1, (C10P.viewOkB_sound v h2).1, h3, termsConnB_sound h1 h4⟩

end PetgraphModel.C20.Steiner
