import PetgraphModel.Proofs.C16PostOrder
import PetgraphModel.Proofs.C16W2Base
/-
C16, second wave — the `DfsPostOrder` run of `simple_fast` is total within the model's fuel, ends with
the root, and every other emitted node has a graph predecessor that is emitted later.
-/
namespace PetgraphModel.C16P.W2Post
open PetgraphModel MGraph C16M PetgraphModel.Trav

/-! ### the three kinds of steps of `postNext` -/

/-- state after discovering the stack top `x` -/
def discStep (v : View) (d : Post) (x : Nat) (st : List Nat) : Post :=
  { d with stack := ((v.succ x).filter (fun y => !(x :: d.disc).contains y)).reverse ++ (x :: st),
           disc := x :: d.disc }

/-- Every result of `postNext` is produced from a state `d0` reached by discover / skip steps. -/
theorem postNext_run (v : View) (P : Post → Prop)
    (hdisc : ∀ d x st, P d → d.stack = x :: st → x ∉ d.disc → P (discStep v d x st))
    (hskip : ∀ d x st, P d → d.stack = x :: st → x ∈ d.disc → x ∈ d.fin → P { d with stack := st }) :
    ∀ (f : Nat) (d d' : Post) (r : Option Nat), P d → postNext v f d = some (r, d') →
      ∃ d0, P d0 ∧ ((r = none ∧ d0.stack = [] ∧ d' = d0) ∨
        ∃ x st, r = some x ∧ d0.stack = x :: st ∧ x ∈ d0.disc ∧ x ∉ d0.fin ∧
          d' = { d0 with stack := st, fin := x :: d0.fin }) := by
  intro f
  induction f with
  | zero => intro d d' r _ h; simp [postNext] at h
  | succ f ih =>
    intro d d' r hP h
    unfold postNext at h
    split at h
    · rename_i hst
      simp only [Option.some.injEq, Prod.mk.injEq] at h
      obtain ⟨rfl, rfl⟩ := h
      exact ⟨d, hP, Or.inl ⟨rfl, hst, rfl⟩⟩
    · rename_i x st hst
      split at h
      · rename_i hnd
        simp only [Bool.not_eq_true', ← Bool.not_eq_true, List.contains_iff_mem] at hnd
        exact ih _ d' r (hdisc d x st hP hst hnd) h
      · rename_i hd
        simp only [Bool.not_eq_true', ← Bool.not_eq_true, List.contains_iff_mem,
          Decidable.not_not] at hd
        split at h
        · rename_i hnf
          simp only [Bool.not_eq_true', ← Bool.not_eq_true, List.contains_iff_mem] at hnf
          simp only [Option.some.injEq, Prod.mk.injEq] at h
          obtain ⟨rfl, rfl⟩ := h
          exact ⟨d, hP, Or.inr ⟨x, st, rfl, hst, hd, hnf, rfl⟩⟩
        · rename_i hf
          simp only [Bool.not_eq_true', ← Bool.not_eq_true, List.contains_iff_mem,
            Decidable.not_not] at hf
          exact ih _ d' r (hskip d x st hP hst hd hf) h

/-- `postNext` answers as soon as the fuel exceeds a measure that every internal step lowers. -/
theorem postNext_term (v : View) (P : Post → Prop) (Φ : Post → Nat)
    (hdisc : ∀ d x st, P d → d.stack = x :: st → x ∉ d.disc →
      P (discStep v d x st) ∧ Φ (discStep v d x st) < Φ d)
    (hskip : ∀ d x st, P d → d.stack = x :: st → x ∈ d.disc → x ∈ d.fin →
      P { d with stack := st } ∧ Φ { d with stack := st } < Φ d) :
    ∀ (f : Nat) (d : Post), P d → Φ d < f → ∃ r d', postNext v f d = some (r, d') := by
  intro f
  induction f with
  | zero => intro d _ h; omega
  | succ f ih =>
    intro d hP hlt
    unfold postNext
    split
    · exact ⟨_, _, rfl⟩
    · rename_i x st hst
      split
      · rename_i hnd
        simp only [Bool.not_eq_true', ← Bool.not_eq_true, List.contains_iff_mem] at hnd
        obtain ⟨h1, h2⟩ := hdisc d x st hP hst hnd
        exact ih (discStep v d x st) h1 (by omega)
      · rename_i hd
        simp only [Bool.not_eq_true', ← Bool.not_eq_true, List.contains_iff_mem,
          Decidable.not_not] at hd
        split
        · exact ⟨_, _, rfl⟩
        · rename_i hf
          simp only [Bool.not_eq_true', ← Bool.not_eq_true, List.contains_iff_mem,
            Decidable.not_not] at hf
          obtain ⟨h1, h2⟩ := hskip d x st hP hst hd hf
          exact ih _ h1 (by omega)

/-! ### `PInv` along single steps -/

theorem mem_pushes {v : View} {disc : List Nat} {x y : Nat} :
    y ∈ (v.succ x).filter (fun y => !(x :: disc).contains y) ↔
      y ∈ v.succ x ∧ y ≠ x ∧ y ∉ disc := by
  simp [List.mem_filter]

theorem mem_discStep_stack {v : View} {d : Post} {x : Nat} {st : List Nat} {y : Nat} :
    y ∈ (discStep v d x st).stack ↔ (y ∈ v.succ x ∧ y ≠ x ∧ y ∉ d.disc) ∨ y = x ∨ y ∈ st := by
  simp [discStep, List.mem_filter]

theorem pinv_disc {v : View} (hv : ViewOk v) {root : Nat} {d : Post} {x : Nat} {st : List Nat}
    (inv : PInv v root d) (hst : d.stack = x :: st) (_hnd : x ∉ d.disc) :
    PInv v root (discStep v d x st) := by
  have hxr : Reach v.g root x := inv.stackReach x (by simp [hst])
  have hmem : ∀ y, y ∈ d.stack ↔ y = x ∨ y ∈ st := by intro y; simp [hst]
  obtain ⟨h1, h2, h3, h4, h5, h6, h7⟩ := inv
  refine ⟨h1, ?_, ?_, ?_, ?_, ?_, ?_⟩
  · intro y hy; exact List.mem_cons_of_mem _ (h2 y hy)
  · intro y hy
    rcases List.mem_cons.mp hy with rfl | hy
    · exact hxr
    · exact h3 y hy
  · intro y hy
    rcases mem_discStep_stack.mp hy with ⟨hy, _⟩ | rfl | hy
    · exact Reach.step hxr ((hv x y).mp hy)
    · exact hxr
    · exact h4 y ((hmem y).mpr (Or.inr hy))
  · show root ∈ x :: d.disc ∨ _
    rw [mem_discStep_stack]
    rcases h5 with h | h
    · exact Or.inl (List.mem_cons_of_mem _ h)
    · rcases (hmem _).mp h with h | h
      · exact Or.inl (h ▸ List.mem_cons_self ..)
      · exact Or.inr (Or.inr (Or.inr h))
  · intro a ha y hy
    show y ∈ x :: d.disc ∨ _
    rw [mem_discStep_stack, List.mem_cons]
    rcases List.mem_cons.mp ha with rfl | ha
    · have := (hv a y).mpr hy
      by_cases h1 : y = a
      · exact Or.inl (Or.inl h1)
      · by_cases h2 : y ∈ d.disc
        · exact Or.inl (Or.inr h2)
        · exact Or.inr (Or.inl ⟨this, h1, h2⟩)
    · rcases h6 a ha y hy with h | h
      · exact Or.inl (Or.inr h)
      · rcases (hmem _).mp h with h | h
        · exact Or.inl (Or.inl h)
        · exact Or.inr (Or.inr (Or.inr h))
  · intro a ha
    show a ∈ d.fin ∨ _
    rw [mem_discStep_stack]
    rcases List.mem_cons.mp ha with rfl | ha
    · exact Or.inr (Or.inr (Or.inl rfl))
    · rcases h7 a ha with h | h
      · exact Or.inl h
      · exact Or.inr (Or.inr ((hmem _).mp h))

theorem pinv_skip {v : View} {root : Nat} {d : Post} {x : Nat} {st : List Nat}
    (inv : PInv v root d) (hst : d.stack = x :: st) (hd : x ∈ d.disc) (hf : x ∈ d.fin) :
    PInv v root { d with stack := st } := by
  have hmem : ∀ y, y ∈ d.stack ↔ y = x ∨ y ∈ st := by intro y; simp [hst]
  obtain ⟨h1, h2, h3, h4, h5, h6, h7⟩ := inv
  refine ⟨h1, h2, h3, ?_, ?_, ?_, ?_⟩
  · intro y hy; exact h4 y ((hmem y).mpr (Or.inr hy))
  · rcases h5 with h | h
    · exact Or.inl h
    · rcases (hmem _).mp h with h | h
      · exact Or.inl (h ▸ hd)
      · exact Or.inr h
  · intro a ha y hy
    rcases h6 a ha y hy with h | h
    · exact Or.inl h
    · rcases (hmem _).mp h with h | h
      · exact Or.inl (h ▸ hd)
      · exact Or.inr h
  · intro a ha
    rcases h7 a ha with h | h
    · exact Or.inl h
    · rcases (hmem _).mp h with h | h
      · exact Or.inl (h ▸ hf)
      · exact Or.inr h

theorem pinv_emit {v : View} {root : Nat} {d : Post} {x : Nat} {st : List Nat}
    (inv : PInv v root d) (hst : d.stack = x :: st) (hd : x ∈ d.disc) (hnf : x ∉ d.fin) :
    PInv v root { d with stack := st, fin := x :: d.fin } := by
  have hmem : ∀ y, y ∈ d.stack ↔ y = x ∨ y ∈ st := by intro y; simp [hst]
  obtain ⟨h1, h2, h3, h4, h5, h6, h7⟩ := inv
  refine ⟨List.nodup_cons.mpr ⟨hnf, h1⟩, ?_, h3, ?_, ?_, ?_, ?_⟩
  · intro y hy
    rcases List.mem_cons.mp hy with rfl | hy
    · exact hd
    · exact h2 y hy
  · intro y hy; exact h4 y ((hmem y).mpr (Or.inr hy))
  · rcases h5 with h | h
    · exact Or.inl h
    · rcases (hmem _).mp h with h | h
      · exact Or.inl (h ▸ hd)
      · exact Or.inr h
  · intro a ha y hy
    rcases h6 a ha y hy with h | h
    · exact Or.inl h
    · rcases (hmem _).mp h with h | h
      · exact Or.inl (h ▸ hd)
      · exact Or.inr h
  · intro a ha
    rcases h7 a ha with h | h
    · exact Or.inl (List.mem_cons_of_mem _ h)
    · rcases (hmem _).mp h with h | h
      · exact Or.inl (h ▸ List.mem_cons_self ..)
      · exact Or.inr h

/-! ### the order invariants -/

structure XInv (v : View) (root : Nat) (d : Post) : Prop where
  G : ∀ pre x suf, d.stack = pre ++ x :: suf → x ∉ d.fin → x ≠ root →
    ∃ p, p ∈ suf ∧ p ∉ pre ∧ p ≠ x ∧ p ∈ d.disc ∧ p ∉ d.fin ∧ v.g.Adj p x
  F : ∀ l1 x l2, d.fin = l1 ++ x :: l2 → x ≠ root →
    ∃ p, v.g.Adj p x ∧ p ∈ d.disc ∧ p ∉ x :: l2
  R1 : root ∉ d.fin →
    ∃ st', d.stack = st' ++ [root] ∧ root ∉ st' ∧ (root ∈ d.disc ∨ st' = [])
  R2 : root ∈ d.fin → d.stack = [] ∧ d.fin.head? = some root

theorem xinv_disc {v : View} (hv : ViewOk v) {root : Nat} {d : Post} {x : Nat} {st : List Nat}
    (pinv : PInv v root d) (inv : XInv v root d) (hst : d.stack = x :: st) (hnd : x ∉ d.disc) :
    XInv v root (discStep v d x st) := by
  have hxf : x ∉ d.fin := fun h => hnd (pinv.finDisc x h)
  refine ⟨?_, ?_, ?_, ?_⟩
  · intro pre y suf h hyf hyr
    change y ∉ d.fin at hyf
    change ((v.succ x).filter (fun y => !(x :: d.disc).contains y)).reverse ++ (x :: st)
      = pre ++ y :: suf at h
    show ∃ p, p ∈ suf ∧ p ∉ pre ∧ p ≠ y ∧ p ∈ x :: d.disc ∧ p ∉ d.fin ∧ v.g.Adj p y
    -- old witnesses are discovered, hence not among the pushes
    have hold : ∀ p, p ∈ d.disc →
        p ∉ ((v.succ x).filter (fun y => !(x :: d.disc).contains y)).reverse := by
      intro p hp hp'
      rw [List.mem_reverse, mem_pushes] at hp'
      exact hp'.2.2 hp
    rcases List.append_eq_append_iff.mp h with ⟨as, hpre, has⟩ | ⟨bs, hP, hbs⟩
    · rcases List.cons_eq_append_iff.mp has with ⟨rfl, hys⟩ | ⟨as', rfl, hst'⟩
      · -- the re-pushed copy of `x`
        simp only [List.cons.injEq] at hys
        obtain ⟨rfl, rfl⟩ := hys
        obtain ⟨p, h1, _, h3, h4, h5, h6⟩ := inv.G [] y suf (by simpa using hst) hyf hyr
        refine ⟨p, h1, ?_, h3, List.mem_cons_of_mem _ h4, h5, h6⟩
        rw [hpre, List.append_nil]
        exact hold p h4
      · -- a deeper entry
        obtain ⟨p, h1, h2, h3, h4, h5, h6⟩ :=
          inv.G (x :: as') y suf (by rw [hst, hst']; rfl) hyf hyr
        refine ⟨p, h1, ?_, h3, List.mem_cons_of_mem _ h4, h5, h6⟩
        rw [hpre, List.mem_append]
        rintro (h | h)
        · exact hold p h4 h
        · exact h2 h
    · rcases List.cons_eq_append_iff.mp hbs with ⟨rfl, hys⟩ | ⟨bs', rfl, hsuf⟩
      · simp only [List.cons.injEq] at hys
        obtain ⟨rfl, rfl⟩ := hys
        obtain ⟨p, h1, _, h3, h4, h5, h6⟩ := inv.G [] x st (by simpa using hst) hyf hyr
        refine ⟨p, h1, ?_, h3, List.mem_cons_of_mem _ h4, h5, h6⟩
        intro hp
        exact hold p h4 (by rw [hP]; simpa using hp)
      · -- a freshly pushed successor of `x`
        have hy : y ∈ ((v.succ x).filter (fun y => !(x :: d.disc).contains y)).reverse := by
          rw [hP]; simp
        rw [List.mem_reverse, mem_pushes] at hy
        refine ⟨x, by rw [hsuf]; simp, ?_, fun h => hy.2.1 h.symm, List.mem_cons_self ..,
          hxf, (hv x y).mp hy.1⟩
        intro hx
        have : x ∈ ((v.succ x).filter (fun y => !(x :: d.disc).contains y)).reverse := by
          rw [hP]; simp [hx]
        rw [List.mem_reverse, mem_pushes] at this
        exact this.2.1 rfl
  · intro l1 y l2 h hyr
    obtain ⟨p, h1, h2, h3⟩ := inv.F l1 y l2 h hyr
    exact ⟨p, h1, List.mem_cons_of_mem _ h2, h3⟩
  · intro hrf
    obtain ⟨st', h1, h2, h3⟩ := inv.R1 hrf
    refine ⟨((v.succ x).filter (fun y => !(x :: d.disc).contains y)).reverse ++ st', ?_, ?_, ?_⟩
    · show _ ++ (x :: st) = _
      rw [← hst, h1, List.append_assoc]
    · have hrd : root = x ∨ root ∈ d.disc := by
        rcases h3 with h | rfl
        · exact Or.inr h
        · left; rw [hst] at h1
          have h1' : x = root ∧ st = [] := by simpa using h1
          exact h1'.1.symm
      rw [List.mem_append, List.mem_reverse, mem_pushes]
      rintro (⟨_, h4, h5⟩ | h)
      · rcases hrd with h | h
        · exact h4 h
        · exact h5 h
      · exact h2 h
    · left
      show root ∈ x :: d.disc
      rcases h3 with h | rfl
      · exact List.mem_cons_of_mem _ h
      · rw [hst] at h1
        have h1' : x = root ∧ st = [] := by simpa using h1
        rw [h1'.1]; exact List.mem_cons_self ..
  · intro hrf
    have := (inv.R2 hrf).1
    rw [hst] at this
    cases this

theorem xinv_skip {v : View} {root : Nat} {d : Post} {x : Nat} {st : List Nat}
    (inv : XInv v root d) (hst : d.stack = x :: st) (hf : x ∈ d.fin) :
    XInv v root { d with stack := st } := by
  refine ⟨?_, inv.F, ?_, ?_⟩
  · intro pre y suf h hyf hyr
    change st = pre ++ y :: suf at h
    obtain ⟨p, h1, h2, h3, h4, h5, h6⟩ := inv.G (x :: pre) y suf (by rw [hst, h]; rfl) hyf hyr
    exact ⟨p, h1, fun h => h2 (List.mem_cons_of_mem _ h), h3, h4, h5, h6⟩
  · intro hrf
    obtain ⟨st', h1, h2, h3⟩ := inv.R1 hrf
    rw [hst] at h1
    rcases List.cons_eq_append_iff.mp h1 with ⟨rfl, h⟩ | ⟨as', rfl, h⟩
    · simp only [List.cons.injEq] at h
      exact absurd (h.1 ▸ hf) hrf
    · refine ⟨as', h, fun h' => h2 (List.mem_cons_of_mem _ h'), ?_⟩
      rcases h3 with h3 | h3
      · exact Or.inl h3
      · cases h3
  · intro hrf
    have := (inv.R2 hrf).1
    rw [hst] at this
    cases this

theorem xinv_emit {v : View} {root : Nat} {d : Post} {x : Nat} {st : List Nat}
    (inv : XInv v root d) (hst : d.stack = x :: st) (hd : x ∈ d.disc) (hnf : x ∉ d.fin) :
    XInv v root { d with stack := st, fin := x :: d.fin } := by
  refine ⟨?_, ?_, ?_, ?_⟩
  · intro pre y suf h hyf hyr
    change st = pre ++ y :: suf at h
    change y ∉ x :: d.fin at hyf
    obtain ⟨p, h1, h2, h3, h4, h5, h6⟩ := inv.G (x :: pre) y suf (by rw [hst, h]; rfl)
      (fun h => hyf (List.mem_cons_of_mem _ h)) hyr
    refine ⟨p, h1, fun h => h2 (List.mem_cons_of_mem _ h), h3, h4, ?_, h6⟩
    show p ∉ x :: d.fin
    intro hp
    rcases List.mem_cons.mp hp with rfl | hp
    · exact h2 (List.mem_cons_self ..)
    · exact h5 hp
  · intro l1 y l2 h hyr
    change x :: d.fin = l1 ++ y :: l2 at h
    rcases List.cons_eq_append_iff.mp h with ⟨rfl, h'⟩ | ⟨as', rfl, h'⟩
    · simp only [List.cons.injEq] at h'
      obtain ⟨rfl, rfl⟩ := h'
      obtain ⟨p, _, _, h3, h4, h5, h6⟩ := inv.G [] y st (by simpa using hst) hnf hyr
      refine ⟨p, h6, h4, ?_⟩
      intro hp
      rcases List.mem_cons.mp hp with hp | hp
      · exact h3 hp
      · exact h5 hp
    · exact inv.F as' y l2 h' hyr
  · intro hrf
    change root ∉ x :: d.fin at hrf
    have hrx : x ≠ root := fun h => hrf (h ▸ List.mem_cons_self ..)
    obtain ⟨st', h1, h2, h3⟩ := inv.R1 (fun h => hrf (List.mem_cons_of_mem _ h))
    rw [hst] at h1
    rcases List.cons_eq_append_iff.mp h1 with ⟨rfl, h⟩ | ⟨as', rfl, h⟩
    · simp only [List.cons.injEq] at h
      exact absurd h.1.symm hrx
    · refine ⟨as', h, fun h' => h2 (List.mem_cons_of_mem _ h'), ?_⟩
      rcases h3 with h3 | h3
      · exact Or.inl h3
      · cases h3
  · intro hrf
    change root ∈ x :: d.fin at hrf
    refine ⟨?_, ?_⟩
    · show st = []
      rcases List.mem_cons.mp hrf with rfl | hrf
      · obtain ⟨st', h1, h2, _⟩ := inv.R1 hnf
        rw [hst] at h1
        rcases List.cons_eq_append_iff.mp h1 with ⟨rfl, h⟩ | ⟨as', rfl, h⟩
        · simp only [List.cons.injEq] at h
          exact h.2.symm
        · exact absurd (List.mem_cons_self ..) h2
      · have := (inv.R2 hrf).1
        rw [hst] at this
        cases this
    · show (x :: d.fin).head? = some root
      rcases List.mem_cons.mp hrf with rfl | hrf
      · rfl
      · have := (inv.R2 hrf).1
        rw [hst] at this
        cases this

/-! ### the potential -/

def wt (v : View) (a : Nat) : Nat := (v.succ a).length + 2

def W (v : View) (disc : List Nat) : List Nat → Nat
  | [] => 0
  | a :: l => (if a ∈ disc then 0 else wt v a) + W v disc l

def Phi (v : View) (d : Post) : Nat := d.stack.length + W v d.disc v.g.nodes

theorem W_cons_le (v : View) (l disc : List Nat) (x : Nat) : W v (x :: disc) l ≤ W v disc l := by
  induction l with
  | nil => simp [W]
  | cons a l ih =>
    simp only [W, List.mem_cons]
    by_cases h1 : a = x <;> by_cases h2 : a ∈ disc <;> simp [h1, h2] <;> omega

theorem W_cons_lt (v : View) (l disc : List Nat) (x : Nat) (hx : x ∈ l) (hnd : x ∉ disc) :
    W v (x :: disc) l + wt v x ≤ W v disc l := by
  induction l with
  | nil => cases hx
  | cons a l ih =>
    have hle := W_cons_le v l disc x
    simp only [W, List.mem_cons]
    by_cases h1 : a = x
    · subst h1
      simp [hnd]; omega
    · have hx' : x ∈ l := by
        rcases List.mem_cons.mp hx with h | h
        · exact absurd h.symm h1
        · exact h
      have := ih hx'
      by_cases h2 : a ∈ disc <;> simp [h1, h2] <;> omega

theorem W_nil (v : View) (l : List Nat) : W v [] l = (l.map (wt v)).sum := by
  induction l with
  | nil => rfl
  | cons a l ih => simp [W, ih]

theorem Phi_disc {v : View} {d : Post} {x : Nat} {st : List Nat} (hst : d.stack = x :: st)
    (hx : x ∈ v.g.nodes) (hnd : x ∉ d.disc) : Phi v (discStep v d x st) < Phi v d := by
  have h1 := W_cons_lt v v.g.nodes d.disc x hx hnd
  change W v (x :: d.disc) v.g.nodes + wt v x ≤ W v d.disc v.g.nodes at h1
  have h2 := List.length_filter_le (fun y => !(x :: d.disc).contains y) (v.succ x)
  simp only [Phi, discStep, hst, List.length_append, List.length_reverse, List.length_cons]
  simp only [wt] at h1
  omega

theorem Phi_skip {v : View} {d : Post} {x : Nat} {st : List Nat} (hst : d.stack = x :: st) :
    Phi v { d with stack := st } < Phi v d := by
  simp only [Phi, hst, List.length_cons]
  omega

theorem Phi_emit {v : View} {d : Post} {x : Nat} {st : List Nat} (hst : d.stack = x :: st) :
    Phi v { d with stack := st, fin := x :: d.fin } < Phi v d := by
  simp only [Phi, hst, List.length_cons]
  omega

/-! ### the initial potential is within the fuel -/

theorem sum_map_add (l : List Nat) (f g : Nat → Nat) :
    (l.map fun a => f a + g a).sum = (l.map f).sum + (l.map g).sum := by
  induction l with
  | nil => rfl
  | cons a l ih => simp only [List.map_cons, List.sum_cons, ih]; omega

theorem sum_map_le (l : List Nat) (f g : Nat → Nat) (h : ∀ a, f a ≤ g a) :
    (l.map f).sum ≤ (l.map g).sum := by
  induction l with
  | nil => simp
  | cons a l ih => simp only [List.map_cons, List.sum_cons]; have := h a; omega

theorem sum_map_const2 (l : List Nat) : (l.map fun _ => 2).sum = 2 * l.length := by
  induction l with
  | nil => rfl
  | cons a l ih => simp only [List.map_cons, List.sum_cons, ih, List.length_cons]; omega

theorem sum_map_zero (l : List Nat) : (l.map fun _ => 0).sum = 0 := by
  induction l with
  | nil => rfl
  | cons a l ih => simp only [List.map_cons, List.sum_cons, ih]

theorem sum_ind_eq_count (l : List Nat) (s : Nat) :
    (l.map fun a => if a = s then 1 else 0).sum = l.count s := by
  induction l with
  | nil => rfl
  | cons a l ih =>
    simp only [List.map_cons, List.sum_cons, ih, List.count_cons]
    by_cases h : a = s <;> simp [h] <;> omega

theorem sum_ind_le_one (l : List Nat) (hl : l.Nodup) (s : Nat) :
    (l.map fun a => if a = s then 1 else 0).sum ≤ 1 := by
  rw [sum_ind_eq_count]; exact List.nodup_iff_count.mp hl s

theorem sum_succ_le (dir : Bool) (l : List Nat) (hl : l.Nodup) (es : List Edge) :
    (l.map fun a => (es.filterMap fun e =>
        if e.src = a then some e.tgt
        else if dir = false ∧ e.tgt = a then some e.src
        else none).length).sum ≤ 2 * es.length := by
  induction es with
  | nil => simp only [List.filterMap_nil, List.length_nil]; rw [sum_map_zero]; omega
  | cons e es ih =>
    refine Nat.le_trans (sum_map_le l _ (fun a => ((if a = e.src then 1 else 0) +
      (if a = e.tgt then 1 else 0)) + (es.filterMap fun e =>
        if e.src = a then some e.tgt
        else if dir = false ∧ e.tgt = a then some e.src
        else none).length) ?_) ?_
    · intro a
      simp only [List.filterMap_cons]
      by_cases h1 : e.src = a
      · simp [h1]; omega
      · by_cases h2 : dir = false ∧ e.tgt = a
        · simp [h1, h2]; omega
        · simp [h1, h2]
    · rw [sum_map_add, sum_map_add]
      have h1 := sum_ind_le_one l hl e.src
      have h2 := sum_ind_le_one l hl e.tgt
      simp only [List.length_cons]
      omega

theorem Phi_init (v : View) (root : Nat) (hb : SuccBounded v) (hwf : v.g.WellFormed) :
    Phi v { stack := [root] } ≤ 1 + 2 * v.g.nodes.length + 2 * v.g.edges.length := by
  have h0 : W v [] v.g.nodes = (v.g.nodes.map (wt v)).sum := W_nil v _
  have h1 : (v.g.nodes.map (wt v)).sum ≤ (v.g.nodes.map fun a => (v.g.succ a).length + 2).sum :=
    sum_map_le _ _ _ (fun a => by have := hb a; simp only [wt]; omega)
  have h2 := sum_map_add v.g.nodes (fun a => (v.g.succ a).length) (fun _ => 2)
  have h3 := sum_succ_le v.g.directed v.g.nodes hwf.1 v.g.edges
  have h4 := sum_map_const2 v.g.nodes
  simp only [Phi, h0, List.length_cons, List.length_nil]
  simp only [MGraph.succ] at h1 h2
  omega

theorem Phi_init_lt (v : View) (root : Nat) (hb : SuccBounded v) (hwf : v.g.WellFormed) :
    Phi v { stack := [root] } < postFuel v := by
  have := Phi_init v root hb hwf
  simp only [postFuel]
  omega

/-! ### putting the pieces together -/

theorem adj_mem_nodes {g : MGraph} (hwf : g.WellFormed) {a b : Nat} (h : g.Adj a b) :
    b ∈ g.nodes := by
  obtain ⟨e, he, h | h⟩ := h
  · exact h.2 ▸ (hwf.2 e he).2
  · exact h.2.1 ▸ (hwf.2 e he).1

theorem reach_mem_nodes {g : MGraph} (hwf : g.WellFormed) {root : Nat} (hroot : root ∈ g.nodes)
    {x : Nat} (h : Reach g root x) : x ∈ g.nodes := by
  induction h with
  | refl => exact hroot
  | step _ hadj _ => exact adj_mem_nodes hwf hadj

structure Inv (v : View) (root : Nat) (d : Post) : Prop where
  p : PInv v root d
  x : XInv v root d

theorem inv_init (v : View) (root : Nat) : Inv v root { stack := [root] } := by
  refine ⟨⟨by simp, by simp, by simp, by intro x hx; simp at hx; exact hx ▸ Reach.refl _,
     Or.inr (by simp), by simp, by simp⟩, ⟨?_, ?_, ?_, ?_⟩⟩
  · intro pre x suf h _ hxr
    change [root] = pre ++ x :: suf at h
    rcases List.cons_eq_append_iff.mp h with ⟨rfl, h'⟩ | ⟨as', rfl, h'⟩
    · simp only [List.cons.injEq] at h'
      exact absurd h'.1 hxr
    · simp at h'
  · intro l1 x l2 h
    change [] = l1 ++ x :: l2 at h
    simp at h
  · intro _
    exact ⟨[], rfl, by simp, Or.inr rfl⟩
  · intro h
    change root ∈ [] at h
    cases h

/-- one call of `postNext` with enough fuel -/
theorem postNext_total (v : View) (hv : ViewOk v) (hwf : v.g.WellFormed) (root : Nat)
    (hroot : root ∈ v.g.nodes) (inner : Nat) (d : Post) (inv : Inv v root d)
    (hlt : Phi v d < inner) :
    ∃ r d', postNext v inner d = some (r, d') ∧ Inv v root d' ∧
      ((r = none ∧ d'.stack = [] ∧ d'.fin = d.fin) ∨
        ∃ x, r = some x ∧ d'.fin = x :: d.fin ∧ Phi v d' < Phi v d) := by
  obtain ⟨r, d', hn⟩ := postNext_term v (Inv v root) (Phi v)
    (fun d x st hP hst hnd =>
      ⟨⟨pinv_disc hv hP.p hst hnd, xinv_disc hv hP.p hP.x hst hnd⟩,
        Phi_disc hst (reach_mem_nodes hwf hroot (hP.p.stackReach x (by simp [hst]))) hnd⟩)
    (fun d x st hP hst hd hf =>
      ⟨⟨pinv_skip hP.p hst hd hf, xinv_skip hP.x hst hf⟩, Phi_skip hst⟩)
    inner d inv hlt
  refine ⟨r, d', hn, ?_⟩
  obtain ⟨d0, ⟨hI, hle, hfin⟩, hres⟩ := postNext_run v
    (fun d0 => Inv v root d0 ∧ Phi v d0 ≤ Phi v d ∧ d0.fin = d.fin)
    (fun d1 x st hP hst hnd =>
      ⟨⟨pinv_disc hv hP.1.p hst hnd, xinv_disc hv hP.1.p hP.1.x hst hnd⟩,
        Nat.le_trans (Nat.le_of_lt (Phi_disc hst
          (reach_mem_nodes hwf hroot (hP.1.p.stackReach x (by simp [hst]))) hnd)) hP.2.1,
        hP.2.2⟩)
    (fun d1 x st hP hst hd hf =>
      ⟨⟨pinv_skip hP.1.p hst hd hf, xinv_skip hP.1.x hst hf⟩,
        Nat.le_trans (Nat.le_of_lt (Phi_skip hst)) hP.2.1, hP.2.2⟩)
    inner d d' r ⟨inv, Nat.le_refl _, rfl⟩ hn
  rcases hres with ⟨rfl, hst, rfl⟩ | ⟨x, st, rfl, hst, hd, hnf, rfl⟩
  · exact ⟨hI, Or.inl ⟨rfl, hst, hfin⟩⟩
  · refine ⟨⟨pinv_emit hI.p hst hd hnf, xinv_emit hI.x hst hd hnf⟩, Or.inr ⟨x, rfl, ?_, ?_⟩⟩
    · show x :: d0.fin = x :: d.fin
      rw [hfin]
    · exact Nat.lt_of_lt_of_le (Phi_emit hst) hle

/-- the collected run with enough inner and outer fuel -/
theorem postOrderFrom_total (v : View) (hv : ViewOk v) (hwf : v.g.WellFormed) (root : Nat)
    (hroot : root ∈ v.g.nodes) (inner : Nat) :
    ∀ (k : Nat) (d : Post) (acc : List Nat), Inv v root d → acc.reverse = d.fin →
      Phi v d < inner → Phi v d < k →
      ∃ post d', postOrderFrom v inner k d acc = some post ∧ Inv v root d' ∧ d'.stack = [] ∧
        post.reverse = d'.fin := by
  intro k
  induction k with
  | zero => intro d acc _ _ _ h; omega
  | succ k ih =>
    intro d acc inv hacc hin hk
    obtain ⟨r, d', hn, inv', hres⟩ := postNext_total v hv hwf root hroot inner d inv hin
    rcases hres with ⟨rfl, hst, hfin⟩ | ⟨x, rfl, hfin, hlt⟩
    · refine ⟨acc, d', ?_, inv', hst, by rw [hacc, hfin]⟩
      simp only [postOrderFrom, hn]
    · obtain ⟨post, d'', h1, h2, h3, h4⟩ := ih d' (acc ++ [x]) inv'
        (by rw [hfin, ← hacc]; simp) (by omega) (by omega)
      refine ⟨post, d'', ?_, h2, h3, h4⟩
      simp only [postOrderFrom, hn]
      exact h1

end PetgraphModel.C16P.W2Post

namespace PetgraphModel.C16P
open PetgraphModel MGraph C16M PetgraphModel.Trav

/-- the `DfsPostOrder` run of `simple_fast` terminates within the model's fuel, ends with the root,
and every other emitted node has a graph predecessor that is emitted later -/
theorem postOrder_total (v : View) (root : Nat) (hv : ViewOk v) (hb : SuccBounded v)
    (hwf : v.g.WellFormed) (hroot : root ∈ v.g.nodes) :
    ∃ post, postOrderFrom v (postFuel v) (postFuel v + 4) { stack := [root] } [] = some post ∧
      post.getLast? = some root ∧
      ∀ x ∈ post, x ≠ root → ∃ p ∈ post, v.g.Adj p x ∧ post.idxOf x < post.idxOf p := by
  have hΦ := W2Post.Phi_init_lt v root hb hwf
  obtain ⟨post, d', hrun, inv, hst, hpost⟩ :=
    W2Post.postOrderFrom_total v hv hwf root hroot (postFuel v) (postFuel v + 4)
      { stack := [root] } [] (W2Post.inv_init v root) rfl hΦ (by omega)
  have hpost' : post = d'.fin.reverse := by rw [← hpost, List.reverse_reverse]
  -- with an empty stack, everything discovered is finished
  have hfin : ∀ y, y ∈ d'.disc → y ∈ d'.fin := by
    intro y hy
    rcases inv.p.pending y hy with h | h
    · exact h
    · rw [hst] at h; cases h
  have hrootfin : root ∈ d'.fin := by
    rcases inv.p.start with h | h
    · exact hfin root h
    · rw [hst] at h; cases h
  refine ⟨post, hrun, ?_, ?_⟩
  · rw [hpost', List.getLast?_reverse]
    exact (inv.x.R2 hrootfin).2
  · intro x hx hxr
    have hx' : x ∈ d'.fin := by rw [hpost'] at hx; simpa using hx
    obtain ⟨l1, l2, hsplit⟩ := List.mem_iff_append.mp hx'
    obtain ⟨p, hadj, hpd, hpn⟩ := inv.x.F l1 x l2 hsplit hxr
    have hpf := hfin p hpd
    refine ⟨p, by rw [hpost']; simpa using hpf, hadj, ?_⟩
    have hpx : p ≠ x := fun h => hpn (h ▸ List.mem_cons_self ..)
    have hpl2 : p ∉ l2 := fun h => hpn (List.mem_cons_of_mem _ h)
    have hform : post = l2.reverse ++ x :: l1.reverse := by
      rw [hpost', hsplit]; simp
    have h1 : post.idxOf x ≤ l2.length := by
      rw [hform, List.idxOf_append]
      split
      · rename_i h
        have := List.idxOf_lt_length_of_mem h
        simp only [List.length_reverse] at this
        omega
      · simp
    have h2 : l2.length < post.idxOf p := by
      rw [hform, List.idxOf_append]
      have : p ∉ l2.reverse := by simpa using hpl2
      simp only [this, if_false, List.idxOf_cons, List.length_reverse]
      have : (x == p) = false := by simpa using fun h => hpx h.symm
      simp only [this, cond_false]
      omega
    omega

end PetgraphModel.C16P
