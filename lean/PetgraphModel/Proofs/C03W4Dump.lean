import PetgraphModel.Spec.C03Dump
import PetgraphModel.Proofs.GraphMap
import PetgraphModel.Proofs.GraphMapJudge
/-
C03 (wave 4) — the dump-level checks.

* `dumpOkB_iff`  : the executable dump check decides `DumpOk` (graphs bounded by `k`, well-formed);
* `modelDump_ok` : the mirror model's dump satisfies `DumpOk` in every state that satisfies the
  invariant — in particular the compact numbering is a bijection that agrees with the iterators and
  `rev`/`last`/`nth` agree with the forward sequences.
-/
namespace PetgraphModel.C03W4
open PetgraphModel PetgraphModel.GM PetgraphModel.SimpleGraphSpec PetgraphModel.C03Dump
open PetgraphModel.GMProofs PetgraphModel.GMJudge

/-! ### `allSomes`, `InverseOn`, `allIdx` -/

theorem allSomes_eq_some {α : Type} : ∀ (l : List (Option α)) (r : List α), allSomes l = some r ↔ l = r.map some
  | [], r => by cases r <;> simp [allSomes]
  | none :: t, r => by cases r <;> simp [allSomes]
  | some x :: t, r => by
    cases r with
    | nil => simp [allSomes]
    | cons y r =>
      simp only [allSomes, Option.map_eq_some_iff, List.map_cons, List.cons.injEq, Option.some.injEq]
      constructor
      · rintro ⟨r', h1, h2, rfl⟩; exact ⟨h2, (allSomes_eq_some t r').1 h1⟩
      · rintro ⟨rfl, h⟩; exact ⟨r, (allSomes_eq_some t r).2 h, rfl, rfl⟩

theorem allSomes_map_some {α : Type} (r : List α) : allSomes (r.map some) = some r :=
  (allSomes_eq_some _ r).2 rfl

theorem zip_all_iff {α : Type} (P : α × Nat → Bool) : ∀ (ids : List α) (to : List Nat),
    (ids.zip to).all P = true ↔ ∀ (j : Nat) (x : α) (i : Nat), ids[j]? = some x → to[j]? = some i → P (x, i) = true
  | [], to => by simp
  | _ :: _, [] => by simp
  | a :: ids, b :: to => by
    simp only [List.zip_cons_cons, List.all_cons, Bool.and_eq_true, zip_all_iff P ids to]
    constructor
    · rintro ⟨h0, h⟩ j x i hx hi
      cases j with
      | zero => simp at hx hi; subst hx; subst hi; exact h0
      | succ j => exact h j x i (by simpa using hx) (by simpa using hi)
    · intro h
      exact ⟨h 0 a b rfl rfl, fun j x i hx hi => h (j + 1) x i (by simpa using hx) (by simpa using hi)⟩

theorem inverseOnB_iff {α : Type} [DecidableEq α] (ids : List α) (to : List Nat) (frm : List α) :
    inverseOnB ids to frm = true ↔ InverseOn ids to frm := by
  unfold inverseOnB InverseOn
  rw [Bool.and_eq_true, beq_iff_eq, zip_all_iff]
  simp only [beq_iff_eq]

theorem allIdx_iff {α : Type} (f : Nat → α → Bool) : ∀ (l : List α) (i : Nat),
    allIdx f i l = true ↔ ∀ (v : Nat) (x : α), l[v]? = some x → f (i + v) x = true
  | [], i => by simp [allIdx]
  | a :: l, i => by
    simp only [allIdx, Bool.and_eq_true, allIdx_iff f l (i + 1)]
    constructor
    · rintro ⟨h0, h⟩ v x hx
      cases v with
      | zero => simp at hx; subst hx; exact h0
      | succ v =>
        have := h v x (by simpa using hx)
        rwa [Nat.add_assoc, Nat.add_comm 1 v] at this
    · intro h
      refine ⟨h 0 a rfl, fun v x hx => ?_⟩
      have := h (v + 1) x (by simpa using hx)
      rwa [Nat.add_assoc, Nat.add_comm 1 v]

/-! ### the check decides `DumpOk` -/

theorem nodeCountOk_iff (g : SG) (k : Nat) (hb : g.Bounded k) (n : Nat) :
    NodeCountOk g n ↔ n = specNodeCount g k := by
  constructor
  · rintro ⟨l, hl, rfl⟩; exact nodesOk_length g k hb l hl
  · rintro rfl; exact ⟨_, nodesOk_spec g k hb, rfl⟩

theorem edgeCountOk_iff (g : SG) (k : Nat) (hb : g.Bounded k) (hw : g.WF) (n : Nat) :
    EdgeCountOk g n ↔ n = (specEdgeKeys g k).length := by
  constructor
  · rintro ⟨l, hl, rfl⟩; exact allEdgesOk_length g k hb hw l hl
  · rintro rfl; exact ⟨_, allEdgesOk_spec g k hb hw, by simp [specEdges]⟩

theorem optListB_iff {α : Type} (o : Option (List α)) (f : List α → Bool) (P : List α → Prop)
    (h : ∀ l, f l = true ↔ P l) : optListB o f = true ↔ ∃ l, o = some l ∧ P l := by
  cases o with
  | none => simp [optListB]
  | some l => simp [optListB, h]

theorem secOkB_iff (g : SG) (k : Nat) (hb : g.Bounded k) (v : Nat) (sec : NodeSec) :
    secOkB g k v sec = true ↔ SecOk g k v sec := by
  unfold secOkB
  simp only [Bool.and_eq_true, beq_iff_eq,
    optListB_iff _ _ _ (neighborsB_iff g k hb v .out), optListB_iff _ _ _ (neighborsB_iff g k hb v .inc),
    optListB_iff _ _ _ (edgesB_iff g k hb v .out), optListB_iff _ _ _ (edgesB_iff g k hb v .inc)]
  constructor
  · rintro ⟨⟨⟨⟨⟨⟨⟨⟨⟨h1, h2⟩, h3⟩, h4⟩, h5⟩, h6⟩, h7⟩, h8⟩, h9⟩, h10⟩
    exact ⟨h1, h2, h3, h4, h5, h6, h7, h8, h9, h10⟩
  · rintro ⟨h1, h2, h3, h4, h5, h6, h7, h8, h9, h10⟩
    exact ⟨⟨⟨⟨⟨⟨⟨⟨⟨h1, h2⟩, h3⟩, h4⟩, h5⟩, h6⟩, h7⟩, h8⟩, h9⟩, h10⟩

theorem nodeNumB_iff (g : SG) (k : Nat) (hb : g.Bounded k) (d : Dump) :
    nodeNumB g k d = true ↔
      ∃ nf ni, allSomes d.nf = some nf ∧ allSomes d.ni = some ni ∧ NodesOk g nf ∧ InverseOn d.nodes ni nf := by
  unfold nodeNumB
  cases h1 : allSomes d.nf <;> cases h2 : allSomes d.ni <;>
    simp [nodesB_iff g k hb, inverseOnB_iff]

theorem edgeNumB_iff (g : SG) (k : Nat) (hb : g.Bounded k) (hw : g.WF) (d : Dump) :
    edgeNumB g k d = true ↔
      ∃ ef ei, allSomes d.ef = some ef ∧ allSomes d.ei = some ei ∧ AllEdgesOk g (withWeights g ef) ∧
        InverseOn (d.edges.map edgeId) ei ef := by
  unfold edgeNumB
  cases h1 : allSomes d.ef <;> cases h2 : allSomes d.ei <;>
    simp [allEdgesB_iff g k hb hw, inverseOnB_iff]

/-- the executable dump check decides `DumpOk` -/
theorem dumpOkB_iff (g : SG) (k : Nat) (hb : g.Bounded k) (hw : g.WF) (d : Dump) :
    dumpOkB g k d = true ↔ DumpOk g k d := by
  unfold dumpOkB
  simp only [Bool.and_eq_true, beq_iff_eq, nodesB_iff g k hb, allEdgesB_iff g k hb hw, nodeNumB_iff g k hb,
    edgeNumB_iff g k hb hw, allIdx_iff, Nat.zero_add, secOkB_iff g k hb,
    ← nodeCountOk_iff g k hb, ← edgeCountOk_iff g k hb hw]
  constructor
  · rintro ⟨⟨⟨⟨⟨⟨⟨⟨⟨⟨⟨⟨⟨⟨⟨⟨⟨⟨⟨a1, a2⟩, a3⟩, a4⟩, a5⟩, a6⟩, a7⟩, a8⟩, a9⟩, a10⟩, a11⟩, a12⟩, a13⟩, a14⟩, a15⟩, a16⟩,
      a17⟩, a18⟩, a19⟩, a20⟩
    exact ⟨a1, a2, a3, a4, a5, a6, a7, a8, a9, a10, a11, a12, a13, a14, a15, a16, a17, a18, a19, a20⟩
  · rintro ⟨a1, a2, a3, a4, a5, a6, a7, a8, a9, a10, a11, a12, a13, a14, a15, a16, a17, a18, a19, a20⟩
    exact ⟨⟨⟨⟨⟨⟨⟨⟨⟨⟨⟨⟨⟨⟨⟨⟨⟨⟨⟨a1, a2⟩, a3⟩, a4⟩, a5⟩, a6⟩, a7⟩, a8⟩, a9⟩, a10⟩, a11⟩, a12⟩, a13⟩, a14⟩, a15⟩, a16⟩,
      a17⟩, a18⟩, a19⟩, a20⟩

/-! ### the compact numbering of the mirror model -/

section numbering
variable {κ ν : Type} [DecidableEq κ]

/-- in a map with distinct keys the key at position `j` has index `j` -/
theorem indexOf?_getElem (m : IMap κ ν) (hn : (IMap.keys m).Nodup) (j : Nat) (hj : j < m.length) :
    IMap.indexOf? m m[j].1 = some j := by
  rw [indexOf?_eq_some_iff m hn]
  simp [hj]

/-- `to_index` along the keys in order is `0, 1, 2, …` -/
theorem map_indexOf?_keys (m : IMap κ ν) (hn : (IMap.keys m).Nodup) :
    (IMap.keys m).map (fun x => IMap.indexOf? m x) = (List.range m.length).map some := by
  apply List.ext_getElem
  · simp [IMap.keys]
  · intro j h1 h2
    simp only [IMap.keys, List.length_map] at h1
    simp only [IMap.keys, List.getElem_map, List.getElem_range]
    exact indexOf?_getElem m hn j h1

omit [DecidableEq κ] in
/-- `from_index` along `0, 1, 2, …` is the keys in order -/
theorem map_getElem?_range (m : IMap κ ν) :
    (List.range m.length).map (fun i => m[i]?.map (·.1)) = (IMap.keys m).map some := by
  apply List.ext_getElem
  · simp [IMap.keys]
  · intro j h1 h2
    simp only [List.length_map, List.length_range] at h1
    simp [IMap.keys, h1]

theorem inverseOn_range {α : Type} (l : List α) : InverseOn l (List.range l.length) l := by
  refine ⟨by simp, ?_⟩
  intro j x i hx hi
  have hj : j < l.length := by
    cases Nat.lt_or_ge j l.length with
    | inl h => exact h
    | inr h => rw [List.getElem?_eq_none h] at hx; cases hx
  simp [hj] at hi
  subst hi; exact hx
end numbering

theorem allEdges_map_edgeId (s : State) : (allEdges s).map edgeId = IMap.keys s.edges := by
  simp [allEdges, edgeId, IMap.keys, List.map_map, Function.comp_def]

theorem withWeights_keys (s : State) (h : Inv s) : withWeights (abs s) (IMap.keys s.edges) = allEdges s := by
  unfold withWeights allEdges IMap.keys
  rw [List.map_map]
  apply List.map_congr_left
  intro e he
  obtain ⟨⟨a, b⟩, w⟩ := e
  have hg : IMap.get? s.edges (a, b) = some w := get?_of_mem _ h.edgesNodup _ _ he
  simp only [Function.comp, absw, canon_key s h a b (by simp [hg]), hg, Option.getD_some]

theorem allSome_edgesDirected (s : State) (h : Inv s) (a : Nat) (d : Dir) :
    allSome (edgesDirected s a d) = some (edgeTriples s a d) :=
  (allSome_iff _ _).2 (edgesDirected_eq s h a d)

theorem modelSec_ok (s : State) (h : Inv s) (k v : Nat) : SecOk (abs s) k v (modelSec s k v) where
  v_eq := rfl
  c := rfl
  nb := ⟨_, rfl, neighbors_ok s h v⟩
  nbO := ⟨_, rfl, neighborsDirected_ok s h v .out⟩
  nbI := ⟨_, rfl, neighborsDirected_ok s h v .inc⟩
  ed := ⟨_, by simp only [modelSec]; rw [edgesOf_eq s h]; exact allSome_edgesDirected s h v .out, edgeTriples_ok s h v .out⟩
  edO := ⟨_, allSome_edgesDirected s h v .out, edgeTriples_ok s h v .out⟩
  edI := ⟨_, allSome_edgesDirected s h v .inc, edgeTriples_ok s h v .inc⟩
  w := rfl
  adj := rfl

/-- the mirror model's dump satisfies every dump-level statement: the listings enumerate the abstract
graph, `from_index` enumerates nodes (edges) in iteration order over `0..count`, `to_index` is its
inverse on the ids the iterators hand out, `rev`/`last`/`nth` agree with the forward iteration. -/
theorem modelDump_ok (s : State) (h : Inv s) (k : Nat) : DumpOk (abs s) k (modelDumpS s k) where
  nc := ⟨nodesOf s, nodes_ok s h, by simp [modelDumpS, nodeCount, nodesOf_length]⟩
  nb := ⟨nodesOf s, nodes_ok s h, by simp [modelDumpS, nodeCount, nodesOf_length]⟩
  nlen := ⟨nodesOf s, nodes_ok s h, by simp [modelDumpS, nodeCount, nodesOf_length]⟩
  ec := ⟨allEdges s, allEdges_ok s h, by simp [modelDumpS, edgeCount, allEdges_length]⟩
  eb := ⟨allEdges s, allEdges_ok s h, by simp [modelDumpS, edgeCount, allEdges_length]⟩
  ecnt := ⟨allEdges s, allEdges_ok s h, by simp [modelDumpS, edgeCount, allEdges_length]⟩
  nodes := nodes_ok s h
  ids := nodes_ok s h
  refs := nodes_ok s h
  edges := allEdges_ok s h
  erefs := allEdges_ok s h
  nnum := by
    refine ⟨nodesOf s, List.range s.nodes.length, ?_, ?_, nodes_ok s h, ?_⟩
    · simp only [modelDumpS, nodesOf_length]
      rw [map_getElem?_range]; exact allSomes_map_some _
    · simp only [modelDumpS, nodesOf]
      rw [map_indexOf?_keys _ h.nodesNodup]; exact allSomes_map_some _
    · have := inverseOn_range (nodesOf s)
      rwa [nodesOf_length] at this
  enum := by
    refine ⟨IMap.keys s.edges, List.range s.edges.length, ?_, ?_, ?_, ?_⟩
    · simp only [modelDumpS, allEdges_length]
      rw [map_getElem?_range]; exact allSomes_map_some _
    · have : (allEdges s).map (fun e => IMap.indexOf? s.edges (edgeKey s.directed e.1 e.2.1)) =
          (IMap.keys s.edges).map (fun x => IMap.indexOf? s.edges x) := by
        simp only [allEdges, IMap.keys, List.map_map]
        apply List.map_congr_left
        intro e he
        have hg := get?_of_mem _ h.edgesNodup _ _ (show ((e.1.1, e.1.2), e.2) ∈ s.edges from he)
        simp only [Function.comp_def]
        rw [canon_key s h e.1.1 e.1.2 (by rw [hg]; rfl)]
      simp only [modelDumpS]
      rw [this, map_indexOf?_keys _ h.edgesNodup]; exact allSomes_map_some _
    · rw [withWeights_keys s h]; exact allEdges_ok s h
    · simp only [modelDumpS]
      rw [allEdges_map_edgeId]
      have := inverseOn_range (IMap.keys s.edges)
      simpa [IMap.keys] using this
  dir := rfl
  rnodes := rfl
  redges := rfl
  elast := rfl
  enth := rfl
  per_len := by simp [modelDumpS, univ]
  per := by
    intro v sec hv
    simp only [modelDumpS, univ, List.getElem?_map] at hv
    cases hr : (List.range k)[v]? with
    | none => simp [hr] at hv
    | some x =>
      have hx : x = v := by
        have := List.getElem?_eq_some_iff.1 hr
        obtain ⟨_, h2⟩ := this
        simpa using h2.symm
      subst hx
      simp [hr] at hv
      subst hv
      exact modelSec_ok s h k x

/-- hence the executable dump check accepts the mirror model's dump (abstract graph bounded by `k`) -/
theorem dumpOkB_model (s : State) (h : Inv s) (k : Nat) (hb : (abs s).Bounded k) :
    dumpOkB (abs s) k (modelDumpS s k) = true :=
  (dumpOkB_iff (abs s) k hb (abs_wf s h) _).2 (modelDump_ok s h k)

end PetgraphModel.C03W4
