import PetgraphModel.Proofs.C15W2JoinInv
import PetgraphModel.Proofs.C15W2AugFinal
/-
C15 wave 2 — one scanned edge of `gabowSearch` preserves the invariant of the search, or ends the
search with a valid, larger matching.
-/
namespace PetgraphModel.C15W2
open PetgraphModel PetgraphModel.C15 PetgraphModel.C15M PetgraphModel.C15P

section
variable {c : Ctx} {s : GS} {P : Nat → PL} {ord : List Nat}

/-- the mate `cm` of the scanned non-outer vertex `o` receives the label `Vertex(x)` -/
theorem vertexLabel_SInv (hv : VHyp c.v c.mode) (n0 : Nat) (hm : MateInv c.v c.m0 n0) (I : SInv c s P ord)
    (x o cm : Nat) (hx : x ∈ c.v.g.nodes) (hox : outerAt c s x = true) (ho : o ∈ c.v.g.nodes)
    (hoo : outerAt c s o = false) (hμ : c.μ o = some cm) (hocm : outerAt c s cm = false) (hJ : c.J o x) :
    ∃ P' ord', SInv c ((s.setLabel (c.v.toIndex cm) (Label.vertex x)).setFi (c.v.toIndex cm) (c.v.toIndex o)) P' ord' ∧
      (∀ y ∈ c.v.g.nodes, outerAt c s y = true →
        outerAt c ((s.setLabel (c.v.toIndex cm) (Label.vertex x)).setFi (c.v.toIndex cm) (c.v.toIndex o)) y = true) ∧
      outerAt c ((s.setLabel (c.v.toIndex cm) (Label.vertex x)).setFi (c.v.toIndex cm) (c.v.toIndex o)) cm = true := by
  have hcm : cm ∈ c.v.g.nodes := hm.mate_mem hμ
  have hcmi := hv.ix.lt cm hcm
  have hoi := hv.ix.lt o ho
  rw [setLabel_eq _ _ _ (by rw [I.labLen]; omega), setFi_eq _ _ _ (by simp [I.fiLen]; omega)]
  have hlab : ∀ y ∈ c.v.g.nodes, labI (s.label.set (c.v.toIndex cm) (Label.vertex x)) (c.v.toIndex y) =
      if y = cm then Label.vertex x else labI s.label (c.v.toIndex y) := by
    intro y hy
    rw [labI_set _ _ _ _ (by rw [I.labLen]; omega)]
    by_cases e : y = cm
    · subst e; simp
    · have : ¬ c.v.toIndex cm = c.v.toIndex y := fun h => e (hv.ix.inj y hy cm hcm h.symm)
      simp [e, this]
  have hfi : ∀ y ∈ c.v.g.nodes, y ≠ cm → fiI (s.fi.set (c.v.toIndex cm) (c.v.toIndex o)) (c.v.toIndex y) =
      fiI s.fi (c.v.toIndex y) := by
    intro y hy e
    rw [fiI_set _ _ _ _ (by rw [I.fiLen]; omega)]
    have : ¬ c.v.toIndex cm = c.v.toIndex y := fun h => e (hv.ix.inj y hy cm hcm h.symm)
    simp [this]
  have hA' := AInv.vertexStep c n0 hm (absOf c s.label s.fi P ord)
    (absOf c (s.label.set (c.v.toIndex cm) (Label.vertex x)) (s.fi.set (c.v.toIndex cm) (c.v.toIndex o))
      (upd P cm ((cm, o) :: P x)) (ord ++ [cm]))
    I.abs x o cm hx hox ho hoo hμ hocm hJ hlab hfi
    (by show fiI (s.fi.set _ _) _ = _; rw [fiI_set _ _ _ _ (by rw [I.fiLen]; omega)]; simp)
    (fun y hy => upd_other P cm y _ hy) (upd_same P cm _) rfl
  have hmono : ∀ y ∈ c.v.g.nodes, outerAt c s y = true →
      outerAt c ({ s with label := s.label.set (c.v.toIndex cm) (Label.vertex x),
                          fi := s.fi.set (c.v.toIndex cm) (c.v.toIndex o) } : GS) y = true := by
    intro y hy hoy
    show (labI (s.label.set _ _) (c.v.toIndex y)).isOuter = true
    rw [hlab y hy]
    by_cases e : y = cm
    · simp [e, Label.isOuter]
    · simp [e]; exact hoy
  refine ⟨_, _, ⟨I.mate, I.fault, by simp [I.labLen], by simp [I.fiLen], hA', ?_, ?_, ?_⟩, hmono, ?_⟩
  · show (labI (s.label.set _ _) c.v.nb).isOuter = false
    rw [labI_set _ _ _ _ (by rw [I.labLen]; omega), if_neg (by omega)]
    exact I.dummyLab
  · intro i hi
    show fiI (s.fi.set _ _) i ≤ c.v.nb
    rw [fiI_set _ _ _ _ (by rw [I.fiLen]; omega)]
    by_cases e : c.v.toIndex cm = i
    · rw [if_pos e]; omega
    · rw [if_neg e]
      have : (labI (s.label.set (c.v.toIndex cm) (Label.vertex x)) i).isOuter = true := hi
      rw [labI_set _ _ _ _ (by rw [I.labLen]; omega), if_neg e] at this
      exact I.fiBound i this
  · intro i k' hi
    have hi' : labI (s.label.set (c.v.toIndex cm) (Label.vertex x)) i = Label.flag k' := hi
    rw [labI_set _ _ _ _ (by rw [I.labLen]; omega)] at hi'
    by_cases e : c.v.toIndex cm = i
    · rw [if_pos e] at hi'; cases hi'
    · rw [if_neg e] at hi'
      obtain ⟨a', b', eid', h1, h2, h3, h4, h5⟩ := I.flags i k' hi'
      obtain ⟨ha'n, hb'n, _⟩ := hv.out a' b' eid' h1
      have ha'c : a' ≠ cm := fun h => by
        have : outerAt c s a' = true := h3
        rw [h, hocm] at this; cases this
      have hb'c : b' ≠ cm := fun h => by
        have : outerAt c s b' = true := h4
        rw [h, hocm] at this; cases this
      refine ⟨a', b', eid', h1, h2, hmono a' ha'n h3, hmono b' hb'n h4, ?_⟩
      show fiI (s.fi.set _ _) _ = fiI (s.fi.set _ _) _
      rw [hfi a' ha'n ha'c, hfi b' hb'n hb'c]
      exact h5
  · show (labI (s.label.set _ _) (c.v.toIndex cm)).isOuter = true
    rw [hlab cm hcm]; simp [Label.isOuter]

end

/-- the search is still running: the state satisfies the invariant, the queue holds outer vertices -/
def ScanOpen (c : Ctx) (n0 : Nat) (x : Nat) (st : SSt) : Prop :=
  st.2.2.2.2 = false ∧ st.2.1 = n0 ∧ (∃ P ord, SInv c st.1 P ord) ∧
  (∀ q ∈ st.2.2.1, q ∈ c.v.g.nodes → outerAt c st.1 q = true) ∧
  (x ∈ c.v.g.nodes → outerAt c st.1 x = true)

/-- the search has augmented the matching -/
def ScanDone (c : Ctx) (n0 : Nat) (st : SSt) : Prop :=
  st.2.2.2.2 = true ∧ st.2.1 = n0 + 1 ∧ st.1.fault = false ∧ MateInv c.v st.1.mate (n0 + 1) ∧
  st.1.label.length = c.v.nb + 1 ∧ st.1.fi.length = c.v.nb + 1

theorem pushCall_spec (c : Ctx) (s : GS) (calls : List Nat)
    (hcalls : ∀ q ∈ calls, q ∈ c.v.g.nodes → outerAt c s q = true) (init : List Nat × List Nat)
    (h0 : ∀ q ∈ init.1, q ∈ c.v.g.nodes → outerAt c s q = true) :
    ∀ q ∈ (forIn (m := Id) calls init (fun cc st => pure (pushCall cc st))).run.1,
      q ∈ c.v.g.nodes → outerAt c s q = true := by
  apply forIn_list_pure (fun (st : List Nat × List Nat) => ∀ q ∈ st.1, q ∈ c.v.g.nodes → outerAt c s q = true)
    (fun cc st => pushCall cc st) calls init h0
  intro cc hcc st hst
  unfold pushCall
  split
  · intro q hq hqn
    simp only [stepVal] at hq
    cases List.mem_append.mp hq with
    | inl h => exact hst q h hqn
    | inr h => simp at h; subst h; exact hcalls q hcc hqn
  · exact hst

section
variable {c : Ctx}

theorem scanStep_spec (hv : VHyp c.v c.mode) (n0 : Nat) (hm : MateInv c.v c.m0 n0)
    (x : Nat) (e : Nat × Nat) (he : e ∈ c.v.outOf x) (st : SSt) (hI : ScanOpen c n0 x st) :
    stepPost (ScanOpen c n0 x) (ScanDone c n0) (scanStep c.v c.mode c.sv x e st) := by
  obtain ⟨hdone, hn, ⟨P, ord, I⟩, hqueue, hxo⟩ := hI
  obtain ⟨other, eid⟩ := e
  obtain ⟨hxn, hon, hJ⟩ := hv.out x other eid he
  have hxo' := hxo hxn
  have hoi := hv.ix.lt other hon
  unfold scanStep
  rw [if_neg (by rw [I.fault]; simp)]
  by_cases hxe : (x == other) = true
  · rw [if_pos hxe]
    exact ⟨hdone, hn, ⟨P, ord, I⟩, hqueue, hxo⟩
  rw [if_neg hxe]
  have hne : x ≠ other := by simpa using hxe
  have hJ' : c.J x other := hJ hne
  simp only [getMate_eq st.1 (c.v.toIndex other) (by rw [I.mate, hm.len]; omega),
    getLabel_eq st.1 (c.v.toIndex other) (by rw [I.labLen]; omega), Bool.or_self, flt_false]
  have hmo : getM st.1.mate (c.v.toIndex other) = c.μ other := by rw [I.mate]; rfl
  rw [hmo]
  by_cases haug : ((c.μ other).isNone && other != c.sv) = true
  · -- an augmenting path
    rw [if_pos haug]
    simp only [Bool.and_eq_true, Option.isNone_iff_eq_none, bne_iff_ne, ne_eq] at haug
    have hval := augment_valid c hv (absOf c st.1.label st.1.fi P ord) I.abs n0 hm st.1.label
      (fun _ _ _ => rfl) x other hxn hxo' hon haug.1 haug.2 hJ'
      (st.1.setMate (c.v.toIndex other) (some x))
      (by rw [setMate_eq _ _ _ (by rw [I.mate, hm.len]; omega)]; show st.1.mate.set _ _ = _; rw [I.mate])
      (by rw [setMate_eq _ _ _ (by rw [I.mate, hm.len]; omega)])
      (by rw [setMate_eq _ _ _ (by rw [I.mate, hm.len]; omega)]; exact I.fault)
    refine ⟨rfl, by show st.2.1 + 1 = n0 + 1; rw [hn], hval.1, hval.2.2.2, ?_, ?_⟩
    · show (augmentPath _ _ _ _ _).label.length = _
      rw [hval.2.1, setMate_eq _ _ _ (by rw [I.mate, hm.len]; omega)]; exact I.labLen
    · show (augmentPath _ _ _ _ _).fi.length = _
      rw [hval.2.2.1, setMate_eq _ _ _ (by rw [I.mate, hm.len]; omega)]; exact I.fiLen
  rw [if_neg haug]
  by_cases hlo : (labI st.1.label (c.v.toIndex other)).isOuter = true
  · -- a blossom
    rw [if_pos hlo]
    obtain ⟨P', ord', I', hmono, hcalls⟩ := findJoin_SInv hv n0 hm I x other eid he hne hxo' hlo
    generalize findJoin c.v (edgeKey c.mode eid x other) x other st.1 = r at I' hmono hcalls ⊢
    obtain ⟨s', calls⟩ := r
    simp only []
    refine ⟨hdone, hn, ⟨P', ord', I'⟩, ?_, fun _ => hmono x hxn hxo'⟩
    exact pushCall_spec c s' calls (fun q hq _ => (hcalls q hq).2) _
      (fun q hq hqn => hmono q hqn (hqueue q hq hqn))
  rw [if_neg hlo]
  -- the mate of a non-outer vertex becomes outer
  have hlo' : outerAt c st.1 other = false := by unfold outerAt; simpa using hlo
  cases hmu : c.μ other with
  | none =>
    exfalso
    rw [hmu] at haug
    simp only [Option.isNone_none, Bool.true_and, bne_iff_ne, ne_eq, Decidable.not_not] at haug
    have hsvo := (I.abs.svFree (haug ▸ hon)).1
    have : outerAt c st.1 c.sv = true := hsvo
    rw [← haug, hlo'] at this; cases this
  | some cm =>
    have hcm : cm ∈ c.v.g.nodes := hm.mate_mem hmu
    have hcmi := hv.ix.lt cm hcm
    unfold scanElse
    simp only [getLabel_eq st.1 (c.v.toIndex cm) (by rw [I.labLen]; omega), flt_false]
    by_cases hlm : (!(labI st.1.label (c.v.toIndex cm)).isOuter) = true
    · rw [if_pos hlm]
      have hocm : outerAt c st.1 cm = false := by unfold outerAt; simpa using hlm
      obtain ⟨P', ord', I', hmono, hcmo⟩ := vertexLabel_SInv hv n0 hm I x other cm hxn hxo' hon hlo' hmu hocm
        (joined_symm hJ')
      split
      · refine ⟨hdone, hn, ⟨P', ord', I'⟩, ?_, fun _ => hmono x hxn hxo'⟩
        intro q hq hqn
        cases List.mem_append.mp hq with
        | inl h => exact hmono q hqn (hqueue q h hqn)
        | inr h => simp at h; subst h; exact hcmo
      · exact ⟨hdone, hn, ⟨P', ord', I'⟩, fun q hq hqn => hmono q hqn (hqueue q hq hqn), fun _ => hmono x hxn hxo'⟩
    · rw [if_neg hlm]
      have hocm : outerAt c st.1 cm = true := by unfold outerAt; simpa using hlm
      split
      · refine ⟨hdone, hn, ⟨P, ord, I⟩, ?_, hxo⟩
        intro q hq hqn
        cases List.mem_append.mp hq with
        | inl h => exact hqueue q h hqn
        | inr h => simp at h; subst h; exact hocm
      · exact ⟨hdone, hn, ⟨P, ord, I⟩, hqueue, hxo⟩

end

end PetgraphModel.C15W2
