import PetgraphModel.Proofs.C17W3Stable
import PetgraphModel.Proofs.SerdeTrip
import PetgraphModel.Proofs.StableGraphRefine
import PetgraphModel.Proofs.StableGraphBulk
import PetgraphModel.Proofs.StableGraphHistory
/-
Helper lemmas for C17, wave 3 (part 2): `SameObs` (the order-independent observables of the serde model) is
equality of the reference multigraphs of C02 (`SGSpec.Spec.equiv` of the abstractions of the embedded states).
-/
namespace PetgraphModel.SerdeProofs
open PetgraphModel PetgraphModel.Serde

theorem mem_enum_filterMap {α β} (f : α → Option β) (l : List α) : ∀ (j i : Nat) (b : β),
    (i, b) ∈ (enumFrom j l).filterMap (fun (x : Nat × α) => (f x.2).map fun b => (x.1, b)) ↔
      j ≤ i ∧ ∃ a, l[i - j]? = some a ∧ f a = some b := by
  induction l with
  | nil => intro j i b; simp [enumFrom]
  | cons x xs ih =>
    intro j i b
    have key : (i, b) ∈ (enumFrom j (x :: xs)).filterMap (fun (x : Nat × α) => (f x.2).map fun b => (x.1, b)) ↔
        (i = j ∧ f x = some b) ∨ (j + 1 ≤ i ∧ ∃ a, xs[i - (j + 1)]? = some a ∧ f a = some b) := by
      simp only [enumFrom, List.filterMap_cons]
      cases hfx : f x with
      | none => simp [ih]
      | some y =>
        simp only [Option.map_some, List.mem_cons, Prod.mk.injEq, ih]
        constructor
        · rintro (⟨h1, h2⟩ | h)
          · exact Or.inl ⟨h1, by rw [h2]⟩
          · exact Or.inr h
        · rintro (⟨h1, h2⟩ | h)
          · exact Or.inl ⟨h1, by simpa using h2.symm⟩
          · exact Or.inr h
    refine key.trans ?_
    constructor
    · rintro (⟨rfl, h⟩ | ⟨h1, a, h2, h3⟩)
      · exact ⟨Nat.le_refl _, x, by simp, h⟩
      · refine ⟨by omega, a, ?_, h3⟩
        have : i - j = (i - (j + 1)) + 1 := by omega
        rw [this, List.getElem?_cons_succ]; exact h2
    · rintro ⟨h1, a, h2, h3⟩
      by_cases hij : i = j
      · subst hij
        simp at h2; subst h2
        exact Or.inl ⟨rfl, h3⟩
      · refine Or.inr ⟨by omega, a, ?_, h3⟩
        have : i - j = (i - (j + 1)) + 1 := by omega
        rw [this, List.getElem?_cons_succ] at h2; exact h2

theorem mem_liveNodes (g : Raw) (i : Nat) (w : Int) :
    (i, w) ∈ liveNodes g ↔ ∃ n, g.nodes[i]? = some n ∧ n.w = some w := by
  have := mem_enum_filterMap (fun (n : NodeSlot) => n.w) g.nodes 0 i w
  simpa [liveNodes] using this

theorem mem_liveEdges (g : Raw) (i a b : Nat) (w : Int) :
    (i, a, b, w) ∈ liveEdges g ↔ ∃ e, g.edges[i]? = some e ∧ e.w = some w ∧ e.src = a ∧ e.tgt = b := by
  have h := mem_enum_filterMap (fun (e : EdgeSlot) => e.w.map fun w => (e.src, e.tgt, w)) g.edges 0 i (a, b, w)
  have e : liveEdges g = (enumFrom 0 g.edges).filterMap
      (fun (x : Nat × EdgeSlot) => (x.2.w.map fun w => (x.2.src, x.2.tgt, w)).map fun b => (x.1, b)) := by
    unfold liveEdges
    congr 1
    funext x
    obtain ⟨i, e⟩ := x
    cases hw : e.w <;> simp [hw]
  rw [e, h]
  simp only [Nat.zero_le, Nat.sub_zero, true_and]
  constructor
  · rintro ⟨e, h1, h2⟩
    cases hw : e.w with
    | none => simp [hw] at h2
    | some x => simp [hw] at h2; exact ⟨e, h1, by rw [hw, h2.2.2], h2.1, h2.2.1⟩
  · rintro ⟨e, h1, h2, h3, h4⟩
    exact ⟨e, h1, by simp [h2, h3, h4]⟩

theorem opt_ext {α} {a b : Option α} (h : ∀ x, a = some x ↔ b = some x) : a = b := by
  cases a with
  | none =>
    cases b with
    | none => rfl
    | some y => exact ((h y).2 rfl).symm ▸ rfl
  | some x => exact ((h x).1 rfl).symm

theorem abs_embed_node (noLimit debug : Bool) (s : Stable) (i : Nat) (w : Int) :
    (SGProofs.abs (embedStable noLimit debug s)).node i = some w ↔ (i, w) ∈ liveNodes s.g := by
  rw [mem_liveNodes]
  unfold SGSpec.Spec.node
  rw [SGProofs.abs_nodes]
  simp only [embedStable, List.map_map, List.getElem?_map]
  cases hn : s.g.nodes[i]? with
  | none => simp
  | some n => simp [embN]

theorem abs_embed_edge (noLimit debug : Bool) (s : Stable) (i : Nat) (y : SGSpec.SEdge) :
    (SGProofs.abs (embedStable noLimit debug s)).edge i = some y ↔ (i, y.a, y.b, y.w) ∈ liveEdges s.g := by
  rw [mem_liveEdges]
  unfold SGSpec.Spec.edge
  rw [SGProofs.abs_edges]
  simp only [embedStable, List.map_map, List.getElem?_map]
  cases hn : s.g.edges[i]? with
  | none => simp
  | some e =>
    obtain ⟨ya, yb, yw⟩ := y
    cases hw : e.w with
    | none => simp [embE, SGProofs.absEdge, hw]
    | some x =>
      simp only [Option.map_some, Function.comp, embE, SGProofs.absEdge, hw, Option.join_some, Option.some.injEq,
        SGSpec.SEdge.mk.injEq, exists_eq_left']
      constructor
      · rintro ⟨h1, h2, h3⟩; exact ⟨h3, h1, h2⟩
      · rintro ⟨h1, h2, h3⟩; exact ⟨h2, h3, h1⟩

/-- identical order-independent observables = the same reference multigraph of C02 -/
theorem sameObs_equiv (nl dbg nl' dbg' : Bool) (s s' : Stable) (hd : s'.g.directed = s.g.directed)
    (O : SameObs s.g s'.g) :
    (SGProofs.abs (embedStable nl' dbg' s')).equiv (SGProofs.abs (embedStable nl dbg s)) := by
  refine ⟨hd, fun i => opt_ext fun w => ?_, fun e => opt_ext fun y => ?_⟩
  · rw [abs_embed_node, abs_embed_node, O.nodes]
  · rw [abs_embed_edge, abs_embed_edge, O.edges]

/-- the index type does not change along a history -/
theorem run_fin : ∀ (ops : List SG.Op) {s s' : SG.State} {outs : List SG.Out}, SGProofs.Inv s →
    SG.run s ops = .ok (s', outs) → s'.fin = s.fin := by
  intro ops
  induction ops with
  | nil =>
    intro s s' outs _ h
    simp only [SG.run, Except.ok.injEq, Prod.mk.injEq] at h
    rw [← h.1]
  | cons op ops ih =>
    intro s s' outs hinv h
    obtain ⟨s1, o, h1, hinv1⟩ := SGProofs.step_inv_all hinv op
    simp only [SG.run, h1] at h
    cases h2 : SG.run s1 ops with
    | error x => simp [h2] at h
    | ok p =>
      obtain ⟨s2, os⟩ := p
      simp only [h2, Except.ok.injEq, Prod.mk.injEq] at h
      rw [← h.1, ih hinv1 h2, SGProofs.step_fin hinv h1]

end PetgraphModel.SerdeProofs
