import PetgraphModel.Model.C20W4DsaturBin
import PetgraphModel.Proofs.C20W3Dsatur
import PetgraphModel.Proofs.C20W3Oracles
/-
C20 (wave 4) — the exact mirror of `dsatur_coloring` (`Model/C20W4DsaturBin.lean`, the one the driver
compares with /repo) is tied to the order-abstract heap model the wave-3 theorems are about:

* `traceOracle_valid`: replaying ANY trace is a valid tie-breaking oracle;
* `checkB_sound`: an accepted run of the exact mirror is the run of `DsaturHeap.dsatur` for a valid oracle;
* `checkB_model` / `checkB_model_of_hypsB`: hence `DsaturHeap.dsatur_heap_model` applies to the very
  answer that is compared with the implementation.

Further (`Proofs/C20W4DsaturBinHeap.lean`, `Proofs/C20W4DsaturBinTotal.lean`): the binary heap keeps its
contents and the heap order, `pop` returns an entry of maximal score (`pop_heap`), and `checkB` never
fails on a view whose neighbour lists are rearrangements of the abstract ones (`checkB_complete`,
`run_model`).
-/
namespace PetgraphModel.C20.DsaturBin
open PetgraphModel PetgraphModel.MGraph PetgraphModel.C20
open PetgraphModel.C20.DsaturHeap (Entry keyLe)

/-- replaying a trace is a valid heap, whatever the trace is -/
theorem traceOracle_valid (trace : List Entry) : (traceOracle trace).Valid := by
  intro t q hq
  simp only [traceOracle]
  split
  · rename_i h
    simp only [Bool.and_eq_true, List.contains_iff_mem, List.all_eq_true] at h
    exact ⟨h.1, h.2⟩
  · exact DsaturHeap.firstMax_valid t q hq

/-- an accepted concrete run IS a run of the order-abstract model for a valid oracle -/
theorem checkB_sound (v : View) (h : checkB v = true) :
    ∃ col k trace, run v = some (col, k, trace) ∧ (traceOracle trace).Valid ∧
      DsaturHeap.dsatur v.g (traceOracle trace) (DsaturHeap.fuelBound v.g) = some (col, k) := by
  unfold checkB at h
  split at h
  · exact absurd h (by simp)
  · rename_i col k trace hr
    exact ⟨col, k, trace, hr, traceOracle_valid trace, of_decide_eq_true h⟩

theorem undirectedB_sound (g : MGraph) (h : undirectedB g = true) : g.directed = false := by
  simpa [undirectedB] using h

theorem endpointsOkB_sound (g : MGraph) (h : endpointsOkB g = true) : EndpointsOk g := by
  intro e he
  simp only [endpointsOkB, List.all_eq_true, Bool.and_eq_true, List.contains_iff_mem] at h
  exact h e he

theorem nodupB_sound (g : MGraph) (h : nodupB g = true) : g.nodes.Nodup := of_decide_eq_true h

theorem hypsB_sound (g : MGraph) (h : hypsB g = true) :
    g.directed = false ∧ EndpointsOk g ∧ g.nodes.Nodup := by
  simp only [hypsB, Bool.and_eq_true] at h
  exact ⟨undirectedB_sound g h.1.1, endpointsOkB_sound g h.1.2, nodupB_sound g h.2⟩

/-- **what is proved of the answer the driver compares with /repo**: on an undirected graph without
dangling edges and with a duplicate-free node list, an accepted run of the exact mirror returns the
greedy colouring along a duplicate-free order of all nodes that respects the saturation rule, `k` is
its colour count, the clauses of the judge hold and `k ≤ 2` on bipartite graphs. -/
theorem checkB_model (v : View) (hd : v.g.directed = false) (hg : EndpointsOk v.g) (hnd : v.g.nodes.Nodup)
    (h : checkB v = true) :
    ∃ col k trace order, run v = some (col, k, trace) ∧
      order.Nodup ∧ (∀ x, x ∈ order ↔ x ∈ v.g.nodes) ∧
      col = Dsatur.greedy v.g order ∧ k = Dsatur.count col ∧ DsaturHeap.SatRespecting v.g order ∧
      (v.g.nodes ≠ [] → ColouringOk v.g col k) ∧ (Bipartite v.g → k ≤ 2) := by
  obtain ⟨col, k, trace, hr, hv, hm⟩ := checkB_sound v h
  obtain ⟨col', k', order, hm', h1, h2, h3, h4, h5, h6, h7⟩ :=
    DsaturHeap.dsatur_heap_model v.g hd hg hnd (traceOracle trace) hv _ (Nat.le_refl _)
  rw [hm] at hm'
  obtain ⟨rfl, rfl⟩ : col = col' ∧ k = k' := by simpa using hm'
  exact ⟨col, k, trace, order, hr, h1, h2, h3, h4, h5, h6, h7⟩

/-- the same from the Boolean checks the driver evaluates -/
theorem checkB_model_of_hypsB (v : View) (hh : hypsB v.g = true) (h : checkB v = true) :
    ∃ col k trace order, run v = some (col, k, trace) ∧
      order.Nodup ∧ (∀ x, x ∈ order ↔ x ∈ v.g.nodes) ∧
      col = Dsatur.greedy v.g order ∧ k = Dsatur.count col ∧ DsaturHeap.SatRespecting v.g order ∧
      (v.g.nodes ≠ [] → ColouringOk v.g col k) ∧ (Bipartite v.g → k ≤ 2) := by
  obtain ⟨hd, hg, hnd⟩ := hypsB_sound v.g hh
  exact checkB_model v hd hg hnd h

end PetgraphModel.C20.DsaturBin
