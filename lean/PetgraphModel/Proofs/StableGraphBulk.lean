import PetgraphModel.Proofs.StableGraph
/-
C02 helper lemmas, part 3: the bulk calls — `extend_with_edges` (`ensure_node_exists`), `filter_map`, and the
round trip through `Graph`.
-/
namespace PetgraphModel.SGProofs
open PetgraphModel PetgraphModel.SG

/-! ### `add_vacant_node` -/

/-- `add_vacant_node(&mut free)` appends a vacant slot and makes it the head of the free list `fn` -/
theorem addVacantNode_spec {s : State} {d : Option Nat} {fn fe : Nat} (hinv : InvG s d fn fe)
    (hlt : s.nodes.length < s.fin) :
    ∃ s1, addVacantNode s fn = .ok (some (s1, s.nodes.length)) ∧ InvG s1 d s.nodes.length fe ∧
      s1 = { s with nodes := s1.nodes } ∧ s1.nodes.length = s.nodes.length + 1 ∧
      (∀ (i : Nat) (n : Node), s.nodes[i]? = some n → ∃ n', s1.nodes[i]? = some n' ∧ n'.w = n.w ∧ (Act d i n → n' = n)) ∧
      (∃ nv, s1.nodes[s.nodes.length]? = some nv ∧ nv.w = none) := by
  obtain ⟨l, hl, hmem, hb⟩ := hinv.freeN
  have hcp : canPush s s.nodes.length = true := by
    unfold canPush mkIx
    by_cases hn : s.noLimit
    · simp [hn, hlt]
    · simp [hn]; rw [Nat.mod_eq_of_lt (by omega)]; omega
  obtain ⟨_, hix⟩ := canPush_spec hcp hinv.lenN
  let idx := s.nodes.length
  have hfn : fn = s.fin ∨ fn ∈ l := hl.head_mem_or_fin
  have hfnlt : fn ≠ s.fin → fn < s.nodes.length := by
    intro h
    obtain ⟨n, hn, _⟩ := (hmem fn).1 (hfn.resolve_left h)
    exact (List.getElem?_eq_some_iff.1 hn).1
  -- slot-by-slot description of the new array
  let upd : Nat → Node → Node := fun i m => if i = fn then { m with n1 := idx } else m
  let nv : Node := { w := none, n0 := fn, n1 := s.fin }
  obtain ⟨nodes2, hrun, hlen2, hpt, hnew⟩ : ∃ nodes2, addVacantNode s fn = .ok (some ({ s with nodes := nodes2 }, idx)) ∧
      nodes2.length = s.nodes.length + 1 ∧
      (∀ (i : Nat) (m : Node), s.nodes[i]? = some m → nodes2[i]? = some (upd i m)) ∧ nodes2[idx]? = some nv := by
    have h0 : (s.nodes ++ [({ w := none, n0 := s.fin, n1 := s.fin } : Node)])[s.nodes.length]? = some { w := none, n0 := s.fin, n1 := s.fin } :=
      List.getElem?_concat_length
    simp only [addVacantNode, pushNode, hcp, if_true, hix, modifyNode, h0]
    by_cases hf : fn = s.fin
    · simp only [hf, ne_eq, not_true_eq_false, if_false]
      refine ⟨_, rfl, by simp, fun i m hm => ?_, ?_⟩
      · have hil : i < s.nodes.length := (List.getElem?_eq_some_iff.1 hm).1
        have hne : i ≠ s.fin := by have := hinv.lenN; omega
        have hne2 : s.nodes.length ≠ i := by omega
        simp only [List.getElem?_set, hne2, if_false, upd, hf, hne]
        rw [List.getElem?_append_left hil]; exact hm
      · simp [List.getElem?_set, nv, hf, idx]
    · have hfl := hfnlt hf
      obtain ⟨nf, hnf⟩ : ∃ nf, s.nodes[fn]? = some nf := ⟨_, List.getElem?_eq_getElem hfl⟩
      have hne0 : s.nodes.length ≠ fn := by omega
      simp only [ne_eq, hf, not_false_eq_true, if_true]
      rw [List.getElem?_set_ne hne0, List.getElem?_append_left hfl, hnf]
      refine ⟨_, rfl, by simp, fun i m hm => ?_, ?_⟩
      · have hil : i < s.nodes.length := (List.getElem?_eq_some_iff.1 hm).1
        have hne2 : s.nodes.length ≠ i := by omega
        simp only [List.getElem?_set, List.length_set, List.length_append, List.length_cons, List.length_nil, upd]
        by_cases hif : i = fn
        · subst hif
          rw [hnf] at hm; cases hm
          simp [hil]; omega
        · have : fn ≠ i := fun h => hif h.symm
          simp only [this, if_false, hne2, hif]
          rw [List.getElem?_append_left hil]; exact hm
      · simp only [List.getElem?_set, List.length_set, List.length_append, List.length_cons, List.length_nil]
        have : fn ≠ idx := by omega
        simp [this, nv, idx]
  have hw2 : ∀ (i : Nat) (m : Node), (upd i m).w = m.w := by
    intro i m; simp only [upd]; split <;> rfl
  have hrev : ∀ (i : Nat) (m2 : Node), nodes2[i]? = some m2 →
      (i = idx ∧ m2 = nv) ∨ (∃ m, s.nodes[i]? = some m ∧ m2 = upd i m) := by
    intro i m2 hm2
    have hi : i < s.nodes.length + 1 := hlen2 ▸ (List.getElem?_eq_some_iff.1 hm2).1
    by_cases hii : i = idx
    · subst hii; rw [hnew] at hm2; cases hm2; exact .inl ⟨rfl, rfl⟩
    · have hi' : i < s.nodes.length := by omega
      have := hpt i _ (List.getElem?_eq_getElem hi')
      rw [hm2] at this; cases this
      exact .inr ⟨_, List.getElem?_eq_getElem hi', rfl⟩
  have hact_same : ∀ (i : Nat) (m : Node), s.nodes[i]? = some m → Act d i m → upd i m = m := by
    intro i m hm hact
    have : i ≠ fn := by
      rintro rfl
      rcases hfn with h | h
      · have := (List.getElem?_eq_some_iff.1 hm).1; have := hinv.lenN; omega
      · obtain ⟨m', hm', hv, hd⟩ := (hmem i).1 h
        rw [hm] at hm'; cases hm'
        unfold Act at hact; rw [hv] at hact; simp at hact; exact hd hact
    simp [upd, this]
  have hdidx : d ≠ some idx := by
    intro hd
    obtain ⟨n, hn, _⟩ := hinv.det idx hd
    have := (List.getElem?_eq_some_iff.1 hn).1; omega
  refine ⟨{ s with nodes := nodes2 }, hrun, ?_, rfl, hlen2, ?_, ⟨nv, hnew, rfl⟩⟩
  · refine ⟨by show nodes2.length ≤ s.fin; omega, hinv.lenE, hinv.vacE, ?_, ?_, hinv.freeE, ?_, ?_, ?_, hinv.cntE⟩
    · intro e x hx hxl k hk
      obtain ⟨m, hm, hact⟩ := hinv.endp e x hx hxl k hk
      exact ⟨_, hpt _ m hm, by unfold Act at hact ⊢; rw [hw2]; exact hact⟩
    · intro k hk i m2 hm2 hact2
      rcases hrev i m2 hm2 with ⟨rfl, rfl⟩ | ⟨m, hm, rfl⟩
      · rcases hact2 with h | h
        · simp [nv] at h
        · exact absurd h hdidx
      · have hact : Act d i m := by unfold Act at hact2 ⊢; rw [hw2] at hact2; exact hact2
        rw [hact_same i m hm hact]
        exact hinv.adj k hk i m hm hact
    · refine ⟨idx :: l, ?_, fun i => ?_, ?_⟩
      · refine Chain.push hl (by show s.nodes.length ≠ s.fin; omega) ?_ fun y hy => ?_
        · show nfree nodes2 idx = some fn
          unfold nfree; rw [hnew]; rfl
        · obtain ⟨m, hm, _⟩ := (hmem y).1 hy
          show nfree nodes2 y = nfree s.nodes y
          unfold nfree; rw [hpt y m hm, hm]
          simp only [upd, Option.map_some]; split <;> rfl
      · constructor
        · intro hi
          rcases List.mem_cons.1 hi with rfl | hi
          · exact ⟨nv, hnew, rfl, hdidx⟩
          · obtain ⟨m, hm, hv, hd⟩ := (hmem i).1 hi
            exact ⟨_, hpt i m hm, by rw [hw2]; exact hv, hd⟩
        · rintro ⟨m2, hm2, hv2, hd2⟩
          rcases hrev i m2 hm2 with ⟨rfl, _⟩ | ⟨m, hm, rfl⟩
          · exact List.mem_cons_self
          · rw [hw2] at hv2
            exact List.mem_cons_of_mem _ ((hmem i).2 ⟨m, hm, hv2, hd2⟩)
      · refine ⟨⟨nv, hnew, rfl⟩, hb.rehead (new := idx) ?_ ?_⟩
        · intro h t hlt'
          have hh : h = fn := by rw [hlt'] at hl; exact (Chain.cons_iff.1 hl).1
          obtain ⟨m, hm, _⟩ := (hmem h).1 (by rw [hlt']; exact List.mem_cons_self)
          refine ⟨_, hpt h m hm, ?_⟩
          simp [upd, hh]
        · intro h t hlt' y hy m hm
          refine ⟨_, hpt y m hm, ?_⟩
          have hh : h = fn := by rw [hlt'] at hl; exact (Chain.cons_iff.1 hl).1
          have hyf : y ≠ fn := by
            rintro rfl
            have := hl.nodup; rw [hlt'] at this
            exact (List.nodup_cons.1 this).1 (hh ▸ hy)
          simp [upd, hyf]
    · intro i hi
      obtain ⟨m, hm, hv⟩ := hinv.det i hi
      exact ⟨_, hpt i m hm, by rw [hw2]; exact hv⟩
    · show s.nodeCount = nodes2.countP _ + _
      have hmapw : nodes2.map (·.w) = s.nodes.map (·.w) ++ [none] := by
        apply List.ext_getElem?
        intro i
        simp only [List.getElem?_map]
        by_cases hi : i < s.nodes.length
        · rw [hpt i _ (List.getElem?_eq_getElem hi), List.getElem?_append_left (by simpa using hi)]
          simp [hw2, List.getElem?_eq_getElem hi]
        · by_cases hii : i = idx
          · subst hii; rw [hnew]
            rw [List.getElem?_append_right (by simp [idx])]
            simp [nv, idx]
          · have h1 : nodes2[i]? = none := List.getElem?_eq_none_iff.2 (by omega)
            rw [h1]
            have : (s.nodes.map (·.w) ++ [none])[i]? = none := List.getElem?_eq_none_iff.2 (by simp; omega)
            rw [this]; rfl
      have e1 : ∀ l : List Node, l.countP (fun n => n.w.isSome) = (l.map (·.w)).countP Option.isSome := by
        intro l; rw [List.countP_map]; rfl
      rw [e1, hmapw, List.countP_append, ← e1, hinv.cntN]; simp
  · intro i m hm
    exact ⟨_, hpt i m hm, hw2 i m, fun hact => hact_same i m hm hact⟩


theorem InvG.with_free {s : State} {d : Option Nat} {fn fe : Nat} (h : InvG s d fn fe) (x y : Nat) :
    InvG { s with freeNode := x, freeEdge := y } d fn fe :=
  ⟨h.lenN, h.lenE, h.vacE, h.endp, h.adj, h.freeE, h.freeN, h.det, h.cntN, h.cntE⟩

/-! ### `ensure_node_exists`, `extend_with_edges` -/

/-- what the padding loop and `ensure_node_exists` may change: old nodes keep their weights, edges are untouched,
new slots are vacant -/
structure PadFrame (s s' : State) : Prop where
  rest : s' = { s with nodes := s'.nodes, freeNode := s'.freeNode, nodeCount := s'.nodeCount }
  len : s.nodes.length ≤ s'.nodes.length
  old : ∀ (i : Nat) (n : Node), s.nodes[i]? = some n → ∃ n', s'.nodes[i]? = some n' ∧ n'.w = n.w
  new : ∀ (i : Nat) (n' : Node), s'.nodes[i]? = some n' → s.nodes.length ≤ i → n'.w = none

theorem PadFrame.refl (s : State) : PadFrame s s :=
  ⟨rfl, Nat.le_refl _, fun _ n hn => ⟨n, hn, rfl⟩, fun i n' hn' hi => by
    have := (List.getElem?_eq_some_iff.1 hn').1; omega⟩

theorem PadFrame.trans {s s1 s2 : State} (h1 : PadFrame s s1) (h2 : PadFrame s1 s2) : PadFrame s s2 := by
  refine ⟨?_, Nat.le_trans h1.len h2.len, fun i n hn => ?_, fun i n' hn' hi => ?_⟩
  · have a := h1.rest; have b := h2.rest
    rw [b, a]
  · obtain ⟨n1, g1, g2⟩ := h1.old i n hn
    obtain ⟨n2, k1, k2⟩ := h2.old i n1 g1
    exact ⟨n2, k1, k2.trans g2⟩
  · by_cases hi1 : s1.nodes.length ≤ i
    · exact h2.new i n' hn' hi1
    · have hlt : i < s1.nodes.length := by omega
      obtain ⟨n2, k1, k2⟩ := h2.old i _ (List.getElem?_eq_getElem hlt)
      rw [hn'] at k1; cases k1
      rw [k2]; exact h1.new i _ (List.getElem?_eq_getElem hlt) hi

theorem padNodes_spec (ix : Nat) : ∀ (fuel : Nat) {s : State}, Inv s → ix + 2 ≤ fuel + s.nodes.length → 0 < fuel →
    ∃ s' p, padNodes ix fuel s = .ok (s', p) ∧ Inv s' ∧ PadFrame s s' ∧ (p = false → ix < s'.nodes.length) := by
  intro fuel
  induction fuel with
  | zero => intro s _ _ hpos; omega
  | succ f ih =>
    intro s hinv hf _
    by_cases hge : ix ≥ s.nodes.length
    · by_cases hlt : s.nodes.length < s.fin
      · obtain ⟨s1, hrun, hinv1, hs1, hlen1, hold1, hnew1⟩ := addVacantNode_spec (d := none) (fn := s.freeNode) (fe := s.freeEdge) hinv hlt
        let s1' : State := { s1 with freeNode := s.nodes.length }
        have hfe1 : s1.freeEdge = s.freeEdge := by rw [hs1]
        have hinv1' : Inv s1' := by
          have := hinv1.with_free s.nodes.length s1.freeEdge
          unfold Inv
          show InvG s1' none s.nodes.length s1.freeEdge
          rw [hfe1]
          exact this
        have hpf : PadFrame s s1' := by
          refine ⟨?_, by show s.nodes.length ≤ s1.nodes.length; omega, fun i n hn => ?_, fun i n' hn' hi => ?_⟩
          · show s1' = _
            simp only [s1']
            rw [hs1]
          · obtain ⟨n', g1, g2, _⟩ := hold1 i n hn
            exact ⟨n', g1, g2⟩
          · obtain ⟨nv, g1, g2⟩ := hnew1
            have hi' : i < s1.nodes.length := (List.getElem?_eq_some_iff.1 hn').1
            have : i = s.nodes.length := by omega
            subst this
            have : s1'.nodes[s.nodes.length]? = s1.nodes[s.nodes.length]? := rfl
            rw [this, g1] at hn'; cases hn'; exact g2
        obtain ⟨s', p, h', hinv', hpf', hp⟩ := ih hinv1' (by show ix + 2 ≤ f + s1.nodes.length; omega) (by omega)
        refine ⟨s', p, ?_, hinv', hpf.trans hpf', hp⟩
        simp only [padNodes, hge, if_true, hrun]
        exact h'
      · -- the index type is exhausted: the inner `add_node` panics
        have hcp : canPush s s.nodes.length = false := by
          unfold canPush mkIx
          have := hinv.lenN
          by_cases hn : s.noLimit
          · simp [hn]; omega
          · simp [hn]; rw [Nat.mod_eq_of_lt (by omega)]; omega
        refine ⟨s, true, ?_, hinv, PadFrame.refl s, fun h => by cases h⟩
        simp [padNodes, hge, addVacantNode, pushNode, hcp]
    · refine ⟨s, false, by simp [padNodes, hge], hinv, PadFrame.refl s, fun _ => by omega⟩


theorem ensureNodeExists_spec {s : State} (hinv : Inv s) (ix : Nat) :
    ∃ s' p, ensureNodeExists s ix = .ok (s', p) ∧ Inv s' ∧ (p = false → (nodeWeight s' ix).isSome) := by
  by_cases hl : (nodeWeight s ix).isSome = true
  · exact ⟨s, false, by simp [ensureNodeExists, hl], hinv, fun _ => hl⟩
  · obtain ⟨s1, p, hrun, hinv1, hpf, hp⟩ := padNodes_spec ix (ix + 2) hinv (by omega) (by omega)
    cases p with
    | true => exact ⟨s1, true, by simp [ensureNodeExists, hl, hrun], hinv1, fun h => by cases h⟩
    | false =>
      have hlt := hp rfl
      obtain ⟨slot, hslot⟩ : ∃ slot, s1.nodes[ix]? = some slot := ⟨_, List.getElem?_eq_getElem hlt⟩
      have hv : slot.w = none := by
        by_cases hi : ix < s.nodes.length
        · obtain ⟨n', g1, g2⟩ := hpf.old ix _ (List.getElem?_eq_getElem hi)
          rw [hslot] at g1; cases g1
          rw [g2]
          unfold nodeWeight at hl
          rw [List.getElem?_eq_getElem hi] at hl
          cases hw : s.nodes[ix].w with
          | none => rfl
          | some _ => simp only at hl; rw [hw] at hl; simp at hl
        · exact hpf.new ix slot hslot (by omega)
      obtain ⟨s2, hocc, hinv2, hs2, _, hpt⟩ := occupy_spec (w := 0) hinv1 hslot hv (by simp)
      have hfe2 : s2.freeEdge = s1.freeEdge := by rw [hs2]
      have hinv2' : Inv s2 := by unfold Inv; rw [hfe2]; exact hinv2
      refine ⟨s2, false, by simp [ensureNodeExists, hl, hrun, hocc], hinv2', fun _ => ?_⟩
      obtain ⟨n', g1, g2, _⟩ := hpt ix slot hslot
      unfold nodeWeight; rw [g1]; simp [g2]

theorem extendWithEdges_spec : ∀ (l : List (Nat × Nat × Int)) {s : State}, Inv s →
    ∃ s' p, extendWithEdges s l = .ok (s', p) ∧ Inv s' := by
  intro l
  induction l with
  | nil => intro s hinv; exact ⟨s, false, rfl, hinv⟩
  | cons x rest ih =>
    intro s hinv
    obtain ⟨a, b, w⟩ := x
    obtain ⟨s1, p1, h1, hinv1, _⟩ := ensureNodeExists_spec hinv a
    cases p1 with
    | true => exact ⟨s1, true, by simp [extendWithEdges, h1], hinv1⟩
    | false =>
      obtain ⟨s2, p2, h2, hinv2, _⟩ := ensureNodeExists_spec hinv1 b
      cases p2 with
      | true => exact ⟨s2, true, by simp [extendWithEdges, h1, h2], hinv2⟩
      | false =>
        obtain ⟨s3, r, h3, hinv3, _⟩ := tryAddEdge_inv hinv2 a b w
        cases r with
        | error e => exact ⟨s3, true, by simp [extendWithEdges, h1, h2, h3], hinv3⟩
        | ok e =>
          obtain ⟨s', p, h', hinv'⟩ := ih hinv3
          exact ⟨s', p, by simp [extendWithEdges, h1, h2, h3, h'], hinv'⟩


/-! ### `filter_map` -/

/-- `add_vacant_edge(&mut free)` appends a vacant slot and makes it the head of the free list `fe` -/
theorem addVacantEdge_spec {s : State} {d : Option Nat} {fn fe : Nat} (hinv : InvG s d fn fe)
    (hlt : s.edges.length < s.fin) :
    ∃ s1, addVacantEdge s fe = .ok (s1, s.edges.length) ∧ InvG s1 d fn s.edges.length ∧
      s1 = { s with edges := s1.edges } ∧ s1.edges.length = s.edges.length + 1 := by
  have hix : mkIx s s.edges.length = s.edges.length := by
    unfold mkIx; split
    · rfl
    · exact Nat.mod_eq_of_lt (by omega)
  let vac : Edge := { w := none, n0 := fe, n1 := s.fin, a := s.fin, b := s.fin }
  let s1 : State := { s with edges := s.edges ++ [vac] }
  have hold : ∀ (y : Nat) (x : Edge), s.edges[y]? = some x → (s.edges ++ [vac])[y]? = some x :=
    fun y x hx => getElem?_append_single.2 (.inl hx)
  have hdbg : (s.debug && decide (s.edges.length = s.fin)) = false := by
    have : s.edges.length ≠ s.fin := by omega
    simp [this]
  refine ⟨s1, by simp [addVacantEdge, hix, hdbg, s1, vac], ?_, rfl, by simp [s1]⟩
  refine ⟨hinv.lenN, by show (s.edges ++ [vac]).length ≤ s.fin; simp; omega, ?_, ?_, ?_, ?_, hinv.freeN, hinv.det,
    hinv.cntN, ?_⟩
  · intro e x hx hv
    rcases getElem?_append_single.1 hx with h | ⟨_, rfl⟩
    · exact hinv.vacE e x h hv
    · exact ⟨rfl, rfl⟩
  · intro e x hx hxl k hk
    rcases getElem?_append_single.1 hx with h | ⟨_, rfl⟩
    · exact hinv.endp e x h hxl k hk
    · simp [vac] at hxl
  · intro k hk i n hn hact
    obtain ⟨l, hl, hmem⟩ := hinv.adj k hk i n hn hact
    refine ⟨l, hl.congr fun y hy => ?_, fun e => ?_⟩
    · obtain ⟨_, x, hx, _⟩ := (hmem y).1 hy
      show enext (s.edges ++ [vac]) k y = _
      unfold enext; rw [hold y x hx, hx]
    · rw [hmem e]
      constructor
      · rintro ⟨h1, x, hx, h2, h3⟩; exact ⟨h1, x, hold e x hx, h2, h3⟩
      · rintro ⟨h1, x, hx, h2, h3⟩
        rcases getElem?_append_single.1 hx with h | ⟨_, rfl⟩
        · exact ⟨h1, x, h, h2, h3⟩
        · simp [vac] at h2
  · obtain ⟨l, hl, hmem⟩ := hinv.freeE
    refine ⟨s.edges.length :: l, ?_, fun e => ?_⟩
    · refine Chain.push hl (by show s.edges.length ≠ s.fin; omega) ?_ fun y hy => ?_
      · show enext (s.edges ++ [vac]) 0 s.edges.length = some fe
        unfold enext; rw [List.getElem?_concat_length]; rfl
      · obtain ⟨x, hx, _⟩ := (hmem y).1 hy
        show enext (s.edges ++ [vac]) 0 y = _
        unfold enext; rw [hold y x hx, hx]
    · constructor
      · intro he
        rcases List.mem_cons.1 he with rfl | he
        · exact ⟨vac, List.getElem?_concat_length, rfl⟩
        · obtain ⟨x, hx, hv⟩ := (hmem e).1 he
          exact ⟨x, hold e x hx, hv⟩
      · rintro ⟨x, hx, hv⟩
        rcases getElem?_append_single.1 hx with h | ⟨h, _⟩
        · exact List.mem_cons_of_mem _ ((hmem e).2 ⟨x, h, hv⟩)
        · exact h ▸ List.mem_cons_self
  · show s.edgeCount = (s.edges ++ [vac]).countP _
    rw [List.countP_append, hinv.cntE]; simp [vac]

/-- loop invariant of the two passes of `filter_map`: the result under construction keeps its own free-list heads at
`end()` while the vacancies are threaded on the local lists `fn` / `fe` -/
structure FMInv (r : State) (fn fe : Nat) : Prop where
  inv : InvG r none fn fe
  freeN : r.freeNode = r.fin
  freeE : r.freeEdge = r.fin

/-- the weights the node pass of `filter_map` writes for the source slice starting at index `i` -/
def keepNodes (dropN : List Nat) (cn : Int) : List Node → Nat → List (Option Int)
  | [], _ => []
  | n :: ns, i => fmKeepNode dropN cn i n :: keepNodes dropN cn ns (i + 1)

/-- the edges the edge pass of `filter_map` writes for the source slice starting at index `i` -/
def keepEdges (dropE : List Nat) (ce : Int) (r : State) : List Edge → Nat → List (Option SGSpec.SEdge)
  | [], _ => []
  | e :: es, i => (fmKeepEdge dropE ce r i e).map (fun w' => ⟨e.a, e.b, w'⟩) :: keepEdges dropE ce r es (i + 1)

/-- the indices `edge_map` is called with -/
def calledIdx (r : State) : List Edge → Nat → List Nat
  | [], _ => []
  | e :: es, i => if fmEdgeCalled r e then i :: calledIdx r es (i + 1) else calledIdx r es (i + 1)

theorem map_w_append_none {ns ns1 : List Node} (hlen : ns1.length = ns.length + 1)
    (hold : ∀ (i : Nat) (n : Node), ns[i]? = some n → ∃ n', ns1[i]? = some n' ∧ n'.w = n.w)
    (hnew : ∃ nv, ns1[ns.length]? = some nv ∧ nv.w = none) : ns1.map (·.w) = ns.map (·.w) ++ [none] := by
  apply List.ext_getElem?
  intro i
  simp only [List.getElem?_map]
  by_cases hi : i < ns.length
  · obtain ⟨n', g1, g2⟩ := hold i _ (List.getElem?_eq_getElem hi)
    rw [g1, List.getElem?_append_left (by simpa using hi)]
    simp [g2, List.getElem?_eq_getElem hi]
  · by_cases hii : i = ns.length
    · subst hii
      obtain ⟨nv, g1, g2⟩ := hnew
      rw [g1, List.getElem?_append_right (by simp)]
      simp [g2]
    · have h1 : ns1[i]? = none := List.getElem?_eq_none_iff.2 (by omega)
      rw [h1]
      have : (ns.map (·.w) ++ [none])[i]? = none := List.getElem?_eq_none_iff.2 (by simp; omega)
      rw [this]; rfl

theorem containsNode_congr {r r1 : State} (h : r1.nodes.map (·.w) = r.nodes.map (·.w)) (x : Nat) :
    containsNode r1 x = containsNode r x := by
  have : nodeWeight r1 x = nodeWeight r x := by
    unfold nodeWeight
    have := congrArg (fun l => l[x]?) h
    simp only [List.getElem?_map] at this
    cases h1 : r1.nodes[x]? <;> cases h0 : r.nodes[x]? <;> simp_all
  unfold containsNode
  cases hg1 : getNode r1 x with
  | none =>
    have := getNode_none.1 hg1
    rw [‹nodeWeight r1 x = nodeWeight r x›] at this
    rw [getNode_none.2 this]
  | some n1 =>
    obtain ⟨hn1, hl1⟩ := getNode_some.1 hg1
    have hw1 : (nodeWeight r1 x).isSome := by unfold nodeWeight; rw [hn1]; exact hl1
    rw [‹nodeWeight r1 x = nodeWeight r x›] at hw1
    cases hg : getNode r x with
    | none => rw [getNode_none.1 hg] at hw1; simp at hw1
    | some _ => rfl

theorem fmEdgeCalled_congr {r r1 : State} (h : r1.nodes.map (·.w) = r.nodes.map (·.w)) (e : Edge) :
    fmEdgeCalled r1 e = fmEdgeCalled r e := by
  unfold fmEdgeCalled; rw [containsNode_congr h, containsNode_congr h]

theorem keepEdges_congr {r r1 : State} (h : r1.nodes.map (·.w) = r.nodes.map (·.w)) (dropE : List Nat) (ce : Int) :
    ∀ (es : List Edge) (i : Nat), keepEdges dropE ce r1 es i = keepEdges dropE ce r es i ∧ calledIdx r1 es i = calledIdx r es i := by
  intro es
  induction es with
  | nil => intro i; exact ⟨rfl, rfl⟩
  | cons e es ih =>
    intro i
    obtain ⟨g1, g2⟩ := ih (i + 1)
    constructor
    · simp only [keepEdges, g1]
      congr 2
      unfold fmKeepEdge; rw [fmEdgeCalled_congr h]
    · simp only [calledIdx, g2, fmEdgeCalled_congr h]

theorem filterMapNodes_spec (dropN : List Nat) (cn : Int) : ∀ (src : List Node) (i : Nat) {r : State} {fn fe : Nat},
    FMInv r fn fe → r.nodes.length + src.length ≤ r.fin →
    ∃ r' fn' vis, filterMapNodes dropN cn src i r fn = .ok (r', fn', vis) ∧ FMInv r' fn' fe ∧
      r'.edges = r.edges ∧ r'.fin = r.fin ∧ r'.debug = r.debug ∧ r'.directed = r.directed ∧
      r'.nodes.map (·.w) = r.nodes.map (·.w) ++ keepNodes dropN cn src i ∧ vis = liveIdx (src.map (·.w)) i := by
  intro src
  induction src with
  | nil => intro i r fn fe h _; exact ⟨r, fn, [], rfl, h, rfl, rfl, rfl, rfl, by simp [keepNodes], rfl⟩
  | cons n ns ih =>
    intro i r fn fe h hcap
    have hlt : r.nodes.length < r.fin := by simp at hcap; omega
    have hcp : canPush r r.nodes.length = true := by
      unfold canPush mkIx
      by_cases hn : r.noLimit
      · simp [hn, hlt]
      · simp [hn]; rw [Nat.mod_eq_of_lt (by omega)]; omega
    obtain ⟨_, hix⟩ := canPush_spec hcp h.inv.lenN
    -- the two possible steps
    cases hkeep : fmKeepNode dropN cn i n with
    | some w' =>
      let r1 : State := { r with nodes := r.nodes ++ [{ w := some w', n0 := r.fin, n1 := r.fin }], nodeCount := r.nodeCount + 1 }
      have hstep : tryAddNode r w' = .ok (r1, .ok r.nodes.length) := by
        simp [tryAddNode, h.freeN, pushNode, hcp, hix, r1]
      have h1 : FMInv r1 fn fe := ⟨h.inv.push_live w' hlt, h.freeN, h.freeE⟩
      obtain ⟨r', fn', vis, hrun, h', he', hf', hd', hdir', hw', hvis'⟩ := ih (i + 1) h1 (by simp [r1] at hcap ⊢; omega)
      refine ⟨r', fn', (if n.w.isSome then i :: vis else vis), ?_, h', he', hf', hd', hdir', ?_, ?_⟩
      · simp only [filterMapNodes, hkeep, hstep, hrun]
      · rw [hw']; simp [r1, keepNodes, hkeep]
      · rw [hvis']; simp only [List.map_cons, liveIdx]
    | none =>
      obtain ⟨r1, hstep, hinv1, hr1, hlen1, hold1, hnew1⟩ := addVacantNode_spec (d := none) (fn := fn) (fe := fe) h.inv hlt
      have h1 : FMInv r1 r.nodes.length fe := ⟨hinv1, by rw [hr1]; exact h.freeN, by rw [hr1]; exact h.freeE⟩
      have hfin1 : r1.fin = r.fin := by rw [hr1]
      have hmw1 : r1.nodes.map (·.w) = r.nodes.map (·.w) ++ [none] :=
        map_w_append_none hlen1 (fun j m hm => by obtain ⟨m', g1, g2, _⟩ := hold1 j m hm; exact ⟨m', g1, g2⟩) hnew1
      obtain ⟨r', fn', vis, hrun, h', he', hf', hd', hdir', hw', hvis'⟩ := ih (i + 1) h1 (by rw [hfin1, hlen1]; simp at hcap; omega)
      refine ⟨r', fn', (if n.w.isSome then i :: vis else vis), ?_, h', by rw [he', hr1], by rw [hf', hfin1], by rw [hd', hr1],
        by rw [hdir', hr1], ?_, ?_⟩
      · simp only [filterMapNodes, hkeep, hstep, hrun]
      · rw [hw', hmw1]; simp [keepNodes, hkeep]
      · rw [hvis']; simp only [List.map_cons, liveIdx]

theorem addVacantEdge_content {s s1 : State} {fe i : Nat} (h : addVacantEdge s fe = .ok (s1, i)) :
    s1.edges.map absEdge = s.edges.map absEdge ++ [none] ∧ s1.nodes = s.nodes ∧ s1.directed = s.directed := by
  unfold addVacantEdge at h
  simp only at h
  by_cases hc : (s.debug && decide (mkIx s s.edges.length = s.fin)) = true
  · rw [if_pos hc] at h; cases h
  · rw [if_neg hc] at h
    simp only [Except.ok.injEq, Prod.mk.injEq] at h
    obtain ⟨rfl, _⟩ := h
    exact ⟨by simp [absEdge], rfl, rfl⟩

theorem filterMapEdges_spec (dropE : List Nat) (ce : Int) : ∀ (src : List Edge) (i : Nat) {r : State} {fn fe : Nat},
    FMInv r fn fe → r.edges.length + src.length ≤ r.fin →
    ∃ r' fe' vis, filterMapEdges dropE ce src i r fe = .ok (r', fe', vis) ∧ FMInv r' fn fe' ∧
      r'.fin = r.fin ∧ r'.debug = r.debug ∧ r'.directed = r.directed ∧ r'.nodes.map (·.w) = r.nodes.map (·.w) ∧
      r'.edges.map absEdge = r.edges.map absEdge ++ keepEdges dropE ce r src i ∧ vis = calledIdx r src i := by
  intro src
  induction src with
  | nil => intro i r fn fe h _; exact ⟨r, fe, [], rfl, h, rfl, rfl, rfl, rfl, by simp [keepEdges], rfl⟩
  | cons e es ih =>
    intro i r fn fe h hcap
    have hlt : r.edges.length < r.fin := by simp at hcap; omega
    cases hkeep : fmKeepEdge dropE ce r i e with
    | some w' =>
      -- both endpoints survived, so the push cannot fail
      have hcalled : containsNode r e.a = true ∧ containsNode r e.b = true := by
        unfold fmKeepEdge at hkeep
        cases hw : e.w with
        | none => rw [hw] at hkeep; cases hkeep
        | some w =>
          rw [hw] at hkeep
          simp only at hkeep
          split at hkeep
          · rename_i hc
            simp [fmEdgeCalled, hw] at hc
            obtain ⟨⟨h1, h2⟩, _⟩ := hc
            exact ⟨h1, h2⟩
          · cases hkeep
      have hlive : ∀ x, containsNode r x = true → nodeWeight r x ≠ none := by
        intro x hx hn
        have := getNode_none.2 hn
        unfold containsNode at hx; rw [this] at hx; simp at hx
      rcases tryAddEdge_push (d := none) (fn := fn) (fe := fe) e.a e.b w' h.inv h.freeE with ⟨_, hlen⟩ | ⟨j, _, hj, hjw⟩ | ⟨r1, hstep, hinv1, hfe1, hok⟩
      · omega
      · rcases hj with rfl | rfl
        · exact absurd hjw (hlive _ hcalled.1)
        · exact absurd hjw (hlive _ hcalled.2)
      · have hfin1 : r1.fin = r.fin := by have := congrArg State.fin hok.rest; simpa using this
        have hdbg1 : r1.debug = r.debug := by have := congrArg State.debug hok.rest; simpa using this
        have hlen1 : r1.edges.length = r.edges.length + 1 := by
          have := congrArg List.length hok.edgesA
          simp [SGSpec.setAt] at this
          exact this
        have h1 : FMInv r1 fn fe := ⟨hinv1, by rw [hok.freeNode, hfin1]; exact h.freeN, by rw [hfe1, hfin1]; exact h.freeE⟩
        have hdir1 : r1.directed = r.directed := by have := congrArg State.directed hok.rest; simpa using this
        obtain ⟨r', fe', vis, hrun, h', hf', hd', hdir', hnw', hew', hvis'⟩ := ih (i + 1) h1 (by rw [hfin1, hlen1]; simp at hcap; omega)
        obtain ⟨hk1, hk2⟩ := keepEdges_congr hok.nodesW dropE ce es (i + 1)
        refine ⟨r', fe', (if fmEdgeCalled r e then i :: vis else vis), ?_, h', by rw [hf', hfin1], by rw [hd', hdbg1],
          by rw [hdir', hdir1], by rw [hnw', hok.nodesW], ?_, ?_⟩
        · simp only [filterMapEdges, hkeep, hstep, hrun]
        · rw [hew', hok.edgesA, hk1]
          simp [SGSpec.setAt, keepEdges, hkeep]
        · rw [hvis', hk2]; simp only [calledIdx]
    | none =>
      obtain ⟨r1, hstep, hinv1, hr1, hlen1⟩ := addVacantEdge_spec (d := none) (fn := fn) (fe := fe) h.inv hlt
      have hfin1 : r1.fin = r.fin := by rw [hr1]
      have h1 : FMInv r1 fn r.edges.length := ⟨hinv1, by rw [hr1]; exact h.freeN, by rw [hr1]; exact h.freeE⟩
      obtain ⟨hce1, hcn1, hcd1⟩ := addVacantEdge_content hstep
      have hnw1 : r1.nodes.map (·.w) = r.nodes.map (·.w) := by rw [hcn1]
      obtain ⟨r', fe', vis, hrun, h', hf', hd', hdir', hnw', hew', hvis'⟩ := ih (i + 1) h1 (by rw [hfin1, hlen1]; simp at hcap; omega)
      obtain ⟨hk1, hk2⟩ := keepEdges_congr hnw1 dropE ce es (i + 1)
      refine ⟨r', fe', (if fmEdgeCalled r e then i :: vis else vis), ?_, h', by rw [hf', hfin1], by rw [hd', hr1],
        by rw [hdir', hcd1], by rw [hnw', hnw1], ?_, ?_⟩
      · simp only [filterMapEdges, hkeep, hstep, hrun]
      · rw [hew', hce1, hk1]
        simp [keepEdges, hkeep]
      · rw [hvis', hk2]; simp only [calledIdx]

/-- `filter_map` returns normally with a well-formed graph whose slots are described by `keepNodes` / `keepEdges` -/
theorem filterMap_content {s : State} (hinv : Inv s) (dropN dropE : List Nat) (cn ce : Int) :
    ∃ s' vn ve r1, filterMap s dropN dropE cn ce = .ok (s', vn, ve) ∧ Inv s' ∧ s'.directed = s.directed ∧
      s'.nodes.map (·.w) = keepNodes dropN cn (s.nodes.take (nodeBound s)) 0 ∧
      r1.nodes.map (·.w) = s'.nodes.map (·.w) ∧
      s'.edges.map absEdge = keepEdges dropE ce r1 (s.edges.take (edgeBound s)) 0 ∧
      vn = liveIdx ((s.nodes.take (nodeBound s)).map (·.w)) 0 ∧ ve = calledIdx r1 (s.edges.take (edgeBound s)) 0 := by
  have h0 : FMInv (empty s.directed s.fin s.noLimit s.debug) s.fin s.fin :=
    ⟨inv_empty s.directed s.fin s.noLimit s.debug, rfl, rfl⟩
  obtain ⟨r1, fn1, vn, hrun1, h1, he1, hf1, hd1, hdir1, hw1, hv1⟩ := filterMapNodes_spec dropN cn (s.nodes.take (nodeBound s)) 0 h0 (by
    have := hinv.lenN
    simp [empty]; omega)
  have hlen1 : r1.edges.length = 0 := by rw [he1]; rfl
  obtain ⟨r2, fe2, ve, hrun2, h2, hf2, hd2, hdir2, hnw2, hew2, hv2⟩ := filterMapEdges_spec dropE ce (s.edges.take (edgeBound s)) 0 h1 (by
    have := hinv.lenE
    rw [hlen1, hf1]; simp [empty]; omega)
  let r3 : State := { r2 with freeNode := fn1, freeEdge := fe2 }
  have hinv3 : Inv r3 := h2.inv.with_free fn1 fe2
  refine ⟨r3, vn, ve, r1, ?_, hinv3, ?_, ?_, ?_, ?_, hv1, hv2⟩
  · simp only [filterMap]
    rw [hrun1]
    simp only
    rw [hrun2]
    simp only
    rw [checkFreeLists_ok hinv3]
  · show r2.directed = s.directed
    rw [hdir2, hdir1]; rfl
  · show r2.nodes.map (·.w) = _
    rw [hnw2, hw1]; simp [empty]
  · show r1.nodes.map (·.w) = r2.nodes.map (·.w)
    rw [hnw2]
  · show r2.edges.map absEdge = _
    rw [hew2, he1]; simp [empty]

theorem filterMap_content_fin {s : State} (hinv : Inv s) (dropN dropE : List Nat) (cn ce : Int) :
    ∃ s' vn ve r1, filterMap s dropN dropE cn ce = .ok (s', vn, ve) ∧ Inv s' ∧ s'.directed = s.directed ∧
      s'.nodes.map (·.w) = keepNodes dropN cn (s.nodes.take (nodeBound s)) 0 ∧
      r1.nodes.map (·.w) = s'.nodes.map (·.w) ∧
      s'.edges.map absEdge = keepEdges dropE ce r1 (s.edges.take (edgeBound s)) 0 ∧
      vn = liveIdx ((s.nodes.take (nodeBound s)).map (·.w)) 0 ∧ ve = calledIdx r1 (s.edges.take (edgeBound s)) 0 ∧
      s'.fin = s.fin := by
  have h0 : FMInv (empty s.directed s.fin s.noLimit s.debug) s.fin s.fin :=
    ⟨inv_empty s.directed s.fin s.noLimit s.debug, rfl, rfl⟩
  obtain ⟨r1, fn1, vn, hrun1, h1, he1, hf1, hd1, hdir1, hw1, hv1⟩ := filterMapNodes_spec dropN cn (s.nodes.take (nodeBound s)) 0 h0 (by
    have := hinv.lenN
    simp [empty]; omega)
  have hlen1 : r1.edges.length = 0 := by rw [he1]; rfl
  obtain ⟨r2, fe2, ve, hrun2, h2, hf2, hd2, hdir2, hnw2, hew2, hv2⟩ := filterMapEdges_spec dropE ce (s.edges.take (edgeBound s)) 0 h1 (by
    have := hinv.lenE
    rw [hlen1, hf1]; simp [empty]; omega)
  obtain ⟨s', vn', ve', r1', hrun, hinv', g1, g2, g3, g4, g5, g6⟩ := filterMap_content hinv dropN dropE cn ce
  refine ⟨s', vn', ve', r1', hrun, hinv', g1, g2, g3, g4, g5, g6, ?_⟩
  -- the result is r2 with its free-list heads set
  have : filterMap s dropN dropE cn ce = .ok ({ r2 with freeNode := fn1, freeEdge := fe2 }, vn, ve) := by
    have hinv3 : Inv { r2 with freeNode := fn1, freeEdge := fe2 } := h2.inv.with_free fn1 fe2
    simp only [filterMap]
    rw [hrun1]
    simp only
    rw [hrun2]
    simp only
    rw [checkFreeLists_ok hinv3]
  rw [this] at hrun
  simp only [Except.ok.injEq, Prod.mk.injEq] at hrun
  rw [← hrun.1]
  show r2.fin = s.fin
  rw [hf2, hf1]; rfl

theorem filterMap_spec {s : State} (hinv : Inv s) (dropN dropE : List Nat) (cn ce : Int) :
    ∃ s' vn ve, filterMap s dropN dropE cn ce = .ok (s', vn, ve) ∧ Inv s' := by
  obtain ⟨s', vn, ve, _, h, hinv', _⟩ := filterMap_content hinv dropN dropE cn ce
  exact ⟨s', vn, ve, h, hinv'⟩

/-! ### the round trip through `Graph` -/

theorem boundOf_above' {α : Type} (l : List (Option α)) : ∀ i, boundOf l ≤ i → (l[i]?).join = none := by
  induction l with
  | nil => intro i _; simp
  | cons x xs ih =>
    intro i hi
    simp only [boundOf] at hi
    cases i with
    | zero =>
      split at hi
      · omega
      · split at hi
        · omega
        · rename_i hx; simp only [List.getElem?_cons_zero, Option.join_some]
          cases x <;> simp_all
    | succ j =>
      simp only [List.getElem?_cons_succ]
      apply ih
      split at hi
      · omega
      · rename_i h0; omega


/-- every slot of the (plain) graph under construction is live -/
def AllLive (g : State) : Prop := ∀ i, i < g.nodes.length → (nodeWeight g i).isSome

/-- number of live slots below index `j` -/
def rankOf (l : List (Option Int)) (j : Nat) : Nat := (l.take j).countP Option.isSome

theorem rankOf_append_left (l l2 : List (Option Int)) {j : Nat} (h : j ≤ l.length) : rankOf (l ++ l2) j = rankOf l j := by
  unfold rankOf; rw [List.take_append_of_le_length h]

theorem rankOf_length (l : List (Option Int)) : rankOf l l.length = l.countP Option.isSome := by
  unfold rankOf; rw [List.take_length]

theorem toGraphNodes_spec : ∀ (src : List Node) {g : State} {m : List Nat} (done : List Node),
    FMInv g g.fin g.fin → AllLive g → g.nodes.length + src.length ≤ g.fin →
    m.length = done.length →
    (∀ (j : Nat) (n : Node), done[j]? = some n → n.w.isSome → ∃ x, m[j]? = some x ∧ x < g.nodes.length) →
    g.nodes.length = (done.map (·.w)).countP Option.isSome →
    (∀ (j : Nat) (n : Node), done[j]? = some n → n.w.isSome → m[j]? = some (rankOf (done.map (·.w)) j)) →
    ∃ g' m', toGraphNodes src g m = .ok (g', m') ∧ FMInv g' g'.fin g'.fin ∧ AllLive g' ∧ g'.edges = g.edges ∧
      g'.fin = g.fin ∧ g'.debug = g.debug ∧ m'.length = (done ++ src).length ∧
      (∀ (j : Nat) (n : Node), (done ++ src)[j]? = some n → n.w.isSome → ∃ x, m'[j]? = some x ∧ x < g'.nodes.length) ∧
      (∀ (j : Nat) (n : Node), (done ++ src)[j]? = some n → n.w.isSome → m'[j]? = some (rankOf ((done ++ src).map (·.w)) j)) ∧
      g'.nodes.map (·.w) = g.nodes.map (·.w) ++ (src.filterMap (·.w)).map some ∧ g'.directed = g.directed := by
  intro src
  induction src with
  | nil =>
    intro g m done h hall _ hlen hm hgl hmr
    exact ⟨g, m, rfl, h, hall, rfl, rfl, rfl, by simpa using hlen, by simpa using hm, by simpa using hmr, by simp, rfl⟩
  | cons n ns ih =>
    intro g m done h hall hcap hlen hm hgl hmr
    have hdl : (done.map (·.w)).length = done.length := by simp
    have hrank_old : ∀ (j : Nat) (n' : Node), done[j]? = some n' →
        rankOf ((done ++ [n]).map (·.w)) j = rankOf (done.map (·.w)) j := by
      intro j n' hn'
      have hj : j < done.length := (List.getElem?_eq_some_iff.1 hn').1
      rw [List.map_append]
      exact rankOf_append_left _ _ (by rw [hdl]; omega)
    have hlt : g.nodes.length < g.fin := by simp at hcap; omega
    cases hw : n.w with
    | none =>
      obtain ⟨g', m', hrun, h', hall', he', hf', hd', hlen', hm', hmr', hnw', hdir'⟩ := ih (g := g) (m := m ++ [g.fin]) (done ++ [n]) h hall
        (by simp at hcap; omega) (by simp [hlen]) (fun j n' hn' hl' => by
          rcases getElem?_append_single.1 hn' with h1 | ⟨_, rfl⟩
          · obtain ⟨x, hx, hxl⟩ := hm j n' h1 hl'
            exact ⟨x, getElem?_append_single.2 (.inl hx), hxl⟩
          · rw [hw] at hl'; simp at hl')
        (by rw [hgl]; simp [hw])
        (fun j n' hn' hl' => by
          rcases getElem?_append_single.1 hn' with h1 | ⟨_, rfl⟩
          · rw [hrank_old j n' h1]
            exact getElem?_append_single.2 (.inl (hmr j n' h1 hl'))
          · rw [hw] at hl'; simp at hl')
      refine ⟨g', m', by simp [toGraphNodes, hw, hrun], h', hall', he', hf', hd', by simpa using hlen', ?_, ?_, ?_, hdir'⟩
      · simpa using hm'
      · simpa using hmr'
      · rw [hnw']; simp [hw]
    | some w =>
      have hcp : canPush g g.nodes.length = true := by
        unfold canPush mkIx
        by_cases hn : g.noLimit
        · simp [hn, hlt]
        · simp [hn]; rw [Nat.mod_eq_of_lt (by omega)]; omega
      obtain ⟨_, hix⟩ := canPush_spec hcp h.inv.lenN
      let g1 : State := { g with nodes := g.nodes ++ [{ w := some w, n0 := g.fin, n1 := g.fin }], nodeCount := g.nodeCount + 1 }
      have hstep : tryAddNode g w = .ok (g1, .ok g.nodes.length) := by
        simp [tryAddNode, h.freeN, pushNode, hcp, hix, g1]
      have h1 : FMInv g1 g1.fin g1.fin := ⟨h.inv.push_live w hlt, h.freeN, h.freeE⟩
      have hall1 : AllLive g1 := by
        intro i hi
        have hi' : i < g.nodes.length + 1 := by simpa [g1] using hi
        unfold nodeWeight
        by_cases hii : i < g.nodes.length
        · have := hall i hii
          unfold nodeWeight at this
          show (match (g.nodes ++ [_])[i]? with | some n => n.w | none => none).isSome
          rw [List.getElem?_append_left hii]; exact this
        · have : i = g.nodes.length := by omega
          subst this
          show (match (g.nodes ++ [_])[g.nodes.length]? with | some n => n.w | none => none).isSome
          rw [List.getElem?_concat_length]; rfl
      obtain ⟨g', m', hrun, h', hall', he', hf', hd', hlen', hm', hmr', hnw', hdir'⟩ := ih (g := g1) (m := m ++ [g.nodes.length]) (done ++ [n]) h1 hall1
        (by simp [g1] at hcap ⊢; omega) (by simp [hlen]) (fun j n' hn' hl' => by
          rcases getElem?_append_single.1 hn' with h1' | ⟨hj, _⟩
          · obtain ⟨x, hx, hxl⟩ := hm j n' h1' hl'
            exact ⟨x, getElem?_append_single.2 (.inl hx), by simp [g1]; omega⟩
          · refine ⟨g.nodes.length, ?_, by simp [g1]⟩
            rw [hj, ← hlen]; exact List.getElem?_concat_length)
        (by simp [g1, hgl, hw])
        (fun j n' hn' hl' => by
          rcases getElem?_append_single.1 hn' with h1' | ⟨hj, _⟩
          · rw [hrank_old j n' h1']
            exact getElem?_append_single.2 (.inl (hmr j n' h1' hl'))
          · subst hj
            have : rankOf ((done ++ [n]).map (·.w)) done.length = g.nodes.length := by
              rw [List.map_append, rankOf_append_left _ _ (by rw [hdl]; exact Nat.le_refl _), ← hdl, rankOf_length, hgl]
            rw [this, ← hlen]; exact List.getElem?_concat_length)
      refine ⟨g', m', by simp [toGraphNodes, hw, hstep, hrun], h', hall', he', hf', hd', by simpa using hlen', ?_, ?_, ?_, hdir'⟩
      · simpa using hm'
      · simpa using hmr'
      · rw [hnw']; simp [g1, hw]

theorem toGraphEdges_spec (m : List Nat) : ∀ (src : List Edge) {g : State},
    FMInv g g.fin g.fin → AllLive g → g.edges.length + src.length ≤ g.fin →
    (∀ e ∈ src, e.w.isSome → ∃ sa sb, m[e.a]? = some sa ∧ m[e.b]? = some sb ∧ sa < g.nodes.length ∧ sb < g.nodes.length) →
    ∃ g', toGraphEdges m src g = .ok g' ∧ FMInv g' g'.fin g'.fin ∧ g'.nodes.map (·.w) = g.nodes.map (·.w) ∧
      g'.directed = g.directed ∧
      g'.edges.map absEdge = g.edges.map absEdge ++
        src.filterMap (fun e => e.w.map fun w => some (⟨(m[e.a]?).getD 0, (m[e.b]?).getD 0, w⟩ : SGSpec.SEdge)) ∧
      g'.fin = g.fin := by
  intro src
  induction src with
  | nil => intro g h _ _ _; exact ⟨g, rfl, h, rfl, rfl, by simp, rfl⟩
  | cons e es ih =>
    intro g h hall hcap hm
    cases hw : e.w with
    | none =>
      obtain ⟨g', hrun, h', hnw', hdir', hew', hfin'⟩ := ih h hall (by simp at hcap; omega) (fun e' he' => hm e' (List.mem_cons_of_mem _ he'))
      exact ⟨g', by simp [toGraphEdges, hw, hrun], h', hnw', hdir', by rw [hew']; simp [hw], hfin'⟩
    | some w =>
      obtain ⟨sa, sb, hsa, hsb, hla, hlb⟩ := hm e List.mem_cons_self (by rw [hw]; rfl)
      have hfa : sa ≠ g.fin := by have := h.inv.lenN; omega
      have hfb : sb ≠ g.fin := by have := h.inv.lenN; omega
      rcases tryAddEdge_push (d := none) (fn := g.fin) (fe := g.fin) sa sb w h.inv h.freeE with ⟨_, hlen⟩ | ⟨j, _, hj, hjw⟩ | ⟨g1, hstep, hinv1, hfe1, hok⟩
      · simp at hcap; omega
      · rcases hj with rfl | rfl
        · have := hall j hla; rw [hjw] at this; simp at this
        · have := hall j hlb; rw [hjw] at this; simp at this
      · have hfin1 : g1.fin = g.fin := by have := congrArg State.fin hok.rest; simpa using this
        have hlen1 : g1.edges.length = g.edges.length + 1 := by
          have := congrArg List.length hok.edgesA
          simp [SGSpec.setAt] at this
          exact this
        have hnl1 : g1.nodes.length = g.nodes.length := by
          have := congrArg List.length hok.nodesW; simpa using this
        have h1 : FMInv g1 g1.fin g1.fin := ⟨by rw [hfin1]; exact hinv1, by rw [hok.freeNode, hfin1]; exact h.freeN,
          by rw [hfe1, hfin1]; exact h.freeE⟩
        have hall1 : AllLive g1 := by
          intro i hi
          have := hall i (hnl1 ▸ hi)
          unfold nodeWeight at this ⊢
          have hmw := congrArg (fun l => l[i]?) hok.nodesW
          simp only [List.getElem?_map] at hmw
          cases h1n : g1.nodes[i]? with
          | none => have := List.getElem?_eq_none_iff.1 h1n; omega
          | some n1 =>
            cases h0n : g.nodes[i]? with
            | none => rw [h0n] at this; simp at this
            | some n0 =>
              rw [h1n, h0n] at hmw
              rw [h0n] at this
              simp only [Option.map_some, Option.some.injEq] at hmw
              simp only at this ⊢
              rw [hmw]; exact this
        obtain ⟨g', hrun, h', hnw', hdir', hew', hfin'⟩ := ih h1 hall1 (by rw [hfin1, hlen1]; simp at hcap; omega) (fun e' he' hl' => by
          obtain ⟨sa', sb', k1, k2, k3, k4⟩ := hm e' (List.mem_cons_of_mem _ he') hl'
          exact ⟨sa', sb', k1, k2, hnl1 ▸ k3, hnl1 ▸ k4⟩)
        have hdir1 : g1.directed = g.directed := by have := congrArg State.directed hok.rest; simpa using this
        refine ⟨g', ?_, h', by rw [hnw', hok.nodesW], by rw [hdir', hdir1], ?_, by rw [hfin', hfin1]⟩
        · have hdbg : (g.debug && (decide (sa = g.fin) || decide (sb = g.fin))) = false := by simp [hfa, hfb]
          simp [toGraphEdges, hw, hsa, hsb, hdbg, hstep, hrun]
        · rw [hew', hok.edgesA]
          simp [SGSpec.setAt, hw, hsa, hsb]

theorem toGraph_spec {s : State} (hinv : Inv s) : ∃ g, toGraph s = .ok g ∧ Inv g := by
  have h0 : FMInv (empty s.directed s.fin s.noLimit s.debug) s.fin s.fin :=
    ⟨inv_empty s.directed s.fin s.noLimit s.debug, rfl, rfl⟩
  obtain ⟨g0, m, hrun0, hg0, hall0, he0, hf0, _, hlen0, hm0, _, _, _⟩ := toGraphNodes_spec s.nodes (g := empty s.directed s.fin s.noLimit s.debug)
    (m := []) [] h0 (fun i hi => by simp [empty] at hi) (by have := hinv.lenN; simp [empty]; omega) rfl (fun j n hn => by simp at hn)
    (by simp [empty]) (fun j n hn => by simp at hn)
  simp only [List.nil_append] at hlen0 hm0
  have hfin0 : g0.fin = s.fin := hf0
  have hel0 : g0.edges.length = 0 := by rw [he0]; rfl
  obtain ⟨g, hrun, hg, _, _, _, _⟩ := toGraphEdges_spec (m.take (nodeBound s)) s.edges hg0 hall0 (by
    have := hinv.lenE; rw [hel0, hfin0]; omega) (fun e he hl => by
      obtain ⟨ei, hei, rfl⟩ := List.getElem_of_mem he
      have hx : s.edges[ei]? = some s.edges[ei] := List.getElem?_eq_getElem hei
      have hendp := hinv.endp ei _ hx hl
      obtain ⟨na, hna, hacta⟩ := hendp 0 (by omega)
      obtain ⟨nb, hnb, hactb⟩ := hendp 1 (by omega)
      simp only [Edge.node_zero, Edge.node_one] at hna hnb hacta hactb
      have hla : na.w.isSome := by rcases hacta with h | h; exact h; cases h
      have hlb : nb.w.isSome := by rcases hactb with h | h; exact h; cases h
      obtain ⟨sa, hsa, hsal⟩ := hm0 _ na hna hla
      obtain ⟨sb, hsb, hsbl⟩ := hm0 _ nb hnb hlb
      -- live endpoints lie below node_bound
      have hbound : ∀ (x : Nat) (nx : Node), s.nodes[x]? = some nx → nx.w.isSome → x < nodeBound s := by
        intro x nx hnx hlx
        by_cases hlt : x < nodeBound s
        · exact hlt
        · have := boundOf_above' (s.nodes.map (·.w)) x (by unfold nodeBound at hlt; omega)
          rw [List.getElem?_map, hnx] at this
          simp at this
          rw [this] at hlx; simp at hlx
      refine ⟨sa, sb, ?_, ?_, hsal, hsbl⟩
      · rw [List.getElem?_take_of_lt (hbound _ na hna hla)]; exact hsa
      · rw [List.getElem?_take_of_lt (hbound _ nb hnb hlb)]; exact hsb)
  refine ⟨g, ?_, ?_⟩
  · simp [toGraph, hrun0, hrun]
  · have := hg.inv
    unfold Inv; rw [hg.freeN, hg.freeE]; exact this


/-- EVERY call of the alphabet, with arbitrary arguments, returns without a fault and re-establishes the invariant -/
theorem step_inv_all {s : State} (hinv : Inv s) (op : Op) : ∃ s' out, step s op = .ok (s', out) ∧ Inv s' := by
  cases op with
  | filterMap dn de cn ce =>
    obtain ⟨s', vn, ve, h, hinv'⟩ := filterMap_spec hinv dn de cn ce
    exact ⟨s', .visited vn ve, by simp [step, h], hinv'⟩
  | extendWithEdges l =>
    obtain ⟨s', p, h, hinv'⟩ := extendWithEdges_spec l hinv
    cases p with
    | true => exact ⟨s', .panic, by simp [step, h], hinv'⟩
    | false => exact ⟨s', .unit, by simp [step, h], hinv'⟩
  | compact =>
    obtain ⟨g, h, hinv'⟩ := toGraph_spec hinv
    exact ⟨g, .unit, by simp [step, compact, h], hinv'⟩
  | addNode w => exact step_inv hinv _ trivial
  | addEdge a b w => exact step_inv hinv _ trivial
  | updateEdge a b w => exact step_inv hinv _ trivial
  | removeNode a => exact step_inv hinv _ trivial
  | removeEdge e => exact step_inv hinv _ trivial
  | setNodeWeight a w => exact step_inv hinv _ trivial
  | setEdgeWeight e w => exact step_inv hinv _ trivial
  | reverse => exact step_inv hinv _ trivial
  | clear => exact step_inv hinv _ trivial
  | clearEdges => exact step_inv hinv _ trivial
  | retainNodes rm => exact step_inv hinv _ trivial
  | retainEdges rm => exact step_inv hinv _ trivial
  | map cn ce => exact step_inv hinv _ trivial
  | clone => exact step_inv hinv _ trivial


/-! ### `extend_with_edges` does not panic on a request that fits the index type -/

theorem PadFrame.fields {s s' : State} (h : PadFrame s s') :
    s'.fin = s.fin ∧ s'.edgeCount = s.edgeCount ∧ s'.edges = s.edges ∧ s'.noLimit = s.noLimit := by
  have := h.rest
  refine ⟨?_, ?_, ?_, ?_⟩ <;> (rw [this])

theorem padNodes_no_panic (ix : Nat) : ∀ (fuel : Nat) {s s' : State} {p : Bool}, Inv s → ix < s.fin →
    padNodes ix fuel s = .ok (s', p) → p = false := by
  intro fuel
  induction fuel with
  | zero => intro s s' p _ _ h; simp [padNodes] at h
  | succ f ih =>
    intro s s' p hinv hix h
    simp only [padNodes] at h
    by_cases hge : ix ≥ s.nodes.length
    · simp only [hge, if_true] at h
      have hlt : s.nodes.length < s.fin := by omega
      obtain ⟨s1, hrun, hinv1, hs1, hlen1, _, _⟩ := addVacantNode_spec (d := none) (fn := s.freeNode) (fe := s.freeEdge) hinv hlt
      rw [hrun] at h
      simp only at h
      let s1' : State := { s1 with freeNode := s.nodes.length }
      have hfe1 : s1.freeEdge = s.freeEdge := by rw [hs1]
      have hinv1' : Inv s1' := by
        have := hinv1.with_free s.nodes.length s1.freeEdge
        unfold Inv
        show InvG s1' none s.nodes.length s1.freeEdge
        rw [hfe1]; exact this
      exact ih hinv1' (by show ix < s1.fin; rw [hs1]; exact hix) h
    · simp only [hge, if_false, Except.ok.injEq, Prod.mk.injEq] at h
      exact h.2.symm

/-- `ensure_node_exists(ix)` for a valid index: no panic, `ix` is live afterwards, live nodes stay live, edges untouched -/
theorem ensureNodeExists_ok {s : State} (hinv : Inv s) {ix : Nat} (hix : ix < s.fin) :
    ∃ s', ensureNodeExists s ix = .ok (s', false) ∧ Inv s' ∧ (nodeWeight s' ix).isSome ∧
      (∀ i, (nodeWeight s i).isSome → (nodeWeight s' i).isSome) ∧
      s'.fin = s.fin ∧ s'.edgeCount = s.edgeCount := by
  by_cases hl : (nodeWeight s ix).isSome = true
  · exact ⟨s, by simp [ensureNodeExists, hl], hinv, hl, fun _ h => h, rfl, rfl⟩
  · obtain ⟨s1, p, hrun, hinv1, hpf, hp⟩ := padNodes_spec ix (ix + 2) hinv (by omega) (by omega)
    have hpfalse := padNodes_no_panic ix (ix + 2) hinv hix hrun
    subst hpfalse
    obtain ⟨hfin1, hec1, _, _⟩ := hpf.fields
    have hlt := hp rfl
    obtain ⟨slot, hslot⟩ : ∃ slot, s1.nodes[ix]? = some slot := ⟨_, List.getElem?_eq_getElem hlt⟩
    have hv : slot.w = none := by
      by_cases hi : ix < s.nodes.length
      · obtain ⟨n', g1, g2⟩ := hpf.old ix _ (List.getElem?_eq_getElem hi)
        rw [hslot] at g1; cases g1
        rw [g2]
        unfold nodeWeight at hl
        rw [List.getElem?_eq_getElem hi] at hl
        cases hw : s.nodes[ix].w with
        | none => rfl
        | some _ => simp only at hl; rw [hw] at hl; simp at hl
      · exact hpf.new ix slot hslot (by omega)
    obtain ⟨s2, hocc, hinv2, hs2, _, hpt⟩ := occupy_spec (w := 0) hinv1 hslot hv (by simp)
    have hfe2 : s2.freeEdge = s1.freeEdge := by rw [hs2]
    have hinv2' : Inv s2 := by unfold Inv; rw [hfe2]; exact hinv2
    refine ⟨s2, by simp [ensureNodeExists, hl, hrun, hocc], hinv2', ?_, fun i hi => ?_, by rw [hs2]; exact hfin1,
      by rw [hs2]; exact hec1⟩
    · obtain ⟨n', g1, g2, _⟩ := hpt ix slot hslot
      unfold nodeWeight; rw [g1]; simp [g2]
    · unfold nodeWeight at hi ⊢
      cases hn : s.nodes[i]? with
      | none => rw [hn] at hi; simp at hi
      | some n =>
        rw [hn] at hi
        obtain ⟨n1, g1, g2⟩ := hpf.old i n hn
        obtain ⟨n2, k1, k2, _⟩ := hpt i n1 g1
        rw [k1]; simp only
        rw [k2]
        split
        · rfl
        · rw [g2]; exact hi

/-- **no valid `extend_with_edges` panics**: if every named node index is a valid index and the edges fit, the call
completes without the documented index-limit panic -/
theorem extendWithEdges_no_panic : ∀ (l : List (Nat × Nat × Int)) {s : State}, Inv s →
    (∀ x ∈ l, x.1 < s.fin ∧ x.2.1 < s.fin) → s.edgeCount + l.length ≤ s.fin →
    ∃ s', extendWithEdges s l = .ok (s', false) ∧ Inv s' := by
  intro l
  induction l with
  | nil => intro s hinv _ _; exact ⟨s, rfl, hinv⟩
  | cons x rest ih =>
    intro s hinv hvalid hcap
    obtain ⟨a, b, w⟩ := x
    obtain ⟨ha, hb⟩ := hvalid (a, b, w) List.mem_cons_self
    obtain ⟨s1, h1, hinv1, hla1, hkeep1, hfin1, hec1⟩ := ensureNodeExists_ok hinv ha
    obtain ⟨s2, h2, hinv2, hlb2, hkeep2, hfin2, hec2⟩ := ensureNodeExists_ok hinv1 (ix := b) (by rw [hfin1]; exact hb)
    have hla2 := hkeep2 a hla1
    obtain ⟨s3, r, h3, hinv3, herr, hok⟩ := tryAddEdge_inv hinv2 a b w
    cases r with
    | error err =>
      exfalso
      obtain ⟨_, g2, g3, g4⟩ := herr err rfl
      cases err with
      | nodeIxLimit => exact g4 rfl
      | edgeIxLimit =>
        have := g2 rfl
        rw [hec2, hec1] at this; rw [hfin2, hfin1] at this
        simp at hcap; omega
      | nodeMissed i =>
        obtain ⟨hi, hw⟩ := g3 i rfl
        rcases hi with rfl | rfl
        · rw [hw] at hla2; simp at hla2
        · rw [hw] at hlb2; simp at hlb2
    | ok e =>
      have ho := hok e rfl
      have hfin3 : s3.fin = s2.fin := by have := congrArg State.fin ho.rest; simpa using this
      have hec3 : s3.edgeCount = s2.edgeCount + 1 := by have := congrArg State.edgeCount ho.rest; simpa using this
      obtain ⟨s', h', hinv'⟩ := ih hinv3 (fun y hy => by
        have := hvalid y (List.mem_cons_of_mem _ hy)
        rw [hfin3, hfin2, hfin1]; exact this) (by
        rw [hec3, hec2, hec1, hfin3, hfin2, hfin1]; simp at hcap; omega)
      exact ⟨s', by simp [extendWithEdges, h1, h2, h3, h'], hinv'⟩

end PetgraphModel.SGProofs
