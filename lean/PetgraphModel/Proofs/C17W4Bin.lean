import PetgraphModel.Spec.SerdeText
/-
C17 wave 4 — the bincode byte model: `parseBin iw (binWire iw w ++ rest) = some (w, rest)` for every wire value whose
numbers fit their fields (`binFits`).
-/
namespace PetgraphModel.SerdeText
open PetgraphModel.Serde

theorem leBytes_length (k n : Nat) : (leBytes k n).length = k := by
  induction k generalizing n with
  | zero => rfl
  | succ k ih => simp [leBytes, ih]

theorem leVal_leBytes (k n : Nat) : leVal (leBytes k n) = n % 256 ^ k := by
  induction k generalizing n with
  | zero => simp [leBytes, leVal, Nat.mod_one]
  | succ k ih =>
    simp only [leBytes, leVal, ih]
    rw [Nat.pow_succ', Nat.mod_mul]

theorem takeN_append (x r : List Nat) : takeN x.length (x ++ r) = some (x, r) := by
  simp [takeN]

theorem readLE_leBytes (k n : Nat) (h : n < 256 ^ k) (r : List Nat) : readLE k (leBytes k n ++ r) = some (n, r) := by
  have := takeN_append (leBytes k n) r
  rw [leBytes_length] at this
  simp only [readLE, this, leVal_leBytes, Nat.mod_eq_of_lt h]

theorem i32Val_i32Bytes (x : Int) (h1 : -2147483648 ≤ x) (h2 : x < 2147483648) : i32Val (i32Bytes x) = x := by
  have hv : leVal (i32Bytes x) = (x % 4294967296).toNat := by
    unfold i32Bytes
    rw [leVal_leBytes]
    apply Nat.mod_eq_of_lt
    have : (256 : Nat) ^ 4 = 4294967296 := by decide
    omega
  unfold i32Val
  simp only [hv]
  split <;> omega

theorem readI32_i32Bytes (x : Int) (h1 : -2147483648 ≤ x) (h2 : x < 2147483648) (r : List Nat) :
    readI32 (i32Bytes x ++ r) = some (x, r) := by
  have := takeN_append (i32Bytes x) r
  have hl : (i32Bytes x).length = 4 := leBytes_length _ _
  rw [hl] at this
  simp only [readI32, this, i32Val_i32Bytes x h1 h2]

theorem readN_flatMap {α} (item : BParser α) (pr : α → List Nat) (l : List α)
    (h : ∀ a, a ∈ l → ∀ r, item (pr a ++ r) = some (a, r)) (r : List Nat) :
    readN item l.length (l.flatMap pr ++ r) = some (l, r) := by
  induction l with
  | nil => rfl
  | cons a t ih =>
    simp only [List.length_cons, List.flatMap_cons, List.append_assoc, readN,
      h a (List.mem_cons_self ..) _, ih (fun b hb => h b (List.mem_cons_of_mem _ hb))]

theorem flatMap_length_ge {α} (pr : α → List Nat) (l : List α) (h : ∀ a, a ∈ l → 1 ≤ (pr a).length) :
    l.length ≤ (l.flatMap pr).length := by
  induction l with
  | nil => simp
  | cons a t ih =>
    have := ih (fun b hb => h b (List.mem_cons_of_mem _ hb))
    have := h a (List.mem_cons_self ..)
    simp only [List.length_cons, List.flatMap_cons, List.length_append]
    omega

theorem readSeq_print {α} (item : BParser α) (pr : α → List Nat) (l : List α)
    (h : ∀ a, a ∈ l → ∀ r, item (pr a ++ r) = some (a, r)) (hlen : ∀ a, a ∈ l → 1 ≤ (pr a).length)
    (hl : l.length < 18446744073709551616) (r : List Nat) :
    readSeq item (leBytes 8 l.length ++ (l.flatMap pr ++ r)) = some (l, r) := by
  have h64 : (256 : Nat) ^ 8 = 18446744073709551616 := by decide
  have := flatMap_length_ge pr l hlen
  simp only [readSeq, readLE_leBytes 8 l.length (by omega)]
  rw [if_pos (by simp only [List.length_append]; omega)]
  exact readN_flatMap item pr l h r

theorem readBinEdge_print (iw : Nat) (e : Option (Nat × Nat × Int))
    (h : match e with
      | none => True
      | some (a, b, x) => a < 256 ^ iw ∧ b < 256 ^ iw ∧ -2147483648 ≤ x ∧ x < 2147483648) (r : List Nat) :
    readBinEdge iw (binEdge iw e ++ r) = some (e, r) := by
  cases e with
  | none => simp [binEdge, readBinEdge]
  | some t =>
    obtain ⟨a, b, x⟩ := t
    obtain ⟨ha, hb, h1, h2⟩ := h
    simp only [binEdge, List.cons_append, List.append_assoc, readBinEdge]
    rw [if_neg (by decide), if_pos trivial, readLE_leBytes iw a ha]
    simp only
    rw [readLE_leBytes iw b hb]
    simp only
    rw [readI32_i32Bytes x h1 h2]

/-- **the bincode round trip**: the byte reader inverts the byte printer, for every wire value whose numbers fit
their fields; trailing bytes are returned untouched. -/
theorem parseBin_binWire (iw : Nat) (w : Wire) (hf : binFits iw w = true) (rest : List Nat) :
    parseBin iw (binWire iw w ++ rest) = some (w, rest) := by
  simp only [binFits, Bool.and_eq_true, List.all_eq_true, decide_eq_true_eq] at hf
  obtain ⟨⟨⟨⟨⟨⟨hn, hh⟩, he⟩, ln⟩, lh⟩, le⟩, hiw⟩ := hf
  have hpos : 1 ≤ iw := hiw
  unfold parseBin binWire
  simp only [List.append_assoc]
  rw [readSeq_print readI32 i32Bytes w.nodes
    (fun a ha r => readI32_i32Bytes a (hn a ha).1 (hn a ha).2 r)
    (fun a _ => by have : (i32Bytes a).length = 4 := leBytes_length _ _; omega) ln]
  simp only
  rw [readSeq_print (readLE iw) (leBytes iw) w.holes (fun a ha r => readLE_leBytes iw a (hh a ha) r)
    (fun a _ => by rw [leBytes_length]; exact hpos) lh]
  simp only
  rw [readLE_leBytes 4 (tagOfProp w.prop) (by cases w.prop with | none => decide | some b => cases b <;> decide)]
  simp only
  rw [readSeq_print (readBinEdge iw) (binEdge iw) w.edges
    (fun e hm r => readBinEdge_print iw e (by
      have := he e hm
      cases e with
      | none => trivial
      | some t => obtain ⟨a, b, x⟩ := t; simpa [and_assoc] using this) r)
    (fun e _ => by cases e with
      | none => simp [binEdge]
      | some t => obtain ⟨a, b, x⟩ := t; simp [binEdge]) le]
  simp only
  have hp : propOfTag (tagOfProp w.prop) = w.prop := by
    cases w.prop with | none => rfl | some b => cases b <;> rfl
  rw [hp]

theorem binWire_injective (iw : Nat) (w w' : Wire) (hf : binFits iw w = true) (hf' : binFits iw w' = true)
    (h : binWire iw w = binWire iw w') : w = w' := by
  have h1 := parseBin_binWire iw w hf []
  have h2 := parseBin_binWire iw w' hf' []
  rw [h, h2] at h1
  exact ((Prod.mk.inj (Option.some.inj h1)).1).symm

end PetgraphModel.SerdeText
