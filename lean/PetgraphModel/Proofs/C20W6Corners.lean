import PetgraphModel.Proofs.C20Paths
import PetgraphModel.Proofs.C20PathsModel
import PetgraphModel.Proofs.C20PageRank
/-
C20, wave 6 — the CORNERS of the property, as theorems.

The wave-6 correspondence run drives `all_simple_paths` with a target that is not a node of the graph
(an index beyond the bound, the stale id of a removed node), with `min > max`, and `page_rank` with the
damping factor at both ends of its documented range.  What the property determines there:

* no simple path ends at something that is not a node — so the judge accepts only the empty answer and
  the mirrored iterator yields nothing;
* no sequence has at least `lo` and at most `h < lo` intermediate nodes — same conclusion;
* for `d = 1` (no random jumps) the rational model is defined, and its ranks are non-negative and sum to 1.
-/
namespace PetgraphModel.C20
open PetgraphModel PetgraphModel.MGraph

/-- a walk with at least two nodes arrives at its last node along an edge -/
theorem IsWalk.last_step (g : MGraph) : ∀ (p : List Nat) (b : Nat), IsWalk g p → 2 ≤ p.length →
    p.getLast? = some b → ∃ x, g.Adj x b
  | [], _, _, h, _ => by simp at h
  | [_], _, _, h, _ => by simp at h
  | [x, y], b, hw, _, hl => by
      simp [List.getLast?] at hl
      subst hl
      exact ⟨x, hw.1⟩
  | _ :: y :: z :: t, b, hw, _, hl => by
      have hl' : (y :: z :: t).getLast? = some b := by
        simpa [List.getLast?_cons_cons] using hl
      exact IsWalk.last_step g (y :: z :: t) b hw.2 (by simp) hl'

/-- both ends of an edge step are nodes when every edge joins listed nodes -/
theorem adj_target_mem (g : MGraph) (hg : EndpointsOk g) (x b : Nat) (h : g.Adj x b) : b ∈ g.nodes := by
  obtain ⟨e, he, h | h⟩ := h
  · exact h.2 ▸ (hg e he).2
  · exact h.2.1 ▸ (hg e he).1

/-- **absent target**: nothing is a simple path to something that is not a node -/
theorem no_simplePath_to_absent (g : MGraph) (hg : EndpointsOk g) (a b lo : Nat) (hi : Option Nat)
    (hb : b ∉ g.nodes) (p : List Nat) : ¬ IsSimplePathIn g a b lo hi p := by
  rintro ⟨_, _, hlast, hw, hlen, _⟩
  obtain ⟨x, hx⟩ := IsWalk.last_step g p b hw (by omega) hlast
  exact hb (adj_target_mem g hg x b hx)

/-- **`min > max`**: nothing has at least `lo` and at most `h < lo` intermediate nodes -/
theorem no_simplePath_empty_bounds (g : MGraph) (a b lo h : Nat) (hlt : h < lo) (p : List Nat) :
    ¬ IsSimplePathIn g a b lo (some h) p := by
  rintro ⟨_, _, _, _, hlen, hhi⟩
  have := hhi h rfl
  omega

theorem eq_nil_of_forall_not {α : Type} (l : List α) (P : α → Prop) (h : ∀ x ∈ l, P x) (hn : ∀ x, ¬ P x) : l = [] := by
  cases l with
  | nil => rfl
  | cons x t => exact absurd (h x (by simp)) (hn x)

end PetgraphModel.C20
