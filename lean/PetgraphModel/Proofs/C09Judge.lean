import PetgraphModel.Oracle.C09Judge
/-
Soundness of the C09 checkers (`Oracle/C09Judge.lean`): for ALL graphs and ALL candidate outputs,
`checker accepts → the clause of the property holds`.  Everything reduces to `reachFrom_spec`.
Core Lean only.
-/
namespace PetgraphModel.C09P
open PetgraphModel PetgraphModel.MGraph PetgraphModel.Oracle PetgraphModel.C09J

/-! ### reachability basics -/

theorem reach_trans {g : MGraph} {a b c : Nat} (h1 : Reach g a b) (h2 : Reach g b c) : Reach g a c := by
  induction h2 with
  | refl => exact h1
  | step _ hadj ih => exact Reach.step ih hadj

theorem reach_of_adj {g : MGraph} {a b : Nat} (h : g.Adj a b) : Reach g a b := Reach.step (Reach.refl a) h

theorem reach1_toReach {g : MGraph} {a b : Nat} (h : Reach1 g a b) : Reach g a b := by
  induction h with
  | single h => exact reach_of_adj h
  | step _ hadj ih => exact Reach.step ih hadj

theorem reach1_of_adj_reach {g : MGraph} {a b c : Nat} (h : g.Adj a b) (hr : Reach g b c) : Reach1 g a c := by
  induction hr with
  | refl => exact Reach1.single h
  | step _ hadj ih => exact Reach1.step ih hadj

theorem reach1_head {g : MGraph} {a c : Nat} (h : Reach1 g a c) : ∃ b, g.Adj a b ∧ Reach g b c := by
  induction h with
  | single h => exact ⟨_, h, Reach.refl _⟩
  | step _ hadj ih =>
    obtain ⟨b, hab, hbc⟩ := ih
    exact ⟨b, hab, Reach.step hbc hadj⟩

theorem reachT_sound {g : MGraph} {a b : Nat} (h : reachT g a b = true) : Reach g a b := by
  unfold reachT at h
  have h' : reachB g a b = some true := by simpa using h
  exact (reachB_spec g a b true h').mp rfl

theorem reachF_sound {g : MGraph} {a b : Nat} (h : reachF g a b = true) : ¬ Reach g a b := by
  unfold reachF at h
  have h' : reachB g a b = some false := by simpa using h
  intro hr
  have := (reachB_spec g a b false h').mpr hr
  cases this

theorem sc_refl (g : MGraph) (a : Nat) : SC g a a := ⟨Reach.refl a, Reach.refl a⟩
theorem sc_symm {g : MGraph} {a b : Nat} (h : SC g a b) : SC g b a := ⟨h.2, h.1⟩
theorem sc_trans {g : MGraph} {a b c : Nat} (h1 : SC g a b) (h2 : SC g b c) : SC g a c :=
  ⟨reach_trans h1.1 h2.1, reach_trans h2.2 h1.2⟩

/-! ### strongly connected components -/

theorem classOkB_sound {g : MGraph} {c : List Nat} (h : classOkB g c = true) :
    c ≠ [] ∧ ∀ x ∈ c, ∀ y, y ∈ c ↔ SC g x y := by
  cases c with
  | nil => simp [classOkB] at h
  | cons hd tl =>
    simp only [classOkB, Bool.and_eq_true, List.all_eq_true] at h
    obtain ⟨hall, hr⟩ := h
    have hsc : ∀ y ∈ hd :: tl, SC g hd y := fun y hy =>
      ⟨reachT_sound (hall y hy).1, reachT_sound (hall y hy).2⟩
    refine ⟨by simp, ?_⟩
    cases hrf : reachFrom g hd with
    | none => simp [hrf] at hr
    | some r =>
      simp only [hrf, List.all_eq_true, Bool.or_eq_true] at hr
      have hspec := (reachFrom_spec g hd r hrf).2
      intro x hx y
      constructor
      · intro hy
        exact sc_trans (sc_symm (hsc x hx)) (hsc y hy)
      · intro hxy
        have hhy : SC g hd y := sc_trans (hsc x hx) hxy
        have hyr : y ∈ r := (hspec y).mpr hhy.1
        cases hr y hyr with
        | inl h => simpa using h
        | inr h => exact absurd hhy.2 (reachF_sound h)

theorem coverOkB_sound {g : MGraph} {comps : List (List Nat)} (h : coverOkB g comps = true) :
    comps.flatten.Nodup ∧ ∀ x, x ∈ comps.flatten ↔ x ∈ g.nodes := by
  simp only [coverOkB, Bool.and_eq_true, decide_eq_true_eq, List.all_eq_true, List.contains_iff_mem] at h
  exact ⟨h.1.1, fun x => ⟨h.1.2 x, h.2 x⟩⟩

theorem partOkB_sound {g : MGraph} {comps : List (List Nat)} (h : partOkB g comps = true) :
    PartSpec g comps := by
  simp only [partOkB, Bool.and_eq_true, List.all_eq_true] at h
  have hc := coverOkB_sound h.1
  exact ⟨fun c hc' => (classOkB_sound (h.2 c hc')).1, hc.1, hc.2,
    fun c hc' => (classOkB_sound (h.2 c hc')).2⟩

theorem orderOkB_sound {g : MGraph} : ∀ {comps : List (List Nat)},
    (∀ c ∈ comps, ∀ x ∈ c, ∀ y, y ∈ c ↔ SC g x y) → orderOkB g comps = true →
    comps.Pairwise fun ci cj => ∀ x ∈ ci, ∀ y ∈ cj, ¬ Reach g x y := by
  intro comps
  induction comps with
  | nil => intro _ _; exact List.Pairwise.nil
  | cons c rest ih =>
    intro hcl h
    simp only [orderOkB, Bool.and_eq_true, List.all_eq_true] at h
    refine List.Pairwise.cons ?_ (ih (fun c' hc' => hcl c' (List.mem_cons_of_mem _ hc')) h.2)
    intro d hd x hx y hy hxy
    have hh := h.1 d hd
    cases c with
    | nil => cases hx
    | cons hc tc =>
      cases d with
      | nil => cases hy
      | cons kd td =>
        simp only at hh
        have hcx : SC g x hc := ((hcl _ (List.mem_cons_self ..)) x hx hc).mp (List.mem_cons_self ..)
        have hdy : SC g y kd := ((hcl _ (List.mem_cons_of_mem _ hd)) y hy kd).mp (List.mem_cons_self ..)
        exact reachF_sound hh (reach_trans hcx.2 (reach_trans hxy hdy.1))

theorem sccOkB_sound {g : MGraph} {comps : List (List Nat)} (h : sccOkB g comps = true) :
    SccSpec g comps := by
  simp only [sccOkB, Bool.and_eq_true] at h
  have hp := partOkB_sound h.1
  exact ⟨hp.nonempty, hp.nodup, hp.cover, hp.classes, orderOkB_sound hp.classes h.2⟩

theorem SccSpec.toPart {g : MGraph} {comps : List (List Nat)} (h : SccSpec g comps) : PartSpec g comps :=
  ⟨h.nonempty, h.nodup, h.cover, h.classes⟩

/-- the partition is determined: "in one component" is "a node, mutually reachable" -/
theorem part_same_iff {g : MGraph} {comps : List (List Nat)} (h : PartSpec g comps) (x y : Nat) :
    (∃ c ∈ comps, x ∈ c ∧ y ∈ c) ↔ (x ∈ g.nodes ∧ SC g x y) := by
  constructor
  · rintro ⟨c, hc, hx, hy⟩
    exact ⟨(h.cover x).mp (List.mem_flatten.mpr ⟨c, hc, hx⟩), (h.classes c hc x hx y).mp hy⟩
  · rintro ⟨hx, hxy⟩
    obtain ⟨c, hc, hxc⟩ := List.mem_flatten.mp ((h.cover x).mpr hx)
    exact ⟨c, hc, hxc, (h.classes c hc x hxc y).mpr hxy⟩

theorem sameComp_iff (comps : List (List Nat)) (x y : Nat) :
    sameComp comps x y = true ↔ ∃ c ∈ comps, x ∈ c ∧ y ∈ c := by
  simp [sameComp, List.any_eq_true]

theorem indexOkB_sound {comps : List (List Nat)} {idx : List (Nat × Nat)} (h : indexOkB comps idx = true) :
    IndexSpec comps idx := by
  simp only [indexOkB, Bool.and_eq_true, List.all_eq_true, List.any_eq_true] at h
  constructor
  · intro c hc x hx
    obtain ⟨p, hp, hpx⟩ := h.1 c hc x hx
    have : p.1 = x := by simpa using hpx
    exact ⟨p.2, by rw [← this]; exact hp⟩
  · intro x i y j hxi hyj
    have := h.2 (x, i) hxi (y, j) hyj
    simp only at this
    rw [← sameComp_iff]
    cases hs : sameComp comps x y <;> simp [hs] at this ⊢ <;> exact this

/-! ### weakly connected components -/

theorem wccReps_sound (g : MGraph) (N : List Nat) : ∀ (todo reps out : List Nat),
    wccReps g todo reps = some out →
    (reps.Pairwise fun a b => ¬ Reach g.undirect a b) → (∀ r ∈ reps, r ∈ N) → (∀ x ∈ todo, x ∈ N) →
    (out.Pairwise fun a b => ¬ Reach g.undirect a b) ∧ (∀ r ∈ out, r ∈ N) ∧
    (∀ x, (∃ r ∈ reps, Reach g.undirect r x) → ∃ r ∈ out, Reach g.undirect r x) ∧
    (∀ x ∈ todo, ∃ r ∈ out, Reach g.undirect r x) := by
  intro todo
  induction todo with
  | nil =>
    intro reps out h hp hn _
    simp [wccReps] at h; subst h
    exact ⟨hp, hn, fun x hx => hx, by simp⟩
  | cons x xs ih =>
    intro reps out h hp hn ht
    simp only [wccReps] at h
    split at h
    · rename_i hany
      obtain ⟨h1, h2, h3, h4⟩ := ih reps out h hp hn (fun y hy => ht y (List.mem_cons_of_mem _ hy))
      refine ⟨h1, h2, h3, ?_⟩
      intro y hy
      cases List.mem_cons.mp hy with
      | inl hyx =>
        subst hyx
        obtain ⟨r, hr, hrx⟩ := List.any_eq_true.mp hany
        exact h3 y ⟨r, hr, reachT_sound hrx⟩
      | inr hy => exact h4 y hy
    · split at h
      · rename_i hall
        have hall' := List.all_eq_true.mp hall
        have hp' : (reps ++ [x]).Pairwise fun a b => ¬ Reach g.undirect a b := by
          rw [List.pairwise_append]
          refine ⟨hp, List.pairwise_singleton _ _, ?_⟩
          intro a ha b hb
          have : b = x := by simpa using hb
          subst this
          exact reachF_sound (hall' a ha)
        have hn' : ∀ r ∈ reps ++ [x], r ∈ N := by
          intro r hr
          cases List.mem_append.mp hr with
          | inl h => exact hn r h
          | inr h =>
            have : r = x := by simpa using h
            subst this; exact ht r (List.mem_cons_self ..)
        obtain ⟨h1, h2, h3, h4⟩ := ih (reps ++ [x]) out h hp' hn' (fun y hy => ht y (List.mem_cons_of_mem _ hy))
        refine ⟨h1, h2, ?_, ?_⟩
        · rintro y ⟨r, hr, hry⟩
          exact h3 y ⟨r, List.mem_append_left _ hr, hry⟩
        · intro y hy
          cases List.mem_cons.mp hy with
          | inl hyx =>
            subst hyx
            exact h3 y ⟨y, List.mem_append_right _ (List.mem_singleton.mpr rfl), Reach.refl _⟩
          | inr hy => exact h4 y hy
      · cases h

theorem wccCount_sound {g : MGraph} {k : Nat} (h : wccCount g = some k) : IsWccCount g k := by
  unfold wccCount at h
  cases hr : wccReps g g.nodes [] with
  | none => simp [hr] at h
  | some reps =>
    simp [hr] at h
    obtain ⟨h1, h2, _, h4⟩ := wccReps_sound g g.nodes g.nodes [] reps hr List.Pairwise.nil (by simp) (fun x hx => hx)
    exact ⟨reps, h, h2, h4, h1⟩

/-! ### cycles -/

theorem cycDYes_sound {g : MGraph} (h : cycDYes g = true) : CyclicD g := by
  simp only [cycDYes, List.any_eq_true] at h
  obtain ⟨e, he, hr⟩ := h
  exact ⟨e.src, reach1_of_adj_reach ⟨e, he, Or.inl ⟨rfl, rfl⟩⟩ (reachT_sound hr)⟩

theorem cycDNo_sound {g : MGraph} (h : cycDNo g = true) : ¬ CyclicD g := by
  simp only [cycDNo, List.all_eq_true] at h
  rintro ⟨x, hx⟩
  obtain ⟨y, hxy, hyx⟩ := reach1_head hx
  have hxy' : Reach g x y := reach_of_adj hxy
  obtain ⟨e, he, hcase⟩ := hxy
  rcases hcase with ⟨h1, h2⟩ | ⟨_, h1, h2⟩
  · exact reachF_sound (h e he) (by rw [h1, h2]; exact hyx)
  · exact reachF_sound (h e he) (by rw [h1, h2]; exact hxy')

theorem cycUYes_sound {g : MGraph} (h : cycUYes g = true) : CyclicU g := by
  simp only [cycUYes, List.any_eq_true] at h
  obtain ⟨i, _, hi⟩ := h
  cases he : g.edges[i]? with
  | none => simp [he] at hi
  | some e =>
    simp only [he] at hi
    exact ⟨i, e, he, reachT_sound hi⟩

theorem cycUNo_sound {g : MGraph} (h : cycUNo g = true) : ¬ CyclicU g := by
  simp only [cycUNo, List.all_eq_true] at h
  rintro ⟨i, e, he, hr⟩
  have hi : i < g.edges.length := by
    have := List.getElem?_eq_some_iff.mp he
    exact this.1
  have := h i (List.mem_range.mpr hi)
  simp only [he] at this
  exact reachF_sound this hr

theorem cyclicU_loop {g : MGraph} (i : Nat) (e : Edge) (he : g.edges[i]? = some e) (hl : e.src = e.tgt) :
    CyclicU g :=
  ⟨i, e, he, by rw [hl]; exact Reach.refl _⟩

theorem cyclicU_parallel {g : MGraph} (i j : Nat) (e f : Edge) (hij : i ≠ j) (he : g.edges[i]? = some e)
    (hf : g.edges[j]? = some f)
    (hp : (f.src = e.src ∧ f.tgt = e.tgt) ∨ (f.src = e.tgt ∧ f.tgt = e.src)) : CyclicU g := by
  refine ⟨i, e, he, reach_of_adj ⟨f, ?_, ?_⟩⟩
  · show f ∈ g.edges.eraseIdx i
    exact List.mem_eraseIdx_iff_getElem?.mpr ⟨j, fun h => hij h.symm, hf⟩
  · rcases hp with ⟨h1, h2⟩ | ⟨h1, h2⟩
    · exact Or.inl ⟨h1, h2⟩
    · exact Or.inr ⟨rfl, h1, h2⟩

/-! ### 2-colourability by enumeration -/

theorem allSubsets_complete (p : Nat → Bool) : ∀ l : List Nat,
    ∃ sub ∈ allSubsets l, (∀ x ∈ sub, x ∈ l) ∧ ∀ x ∈ l, sub.contains x = p x := by
  intro l
  induction l with
  | nil => exact ⟨[], by simp [allSubsets], by simp, by simp⟩
  | cons a l ih =>
    obtain ⟨sub, hsub, hsl, hp⟩ := ih
    by_cases hpa : p a = true
    · refine ⟨a :: sub, ?_, ?_, ?_⟩
      · simp only [allSubsets]
        exact List.mem_append_right _ (List.mem_map.mpr ⟨sub, hsub, rfl⟩)
      · intro x hx
        cases List.mem_cons.mp hx with
        | inl h => exact h ▸ List.mem_cons_self ..
        | inr h => exact List.mem_cons_of_mem _ (hsl x h)
      · intro x hx
        by_cases hxa : x = a
        · subst hxa; simp [hpa]
        · have hxl : x ∈ l := by
            cases List.mem_cons.mp hx with
            | inl h => exact absurd h hxa
            | inr h => exact h
          have := hp x hxl
          have hne : (x == a) = false := by simpa using hxa
          rw [List.contains_cons, hne, Bool.false_or]; exact this
    · refine ⟨sub, ?_, ?_, ?_⟩
      · simp only [allSubsets]
        exact List.mem_append_left _ hsub
      · intro x hx; exact List.mem_cons_of_mem _ (hsl x hx)
      · intro x hx
        cases List.mem_cons.mp hx with
        | inr h => exact hp x h
        | inl h =>
          subst h
          by_cases hal : x ∈ l
          · exact hp x hal
          · have : x ∉ sub := fun hs => hal (hsl x hs)
            have hc : sub.contains x = false := by simpa using this
            rw [hc]; cases hpx : p x with
            | true => exact absurd hpx hpa
            | false => rfl

theorem twoColB_sound {g : MGraph} {s : Nat} {b : Bool} (h : twoColB g s = some b) :
    b = true ↔ TwoCol g s := by
  unfold twoColB at h
  cases hr : reachFrom g s with
  | none => simp [hr] at h
  | some comp =>
    simp [hr] at h
    have hspec := (reachFrom_spec g s comp hr).2
    constructor
    · intro hb
      rw [hb] at h
      obtain ⟨sub, _, hprop⟩ := List.any_eq_true.mp h
      refine ⟨fun x => sub.contains x, ?_⟩
      intro x y hx hxy
      have hxc : x ∈ comp := (hspec x).mpr hx
      simp only [properOn, List.all_eq_true] at hprop
      have := hprop x hxc y (MGraph.mem_succ.mpr hxy)
      simpa using this
    · rintro ⟨col, hcol⟩
      obtain ⟨sub, hsub, _, hp⟩ := allSubsets_complete col comp
      have hprop : properOn g comp sub = true := by
        simp only [properOn, List.all_eq_true]
        intro x hx y hy
        have hrx : Reach g s x := (hspec x).mp hx
        have hxy : g.Adj x y := MGraph.mem_succ.mp hy
        have hyc : y ∈ comp := (hspec y).mpr (Reach.step hrx hxy)
        rw [hp x hx, hp y hyc]
        have := hcol x y hrx hxy
        cases hcx : col x <;> cases hcy : col y <;> simp_all
      cases b with
      | true => rfl
      | false =>
        have : (allSubsets comp).any (properOn g comp) = true := List.any_eq_true.mpr ⟨sub, hsub, hprop⟩
        rw [h] at this
        cases this

/-! ### toposort -/

theorem topoOkB_sound {g : MGraph} {ord : List Nat} (h : topoOkB g ord = true) : TopoOrder g ord := by
  simp only [topoOkB, Bool.and_eq_true, decide_eq_true_eq, List.all_eq_true, List.contains_iff_mem,
    Bool.or_eq_true] at h
  obtain ⟨⟨⟨hnd, h1⟩, h2⟩, h3⟩ := h
  refine ⟨hnd, fun x => ⟨h1 x, h2 x⟩, ?_⟩
  rintro a b ⟨e, he, hcase⟩
  rcases hcase with ⟨h1, h2⟩ | ⟨hd, h1, h2⟩
  · rw [← h1, ← h2]; exact (h3 e he).1
  · rw [← h1, ← h2]
    cases (h3 e he).2 with
    | inl h => rw [hd] at h; cases h
    | inr h => exact h

theorem topoOrder_reach1 {g : MGraph} {ord : List Nat} (h : TopoOrder g ord) {a b : Nat}
    (hr : Reach1 g a b) : ord.idxOf a < ord.idxOf b := by
  induction hr with
  | single hadj => exact h.forward _ _ hadj
  | step _ hadj ih => exact Nat.lt_trans ih (h.forward _ _ hadj)

theorem topoOrder_acyclic {g : MGraph} {ord : List Nat} (h : TopoOrder g ord) : ¬ CyclicD g := by
  rintro ⟨x, hx⟩
  exact Nat.lt_irrefl _ (topoOrder_reach1 h hx)

theorem onCycleB_sound {g : MGraph} {x : Nat} (h : onCycleB g x = true) : Reach1 g x x := by
  simp only [onCycleB, List.any_eq_true] at h
  obtain ⟨y, hy, hr⟩ := h
  exact reach1_of_adj_reach (MGraph.mem_succ.mp hy) (reachT_sound hr)

/-! ### condensation -/

theorem condOkB_sound {g : MGraph} {nodes : List (List Nat)} {es : List (Nat × Nat × Int)}
    (h : condOkB g nodes es = true) : CondSpec g nodes es := by
  simp only [condOkB, Bool.and_eq_true] at h
  exact ⟨partOkB_sound h.1, List.isPerm_iff.mp h.2⟩

theorem condAcyclicOkB_sound {g : MGraph} {nodes : List (List Nat)} {es : List (Nat × Nat × Int)}
    (h : condAcyclicOkB g nodes es = true) : CondAcyclicSpec g nodes es := by
  simp only [condAcyclicOkB, Bool.and_eq_true, List.all_eq_true, List.any_eq_true, decide_eq_true_eq,
    Bool.or_eq_true, beq_iff_eq, bne_iff_ne] at h
  obtain ⟨⟨⟨⟨⟨hp, hl⟩, hs⟩, hc⟩, hcomp⟩, hsound⟩ := h
  refine ⟨partOkB_sound hp, hl, hs, cycDNo_sound hc, ?_, ?_⟩
  · intro e he hne
    cases hcomp e he with
    | inl h => exact absurd h hne
    | inr h => exact h
  · intro e' he'
    exact hsound e' he'

end PetgraphModel.C09P
