import PetgraphModel.Spec.SerdeCheck
import PetgraphModel.Proofs.SerdeDe
import PetgraphModel.Proofs.SerdeRound
/-
C17 wave 4 — soundness of the executable invariant checks of `Spec/SerdeCheck.lean`.
-/
namespace PetgraphModel.SerdeProofs
open PetgraphModel.Serde PetgraphModel.SerdeCheck

theorem chainB_sound (edges : List EdgeSlot) (END k : Nat) :
    ∀ (f h : Nat) (l : List Nat), chainB edges END k f h = some l → Chain edges END k h l := by
  intro f
  induction f with
  | zero => intro h l hc; simp [chainB] at hc
  | succ f ih =>
    intro h l hc
    unfold chainB at hc
    by_cases hE : h = END
    · rw [if_pos hE] at hc
      cases hc
      subst hE
      exact .nil
    · rw [if_neg hE] at hc
      cases hs : edges[h]? with
      | none => simp [hs] at hc
      | some s =>
        simp only [hs] at hc
        cases hr : chainB edges END k f (s.next k) with
        | none => simp [hr] at hc
        | some l' =>
          simp only [hr, Option.some.injEq] at hc
          subst hc
          exact .cons h s l' hs (ih _ _ hr)

theorem dchainB_sound (nodes : List NodeSlot) (END : Nat) :
    ∀ (f prev h : Nat) (l : List Nat), dchainB nodes END f prev h = some l → DChain nodes END prev h l := by
  intro f
  induction f with
  | zero => intro p h l hc; simp [dchainB] at hc
  | succ f ih =>
    intro p h l hc
    unfold dchainB at hc
    by_cases hE : h = END
    · rw [if_pos hE] at hc
      cases hc
      subst hE
      exact .nil p
    · rw [if_neg hE] at hc
      cases hs : nodes[h]? with
      | none => simp [hs] at hc
      | some s =>
        simp only [hs] at hc
        by_cases hw : (s.w.isNone && s.n1 == p) = true
        · rw [if_pos hw] at hc
          simp only [Bool.and_eq_true, Option.isNone_iff_eq_none, beq_iff_eq] at hw
          cases hr : dchainB nodes END f h s.n0 with
          | none => simp [hr] at hc
          | some l' =>
            simp only [hr, Option.some.injEq] at hc
            subst hc
            exact .cons p h s l' hs hw.1 hw.2 (ih _ _ _ hr)
        · rw [if_neg hw] at hc
          cases hc

theorem nodupB_sound (l : List Nat) (h : nodupB l = true) : l.Nodup := by
  induction l with
  | nil => exact List.nodup_nil
  | cons x xs ih =>
    simp only [nodupB, Bool.and_eq_true, Bool.not_eq_true', List.contains_eq_mem, decide_eq_false_iff_not] at h
    exact List.nodup_cons.2 ⟨h.1, ih h.2⟩

theorem allIdx_sound {α} (p : Nat → α → Bool) :
    ∀ (l : List α) (j : Nat), allIdx p j l = true → ∀ i x, l[i]? = some x → p (j + i) x = true := by
  intro l
  induction l with
  | nil => intro j _ i x hx; simp at hx
  | cons y ys ih =>
    intro j h i x hx
    simp only [allIdx, Bool.and_eq_true] at h
    cases i with
    | zero => simp at hx; subst hx; simpa using h.1
    | succ i =>
      simp only [List.getElem?_cons_succ] at hx
      have := ih (j + 1) h.2 i x hx
      rwa [show j + 1 + i = j + (i + 1) by omega] at this

theorem exactB_sound {α} (slots : List α) (P : α → Bool) (l : List Nat) (h : exactB slots P l = true) :
    ExactList slots (fun s => P s = true) l := by
  simp only [exactB, Bool.and_eq_true, List.all_eq_true] at h
  obtain ⟨⟨h1, h2⟩, h3⟩ := h
  refine ⟨nodupB_sound l h1, fun e => ⟨fun he => ?_, fun ⟨s, hs, hp⟩ => ?_⟩⟩
  · have := h2 e he
    cases hs : slots[e]? with
    | none => simp [hs] at this
    | some s => simp only [hs] at this; exact ⟨s, rfl, this⟩
  · have := allIdx_sound _ slots 0 h3 e s hs
    simp only [Nat.zero_add, hp, Bool.not_true, Bool.false_or, List.contains_eq_mem, decide_eq_true_eq] at this
    exact this

theorem ExactList.congr {α} {slots : List α} {P Q : α → Prop} {l : List Nat} (h : ExactList slots P l)
    (hpq : ∀ s, P s ↔ Q s) : ExactList slots Q l :=
  ⟨h.1, fun e => (h.2 e).trans ⟨fun ⟨s, a, b⟩ => ⟨s, a, (hpq s).1 b⟩, fun ⟨s, a, b⟩ => ⟨s, a, (hpq s).2 b⟩⟩⟩

theorem liveAtB_sound (nodes : List NodeSlot) (i : Nat) (h : liveAtB nodes i = true) :
    ∃ a : NodeSlot, nodes[i]? = some a ∧ a.w.isSome = true := by
  unfold liveAtB at h
  cases hs : nodes[i]? with
  | none => simp [hs] at h
  | some a => simp only [hs] at h; exact ⟨a, rfl, h⟩

theorem rawInvB_sound (g : Raw) (h : rawInvB g = true) : RawInv g := by
  simp only [rawInvB, Bool.and_eq_true, decide_eq_true_eq, List.all_eq_true] at h
  obtain ⟨⟨⟨h1, h2⟩, h3⟩, h4⟩ := h
  have hnode := allIdx_sound _ g.nodes 0 h4
  refine { lenN := h1, lenE := h2, endpoints := ?_, out := ?_, inn := ?_ }
  · intro e s hs hw
    have := h3 s (List.mem_of_getElem? hs)
    simp only [hw, Bool.not_true, Bool.false_or, Bool.and_eq_true] at this
    exact ⟨liveAtB_sound _ _ this.1, liveAtB_sound _ _ this.2⟩
  · intro i nd hi hw
    have := hnode i nd hi
    simp only [Nat.zero_add, hw, Bool.not_true, Bool.false_or, Bool.and_eq_true] at this
    have h0 := this.1
    cases hc : chainB g.edges g.END 0 (g.edges.length + 1) nd.n0 with
    | none => simp [hc] at h0
    | some l =>
      simp only [hc] at h0
      exact ⟨l, chainB_sound _ _ _ _ _ _ hc, (exactB_sound _ _ _ h0).congr (fun s => by simp)⟩
  · intro i nd hi hw
    have := hnode i nd hi
    simp only [Nat.zero_add, hw, Bool.not_true, Bool.false_or, Bool.and_eq_true] at this
    have h0 := this.2
    cases hc : chainB g.edges g.END 1 (g.edges.length + 1) nd.n1 with
    | none => simp [hc] at h0
    | some l =>
      simp only [hc] at h0
      exact ⟨l, chainB_sound _ _ _ _ _ _ hc, (exactB_sound _ _ _ h0).congr (fun s => by simp)⟩

theorem graphInvB_sound (g : Raw) (h : graphInvB g = true) : GraphInv g := by
  simp only [graphInvB, Bool.and_eq_true, List.all_eq_true] at h
  obtain ⟨⟨h1, h2⟩, h3⟩ := h
  exact { toRawInv := rawInvB_sound g h1,
          allNodes := fun i nd hi => h2 nd (List.mem_of_getElem? hi),
          allEdges := fun e s hs => h3 s (List.mem_of_getElem? hs) }

theorem stableInvB_sound (s : Stable) (h : stableInvB s = true) : StableInv s := by
  simp only [stableInvB, Bool.and_eq_true, beq_iff_eq] at h
  obtain ⟨⟨⟨⟨h1, h2⟩, h3⟩, h4⟩, h5⟩ := h
  refine { toRawInv := rawInvB_sound s.g h1, freeEdges := ?_, freeNodes := ?_, nodeCount := h4, edgeCount := h5 }
  · cases hc : chainB s.g.edges s.g.END 0 (s.g.edges.length + 1) s.freeEdge with
    | none => simp [hc] at h2
    | some l =>
      simp only [hc] at h2
      exact ⟨l, chainB_sound _ _ _ _ _ _ hc, (exactB_sound _ _ _ h2).congr (fun s => by simp)⟩
  · cases hc : dchainB s.g.nodes s.g.END (s.g.nodes.length + 1) s.g.END s.freeNode with
    | none => simp [hc] at h3
    | some l =>
      simp only [hc] at h3
      exact ⟨l, dchainB_sound _ _ _ _ _ _ hc, (exactB_sound _ _ _ h3).congr (fun s => by simp)⟩

theorem nodupIntB_sound (l : List Int) (h : nodupIntB l = true) : l.Nodup := by
  induction l with
  | nil => exact List.nodup_nil
  | cons x xs ih =>
    simp only [nodupIntB, Bool.and_eq_true, Bool.not_eq_true', List.contains_eq_mem, decide_eq_false_iff_not] at h
    exact List.nodup_cons.2 ⟨h.1, ih h.2⟩

theorem nodupKeyB_sound (l : List (Int × Int)) (h : nodupKeyB l = true) : l.Nodup := by
  induction l with
  | nil => exact List.nodup_nil
  | cons x xs ih =>
    simp only [nodupKeyB, Bool.and_eq_true, Bool.not_eq_true', List.contains_eq_mem, decide_eq_false_iff_not] at h
    exact List.nodup_cons.2 ⟨h.1, ih h.2⟩

theorem mapWfB_sound (m : GMap) (h : mapWfB m = true) :
    (∀ a b w, ((a, b), w) ∈ m.edges → (m.nodes.map (·.1)).contains a ∧ (m.nodes.map (·.1)).contains b) ∧
    (m.nodes.map (·.1)).Nodup ∧ (m.edges.map (·.1)).Nodup ∧
    (∀ a b w, ((a, b), w) ∈ m.edges → m.directed = true ∨ a ≤ b) := by
  simp only [mapWfB, Bool.and_eq_true, List.all_eq_true] at h
  obtain ⟨⟨⟨h1, h2⟩, h3⟩, h4⟩ := h
  refine ⟨fun a b w hm => ?_, nodupIntB_sound _ h2, nodupKeyB_sound _ h3, fun a b w hm => ?_⟩
  · have := h1 _ hm
    simpa using this
  · have := h4 _ hm
    simpa using this

theorem fullOrderB_sound (order : List Field) (h : fullOrderB order = true) : FullOrder order := by
  simp only [fullOrderB, Bool.and_eq_true, List.contains_eq_mem, decide_eq_true_eq] at h
  exact ⟨h.1.1.1, h.1.1.2, h.1.2, h.2⟩

theorem graphOrderB_sound (order : List Field) (h : graphOrderB order = true) :
    Field.n ∈ order ∧ Field.p ∈ order ∧ Field.e ∈ order := by
  simp only [graphOrderB, Bool.and_eq_true, List.contains_eq_mem, decide_eq_true_eq] at h
  exact ⟨h.1.1, h.1.2, h.2⟩

end PetgraphModel.SerdeProofs
