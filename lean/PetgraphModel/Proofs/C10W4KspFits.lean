import PetgraphModel.Proofs.C10W4KspGoal
import PetgraphModel.Proofs.C10W4Bounded
/-
Bounded cost types, `k_shortest_path` (wave 4): a semantic sufficient condition for the
overflow-checked model not to abort — "no cost of a j-th cheapest walk (`j ≤ k`), extended by one more
arc, exceeds `M`".  Every sum the algorithm computes has this form: the j-th pop of a node (`j ≤ k`)
carries the cost of its j-th cheapest walk (`popped_kth`, from the invariant `KF` and the lower bound
below the heap's minimum).
-/
namespace PetgraphModel.C10P
open PetgraphModel PetgraphModel.MGraph PetgraphModel.SP PetgraphModel.C10

/-- no cost of a j-th cheapest walk from `s` (`1 ≤ j ≤ k`), extended by one more arc, exceeds `M` -/
def KspFits (g : MGraph) (s k : Nat) (M : Int) : Prop :=
  ∀ u j c b w, 1 ≤ j → j ≤ k → KthCost g s u j c → (u, b, w) ∈ g.arcs → c + w ≤ M

theorem kthCost_nonneg {g : MGraph} (hw : NonNeg g) {s u j : Nat} {c : Int} (hj : 1 ≤ j) (h : KthCost g s u j c) :
    0 ≤ c := by
  obtain ⟨ws, _, hlen, hws⟩ := h.1
  cases ws with
  | nil => simp at hlen; omega
  | cons p r =>
    obtain ⟨hp, hle⟩ := hws p (List.mem_cons_self ..)
    have := walk_nonneg hw (rwalk_walkCost p u hp)
    omega

/-- the j-th pop of a node (`j ≤ k`) carries the cost of its j-th cheapest walk -/
theorem popped_kth {pop : Pop} (hp : IsMinPop pop) {v : View} (hvm : ViewArcsM v) (hw : NonNeg v.g) {s k : Nat}
    (hk : 1 ≤ k) (hix : IxOk v s) (hinj : IxInj v s) {log : List (Int × Nat)} {st : KState} (K : KF v s k log st)
    {c : Int} {u : Nat} {h' : Heap} (hpop : pop st.heap = some ((c, u), h'))
    (hle : (popsOf log u).length + 1 ≤ k) : KthCost v.g s u ((popsOf log u).length + 1) c := by
  obtain ⟨n, _, hnlen, _, hminc, hupper', _, hexp⟩ := kf_step hp hvm hw hk hix hinj K hpop
  have KE := hexp (by omega)
  have low := kf_lower_below hw K c hminc
  have hpt : popsOf (log ++ [(c, u)]) u = popsOf log u ++ [c] := by
    rw [popsOf_append, popsOf_cons, popsOf_nil]; simp
  apply kth_of_partial (by omega) (asc_popsOf KE.sorted u) (fun c' => ⟨_, hupper' u c'⟩) c ?_ c ?_ (Int.le_refl _)
  · intro c' hc' i
    have h1 := low i u c' hc'
    have h2 : cnt c' (popsOf log u) ≤ cnt c' (popsOf (log ++ [(c, u)]) u) := by
      rw [hpt, cnt_append]; omega
    omega
  · rw [hpt, List.getElem?_append_right (by omega)]
    simp

theorem kspPushG_fits (M : Int) (v : View) (c : Int) : ∀ (rows : List (Nat × Nat)),
    (∀ be, be ∈ rows → 0 ≤ c + v.weight be.2 ∧ c + v.weight be.2 ≤ M) →
    kspPushG (addB M) v c rows = some (rows.map fun (next, eid) => (c + v.weight eid, next)) := by
  intro rows
  induction rows with
  | nil => intro _; rfl
  | cons hd rest ih =>
    intro hfit
    obtain ⟨next, eid⟩ := hd
    have h1 := hfit (next, eid) (List.mem_cons_self ..)
    have hadd : addB M c (v.weight eid) = some (c + v.weight eid) := by
      unfold addB; rw [if_pos h1]
    simp only [kspPushG, hadd, ih (fun be hbe => hfit be (List.mem_cons_of_mem _ hbe)), Option.map_some,
      List.map_cons]

theorem kspLoopG_fits {pop : Pop} (hp : IsMinPop pop) {v : View} (hvm : ViewArcsM v) (hw : NonNeg v.g) (s k : Nat)
    (hk : 1 ≤ k) (hix : IxOk v s) (hinj : IxInj v s) (M : Int) (hfit : KspFits v.g s k M) (goal : Option Nat) :
    ∀ (fuel : Nat) (log : List (Int × Nat)) (st : KState), KF v s k log st →
      kspLoopG (addB M) pop v goal k fuel st = some (kspLoop pop v goal k fuel st) := by
  have hv : ViewArcs v := hvm.viewArcs
  intro fuel
  induction fuel with
  | zero => intro log st _; rfl
  | succ f ih =>
    intro log st K
    simp only [kspLoopG, kspLoop]
    cases hpop : pop st.heap with
    | none => rfl
    | some eh =>
      obtain ⟨⟨c, u⟩, h'⟩ := eh
      simp only
      obtain ⟨n, hsome, hnlen, _, _, _, hskip, hexp⟩ := kf_step hp hvm hw hk hix hinj K hpop
      simp only [hsome]
      by_cases hgt : n + 1 > k
      · simp only [hgt, if_true]
        exact ih _ _ (hskip hgt)
      · simp only [hgt, if_false]
        have KE := hexp (by omega)
        by_cases hg : (goal == some u && n + 1 == k) = true
        · simp only [hg, if_true]
        · simp only [hg, Bool.false_eq_true, if_false]
          -- every sum of this expansion fits
          have hkth : KthCost v.g s u (n + 1) c := by
            have := popped_kth hp hvm hw hk hix hinj K hpop (by omega)
            rw [← hnlen] at this
            exact this
          have hc0 : 0 ≤ c := kthCost_nonneg hw (by omega) hkth
          have hrows : ∀ be, be ∈ v.outOf u → 0 ≤ c + v.weight be.2 ∧ c + v.weight be.2 ≤ M := by
            intro be hbe
            have harc : (u, be.1, v.weight be.2) ∈ v.g.arcs := (hv u be.1 (v.weight be.2)).mp ⟨be.2, hbe, rfl⟩
            have := hw _ _ _ harc
            exact ⟨by omega, hfit u (n + 1) c be.1 _ (by omega) (by omega) hkth harc⟩
          rw [kspPushG_fits M v c _ hrows]
          simp only
          by_cases hnk : n + 1 = k
          · rw [if_pos hnk] at KE
            simp only [if_pos hnk]
            exact ih _ _ KE
          · rw [if_neg hnk] at KE
            simp only [if_neg hnk]
            exact ih _ _ KE

/-- **no abort under the semantic bound** (k_shortest_path, any goal): if no cost of a j-th cheapest walk
(`j ≤ k`) extended by one arc exceeds `M`, the overflow-checked model is the `Int` model. -/
theorem kShortestPathG_fits {pop : Pop} (hp : IsMinPop pop) {v : View} (hvm : ViewArcsM v) (hw : NonNeg v.g) (s k : Nat)
    (hk : 1 ≤ k) (hix : IxOk v s) (hinj : IxInj v s) (M : Int) (hfit : KspFits v.g s k M) (goal : Option Nat) :
    kShortestPathG (addB M) pop v s goal k = some (kShortestPath pop v s goal k) := by
  unfold kShortestPathG kShortestPath
  exact kspLoopG_fits hp hvm hw s k hk hix hinj M hfit goal _ _ _ (kf_init v s k)

/-- an executable sufficient test for `KspFits`, from the k-walk oracle: for every `j ≤ k` the j-th
cheapest walk cost of every arc source, plus the arc, stays within `M` -/
def kspFitsB (fuel : Nat) (g : MGraph) (s k : Nat) (M : Int) : Bool :=
  (List.range k).all fun j0 =>
    match kWalksF fuel g s (j0 + 1) with
    | none => false
    | some T => g.arcs.all fun a =>
        match (kRow T a.1)[j0]? with
        | some c => decide (c + a.2.2 ≤ M)
        | none => true

theorem kspFitsB_sound (fuel : Nat) (g : MGraph) (s k : Nat) (M : Int) (h : kspFitsB fuel g s k M = true) :
    KspFits g s k M := by
  unfold kspFitsB at h
  simp only [List.all_eq_true, List.mem_range] at h
  intro u j c b w hj hjk hkc harc
  have hj0 := h (j - 1) (by omega)
  rw [show j - 1 + 1 = j by omega] at hj0
  cases hT : kWalksF fuel g s j with
  | none => rw [hT] at hj0; cases hj0
  | some T =>
    rw [hT] at hj0
    simp only [List.all_eq_true] at hj0
    have := hj0 (u, b, w) harc
    simp only [(kWalksF_kth hT hj u c).mpr hkc, decide_eq_true_eq] at this
    exact this

end PetgraphModel.C10P
