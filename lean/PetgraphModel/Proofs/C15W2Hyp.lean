import PetgraphModel.Proofs.C15W2Main
/-
C15 wave 2 — the hypotheses on the view: the vacancy condition, and how `VHyp` follows from the exact
description of the neighbour rows.
-/
namespace PetgraphModel.C15W2
open PetgraphModel PetgraphModel.C15 PetgraphModel.C15M PetgraphModel.C15P

/-- `from_index` of an index below `node_bound` that no live node has is not a live node (for
`StableGraph` a vacant index; `from_index` then names a node without edges) -/
def VacOk (v : View) : Prop :=
  ∀ i, i < v.nb → (∀ a ∈ v.g.nodes, v.toIndex a ≠ i) → fromIndex v i ∉ v.g.nodes

/-- executable form of `VacOk` -/
def vacOkB (v : View) : Bool :=
  (List.range v.nb).all fun i =>
    v.g.nodes.any (fun a => v.toIndex a == i) || !v.g.nodes.contains (fromIndex v i)

theorem vacOkB_sound (v : View) (h : vacOkB v = true) : VacOk v := by
  intro i hi hno hin
  unfold vacOkB at h
  have := List.all_eq_true.mp h i (List.mem_range.mpr hi)
  simp only [Bool.or_eq_true, List.any_eq_true, beq_iff_eq, Bool.not_eq_true', List.contains_eq_mem,
    decide_eq_false_iff_not] at this
  rcases this with ⟨a, ha, e⟩ | h'
  · exact hno a ha e
  · exact h' hin

/-- executable form of the exactness of the neighbour rows (`ViewExact` of `Theorems/C15.lean`) -/
def viewExactB (v : View) : Bool :=
  nodupB (v.g.edges.map (·.id)) &&
  v.out.all (fun r => r.2.all fun be => v.g.edges.any fun e =>
    e.id == be.2 && ((e.src == r.1 && e.tgt == be.1) || (!v.g.directed && e.src == be.1 && e.tgt == r.1))) &&
  v.g.edges.all (fun e => (v.outOf e.src).contains (e.tgt, e.id) &&
    (v.g.directed || (v.outOf e.tgt).contains (e.src, e.id))) &&
  v.inn.all (fun r => r.2.all fun be => v.g.edges.any fun e =>
    e.id == be.2 && ((e.src == be.1 && e.tgt == r.1) || (!v.g.directed && e.src == r.1 && e.tgt == be.1))) &&
  v.g.edges.all (fun e => (v.innOf e.tgt).contains (e.src, e.id))

theorem edge_eq_of_id {es : List Edge} (hn : (es.map (·.id)).Nodup) {e e' : Edge} (he : e ∈ es) (he' : e' ∈ es)
    (hid : e.id = e'.id) : e = e' := by
  induction es with
  | nil => cases he
  | cons x xs ih =>
    simp only [List.map_cons, List.nodup_cons, List.mem_map, not_exists, not_and] at hn
    cases List.mem_cons.mp he with
    | inl h1 =>
      cases List.mem_cons.mp he' with
      | inl h2 => rw [h1, h2]
      | inr h2 => exact absurd (by rw [← h1, hid]) (hn.1 e' h2)
    | inr h1 =>
      cases List.mem_cons.mp he' with
      | inl h2 => exact absurd (by rw [← h2, ← hid]) (hn.1 e h1)
      | inr h2 => exact ih hn.2 h1 h2

/-- `VHyp` from the index conditions, well-formedness, the exact rows and the vacancy condition -/
theorem VHyp.of_exact (v : View) (mode : Nat) (hix : IxOk v) (hwf : v.g.WellFormed)
    (hids : (v.g.edges.map (·.id)).Nodup)
    (hout : ∀ a b eid, (b, eid) ∈ v.outOf a → ∃ e ∈ v.g.edges, e.id = eid ∧
      ((e.src = a ∧ e.tgt = b) ∨ (v.g.directed = false ∧ e.src = b ∧ e.tgt = a)))
    (hvac : VacOk v) : VHyp v mode := by
  refine ⟨hix, hwf.1, ?_, ?_, hvac⟩
  · intro a b eid h
    obtain ⟨e, he, _, hh⟩ := hout a b eid h
    have hn := hwf.2 e he
    rcases hh with ⟨h1, h2⟩ | ⟨_, h1, h2⟩
    · exact ⟨h1 ▸ hn.1, h2 ▸ hn.2, fun hne => ⟨hne, e, he, Or.inl ⟨h1, h2⟩⟩⟩
    · exact ⟨h2 ▸ hn.2, h1 ▸ hn.1, fun hne => ⟨hne, e, he, Or.inr ⟨h1, h2⟩⟩⟩
  · intro a b eid a' b' eid' h h' hk
    unfold edgeKey at hk
    by_cases m0 : (mode == 0) = true
    · rw [if_pos m0, if_pos m0] at hk
      have hid : eid = eid' := (Prod.mk.inj hk).1
      obtain ⟨e, he, e1, hh⟩ := hout a b eid h
      obtain ⟨e', he', e1', hh'⟩ := hout a' b' eid' h'
      have : e = e' := edge_eq_of_id hids he he' (by rw [e1, e1', hid])
      subst this
      rcases hh with ⟨h1, h2⟩ | ⟨_, h1, h2⟩ <;> rcases hh' with ⟨h1', h2'⟩ | ⟨_, h1', h2'⟩
      · exact Or.inl ⟨h1.symm.trans h1', h2.symm.trans h2'⟩
      · exact Or.inr ⟨h1.symm.trans h1', h2.symm.trans h2'⟩
      · exact Or.inr ⟨h2.symm.trans h2', h1.symm.trans h1'⟩
      · exact Or.inl ⟨h2.symm.trans h2', h1.symm.trans h1'⟩
    · rw [if_neg m0, if_neg m0] at hk
      by_cases m1 : (mode == 1) = true
      · rw [if_pos m1, if_pos m1] at hk
        have := (Prod.mk.inj (Prod.mk.inj hk).2)
        exact Or.inl ⟨this.1, this.2⟩
      · rw [if_neg m1, if_neg m1] at hk
        have := (Prod.mk.inj (Prod.mk.inj hk).2)
        exact Or.inl ⟨this.1, this.2⟩

theorem nodup_of_nodup_map {α β : Type} (f : α → β) : ∀ (l : List α), (l.map f).Nodup → l.Nodup
  | [], _ => List.nodup_nil
  | a :: l, h => by
    rw [List.map_cons, List.nodup_cons] at h
    rw [List.nodup_cons]
    exact ⟨fun hm => h.1 (List.mem_map.mpr ⟨a, hm, rfl⟩), nodup_of_nodup_map f l h.2⟩

theorem swap_inj {p q : Nat × Nat} (e : Prod.swap p = Prod.swap q) : p = q := by
  obtain ⟨a, b⟩ := p
  obtain ⟨c, d⟩ := q
  simp only [Prod.swap, Prod.mk.injEq] at e
  rw [e.1, e.2]

/-- the number of matched pairs of a well-formed `Matching` is `n_edges` -/
theorem pairs_length (v : View) (hnd : v.g.nodes.Nodup) (m : Matching) (hm : MWF v m) :
    (pairsOf (mateTable v m)).length = m.nEdges := by
  have hT : (mateTable v m).Nodup := by
    have hk : ((mateTable v m).map (·.1)).Nodup := hnd.sublist (mateTable_keys_sublist v m)
    exact nodup_of_nodup_map _ _ hk
  have hlen : (mateTable v m).length = 2 * m.nEdges := by
    rw [hm.cntN, ← List.countP_eq_length_filter]
    unfold mateTable
    rw [length_filterMap_eq_countP]
    apply List.countP_congr
    intro a _
    simp
  have hmem := mem_mateTable v m
  have hsplit : (mateTable v m).countP (fun _ => true) =
      (mateTable v m).countP (fun p => decide (p.1 < p.2)) + (mateTable v m).countP (fun p => decide (p.2 < p.1)) := by
    apply countP_split
    intro p hp
    obtain ⟨a, b⟩ := p
    obtain ⟨ha, hb⟩ := (hmem a b).mp hp
    have hne : a ≠ b := fun e => hm.irrefl a ha (e ▸ hb)
    by_cases h : a < b
    · have : ¬ b < a := by omega
      simp [h, this]
    · have : b < a := by omega
      simp [h, this]
  have hAB : (mateTable v m).countP (fun p => decide (p.1 < p.2)) ≤ (mateTable v m).countP (fun p => decide (p.2 < p.1)) := by
    apply countP_le_of_inj _ _ Prod.swap _ hT
    · intro p hp hA
      obtain ⟨a, b⟩ := p
      obtain ⟨ha, hb⟩ := (hmem a b).mp hp
      exact ⟨(hmem b a).mpr ⟨hm.mate_mem hb, hm.symm a ha b hb⟩, by simpa using hA⟩
    · intro p _ q _ _ _ e
      exact swap_inj e
  have hBA : (mateTable v m).countP (fun p => decide (p.2 < p.1)) ≤ (mateTable v m).countP (fun p => decide (p.1 < p.2)) := by
    apply countP_le_of_inj _ _ Prod.swap _ hT
    · intro p hp hA
      obtain ⟨a, b⟩ := p
      obtain ⟨ha, hb⟩ := (hmem a b).mp hp
      exact ⟨(hmem b a).mpr ⟨hm.mate_mem hb, hm.symm a ha b hb⟩, by simpa using hA⟩
    · intro p _ q _ _ _ e
      exact swap_inj e
  have htot : (mateTable v m).countP (fun _ => true) = (mateTable v m).length := by simp
  unfold pairsOf
  rw [← List.countP_eq_length_filter]
  omega

end PetgraphModel.C15W2
