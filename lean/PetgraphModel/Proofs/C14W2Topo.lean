import PetgraphModel.Proofs.AcyclicNP
import PetgraphModel.Proofs.AcyclicTS
/-
`try_from_graph` / `TryFrom` (completeness): the mirror model of `algo::toposort` accepts every
acyclic view.

* `tsLoop_dag` / `tsPhase1_dag` — on a view without a directed cycle the first phase never reports a
  self-loop and keeps the invariant `DagInv`: above the topmost entry of a gray (discovered,
  unfinished) node the stack holds only proper descendants of it, every successor of a gray node is
  finished or still above it, and in the finish stack every successor of a node lies after it
  (reverse post-order of a DAG).  No fuel assumption.
* `tsLoop_total` / `tsPhase1_total` — the fuel measure `stack length + needL` decreases at every
  iteration, so `needL … + 2 ≤ fuel` is enough for every restart of the loop.
* `tsPhase2_total` — on an order in which every predecessor comes first, the second phase (the `Dfs`
  over `Reversed(g)`) emits exactly one node per restart and needs one unit of fuel.
* `setAll_total`, `tryFromGraph_complete*` — the positions are then assigned without a bound failure.
-/
namespace PetgraphModel.AcyW2
open PetgraphModel PetgraphModel.MGraph PetgraphModel.Oracle PetgraphModel.Dag PetgraphModel.Acy
open PetgraphModel.AcyProofs PetgraphModel.AcyPK PetgraphModel.AcyNP PetgraphModel.AcyTS

/-! ### list splitting -/

theorem exists_first {y : Nat} : ∀ {l : List Nat}, y ∈ l → ∃ p q, l = p ++ y :: q ∧ y ∉ p := by
  intro l
  induction l with
  | nil => intro h; cases h
  | cons a l ih =>
    intro h
    by_cases hay : a = y
    · subst hay; exact ⟨[], l, rfl, by simp⟩
    · have hm : y ∈ l := by
        rcases List.mem_cons.mp h with h' | h'
        · exact absurd h'.symm hay
        · exact h'
      obtain ⟨p, q, h1, h2⟩ := ih hm
      refine ⟨a :: p, q, by rw [h1]; rfl, ?_⟩
      intro hh
      rcases List.mem_cons.mp hh with h' | h'
      · exact hay h'.symm
      · exact h2 h'

/-- an element that is not in `A` and occurs in `A ++ L` splits inside `L` -/
theorem split_after {x : Nat} : ∀ {A L pre post : List Nat}, A ++ L = pre ++ x :: post → x ∉ A →
    x ∉ pre → ∃ pre0, pre = A ++ pre0 ∧ L = pre0 ++ x :: post := by
  intro A
  induction A with
  | nil => intro L pre post h _ _; exact ⟨pre, rfl, h⟩
  | cons a A ih =>
    intro L pre post h hxA hxp
    cases pre with
    | nil =>
      simp only [List.cons_append, List.nil_append, List.cons.injEq] at h
      exact absurd (h.1 ▸ List.mem_cons_self ..) hxA
    | cons b pre' =>
      simp only [List.cons_append, List.cons.injEq] at h
      obtain ⟨rfl, h'⟩ := h
      obtain ⟨pre0, h1, h2⟩ := ih h' (fun hh => hxA (List.mem_cons_of_mem _ hh))
        (fun hh => hxp (List.mem_cons_of_mem _ hh))
      exact ⟨pre0, by rw [h1]; rfl, h2⟩

/-! ### `tsPush` without a self-loop: the undiscovered successors go on top of the stack -/

theorem tsPush_app (nx : Nat) (disc : List Nat) : ∀ (ys st : List Nat), nx ∉ ys →
    ∃ A, tsPush nx disc ys st = (none, A ++ st) ∧ A.length ≤ ys.length ∧
      (∀ z, z ∈ A → z ∈ ys ∧ z ∉ disc) ∧ (∀ y, y ∈ ys → y ∉ disc → y ∈ A) := by
  intro ys
  induction ys with
  | nil => intro st _; exact ⟨[], rfl, Nat.le_refl _, (by intro z hz; cases hz), (by intro y hy; cases hy)⟩
  | cons y ys ih =>
    intro st hn
    have hy : ¬ y = nx := fun h => hn (h ▸ List.mem_cons_self ..)
    have hn' : nx ∉ ys := fun h => hn (List.mem_cons_of_mem _ h)
    simp only [tsPush, hy, ↓reduceIte]
    by_cases hd : disc.contains y = true
    · simp only [hd, ↓reduceIte]
      obtain ⟨A, h1, h2, h3, h4⟩ := ih st hn'
      refine ⟨A, h1, by simp only [List.length_cons]; omega, ?_, ?_⟩
      · intro z hz; exact ⟨List.mem_cons_of_mem _ (h3 z hz).1, (h3 z hz).2⟩
      · intro w hw hwd
        rcases List.mem_cons.mp hw with rfl | hw
        · exact absurd (by simpa using hd) hwd
        · exact h4 w hw hwd
    · simp only [hd]
      obtain ⟨A, h1, h2, h3, h4⟩ := ih (y :: st) hn'
      refine ⟨A ++ [y], by simpa using h1, by simp only [List.length_append, List.length_cons, List.length_nil]; omega, ?_, ?_⟩
      · intro z hz
        rcases List.mem_append.mp hz with hz | hz
        · exact ⟨List.mem_cons_of_mem _ (h3 z hz).1, (h3 z hz).2⟩
        · have : z = y := by simpa using hz
          subst this
          exact ⟨List.mem_cons_self .., by simpa using hd⟩
      · intro w hw hwd
        rcases List.mem_cons.mp hw with rfl | hw
        · simp
        · exact List.mem_append_left _ (h4 w hw hwd)

/-! ### first phase on a view without a cycle -/

structure DagInv (v : View) (t : TS) : Prop where
  finEq : t.finStack = t.fin
  grayStack : ∀ x, x ∈ t.disc → x ∈ t.fin ∨ x ∈ t.stack
  /-- at the topmost stack entry of a gray node: everything above is a proper descendant, and every
  successor is finished or above -/
  gray : ∀ pre x post, t.stack = pre ++ x :: post → x ∈ t.disc → x ∉ t.fin → x ∉ pre →
    (∀ z, z ∈ pre → Reach1 v.g x z) ∧ (∀ y, y ∈ v.succ x → y ∈ t.fin ∨ y ∈ pre)
  /-- in the finish stack (last finished first) every successor of a node comes after it -/
  order : ∀ pre x post, t.finStack = pre ++ x :: post → ∀ y, y ∈ v.succ x → y ∈ post

theorem dagInv_empty (v : View) : DagInv v {} :=
  ⟨rfl, (by intro x hx; cases hx), (by intro pre x post h; cases pre <;> cases h),
    (by intro pre x post h; cases pre <;> cases h)⟩

theorem tsLoop_dag (v : View) (hv : ViewOk v) (hac : Dag.Acyclic v.g) : ∀ (f : Nat) (t : TS) (r : Sum Nat TS),
    DagInv v t → tsLoop v f t = some r → ∃ t', r = .inr t' ∧ DagInv v t' ∧ t'.stack = [] := by
  have hnl : ∀ x, x ∉ v.succ x := fun x hx => hac x (Reach1.single ((hv.1 x x).mp hx))
  intro f
  induction f with
  | zero => intro t r _ h; simp [tsLoop] at h
  | succ f ih =>
    intro t r hinv h
    simp only [tsLoop] at h
    split at h
    · rename_i hst
      cases h
      exact ⟨t, rfl, hinv, hst⟩
    rename_i nx rest hst
    split at h
    · -- discover `nx`
      rename_i hnd
      have hnd' : nx ∉ t.disc := by simpa using hnd
      obtain ⟨A, hA, _, hA3, hA4⟩ := tsPush_app nx (nx :: t.disc) (v.succ nx) t.stack (hnl nx)
      rw [hA] at h
      simp only at h
      refine ih _ r ?_ h
      have hnxA : nx ∉ A := fun hh => hnl nx (hA3 nx hh).1
      refine ⟨hinv.finEq, ?_, ?_, hinv.order⟩
      · intro x hx
        rcases List.mem_cons.mp hx with rfl | hx
        · exact Or.inr (List.mem_append_right _ (by rw [hst]; exact List.mem_cons_self ..))
        · rcases hinv.grayStack x hx with h' | h'
          · exact Or.inl h'
          · exact Or.inr (List.mem_append_right _ h')
      · intro pre x post hsplit hxd hxf hxp
        simp only at hsplit hxd hxf
        by_cases hxn : x = nx
        · subst hxn
          rw [hst] at hsplit
          obtain ⟨pre0, hp1, hp2⟩ := split_after hsplit hnxA hxp
          have hpre0 : pre0 = [] := by
            cases pre0 with
            | nil => rfl
            | cons b pre0' =>
              simp only [List.cons_append, List.cons.injEq] at hp2
              exact absurd (by rw [hp1, ← hp2.1]; simp) hxp
          subst hpre0
          simp only [List.append_nil] at hp1
          subst hp1
          refine ⟨fun z hz => Reach1.single ((hv.1 x z).mp (hA3 z hz).1), ?_⟩
          intro y hy
          by_cases hyd : y ∈ x :: t.disc
          · rcases List.mem_cons.mp hyd with rfl | hyd
            · exact absurd hy (hnl _)
            · by_cases hyf : y ∈ t.fin
              · exact Or.inl hyf
              · exfalso
                have hys : y ∈ t.stack := by
                  rcases hinv.grayStack y hyd with h' | h'
                  · exact absurd h' hyf
                  · exact h'
                obtain ⟨p, q, hs1, hs2⟩ := exists_first hys
                have hxp' : x ∈ p := by
                  rw [hst] at hs1
                  cases p with
                  | nil =>
                    simp only [List.nil_append, List.cons.injEq] at hs1
                    exact absurd (hs1.1 ▸ hy) (hnl _)
                  | cons b p' =>
                    simp only [List.cons_append, List.cons.injEq] at hs1
                    rw [hs1.1]; exact List.mem_cons_self ..
                have hr := (hinv.gray p y q hs1 hyd hyf hs2).1 x hxp'
                exact hac y (Reach1.step hr ((hv.1 x y).mp hy))
          · exact Or.inr (hA4 y hy hyd)
        · have hxd' : x ∈ t.disc := by
            rcases List.mem_cons.mp hxd with h' | h'
            · exact absurd h' hxn
            · exact h'
          have hxA : x ∉ A := fun hh => (hA3 x hh).2 hxd
          obtain ⟨pre0, hp1, hp2⟩ := split_after hsplit hxA hxp
          have hxp0 : x ∉ pre0 := fun hh => hxp (by rw [hp1]; exact List.mem_append_right _ hh)
          obtain ⟨g1, g2⟩ := hinv.gray pre0 x post hp2 hxd' hxf hxp0
          have hnx0 : nx ∈ pre0 := by
            rw [hst] at hp2
            cases pre0 with
            | nil =>
              simp only [List.nil_append, List.cons.injEq] at hp2
              exact absurd hp2.1.symm hxn
            | cons b p' =>
              simp only [List.cons_append, List.cons.injEq] at hp2
              rw [hp2.1]; exact List.mem_cons_self ..
          refine ⟨?_, ?_⟩
          · intro z hz
            rw [hp1] at hz
            rcases List.mem_append.mp hz with hz | hz
            · exact Reach1.step (g1 nx hnx0) ((hv.1 nx z).mp (hA3 z hz).1)
            · exact g1 z hz
          · intro y hy
            rcases g2 y hy with h' | h'
            · exact Or.inl h'
            · exact Or.inr (by rw [hp1]; exact List.mem_append_right _ h')
    rename_i hd
    have hd' : nx ∈ t.disc := by simpa using hd
    split at h
    · -- finish `nx`
      rename_i hnf
      have hnf' : nx ∉ t.fin := by simpa using hnf
      refine ih _ r ?_ h
      refine ⟨by simp [hinv.finEq], ?_, ?_, ?_⟩
      · intro x hx
        rcases hinv.grayStack x hx with h' | h'
        · exact Or.inl (List.mem_cons_of_mem _ h')
        · rw [hst] at h'
          rcases List.mem_cons.mp h' with rfl | h''
          · exact Or.inl (List.mem_cons_self ..)
          · exact Or.inr h''
      · intro pre x post hsplit hxd hxf hxp
        simp only at hsplit hxd hxf
        have hxn : x ≠ nx := fun hh => hxf (hh ▸ List.mem_cons_self ..)
        have hxf' : x ∉ t.fin := fun hh => hxf (List.mem_cons_of_mem _ hh)
        have hs : t.stack = (nx :: pre) ++ x :: post := by rw [hst, hsplit]; rfl
        have hxp' : x ∉ nx :: pre := by
          intro hh
          rcases List.mem_cons.mp hh with h' | h'
          · exact hxn h'
          · exact hxp h'
        obtain ⟨g1, g2⟩ := hinv.gray (nx :: pre) x post hs hxd hxf' hxp'
        refine ⟨fun z hz => g1 z (List.mem_cons_of_mem _ hz), ?_⟩
        intro y hy
        rcases g2 y hy with h' | h'
        · exact Or.inl (List.mem_cons_of_mem _ h')
        · rcases List.mem_cons.mp h' with rfl | h''
          · exact Or.inl (List.mem_cons_self ..)
          · exact Or.inr h''
      · intro pre x post hsplit y hy
        simp only at hsplit
        cases pre with
        | nil =>
          simp only [List.nil_append, List.cons.injEq] at hsplit
          obtain ⟨rfl, hpost⟩ := hsplit
          have hs : t.stack = [] ++ nx :: rest := by rw [hst]; rfl
          rcases (hinv.gray [] nx rest hs hd' hnf' (by simp)).2 y hy with h' | h'
          · rw [← hpost, hinv.finEq]; exact h'
          · cases h'
        | cons b pre' =>
          simp only [List.cons_append, List.cons.injEq] at hsplit
          exact hinv.order pre' x post hsplit.2 y hy
    · -- `nx` already finished: pop
      rename_i hf
      have hf' : nx ∈ t.fin := by simpa using hf
      refine ih _ r ?_ h
      refine ⟨hinv.finEq, ?_, ?_, hinv.order⟩
      · intro x hx
        rcases hinv.grayStack x hx with h' | h'
        · exact Or.inl h'
        · rw [hst] at h'
          rcases List.mem_cons.mp h' with rfl | h''
          · exact Or.inl hf'
          · exact Or.inr h''
      · intro pre x post hsplit hxd hxf hxp
        simp only at hsplit hxd hxf
        have hxn : x ≠ nx := fun hh => hxf (hh ▸ hf')
        have hs : t.stack = (nx :: pre) ++ x :: post := by rw [hst, hsplit]; rfl
        have hxp' : x ∉ nx :: pre := by
          intro hh
          rcases List.mem_cons.mp hh with h' | h'
          · exact hxn h'
          · exact hxp h'
        obtain ⟨g1, g2⟩ := hinv.gray (nx :: pre) x post hs hxd hxf hxp'
        refine ⟨fun z hz => g1 z (List.mem_cons_of_mem _ hz), ?_⟩
        intro y hy
        rcases g2 y hy with h' | h'
        · exact Or.inl h'
        · rcases List.mem_cons.mp h' with rfl | h''
          · exact Or.inl hf'
          · exact Or.inr h''

theorem tsPhase1_dag (v : View) (hv : ViewOk v) (hac : Dag.Acyclic v.g) (fuel : Nat) :
    ∀ (is : List Nat) (t : TS) (r : Sum Nat TS), DagInv v t → t.stack = [] →
      tsPhase1 v fuel is t = some r → ∃ t', r = .inr t' ∧ DagInv v t' ∧ t'.stack = [] := by
  intro is
  induction is with
  | nil =>
    intro t r hinv hst h
    simp only [tsPhase1] at h
    cases h
    exact ⟨t, rfl, hinv, hst⟩
  | cons i is ih =>
    intro t r hinv hst h
    simp only [tsPhase1] at h
    split at h
    · exact ih t r hinv hst h
    · rename_i hnd
      have hnd' : i ∉ t.disc := by simpa using hnd
      have hinv0 : DagInv v { t with stack := i :: t.stack } := by
        refine ⟨hinv.finEq, ?_, ?_, hinv.order⟩
        · intro x hx
          rcases hinv.grayStack x hx with h' | h'
          · exact Or.inl h'
          · exact Or.inr (List.mem_cons_of_mem _ h')
        · intro pre x post hsplit hxd _ _
          simp only [hst] at hsplit hxd
          cases pre with
          | nil =>
            simp only [List.nil_append, List.cons.injEq] at hsplit
            exact absurd (hsplit.1 ▸ hxd) hnd'
          | cons b pre' =>
            simp only [List.cons_append, List.cons.injEq] at hsplit
            cases pre' <;> simp at hsplit
      cases hr : tsLoop v fuel { t with stack := i :: t.stack } with
      | none => rw [hr] at h; simp at h
      | some x =>
        obtain ⟨t1, rfl, hinv1, hst1⟩ := tsLoop_dag v hv hac fuel _ x hinv0 hr
        rw [hr] at h
        exact ih t1 r hinv1 hst1 h

/-! ### the fuel of the first phase -/

abbrev sdeg (v : View) : Nat → Nat := fun x => (v.succ x).length

theorem tsLoop_total (v : View) (hc : Closed v) (hnl : ∀ x, x ∉ v.succ x) : ∀ (f : Nat) (t : TS),
    (∀ x, x ∈ t.stack → x ∈ v.g.nodes) →
    t.stack.length + needL (sdeg v) t.disc v.g.nodes + 1 ≤ f → ∃ r, tsLoop v f t = some r := by
  intro f
  induction f with
  | zero => intro t _ h; omega
  | succ f ih =>
    intro t hlive hfuel
    simp only [tsLoop]
    split
    · exact ⟨_, rfl⟩
    rename_i nx rest hst
    have hnxl : nx ∈ v.g.nodes := hlive nx (by rw [hst]; exact List.mem_cons_self ..)
    split
    · rename_i hnd
      have hnd' : nx ∉ t.disc := by simpa using hnd
      obtain ⟨A, hA, hAlen, hA3, _⟩ := tsPush_app nx (nx :: t.disc) (v.succ nx) t.stack (hnl nx)
      rw [hA]
      simp only
      apply ih
      · intro x hx
        simp only at hx
        rcases List.mem_append.mp hx with h' | h'
        · exact (hc nx hnxl).1 x (hA3 x h').1
        · exact hlive x h'
      · have := needL_drop (sdeg v) hnd' v.g.nodes hnxl
        simp only [List.length_append]
        simp only [sdeg] at this ⊢
        omega
    · split
      · apply ih
        · intro x hx
          exact hlive x (by rw [hst]; exact List.mem_cons_of_mem _ hx)
        · simp only
          rw [hst] at hfuel
          simp only [List.length_cons] at hfuel
          omega
      · apply ih
        · intro x hx
          exact hlive x (by rw [hst]; exact List.mem_cons_of_mem _ hx)
        · simp only
          rw [hst] at hfuel
          simp only [List.length_cons] at hfuel
          omega

theorem tsLoop_stack_nil (v : View) : ∀ (f : Nat) (t t' : TS), tsLoop v f t = some (.inr t') → t'.stack = [] := by
  intro f
  induction f with
  | zero => intro t t' h; simp [tsLoop] at h
  | succ f ih =>
    intro t t' h
    simp only [tsLoop] at h
    split at h
    · rename_i hst; cases h; exact hst
    split at h
    · split at h
      · cases h
      · exact ih _ _ h
    · split at h
      · exact ih _ _ h
      · exact ih _ _ h

theorem tsPhase1_total (v : View) (hc : Closed v) (hnl : ∀ x, x ∉ v.succ x) (fuel : Nat)
    (hfuel : needL (sdeg v) [] v.g.nodes + 2 ≤ fuel) : ∀ (is : List Nat) (t : TS),
    (∀ i, i ∈ is → i ∈ v.g.nodes) → t.stack = [] → ∃ r, tsPhase1 v fuel is t = some r := by
  intro is
  induction is with
  | nil => intro t _ _; exact ⟨_, rfl⟩
  | cons i is ih =>
    intro t hl hst
    have hl' : ∀ j, j ∈ is → j ∈ v.g.nodes := fun j hj => hl j (List.mem_cons_of_mem _ hj)
    simp only [tsPhase1]
    split
    · exact ih t hl' hst
    · have hmono := needL_mono (sdeg v) (D := []) (D' := t.disc) (by intro x hx; cases hx) v.g.nodes
      obtain ⟨r, hr⟩ := tsLoop_total v hc hnl fuel { t with stack := i :: t.stack }
        (by
          intro x hx
          simp only [hst] at hx
          rcases List.mem_cons.mp hx with rfl | hx
          · exact hl _ (List.mem_cons_self ..)
          · cases hx)
        (by simp only [hst, List.length_cons, List.length_nil]; omega)
      rw [hr]
      cases r with
      | inl x => exact ⟨_, rfl⟩
      | inr t1 => exact ih t1 hl' (tsLoop_stack_nil v fuel _ t1 hr)

/-! ### second phase -/

theorem tsPhase2_total (rv : View) (f : Nat) : ∀ (is : List Nat) (d : Trav.Dfs), is.Nodup →
    (∀ x, x ∈ is → x ∉ d.disc) →
    (∀ pre i post, is = pre ++ i :: post → ∀ p, p ∈ rv.succ i → p ∈ d.disc ∨ p ∈ pre) →
    tsPhase2 rv (f + 1) is d = some none := by
  intro is
  induction is with
  | nil => intro d _ _ _; rfl
  | cons i is ih =>
    intro d hnd hdisj hpred
    have hnd' := List.nodup_cons.mp hnd
    have hi : i ∉ d.disc := hdisj i (List.mem_cons_self ..)
    have hpush : ((rv.succ i).filter fun y => !(i :: d.disc).contains y) = [] := by
      apply List.filter_eq_nil_iff.mpr
      intro p hp
      rcases hpred [] i is rfl p hp with h' | h'
      · simp [h']
      · cases h'
    simp only [tsPhase2, Trav.Dfs.moveTo, Trav.dfsNext, hi, ↓reduceIte, hpush, List.reverse_nil, List.nil_append]
    apply ih { stack := [], disc := i :: d.disc } hnd'.2
    · intro x hx hm
      rcases List.mem_cons.mp hm with rfl | hm
      · exact hnd'.1 hx
      · exact hdisj x (List.mem_cons_of_mem _ hx) hm
    · intro pre j post hsplit p hp
      rcases hpred (i :: pre) j post (by rw [hsplit]; rfl) p hp with h' | h'
      · exact Or.inl (List.mem_cons_of_mem _ h')
      · rcases List.mem_cons.mp h' with rfl | h''
        · exact Or.inl (List.mem_cons_self ..)
        · exact Or.inr h''

/-! ### assigning the positions -/

theorem setAll_total : ∀ (l : List (Nat × Nat)) (a : List Nat), (∀ e, e ∈ l → e.2 < a.length) →
    ∃ b, setAll a l = some b := by
  intro l
  induction l with
  | nil => intro a _; exact ⟨a, rfl⟩
  | cons e r ih =>
    intro a h
    obtain ⟨p, i⟩ := e
    have hi : i < a.length := h (p, i) (List.mem_cons_self ..)
    simp only [setAll, hi, ↓reduceIte]
    apply ih
    intro e he
    simpa using h e (List.mem_cons_of_mem _ he)

/-! ### `toposort` and `try_from_graph` on an acyclic view -/

/-- on an acyclic view the first phase, whenever it returns, returns a finish stack that lists every
node once with every successor of a node after it (no `Cycle`, whatever the fuel) -/
theorem tsPhase1_acyclic {v : View} (hc : Closed v) (hv : ViewOk v) (hac : Dag.Acyclic v.g) (fuel : Nat)
    {r : Sum Nat TS} (h : tsPhase1 v fuel v.g.nodes {} = some r) :
    ∃ t, r = .inr t ∧ t.finStack.Nodup ∧ (∀ x, x ∈ t.finStack ↔ x ∈ v.g.nodes) ∧
      ∀ pre x post, t.finStack = pre ++ x :: post → ∀ y, y ∈ v.succ x → y ∈ post := by
  obtain ⟨t, rfl, hdag, _⟩ := tsPhase1_dag v hv hac fuel v.g.nodes {} r (dagInv_empty v) rfl h
  have hinv0 : TSInv v {} :=
    ⟨rfl, List.nodup_nil, (by intro x hx; cases hx), (by intro x hx; cases hx), (by intro x hx; cases hx),
      (by intro x hx; cases hx), (by intro x hx; cases hx)⟩
  obtain ⟨hti, hst, _, hall⟩ := tsPhase1_inv v hc fuel v.g.nodes {} t hinv0 rfl (fun i hi => hi) h
  refine ⟨t, rfl, hti.finEq ▸ hti.finNodup, ?_, hdag.order⟩
  intro x
  constructor
  · intro hx
    exact hti.discLive x (hti.finDisc x (hti.finEq ▸ hx))
  · intro hx
    rcases hti.gray x (hall x hx) with h' | h'
    · rw [hti.finEq]; exact h'
    · rw [hst] at h'; cases h'

/-- on such an order the second phase accepts -/
theorem tsPhase2_acyclic {v : View} (hv : ViewOk v) (hsrc : ∀ x y, y ∈ v.succ x → x ∈ v.g.nodes)
    {order : List Nat} (hnd : order.Nodup) (hcover : ∀ x, x ∈ v.g.nodes → x ∈ order)
    (hord : ∀ pre x post, order = pre ++ x :: post → ∀ y, y ∈ v.succ x → y ∈ post) (f : Nat) :
    tsPhase2 (reversedView v) (f + 1) order {} = some none := by
  apply tsPhase2_total (reversedView v) f order {} hnd (by intro x _ hx; cases hx)
  intro pre i post hsplit p hp
  right
  have hp' : p ∈ v.pred i := hp
  have hip : i ∈ v.succ p := (hv.1 p i).mpr ((hv.2 i p).mp hp')
  have hpo : p ∈ order := hcover p (hsrc p i hip)
  have hipost : i ∉ post := by
    have := hnd
    rw [hsplit] at this
    have h2 := (List.nodup_append.mp this).2.1
    exact (List.nodup_cons.mp h2).1
  rw [hsplit] at hpo
  rcases List.mem_append.mp hpo with h' | h'
  · exact h'
  · exfalso
    rcases List.mem_cons.mp h' with rfl | h''
    · exact hipost (hord pre p post hsplit p hip)
    · obtain ⟨a, b, hab⟩ := List.append_of_mem h''
      have hs2 : order = (pre ++ i :: a) ++ p :: b := by rw [hsplit, hab]; simp
      have hib : i ∈ b := hord _ p b hs2 i hip
      exact hipost (by rw [hab]; exact List.mem_append_right _ (List.mem_cons_of_mem _ hib))

/-- **no false `Cycle`**: on an acyclic view `toposort`, whenever its fuel suffices, returns an order -/
theorem toposort_acyclic {v : View} (hc : Closed v) (hv : ViewOk v)
    (hsrc : ∀ x y, y ∈ v.succ x → x ∈ v.g.nodes) (hac : Dag.Acyclic v.g)
    {r : Sum Nat (List Nat)} (h : toposort v = some r) :
    ∃ order, r = .inr order ∧ order.Nodup ∧ ∀ x, x ∈ order ↔ x ∈ v.g.nodes := by
  unfold toposort at h
  cases hp1 : tsPhase1 v (tsFuel v) v.g.nodes {} with
  | none => rw [hp1] at h; cases h
  | some r1 =>
    obtain ⟨t, rfl, hnd, hmem, hord⟩ := tsPhase1_acyclic hc hv hac (tsFuel v) hp1
    rw [hp1] at h
    simp only at h
    have hfuel : tsFuel v = (tsFuel v - 1) + 1 := by unfold tsFuel; omega
    have hp2 := tsPhase2_acyclic hv hsrc hnd (fun x hx => (hmem x).mpr hx) hord (tsFuel v - 1)
    rw [← hfuel] at hp2
    rw [hp2] at h
    cases h
    exact ⟨t.finStack, rfl, hnd, hmem⟩

/-- **fuel**: with one unit of fuel per node and per neighbour-list entry (plus two) `toposort` returns -/
theorem toposort_total {v : View} (hc : Closed v) (hv : ViewOk v)
    (hsrc : ∀ x y, y ∈ v.succ x → x ∈ v.g.nodes) (hac : Dag.Acyclic v.g)
    (hfuel : needL (sdeg v) [] v.g.nodes + 2 ≤ tsFuel v) : ∃ r, toposort v = some r := by
  have hnl : ∀ x, x ∉ v.succ x := fun x hx => hac x (Reach1.single ((hv.1 x x).mp hx))
  obtain ⟨r1, hp1⟩ := tsPhase1_total v hc hnl (tsFuel v) hfuel v.g.nodes {} (fun i hi => hi) rfl
  obtain ⟨t, rfl, hnd, hmem, hord⟩ := tsPhase1_acyclic hc hv hac (tsFuel v) hp1
  have hfuel' : tsFuel v = (tsFuel v - 1) + 1 := by unfold tsFuel; omega
  have hp2 := tsPhase2_acyclic hv hsrc hnd (fun x hx => (hmem x).mpr hx) hord (tsFuel v - 1)
  rw [← hfuel'] at hp2
  unfold toposort
  rw [hp1]
  simp only
  rw [hp2]
  exact ⟨_, rfl⟩

theorem mem_enumFrom_snd {l : List Nat} {k0 : Nat} {e : Nat × Nat} (h : e ∈ enumFrom k0 l) : e.2 ∈ l := by
  obtain ⟨pre, post, h1, _⟩ := (mem_enumFrom (l := l) (k0 := k0) (k := e.1) (x := e.2)).mp h
  rw [h1]; simp

/-- on an acyclic view `try_from_graph` never answers `Err(Cycle)` and never fails a bound check:
the only other outcome is the model's own fuel running out -/
theorem tryFromGraph_acyclic {v : View} (hc : Closed v) (hv : ViewOk v)
    (hsrc : ∀ x y, y ∈ v.succ x → x ∈ v.g.nodes) (hnb : ∀ x, x ∈ v.g.nodes → x < v.nb)
    (hac : Dag.Acyclic v.g) :
    (toposort v = none ∧ tryFromGraph v = .error "FUEL") ∨ ∃ s, tryFromGraph v = .ok (.inr s) := by
  cases hto : toposort v with
  | none => left; exact ⟨rfl, by unfold tryFromGraph; rw [hto]⟩
  | some r =>
    right
    obtain ⟨order, rfl, _, hmem⟩ := toposort_acyclic hc hv hsrc hac hto
    obtain ⟨n2p, hn2p⟩ := setAll_total (enumFrom 0 order) (List.replicate v.nb 0) (by
      intro e he
      simpa using hnb _ ((hmem _).mp (mem_enumFrom_snd he)))
    unfold tryFromGraph
    rw [hto]
    simp only
    rw [hn2p]
    exact ⟨_, rfl⟩

/-- **`try_from_graph` completeness**: every acyclic view whose neighbour lists fit the fuel is accepted -/
theorem tryFromGraph_complete {v : View} (hc : Closed v) (hv : ViewOk v)
    (hsrc : ∀ x y, y ∈ v.succ x → x ∈ v.g.nodes) (hnb : ∀ x, x ∈ v.g.nodes → x < v.nb)
    (hac : Dag.Acyclic v.g) (hfuel : needL (sdeg v) [] v.g.nodes + 2 ≤ tsFuel v) :
    ∃ s, tryFromGraph v = .ok (.inr s) := by
  rcases tryFromGraph_acyclic hc hv hsrc hnb hac with ⟨h1, _⟩ | h
  · obtain ⟨r, hr⟩ := toposort_total hc hv hsrc hac hfuel
    rw [hr] at h1; cases h1
  · exact h

/-- `needL` from scratch is one unit per node plus the lengths of the neighbour lists -/
theorem needL_nil_eq (deg : Nat → Nat) : ∀ (L : List Nat),
    needL deg [] L = L.length + (L.map deg).sum := by
  intro L
  induction L with
  | nil => rfl
  | cons x xs ih =>
    simp only [needL, List.contains_nil, Bool.false_eq_true, ↓reduceIte, List.length_cons, List.map_cons,
      List.sum_cons, ih]
    omega

end PetgraphModel.AcyW2
