import PetgraphModel.Proofs.C08W2Fuel
/-
C08 (wave 3): totality of the walker models with explicit fuel.

`dfsAll / postAll / bfsAll / topoAll` return `some` as soon as
  * the inner fuel (steps of one `next` call) is at least `walkFuel v = Σ_{u ∈ nodes} (|v.succ u| + 2) + 2`
  * the outer fuel (number of `next` calls) is at least `|nodes| + 1`,
on a view whose neighbour lists stay inside the node list (`Closed`; implied by `ViewOk` over a
well-formed graph).  The bound is stated in terms of the neighbour lists *of the view*, so a view that
repeats a neighbour (which `ViewOk` allows) needs proportionally more fuel.

Measures: `wsum v disc nodes` (fuel the undiscovered nodes may still cost: `|succ u| + 1` each) plus
the length of the stack never increases, and it strictly decreases with every loop iteration;
`ucount disc nodes` (number of undiscovered nodes) strictly decreases with every emitted node.
-/
namespace PetgraphModel.TravProofs
open PetgraphModel PetgraphModel.Trav PetgraphModel.MGraph

/-- neighbour lists stay inside the node list -/
def Closed (v : View) : Prop := ∀ u, u ∈ v.g.nodes → ∀ w, w ∈ v.succ u → w ∈ v.g.nodes

theorem closed_of_wf {v : View} (hv : ViewOk v) (hwf : v.g.WellFormed) : Closed v :=
  succ_closed_of_wf hv hwf

/-- number of entries of `us` outside `disc` -/
def ucount (disc : List Nat) : List Nat → Nat
  | [] => 0
  | u :: us => (if u ∈ disc then 0 else 1) + ucount disc us

theorem ucount_le_length (disc : List Nat) : ∀ us, ucount disc us ≤ us.length := by
  intro us
  induction us with
  | nil => exact Nat.le_refl _
  | cons u us ih => simp only [ucount, List.length_cons]; split <;> omega

theorem ucount_mono {d d' : List Nat} (h : ∀ x, x ∈ d → x ∈ d') :
    ∀ us, ucount d' us ≤ ucount d us := by
  intro us
  induction us with
  | nil => exact Nat.le_refl _
  | cons u us ih =>
    simp only [ucount]
    by_cases h1 : u ∈ d
    · simp only [h1, h u h1, ↓reduceIte]; omega
    · by_cases h2 : u ∈ d' <;> simp only [h1, h2, ↓reduceIte] <;> omega

theorem ucount_dec {d : List Nat} {u : Nat} (hu : u ∉ d) :
    ∀ us, u ∈ us → ucount (u :: d) us + 1 ≤ ucount d us := by
  intro us
  induction us with
  | nil => intro h; cases h
  | cons a us ih =>
    intro h
    simp only [ucount]
    by_cases hau : a = u
    · subst hau
      have := ucount_mono (d := d) (d' := a :: d) (fun x hx => List.mem_cons_of_mem _ hx) us
      simp only [List.mem_cons, true_or, hu, ↓reduceIte]
      omega
    · have hmem : u ∈ us := by
        rcases List.mem_cons.mp h with h1 | h1
        · exact absurd h1.symm hau
        · exact h1
      have := ih hmem
      by_cases had : a ∈ d
      · simp only [List.mem_cons, hau, had, or_true, ↓reduceIte]; omega
      · simp only [List.mem_cons, hau, had, or_false, ↓reduceIte]; omega

/-- if some entry of `us` is outside `disc`, the count is positive -/
theorem ucount_pos {d : List Nat} {u : Nat} (hu : u ∉ d) : ∀ us, u ∈ us → 1 ≤ ucount d us := by
  intro us h
  have := ucount_dec hu us h
  omega

/-- the inner fuel that suffices for every walker: `Σ_{u ∈ nodes} (|v.succ u| + 2) + 2` -/
def walkFuel (v : View) : Nat := wsum v [] v.g.nodes + v.g.nodes.length + 2

theorem wsum_le_nil (v : View) (d : List Nat) (us : List Nat) : wsum v d us ≤ wsum v [] us :=
  wsum_mono v (d := []) (d' := d) (fun _ h => by cases h) us

theorem filter_length_le {α} (p : α → Bool) (l : List α) : (l.filter p).length ≤ l.length :=
  List.length_filter_le p l

/-! ### Dfs -/

theorem dfsNext_total (v : View) (hcl : Closed v) : ∀ (f : Nat) (d : Dfs),
    (∀ x, x ∈ d.stack → x ∈ v.g.nodes) → d.stack.length + 1 ≤ f →
    ∃ r d', dfsNext v f d = some (r, d') ∧ (∀ x, x ∈ d'.stack → x ∈ v.g.nodes) ∧
      d'.stack.length + wsum v d'.disc v.g.nodes ≤ d.stack.length + wsum v d.disc v.g.nodes ∧
      (r ≠ none → ucount d'.disc v.g.nodes + 1 ≤ ucount d.disc v.g.nodes) ∧
      ucount d'.disc v.g.nodes ≤ ucount d.disc v.g.nodes := by
  intro f
  induction f with
  | zero => intro d _ h; omega
  | succ f ih =>
    intro d hst hf
    rw [dfsNext]
    split
    · rename_i hs
      exact ⟨none, d, rfl, hst, Nat.le_refl _, fun h => absurd rfl h, Nat.le_refl _⟩
    · rename_i x st hs
      rw [hs] at hst hf
      simp only [List.length_cons] at hf
      split
      · obtain ⟨r, d', h1, h2, h3, h4, h5⟩ := ih { d with stack := st }
          (fun y hy => hst y (List.mem_cons_of_mem _ hy)) (by simp only; omega)
        refine ⟨r, d', h1, h2, ?_, h4, h5⟩
        simp only [hs, List.length_cons] at h3 ⊢
        omega
      · rename_i hx
        have hxn : x ∈ v.g.nodes := hst x (List.mem_cons_self ..)
        refine ⟨some x, _, rfl, ?_, ?_, ?_, ?_⟩
        · intro y hy
          simp only [List.mem_append, List.mem_reverse, List.mem_filter] at hy
          rcases hy with ⟨hy, _⟩ | hy
          · exact hcl x hxn y hy
          · exact hst y (List.mem_cons_of_mem _ hy)
        · have h1 := wsum_dec v hx v.g.nodes hxn
          have h2 := filter_length_le (fun y => !(x :: d.disc).contains y) (v.succ x)
          simp only [hs, List.length_append, List.length_reverse, List.length_cons]
          omega
        · intro _
          exact ucount_dec hx v.g.nodes hxn
        · have := ucount_dec hx v.g.nodes hxn
          show ucount (x :: d.disc) v.g.nodes ≤ _
          omega

theorem dfsAll_total (v : View) (hcl : Closed v) (inner : Nat) : ∀ (k : Nat) (d : Dfs) (acc : List Nat),
    (∀ x, x ∈ d.stack → x ∈ v.g.nodes) →
    d.stack.length + wsum v d.disc v.g.nodes + 1 ≤ inner →
    ucount d.disc v.g.nodes + 1 ≤ k →
    ∃ out d', dfsAll v inner k d acc = some (out, d') := by
  intro k
  induction k with
  | zero => intro d acc _ _ h; omega
  | succ k ih =>
    intro d acc hst hi hk
    obtain ⟨r, d', h1, h2, h3, h4, _⟩ := dfsNext_total v hcl inner d hst (by omega)
    rw [dfsAll, h1]
    cases r with
    | none => exact ⟨acc, d', rfl⟩
    | some x =>
      have := h4 (by simp)
      exact ih d' _ h2 (by omega) (by omega)

/-! ### DfsPostOrder -/

theorem postNext_total (v : View) (hcl : Closed v) : ∀ (f : Nat) (d : Trav.Post),
    (∀ x, x ∈ d.stack → x ∈ v.g.nodes) → d.stack.length + wsum v d.disc v.g.nodes + 1 ≤ f →
    ∃ r d', postNext v f d = some (r, d') ∧ (∀ x, x ∈ d'.stack → x ∈ v.g.nodes) ∧
      d'.stack.length + wsum v d'.disc v.g.nodes ≤ d.stack.length + wsum v d.disc v.g.nodes ∧
      (r ≠ none → ucount d'.fin v.g.nodes + 1 ≤ ucount d.fin v.g.nodes) ∧
      ucount d'.fin v.g.nodes ≤ ucount d.fin v.g.nodes := by
  intro f
  induction f with
  | zero => intro d _ h; omega
  | succ f ih =>
    intro d hst hf
    rw [postNext]
    split
    · rename_i hs
      exact ⟨none, d, rfl, hst, Nat.le_refl _, fun h => absurd rfl h, Nat.le_refl _⟩
    · rename_i x st hs
      rw [hs] at hst hf
      simp only [List.length_cons] at hf
      have hxn : x ∈ v.g.nodes := hst x (List.mem_cons_self ..)
      split
      · rename_i hx
        have hx' : x ∉ d.disc := not_contains.mp hx
        have h1 := wsum_dec v hx' v.g.nodes hxn
        have h2 := filter_length_le (fun y => !(x :: d.disc).contains y) (v.succ x)
        obtain ⟨r, d', g1, g2, g3, g4, g5⟩ := ih
          { d with stack := ((v.succ x).filter (fun y => !(x :: d.disc).contains y)).reverse ++ (x :: st),
                   disc := x :: d.disc }
          (by
            intro y hy
            simp only [List.mem_append, List.mem_reverse, List.mem_filter] at hy
            rcases hy with ⟨hy, _⟩ | hy
            · exact hcl x hxn y hy
            · exact hst y hy)
          (by simp only [List.length_append, List.length_reverse, List.length_cons]; omega)
        refine ⟨r, d', g1, g2, ?_, g4, g5⟩
        simp only [hs, List.length_append, List.length_reverse, List.length_cons] at g3 ⊢
        omega
      · split
        · rename_i hxf
          have hxf' : x ∉ d.fin := not_contains.mp hxf
          refine ⟨some x, _, rfl, fun y hy => hst y (List.mem_cons_of_mem _ hy), ?_, ?_, ?_⟩
          · simp only [hs, List.length_cons]; omega
          · intro _; exact ucount_dec hxf' v.g.nodes hxn
          · have := ucount_dec hxf' v.g.nodes hxn
            show ucount (x :: d.fin) v.g.nodes ≤ _
            omega
        · obtain ⟨r, d', g1, g2, g3, g4, g5⟩ := ih { d with stack := st }
            (fun y hy => hst y (List.mem_cons_of_mem _ hy)) (by simp only; omega)
          refine ⟨r, d', g1, g2, ?_, g4, g5⟩
          simp only [hs, List.length_cons] at g3 ⊢
          omega

theorem postAll_total (v : View) (hcl : Closed v) (inner : Nat) : ∀ (k : Nat) (d : Trav.Post) (acc : List Nat),
    (∀ x, x ∈ d.stack → x ∈ v.g.nodes) →
    d.stack.length + wsum v d.disc v.g.nodes + 1 ≤ inner →
    ucount d.fin v.g.nodes + 1 ≤ k →
    ∃ out d', postAll v inner k d acc = some (out, d') := by
  intro k
  induction k with
  | zero => intro d acc _ _ h; omega
  | succ k ih =>
    intro d acc hst hi hk
    obtain ⟨r, d', h1, h2, h3, h4, _⟩ := postNext_total v hcl inner d hst hi
    rw [postAll, h1]
    cases r with
    | none => exact ⟨acc, d', rfl⟩
    | some x =>
      have := h4 (by simp)
      exact ih d' _ h2 (by omega) (by omega)

/-! ### Topo -/

theorem topoNext_total (v : View) (hcl : Closed v) : ∀ (f : Nat) (t : Topo),
    (∀ x, x ∈ t.tovisit → x ∈ v.g.nodes) → t.tovisit.length + 1 ≤ f →
    ∃ r t', topoNext v f t = some (r, t') ∧ (∀ x, x ∈ t'.tovisit → x ∈ v.g.nodes) ∧
      t'.tovisit.length + wsum v t'.ordered v.g.nodes ≤ t.tovisit.length + wsum v t.ordered v.g.nodes ∧
      (r ≠ none → ucount t'.ordered v.g.nodes + 1 ≤ ucount t.ordered v.g.nodes) := by
  intro f
  induction f with
  | zero => intro d _ h; omega
  | succ f ih =>
    intro t hst hf
    rw [topoNext]
    split
    · exact ⟨none, t, rfl, hst, Nat.le_refl _, fun h => absurd rfl h⟩
    · rename_i x st hs
      rw [hs] at hst hf
      simp only [List.length_cons] at hf
      split
      · obtain ⟨r, t', h1, h2, h3, h4⟩ := ih { t with tovisit := st }
          (fun y hy => hst y (List.mem_cons_of_mem _ hy)) (by simp only; omega)
        refine ⟨r, t', h1, h2, ?_, h4⟩
        simp only [hs, List.length_cons] at h3 ⊢
        omega
      · rename_i hx
        have hx' : x ∉ t.ordered := by simpa using hx
        have hxn : x ∈ v.g.nodes := hst x (List.mem_cons_self ..)
        refine ⟨some x, _, rfl, ?_, ?_, ?_⟩
        · intro y hy
          simp only [List.mem_append, List.mem_reverse, List.mem_filter] at hy
          rcases hy with ⟨hy, _⟩ | hy
          · exact hcl x hxn y hy
          · exact hst y (List.mem_cons_of_mem _ hy)
        · have h1 := wsum_dec v hx' v.g.nodes hxn
          have h2 := filter_length_le (fun n => (v.pred n).all fun b => (x :: t.ordered).contains b) (v.succ x)
          simp only [hs, List.length_append, List.length_reverse, List.length_cons]
          omega
        · intro _
          exact ucount_dec hx' v.g.nodes hxn

theorem topoAll_total (v : View) (hcl : Closed v) (inner : Nat) : ∀ (k : Nat) (t : Topo) (acc : List Nat),
    (∀ x, x ∈ t.tovisit → x ∈ v.g.nodes) →
    t.tovisit.length + wsum v t.ordered v.g.nodes + 1 ≤ inner →
    ucount t.ordered v.g.nodes + 1 ≤ k →
    ∃ out, topoAll v inner k t acc = some out := by
  intro k
  induction k with
  | zero => intro d acc _ _ h; omega
  | succ k ih =>
    intro t acc hst hi hk
    obtain ⟨r, t', h1, h2, h3, h4⟩ := topoNext_total v hcl inner t hst (by omega)
    rw [topoAll, h1]
    cases r with
    | none => exact ⟨acc, rfl⟩
    | some x =>
      have := h4 (by simp)
      exact ih t' _ h2 (by omega) (by omega)

theorem initials_length_le (v : View) (l : List Nat) : (Topo.initials v l).length ≤ l.length := by
  simp only [Topo.initials, List.length_reverse]
  exact filter_length_le _ _

theorem initials_mem (v : View) (l : List Nat) (x : Nat) (h : x ∈ Topo.initials v l) : x ∈ l := by
  simp only [Topo.initials, List.mem_reverse, List.mem_filter] at h
  exact h.1

/-! ### Bfs -/

theorem bfsVisitAll_measure (nodes : List Nat) : ∀ (ys disc q : List Nat),
    (∀ y, y ∈ ys → y ∈ nodes) → (∀ y, y ∈ q → y ∈ nodes) →
    (∀ y, y ∈ (bfsVisitAll disc q ys).2 → y ∈ nodes) ∧
    (bfsVisitAll disc q ys).2.length + ucount (bfsVisitAll disc q ys).1 nodes ≤ q.length + ucount disc nodes := by
  intro ys
  induction ys with
  | nil => intro disc q _ hq; exact ⟨hq, Nat.le_refl _⟩
  | cons y ys ih =>
    intro disc q hys hq
    have hys' : ∀ z, z ∈ ys → z ∈ nodes := fun z hz => hys z (List.mem_cons_of_mem _ hz)
    rw [bfsVisitAll]
    split
    · exact ih disc q hys' hq
    · rename_i hy
      have hy' : y ∉ disc := by simpa using hy
      have hyn : y ∈ nodes := hys y (List.mem_cons_self ..)
      obtain ⟨h1, h2⟩ := ih (y :: disc) (q ++ [y]) hys' (by
        intro z hz
        rcases List.mem_append.mp hz with hz | hz
        · exact hq z hz
        · simp at hz; exact hz ▸ hyn)
      refine ⟨h1, ?_⟩
      have := ucount_dec hy' nodes hyn
      simp only [List.length_append, List.length_cons, List.length_nil] at h2
      omega

theorem bfsAll_total (v : View) (hcl : Closed v) : ∀ (k : Nat) (b : Bfs) (acc : List Nat),
    (∀ x, x ∈ b.queue → x ∈ v.g.nodes) →
    b.queue.length + ucount b.disc v.g.nodes + 1 ≤ k →
    ∃ out, bfsAll v k b acc = some out := by
  intro k
  induction k with
  | zero => intro b acc _ h; omega
  | succ k ih =>
    intro b acc hq hk
    rw [bfsAll]
    cases hb : b.queue with
    | nil => rw [bfsNext_nil v b hb]; exact ⟨acc, rfl⟩
    | cons x q =>
      rw [bfsNext_cons v b x q hb]
      rw [hb] at hq hk
      have hxn : x ∈ v.g.nodes := hq x (List.mem_cons_self ..)
      obtain ⟨h1, h2⟩ := bfsVisitAll_measure v.g.nodes (v.succ x) b.disc q (hcl x hxn)
        (fun y hy => hq y (List.mem_cons_of_mem _ hy))
      simp only [List.length_cons] at hk
      exact ih _ _ h1 (by simp only; omega)

/-! ### the four totality statements, from the start states of the walkers -/

theorem walkFuel_ge (v : View) : wsum v [] v.g.nodes + v.g.nodes.length + 2 ≤ walkFuel v := Nat.le_refl _

/-- `Dfs` created at / moved to `s` with any discovered set `D` -/
theorem dfs_total (v : View) (hcl : Closed v) (s : Nat) (hs : s ∈ v.g.nodes) (D : List Nat)
    (inner outer : Nat) (hi : walkFuel v ≤ inner) (ho : v.g.nodes.length + 1 ≤ outer) (acc : List Nat) :
    ∃ out d', dfsAll v inner outer { stack := [s], disc := D } acc = some (out, d') := by
  apply dfsAll_total v hcl inner outer
  · intro x hx; simp at hx; exact hx ▸ hs
  · have := wsum_le_nil v D v.g.nodes
    simp only [List.length_cons, List.length_nil, walkFuel] at hi ⊢
    omega
  · have := ucount_le_length D v.g.nodes
    simp only; omega

/-- `DfsPostOrder` created at / moved to `s` with any discovered and finished sets -/
theorem post_total (v : View) (hcl : Closed v) (s : Nat) (hs : s ∈ v.g.nodes) (D F : List Nat)
    (inner outer : Nat) (hi : walkFuel v ≤ inner) (ho : v.g.nodes.length + 1 ≤ outer) (acc : List Nat) :
    ∃ out d', postAll v inner outer { stack := [s], disc := D, fin := F } acc = some (out, d') := by
  apply postAll_total v hcl inner outer
  · intro x hx; simp at hx; exact hx ▸ hs
  · have := wsum_le_nil v D v.g.nodes
    simp only [List.length_cons, List.length_nil, walkFuel] at hi ⊢
    omega
  · have := ucount_le_length F v.g.nodes
    simp only; omega

/-- `Bfs::new(s)`; no inner fuel, and no bound on the neighbour lists is needed -/
theorem bfs_total (v : View) (hcl : Closed v) (s : Nat) (hs : s ∈ v.g.nodes)
    (fuel : Nat) (ho : v.g.nodes.length + 1 ≤ fuel) :
    ∃ out, bfsAll v fuel (Bfs.new s) [] = some out := by
  apply bfsAll_total v hcl fuel
  · intro x hx; simp [Bfs.new] at hx; exact hx ▸ hs
  · have h1 := ucount_dec (d := []) (u := s) (by simp) v.g.nodes hs
    have h2 := ucount_le_length [] v.g.nodes
    simp only [Bfs.new, List.length_cons, List.length_nil]
    omega

/-- `Topo::new` -/
theorem topo_total (v : View) (hcl : Closed v)
    (inner outer : Nat) (hi : walkFuel v ≤ inner) (ho : v.g.nodes.length + 1 ≤ outer) :
    ∃ out, topoAll v inner outer (Topo.new v) [] = some out := by
  apply topoAll_total v hcl inner outer
  · intro x hx; exact initials_mem v _ x hx
  · have := initials_length_le v v.g.nodes
    simp only [Topo.new, walkFuel] at hi ⊢
    omega
  · have := ucount_le_length [] v.g.nodes
    simp only [Topo.new]; omega

/-- `Topo::with_initials(l)`: the initial stack can be as long as `l` -/
theorem topo_withInitials_total (v : View) (hcl : Closed v) (l : List Nat) (hl : ∀ x, x ∈ l → x ∈ v.g.nodes)
    (inner outer : Nat) (hi : walkFuel v + l.length ≤ inner) (ho : v.g.nodes.length + 1 ≤ outer) :
    ∃ out, topoAll v inner outer (Topo.withInitials v l) [] = some out := by
  apply topoAll_total v hcl inner outer
  · intro x hx; exact hl x (initials_mem v _ x hx)
  · have := initials_length_le v l
    simp only [Topo.withInitials, walkFuel] at hi ⊢
    omega
  · have := ucount_le_length [] v.g.nodes
    simp only [Topo.withInitials]; omega

theorem nodup_length_le_ucount (us : List Nat) : ∀ (l d : List Nat), l.Nodup →
    (∀ x, x ∈ l → x ∈ us ∧ x ∉ d) → l.length ≤ ucount d us := by
  intro l
  induction l with
  | nil => intro d _ _; exact Nat.zero_le _
  | cons a t ih =>
    intro d hnd h
    have ha := h a (List.mem_cons_self ..)
    have h1 := ucount_dec ha.2 us ha.1
    have h2 := ih (a :: d) (List.nodup_cons.mp hnd).2 (fun x hx => by
      refine ⟨(h x (List.mem_cons_of_mem _ hx)).1, ?_⟩
      intro hxa
      rcases List.mem_cons.mp hxa with e | e
      · exact (List.nodup_cons.mp hnd).1 (e ▸ hx)
      · exact (h x (List.mem_cons_of_mem _ hx)).2 e)
    simp only [List.length_cons]
    omega

/-- with a duplicate-free initial list of nodes `walkFuel` itself suffices -/
theorem topo_withInitials_total_nodup (v : View) (hcl : Closed v) (l : List Nat) (hnd : l.Nodup)
    (hl : ∀ x, x ∈ l → x ∈ v.g.nodes)
    (inner outer : Nat) (hi : walkFuel v ≤ inner) (ho : v.g.nodes.length + 1 ≤ outer) :
    ∃ out, topoAll v inner outer (Topo.withInitials v l) [] = some out := by
  apply topoAll_total v hcl inner outer
  · intro x hx; exact hl x (initials_mem v _ x hx)
  · have h1 := initials_length_le v l
    have h2 := nodup_length_le_ucount v.g.nodes l [] hnd (fun x hx => ⟨hl x hx, by simp⟩)
    have h3 := ucount_le_length [] v.g.nodes
    simp only [Topo.withInitials, walkFuel] at hi ⊢
    omega
  · have := ucount_le_length [] v.g.nodes
    simp only [Topo.withInitials]; omega

end PetgraphModel.TravProofs
