import PetgraphModel.Proofs.C20Paths
import PetgraphModel.Proofs.C20W3PathsCycle
/-
C20, wave 4 — the judge of `all_simple_paths` for `from = to`: `IsCycleIn` (decidable, in the judge)
is `Paths.IsSimpleCycleIn` (the statement of `C20_paths_from_eq_to`), the definitional enumeration
`simpleCycles` is complete, the judge is sound.
-/
namespace PetgraphModel.C20
open PetgraphModel PetgraphModel.MGraph PetgraphModel.Oracle

theorem cycleMid_shape (a : Nat) (mid : List Nat) : cycleMid (a :: (mid ++ [a])) = mid := by
  simp [cycleMid]

/-- the judge's decidable predicate is the statement of `C20_paths_from_eq_to` -/
theorem isCycleIn_iff (g : MGraph) (a lo : Nat) (hi : Option Nat) (p : List Nat) :
    IsCycleIn g a lo hi p ↔ Paths.IsSimpleCycleIn g a lo hi p := by
  constructor
  · rintro ⟨h1, h2, h3, h4, h5, h6⟩
    exact ⟨cycleMid p, h1, h2, h3, h4, h5, h6⟩
  · rintro ⟨mid, h1, h2, h3, h4, h5, h6⟩
    have hm : cycleMid p = mid := by rw [h1]; exact cycleMid_shape a mid
    unfold IsCycleIn
    rw [hm]
    exact ⟨h1, h2, h3, h4, h5, h6⟩

/-- every simple cycle within the bounds is enumerated by the definitional oracle -/
theorem simpleCycles_complete (g : MGraph) (hg : EndpointsOk g) (a lo : Nat) (hi : Option Nat)
    (p : List Nat) (hp : IsCycleIn g a lo hi p) : p ∈ simpleCycles g a lo hi := by
  have hp' := hp
  obtain ⟨h1, h2, h3, h4, h5, h6⟩ := hp
  have hnd := List.nodup_cons.mp h2
  have hpool : ∀ x ∈ cycleMid p, x ∈ g.nodes.erase a := by
    intro x hx
    have hxp : x ∈ p := by rw [h1]; simp [hx]
    have hlen : 2 ≤ p.length := by rw [h1]; simp
    have hxn : x ∈ g.nodes := isWalk_mem_nodes hg p h3 hlen x hxp
    have hxa : x ≠ a := fun e => hnd.1 (e ▸ hx)
    exact (List.mem_erase_of_ne hxa).mpr hxn
  have hlen : (g.nodes.erase a).length ≤ g.nodes.length := List.length_erase_le
  have hmid := mem_seqs_of_nodup g.nodes.length _ _ hnd.2 hpool hlen
  unfold simpleCycles
  rw [List.mem_filter]
  refine ⟨List.mem_map.mpr ⟨cycleMid p, hmid, h1.symm⟩, ?_⟩
  simp only [decide_eq_true_eq]
  exact hp'

/-- soundness of the judge for `from = to`: the yielded sequences are EXACTLY the simple cycles through
`a` in the sense of `C20_paths_from_eq_to`, each once on a simple graph -/
theorem judgeCycles_sound (g : MGraph) (a lo : Nat) (hi : Option Nat) (out : List (List Nat))
    (h : judgeCycles g a lo hi out = none) :
    (g.directed = true ∧ EndpointsOk g ∧ g.nodes.Nodup ∧ a ∈ g.nodes) ∧
    (∀ p, p ∈ out ↔ Paths.IsSimpleCycleIn g a lo hi p) ∧ (simpleB g = true → out.Nodup) := by
  unfold judgeCycles at h
  have c0 : g.directed = true ∧ EndpointsOk g ∧ g.nodes.Nodup ∧ a ∈ g.nodes := clause_holds h (by mem_lit)
  have c1 : ∀ p ∈ out, IsCycleIn g a lo hi p := clause_holds h (by mem_lit)
  have c2 : ∀ p ∈ simpleCycles g a lo hi, p ∈ out := clause_holds h (by mem_lit)
  have c3 : simpleB g = true → out.Nodup := clause_holds h (by mem_lit)
  refine ⟨c0, fun p => ⟨fun hp => (isCycleIn_iff g a lo hi p).mp (c1 p hp), fun hp => ?_⟩, c3⟩
  exact c2 p (simpleCycles_complete g c0.2.1 a lo hi p ((isCycleIn_iff g a lo hi p).mpr hp))

end PetgraphModel.C20
