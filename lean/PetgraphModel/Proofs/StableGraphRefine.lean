import PetgraphModel.Proofs.StableGraph
/-
C02 helper lemmas, part 2: the mirror model's queries and transitions seen through the abstraction `abs`
(`SGProofs.abs : State → SGSpec.Spec`) — bounds, counts, index iterators, and the refinement equations of the
individual calls.
-/
namespace PetgraphModel.SGProofs
open PetgraphModel PetgraphModel.SG PetgraphModel.SGSpec

/-! ### bounds -/

theorem boundOf_le {α : Type} (l : List (Option α)) : boundOf l ≤ l.length := by
  induction l with
  | nil => simp [boundOf]
  | cons x xs ih =>
    simp only [boundOf, List.length_cons]
    split
    · omega
    · split <;> omega

/-- no live slot at or beyond the bound -/
theorem boundOf_above {α : Type} (l : List (Option α)) : ∀ i, boundOf l ≤ i → (l[i]?).join = none := by
  induction l with
  | nil => intro i _; simp
  | cons x xs ih =>
    intro i hi
    simp only [boundOf] at hi
    cases i with
    | zero =>
      split at hi
      · omega
      · split at hi
        · omega
        · rename_i hx; simp only [List.getElem?_cons_zero, Option.join_some]
          cases x <;> simp_all
    | succ j =>
      simp only [List.getElem?_cons_succ]
      apply ih
      split at hi
      · omega
      · rename_i h0; omega

/-- the slot just below a positive bound is live -/
theorem boundOf_last {α : Type} (l : List (Option α)) (h : 0 < boundOf l) :
    ∃ a, l[boundOf l - 1]? = some (some a) := by
  induction l with
  | nil => simp [boundOf] at h
  | cons x xs ih =>
    simp only [boundOf] at h ⊢
    split
    · rename_i hpos
      obtain ⟨a, ha⟩ := ih hpos
      refine ⟨a, ?_⟩
      have : boundOf xs + 1 - 1 = (boundOf xs - 1) + 1 := by omega
      rw [this, List.getElem?_cons_succ]; exact ha
    · rename_i hz
      split
      · rename_i hx
        obtain ⟨a, rfl⟩ := Option.isSome_iff_exists.1 hx
        exact ⟨a, by simp⟩
      · rename_i hx; simp [hz, hx] at h

theorem liveIdx_eq_liveIds {α : Type} (l : List (Option α)) (o : Nat) : liveIdx l o = liveIds l o := by
  induction l generalizing o with
  | nil => rfl
  | cons x xs ih => simp only [liveIdx, liveIds, ih]

theorem liveIds_ge {α : Type} (l : List (Option α)) (o : Nat) : ∀ i ∈ liveIds l o, o ≤ i := by
  induction l generalizing o with
  | nil => intro i hi; simp [liveIds] at hi
  | cons x xs ih =>
    intro i hi
    simp only [liveIds] at hi
    split at hi
    · rcases List.mem_cons.1 hi with rfl | hi
      · omega
      · have := ih (o + 1) i hi; omega
    · have := ih (o + 1) i hi; omega

theorem lastPlus1_cons_of_ne_nil (x : Nat) {l : List Nat} (h : l ≠ []) : lastPlus1 (x :: l) = lastPlus1 l := by
  cases l with
  | nil => exact absurd rfl h
  | cons y t => rfl

theorem lastPlus1_liveIds {α : Type} (l : List (Option α)) (o : Nat) :
    lastPlus1 (liveIds l o) = if boundOf l = 0 then 0 else o + boundOf l := by
  induction l generalizing o with
  | nil => simp [liveIds, lastPlus1, boundOf]
  | cons x xs ih =>
    have ih' := ih (o + 1)
    simp only [liveIds, boundOf]
    by_cases hb : boundOf xs = 0
    · simp only [hb, if_true] at ih'
      have hnil : liveIds xs (o + 1) = [] := by
        cases hl : liveIds xs (o + 1) with
        | nil => rfl
        | cons y t =>
          rw [hl] at ih'
          cases t with
          | nil => simp [lastPlus1] at ih'
          | cons z t' =>
            -- lastPlus1 of a non-empty list is positive
            have : ∀ (l : List Nat), l ≠ [] → 0 < lastPlus1 l := by
              intro l
              induction l with
              | nil => intro h; exact absurd rfl h
              | cons a t ih2 =>
                intro _
                cases t with
                | nil => simp [lastPlus1]
                | cons b t2 => rw [lastPlus1_cons_of_ne_nil a (by simp)]; exact ih2 (by simp)
            have := this (y :: z :: t') (by simp)
            omega
      by_cases hx : x.isSome
      · simp [hx, hb, hnil, lastPlus1]
      · simp [hx, hb, hnil, lastPlus1]
    · simp only [hb, if_false] at ih'
      have hpos : 0 < boundOf xs := by omega
      have hne : liveIds xs (o + 1) ≠ [] := by
        intro h; rw [h] at ih'; simp [lastPlus1] at ih'; omega
      by_cases hx : x.isSome
      · simp only [hx, if_true, hpos]
        rw [lastPlus1_cons_of_ne_nil _ hne, ih']
        have : boundOf xs + 1 ≠ 0 := by omega
        simp [this]; omega
      · simp only [hx, Bool.false_eq_true, if_false, hpos, if_true]
        rw [ih']
        have : boundOf xs + 1 ≠ 0 := by omega
        simp [this]; omega

theorem liveIds_length {α : Type} (l : List (Option α)) (o : Nat) : (liveIds l o).length = l.countP Option.isSome := by
  induction l generalizing o with
  | nil => rfl
  | cons x xs ih =>
    simp only [liveIds, List.countP_cons]
    split
    · rename_i hx; simp [ih, hx]
    · rename_i hx; simp [ih, hx]

/-! ### the model's whole-graph queries are the reference's -/

theorem abs_nodes (s : State) : (abs s).nodes = s.nodes.map (·.w) := rfl
theorem abs_edges (s : State) : (abs s).edges = s.edges.map absEdge := rfl

theorem absEdge_isSome (x : Edge) : (absEdge x).isSome = x.w.isSome := by
  unfold absEdge; cases x.w <;> rfl

theorem nodeIndices_abs (s : State) : nodeIndices s = (abs s).nodeIds := by
  unfold nodeIndices Spec.nodeIds; rw [liveIdx_eq_liveIds]; rfl

theorem liveIds_congr {α β : Type} (l : List (Option α)) (l' : List (Option β)) (o : Nat)
    (h : l.map Option.isSome = l'.map Option.isSome) : liveIds l o = liveIds l' o := by
  induction l generalizing l' o with
  | nil =>
    cases l' with
    | nil => rfl
    | cons y t => simp at h
  | cons x xs ih =>
    cases l' with
    | nil => simp at h
    | cons y t =>
      simp only [List.map_cons, List.cons.injEq] at h
      simp only [liveIds, h.1, ih t (o + 1) h.2]

theorem edgeIndices_abs (s : State) : edgeIndices s = (abs s).edgeIds := by
  unfold edgeIndices Spec.edgeIds; rw [liveIdx_eq_liveIds]
  apply liveIds_congr
  simp only [abs_edges, List.map_map]
  apply List.map_congr_left
  intro x _; simp [absEdge_isSome]

theorem nodeBound_abs (s : State) : nodeBound s = (abs s).nodeBound := by
  unfold nodeBound Spec.nodeBound Spec.nodeIds
  rw [lastPlus1_liveIds, abs_nodes]
  split <;> omega

theorem boundOf_congr {α β : Type} (l : List (Option α)) (l' : List (Option β))
    (h : l.map Option.isSome = l'.map Option.isSome) : boundOf l = boundOf l' := by
  induction l generalizing l' with
  | nil =>
    cases l' with
    | nil => rfl
    | cons y t => simp at h
  | cons x xs ih =>
    cases l' with
    | nil => simp at h
    | cons y t =>
      simp only [List.map_cons, List.cons.injEq] at h
      simp only [boundOf, ih t h.2, h.1]

theorem edgeBound_abs (s : State) : edgeBound s = (abs s).edgeBound := by
  unfold edgeBound Spec.edgeBound Spec.edgeIds
  rw [lastPlus1_liveIds]
  have : boundOf (s.edges.map (·.w)) = boundOf (abs s).edges := by
    apply boundOf_congr
    simp only [abs_edges, List.map_map]
    apply List.map_congr_left
    intro x _; simp [absEdge_isSome]
  rw [this]
  split <;> omega

theorem nodeRefsFrom_abs (ns : List Node) (o : Nat) : nodeRefsFrom ns o = nodeList (ns.map (·.w)) o := by
  induction ns generalizing o with
  | nil => rfl
  | cons n t ih =>
    simp only [nodeRefsFrom, List.map_cons, nodeList]
    cases n.w <;> simp [ih]

theorem nodeReferences_abs (s : State) : nodeReferences s = (abs s).nodeRefs := nodeRefsFrom_abs s.nodes 0

theorem edgeRefsFrom_abs (es : List Edge) (o : Nat) :
    (edgeRefsFrom es o).map (fun r => (r.id, (⟨r.a, r.b, r.w⟩ : SEdge))) = edgeList (es.map absEdge) o := by
  induction es generalizing o with
  | nil => rfl
  | cons x t ih =>
    simp only [edgeRefsFrom, List.map_cons, edgeList, absEdge]
    cases x.w <;> simp [ih]

theorem edgeReferences_abs (s : State) :
    (edgeReferences s).map (fun r => (r.id, (⟨r.a, r.b, r.w⟩ : SEdge))) = (abs s).edgeRefs := edgeRefsFrom_abs s.edges 0

/-- the cached counters are the numbers of live elements -/
theorem counts_abs {s : State} (hinv : Inv s) : s.nodeCount = (abs s).nodeCount ∧ s.edgeCount = (abs s).edgeCount := by
  have h1 := hinv.cntN
  have h2 := hinv.cntE
  simp only [Option.isSome_none, Bool.false_eq_true, if_false, Nat.add_zero] at h1
  constructor
  · rw [h1]; unfold Spec.nodeCount Spec.nodeIds
    rw [liveIds_length, abs_nodes, List.countP_map]; rfl
  · rw [h2]; unfold Spec.edgeCount Spec.edgeIds
    rw [liveIds_length, abs_edges, List.countP_map]
    apply List.countP_congr
    intro x _; simp [absEdge_isSome]

theorem abs_node (s : State) (i : Nat) : (abs s).node i = nodeWeight s i := by
  unfold Spec.node nodeWeight
  rw [abs_nodes, List.getElem?_map]
  cases s.nodes[i]? <;> rfl

theorem abs_edge_w (s : State) (e : Nat) : ((abs s).edge e).map (·.w) = edgeWeight s e := by
  unfold Spec.edge edgeWeight
  rw [abs_edges, List.getElem?_map]
  cases hx : s.edges[e]? with
  | none => rfl
  | some x => simp [absEdge]; cases x.w <;> rfl

/-! ### refinement equations of the calls -/

theorem abs_ext {s s' : State} (hd : s'.directed = s.directed) (hn : s'.nodes.map (·.w) = (abs s).nodes)
    (he : s'.edges.map absEdge = (abs s).edges) : abs s' = abs s := by
  unfold abs at *; simp only [hd] at *; simp_all

/-- `try_add_node` answering `Ok(i)` -/
theorem addNode_refines {s s' : State} {w : Int} {i : Nat} (hinv : Inv s) (h : tryAddNode s w = .ok (s', .ok i)) :
    (abs s).freshNode s.fin i = true ∧ abs s' = (abs s).addNodeAt i w ∧ Inv s' := by
  rcases tryAddNode_spec (d := none) (fe := s.freeEdge) w hinv with ⟨s1, i1, h1, hinv1, hfr, hlt, _, hE, _, hfe, _, _, hdir, _, hN⟩ | ⟨h1, _⟩
  · rw [h1] at h; cases h
    refine ⟨?_, ?_, by unfold Inv; rw [hfe]; exact hinv1⟩
    · unfold Spec.freshNode Spec.nodeLive
      rw [abs_node, hfr]; simp [hlt]
    · unfold abs Spec.addNodeAt
      simp only [hdir, hN, hE]
  · rw [h1] at h; cases h

/-- `try_add_node` answering an error: nothing changes and the index space is exhausted -/
theorem addNode_error {s s' : State} {w : Int} {e : GErr} (hinv : Inv s) (h : tryAddNode s w = .ok (s', .error e)) :
    s' = s ∧ e = .nodeIxLimit ∧ (abs s).nodeCount = s.fin := by
  rcases tryAddNode_spec (d := none) (fe := s.freeEdge) w hinv with ⟨s1, i1, h1, _⟩ | ⟨h1, _, hlen, hfree⟩
  · rw [h1] at h; cases h
  · rw [h1] at h; cases h
    refine ⟨rfl, rfl, ?_⟩
    rw [← (counts_abs hinv).1, hinv.cntN]
    simp only [Option.isSome_none, Bool.false_eq_true, if_false, Nat.add_zero]
    rw [← hlen]
    apply List.countP_eq_length.2
    intro n hn
    obtain ⟨i, hi, rfl⟩ := List.getElem_of_mem hn
    obtain ⟨l, hl, hmem, _⟩ := hinv.freeN
    rw [hfree] at hl
    have hnil := hl.of_head_fin
    subst hnil
    cases hw : s.nodes[i].w with
    | none => exact absurd ((hmem i).2 ⟨s.nodes[i], List.getElem?_eq_getElem hi, hw, by simp⟩) (by simp)
    | some _ => simp

/-- `try_add_edge` -/
theorem addEdge_refines {s s' : State} {a b : Nat} {w : Int} {r : Except GErr Nat} (hinv : Inv s)
    (h : tryAddEdge s a b w = .ok (s', r)) :
    Inv s' ∧
    (∀ e, r = .ok e → (abs s).nodeLive a = true ∧ (abs s).nodeLive b = true ∧ (abs s).freshEdge s.fin e = true ∧
      abs s' = (abs s).addEdgeAt e a b w) ∧
    (∀ err, r = .error err → s' = s ∧
      (err = .edgeIxLimit → (abs s).edgeCount = s.fin) ∧
      (∀ i, err = .nodeMissed i → (i = a ∨ i = b) ∧ (abs s).nodeLive i = false) ∧ err ≠ .nodeIxLimit) := by
  obtain ⟨s1, r1, h1, hinv1, herr, hok⟩ := tryAddEdge_inv hinv a b w
  rw [h1] at h; cases h
  refine ⟨hinv1, fun e he => ?_, fun err he => ?_⟩
  · have ho := hok e he
    have hdir : s'.directed = s.directed := by have := congrArg State.directed ho.rest; simpa using this
    refine ⟨by unfold Spec.nodeLive; rw [abs_node]; exact ho.liveA,
      by unfold Spec.nodeLive; rw [abs_node]; exact ho.liveB, ?_, ?_⟩
    · unfold Spec.freshEdge Spec.edgeLive
      have := abs_edge_w s e
      rw [ho.fresh] at this
      cases hx : (abs s).edge e with
      | none => simp [ho.lt]
      | some x => rw [hx] at this; simp at this
    · unfold abs Spec.addEdgeAt
      simp only [hdir, ho.nodesW, ho.edgesA]
  · obtain ⟨g1, g2, g3, g4⟩ := herr err he
    refine ⟨g1, fun h' => ?_, fun i hi => ?_, g4⟩
    · rw [← (counts_abs hinv).2]; exact g2 h'
    · obtain ⟨k1, k2⟩ := g3 i hi
      exact ⟨k1, by unfold Spec.nodeLive; rw [abs_node, k2]; rfl⟩

/-- `remove_edge` -/
theorem removeEdge_refines {s s' : State} {e : Nat} {r : Option Int} (hinv : Inv s) (h : removeEdge s e = .ok (s', r)) :
    Inv s' ∧ r = ((abs s).edge e).map (·.w) ∧ abs s' = (abs s).removeEdge e := by
  rw [abs_edge_w]
  cases hw : edgeWeight s e with
  | none =>
    rw [removeEdge_absent hw] at h; cases h
    refine ⟨hinv, rfl, ?_⟩
    unfold Spec.removeEdge Spec.edgeLive
    have := abs_edge_w s e
    rw [hw] at this
    cases hx : (abs s).edge e with
    | none => simp
    | some x => rw [hx] at this; simp at this
  | some w =>
    have hw' := hw
    unfold edgeWeight at hw
    cases hx : s.edges[e]? with
    | none => rw [hx] at hw; cases hw
    | some x =>
      rw [hx] at hw
      obtain ⟨s1, hrun, hinv1, hrf⟩ := removeEdge_spec (d := none) (fn := s.freeNode) hinv hx hw
      rw [hrun] at h; cases h
      have hfn : s'.freeNode = s.freeNode := by have := congrArg State.freeNode hrf.rest; simpa using this
      have hdir : s'.directed = s.directed := by have := congrArg State.directed hrf.rest; simpa using this
      refine ⟨by unfold Inv; rw [hfn]; exact hinv1, rfl, ?_⟩
      have hlive : (abs s).edgeLive e = true := by
        unfold Spec.edgeLive
        have := abs_edge_w s e
        rw [hw'] at this
        cases hx' : (abs s).edge e with
        | none => rw [hx'] at this; simp at this
        | some _ => rfl
      unfold Spec.removeEdge
      simp only [hlive, if_true]
      have hN : s'.nodes.map (·.w) = s.nodes.map (·.w) := NodesKeep.map_w ⟨hrf.lenN, hrf.node⟩
      have hE : s'.edges.map absEdge = (s.edges.map absEdge).set e none := by
        apply List.ext_getElem?
        intro i
        simp only [List.getElem?_map, List.getElem?_set, List.length_map]
        by_cases hi : i = e
        · subst hi
          obtain ⟨x1, g1, g2⟩ := hrf.gone
          have hel : i < s.edges.length := (List.getElem?_eq_some_iff.1 hx).1
          simp [g1, absEdge, g2, hel]
        · have hi' : e ≠ i := fun h => hi h.symm
          simp only [hi', if_false]
          cases hxi : s.edges[i]? with
          | none =>
            have : s'.edges[i]? = none := List.getElem?_eq_none_iff.2 (by rw [hrf.lenE]; exact List.getElem?_eq_none_iff.1 hxi)
            rw [this]
          | some xi =>
            obtain ⟨x1, g1, g2, g3, g4, _⟩ := hrf.edge i xi hi hxi
            rw [g1]; simp [absEdge, g2, g3, g4]
      unfold abs
      simp only [hdir, hN, hE]

/-- `remove_node` -/
theorem removeNode_refines {s s' : State} {a : Nat} {r : Option Int} (hinv : Inv s) (h : removeNode s a = .ok (s', r)) :
    Inv s' ∧ r = (abs s).node a ∧ abs s' = (abs s).removeNode a := by
  rw [abs_node]
  cases hw : nodeWeight s a with
  | none =>
    rw [removeNode_absent hw] at h; cases h
    refine ⟨hinv, rfl, ?_⟩
    unfold Spec.removeNode Spec.nodeLive
    rw [abs_node, hw]; simp
  | some w =>
    have hw' := hw
    unfold nodeWeight at hw
    cases hn : s.nodes[a]? with
    | none => rw [hn] at hw; cases hw
    | some n =>
      rw [hn] at hw
      obtain ⟨s1, hrun, hinv1, hok⟩ := removeNode_spec hinv hn hw
      rw [hrun] at h; cases h
      refine ⟨hinv1, rfl, ?_⟩
      have hlive : (abs s).nodeLive a = true := by unfold Spec.nodeLive; rw [abs_node, hw']; rfl
      unfold Spec.removeNode
      simp only [hlive, if_true]
      have hE : s'.edges.map absEdge = (s.edges.map absEdge).map (fun oe => match oe with
          | some e => if e.a = a || e.b = a then none else some e
          | none => none) := by
        apply List.ext_getElem?
        intro i
        simp only [List.getElem?_map]
        cases hxi : s.edges[i]? with
        | none =>
          have : s'.edges[i]? = none := List.getElem?_eq_none_iff.2 (by rw [hok.lenE]; exact List.getElem?_eq_none_iff.1 hxi)
          rw [this]; rfl
        | some xi =>
          obtain ⟨x1, g1, g2⟩ := hok.edges i xi hxi
          rw [g1]
          simp only [Option.map_some, absEdge]
          rcases g2 with ⟨k1, k2, k3⟩ | ⟨k1, k2, k3, k4⟩
          · obtain ⟨wi, hwi⟩ := Option.isSome_iff_exists.1 k1
            simp only [k3, hwi, Option.map_none, Option.map_some]
            rcases k2 with h' | h' <;> simp [h']
          · cases hwi : xi.w with
            | none => simp [k2, hwi]
            | some wi =>
              have : ¬ (xi.a = a ∨ xi.b = a) := fun h' => k1 ⟨by rw [hwi]; rfl, h'⟩
              have h1 : xi.a ≠ a := fun h' => this (.inl h')
              have h2 : xi.b ≠ a := fun h' => this (.inr h')
              simp [k2, k3, k4, hwi, h1, h2]
      unfold abs
      simp only [hok.directed, hok.nodesW, hE]
      rfl


/-! ### the remaining single-step calls -/

theorem reverse_refines (s : State) : abs (reverse s) = (abs s).reverse := by
  unfold abs Spec.reverse reverse
  simp only [List.map_map]
  congr 1
  · apply List.map_congr_left
    intro n _; simp only [Function.comp]; split <;> rfl
  · apply List.map_congr_left
    intro x _
    simp only [Function.comp, absEdge]
    cases hw : x.w <;> simp [hw]

theorem clear_refines (s : State) : abs (clear s) = (abs s).clear := rfl

theorem clearEdges_refines (s : State) : abs (clearEdges s) = (abs s).clearEdges := by
  unfold abs Spec.clearEdges clearEdges
  simp only [List.map_map, List.map_nil]
  congr 1
  apply List.map_congr_left
  intro n _; simp only [Function.comp]; split <;> rfl

theorem mapGraph_refines (s : State) (cn ce : Int) :
    abs (mapGraph s cn ce).1 = (abs s).mapWeights cn ce ∧
    (mapGraph s cn ce).2.1 = (abs s).nodeIds ∧ (mapGraph s cn ce).2.2 = (abs s).edgeIds := by
  refine ⟨?_, nodeIndices_abs s, edgeIndices_abs s⟩
  unfold abs Spec.mapWeights mapGraph
  simp only [List.map_map]
  congr 1
  apply List.map_congr_left
  intro x _
  simp only [Function.comp, absEdge]
  cases x.w <;> rfl

theorem setNodeWeight_refines (s : State) (a : Nat) (w : Int) :
    abs (setNodeWeight s a w).1 = (abs s).setNodeWeight a w ∧ (setNodeWeight s a w).2 = (abs s).nodeLive a := by
  unfold Spec.setNodeWeight Spec.nodeLive
  rw [abs_node]
  unfold setNodeWeight nodeWeight
  cases hn : s.nodes[a]? with
  | none => simp
  | some n =>
    cases hw : n.w with
    | none => simp [hw]
    | some w0 =>
      simp only [hw, Option.isSome_some, if_true, and_true]
      unfold abs
      simp [List.map_set]

theorem setEdgeWeight_refines (s : State) (e : Nat) (w : Int) :
    abs (setEdgeWeight s e w).1 = (abs s).setEdgeWeight e w ∧ (setEdgeWeight s e w).2 = (abs s).edgeLive e := by
  unfold Spec.setEdgeWeight Spec.edgeLive Spec.edge
  rw [abs_edges, List.getElem?_map]
  unfold setEdgeWeight
  cases hx : s.edges[e]? with
  | none => simp
  | some x =>
    cases hw : x.w with
    | none => simp [hw, absEdge]
    | some w0 =>
      simp only [hw, Option.isSome_some, if_true, Option.map_some, absEdge, Option.join_some]
      refine ⟨?_, trivial⟩
      unfold abs
      simp [List.map_set, absEdge]

theorem connects_abs (s : State) (x : Edge) (w : Int) (a b : Nat) :
    (abs s).connects ⟨x.a, x.b, w⟩ a b = true ↔ Connects s x a b := by
  unfold Spec.connects Connects abs
  simp only [Bool.or_eq_true, Bool.and_eq_true, beq_iff_eq, Bool.not_eq_true']
  constructor
  · rintro (⟨h1, h2⟩ | ⟨⟨h1, h2⟩, h3⟩)
    · exact .inl ⟨h1, h2⟩
    · exact .inr ⟨h1, h2, h3⟩
  · rintro (⟨h1, h2⟩ | ⟨h1, h2, h3⟩)
    · exact .inl ⟨h1, h2⟩
    · exact .inr ⟨⟨h1, h2⟩, h3⟩

/-- `try_update_edge`: an existing connecting edge gets the weight (its index is answered), otherwise the call is
`try_add_edge` -/
theorem updateEdge_refines {s s' : State} {a b : Nat} {w : Int} {r : Except GErr Nat} (hinv : Inv s)
    (h : tryUpdateEdge s a b w = .ok (s', r)) :
    Inv s' ∧
    ((∃ e x, r = .ok e ∧ s.edges[e]? = some x ∧ x.w.isSome ∧ Connects s x a b ∧ abs s' = (abs s).setEdgeWeight e w) ∨
     ((∀ (e : Nat) (x : Edge), s.edges[e]? = some x → x.w.isSome → ¬ Connects s x a b) ∧
       tryAddEdge s a b w = .ok (s', r))) := by
  obtain ⟨r0, hr0, hsome, hnone⟩ := findEdge_spec hinv a b
  obtain ⟨s1, r1, h1, hinv1, _⟩ := tryUpdateEdge_inv hinv a b w
  rw [h] at h1; cases h1
  refine ⟨hinv1, ?_⟩
  cases r0 with
  | none =>
    right
    refine ⟨hnone rfl, ?_⟩
    simpa [tryUpdateEdge, hr0] using h
  | some ix =>
    left
    obtain ⟨x, hx, hxl, hconn⟩ := hsome ix rfl
    have hn : x.w.isNone = false := by cases hw : x.w <;> simp_all
    have : tryUpdateEdge s a b w = .ok ((setEdgeWeight s ix w).1, .ok ix) := by
      simp [tryUpdateEdge, hr0, hx, hn, setEdgeWeight, hxl]
    rw [this] at h; cases h
    exact ⟨ix, x, rfl, hx, hxl, hconn, (setEdgeWeight_refines s ix w).1⟩


/-! ### `retain_nodes` / `retain_edges` -/

theorem Spec.removeNode_nodeLive_ne (sp : Spec) {a j : Nat} (h : j ≠ a) : (sp.removeNode a).nodeLive j = sp.nodeLive j := by
  unfold Spec.removeNode
  split
  · unfold Spec.nodeLive Spec.node
    simp only
    rw [List.getElem?_set_ne (fun h' => h h'.symm)]
  · rfl

theorem Spec.removeEdge_edgeLive_ne (sp : Spec) {e j : Nat} (h : j ≠ e) : (sp.removeEdge e).edgeLive j = sp.edgeLive j := by
  unfold Spec.removeEdge
  split
  · unfold Spec.edgeLive Spec.edge
    simp only
    rw [List.getElem?_set_ne (fun h' => h h'.symm)]
  · rfl

theorem removeNode_keeps_mkIx {s s' : State} {a : Nat} {r : Option Int} (hinv : Inv s) (h : removeNode s a = .ok (s', r)) :
    ∀ i, mkIx s' i = mkIx s i := by
  cases hw : nodeWeight s a with
  | none => rw [removeNode_absent hw] at h; cases h; intro i; rfl
  | some w =>
    unfold nodeWeight at hw
    cases hn : s.nodes[a]? with
    | none => rw [hn] at hw; cases hw
    | some n =>
      rw [hn] at hw
      obtain ⟨s1, hrun, _, hok⟩ := removeNode_spec hinv hn hw
      rw [hrun] at h; cases h
      intro i; unfold mkIx; rw [hok.fin, hok.noLimit]

theorem removeEdge_keeps_mkIx {s s' : State} {e : Nat} {r : Option Int} (hinv : Inv s) (h : removeEdge s e = .ok (s', r)) :
    ∀ i, mkIx s' i = mkIx s i := by
  cases hw : edgeWeight s e with
  | none => rw [removeEdge_absent hw] at h; cases h; intro i; rfl
  | some w =>
    unfold edgeWeight at hw
    cases hx : s.edges[e]? with
    | none => rw [hx] at hw; cases hw
    | some x =>
      rw [hx] at hw
      obtain ⟨s1, hrun, _, hrf⟩ := removeEdge_spec (d := none) (fn := s.freeNode) hinv hx hw
      rw [hrun] at h; cases h
      have h1 : s'.fin = s.fin := by have := congrArg State.fin hrf.rest; simpa using this
      have h2 : s'.noLimit = s.noLimit := by have := congrArg State.noLimit hrf.rest; simpa using this
      intro i; unfold mkIx; rw [h1, h2]

theorem containsNode_abs (s : State) (i : Nat) : containsNode s i = (abs s).nodeLive i := by
  unfold containsNode Spec.nodeLive
  rw [abs_node]
  cases hg : getNode s i with
  | none => rw [getNode_none.1 hg]; rfl
  | some n =>
    obtain ⟨hn, hl⟩ := getNode_some.1 hg
    unfold nodeWeight; rw [hn]; simp [hl]

theorem edgeLive_abs (s : State) (e : Nat) : (edgeWeight s e).isSome = (abs s).edgeLive e := by
  unfold Spec.edgeLive
  rw [← abs_edge_w]
  cases (abs s).edge e <;> rfl

theorem retainNodesLoop_refines (rm : List Nat) : ∀ (is : List Nat) {s s' : State} {vis : List Nat}, Inv s →
    (∀ i ∈ is, mkIx s i = i) → is.Nodup → retainNodesLoop rm is s = .ok (s', vis) →
    abs s' = (is.filter (fun i => rm.contains i)).foldl (fun sp a => sp.removeNode a) (abs s) ∧
    vis = is.filter (fun i => (abs s).nodeLive i) := by
  intro is
  induction is with
  | nil => intro s s' vis _ _ _ h; simp [retainNodesLoop] at h; obtain ⟨rfl, rfl⟩ := h; exact ⟨rfl, rfl⟩
  | cons i is ih =>
    intro s s' vis hinv hmk hnd h
    have hi : mkIx s i = i := hmk i List.mem_cons_self
    have hnd' := List.nodup_cons.1 hnd
    simp only [retainNodesLoop, hi, containsNode_abs] at h
    by_cases hl : (abs s).nodeLive i = true
    · simp only [hl, if_true] at h
      by_cases hr : rm.contains i = true
      · simp only [hr, if_true] at h
        cases hrm : removeNode s i with
        | error x => rw [hrm] at h; cases h
        | ok p =>
          obtain ⟨s1, r1⟩ := p
          rw [hrm] at h
          simp only at h
          obtain ⟨hinv1, _, habs1⟩ := removeNode_refines hinv hrm
          have hmk1 := removeNode_keeps_mkIx hinv hrm
          cases hrest : retainNodesLoop rm is s1 with
          | error x => rw [hrest] at h; cases h
          | ok q =>
            obtain ⟨s2, vis2⟩ := q
            rw [hrest] at h
            simp only [Except.ok.injEq, Prod.mk.injEq] at h
            obtain ⟨rfl, rfl⟩ := h
            obtain ⟨g1, g2⟩ := ih hinv1 (fun j hj => by rw [hmk1]; exact hmk j (List.mem_cons_of_mem _ hj)) hnd'.2 hrest
            refine ⟨?_, ?_⟩
            · simp only [List.filter_cons, hr, if_true, List.foldl_cons]
              rw [g1, habs1]
            · simp only [List.filter_cons, hl, if_true]
              congr 1
              rw [g2]
              apply List.filter_congr
              intro j hj
              rw [habs1, Spec.removeNode_nodeLive_ne]
              rintro rfl; exact hnd'.1 hj
      · simp only [hr, Bool.false_eq_true, if_false] at h
        cases hrest : retainNodesLoop rm is s with
        | error x => rw [hrest] at h; cases h
        | ok q =>
          obtain ⟨s2, vis2⟩ := q
          rw [hrest] at h
          simp only [Except.ok.injEq, Prod.mk.injEq] at h
          obtain ⟨rfl, rfl⟩ := h
          obtain ⟨g1, g2⟩ := ih hinv (fun j hj => hmk j (List.mem_cons_of_mem _ hj)) hnd'.2 hrest
          exact ⟨by simp only [List.filter_cons, hr, Bool.false_eq_true, if_false]; exact g1,
            by simp only [List.filter_cons, hl, if_true]; rw [g2]⟩
    · simp only [hl, Bool.false_eq_true, if_false] at h
      obtain ⟨g1, g2⟩ := ih hinv (fun j hj => hmk j (List.mem_cons_of_mem _ hj)) hnd'.2 h
      refine ⟨?_, by simp only [List.filter_cons, hl, Bool.false_eq_true, if_false]; exact g2⟩
      by_cases hr : rm.contains i = true
      · simp only [List.filter_cons, hr, if_true, List.foldl_cons]
        have : (abs s).removeNode i = abs s := by
          unfold Spec.removeNode; simp [hl]
        rw [this]; exact g1
      · simp only [List.filter_cons, hr, Bool.false_eq_true, if_false]; exact g1

theorem mkIx_of_le {s : State} {i : Nat} (h : i ≤ s.fin) : mkIx s i = i := by
  unfold mkIx; split
  · rfl
  · exact Nat.mod_eq_of_lt (by omega)

/-- `retain_nodes`: the closure is called for exactly the live nodes (in index order) and exactly the nodes it rejects
are removed, with their incident edges -/
theorem retainNodes_refines {s s' : State} {rm vis : List Nat} (hinv : Inv s) (h : retainNodes s rm = .ok (s', vis)) :
    abs s' = (abs s).retainNodes rm ∧ vis = (List.range (abs s).nodeBound).filter (fun i => (abs s).nodeLive i) := by
  unfold retainNodes at h
  cases hloop : retainNodesLoop rm (List.range (nodeBound s)) s with
  | error x => rw [hloop] at h; cases h
  | ok q =>
    obtain ⟨s1, vis1⟩ := q
    rw [hloop] at h
    simp only at h
    cases hchk : checkFreeLists s1 with
    | error x => rw [hchk] at h; cases h
    | ok u =>
      rw [hchk] at h
      simp only [Except.ok.injEq, Prod.mk.injEq] at h
      obtain ⟨rfl, rfl⟩ := h
      have hb : nodeBound s ≤ s.fin := Nat.le_trans (by simpa [nodeBound] using boundOf_le (s.nodes.map (·.w))) hinv.lenN
      obtain ⟨g1, g2⟩ := retainNodesLoop_refines rm (List.range (nodeBound s)) hinv
        (fun i hi => mkIx_of_le (by have := List.mem_range.1 hi; omega)) List.nodup_range hloop
      rw [nodeBound_abs] at g1 g2
      exact ⟨g1, g2⟩

theorem retainEdgesLoop_refines (rm : List Nat) : ∀ (is : List Nat) {s s' : State} {vis : List Nat}, Inv s →
    (∀ i ∈ is, mkIx s i = i) → is.Nodup → retainEdgesLoop rm is s = .ok (s', vis) →
    abs s' = (is.filter (fun i => rm.contains i)).foldl (fun sp a => sp.removeEdge a) (abs s) ∧
    vis = is.filter (fun i => (abs s).edgeLive i) := by
  intro is
  induction is with
  | nil => intro s s' vis _ _ _ h; simp [retainEdgesLoop] at h; obtain ⟨rfl, rfl⟩ := h; exact ⟨rfl, rfl⟩
  | cons i is ih =>
    intro s s' vis hinv hmk hnd h
    have hi : mkIx s i = i := hmk i List.mem_cons_self
    have hnd' := List.nodup_cons.1 hnd
    simp only [retainEdgesLoop, hi, edgeLive_abs] at h
    by_cases hl : (abs s).edgeLive i = true
    · simp only [hl, if_true] at h
      by_cases hr : rm.contains i = true
      · simp only [hr, if_true] at h
        cases hrm : removeEdge s i with
        | error x => rw [hrm] at h; cases h
        | ok p =>
          obtain ⟨s1, r1⟩ := p
          rw [hrm] at h
          simp only at h
          obtain ⟨hinv1, _, habs1⟩ := removeEdge_refines hinv hrm
          have hmk1 := removeEdge_keeps_mkIx hinv hrm
          cases hrest : retainEdgesLoop rm is s1 with
          | error x => rw [hrest] at h; cases h
          | ok q =>
            obtain ⟨s2, vis2⟩ := q
            rw [hrest] at h
            simp only [Except.ok.injEq, Prod.mk.injEq] at h
            obtain ⟨rfl, rfl⟩ := h
            obtain ⟨g1, g2⟩ := ih hinv1 (fun j hj => by rw [hmk1]; exact hmk j (List.mem_cons_of_mem _ hj)) hnd'.2 hrest
            refine ⟨?_, ?_⟩
            · simp only [List.filter_cons, hr, if_true, List.foldl_cons]
              rw [g1, habs1]
            · simp only [List.filter_cons, hl, if_true]
              congr 1
              rw [g2]
              apply List.filter_congr
              intro j hj
              rw [habs1, Spec.removeEdge_edgeLive_ne]
              rintro rfl; exact hnd'.1 hj
      · simp only [hr, Bool.false_eq_true, if_false] at h
        cases hrest : retainEdgesLoop rm is s with
        | error x => rw [hrest] at h; cases h
        | ok q =>
          obtain ⟨s2, vis2⟩ := q
          rw [hrest] at h
          simp only [Except.ok.injEq, Prod.mk.injEq] at h
          obtain ⟨rfl, rfl⟩ := h
          obtain ⟨g1, g2⟩ := ih hinv (fun j hj => hmk j (List.mem_cons_of_mem _ hj)) hnd'.2 hrest
          exact ⟨by simp only [List.filter_cons, hr, Bool.false_eq_true, if_false]; exact g1,
            by simp only [List.filter_cons, hl, if_true]; rw [g2]⟩
    · simp only [hl, Bool.false_eq_true, if_false] at h
      obtain ⟨g1, g2⟩ := ih hinv (fun j hj => hmk j (List.mem_cons_of_mem _ hj)) hnd'.2 h
      refine ⟨?_, by simp only [List.filter_cons, hl, Bool.false_eq_true, if_false]; exact g2⟩
      by_cases hr : rm.contains i = true
      · simp only [List.filter_cons, hr, if_true, List.foldl_cons]
        have : (abs s).removeEdge i = abs s := by
          unfold Spec.removeEdge; simp [hl]
        rw [this]; exact g1
      · simp only [List.filter_cons, hr, Bool.false_eq_true, if_false]; exact g1

/-- `retain_edges` -/
theorem retainEdges_refines {s s' : State} {rm vis : List Nat} (hinv : Inv s) (h : retainEdges s rm = .ok (s', vis)) :
    abs s' = (abs s).retainEdges rm ∧ vis = (List.range (abs s).edgeBound).filter (fun i => (abs s).edgeLive i) := by
  unfold retainEdges at h
  cases hloop : retainEdgesLoop rm (List.range (edgeBound s)) s with
  | error x => rw [hloop] at h; cases h
  | ok q =>
    obtain ⟨s1, vis1⟩ := q
    rw [hloop] at h
    simp only at h
    cases hchk : checkFreeLists s1 with
    | error x => rw [hchk] at h; cases h
    | ok u =>
      rw [hchk] at h
      simp only [Except.ok.injEq, Prod.mk.injEq] at h
      obtain ⟨rfl, rfl⟩ := h
      have hb : edgeBound s ≤ s.fin := Nat.le_trans (by simpa [edgeBound] using boundOf_le (s.edges.map (·.w))) hinv.lenE
      obtain ⟨g1, g2⟩ := retainEdgesLoop_refines rm (List.range (edgeBound s)) hinv
        (fun i hi => mkIx_of_le (by have := List.mem_range.1 hi; omega)) List.nodup_range hloop
      rw [edgeBound_abs] at g1 g2
      exact ⟨g1, g2⟩


end PetgraphModel.SGProofs
