import PetgraphModel.Proofs.C12Count
/-
The cycle property implies minimality — the certificate the C12 judge checks for graphs of every
size is sufficient:

  a spanning forest `M` of `E` such that every unused non-loop edge `e` weighs at least as much as
  every forest edge on the forest path between `e`'s endpoints has minimum total weight among ALL
  spanning forests of `E`.

Proof (threshold / counting argument, no exchange of individual edges):
  1. for every threshold `t` the light part `M≤t` connects the endpoints of every edge of `E` of
     weight `≤ t` (`light_spans`: otherwise the first heavy forest edge that joins them is a bridge
     between them, and the cycle property makes it light);
  2. hence for every forest `F'` inside `E`, `|F'≤t| ≤ |M≤t|` (`forest_count`: a forest has
     `|V| − c` edges, and `M≤t` has at most as many components as `F'≤t`);
  3. `|M| = |F'|` for spanning forests, and a list of weights that is dominated at every threshold
     has the smaller sum (`sum_le_of_dominated`).
-/
namespace PetgraphModel.MST
open PetgraphModel MGraph

/-! ### acyclicity, once more -/

theorem acyclic_cons_iff {e : Edge} {F : List Edge} :
    Acyclic (e :: F) ↔ Acyclic F ∧ ¬ Conn F e.src e.tgt :=
  ⟨fun h => ⟨h.tail, h.head⟩, fun h => acyclic_cons h.1 h.2⟩

theorem Acyclic.filter (p : Edge → Bool) : ∀ {F : List Edge}, Acyclic F → Acyclic (F.filter p)
  | [], _ => by simpa using acyclic_nil
  | e :: F, h => by
    have ih := Acyclic.filter p h.tail
    by_cases hp : p e = true
    · rw [List.filter_cons_of_pos hp]
      exact acyclic_cons ih fun hc => h.head (hc.mono fun _ hx => (List.mem_filter.mp hx).1)
    · rw [List.filter_cons_of_neg hp]; exact ih

/-- every edge of a forest is a bridge, whichever way the forest is listed -/
theorem Acyclic.bridge {M rest : List Edge} {f : Edge} (h : Acyclic M) (hp : M.Perm (f :: rest)) :
    ¬ Conn rest f.src f.tgt := (h.perm hp).head

theorem CycleProperty.perm_form {M R rest : List Edge} {e f : Edge} (h : CycleProperty M R)
    (he : e ∈ R) (hne : e.src ≠ e.tgt) (hp : M.Perm (f :: rest)) (hnc : ¬ Conn rest e.src e.tgt) :
    f.w ≤ e.w := by
  have hf : f ∈ M := hp.mem_iff.mpr (List.mem_cons_self ..)
  obtain ⟨l1, l2, hM⟩ := List.append_of_mem hf
  have hp2 : (l1 ++ l2).Perm rest := by
    have : (f :: (l1 ++ l2)).Perm (f :: rest) := by
      refine List.perm_middle.symm.trans ?_
      rw [← hM]; exact hp
    exact this.cons_inv
  exact h e he hne l1 f l2 hM fun hc => hnc ((conn_perm hp2).mp hc)

/-! ### step 1: the light part of `M` spans the light part of `E` -/

/-- adding the edges `H` one at a time to `G`, some edge is the first to connect `a` and `b` -/
theorem first_connecting {G : List Edge} {a b : Nat} (hn : ¬ Conn G a b) : ∀ (H : List Edge),
    Conn (H ++ G) a b →
    ∃ H1 h H2, H = H1 ++ h :: H2 ∧ ¬ Conn (H2 ++ G) a b ∧ Conn (h :: (H2 ++ G)) a b
  | [], hc => absurd hc hn
  | h :: H', hc => by
    by_cases hc' : Conn (H' ++ G) a b
    · obtain ⟨H1, x, H2, hH, h1, h2⟩ := first_connecting hn H' hc'
      exact ⟨h :: H1, x, H2, by rw [hH]; rfl, h1, h2⟩
    · exact ⟨[], h, H', rfl, hc', hc⟩

theorem light_spans {E M R : List Edge} (hperm : (M ++ R).Perm E) (hac : Acyclic M)
    (hsp : Spanning E M) (hcp : CycleProperty M R) (t : Int) :
    ∀ e ∈ E, e.w ≤ t → Conn (M.filter fun x => decide (x.w ≤ t)) e.src e.tgt := by
  intro e he het
  rcases List.mem_append.mp (hperm.mem_iff.mpr he) with heM | heR
  · exact Conn.edge (List.mem_filter.mpr ⟨heM, by simpa using het⟩)
  · by_cases hloop : e.src = e.tgt
    · rw [hloop]; exact Conn.refl _ _
    · refine Classical.byContradiction fun hn => ?_
      let G := M.filter fun x => decide (x.w ≤ t)
      let H := M.filter fun x => !decide (x.w ≤ t)
      have hGH : (H ++ G).Perm M :=
        List.perm_append_comm.trans (List.filter_append_perm (fun x => decide (x.w ≤ t)) M)
      have hcM : Conn M e.src e.tgt := hsp _ _ (Conn.edge he)
      obtain ⟨H1, h, H2, hH, hn2, hc2⟩ := first_connecting hn H ((conn_perm hGH).mpr hcM)
      have hheavy : ¬ h.w ≤ t := by
        have : h ∈ H := by rw [hH]; simp
        have := (List.mem_filter.mp this).2
        simpa using this
      -- M is h plus the rest
      have hMp : M.Perm (h :: (H1 ++ (H2 ++ G))) := by
        refine hGH.symm.trans ?_
        rw [hH, List.append_assoc, List.cons_append]
        exact List.perm_middle
      have hsubrest : ∀ x ∈ H2 ++ G, x ∈ H1 ++ (H2 ++ G) := fun x hx => List.mem_append_right _ hx
      have hnrest : ¬ Conn (H1 ++ (H2 ++ G)) e.src e.tgt := by
        intro hcr
        have hbr := hac.bridge hMp
        rcases conn_cons hc2 with h0 | ⟨h1, h3⟩ | ⟨h1, h3⟩
        · exact hn2 h0
        · exact hbr (((h1.mono hsubrest).symm.trans hcr).trans (h3.mono hsubrest).symm)
        · exact hbr ((h3.mono hsubrest).trans (hcr.symm.trans (h1.mono hsubrest)))
      have := hcp.perm_form heR hloop hMp hnrest
      omega

/-! ### step 2: no forest has more light edges than `M` -/

theorem repSystem_length_mono {F G : List Edge} {V repsF repsG : List Nat}
    (hFG : ∀ a b, Conn F a b → Conn G a b) (hF : IsRepSystem F V repsF) (hG : IsRepSystem G V repsG) :
    repsG.length ≤ repsF.length := by
  have hex : ∀ r, ∃ s, r ∈ repsG → s ∈ repsF ∧ Conn F r s := by
    intro r
    by_cases hr : r ∈ repsG
    · obtain ⟨s, hs, hc⟩ := hF.cover r (hG.sub r hr)
      exact ⟨s, fun _ => ⟨hs, hc⟩⟩
    · exact ⟨0, fun h => absurd h hr⟩
  let f : Nat → Nat := fun r => Classical.choose (hex r)
  have hf : ∀ r, r ∈ repsG → f r ∈ repsF ∧ Conn F r (f r) := fun r => Classical.choose_spec (hex r)
  have hnd : (repsG.map f).Nodup := by
    unfold List.Nodup
    rw [List.pairwise_map]
    refine hG.nodup.imp_of_mem ?_
    intro a b ha hb hne heq
    refine hne (hG.apart a ha b hb (hFG _ _ ((hf a ha).2.trans ?_)))
    rw [heq]; exact (hf b hb).2.symm
  have hsub : repsG.map f ⊆ repsF := by
    intro x hx
    obtain ⟨r, hr, rfl⟩ := List.mem_map.mp hx
    exact (hf r hr).1
  have := hnd.length_le_of_subset hsub
  simpa using this

theorem light_count_le {E M F' : List Edge} {V : List Nat} (hV : V.Nodup)
    (hends : ∀ e ∈ E, e.src ∈ V ∧ e.tgt ∈ V) (hMV : ∀ e ∈ M, e.src ∈ V ∧ e.tgt ∈ V) (hFE : ∀ e ∈ F', e ∈ E)
    (hacM : Acyclic M) (hacF : Acyclic F') (t : Int)
    (hlight : ∀ e ∈ E, e.w ≤ t → Conn (M.filter fun x => decide (x.w ≤ t)) e.src e.tgt) :
    (F'.filter fun x => decide (x.w ≤ t)).length ≤ (M.filter fun x => decide (x.w ≤ t)).length := by
  obtain ⟨rF, hrF⟩ := repSystem_exists (F'.filter fun x => decide (x.w ≤ t)) V
  obtain ⟨rM, hrM⟩ := repSystem_exists (M.filter fun x => decide (x.w ≤ t)) V
  have c1 := forest_count _ V rF hV
    (fun e he => hends e (hFE e (List.mem_filter.mp he).1)) (hacF.filter _) hrF
  have c2 := forest_count _ V rM hV
    (fun e he => hMV e (List.mem_filter.mp he).1) (hacM.filter _) hrM
  have hsub : ∀ a b, Conn (F'.filter fun x => decide (x.w ≤ t)) a b →
      Conn (M.filter fun x => decide (x.w ≤ t)) a b := by
    intro a b hc
    refine hc.of_edges ?_
    intro e he
    obtain ⟨he1, he2⟩ := List.mem_filter.mp he
    exact hlight e (hFE e he1) (by simpa using he2)
  have := repSystem_length_mono hsub hrF hrM
  omega

/-! ### step 3: domination at every threshold bounds the sum -/

theorem sum_perm_int {l1 l2 : List Int} (h : l1.Perm l2) : l1.sum = l2.sum := by
  induction h with
  | nil => rfl
  | cons x _ ih => simp only [List.sum_cons]; omega
  | swap x y l => simp only [List.sum_cons]; omega
  | trans _ _ ih1 ih2 => omega

theorem exists_max_perm : ∀ (l : List Int), l ≠ [] → ∃ x rest, l.Perm (x :: rest) ∧ ∀ y ∈ l, y ≤ x
  | [], h => absurd rfl h
  | [x], _ => ⟨x, [], List.Perm.refl _, fun y hy => by simp at hy; omega⟩
  | x :: y :: ys, _ => by
    obtain ⟨m, rest, hp, hmax⟩ := exists_max_perm (y :: ys) (by simp)
    by_cases hxm : x ≤ m
    · refine ⟨m, x :: rest, (hp.cons x).trans (List.Perm.swap m x rest), ?_⟩
      intro z hz
      rcases List.mem_cons.mp hz with rfl | hz
      · exact hxm
      · exact hmax z hz
    · refine ⟨x, y :: ys, List.Perm.refl _, ?_⟩
      intro z hz
      rcases List.mem_cons.mp hz with rfl | hz
      · omega
      · have := hmax z hz; omega

theorem sum_le_of_dominated : ∀ (n : Nat) (A B : List Int), A.length = n → B.length = n →
    (∀ t : Int, B.countP (fun x => decide (x ≤ t)) ≤ A.countP (fun x => decide (x ≤ t))) →
    A.sum ≤ B.sum
  | 0, A, B, hA, hB, _ => by
    rw [List.length_eq_zero_iff.mp hA, List.length_eq_zero_iff.mp hB]; omega
  | n + 1, A, B, hA, hB, hdom => by
    have hAne : A ≠ [] := fun h => by rw [h] at hA; simp at hA
    have hBne : B ≠ [] := fun h => by rw [h] at hB; simp at hB
    obtain ⟨a, A', hpA, hmaxA⟩ := exists_max_perm A hAne
    obtain ⟨b, B', hpB, hmaxB⟩ := exists_max_perm B hBne
    have hA' : A'.length = n := by have := hpA.length_eq; simp at this; omega
    have hB' : B'.length = n := by have := hpB.length_eq; simp at this; omega
    have cA : ∀ t : Int, A.countP (fun x => decide (x ≤ t)) =
        A'.countP (fun x => decide (x ≤ t)) + if a ≤ t then 1 else 0 := by
      intro t; rw [hpA.countP_eq, List.countP_cons]; simp
    have cB : ∀ t : Int, B.countP (fun x => decide (x ≤ t)) =
        B'.countP (fun x => decide (x ≤ t)) + if b ≤ t then 1 else 0 := by
      intro t; rw [hpB.countP_eq, List.countP_cons]; simp
    -- everything in A is ≤ b
    have hAb : ∀ y ∈ A, y ≤ b := by
      have hall : B.countP (fun x => decide (x ≤ b)) = B.length :=
        List.countP_eq_length.mpr fun y hy => by simpa using hmaxB y hy
      have h1 := hdom b
      have h2 : A.countP (fun x => decide (x ≤ b)) ≤ A.length := List.countP_le_length
      have h3 : A.countP (fun x => decide (x ≤ b)) = A.length := by omega
      intro y hy
      have := List.countP_eq_length.mp h3 y hy
      simpa using this
    have hab : a ≤ b := hAb a (hpA.mem_iff.mpr (List.mem_cons_self ..))
    have hfull : ∀ t : Int, a ≤ t → A'.countP (fun x => decide (x ≤ t)) = A'.length := by
      intro t hat
      refine List.countP_eq_length.mpr fun y hy => ?_
      have := hmaxA y (hpA.mem_iff.mpr (List.mem_cons_of_mem _ hy))
      simp; omega
    have hdom' : ∀ t : Int, B'.countP (fun x => decide (x ≤ t)) ≤ A'.countP (fun x => decide (x ≤ t)) := by
      intro t
      have hd := hdom t
      rw [cA t, cB t] at hd
      have hle : B'.countP (fun x => decide (x ≤ t)) ≤ B'.length := List.countP_le_length
      by_cases hat : a ≤ t
      · rw [hfull t hat]; omega
      · have hbt : ¬ b ≤ t := by omega
        simp only [hat, hbt, if_false] at hd
        omega
    have ih := sum_le_of_dominated n A' B' hA' hB' hdom'
    rw [sum_perm_int hpA, sum_perm_int hpB]
    simp only [List.sum_cons]
    omega

/-! ### the theorem -/

/-- some duplicate-free node list contains all endpoints -/
theorem exists_nodes : ∀ (E : List Edge), ∃ V : List Nat, V.Nodup ∧ ∀ e ∈ E, e.src ∈ V ∧ e.tgt ∈ V
  | [] => ⟨[], List.nodup_nil, fun _ h => (nomatch h)⟩
  | e :: E => by
    obtain ⟨V, hV, hends⟩ := exists_nodes E
    have add : ∀ (x : Nat) (W : List Nat), W.Nodup → ∃ W' : List Nat, W'.Nodup ∧ x ∈ W' ∧ ∀ y ∈ W, y ∈ W' := by
      intro x W hW
      by_cases hx : x ∈ W
      · exact ⟨W, hW, hx, fun _ h => h⟩
      · exact ⟨x :: W, List.nodup_cons.mpr ⟨hx, hW⟩, List.mem_cons_self .., fun _ h => List.mem_cons_of_mem _ h⟩
    obtain ⟨V1, hV1, hs, hsub1⟩ := add e.src V hV
    obtain ⟨V2, hV2, ht, hsub2⟩ := add e.tgt V1 hV1
    refine ⟨V2, hV2, ?_⟩
    intro x hx
    rcases List.mem_cons.mp hx with rfl | hx
    · exact ⟨hsub2 _ hs, ht⟩
    · exact ⟨hsub2 _ (hsub1 _ (hends x hx).1), hsub2 _ (hsub1 _ (hends x hx).2)⟩

theorem weight_eq_sum (F : List Edge) : weight F = (F.map (·.w)).sum := rfl

theorem countP_weights (F : List Edge) (t : Int) :
    (F.map (·.w)).countP (fun x => decide (x ≤ t)) = (F.filter fun x => decide (x.w ≤ t)).length := by
  rw [List.countP_map, List.countP_eq_length_filter]
  rfl

/-- **The cycle property certifies minimality**: a spanning forest `M` of `E` (with unused edges `R`)
that satisfies the cycle property weighs no more than any spanning forest of `E`. -/
theorem cycleProperty_minimal {E M R : List Edge} (hperm : (M ++ R).Perm E) (hac : Acyclic M)
    (hsp : Spanning E M) (hcp : CycleProperty M R) :
    ∀ F', SpanningForest E F' → weight M ≤ weight F' := by
  intro F' hF'
  obtain ⟨V, hV, hends⟩ := exists_nodes E
  obtain ⟨reps, hreps⟩ := repSystem_exists E V
  have hM : SpanningForest E M := ⟨⟨R, hperm⟩, hac, hsp⟩
  have n1 := spanningForest_count hV hends hM hreps
  have n2 := spanningForest_count hV hends hF' hreps
  have hlen : M.length = F'.length := by omega
  rw [weight_eq_sum, weight_eq_sum]
  refine sum_le_of_dominated M.length _ _ (by simp) (by simp [hlen]) ?_
  intro t
  rw [countP_weights, countP_weights]
  exact light_count_le hV hends (fun e he => hends e (hM.sub.mem he)) (fun e he => hF'.sub.mem he) hac
    hF'.acyclic t (light_spans hperm hac hsp hcp t)

/-- the counting core, for a forest `M` that need not be a sub-multiset of `E`: if `M` lives on `V`,
has as many edges as the spanning forests of `E`, and its light part connects the endpoints of every
light edge of `E` (at every threshold), then no spanning forest of `E` weighs less -/
theorem minimal_of_light {E M : List Edge} {V reps : List Nat} (hV : V.Nodup)
    (hends : ∀ e ∈ E, e.src ∈ V ∧ e.tgt ∈ V) (hMV : ∀ e ∈ M, e.src ∈ V ∧ e.tgt ∈ V)
    (hac : Acyclic M) (hreps : IsRepSystem E V reps) (hcnt : M.length + reps.length = V.length)
    (hlight : ∀ t : Int, ∀ e ∈ E, e.w ≤ t → Conn (M.filter fun x => decide (x.w ≤ t)) e.src e.tgt) :
    ∀ F', SpanningForest E F' → weight M ≤ weight F' := by
  intro F' hF'
  have n2 := spanningForest_count hV hends hF' hreps
  have hlen : M.length = F'.length := by omega
  rw [weight_eq_sum, weight_eq_sum]
  refine sum_le_of_dominated M.length _ _ (by simp) (by simp [hlen]) ?_
  intro t
  rw [countP_weights, countP_weights]
  exact light_count_le hV hends hMV (fun e he => hF'.sub.mem he) hac hF'.acyclic t (hlight t)

end PetgraphModel.MST
