import PetgraphModel.Proofs.C16W2Base
import PetgraphModel.Proofs.C16Artic
/-
C16, second wave — articulation points, Part I (a): vocabulary for the invariant of the stack
machine `apStep`/`dfsLoop` of `Model/C16Artic.lean`.

* accessors of the tracker `AP` (`dO`/`lO`/`pO`, numeric `dN`/`lN`), the four state updates the
  machine performs (`stBase`, `stPar`, `stLow`, `stAps`) with their accessor equations;
* `nbr v i`: the neighbour indices of index `i` (what `base i` pushes);
* the *gray path* `G : List (Nat × FS)` (deepest node first) describing the shape of the stack:
  `stackOf G`;
* the closed forms of `apStep` for every kind of step.
-/
namespace PetgraphModel.C16P.W2Ap
open PetgraphModel MGraph C16M

/-! ### accessors -/

def dO (st : AP) (i : Nat) : Option Nat := st.disc.getD i none
def lO (st : AP) (i : Nat) : Option Nat := st.low.getD i none
def pO (st : AP) (i : Nat) : Option Nat := st.parent.getD i none
def dN (st : AP) (i : Nat) : Nat := (dO st i).getD 0
def lN (st : AP) (i : Nat) : Nat := (lO st i).getD 0

theorem getD_set_eq (l : List (Option Nat)) (i j : Nat) (x : Option Nat) (h : i < l.length) :
    (l.set i x).getD j none = if j = i then x else l.getD j none := by
  simp only [List.getD_eq_getElem?_getD, List.getElem?_set]
  by_cases hji : j = i
  · subst hji; simp [h]
  · have : ¬ i = j := fun h' => hji h'.symm
    simp [hji, this]

/-! ### the state updates -/

def stBase (st : AP) (c : Nat) : AP :=
  { st with visited := c :: st.visited, disc := st.disc.set c (some st.time),
            low := st.low.set c (some st.time), time := st.time + 1 }
def stPar (st : AP) (t u : Nat) : AP := { st with parent := st.parent.set t (some u) }
def stLow (st : AP) (u : Nat) (x : Option Nat) : AP := { st with low := st.low.set u x }
def stAps (st : AP) (u : Nat) : AP := { st with aps := insertAp u st.aps }

section accessors
variable (st : AP)

theorem dO_stBase (c j : Nat) (h : c < st.disc.length) :
    dO (stBase st c) j = if j = c then some st.time else dO st j := by
  simp only [dO, stBase]; exact getD_set_eq _ _ _ _ h
theorem lO_stBase (c j : Nat) (h : c < st.low.length) :
    lO (stBase st c) j = if j = c then some st.time else lO st j := by
  simp only [lO, stBase]; exact getD_set_eq _ _ _ _ h
theorem dN_stBase (c j : Nat) (h : c < st.disc.length) :
    dN (stBase st c) j = if j = c then st.time else dN st j := by
  simp only [dN, dO_stBase st c j h]; split <;> rfl
theorem lN_stBase (c j : Nat) (h : c < st.low.length) :
    lN (stBase st c) j = if j = c then st.time else lN st j := by
  simp only [lN, lO_stBase st c j h]; split <;> rfl
@[simp] theorem pO_stBase (c j : Nat) : pO (stBase st c) j = pO st j := rfl
@[simp] theorem vis_stBase (c : Nat) : (stBase st c).visited = c :: st.visited := rfl
@[simp] theorem time_stBase (c : Nat) : (stBase st c).time = st.time + 1 := rfl
@[simp] theorem aps_stBase (c : Nat) : (stBase st c).aps = st.aps := rfl

theorem pO_stPar (t u j : Nat) (h : t < st.parent.length) :
    pO (stPar st t u) j = if j = t then some u else pO st j := by
  simp only [pO, stPar]; exact getD_set_eq _ _ _ _ h
@[simp] theorem dO_stPar (t u j : Nat) : dO (stPar st t u) j = dO st j := rfl
@[simp] theorem lO_stPar (t u j : Nat) : lO (stPar st t u) j = lO st j := rfl
@[simp] theorem dN_stPar (t u j : Nat) : dN (stPar st t u) j = dN st j := rfl
@[simp] theorem lN_stPar (t u j : Nat) : lN (stPar st t u) j = lN st j := rfl
@[simp] theorem vis_stPar (t u : Nat) : (stPar st t u).visited = st.visited := rfl
@[simp] theorem time_stPar (t u : Nat) : (stPar st t u).time = st.time := rfl
@[simp] theorem aps_stPar (t u : Nat) : (stPar st t u).aps = st.aps := rfl

theorem lO_stLow (u j : Nat) (x : Option Nat) (h : u < st.low.length) :
    lO (stLow st u x) j = if j = u then x else lO st j := by
  simp only [lO, stLow]; exact getD_set_eq _ _ _ _ h
theorem lN_stLow (u j : Nat) (x : Option Nat) (h : u < st.low.length) :
    lN (stLow st u x) j = if j = u then x.getD 0 else lN st j := by
  simp only [lN, lO_stLow st u j x h]; split <;> rfl
@[simp] theorem dO_stLow (u j : Nat) (x : Option Nat) : dO (stLow st u x) j = dO st j := rfl
@[simp] theorem pO_stLow (u j : Nat) (x : Option Nat) : pO (stLow st u x) j = pO st j := rfl
@[simp] theorem dN_stLow (u j : Nat) (x : Option Nat) : dN (stLow st u x) j = dN st j := rfl
@[simp] theorem vis_stLow (u : Nat) (x : Option Nat) : (stLow st u x).visited = st.visited := rfl
@[simp] theorem time_stLow (u : Nat) (x : Option Nat) : (stLow st u x).time = st.time := rfl
@[simp] theorem aps_stLow (u : Nat) (x : Option Nat) : (stLow st u x).aps = st.aps := rfl

@[simp] theorem dO_stAps (u j : Nat) : dO (stAps st u) j = dO st j := rfl
@[simp] theorem lO_stAps (u j : Nat) : lO (stAps st u) j = lO st j := rfl
@[simp] theorem pO_stAps (u j : Nat) : pO (stAps st u) j = pO st j := rfl
@[simp] theorem dN_stAps (u j : Nat) : dN (stAps st u) j = dN st j := rfl
@[simp] theorem lN_stAps (u j : Nat) : lN (stAps st u) j = lN st j := rfl
@[simp] theorem vis_stAps (u : Nat) : (stAps st u).visited = st.visited := rfl
@[simp] theorem time_stAps (u : Nat) : (stAps st u).time = st.time := rfl
theorem aps_stAps (u : Nat) : (stAps st u).aps = insertAp u st.aps := rfl

end accessors

/-! ### neighbour indices -/

/-- the neighbour indices of index `i`, in the order of the view -/
def nbr (v : View) (i : Nat) : List Nat :=
  match fromIndex v i with
  | .ok a => (v.succ a).map v.toIndex
  | .error _ => []

theorem lookup_of_mem_nodup {β : Type} : ∀ (m : List (Nat × β)) (k : Nat) (j : β),
    (m.map (·.1)).Nodup → (k, j) ∈ m → m.lookup k = some j := by
  intro m
  induction m with
  | nil => intro k j _ h; cases h
  | cons x xs ih =>
    intro k j hn h
    obtain ⟨k', j'⟩ := x
    simp only [List.map_cons, List.nodup_cons] at hn
    cases List.mem_cons.mp h with
    | inl h' => cases h'; simp [List.lookup]
    | inr h' =>
      have hne : k ≠ k' := by
        intro he; subst he
        exact hn.1 (List.mem_map.mpr ⟨(k, j), h', rfl⟩)
      have hb : (k == k') = false := by simpa using hne
      simp [List.lookup, hb, ih k j hn.2 h']

/-- `from_index` inverts `to_index` on the nodes -/
theorem fromIndex_toIndex (v : View) (hwf : v.g.WellFormed) (hi : IndexOk v) (a : Nat)
    (ha : a ∈ v.g.nodes) : fromIndex v (v.toIndex a) = .ok a := by
  obtain ⟨b, hb, hbn⟩ := fromIndex_ok v hi (v.toIndex a) ⟨a, ha, rfl⟩
  -- `b` has the same index as `a`
  have hbi : v.toIndex b = v.toIndex a := by
    unfold fromIndex at hb
    split at hb
    · rename_i p hp
      cases hb
      have hmem := List.mem_of_find?_eq_some hp
      have hp2 : p.2 = v.toIndex a := by simpa using List.find?_some hp
      have hl : v.ix.lookup p.1 = some p.2 :=
        lookup_of_mem_nodup v.ix p.1 p.2 (by rw [hi.keys]; exact hwf.1) hmem
      unfold View.toIndex at hp2 ⊢
      rw [hl]; simpa using hp2
    · cases hb
  rw [hb, hi.inj b a hbn ha hbi]

theorem valid_fromIndex (v : View) (hwf : v.g.WellFormed) (hi : IndexOk v) (i : Nat) (h : Valid v i) :
    ∃ a, a ∈ v.g.nodes ∧ v.toIndex a = i ∧ fromIndex v i = .ok a := by
  obtain ⟨a, ha, rfl⟩ := h
  exact ⟨a, ha, rfl, fromIndex_toIndex v hwf hi a ha⟩

theorem nbr_toIndex (v : View) (hwf : v.g.WellFormed) (hi : IndexOk v) (a : Nat) (ha : a ∈ v.g.nodes) :
    nbr v (v.toIndex a) = (v.succ a).map v.toIndex := by
  simp [nbr, fromIndex_toIndex v hwf hi a ha]

theorem nbr_valid (v : View) (hwf : v.g.WellFormed) (hi : IndexOk v) (i w : Nat) (h : Valid v i)
    (hw : w ∈ nbr v i) : Valid v w := by
  obtain ⟨a, ha, rfl⟩ := h
  rw [nbr_toIndex v hwf hi a ha] at hw
  obtain ⟨t, ht, rfl⟩ := List.mem_map.mp hw
  exact ⟨t, hi.succNodes a ha t ht, rfl⟩

/-! ### the gray path and the stack it describes -/

/-- state of the frame of a node on the gray path: `pend` = its `base` step is on the stack,
`run P R` = its neighbours `P` are processed, `R` are still on the stack, `fin` = its `rootCheck`
has been executed (but not yet the `noBack` of its parent) -/
inductive FS where
  | pend
  | run (P R : List Nat)
  | fin
  deriving DecidableEq

def frame (u : Nat) : FS → List RStep
  | .pend => [.base u]
  | .run _ R => R.map (RStep.child u) ++ [.rootCheck u]
  | .fin => []

def link (u : Nat) : List (Nat × FS) → List RStep → List RStep
  | [], _ => []
  | (p, _) :: _, s => RStep.noBack p u :: s

def stackOf : List (Nat × FS) → List RStep
  | [] => []
  | (u, s) :: rest => frame u s ++ link u rest (stackOf rest)

/-- the bottom (root) of the gray path -/
def bot (G : List (Nat × FS)) : Option Nat := G.getLast?.map (·.1)

@[simp] theorem bot_cons_cons (x y : Nat × FS) (G : List (Nat × FS)) : bot (x :: y :: G) = bot (y :: G) := by
  simp [bot, List.getLast?_cons_cons]

@[simp] theorem bot_single (u : Nat) (s : FS) : bot [(u, s)] = some u := rfl

theorem bot_head_state (u : Nat) (s s' : FS) (G : List (Nat × FS)) : bot ((u, s) :: G) = bot ((u, s') :: G) := by
  cases G with
  | nil => rfl
  | cons y G => simp

/-! ### closed forms of `apStep` -/

theorem apStep_base (v : View) (c a : Nat) (stk : List RStep) (cc : List (Nat × Nat)) (st : AP)
    (h1 : c < st.nb) (h2 : c < st.disc.length) (h3 : c < st.low.length) (h4 : fromIndex v c = .ok a) :
    apStep v (.base c) stk cc st =
      .ok (((v.succ a).map fun t => RStep.child c (v.toIndex t)).reverse ++ (.rootCheck c :: stk), cc,
        stBase st c) := by
  simp [apStep, h1, wr, h2, h3, h4, stBase]

theorem apStep_child_new (v : View) (u t : Nat) (stk : List RStep) (cc : List (Nat × Nat)) (st : AP)
    (h1 : t ∉ st.visited) (h2 : t < st.parent.length) :
    apStep v (.child u t) stk cc st = .ok (.base t :: .noBack u t :: stk, bump cc u, stPar st t u) := by
  simp [apStep, h1, wr, h2, stPar]

theorem apStep_child_par (v : View) (u t : Nat) (stk : List RStep) (cc : List (Nat × Nat)) (st : AP)
    (h1 : t ∈ st.visited) (h2 : u < st.parent.length) (h3 : pO st u = some t) :
    apStep v (.child u t) stk cc st = .ok (stk, cc, st) := by
  unfold pO at h3
  have hv : (!st.visited.contains t) = false := by simp [h1]
  simp only [apStep, hv, rd, h2, if_true, h3, bne_self_eq_false, Bool.false_eq_true, if_false]

theorem apStep_child_back (v : View) (u t : Nat) (stk : List RStep) (cc : List (Nat × Nat)) (st : AP)
    (h1 : t ∈ st.visited) (h2 : u < st.parent.length) (h3 : pO st u ≠ some t)
    (h4 : u < st.low.length) (h5 : t < st.disc.length) :
    apStep v (.child u t) stk cc st = .ok (stk, cc, stLow st u (minU (lO st u) (dO st t))) := by
  unfold pO at h3
  have hv : (!st.visited.contains t) = false := by simp [h1]
  have h3' : (some t != st.parent.getD u none) = true := by
    simp only [bne_iff_ne, ne_eq]; exact fun h => h3 h.symm
  simp only [apStep, hv, rd, wr, h2, if_true, h3', h4, h5, Bool.false_eq_true, if_false]
  rfl

theorem apStep_rootCheck (v : View) (u : Nat) (stk : List RStep) (cc : List (Nat × Nat)) (st : AP)
    (h2 : u < st.parent.length) :
    apStep v (.rootCheck u) stk cc st =
      .ok (stk, cc, if (pO st u).isNone ∧ (cc.lookup u).getD 0 > 1 then stAps st u else st) := by
  by_cases h : (pO st u).isNone ∧ (cc.lookup u).getD 0 > 1
  · rw [if_pos h]
    have h' : ((st.parent.getD u none).isNone && decide ((cc.lookup u).getD 0 > 1)) = true := by
      simpa [pO] using h
    simp only [apStep, rd, h2, if_true, h']
    rfl
  · rw [if_neg h]
    have h' : ¬ ((st.parent.getD u none).isNone && decide ((cc.lookup u).getD 0 > 1)) = true := by
      simpa [pO] using h
    simp only [apStep, rd, h2, if_true, h']
    rfl

theorem apStep_noBack (v : View) (p u : Nat) (stk : List RStep) (cc : List (Nat × Nat)) (st : AP)
    (h1 : p < st.low.length) (h2 : u < st.low.length) (h3 : p < st.parent.length)
    (h4 : p < st.disc.length) (hne : u ≠ p) :
    apStep v (.noBack p u) stk cc st =
      .ok (stk, cc,
        if (pO st p).isSome ∧ geU (lO st u) (dO st p) = true
        then stAps (stLow st p (minU (lO st p) (lO st u))) p
        else stLow st p (minU (lO st p) (lO st u))) := by
  have hlen : (st.low.set p (minU (st.low.getD p none) (st.low.getD u none))).length = st.low.length := by simp
  have hget : (st.low.set p (minU (st.low.getD p none) (st.low.getD u none))).getD u none = st.low.getD u none := by
    rw [getD_set_eq _ _ _ _ h1]; simp [hne]
  by_cases h : (pO st p).isSome ∧ geU (lO st u) (dO st p) = true
  · rw [if_pos h]
    have h' : ((st.parent.getD p none).isSome && geU (st.low.getD u none) (st.disc.getD p none)) = true := by
      simpa [pO, lO, dO] using h
    simp only [apStep, rd, wr, h1, h2, h3, h4, if_true, hlen, hget, h']
    rfl
  · rw [if_neg h]
    have h' : ¬ ((st.parent.getD p none).isSome && geU (st.low.getD u none) (st.disc.getD p none)) = true := by
      simpa [pO, lO, dO] using h
    simp only [apStep, rd, wr, h1, h2, h3, h4, if_true, hlen, hget, h']
    rfl

end PetgraphModel.C16P.W2Ap
