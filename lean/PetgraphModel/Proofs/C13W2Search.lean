import PetgraphModel.Proofs.C13W2Prune
/-
C13, wave 2 — completeness of the frame-stack search.

The machine state is always `SG (trail of the Unwind frames)`; `Pending mp stack` says that the valid
complete mapping `mp` lies in the part of the search tree the stack still has to visit.  One loop iteration
keeps "pending or recorded in `result`" invariant, and never has both.
-/
namespace PetgraphModel.C13.Vf2
open PetgraphModel

def Frame.pair : Frame → Option (Nat × Nat)
  | .unwind a b _ => some (a, b)
  | _ => none

/-- the mapped pairs, newest first -/
def trailOf (st : List Frame) : List (Nat × Nat) := st.filterMap Frame.pair

@[simp] theorem trailOf_nil : trailOf [] = [] := rfl
@[simp] theorem trailOf_outer (st : List Frame) : trailOf (.outer :: st) = trailOf st := rfl
@[simp] theorem trailOf_inner (a b : Nat) (ol : OpenList) (st : List Frame) :
    trailOf (.inner a b ol :: st) = trailOf st := rfl
@[simp] theorem trailOf_unwind (a b : Nat) (ol : OpenList) (st : List Frame) :
    trailOf (.unwind a b ol :: st) = (a, b) :: trailOf st := rfl

theorem mem_trailOf {st : List Frame} {p : Nat × Nat} (h : p ∈ trailOf st) :
    ∃ ol, Frame.unwind p.1 p.2 ol ∈ st := by
  simp only [trailOf, List.mem_filterMap] at h
  obtain ⟨fr, hfr, hk⟩ := h
  cases fr <;> simp [Frame.pair] at hk
  subst hk
  exact ⟨_, hfr⟩

def UnwOnly (st : List Frame) : Prop := ∀ fr ∈ st, ∃ a b ol, fr = Frame.unwind a b ol

theorem UnwOnly.tail {st : List Frame} (h : UnwOnly st) : UnwOnly st.tail :=
  fun fr hfr => h fr (List.mem_of_mem_tail hfr)

theorem UnwOnly.cons {st : List Frame} (h : UnwOnly st) (a b : Nat) (ol : OpenList) :
    UnwOnly (.unwind a b ol :: st) := by
  intro fr hfr
  rcases List.mem_cons.mp hfr with rfl | hfr
  · exact ⟨_, _, _, rfl⟩
  · exact h fr hfr

/-- what the frames remember about the state below them -/
def FrOk (I : Inst) : List Frame → Prop
  | [] => True
  | .outer :: rest => FrOk I rest
  | .inner a _ ol :: rest => inList I.g0 (SG I.g0 (trailOf rest)) ol a = true ∧ FrOk I rest
  | .unwind a b ol :: rest =>
    inList I.g0 (SG I.g0 (trailOf rest)) ol a = true ∧
    (SG I.g1 ((trailOf rest).map Prod.swap)).map b = none ∧ a < I.g0.n ∧ b < I.g1.n ∧ FrOk I rest

/-- the states are the pushes of the trail; below the top frame there are only `Unwind` frames -/
structure TInv (I : Inst) (m : M) : Prop where
  s0 : m.s0 = SG I.g0 (trailOf m.stack)
  s1 : m.s1 = SG I.g1 ((trailOf m.stack).map Prod.swap)
  tail : UnwOnly m.stack.tail
  fr : FrOk I m.stack

/-- `mp` is still to be found by the frames of the stack -/
def Pending (I : Inst) (mp : List (Option Nat)) : List Frame → Prop
  | [] => False
  | .outer :: rest => (ExtT mp (trailOf rest) ∧ (trailOf rest).length < I.g0.n) ∨ Pending I mp rest
  | .inner a b _ :: rest => (ExtT mp (trailOf rest) ∧ b ≤ fval mp a) ∨ Pending I mp rest
  | .unwind a b _ :: rest => (ExtT mp (trailOf rest) ∧ b < fval mp a) ∨ Pending I mp rest

/-- a recorded result is carried only over `Unwind` frames and the `Outer` frame of the complete state -/
def ResOk (m : M) (result : Result) : Prop :=
  result.isSome = true →
    (∀ a b ol st, m.stack ≠ Frame.inner a b ol :: st) ∧ (∀ st, m.stack = Frame.outer :: st → m.s0.isComplete = true)

theorem ResOk.of_unwOnly {m : M} {result : Result} (h : UnwOnly m.stack) : ResOk m result := by
  intro _
  constructor
  · intro a b ol st hs
    obtain ⟨_, _, _, he⟩ := h (Frame.inner a b ol) (by rw [hs]; exact List.mem_cons_self)
    cases he
  · intro st hs
    obtain ⟨_, _, _, he⟩ := h Frame.outer (by rw [hs]; exact List.mem_cons_self)
    cases he

theorem ExtT.cons_iff {I : Inst} {mp : List (Option Nat)} (f : Final I mp) {a b : Nat} (ha : a < I.g0.n)
    (tr : List (Nat × Nat)) : ExtT mp ((a, b) :: tr) ↔ fval mp a = b ∧ ExtT mp tr := by
  unfold ExtT
  simp only [List.mem_cons, forall_eq_or_imp]
  constructor
  · rintro ⟨h1, h2⟩; exact ⟨fval_of h1, h2⟩
  · rintro ⟨h1, h2⟩; exact ⟨by rw [← h1]; exact (f.get ha).1, h2⟩

/-- a mapping containing the whole trail is not pending below -/
theorem ext_not_pending {I : Inst} {mp : List (Option Nat)} :
    ∀ {st : List Frame}, UnwOnly st → ExtT mp (trailOf st) → ¬ Pending I mp st := by
  intro st
  induction st with
  | nil => intro _ _ h; exact h
  | cons fr rest ih =>
    intro hu he hp
    obtain ⟨a, b, ol, rfl⟩ := hu _ List.mem_cons_self
    have hu' : UnwOnly rest := fun fr hfr => hu fr (List.mem_cons_of_mem _ hfr)
    rw [trailOf_unwind] at he
    have he' : ExtT mp (trailOf rest) := fun p hp => he p (List.mem_cons_of_mem _ hp)
    simp only [Pending] at hp
    rcases hp with ⟨_, hlt⟩ | hp
    · have := fval_of (he (a, b) List.mem_cons_self)
      simp only at this
      omega
    · exact ih hu' he' hp

theorem mkExt {I : Inst} {mp : List (Option Nat)} {m : M} {tr : List (Nat × Nat)} (f : Final I mp)
    (core : Core I m.s0 m.s1) (h0 : m.s0 = SG I.g0 tr) (et : ExtT mp tr) : Ext I mp m :=
  ⟨f, core, fun i j h => et (i, j) (SG_map_mem I.g0 tr i j (h0 ▸ h))⟩

theorem inList_lt {g : CG} {s : St} (h : StOk g s) {ol : OpenList} {v : Nat} (hv : inList g s ol v = true) :
    v < g.n := by
  cases ol <;> simp only [inList, Bool.and_eq_true, decide_eq_true_eq] at hv
  · rw [← h.lenO]; exact stamp_pos_lt hv.1
  · rw [← h.lenI hv.1]; exact stamp_pos_lt hv.2.1
  · rw [← h.lenM]; exact hv.1

/-! ### counting mapped nodes -/

theorem Core.gen_lt {I : Inst} {s0 s1 : St} (c : Core I s0 s1) {a : Nat} (ha : s0.map a = none)
    (ha' : a < I.g0.n) : s0.gen < I.g0.n := by
  have la : a < s0.mapping.length := by rw [c.len0]; exact ha'
  have hle : s0.mapping.countP Option.isSome ≤ s0.mapping.length := List.countP_le_length
  have hne : s0.mapping.countP Option.isSome ≠ s0.mapping.length := by
    intro heq
    have := List.countP_eq_length.mp heq _ (List.getElem_mem la)
    rw [getElem_of_map_none ha la] at this
    cases this
  rw [c.gen, ← c.len0]
  omega

theorem Core.exists_unmapped {I : Inst} {s0 s1 : St} (c : Core I s0 s1) (h : s0.gen < I.g0.n) :
    ∃ a, a < I.g0.n ∧ s0.map a = none := by
  by_contra hn
  have hall : ∀ x ∈ s0.mapping, Option.isSome x = true := by
    intro x hx
    obtain ⟨i, hi, rfl⟩ := List.mem_iff_getElem.mp hx
    cases hxi : s0.mapping[i] with
    | some j => rfl
    | none =>
      exfalso
      apply hn
      refine ⟨i, by rw [← c.len0]; exact hi, ?_⟩
      unfold St.map
      rw [List.getElem?_eq_getElem hi, hxi]; rfl
  have := List.countP_eq_length.mpr hall
  rw [← c.gen, c.len0] at this
  omega

theorem Core.gen_le {I : Inst} {s0 s1 : St} (c : Core I s0 s1) : s0.gen ≤ I.g0.n := by
  rw [c.gen, ← c.len0]; exact List.countP_le_length

theorem incomplete_of_gen_lt {I : Inst} {s0 s1 : St} (c : Core I s0 s1) (h : s0.gen < I.g0.n) :
    s0.isComplete = false := by
  unfold St.isComplete
  rw [c.len0]
  simp only [beq_eq_false_iff_ne, ne_eq]
  omega

/-- the complete state's vector is the one valid complete mapping containing the trail -/
theorem complete_eq {I : Inst} {mp : List (Option Nat)} {s0 s1 : St} {tr : List (Nat × Nat)}
    (f : Final I mp) (c : Core I s0 s1) (h0 : s0 = SG I.g0 tr) (hc : s0.isComplete = true)
    (hmem : ∀ p ∈ tr, s0.map p.1 = some p.2) : s0.mapping = mp ↔ ExtT mp tr := by
  constructor
  · intro he p hp
    have := hmem p hp
    unfold St.map at this
    rw [he] at this
    cases hx : mp[p.1]? with
    | none => rw [hx] at this; cases this
    | some y => rw [hx] at this; simp only [Option.getD_some] at this; rw [this]
  · intro et
    have fin0 := c.final hc
    apply List.ext_getElem?
    intro i
    by_cases hi : i < I.g0.n
    · obtain ⟨j, hj, _⟩ := fin0.total i hi
      have := SG_map_mem I.g0 tr i j (h0 ▸ map_of_getElem? hj)
      rw [hj, et (i, j) this]
    · rw [List.getElem?_eq_none (by rw [c.len0]; omega), List.getElem?_eq_none (by rw [f.len]; omega)]

/-! ### `next_from_ix` -/

theorem advance_pending {I : Inst} (ok0 : CGOk I.g0) (ok1 : CGOk I.g1) (hd : I.g0.directed = I.g1.directed)
    {m : M} (core : Core I m.s0 m.s1)
    (h0 : m.s0 = SG I.g0 (trailOf m.stack)) (h1 : m.s1 = SG I.g1 ((trailOf m.stack).map Prod.swap))
    (hu : UnwOnly m.stack) (hfr : FrOk I m.stack)
    {a b : Nat} {ol : OpenList} {result : Result} {m2 : M} {r2 : Result} {chk : Bool}
    (hin : inList I.g0 m.s0 ol a = true)
    (h : advance I m a b ol result = (m2, r2, chk)) :
    TInv I m2 ∧ r2 = result ∧ (chk = false → UnwOnly m2.stack) ∧
    (chk = true → ∃ a b ol st, m2.stack = Frame.inner a b ol :: st) ∧
    ∀ mp, Final I mp →
      (Pending I mp m2.stack ↔ (ExtT mp (trailOf m.stack) ∧ b < fval mp a) ∨ Pending I mp m.stack) := by
  have ha' : a < I.g0.n := inList_lt (h0 ▸ SG_ok ok0 _) hin
  have tr : ∀ mp, Final I mp → ExtT mp (trailOf m.stack) → inList I.g1 m.s1 ol (fval mp a) = true :=
    fun mp f et => et.inList_transfer ok0 ok1 hd h0 h1 (mkExt f core h0 et) ha' hin
  unfold advance at h
  rw [nextFromIx_eq] at h
  split at h
  · rename_i hnone
    cases h
    refine ⟨⟨h0, h1, hu.tail, hfr⟩, rfl, fun _ => hu, fun hc => (by cases hc), ?_⟩
    intro mp f
    constructor
    · exact Or.inr
    · rintro (⟨et, hlt⟩ | hp)
      · have := nextOf_none hnone (fval mp a) hlt
        rw [tr mp f et] at this; cases this
      · exact hp
  · rename_i b' hsome
    cases h
    obtain ⟨hge, _, hleast⟩ := nextOf_some hsome
    refine ⟨⟨h0, h1, hu, ⟨h0 ▸ hin, hfr⟩⟩, rfl, fun hc => (by cases hc), fun _ => ⟨_, _, _, _, rfl⟩, ?_⟩
    intro mp f
    show Pending I mp (Frame.inner a b' ol :: m.stack) ↔ _
    simp only [Pending]
    constructor
    · rintro (⟨et, hle⟩ | hp)
      · exact Or.inl ⟨et, by omega⟩
      · exact Or.inr hp
    · rintro (⟨et, hlt⟩ | hp)
      · refine Or.inl ⟨et, ?_⟩
        by_contra hn
        have := hleast (fval mp a) hlt (by omega)
        rw [tr mp f et] at this; cases this
      · exact Or.inr hp

/-! ### one loop iteration -/

theorem same_result {I : Inst} {mp : List (Option Nat)} {st st2 : List Frame} {result : Result}
    (h : Pending I mp st2 ↔ Pending I mp st) :
    ((Pending I mp st2 ∨ result = some mp) ↔ (Pending I mp st ∨ result = some mp)) ∧
    (¬ (Pending I mp st ∧ result = some mp) → ¬ (Pending I mp st2 ∧ result = some mp)) := by
  rw [h]; exact ⟨Iff.rfl, id⟩

theorem complete_iff {I : Inst} {s0 s1 : St} (c : Core I s0 s1) : s0.isComplete = true ↔ s0.gen = I.g0.n := by
  unfold St.isComplete
  rw [c.len0]
  simp

theorem popState_pushState {I : Inst} (ok0 : CGOk I.g0) (ok1 : CGOk I.g1) {m : M} (h0 : StOk I.g0 m.s0)
    (h1 : StOk I.g1 m.s1) {a b : Nat} (ha : m.s0.map a = none) (hb : m.s1.map b = none)
    (ha' : a < I.g0.n) (hb' : b < I.g1.n) : popState I (pushState I m a b) a b = m := by
  cases m
  simp only [popState, pushState, M.mk.injEq]
  exact ⟨pop_push ok0 h0 b ha ha', pop_push ok1 h1 a hb hb', trivial⟩

theorem frameStep_pending {I : Inst} (ok0 : CGOk I.g0) (ok1 : CGOk I.g1) (hd : I.g0.directed = I.g1.directed)
    (hin : I.g0.directed = true → ∀ i, (I.g0.inNb i).Nodup) {sub : Bool}
    (hsizes : ∀ tr mp, Final I mp → ExtT mp tr → sizesOkS sub (SG I.g0 tr) (SG I.g1 (tr.map Prod.swap)) = true)
    {m : M} {fr : Frame} {rest : List Frame} {result : Result}
    (hinv : Inv I m) (ht : TInv I m) (hs : m.stack = fr :: rest) (hres : ResOk m result)
    {m2 : M} {r2 : Result} {chk : Bool}
    (h : frameStep I sub { m with stack := rest } fr result = (m2, r2, chk)) :
    TInv I m2 ∧ (chk = false → ResOk m2 r2) ∧
    (chk = true → ∃ a b ol st, m2.stack = Frame.inner a b ol :: st) ∧
    ∀ mp, Final I mp →
      ((Pending I mp m2.stack ∨ r2 = some mp) ↔ (Pending I mp m.stack ∨ result = some mp)) ∧
      (¬ (Pending I mp m.stack ∧ result = some mp) → ¬ (Pending I mp m2.stack ∧ r2 = some mp)) := by
  have h0 : Inv0 I { m with stack := rest } := hinv.popFrame hs
  have c : Core I m.s0 m.s1 := h0.core
  have hu : UnwOnly rest := by have := ht.tail; rw [hs] at this; exact this
  have hfr := ht.fr
  have hs0 := ht.s0
  have hs1 := ht.s1
  rw [hs] at hfr hs0 hs1
  have st0 : StOk I.g0 m.s0 := by rw [hs0]; exact SG_ok ok0 _
  have st1 : StOk I.g1 m.s1 := by rw [hs1]; exact SG_ok ok1 _
  cases fr with
  | unwind a b ol =>
    simp only [FrOk] at hfr
    obtain ⟨hia, hb1, ha', hb', hfr'⟩ := hfr
    simp only [trailOf_unwind, List.map_cons, Prod.swap_prod_mk, SG] at hs0 hs1
    have hab : m.s0.map a = some b := hinv.unw a b ol (by rw [hs]; simp)
    have hk : a ∉ unwKeys rest := by
      have := hinv.distinct
      rw [hs] at this
      have e : unwKeys (Frame.unwind a b ol :: rest) = a :: unwKeys rest := by
        unfold unwKeys; rw [List.filterMap_cons]; rfl
      rw [e] at this
      exact (List.nodup_cons.mp this).1
    obtain ⟨p0, _, _⟩ := h0.popState (a := a) (b := b) hab hk
    have e0 : (popState I { m with stack := rest } a b).s0 = SG I.g0 (trailOf rest) := by
      show popMapping I.g0 m.s0 a = _
      rw [hs0]; exact pop_push ok0 (SG_ok ok0 _) b (inList_unmapped hia) ha'
    have e1 : (popState I { m with stack := rest } a b).s1 = SG I.g1 ((trailOf rest).map Prod.swap) := by
      show popMapping I.g1 m.s1 b = _
      rw [hs1]; exact pop_push ok1 (SG_ok ok1 _) a hb1 hb'
    simp only [frameStep] at h
    obtain ⟨t2, hr, hu2, hc2, hp⟩ := advance_pending ok0 ok1 hd p0.core e0 e1 hu hfr' (by rw [e0]; exact hia) h
    subst hr
    refine ⟨t2, fun hc => ResOk.of_unwOnly (hu2 hc), hc2, ?_⟩
    intro mp f
    apply same_result
    rw [hp mp f, hs]
    simp only [Pending]
    exact Iff.rfl
  | outer =>
    rw [trailOf_outer] at hs0 hs1
    simp only [FrOk] at hfr
    simp only [frameStep] at h
    split at h
    · rename_i hnone
      cases h
      refine ⟨⟨hs0, hs1, hu.tail, hfr⟩, fun _ => ResOk.of_unwOnly hu, fun hc => (by cases hc), ?_⟩
      intro mp f
      apply same_result
      rw [hs]
      show Pending I mp rest ↔ _
      simp only [Pending]
      constructor
      · exact Or.inr
      · rintro (⟨et, hlt⟩ | hp)
        · exfalso
          have e : Ext I mp m := mkExt f c hs0 et
          have hg : m.s0.gen < I.g0.n := by rw [hs0, SG_gen]; exact hlt
          obtain ⟨x, hx, hxm⟩ := c.exists_unmapped hg
          have hy := f.get hx
          have hym := e.image_unmapped hxm hy.1
          rcases nextCandidate_none hnone with h' | h'
          · have := nextOf_none (g := I.g0) (ol := .other) h' x (Nat.zero_le _)
            simp [inList, hxm, c.len0, hx] at this
          · have := nextOf_none (g := I.g1) (ol := .other) h' (fval mp x) (Nat.zero_le _)
            simp [inList, hym, c.len1, hy.2] at this
        · exact hp
    · rename_i a b ol hsome
      cases h
      obtain ⟨n0, n1⟩ := nextCandidate_some hsome
      obtain ⟨_, hia, _⟩ := nextOf_some n0
      obtain ⟨_, _, hleast⟩ := nextOf_some n1
      have hia : inList I.g0 m.s0 ol a = true := hia
      have ha' : a < I.g0.n := inList_lt st0 hia
      refine ⟨⟨hs0, hs1, hu, ⟨by rw [← hs0]; exact hia, hfr⟩⟩, fun hc => (by cases hc),
        fun _ => ⟨_, _, _, _, rfl⟩, ?_⟩
      intro mp f
      apply same_result
      rw [hs]
      show Pending I mp (Frame.inner a b ol :: rest) ↔ _
      simp only [Pending]
      have hglt : (trailOf rest).length < I.g0.n := by
        have := c.gen_lt (inList_unmapped hia) ha'
        rw [hs0, SG_gen] at this; exact this
      constructor
      · rintro (⟨et, _⟩ | hp)
        · exact Or.inl ⟨et, hglt⟩
        · exact Or.inr hp
      · rintro (⟨et, _⟩ | hp)
        · refine Or.inl ⟨et, ?_⟩
          by_contra hn
          have e : Ext I mp m := mkExt f c hs0 et
          have h1 := et.inList_transfer ok0 ok1 hd hs0 hs1 e ha' hia
          have h2 := hleast (fval mp a) (Nat.zero_le _) (by omega)
          have h2 : inList I.g1 m.s1 ol (fval mp a) = false := h2
          rw [h1] at h2; cases h2
        · exact Or.inr hp
  | inner a b ol =>
    rw [trailOf_inner] at hs0 hs1
    simp only [FrOk] at hfr
    obtain ⟨hia, hfr'⟩ := hfr
    obtain ⟨ha, hb, ha', hb'⟩ := hinv.innerHead a b ol rest hs
    have hrn : result = none := by
      cases result with
      | none => rfl
      | some x => exact absurd hs ((hres rfl).1 a b ol rest)
    subst hrn
    have hia' : inList I.g0 m.s0 ol a = true := by rw [hs0]; exact hia
    have common : (∀ mp, Final I mp → ExtT mp (trailOf rest) → fval mp a ≠ b) →
        advance I { m with stack := rest } a b ol none = (m2, r2, chk) →
        TInv I m2 ∧ (chk = false → ResOk m2 r2) ∧
        (chk = true → ∃ a b ol st, m2.stack = Frame.inner a b ol :: st) ∧
        ∀ mp, Final I mp →
          ((Pending I mp m2.stack ∨ r2 = some mp) ↔ (Pending I mp m.stack ∨ none = some mp)) ∧
          (¬ (Pending I mp m.stack ∧ none = some mp) → ¬ (Pending I mp m2.stack ∧ r2 = some mp)) := by
      intro hne hadv
      obtain ⟨t2, hr, hu2, hc2, hp⟩ :=
        advance_pending (m := { m with stack := rest }) ok0 ok1 hd c hs0 hs1 hu hfr' hia' hadv
      subst hr
      refine ⟨t2, fun hc => ResOk.of_unwOnly (hu2 hc), hc2, ?_⟩
      intro mp f
      apply same_result
      rw [hp mp f, hs]
      show _ ↔ Pending I mp (Frame.inner a b ol :: rest)
      simp only [Pending]
      constructor
      · rintro (⟨et, hlt⟩ | hp)
        · exact Or.inl ⟨et, Nat.le_of_lt hlt⟩
        · exact Or.inr hp
      · rintro (⟨et, hle⟩ | hp)
        · exact Or.inl ⟨et, by have := hne mp f et; omega⟩
        · exact Or.inr hp
    simp only [frameStep] at h
    split at h
    · rename_i hf
      obtain ⟨q1, q2, q3, q4⟩ := h0.pushState ok0 ok1 hd ol (a := a) (b := b) ha hb ha' hb' hf
      have e0 : (pushState I { m with stack := rest } a b).s0 = SG I.g0 ((a, b) :: trailOf rest) := by
        show pushMapping I.g0 m.s0 a b = _
        rw [hs0]; rfl
      have e1 : (pushState I { m with stack := rest } a b).s1 =
          SG I.g1 (((a, b) :: trailOf rest).map Prod.swap) := by
        show pushMapping I.g1 m.s1 b a = _
        rw [hs1]; rfl
      have hmem : ∀ p ∈ (a, b) :: trailOf rest,
          (pushState I { m with stack := rest } a b).s0.map p.1 = some p.2 := by
        intro p hp
        have : p ∈ trailOf (Frame.outer :: Frame.unwind a b ol :: rest) := by simpa using hp
        obtain ⟨ol', hm⟩ := mem_trailOf this
        exact q1.unw p.1 p.2 ol' hm
      have hsz : ∀ mp, Final I mp → ExtT mp ((a, b) :: trailOf rest) →
          sizesOk sub (pushState I { m with stack := rest } a b) = true := by
        intro mp f et
        have := hsizes _ mp f et
        rw [sizesOk_eq, e0, e1]
        exact this
      split at h
      · rename_i hsz'
        cases h
        refine ⟨⟨e0, e1, hu.cons a b ol, ?_⟩, ?_, fun hc => (by cases hc), ?_⟩
        · show FrOk I (Frame.outer :: Frame.unwind a b ol :: rest)
          simp only [FrOk]
          exact ⟨hia, by rw [← hs1]; exact hb, ha', hb', hfr'⟩
        · intro _ hsome
          constructor
          · intro a' b' ol' st hst; cases hst
          · intro st _
            by_cases hc : (pushState I { m with stack := rest } a b).s0.isComplete = true
            · exact hc
            · simp [hc] at hsome
        · intro mp f
          rw [hs]
          show (Pending I mp (Frame.outer :: Frame.unwind a b ol :: rest) ∨ _ = some mp ↔
            Pending I mp (Frame.inner a b ol :: rest) ∨ none = some mp) ∧ (_ → ¬ (Pending I mp (Frame.outer :: Frame.unwind a b ol :: rest) ∧ _ = some mp))
          simp only [Pending, trailOf_unwind, List.length_cons]
          have k1 := ExtT.cons_iff f ha' (b := b) (trailOf rest)
          have hnp : ExtT mp (trailOf rest) → ¬ Pending I mp rest := fun et => ext_not_pending hu et
          have hgen : (pushState I { m with stack := rest } a b).s0.gen = (trailOf rest).length + 1 := by
            rw [e0, SG_gen]; rfl
          by_cases hc : (pushState I { m with stack := rest } a b).s0.isComplete = true
          · have k2 := complete_eq f q4.core e0 hc hmem
            have hlen := (complete_iff q4.core).mp hc
            rw [hgen] at hlen
            have hE : (some (pushState I { m with stack := rest } a b).s0.mapping = some mp) ↔
                (fval mp a = b ∧ ExtT mp (trailOf rest)) := by
              rw [Option.some.injEq, k2, k1]
            simp only [hc, if_true, hE, k1, reduceCtorEq, or_false]
            constructor
            · constructor
              · rintro ((⟨_, hlt⟩ | ⟨et, hlt⟩ | hp) | ⟨he, et⟩)
                · omega
                · exact Or.inl ⟨et, Nat.le_of_lt hlt⟩
                · exact Or.inr hp
                · exact Or.inl ⟨et, by omega⟩
              · rintro (⟨et, hle⟩ | hp)
                · by_cases hx : fval mp a = b
                  · exact Or.inr ⟨hx, et⟩
                  · exact Or.inl (Or.inr (Or.inl ⟨et, by omega⟩))
                · exact Or.inl (Or.inr (Or.inr hp))
            · intro _
              rintro ⟨(⟨_, hlt⟩ | ⟨et, hlt⟩ | hp), ⟨he, et'⟩⟩
              · omega
              · omega
              · exact hnp et' hp
          · have hlen : (trailOf rest).length + 1 < I.g0.n := by
              have h1 := q4.core.gen_le
              have h2 : ¬ ((pushState I { m with stack := rest } a b).s0.gen = I.g0.n) :=
                fun h => hc ((complete_iff q4.core).mpr h)
              rw [hgen] at h1 h2
              omega
            simp only [hc, Bool.false_eq_true, if_false, reduceCtorEq, or_false, and_false, not_false_eq_true,
              k1, imp_self, and_true]
            constructor
            · rintro (⟨⟨he, et⟩, _⟩ | ⟨et, hlt⟩ | hp)
              · exact Or.inl ⟨et, by omega⟩
              · exact Or.inl ⟨et, Nat.le_of_lt hlt⟩
              · exact Or.inr hp
            · rintro (⟨et, hle⟩ | hp)
              · by_cases hx : fval mp a = b
                · exact Or.inl ⟨⟨hx, et⟩, hlen⟩
                · exact Or.inr (Or.inl ⟨et, by omega⟩)
              · exact Or.inr (Or.inr hp)
      · rename_i hsz'
        have hnc : (pushState I { m with stack := rest } a b).s0.isComplete = false := by
          cases hc : (pushState I { m with stack := rest } a b).s0.isComplete with
          | false => rfl
          | true =>
            exfalso
            have fin0 := q4.core.final hc
            have := (complete_eq fin0 q4.core e0 hc hmem).mp rfl
            exact hsz' (hsz _ fin0 this)
        simp only [hnc, Bool.false_eq_true, if_false] at h
        rw [popState_pushState (m := { m with stack := rest }) ok0 ok1 st0 st1 ha hb ha' hb'] at h
        apply common _ h
        intro mp f et hx
        exact hsz' (hsz mp f ((ExtT.cons_iff f ha' _).mpr ⟨hx, et⟩))
    · rename_i hf
      apply common _ h
      intro mp f et hx
      have e : Ext I mp { m with stack := rest } := mkExt f c hs0 et
      have hab : mp[a]? = some (some b) := by rw [← hx]; exact (f.get ha').1
      exact hf (e.feasible ok0 ok1 hd hin hab)

end PetgraphModel.C13.Vf2
