import PetgraphModel.Proofs.C15W5Cert
import PetgraphModel.Proofs.C15W5Berge
import PetgraphModel.Proofs.C15W2Main
/-
C15 wave 5 — `maximum_matching` (the Gabow mirror model) returns a MAXIMUM matching: every search
either augments (no `mate` entry is cleared, the start vertex gets matched) or certifies that its
start vertex cannot be matched in addition to the vertices matched so far; this certificate survives
later augmentations (the covered set only grows); at the end every free vertex carries a certificate,
and Berge's theorem (`max_of_noExt`) makes the matching maximum.
-/
namespace PetgraphModel.C15W5
open PetgraphModel PetgraphModel.C15 PetgraphModel.C15M PetgraphModel.C15P PetgraphModel.C15W2

/-- the nodes matched by a `mate` array -/
def covOf (v : View) (mate : List (Option Nat)) (a : Nat) : Prop :=
  a ∈ v.g.nodes ∧ (getM mate (v.toIndex a)).isSome = true

/-- no matching covers `u` together with all nodes of `cov` -/
def NoExtC (g : MGraph) (cov : Nat → Prop) (u : Nat) : Prop :=
  ¬ ∃ N, IsMatching g N ∧ (∀ a, cov a → Covered N a) ∧ Covered N u

theorem NoExtC.mono {g : MGraph} {cov cov' : Nat → Prop} {u : Nat} (h : NoExtC g cov u)
    (hc : ∀ a, cov a → cov' a) : NoExtC g cov' u := by
  rintro ⟨N, hN, h1, h2⟩
  exact h ⟨N, hN, fun a ha => h1 a (hc a ha), h2⟩

/-- **one search**: no `mate` entry is cleared; if the start index belongs to a node, that node is
matched afterwards, or `mate` is unchanged and the node cannot be matched additionally -/
theorem gabowSearch_complete (v : View) (mode : Nat) (hv : VHyp v mode) (hcomp : VComp v) (s : GS) (n : Nat)
    (hB : BInv v s n) (startIdx : Nat) (hst : startIdx < v.nb) (hfree : getM s.mate startIdx = none) :
    MLe s.mate (gabowSearch v mode startIdx s n).1.mate ∧
    ∀ u ∈ v.g.nodes, v.toIndex u = startIdx →
      (getM (gabowSearch v mode startIdx s n).1.mate startIdx).isSome = true ∨
      ((gabowSearch v mode startIdx s n).1.mate = s.mate ∧ NoExtC v.g (covOf v s.mate) u) := by
  rw [gabowSearch_eq_loop]
  show MLe s.mate (searchLoop v mode startIdx s n).1.mate ∧ ∀ u ∈ v.g.nodes, v.toIndex u = startIdx →
      (getM (searchLoop v mode startIdx s n).1.mate startIdx).isSome = true ∨
      ((searchLoop v mode startIdx s n).1.mate = s.mate ∧ NoExtC v.g (covOf v s.mate) u)
  have hm : MateInv (searchCtx v mode s startIdx).v (searchCtx v mode s startIdx).m0 n := hB.mate
  rcases searchLoop_complete v mode hv hcomp s n hB startIdx hst hfree with hF | hD
  · have hmate : (searchLoop v mode startIdx s n).1.mate = s.mate := by
      obtain ⟨_, _, ⟨P, ord, I⟩, _⟩ := hF
      exact I.mate
    refine ⟨by rw [hmate]; exact MLe.refl _, fun u hu hidx => Or.inr ⟨hmate, ?_⟩⟩
    have hsv : (searchCtx v mode s startIdx).sv = u := by
      show fromIndex v startIdx = u
      rw [← hidx]; exact hv.ix.from_to u hu
    rintro ⟨N, hN, hcov, hcu⟩
    have := failed_noExt (c := searchCtx v mode s startIdx) hv hcomp hm _ hF (by rw [hsv]; exact hu) N hN
      (fun a ha hs => hcov a ⟨ha, hs⟩)
    rw [hsv] at this
    exact this hcu
  · obtain ⟨_, hle, hsvm⟩ := hD
    refine ⟨hle, fun u hu hidx => Or.inl ?_⟩
    have hsv : (searchCtx v mode s startIdx).sv = u := by
      show fromIndex v startIdx = u
      rw [← hidx]; exact hv.ix.from_to u hu
    have := hsvm (by rw [hsv]; exact hu)
    rw [hsv] at this
    have this' : (getM (searchLoop v mode startIdx s n).1.mate (v.toIndex u)).isSome = true := this
    rw [hidx] at this'
    exact this'

/-- the invariant of the loop over the start indices -/
def GInv (v : View) (i : Nat) (st : GS × Nat) : Prop :=
  BInv v st.1 st.2 ∧ ∀ u ∈ v.g.nodes, v.toIndex u < i → getM st.1.mate (v.toIndex u) = none →
    NoExtC v.g (covOf v st.1.mate) u

theorem mainStep_complete (v : View) (mode : Nat) (hv : VHyp v mode) (hcomp : VComp v) (start : Nat)
    (hst : start < v.nb) (st : GS × Nat) (hG : GInv v start st) :
    stepPost (GInv v (start + 1)) (fun _ => False) (mainStep v mode start st) := by
  obtain ⟨hB, hN⟩ := hG
  unfold mainStep
  rw [if_neg (by rw [hB.fault]; simp)]
  by_cases h : (st.1.getMate start).1.isSome = true
  · rw [if_pos h]
    refine ⟨hB, fun u hu hlt hnone => ?_⟩
    by_cases e : v.toIndex u = start
    · exfalso
      rw [getMate_fst, ← e, hnone] at h; cases h
    · exact hN u hu (by omega) hnone
  · rw [if_neg h]
    have hfree : getM st.1.mate start = none := by
      rw [getMate_fst] at h
      cases hg : getM st.1.mate start with
      | none => rfl
      | some x => rw [hg] at h; simp at h
    obtain ⟨hle, hcs⟩ := gabowSearch_complete v mode hv hcomp st.1 st.2 hB start hst hfree
    refine ⟨(gabowSearch_BInv v mode hv st.1 st.2 hB start hst hfree).1, fun u hu hlt hnone => ?_⟩
    have hmono : ∀ a, covOf v st.1.mate a → covOf v (gabowSearch v mode start st.1 st.2).1.mate a :=
      fun a ha => ⟨ha.1, hle _ ha.2⟩
    by_cases e : v.toIndex u = start
    · rcases hcs u hu e with h1 | ⟨h1, h2⟩
      · exfalso
        rw [e] at hnone
        rw [hnone] at h1; cases h1
      · rw [h1]; exact h2
    · have hnone0 : getM st.1.mate (v.toIndex u) = none := by
        cases hg : getM st.1.mate (v.toIndex u) with
        | none => rfl
        | some x =>
          have := hle (v.toIndex u) (by rw [hg]; rfl)
          rw [hnone] at this; cases this
      exact (hN u hu (by omega) hnone0).mono hmono

/-- the pairs of a well-formed `Matching` cover exactly the nodes with a `mate` entry -/
theorem covered_pairs_iff (v : View) (m : Matching) (hm : MWF v m) (a : Nat) :
    Covered (pairsOf (mateTable v m)) a ↔ a ∈ v.g.nodes ∧ (m.mateOf v a).isSome = true := by
  have hmem := mem_mateTable v m
  constructor
  · rintro ⟨b, hab | hab⟩
    · have := (hmem a b).mp (List.mem_filter.mp hab).1
      exact ⟨this.1, by rw [this.2]; rfl⟩
    · have := (hmem b a).mp (List.mem_filter.mp hab).1
      exact ⟨hm.mate_mem this.2, by rw [hm.symm b this.1 a this.2]; rfl⟩
  · rintro ⟨ha, hs⟩
    cases hb : m.mateOf v a with
    | none => rw [hb] at hs; cases hs
    | some b =>
      have hne : a ≠ b := fun e => hm.irrefl a ha (e ▸ hb)
      have hbn := hm.mate_mem hb
      refine ⟨b, ?_⟩
      by_cases hlt : a < b
      · exact Or.inl (List.mem_filter.mpr ⟨(hmem a b).mpr ⟨ha, hb⟩, by simpa using hlt⟩)
      · exact Or.inr (List.mem_filter.mpr ⟨(hmem b a).mpr ⟨hbn, hm.symm a ha b hb⟩, by
          have : b < a := by omega
          simpa using this⟩)

/-- **the Gabow mirror model returns a maximum matching** -/
theorem maximumMatching_maximum (v : View) (mode : Nat) (hv : VHyp v mode) (hs : ViewSound v)
    (hwf : v.g.WellFormed) (hcomp : VComp v) :
    IsMaximumMatching v.g (pairsOf (mateTable v (maximumMatching v mode))) := by
  obtain ⟨hfault, hmw, hmv, _⟩ := maximumMatching_valid v mode hv hs hwf
  have hM := mateValid_isMatching _ _ hmv
  apply max_of_noExt v.g _ hM
  intro u hu
  have hnon : u ∉ v.g.nodes → NoExt v.g (pairsOf (mateTable v (maximumMatching v mode))) u := by
    -- a non-node is covered by no matching
    intro hun
    rintro ⟨N, hN, _, ⟨b, hb⟩⟩
    have hJ : Joined v.g u b := by
      rcases hb with hb | hb
      · exact hN.1 _ hb
      · exact joined_symm (hN.1 _ hb)
    obtain ⟨_, e, he, hh⟩ := hJ
    rcases hh with ⟨h1, _⟩ | ⟨_, h2⟩
    · exact hun (h1 ▸ (hwf.2 e he).1)
    · exact hun (h2 ▸ (hwf.2 e he).2)
  by_cases hun : u ∈ v.g.nodes
  case neg => exact hnon hun
  clear hnon
  -- the loop over the start indices
  have hcovM := covered_pairs_iff v _ hmw
  have hE : maximumMatching v mode =
      { mate := (forIn (m := Id) [:v.nb] (initGS v, (greedyInner v).nEdges)
          (fun start st => pure (mainStep v mode start st))).run.1.mate.take v.nb,
        nEdges := (forIn (m := Id) [:v.nb] (initGS v, (greedyInner v).nEdges)
          (fun start st => pure (mainStep v mode start st))).run.2,
        fault := (forIn (m := Id) [:v.nb] (initGS v, (greedyInner v).nEdges)
          (fun start st => pure (mainStep v mode start st))).run.1.fault } := by
    rw [maximumMatching_eq]; rfl
  obtain ⟨hgw, hgv⟩ := greedy_valid v hv.ix hwf hs
  have hget : ∀ i, i < v.nb → ((greedyInner v).mate ++ [none])[i]? = (greedyInner v).mate[i]? := by
    intro i hi
    rw [List.getElem?_append_left (by rw [hgw.len]; exact hi)]
  have hB0 : BInv v (initGS v) (greedyInner v).nEdges := by
    have hmo : ∀ a ∈ v.g.nodes, getM ((greedyInner v).mate ++ [none]) (v.toIndex a) = (greedyInner v).mateOf v a := by
      intro a ha
      rw [mateOf_eq]
      unfold getM
      rw [hget _ (hv.ix.lt a ha)]
    refine ⟨hgw.nofault, ⟨by simp [hgw.len], ?_, ?_, ?_, ?_⟩, rfl, by simp⟩
    · intro i x hx
      have hx : ((greedyInner v).mate ++ [none])[i]? = some (some x) := hx
      have hi : i < v.nb := by
        by_cases h : i < v.nb
        · exact h
        · exfalso
          have : ((greedyInner v).mate ++ [none])[i]? = if i = v.nb then some none else none := by
            rw [List.getElem?_append_right (by rw [hgw.len]; omega), hgw.len]
            by_cases e : i = v.nb
            · simp [e]
            · have : i - v.nb ≠ 0 := by omega
              simp [e]
              omega
          rw [this] at hx
          split at hx <;> cases hx
      rw [hget i hi] at hx
      exact hgw.live i x hx
    · intro a ha b hab
      have hab : getM ((greedyInner v).mate ++ [none]) (v.toIndex a) = some b := hab
      rw [hmo a ha] at hab
      show getM ((greedyInner v).mate ++ [none]) (v.toIndex b) = some a
      rw [hmo b (hgw.mate_mem hab)]
      exact hgw.symm a ha b hab
    · intro a ha b hab
      have hab : getM ((greedyInner v).mate ++ [none]) (v.toIndex a) = some b := hab
      rw [hmo a ha] at hab
      exact hgv.joined a b ((mem_mateTable v _ a b).mpr ⟨ha, hab⟩)
    · rw [hgw.cntN]
      congr 1
      apply List.filter_congr
      intro a ha
      show _ = (getM ((greedyInner v).mate ++ [none]) (v.toIndex a)).isSome
      rw [hmo a ha]
  have hloop := forIn_range_pure (GInv v) (fun _ => False) v.nb
    (fun start st => mainStep v mode start st) (initGS v, (greedyInner v).nEdges)
    ⟨hB0, fun u _ h => absurd h (Nat.not_lt_zero _)⟩
    (fun i b hi hb => mainStep_complete v mode hv hcomp i hi b hb)
  rcases hloop with h | ⟨hB, hN⟩
  · exact h.elim
  · generalize (forIn (m := Id) [:v.nb] (initGS v, (greedyInner v).nEdges)
      (fun start st => pure (mainStep v mode start st))).run = r at hB hN hE
    -- the `mate` entry of a node in the final `Matching`
    have hmo : ∀ a ∈ v.g.nodes, (maximumMatching v mode).mateOf v a = getM r.1.mate (v.toIndex a) := by
      intro a ha
      rw [hE, mateOf_eq]
      unfold getM
      rw [List.getElem?_take]
      simp [hv.ix.lt a ha]
    have hnone : getM r.1.mate (v.toIndex u) = none := by
      cases hg : getM r.1.mate (v.toIndex u) with
      | none => rfl
      | some x =>
        exfalso
        apply hu
        rw [hcovM]
        exact ⟨hun, by rw [hmo u hun, hg]; rfl⟩
    have hne := hN u hun (hv.ix.lt u hun) hnone
    rintro ⟨N, hN', hcov, hcu⟩
    refine hne ⟨N, hN', fun a ha => hcov a ?_, hcu⟩
    rw [hcovM]
    exact ⟨ha.1, by rw [hmo a ha.1]; exact ha.2⟩

end PetgraphModel.C15W5

namespace PetgraphModel.C15W5
open PetgraphModel PetgraphModel.C15 PetgraphModel.C15M PetgraphModel.C15P PetgraphModel.C15W2

/-- the `Matching` that a `mate` array (with the dummy slot) between two searches stands for -/
def matchingOf (v : View) (s : GS) (n : Nat) : Matching :=
  { mate := s.mate.take v.nb, nEdges := n, fault := false }

/-- **completeness of one search, in terms of augmenting paths**: after the search from the free
node `u` either `u` is matched, or `mate` is unchanged and no augmenting path (with respect to the
matching that `mate` stands for) starts at `u` -/
theorem gabowSearch_noAug (v : View) (mode : Nat) (hv : VHyp v mode) (hcomp : VComp v) (s : GS) (n : Nat)
    (hB : BInv v s n) (startIdx : Nat) (hst : startIdx < v.nb) (hfree : getM s.mate startIdx = none)
    (u : Nat) (hu : u ∈ v.g.nodes) (hidx : v.toIndex u = startIdx) :
    (getM (gabowSearch v mode startIdx s n).1.mate startIdx).isSome = true ∨
    ((gabowSearch v mode startIdx s n).1.mate = s.mate ∧
      NoAugFrom v.g (pairsOf (mateTable v (matchingOf v s n))) u) := by
  rcases (gabowSearch_complete v mode hv hcomp s n hB startIdx hst hfree).2 u hu hidx with h | ⟨h1, h2⟩
  · exact Or.inl h
  · right
    refine ⟨h1, ?_⟩
    have hfin : MWF v (matchingOf v s n) ∧ MateValid v.g (mateTable v (matchingOf v s n)) := hB.mate.final hv
    obtain ⟨hmw, hmv⟩ := hfin
    have hM := mateValid_isMatching _ _ hmv
    have hcovM := covered_pairs_iff v _ hmw
    have hmo : ∀ a ∈ v.g.nodes, (matchingOf v s n).mateOf v a = getM s.mate (v.toIndex a) := by
      intro a ha
      unfold matchingOf
      rw [mateOf_eq]
      unfold getM
      rw [List.getElem?_take]
      simp [hv.ix.lt a ha]
    have hfreeu : ¬ Covered (pairsOf (mateTable v (matchingOf v s n))) u := by
      intro hc
      have := ((hcovM u).mp hc).2
      rw [hmo u hu, hidx, hfree] at this; cases this
    apply (noAugFrom_iff_noExt v.g _ hM u hfreeu).mpr
    rintro ⟨N, hN, hcov, hcu⟩
    refine h2 ⟨N, hN, fun a ha => hcov a ?_, hcu⟩
    rw [hcovM]
    exact ⟨ha.1, by rw [hmo a ha.1]; exact ha.2⟩

end PetgraphModel.C15W5
