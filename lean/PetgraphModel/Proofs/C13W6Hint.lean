import PetgraphModel.Proofs.C13Iso
import PetgraphModel.Model.C13Hint
import PetgraphModel.Driver.C13
/-
C13, wave 6 — the rest of the public surface: `size_hint` of the iterator of `subgraph_isomorphisms_iter`
(`Model/C13Hint.lean`) and the judges the driver applies to it (`judgeHint`, `judgeHintBig`) and to a prefix
of the iterator's output on pairs too big to enumerate (`judgePrefix`).
-/
namespace PetgraphModel.C13
open PetgraphModel

/-! ### counting injections -/

theorem sum_map_const_of {α : Type} (l : List α) (f : α → Nat) (c : Nat) (h : ∀ x ∈ l, f x = c) :
    (l.map f).sum = l.length * c := by
  induction l with
  | nil => simp
  | cons a t ih =>
    simp only [List.map_cons, List.sum_cons, List.length_cons]
    rw [h a (by simp), ih (fun x hx => h x (by simp [hx])), Nat.succ_mul, Nat.add_comm]

theorem injections_length (k : Nat) (cod : List Nat) : (injections k cod).length = falling cod.length k := by
  induction k generalizing cod with
  | zero => simp [injections, falling]
  | succ k ih =>
    simp only [injections, falling, List.length_flatMap, List.length_map]
    have : ∀ x ∈ cod, (injections k (cod.erase x)).length = falling (cod.length - 1) k := by
      intro x hx
      rw [ih, List.length_erase_of_mem hx]
    exact sum_map_const_of _ _ _ this

/-- at most `n1 (n1-1) … (n1-n0+1)` embeddings exist -/
theorem subIsoAll_length_le (P : Problem) :
    (subIsoAll P).length ≤ falling P.g1.nodes.length P.g0.nodes.length := by
  unfold subIsoAll
  exact Nat.le_trans (List.length_filter_le _ _) (Nat.le_of_eq (injections_length _ _))

theorem falling_self (n : Nat) : falling n n = fact n := by
  induction n with
  | zero => rfl
  | succ n ih => simp [falling, fact, ih]

theorem falling_mono_left {a b : Nat} (h : a ≤ b) (k : Nat) : falling a k ≤ falling b k := by
  induction k generalizing a b with
  | zero => simp [falling]
  | succ k ih =>
    simp only [falling]
    exact Nat.mul_le_mul h (ih (Nat.sub_le_sub_right h 1))

theorem mul_fact_pred_le (n : Nat) : n * fact (n - 1) ≤ fact n := by
  cases n with
  | zero => simp
  | succ m => simp [fact]

/-- the number of injections is at most `n1!` -/
theorem falling_le_fact (n k : Nat) : falling n k ≤ fact n := by
  induction k generalizing n with
  | zero =>
    simp only [falling]
    induction n with
    | zero => simp [fact]
    | succ m ih => exact Nat.le_trans ih (by simp only [fact]; exact Nat.le_mul_of_pos_left _ (Nat.succ_pos m))
  | succ k ih =>
    simp only [falling]
    exact Nat.le_trans (Nat.mul_le_mul_left n (ih (n - 1))) (mul_fact_pred_le n)

/-! ### the model of `size_hint` (of the TARGET's node count; D34 repaired) -/

theorem hintTable_eq : hintTable = (List.range 21).map fact := by decide

theorem sizeHintModel_small {n : Nat} (h : n ≤ 20) : sizeHintModel n = some (0, some (fact n)) := by
  have all : ∀ m, m < 21 → sizeHintModel m = some (0, some (fact m)) := by decide
  exact all n (by omega)

theorem sizeHintModel_large {n : Nat} (h : 21 ≤ n) : sizeHintModel n = some (0, none) := by
  unfold sizeHintModel
  have : hintTable.length = 21 := by decide
  rw [dif_pos (by omega)]

/-- no panic: the bound test makes the table index legal -/
theorem sizeHintModel_isSome (n : Nat) : (sizeHintModel n).isSome = true := by
  unfold sizeHintModel
  split <;> rfl

/-! ### the judges -/

theorem judgeHint_iff (P : Problem) (k lo : Nat) (hi : Option Nat) :
    judgeHint P k lo hi = true ↔
      lo ≤ (subIsoAll P).length - k ∧ ∀ h, hi = some h → (subIsoAll P).length - k ≤ h := by
  unfold judgeHint judgeHintN
  cases hi with
  | none => simp
  | some h => simp

theorem judgeHintBig_sound (P : Problem) (lo : Nat) (hi : Option Nat)
    (h : judgeHintBig P.g0.nodes.length P.g1.nodes.length lo hi = true) (k : Nat) :
    judgeHint P k lo hi = true := by
  rw [judgeHint_iff]
  unfold judgeHintBig at h
  simp only [Bool.and_eq_true, beq_iff_eq] at h
  obtain ⟨hlo, hhi⟩ := h
  refine ⟨by omega, ?_⟩
  rintro b rfl
  simp only [decide_eq_true_eq] at hhi
  have := subIsoAll_length_le P
  omega

/-- the model's answer passes the judge that needs no enumeration, whatever the pattern's size -/
theorem sizeHintModel_judgeBig (n0 n1 lo : Nat) (hi : Option Nat) (hm : sizeHintModel n1 = some (lo, hi)) :
    judgeHintBig n0 n1 lo hi = true := by
  by_cases h20 : n1 ≤ 20
  · rw [sizeHintModel_small h20] at hm
    simp only [Option.some.injEq, Prod.mk.injEq] at hm
    obtain ⟨rfl, rfl⟩ := hm
    simp [judgeHintBig, falling_le_fact]
  · rw [sizeHintModel_large (by omega)] at hm
    simp only [Option.some.injEq, Prod.mk.injEq] at hm
    obtain ⟨rfl, rfl⟩ := hm
    simp [judgeHintBig]

/-- an accepted prefix: pairwise different vectors, each of them in the oracle's list -/
theorem judgePrefix_sound (P : Problem) (h1 : P.g1.nodes.Nodup) (l : List (List Nat))
    (h : judgePrefix P l = true) : l.Nodup ∧ ∀ v ∈ l, v ∈ subIsoAll P := by
  unfold judgePrefix at h
  simp only [Bool.and_eq_true, List.all_eq_true, decide_eq_true_eq, beq_iff_eq, List.contains_iff_mem] at h
  refine ⟨h.2, fun v hv => ?_⟩
  obtain ⟨⟨⟨hlen, hcod⟩, hnd⟩, hemb⟩ := h.1 v hv
  unfold subIsoAll
  rw [List.mem_filter]
  exact ⟨(mem_injections h1).mpr ⟨hlen, hnd, hcod⟩, hemb⟩

end PetgraphModel.C13
