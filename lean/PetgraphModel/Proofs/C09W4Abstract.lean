import PetgraphModel.Proofs.C09CycU
import PetgraphModel.Proofs.C09W4Space
import PetgraphModel.Oracle.C09Checks
/-
C09 (wave 4, goal 3): from the INDEX graph to the ABSTRACT graph.

`connected_components` / `is_cyclic_undirected` see the graph only through `to_index` and
`edge_references()`; `C09_connected_components` / `C09_cyclic_undirected` are about
`pairGraph nb pairs` (nodes `0..nb`, one undirected edge per reported pair).  Here: under the C06
consistency conditions

  * `IxLt`, `IxInj`     `to_index` is below `node_bound` and injective on the nodes,
  * `Compact`           every index below `node_bound` is the index of a node (`NodeCompactIndexable`;
                        needed for the COUNT only — a vacancy would be counted as a component),
  * `ErSet` / `ErOk`    `edge_references()` reports the edges of the abstract graph, orientation ignored —
                        as a set (enough for connectivity) resp. as a multiset (needed for cycles: a
                        repeated edge IS a cycle),
  * `WellFormed`        edge endpoints are nodes,

the two statements hold for the abstract graph `v.g`.  `Csr<Undirected>` (open finding D7) reports
every non-loop edge twice: `ErSet` holds, `ErOk` does not, and `is_cyclic_undirected` then answers
`true` whatever the graph (`cyclicUndirected_doubled`).
-/
namespace PetgraphModel.C09P
open PetgraphModel PetgraphModel.MGraph PetgraphModel.C09J PetgraphModel.C09M
open PetgraphModel.PartitionSpec PetgraphModel.UFSpec

/- `prs g` (the endpoint pairs of the edges) and `normP` (orientation ignored) are defined in
`Oracle/C09Checks.lean` (the driver evaluates the conditions below at run time). -/

/-- `ps` contains the pair `a b` in one of the two orientations -/
def UAdj (ps : List (Nat × Nat)) (a b : Nat) : Prop := (a, b) ∈ ps ∨ (b, a) ∈ ps

/-- some pair occurrence whose endpoints stay connected without it -/
def CycL (ps : List (Nat × Nat)) : Prop :=
  ∃ l1 p l2, ps = l1 ++ p :: l2 ∧ Connected (l1 ++ l2) p.1 p.2

/-! ### `Reach` of the undirected graph is `Connected` of the endpoint pairs -/

theorem reach_undirect_iff (g : MGraph) (x y : Nat) : Reach g.undirect x y ↔ Connected (prs g) x y := by
  constructor
  · intro h
    induction h with
    | refl => exact Connected.refl _
    | step _ hadj ih =>
      refine Connected.trans ih ?_
      obtain ⟨e, he, hc⟩ := hadj
      have hp : (e.src, e.tgt) ∈ prs g := List.mem_map.mpr ⟨e, he, rfl⟩
      rcases hc with ⟨h1, h2⟩ | ⟨_, h1, h2⟩
      · rw [← h1, ← h2]; exact Connected.edge hp
      · rw [← h1, ← h2]; exact Connected.symm (Connected.edge hp)
  · intro h
    induction h with
    | refl => exact Reach.refl _
    | edge he =>
      obtain ⟨e, he', hpe⟩ := List.mem_map.mp he
      simp only [Prod.mk.injEq] at hpe
      exact reach_of_adj ⟨e, he', Or.inl ⟨hpe.1, hpe.2⟩⟩
    | symm _ ih => exact reach_undirect_symm ih
    | trans _ _ ih1 ih2 => exact reach_trans ih1 ih2

theorem prs_pairGraph (nb : Nat) (ps : List (Nat × Nat)) : prs (pairGraph nb ps) = ps := by
  simp [prs, pairGraph, List.map_map, Function.comp_def]

theorem eraseEdge_split (g : MGraph) (l1 l2 : List Edge) (e : Edge) (h : g.edges = l1 ++ e :: l2) :
    prs (eraseEdge g l1.length) = prs ⟨g.directed, g.nodes, l1 ++ l2⟩ := by
  simp only [prs, eraseEdge, h]
  rw [List.eraseIdx_append_of_length_le (by simp)]
  simp

/-- **`CyclicU` depends only on the list of endpoint pairs** -/
theorem cyclicU_iff_cycL (g : MGraph) : CyclicU g ↔ CycL (prs g) := by
  constructor
  · rintro ⟨i, e, he, hr⟩
    have hi : i < g.edges.length := (List.getElem?_eq_some_iff.mp he).1
    have hei : g.edges[i] = e := (List.getElem?_eq_some_iff.mp he).2
    have hsplit : g.edges = g.edges.take i ++ e :: g.edges.drop (i + 1) := by
      rw [← hei, List.getElem_cons_drop hi, List.take_append_drop]
    have hlen : (g.edges.take i).length = i := by simp; omega
    have hp := eraseEdge_split g _ _ e hsplit
    rw [hlen] at hp
    have hc : Connected (prs (eraseEdge g i)) e.src e.tgt :=
      (reach_undirect_iff (eraseEdge g i) e.src e.tgt).mp hr
    rw [hp] at hc
    refine ⟨(g.edges.take i).map (fun e => (e.src, e.tgt)), (e.src, e.tgt),
      (g.edges.drop (i + 1)).map (fun e => (e.src, e.tgt)), ?_, ?_⟩
    · conv => lhs; rw [prs, hsplit]
      simp
    · simpa [prs] using hc
  · rintro ⟨l1, p, l2, hsplit, hc⟩
    obtain ⟨m1, m2', h1, h2, h3⟩ := List.map_eq_append_iff.mp hsplit
    obtain ⟨e, m2, h4, h5, h6⟩ := List.map_eq_cons_iff.mp h3
    subst h4
    refine ⟨m1.length, e, by rw [h1]; simp, ?_⟩
    have hp := eraseEdge_split g m1 m2 e h1
    apply (reach_undirect_iff (eraseEdge g m1.length) e.src e.tgt).mpr
    rw [hp]
    simp only [prs, List.map_append, h2, h6]
    rw [← h5] at hc
    exact hc

/-! ### `Connected` / `CycL` under the three changes of representation -/

theorem connected_of_uadj {ps qs : List (Nat × Nat)} (h : ∀ a b, UAdj ps a b → UAdj qs a b) {x y : Nat}
    (c : Connected ps x y) : Connected qs x y := by
  induction c with
  | refl x => exact .refl x
  | edge he =>
    rcases h _ _ (Or.inl he) with h' | h'
    · exact .edge h'
    · exact .symm (.edge h')
  | symm _ ih => exact .symm ih
  | trans _ _ ih1 ih2 => exact .trans ih1 ih2

theorem normP_cases (p : Nat × Nat) : normP p = p ∨ normP p = (p.2, p.1) := by
  unfold normP; split
  · exact Or.inl rfl
  · exact Or.inr rfl

theorem normP_swap (a b : Nat) : normP (b, a) = normP (a, b) := by
  unfold normP
  by_cases h1 : a ≤ b <;> by_cases h2 : b ≤ a <;> simp [h1, h2]
  · have : a = b := Nat.le_antisymm h1 h2
    exact ⟨this.symm, this⟩
  · omega

theorem uadj_iff_normP (ps : List (Nat × Nat)) (a b : Nat) : UAdj ps a b ↔ normP (a, b) ∈ ps.map normP := by
  constructor
  · rintro (h | h)
    · exact List.mem_map.mpr ⟨_, h, rfl⟩
    · exact List.mem_map.mpr ⟨_, h, normP_swap a b⟩
  · intro h
    obtain ⟨q, hq, he⟩ := List.mem_map.mp h
    obtain ⟨q1, q2⟩ := q
    have key : (q1 = a ∧ q2 = b) ∨ (q1 = b ∧ q2 = a) := by
      unfold normP at he
      simp only at he
      split at he <;> split at he <;> simp only [Prod.mk.injEq] at he
      · exact Or.inl he
      · exact Or.inr ⟨he.1, he.2⟩
      · exact Or.inr ⟨he.2, he.1⟩
      · exact Or.inl ⟨he.2, he.1⟩
    rcases key with ⟨h1, h2⟩ | ⟨h1, h2⟩
    · subst h1; subst h2; exact Or.inl hq
    · subst h1; subst h2; exact Or.inr hq

/-- a pointwise change of orientation -/
def Flip (φ : Nat × Nat → Nat × Nat) : Prop := ∀ p, φ p = p ∨ φ p = (p.2, p.1)

theorem normP_flip : Flip normP := normP_cases

theorem connected_map_flip {φ : Nat × Nat → Nat × Nat} (hφ : Flip φ) (ps : List (Nat × Nat)) (x y : Nat) :
    Connected (ps.map φ) x y ↔ Connected ps x y := by
  constructor
  · apply connected_of_uadj
    rintro a b (h | h)
    · obtain ⟨q, hq, he⟩ := List.mem_map.mp h
      rcases hφ q with h' | h'
      · rw [h'] at he; subst he; exact Or.inl hq
      · rw [h'] at he
        have : q = (b, a) := by cases q; simp only [Prod.mk.injEq] at he; simp [he.1, he.2]
        subst this; exact Or.inr hq
    · obtain ⟨q, hq, he⟩ := List.mem_map.mp h
      rcases hφ q with h' | h'
      · rw [h'] at he; subst he; exact Or.inr hq
      · rw [h'] at he
        have : q = (a, b) := by cases q; simp only [Prod.mk.injEq] at he; simp [he.1, he.2]
        subst this; exact Or.inl hq
  · apply connected_of_uadj
    rintro a b (h | h)
    · rcases hφ (a, b) with h' | h'
      · exact Or.inl (List.mem_map.mpr ⟨_, h, h'⟩)
      · exact Or.inr (List.mem_map.mpr ⟨_, h, h'⟩)
    · rcases hφ (b, a) with h' | h'
      · exact Or.inr (List.mem_map.mpr ⟨_, h, h'⟩)
      · exact Or.inl (List.mem_map.mpr ⟨_, h, h'⟩)

theorem cycL_map_flip {φ : Nat × Nat → Nat × Nat} (hφ : Flip φ) (ps : List (Nat × Nat)) :
    CycL (ps.map φ) ↔ CycL ps := by
  have hend : ∀ (L : List (Nat × Nat)) (p : Nat × Nat),
      Connected (L.map φ) (φ p).1 (φ p).2 ↔ Connected L p.1 p.2 := by
    intro L p
    rw [connected_map_flip hφ]
    rcases hφ p with h | h
    · rw [h]
    · rw [h]; exact ⟨Connected.symm, Connected.symm⟩
  constructor
  · rintro ⟨m1, q, m2, hsplit, hc⟩
    obtain ⟨l1, l2', h1, h2, h3⟩ := List.map_eq_append_iff.mp hsplit
    obtain ⟨p, l2, h4, h5, h6⟩ := List.map_eq_cons_iff.mp h3
    subst h4
    refine ⟨l1, p, l2, h1, ?_⟩
    rw [← h2, ← h6, ← h5, ← List.map_append] at hc
    exact (hend _ p).mp hc
  · rintro ⟨l1, p, l2, hsplit, hc⟩
    refine ⟨l1.map φ, φ p, l2.map φ, by rw [hsplit]; simp, ?_⟩
    rw [← List.map_append]
    exact (hend _ p).mpr hc

theorem cycL_perm {ps qs : List (Nat × Nat)} (hp : ps.Perm qs) (h : CycL ps) : CycL qs := by
  obtain ⟨l1, p, l2, hsplit, hc⟩ := h
  have hmem : p ∈ qs := hp.mem_iff.mp (by rw [hsplit]; simp)
  obtain ⟨m1, m2, hq⟩ := List.append_of_mem hmem
  refine ⟨m1, p, m2, hq, ?_⟩
  have h1 : (p :: (l1 ++ l2)).Perm (p :: (m1 ++ m2)) := by
    refine (List.perm_middle.symm.trans ?_).trans List.perm_middle
    rw [← hsplit, ← hq]; exact hp
  have h2 := h1.cons_inv
  exact connected_mono (fun q hq => h2.mem_iff.mp hq) hc

theorem connected_map_fwd (f : Nat → Nat) (L : List (Nat × Nat)) {a b : Nat} (h : Connected L a b) :
    Connected (L.map fun p => (f p.1, f p.2)) (f a) (f b) := by
  induction h with
  | refl x => exact Connected.refl _
  | edge he => exact Connected.edge (List.mem_map.mpr ⟨_, he, rfl⟩)
  | symm _ ih => exact Connected.symm ih
  | trans _ _ ih1 ih2 => exact Connected.trans ih1 ih2

/-- relabelling by a function injective on a set `S` holding all endpoints -/
theorem connected_map_inj (f : Nat → Nat) (S : Nat → Prop)
    (hinj : ∀ a b, S a → S b → f a = f b → a = b) (L : List (Nat × Nat))
    (hL : ∀ p ∈ L, S p.1 ∧ S p.2) {a b : Nat} (ha : S a) (hb : S b) :
    Connected (L.map fun p => (f p.1, f p.2)) (f a) (f b) ↔ Connected L a b := by
  constructor
  · intro h
    have key : ∀ u w, Connected (L.map fun p => (f p.1, f p.2)) u w →
        u = w ∨ ∃ a b, S a ∧ S b ∧ u = f a ∧ w = f b ∧ Connected L a b := by
      intro u w c
      induction c with
      | refl x => exact Or.inl rfl
      | edge he =>
        obtain ⟨p, hp, hpe⟩ := List.mem_map.mp he
        simp only [Prod.mk.injEq] at hpe
        exact Or.inr ⟨p.1, p.2, (hL p hp).1, (hL p hp).2, hpe.1.symm, hpe.2.symm, Connected.edge hp⟩
      | symm _ ih =>
        rcases ih with h | ⟨a, b, sa, sb, h1, h2, c⟩
        · exact Or.inl h.symm
        · exact Or.inr ⟨b, a, sb, sa, h2, h1, Connected.symm c⟩
      | trans _ _ ih1 ih2 =>
        rcases ih1 with h | ⟨a, b, sa, sb, h1, h2, c1⟩
        · rw [h]; exact ih2
        · rcases ih2 with h | ⟨a', b', sa', sb', h1', h2', c2⟩
          · rw [← h]; exact Or.inr ⟨a, b, sa, sb, h1, h2, c1⟩
          · have : b = a' := hinj b a' sb sa' (h2 ▸ h1')
            subst this
            exact Or.inr ⟨a, b', sa, sb', h1, h2', Connected.trans c1 c2⟩
    rcases key _ _ h with h | ⟨a', b', sa, sb, h1, h2, c⟩
    · rw [hinj a b ha hb h]; exact Connected.refl _
    · rw [hinj a a' ha sa h1, hinj b b' hb sb h2]; exact c
  · exact connected_map_fwd f L

theorem mem_app_cons_of_mem_app {α : Type} {q p : α} {l1 l2 : List α} (h : q ∈ l1 ++ l2) : q ∈ l1 ++ p :: l2 := by
  simp only [List.mem_append, List.mem_cons] at h ⊢
  rcases h with h | h
  · exact Or.inl h
  · exact Or.inr (Or.inr h)

theorem cycL_map_inj (f : Nat → Nat) (S : Nat → Prop)
    (hinj : ∀ a b, S a → S b → f a = f b → a = b) (L : List (Nat × Nat))
    (hL : ∀ p ∈ L, S p.1 ∧ S p.2) : CycL (L.map fun p => (f p.1, f p.2)) ↔ CycL L := by
  constructor
  · rintro ⟨m1, q, m2, hsplit, hc⟩
    obtain ⟨l1, l2', h1, h2, h3⟩ := List.map_eq_append_iff.mp hsplit
    obtain ⟨p, l2, h4, h5, h6⟩ := List.map_eq_cons_iff.mp h3
    subst h4
    refine ⟨l1, p, l2, h1, ?_⟩
    rw [← h2, ← h6, ← h5, ← List.map_append] at hc
    have hp : S p.1 ∧ S p.2 := hL p (by rw [h1]; simp)
    exact (connected_map_inj f S hinj (l1 ++ l2)
      (fun q hq => hL q (h1 ▸ mem_app_cons_of_mem_app hq)) hp.1 hp.2).mp hc
  · rintro ⟨l1, p, l2, hsplit, hc⟩
    refine ⟨l1.map (fun p => (f p.1, f p.2)), (f p.1, f p.2), l2.map (fun p => (f p.1, f p.2)), by rw [hsplit]; simp, ?_⟩
    rw [← List.map_append]
    have hp : S p.1 ∧ S p.2 := hL p (by rw [hsplit]; simp)
    exact (connected_map_inj f S hinj (l1 ++ l2)
      (fun q hq => hL q (hsplit ▸ mem_app_cons_of_mem_app hq)) hp.1 hp.2).mpr hc

/-! ### the C06 consistency conditions -/

/-- `edge_references()` (abstract ids) reports the edges of the graph as a SET, orientation ignored -/
def ErSet (g : MGraph) (er : List (Nat × Nat)) : Prop := ∀ a b, UAdj er a b ↔ UAdj (prs g) a b

/-- … as a MULTISET, orientation ignored -/
def ErOk (g : MGraph) (er : List (Nat × Nat)) : Prop := (er.map normP).Perm ((prs g).map normP)

/-- every index below `node_bound` is the index of a node -/
def Compact (v : View) : Prop := ∀ i, i < v.nb → ∃ a ∈ v.g.nodes, v.toIndex a = i

theorem erSet_of_erOk {g : MGraph} {er : List (Nat × Nat)} (h : ErOk g er) : ErSet g er := by
  intro a b
  rw [uadj_iff_normP, uadj_iff_normP]
  exact h.mem_iff

/-- the pairs `connected_components` / `is_cyclic_undirected` hand to the union–find -/
def ixPairs (v : View) (er : List (Nat × Nat)) : List (Nat × Nat) :=
  er.map fun p => (v.toIndex p.1, v.toIndex p.2)

theorem uadj_nodes {g : MGraph} (hwf : g.WellFormed) {a b : Nat} (h : UAdj (prs g) a b) :
    a ∈ g.nodes ∧ b ∈ g.nodes := by
  rcases h with h | h <;> obtain ⟨e, he, hpe⟩ := List.mem_map.mp h <;>
    simp only [Prod.mk.injEq] at hpe <;> have := hwf.2 e he
  · exact ⟨hpe.1 ▸ this.1, hpe.2 ▸ this.2⟩
  · exact ⟨hpe.2 ▸ this.2, hpe.1 ▸ this.1⟩

theorem er_nodes {g : MGraph} {er : List (Nat × Nat)} (hwf : g.WellFormed) (her : ErSet g er) :
    ∀ p ∈ er, p.1 ∈ g.nodes ∧ p.2 ∈ g.nodes :=
  fun p hp => uadj_nodes hwf ((her p.1 p.2).mp (Or.inl hp))

/-- the in-range hypothesis `hin` of the index-graph theorems follows -/
theorem ixPairs_in_range (v : View) (er : List (Nat × Nat)) (hwf : v.g.WellFormed) (hlt : IxLt v)
    (her : ErSet v.g er) : ∀ p ∈ ixPairs v er, p.1 < v.nb ∧ p.2 < v.nb := by
  intro p hp
  obtain ⟨q, hq, hqe⟩ := List.mem_map.mp hp
  subst hqe
  exact ⟨hlt _ (er_nodes hwf her q hq).1, hlt _ (er_nodes hwf her q hq).2⟩

/-- connectivity of the index graph is connectivity of the abstract graph -/
theorem connected_ixPairs_iff (v : View) (er : List (Nat × Nat)) (hwf : v.g.WellFormed) (hinj : IxInj v)
    (her : ErSet v.g er) {a b : Nat} (ha : a ∈ v.g.nodes) (hb : b ∈ v.g.nodes) :
    Connected (ixPairs v er) (v.toIndex a) (v.toIndex b) ↔ Reach v.g.undirect a b := by
  rw [reach_undirect_iff]
  unfold ixPairs
  rw [connected_map_inj v.toIndex (· ∈ v.g.nodes) (fun a b ha hb h => hinj a ha b hb h) er
    (er_nodes hwf her) ha hb]
  exact ⟨connected_of_uadj fun a b h => (her a b).mp h, connected_of_uadj fun a b h => (her a b).mpr h⟩

/-! ### is_cyclic_undirected on the abstract graph -/

theorem cyclicU_abstract (v : View) (er : List (Nat × Nat)) (hwf : v.g.WellFormed) (hinj : IxInj v)
    (her : ErOk v.g er) : CyclicU (pairGraph v.nb (ixPairs v er)) ↔ CyclicU v.g := by
  rw [cyclicU_iff_cycL, cyclicU_iff_cycL, prs_pairGraph]
  unfold ixPairs
  rw [cycL_map_inj v.toIndex (· ∈ v.g.nodes) (fun a b ha hb h => hinj a ha b hb h) er
    (er_nodes hwf (erSet_of_erOk her))]
  rw [← cycL_map_flip normP_flip er, ← cycL_map_flip normP_flip (prs v.g)]
  exact ⟨cycL_perm her, cycL_perm her.symm⟩

/-- **`is_cyclic_undirected` decides `CyclicU` of the abstract graph** under the C06 conditions -/
theorem cyclicUndirected_abstract (v : View) (er : List (Nat × Nat)) (hwf : v.g.WellFormed)
    (hlt : IxLt v) (hinj : IxInj v) (her : ErOk v.g er) (b : Bool)
    (h : cyclicUndirected v.nb (ixPairs v er) (UF.new 0 v.nb) = some b) : b = true ↔ CyclicU v.g :=
  (cyclicUndirected_spec v.nb (ixPairs v er) b
    (ixPairs_in_range v er hwf hlt (erSet_of_erOk her)) h).trans (cyclicU_abstract v er hwf hinj her)

/-- D7: when some non-loop edge is reported in both orientations the function answers `true`
(whatever the graph is): the second report closes a cycle with the first. -/
theorem cyclicUndirected_doubled (nb : Nat) (pairs : List (Nat × Nat))
    (hin : ∀ p ∈ pairs, p.1 < nb ∧ p.2 < nb) (a b : Nat) (hab : a ≠ b) (h1 : (a, b) ∈ pairs)
    (h2 : (b, a) ∈ pairs) (r : Bool) (h : cyclicUndirected nb pairs (UF.new 0 nb) = some r) : r = true := by
  apply (cyclicUndirected_spec nb pairs r hin h).mpr
  rw [cyclicU_iff_cycL, prs_pairGraph]
  obtain ⟨l1, l2, hs⟩ := List.append_of_mem h1
  refine ⟨l1, (a, b), l2, hs, ?_⟩
  have : (b, a) ∈ l1 ++ l2 := by
    rw [hs] at h2
    simp only [List.mem_append, List.mem_cons, Prod.mk.injEq] at h2 ⊢
    rcases h2 with h | ⟨h, _⟩ | h
    · exact Or.inl h
    · exact absurd h.symm hab
    · exact Or.inr h
  exact Connected.symm (Connected.edge this)

/-! ### connected_components on the abstract graph -/

/-- a node with the given index -/
def ixInv (v : View) (i : Nat) : Nat := (v.g.nodes.find? fun a => v.toIndex a == i).getD 0

theorem ixInv_spec (v : View) (hc : Compact v) {i : Nat} (hi : i < v.nb) :
    ixInv v i ∈ v.g.nodes ∧ v.toIndex (ixInv v i) = i := by
  unfold ixInv
  cases hf : v.g.nodes.find? fun a => v.toIndex a == i with
  | none =>
    obtain ⟨a, ha, hai⟩ := hc i hi
    exact absurd (by simpa using hai) (List.find?_eq_none.mp hf a ha)
  | some a =>
    exact ⟨List.mem_of_find?_eq_some hf, by simpa using List.find?_some hf⟩

/-- **the count of the index graph is the count of the abstract graph** -/
theorem wccCount_abstract (v : View) (er : List (Nat × Nat)) (hwf : v.g.WellFormed) (hlt : IxLt v)
    (hinj : IxInj v) (hc : Compact v) (her : ErSet v.g er) (k : Nat)
    (h : IsWccCount (pairGraph v.nb (ixPairs v er)) k) : IsWccCount v.g k := by
  obtain ⟨reps, hlen, hsub, hcov, hpw⟩ := h
  have hr : ∀ r ∈ reps, r < v.nb := fun r hr => List.mem_range.mp (hsub r hr)
  refine ⟨reps.map (ixInv v), by simpa using hlen, ?_, ?_, ?_⟩
  · intro a ha
    obtain ⟨r, hr', hra⟩ := List.mem_map.mp ha
    exact hra ▸ (ixInv_spec v hc (hr r hr')).1
  · intro x hx
    obtain ⟨r, hrr, hreach⟩ := hcov (v.toIndex x) (List.mem_range.mpr (hlt x hx))
    refine ⟨ixInv v r, List.mem_map.mpr ⟨r, hrr, rfl⟩, ?_⟩
    have hs := ixInv_spec v hc (hr r hrr)
    have hcn : Connected (ixPairs v er) r (v.toIndex x) := by
      have := (reach_undirect_iff (pairGraph v.nb (ixPairs v er)) r (v.toIndex x)).mp
      rw [prs_pairGraph] at this
      exact this hreach
    rw [← hs.2] at hcn
    exact (connected_ixPairs_iff v er hwf hinj her hs.1 hx).mp hcn
  · rw [List.pairwise_map]
    refine List.Pairwise.imp_of_mem ?_ hpw
    intro r1 r2 h1 h2 hn hreach
    apply hn
    have hs1 := ixInv_spec v hc (hr r1 h1)
    have hs2 := ixInv_spec v hc (hr r2 h2)
    have := (connected_ixPairs_iff v er hwf hinj her hs1.1 hs2.1).mpr hreach
    rw [hs1.2, hs2.2] at this
    apply (reach_undirect_iff (pairGraph v.nb (ixPairs v er)) r1 r2).mpr
    rw [prs_pairGraph]
    exact this

/-- **`connected_components` is the number of weak components of the abstract graph** under the C06
conditions (a set-level `edge_references` suffices, so `Csr<Undirected>` is covered) -/
theorem connectedComponents_abstract (v : View) (er : List (Nat × Nat)) (hwf : v.g.WellFormed)
    (hlt : IxLt v) (hinj : IxInj v) (hc : Compact v) (her : ErSet v.g er) (k : Nat)
    (h : connectedComponents v.nb (ixPairs v er) = some k) : IsWccCount v.g k :=
  wccCount_abstract v er hwf hlt hinj hc her k
    (connectedComponents_spec v.nb (ixPairs v er) k (ixPairs_in_range v er hwf hlt her) h)

end PetgraphModel.C09P
