import PetgraphModel.Proofs.C13W3Term
import PetgraphModel.Proofs.C13Iso
/-
C13, wave 3 — the wrappers over an arbitrary fuel `≥ explicitBound I`:

* `tryMatchF` answers `false` only if there is no valid complete mapping (both modes);
* the drained iterator `iterLoopF` ALWAYS reports its end (for any fuel: at most `n1!/(n1-n0)!` different valid
  mappings exist and no mapping is yielded twice, so `n1!/(n1-n0)! + 2` calls drain it), and with enough fuel
  its vectors are exactly the valid complete mappings, each once;
* the empty pattern (`n0 = 0`).
-/
namespace PetgraphModel.C13.Vf2
open PetgraphModel PetgraphModel.C13

/-! ### the initial state -/

theorem init_tinv (I : Inst) : TInv I (M.init I) := by
  refine ⟨rfl, rfl, ?_, ?_⟩
  · intro fr hfr; simp [M.init] at hfr
  · show FrOk I [Frame.outer]
    simp [FrOk]

theorem init_incomplete {I : Inst} (hn : 0 < I.g0.n) : (M.init I).s0.isComplete = false := by
  show (St.new I.g0).isComplete = false
  simp only [St.isComplete, St.new, List.length_replicate, beq_eq_false_iff_ne, ne_eq]
  omega

theorem init_pending {I : Inst} (hn : 0 < I.g0.n) (mp : List (Option Nat)) : Pending I mp (M.init I).stack := by
  show Pending I mp [Frame.outer]
  simp only [Pending, trailOf_nil, List.length_nil]
  exact Or.inl ⟨fun p hp => (by cases hp), hn⟩

/-! ### `try_match` over any sufficient fuel -/

theorem tryMatchF_sound {I : Inst} (ok0 : CGOk I.g0) (ok1 : CGOk I.g1) (hd : I.g0.directed = I.g1.directed)
    {sub : Bool} {fuel : Nat} (h : tryMatchF I sub fuel = true) : ∃ mp, Final I mp := by
  unfold tryMatchF at h
  split at h
  · rename_i m' mp hiso
    exact ⟨mp, (isomorphisms_sound ok0 ok1 hd sub fuel _ m' (some mp) (init_inv I) hiso).2 mp rfl⟩
  · cases h

/-- with enough fuel, `try_match` answers `false` only if no valid complete mapping exists (`hsizes`: the
frontier-size test of the mode loses nothing) -/
theorem tryMatchF_complete {I : Inst} (ok0 : CGOk I.g0) (ok1 : CGOk I.g1) (hd : I.g0.directed = I.g1.directed)
    (hin : I.g0.directed = true → ∀ i, (I.g0.inNb i).Nodup) (hn : 0 < I.g0.n) {sub : Bool}
    (hsizes : ∀ tr mp, Final I mp → ExtT mp tr → sizesOkS sub (SG I.g0 tr) (SG I.g1 (tr.map Prod.swap)) = true)
    {fuel : Nat} (hb : explicitBound I ≤ fuel) (h : tryMatchF I sub fuel = false) : ¬ ∃ mp, Final I mp := by
  rintro ⟨mp, hf⟩
  unfold tryMatchF at h
  have hsome := isomorphisms_init_terminates ok0 ok1 hd sub hb
  cases hiso : isomorphisms I sub fuel (M.init I) with
  | none => rw [hiso] at hsome; cases hsome
  | some pr =>
    obtain ⟨m', r⟩ := pr
    rw [hiso] at h
    cases r with
    | some x => cases h
    | none =>
      have post := isomorphisms_pending ok0 ok1 hd hin hn hsizes (init_inv I) (init_tinv I)
        (init_incomplete hn) hiso
      have hst := post.done rfl
      have := ((post.pend mp hf).1).mpr (init_pending hn mp)
      rw [hst] at this
      rcases this with h' | h'
      · exact h'
      · cases h'

/-! ### counting the valid complete mappings -/

theorem foldl_mul_eq (l : List Nat) (a : Nat) : l.foldl (· * ·) a = a * l.foldl (· * ·) 1 := by
  induction l generalizing a with
  | nil => simp
  | cons x l ih =>
    simp only [List.foldl_cons]
    rw [ih (a * x), ih (1 * x)]
    simp [Nat.mul_assoc]

theorem fallingFact_succ (n k : Nat) : fallingFact n (k + 1) = n * fallingFact (n - 1) k := by
  unfold fallingFact
  rw [List.range_succ_eq_map, List.map_cons, List.foldl_cons, foldl_mul_eq, List.map_map]
  congr 1
  · simp
  · congr 1
    apply List.map_congr_left
    intro i _
    simp only [Function.comp, Nat.succ_eq_add_one]
    omega

theorem sum_map_eq_const {l : List Nat} {f : Nat → Nat} {c : Nat} (h : ∀ x ∈ l, f x = c) :
    (l.map f).sum = l.length * c := by
  induction l with
  | nil => simp
  | cons a l ih =>
    simp only [List.map_cons, List.sum_cons, List.length_cons]
    rw [h a (List.mem_cons_self ..), ih fun x hx => h x (List.mem_cons_of_mem _ hx), Nat.succ_mul]
    omega

/-- the enumerator of the oracle lists `|cod|!/(|cod|-k)!` vectors -/
theorem length_injections (k : Nat) (cod : List Nat) : (injections k cod).length = fallingFact cod.length k := by
  induction k generalizing cod with
  | zero => rfl
  | succ k ih =>
    simp only [injections, List.length_flatMap, List.length_map]
    rw [sum_map_eq_const (c := fallingFact (cod.length - 1) k), fallingFact_succ]
    intro x hx
    rw [ih, List.length_erase_of_mem hx]

/-- the entry of the reported vector at abstract pattern node `a` -/
def absEntry (I : Inst) (mp : List (Option Nat)) (a : Nat) : Nat :=
  match (mp[I.g0.abs.idxOf a]?).getD none with
  | some j => (I.g1.abs[j]?).getD 0
  | none => 0

theorem toAbstract_eq_map (I : Inst) (mp : List (Option Nat)) :
    toAbstract I mp = (List.range I.g0.n).map (absEntry I mp) := rfl

/-- the reported vector of a valid complete mapping is an injection of `0..n0-1` into `0..n1-1` -/
theorem toAbstract_mem_injections {I : Inst} (p0 : I.g0.abs.Perm (List.range I.g0.n))
    (p1 : I.g1.abs.Perm (List.range I.g1.n)) {mp : List (Option Nat)} (f : Final I mp) :
    toAbstract I mp ∈ injections I.g0.n (List.range I.g1.n) := by
  have nd0 : I.g0.abs.Nodup := p0.nodup_iff.mpr List.nodup_range
  have nd1 : I.g1.abs.Nodup := p1.nodup_iff.mpr List.nodup_range
  have l0 : I.g0.abs.length = I.g0.n := by simpa using p0.length_eq
  have l1 : I.g1.abs.length = I.g1.n := by simpa using p1.length_eq
  -- the entry at abstract id `a`
  have entry : ∀ a, a < I.g0.n → ∃ i, ∃ hi : i < I.g0.abs.length, i < I.g0.n ∧ I.g0.abs[i] = a ∧
      ∃ hj : phi mp i < I.g1.abs.length, absEntry I mp a = I.g1.abs[phi mp i] := by
    intro a ha
    have hmem : a ∈ I.g0.abs := p0.symm.subset (List.mem_range.mpr ha)
    have hi : I.g0.abs.idxOf a < I.g0.abs.length := List.idxOf_lt_length_iff.mpr hmem
    have hi' : I.g0.abs.idxOf a < I.g0.n := by rw [← l0]; exact hi
    obtain ⟨hj, hjlt⟩ := f.phi_spec hi'
    have hjl : phi mp (I.g0.abs.idxOf a) < I.g1.abs.length := by rw [l1]; exact hjlt
    refine ⟨_, hi, hi', List.getElem_idxOf hi, hjl, ?_⟩
    unfold absEntry
    rw [hj]
    simp only [Option.getD_some]
    rw [List.getElem?_eq_getElem hjl, Option.getD_some]
  rw [mem_injections List.nodup_range]
  refine ⟨by simp [toAbstract], ?_, ?_⟩
  · rw [toAbstract_eq_map]
    refine List.Nodup.map_on ?_ List.nodup_range
    intro a ha a' ha' heq
    obtain ⟨i, hi, hin, hia, hj, e⟩ := entry a (List.mem_range.mp ha)
    obtain ⟨i', hi', hin', hia', hj', e'⟩ := entry a' (List.mem_range.mp ha')
    rw [e, e'] at heq
    have := (nd1.getElem_inj_iff).mp heq
    have := f.phi_inj hin hin' this
    subst this
    rw [← hia, ← hia']
  · intro x hx
    rw [toAbstract_eq_map] at hx
    obtain ⟨a, ha, rfl⟩ := List.mem_map.mp hx
    obtain ⟨i, hi, hin, hia, hj, e⟩ := entry a (List.mem_range.mp ha)
    rw [e]
    exact p1.subset (List.getElem_mem hj)

/-- a duplicate-free list of reported vectors has at most `n1!/(n1-n0)!` entries -/
theorem reported_count {I : Inst} (p0 : I.g0.abs.Perm (List.range I.g0.n))
    (p1 : I.g1.abs.Perm (List.range I.g1.n)) {acc : List (List Nat)} (nd : acc.Nodup)
    (h : ∀ v ∈ acc, Reported I v) : acc.length ≤ fallingFact I.g1.n I.g0.n := by
  have hsub : acc ⊆ injections I.g0.n (List.range I.g1.n) := by
    intro v hv
    obtain ⟨mp, hf, rfl⟩ := h v hv
    exact toAbstract_mem_injections p0 p1 hf
  have := (List.subperm_of_subset nd hsub).length_le
  rw [length_injections, List.length_range] at this
  exact this

/-! ### the drained iterator -/

theorem iterLoopF_sound {I : Inst} (ok0 : CGOk I.g0) (ok1 : CGOk I.g1) (hd : I.g0.directed = I.g1.directed)
    (fuel : Nat) : ∀ (k : Nat) (m : M) (acc : List (List Nat)), Inv I m → (∀ v ∈ acc, Reported I v) →
      ∀ v ∈ (iterLoopF I fuel k m acc).1, Reported I v := by
  intro k
  induction k with
  | zero =>
    intro m acc _ hacc v hv
    unfold iterLoopF at hv
    split at hv <;> exact hacc v (by simpa using hv)
  | succ k ih =>
    intro m acc hinv hacc v hv
    unfold iterLoopF at hv
    split at hv
    · rename_i m' mp hiso
      have := isomorphisms_sound ok0 ok1 hd true fuel m m' (some mp) hinv hiso
      refine ih m' _ this.1 ?_ v hv
      intro w hw
      rcases List.mem_cons.mp hw with rfl | hw
      · exact ⟨mp, this.2 mp rfl, rfl⟩
      · exact hacc w hw
    · exact hacc v (by simpa using hv)

/-- the drained iterator reports its end, whatever the fuel: no mapping is yielded twice and there are at most
`n1!/(n1-n0)!` of them -/
theorem iterLoopF_flag {I : Inst} (ok0 : CGOk I.g0) (ok1 : CGOk I.g1) (hd : I.g0.directed = I.g1.directed)
    (hin : I.g0.directed = true → ∀ i, (I.g0.inNb i).Nodup) (hn : 0 < I.g0.n)
    (p0 : I.g0.abs.Perm (List.range I.g0.n)) (p1 : I.g1.abs.Perm (List.range I.g1.n)) (fuel : Nat) :
    ∀ (k : Nat) (m : M) (acc : List (List Nat)),
      Inv I m → TInv I m → m.s0.isComplete = false →
      acc.Nodup → (∀ v ∈ acc, Reported I v) →
      (∀ mp, Final I mp → toAbstract I mp ∈ acc → ¬ Pending I mp m.stack) →
      fallingFact I.g1.n I.g0.n < acc.length + k →
      (iterLoopF I fuel k m acc).2 = true := by
  intro k
  induction k with
  | zero =>
    intro m acc _ _ _ hnd hrep _ hlen
    have := reported_count p0 p1 hnd hrep
    omega
  | succ k ih =>
    intro m acc hinv ht hinc hnd hrep hacc hlen
    unfold iterLoopF
    split
    · rename_i m' mp' hiso
      have post := isomorphisms_pending ok0 ok1 hd hin hn (ExtT.sizesOkS_sub ok0 ok1 hd) hinv ht hinc hiso
      have f' : Final I mp' := post.good mp' rfl
      have pp' := post.pend mp' f'
      have hpend' : Pending I mp' m.stack := pp'.1.mp (Or.inr rfl)
      apply ih m' (toAbstract I mp' :: acc) post.inv post.tinv post.inc
      · exact List.nodup_cons.mpr ⟨fun hmem => hacc mp' f' hmem hpend', hnd⟩
      · intro w hw
        rcases List.mem_cons.mp hw with rfl | hw
        · exact ⟨mp', f', rfl⟩
        · exact hrep w hw
      · intro mp f hmem hp
        have pp := post.pend mp f
        rcases List.mem_cons.mp hmem with heq | hmem
        · have : mp = mp' := toAbstract_inj p0 p1 f f' heq
          subst this
          exact pp.2 ⟨hp, rfl⟩
        · exact hacc mp f hmem (pp.1.mp (Or.inl hp))
      · simp only [List.length_cons]; omega
    · rfl

/-- with enough fuel for every call, the drained iterator (once it reports its end) has yielded every valid
complete mapping exactly once -/
theorem iterLoopF_complete {I : Inst} (ok0 : CGOk I.g0) (ok1 : CGOk I.g1) (hd : I.g0.directed = I.g1.directed)
    (hin : I.g0.directed = true → ∀ i, (I.g0.inNb i).Nodup) (hn : 0 < I.g0.n)
    (p0 : I.g0.abs.Perm (List.range I.g0.n)) (p1 : I.g1.abs.Perm (List.range I.g1.n)) (fuel : Nat) :
    ∀ (k : Nat) (m : M) (acc : List (List Nat)),
      Inv I m → TInv I m → m.s0.isComplete = false → Phi I m.stack < fuel →
      acc.Nodup → (∀ mp, Final I mp → (toAbstract I mp ∈ acc ↔ ¬ Pending I mp m.stack)) →
      (iterLoopF I fuel k m acc).2 = true →
      (iterLoopF I fuel k m acc).1.Nodup ∧ ∀ mp, Final I mp → toAbstract I mp ∈ (iterLoopF I fuel k m acc).1 := by
  have drained : ∀ (m m' : M) (acc : List (List Nat)), Inv I m → TInv I m → m.s0.isComplete = false →
      acc.Nodup → (∀ mp, Final I mp → (toAbstract I mp ∈ acc ↔ ¬ Pending I mp m.stack)) →
      isomorphisms I true fuel m = some (m', none) →
      acc.reverse.Nodup ∧ ∀ mp, Final I mp → toAbstract I mp ∈ acc.reverse := by
    intro m m' acc hinv ht hinc hnd hacc hiso
    have post := isomorphisms_pending ok0 ok1 hd hin hn (ExtT.sizesOkS_sub ok0 ok1 hd) hinv ht hinc hiso
    have hst := post.done rfl
    refine ⟨List.nodup_reverse.mpr hnd, ?_⟩
    intro mp f
    rw [List.mem_reverse, hacc mp f]
    intro hp
    have := ((post.pend mp f).1).mpr hp
    rw [hst] at this
    rcases this with h | h
    · exact h
    · cases h
  intro k
  induction k with
  | zero =>
    intro m acc hinv ht hinc hlt hnd hacc hfin
    obtain ⟨m', r, hiso, _⟩ := isomorphisms_terminates ok0 ok1 hd true hinv hlt
    unfold iterLoopF at hfin ⊢
    rw [hiso] at hfin ⊢
    cases r with
    | some mp' => cases hfin
    | none => exact drained m m' acc hinv ht hinc hnd hacc hiso
  | succ k ih =>
    intro m acc hinv ht hinc hlt hnd hacc hfin
    obtain ⟨m', r, hiso, hle⟩ := isomorphisms_terminates ok0 ok1 hd true hinv hlt
    unfold iterLoopF at hfin ⊢
    rw [hiso] at hfin ⊢
    cases r with
    | none => exact drained m m' acc hinv ht hinc hnd hacc hiso
    | some mp' =>
      have post := isomorphisms_pending ok0 ok1 hd hin hn (ExtT.sizesOkS_sub ok0 ok1 hd) hinv ht hinc hiso
      have f' : Final I mp' := post.good mp' rfl
      have pp' := post.pend mp' f'
      have hpend' : Pending I mp' m.stack := pp'.1.mp (Or.inr rfl)
      apply ih m' (toAbstract I mp' :: acc) post.inv post.tinv post.inc (by omega)
      · refine List.nodup_cons.mpr ⟨?_, hnd⟩
        intro hmem
        exact (hacc mp' f').mp hmem hpend'
      · intro mp f
        have pp := post.pend mp f
        constructor
        · intro hmem hp
          rcases List.mem_cons.mp hmem with heq | hmem
          · have : mp = mp' := toAbstract_inj p0 p1 f f' heq
            subst this
            exact pp.2 ⟨hp, rfl⟩
          · exact (hacc mp f).mp hmem (pp.1.mp (Or.inl hp))
        · intro hnp
          by_cases heq : mp = mp'
          · subst heq; exact List.mem_cons_self
          · refine List.mem_cons_of_mem _ ((hacc mp f).mpr ?_)
            intro hp
            rcases pp.1.mpr hp with h | h
            · exact hnp h
            · exact heq (Option.some.inj h).symm
      · exact hfin

/-! ### the empty pattern -/

theorem new_of_zero {g : CG} (hn : g.n = 0) : (St.new g).mapping = [] ∧ (St.new g).gen = 0 := by
  simp [St.new, hn]

theorem init_complete_of_zero {I : Inst} (hn : I.g0.n = 0) : (M.init I).s0.isComplete = true := by
  show (St.new I.g0).isComplete = true
  simp [St.isComplete, St.new, hn]

/-- the first `next()` on an empty pattern yields the empty mapping and pops the `Outer` frame … -/
theorem isomorphisms_empty_first {I : Inst} (hn : I.g0.n = 0) (sub : Bool) (fuel : Nat) :
    isomorphisms I sub fuel (M.init I) = some ({ M.init I with stack := [] }, some []) := by
  unfold isomorphisms
  rw [if_pos (init_complete_of_zero hn)]
  show some (_, some (St.new I.g0).mapping) = _
  rw [(new_of_zero hn).1]

/-- … and the second one ends the iteration (the repaired D30 path) -/
theorem isomorphisms_empty_second {I : Inst} (hn : I.g0.n = 0) (sub : Bool) (fuel : Nat) :
    isomorphisms I sub fuel { M.init I with stack := [] } = some ({ M.init I with stack := [] }, none) := by
  unfold isomorphisms
  have : ({ M.init I with stack := [] } : M).s0.isComplete = true := init_complete_of_zero hn
  rw [if_pos this]

theorem toAbstract_of_zero {I : Inst} (hn : I.g0.n = 0) (mp : List (Option Nat)) : toAbstract I mp = [] := by
  simp [toAbstract, hn]

theorem final_of_zero {I : Inst} (hn : I.g0.n = 0) (mp : List (Option Nat)) : Final I mp ↔ mp = [] := by
  constructor
  · intro f
    have := f.len
    rw [hn] at this
    exact List.length_eq_zero_iff.mp this
  · rintro rfl
    refine ⟨by simp [hn], ?_, ?_, ⟨?_, ?_, ?_⟩⟩
    · intro i hi; omega
    · intro i i' j h; simp at h
    · intro i j i' j' h; simp at h
    · intro _ i j h; simp at h
    · intro _ i j i' j' h; simp at h

theorem tryMatchF_of_zero {I : Inst} (hn : I.g0.n = 0) (sub : Bool) (fuel : Nat) : tryMatchF I sub fuel = true := by
  unfold tryMatchF
  rw [isomorphisms_empty_first hn]

theorem iterLoopF_of_zero {I : Inst} (hn : I.g0.n = 0) (fuel k : Nat) :
    iterLoopF I fuel (k + 2) (M.init I) [] = ([[]], true) := by
  rw [iterLoopF, isomorphisms_empty_first hn]
  simp only
  rw [iterLoopF, isomorphisms_empty_second hn]
  simp only [toAbstract_of_zero hn, List.reverse_cons, List.reverse_nil, List.nil_append]

/-- an `edge_count()` field that describes the neighbour lists of a node-less graph is 0 -/
theorem ecount_of_zero {g : CG} (hn : g.n = 0) (e : ECountOk g) : g.ecount = 0 := by
  unfold ECountOk CG.arcs CG.loops at e
  rw [hn] at e
  simp only [List.range_zero, List.map_nil, List.sum_nil, List.filter_nil, List.length_nil] at e
  split at e <;> omega

/-! ### the drained iterator of the model, all patterns -/

/-- `iterModelF` with enough fuel: the end flag is `true` and the yielded vectors are exactly the (abstract
vectors of the) valid complete mappings, each once — including the empty pattern -/
theorem iterModelF_exact {I : Inst} (ok0 : CGOk I.g0) (ok1 : CGOk I.g1) (hd : I.g0.directed = I.g1.directed)
    (hin : I.g0.directed = true → ∀ i, (I.g0.inNb i).Nodup)
    (p0 : I.g0.abs.Perm (List.range I.g0.n)) (p1 : I.g1.abs.Perm (List.range I.g1.n))
    {fuel : Nat} (hb : explicitBound I ≤ fuel) {vs : List (List Nat)} {fin : Bool}
    (h : iterModelF I fuel = some (vs, fin)) :
    fin = true ∧ vs.Nodup ∧ ∀ v, v ∈ vs ↔ ∃ mp, Final I mp ∧ v = toAbstract I mp := by
  unfold iterModelF at h
  split at h
  · cases h
  · simp only [Option.some.injEq] at h
    by_cases hn : I.g0.n = 0
    · rw [iterLoopF_of_zero hn] at h
      cases h
      refine ⟨rfl, by simp, ?_⟩
      intro v
      simp only [List.mem_singleton]
      constructor
      · rintro rfl; exact ⟨[], (final_of_zero hn []).mpr rfl, (toAbstract_of_zero hn []).symm⟩
      · rintro ⟨mp, _, rfl⟩; exact toAbstract_of_zero hn mp
    · have hn : 0 < I.g0.n := Nat.pos_of_ne_zero hn
      have hphi := Phi_init I
      have hflag := iterLoopF_flag ok0 ok1 hd hin hn p0 p1 fuel (fallingFact I.g1.n I.g0.n + 2) (M.init I) []
        (init_inv I) (init_tinv I) (init_incomplete hn) List.nodup_nil (fun _ h => by cases h)
        (fun _ _ h => by cases h) (by simp)
      have hc := iterLoopF_complete ok0 ok1 hd hin hn p0 p1 fuel (fallingFact I.g1.n I.g0.n + 2) (M.init I) []
        (init_inv I) (init_tinv I) (init_incomplete hn) (by omega) List.nodup_nil
        (by
          intro mp f
          simp only [List.not_mem_nil, false_iff, not_not]
          exact init_pending hn mp) hflag
      have hs := iterLoopF_sound ok0 ok1 hd fuel (fallingFact I.g1.n I.g0.n + 2) (M.init I) [] (init_inv I)
        (fun _ h => by cases h)
      rw [h] at hflag hc hs
      refine ⟨hflag, hc.1, fun v => ⟨fun hv => hs v hv, ?_⟩⟩
      rintro ⟨mp, hf, rfl⟩
      exact hc.2 mp hf

/-- the end flag of the drained iterator is `true` for ANY fuel -/
theorem iterModelF_flag {I : Inst} (ok0 : CGOk I.g0) (ok1 : CGOk I.g1) (hd : I.g0.directed = I.g1.directed)
    (hin : I.g0.directed = true → ∀ i, (I.g0.inNb i).Nodup)
    (p0 : I.g0.abs.Perm (List.range I.g0.n)) (p1 : I.g1.abs.Perm (List.range I.g1.n))
    (fuel : Nat) {vs : List (List Nat)} {fin : Bool} (h : iterModelF I fuel = some (vs, fin)) : fin = true := by
  unfold iterModelF at h
  split at h
  · cases h
  · simp only [Option.some.injEq] at h
    by_cases hn : I.g0.n = 0
    · rw [iterLoopF_of_zero hn] at h
      cases h; rfl
    · have hn : 0 < I.g0.n := Nat.pos_of_ne_zero hn
      have hflag := iterLoopF_flag ok0 ok1 hd hin hn p0 p1 fuel (fallingFact I.g1.n I.g0.n + 2) (M.init I) []
        (init_inv I) (init_tinv I) (init_incomplete hn) List.nodup_nil (fun _ h => by cases h)
        (fun _ _ h => by cases h) (by simp)
      rw [h] at hflag
      exact hflag

/-- the executable fuel condition of the wave-2 theorems follows from the explicit bound -/
theorem fuelOk_of_bound {I : Inst} (ok0 : CGOk I.g0) (ok1 : CGOk I.g1) (hd : I.g0.directed = I.g1.directed) :
    ∀ (k : Nat) (m : M), Inv I m → Phi I m.stack < bigFuel → fuelOk I k m = true := by
  intro k
  induction k with
  | zero =>
    intro m hinv hlt
    obtain ⟨m', r, hiso, _⟩ := isomorphisms_terminates ok0 ok1 hd true hinv hlt
    unfold fuelOk
    rw [hiso]; rfl
  | succ k ih =>
    intro m hinv hlt
    obtain ⟨m', r, hiso, hle⟩ := isomorphisms_terminates ok0 ok1 hd true hinv hlt
    unfold fuelOk
    rw [hiso]
    cases r with
    | none => rfl
    | some mp =>
      exact ih m' (isomorphisms_sound ok0 ok1 hd true bigFuel m m' (some mp) hinv hiso).1 (by omega)

theorem iterFuelOk_of_bound {I : Inst} (ok0 : CGOk I.g0) (ok1 : CGOk I.g1) (hd : I.g0.directed = I.g1.directed)
    (hb : explicitBound I ≤ bigFuel) : iterFuelOk I = true := by
  have := Phi_init I
  exact fuelOk_of_bound ok0 ok1 hd _ _ (init_inv I) (by omega)

end PetgraphModel.C13.Vf2
