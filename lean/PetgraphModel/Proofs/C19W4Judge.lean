import PetgraphModel.Driver.C19
import PetgraphModel.Proofs.UnionFindSpec
/-
C19, wave 4 — soundness of the driver's spec-level judges of representatives (`dumpOk`, `repOk`):
an accepted answer satisfies the clause "find, find_mut and into_labeling return, for each element,
one fixed member of its class, the same for all members" with respect to the abstract partition `QF`
(which `C19_qf_connected` identifies with the equivalence closure of the unions performed).
-/
namespace PetgraphModel.UFProofs
open PetgraphModel PetgraphModel.UF PetgraphModel.PartitionSpec PetgraphModel.C19

theorem dumpOk_none {d : DState} {reps : List Nat} (h : dumpOk d reps = none) :
    reps.length = d.qf.len ∧ ∀ x, x < reps.length → dumpBad d reps x = false := by
  unfold dumpOk at h
  split at h
  · cases h
  · rename_i hlen
    refine ⟨by simpa using hlen, ?_⟩
    intro x hx
    split at h
    · cases h
    · rename_i hbad
      have := List.find?_eq_none.mp hbad x (List.mem_range.mpr hx)
      simpa using this

theorem same_cls {q : QF} {x y a : Nat} (hx : q.cls[x]? = some a) (h : q.same x y = true) :
    q.cls[y]? = some a := by
  unfold QF.same at h
  rw [hx] at h
  cases hy : q.cls[y]? with
  | none => simp [hy] at h
  | some b => simp only [hy, beq_iff_eq] at h; rw [h]

/-- an accepted dump / labeling is a system of representatives of the abstract partition:
every answer is a member of the element's class, it is the same for all members of a class, and a
class not touched since the previous dump keeps its representative. -/
theorem dumpOk_sound (d : DState) (reps : List Nat) (h : dumpOk d reps = none) :
    reps.length = d.qf.len ∧
    (∀ x, x < d.qf.len → ∃ r, reps[x]? = some r ∧ d.qf.same x r = true) ∧
    (∀ x y, x < d.qf.len → y < d.qf.len → d.qf.same x y = true → reps[x]? = reps[y]?) ∧
    (∀ old x c, d.lastDump = some old → x < d.qf.len → x < old.length → d.qf.cls[x]? = some c →
      d.touched.contains c = false → old[x]? = reps[x]?) := by
  obtain ⟨hlen, hall⟩ := dumpOk_none h
  have key : ∀ x, x < d.qf.len → ∃ r c, reps[x]? = some r ∧ d.qf.cls[x]? = some c ∧
      d.qf.same x r = true ∧ reps[c]? = some r ∧
      (∀ old, d.lastDump = some old → d.touched.contains c = false → x < old.length →
        old[x]? = some r) := by
    intro x hx
    have hb := hall x (by omega)
    have hr : reps[x]? = some reps[x] := List.getElem?_eq_getElem (by omega)
    have hc : d.qf.cls[x]? = some d.qf.cls[x] := List.getElem?_eq_getElem hx
    refine ⟨_, _, hr, hc, ?_⟩
    unfold dumpBad at hb
    rw [hr, hc] at hb
    simp only [Bool.or_eq_false_iff, Bool.not_eq_false', bne_eq_false_iff_eq] at hb
    obtain ⟨⟨h1, h2⟩, h3⟩ := hb
    refine ⟨h1, h2, ?_⟩
    intro old ho ht hxo
    rw [ho] at h3
    simp only [ht, Bool.not_false, Bool.true_and, Bool.and_eq_false_iff, decide_eq_false_iff_not,
      bne_eq_false_iff_eq] at h3
    rcases h3 with h3 | h3
    · exact absurd hxo h3
    · exact h3
  refine ⟨hlen, ?_, ?_, ?_⟩
  · intro x hx
    obtain ⟨r, c, hr, _, hs, _⟩ := key x hx
    exact ⟨r, hr, hs⟩
  · intro x y hx hy hs
    obtain ⟨r, c, hr, hc, _, hrc, _⟩ := key x hx
    obtain ⟨r', c', hr', hc', _, hrc', _⟩ := key y hy
    have := same_cls hc hs
    rw [hc'] at this
    cases this
    rw [hr, hr', ← hrc, ← hrc']
  · intro old x c ho hx hxo hc ht
    obtain ⟨r, c', hr, hc', _, _, hst⟩ := key x hx
    rw [hc] at hc'
    cases hc'
    rw [hr]
    exact hst old ho ht hxo

/-- an accepted single `find`-style answer for an in-range element is a member of its class, and is
the representative of the previous dump unless the class was touched since -/
theorem repOk_sound (d : DState) (x : Nat) (r : String) (h : repOk d x r = none) :
    ∃ rn, r.toNat? = some rn ∧ d.qf.same x rn = true ∧
      (∀ old c, d.lastDump = some old → d.qf.cls[x]? = some c → d.touched.contains c = false →
        old[x]? = some rn) := by
  unfold repOk at h
  split at h
  · cases h
  · rename_i rn hrn
    refine ⟨rn, hrn, ?_⟩
    split at h
    · cases h
    · rename_i hs
      have hs' : d.qf.same x rn = true := by simpa using hs
      refine ⟨hs', ?_⟩
      intro old c ho hc ht
      rw [ho] at h
      simp only [hc, ht] at h
      by_cases he : (old[x]? == some rn) = true
      · simpa using he
      · simp [he] at h

end PetgraphModel.UFProofs
