import PetgraphModel.Proofs.MatrixGraph
/-
C04 wave 5, goal 2 — iteration ORDER of the observers.

`MatrixGraph` iterates deterministically: ids ascending, rows/columns ascending, `edge_references`
row-major.  The ordered observers of the simple graph (`G.idsAsc`, `G.nodesAsc`, `G.succAsc`,
`G.predAsc`, `G.edgeRefsAsc`, `Spec/MatrixMachine.lean`) say this without any matrix; here the mirror
model's iterators are proved EQUAL (as lists) to them in every state with `Inv s`, `R s g`.
-/
namespace PetgraphModel.MatrixProofs
open PetgraphModel.Matrix PetgraphModel.MatrixSpec

/-- two lists that are strictly ascending in a key and have the same members are equal -/
theorem eq_of_strict_key {α : Type} (f : α → Nat) : ∀ (l1 l2 : List α),
    l1.Pairwise (fun x y => f x < f y) → l2.Pairwise (fun x y => f x < f y) →
    (∀ x, x ∈ l1 ↔ x ∈ l2) → l1 = l2
  | [], [], _, _, _ => rfl
  | [], y :: ys, _, _, h => absurd ((h y).2 List.mem_cons_self) (by simp)
  | x :: xs, [], _, _, h => absurd ((h x).1 List.mem_cons_self) (by simp)
  | x :: xs, y :: ys, h1, h2, h => by
    have hx := (h x).1 List.mem_cons_self
    have hy := (h y).2 List.mem_cons_self
    rw [List.pairwise_cons] at h1 h2
    have hxy : x = y := by
      rcases List.mem_cons.1 hx with e | hx'
      · exact e
      · rcases List.mem_cons.1 hy with e | hy'
        · exact e.symm
        · have := h1.1 y hy'; have := h2.1 x hx'; omega
    subst hxy
    congr 1
    apply eq_of_strict_key f xs ys h1.2 h2.2
    intro z
    constructor
    · intro hz
      rcases List.mem_cons.1 ((h z).1 (List.mem_cons_of_mem _ hz)) with e | h'
      · subst e; have := h1.1 z hz; omega
      · exact h'
    · intro hz
      rcases List.mem_cons.1 ((h z).2 (List.mem_cons_of_mem _ hz)) with e | h'
      · subst e; have := h2.1 z hz; omega
      · exact h'

/-! ### the ascending id list of the simple graph -/

theorem mem_idsAsc (g : G) (x : Nat) : x ∈ g.idsAsc ↔ g.live x = true := by
  unfold G.idsAsc G.ids G.live
  rw [List.mem_mergeSort]
  simp [List.any_eq_true]

theorem idsAsc_sorted {g : G} (hwf : g.WF) : g.idsAsc.Pairwise (· < ·) := by
  have h1 : g.idsAsc.Pairwise (fun a b => decide (a ≤ b) = true) := by
    unfold G.idsAsc
    apply List.pairwise_mergeSort
    · intro a b c h1 h2; simp only [decide_eq_true_eq] at *; omega
    · intro a b; simp only [Bool.or_eq_true, decide_eq_true_eq]; omega
  have h2 : g.idsAsc.Nodup := by
    unfold G.idsAsc
    exact (List.mergeSort_perm _ _).nodup_iff.2 hwf.1
  have := h1.and h2
  apply List.Pairwise.imp _ this
  intro a b ⟨hle, hne⟩
  simp only [decide_eq_true_eq] at hle
  omega

/-- **`node_identifiers()` in order**: the model's `iter_ids` is the ascending list of live ids -/
theorem ids_eq_idsAsc {s : State} {g : G} (h : Inv s) (r : R s g) : s.nodes.ids = g.idsAsc := by
  apply eq_of_strict_key id _ _ (Ids.ids_sorted _) (idsAsc_sorted r.wf)
  intro x
  rw [Ids.mem_ids_iff_live h.ids, mem_idsAsc, live_eq r]

/-- **`node_references()` in order** -/
theorem nodeRefs_eq_nodesAsc {s : State} {g : G} (h : Inv s) (r : R s g) : nodeRefs s = g.nodesAsc := by
  unfold nodeRefs G.nodesAsc
  rw [ids_eq_idsAsc h r]
  congr 1
  funext i
  rw [r.nodes]

/-! ### rows and columns -/

/-- a list of `(a, other, w)` triples, strictly ascending in `other`, whose members are exactly the
pairs of the weight function `wt`, is the ascending enumeration over the live ids -/
theorem row_eq {g : G} (hwf : g.WF) (a : Nat) (l : List (Nat × Nat × Int)) (wt : Nat → Option Int)
    (hs : l.Pairwise (fun t t' => t.2.1 < t'.2.1))
    (hm : ∀ t, t ∈ l ↔ t.1 = a ∧ wt t.2.1 = some t.2.2)
    (hl : ∀ b w, wt b = some w → g.live b = true) :
    l = (g.idsAsc.filterMap fun b => (wt b).map fun w => (b, w)).map fun p => (a, p.1, p.2) := by
  apply eq_of_strict_key (fun t => t.2.1) _ _ hs
  · rw [List.pairwise_map, List.pairwise_filterMap]
    apply List.Pairwise.imp _ (idsAsc_sorted hwf)
    intro c c' hlt p hp p' hp'
    rw [Option.map_eq_some_iff] at hp hp'
    obtain ⟨_, _, rfl⟩ := hp
    obtain ⟨_, _, rfl⟩ := hp'
    exact hlt
  · intro ⟨x, c, w⟩
    rw [hm]
    simp only [List.mem_map, List.mem_filterMap, Option.map_eq_some_iff, Prod.mk.injEq]
    constructor
    · rintro ⟨rfl, hw⟩
      exact ⟨(c, w), ⟨c, (mem_idsAsc g c).2 (hl c w hw), w, hw, rfl⟩, rfl, rfl, rfl⟩
    · rintro ⟨p, ⟨c', _, w', hw', rfl⟩, rfl, rfl, rfl⟩
      exact ⟨rfl, hw'⟩

theorem edgesOut_sorted (s : State) (a : Nat) : (edgesOut s a).Pairwise (fun t t' => t.2.1 < t'.2.1) := by
  unfold edgesOut
  split
  · exact List.Pairwise.nil
  · rw [List.pairwise_filterMap]
    apply List.Pairwise.imp _ List.pairwise_lt_range
    intro c c' hlt b hb b' hb'
    rw [Option.map_eq_some_iff] at hb hb'
    obtain ⟨_, _, rfl⟩ := hb
    obtain ⟨_, _, rfl⟩ := hb'
    exact hlt

theorem edgesIn_sorted (s : State) (a : Nat) : (edgesIn s a).Pairwise (fun t t' => t.2.1 < t'.2.1) := by
  unfold edgesIn
  split
  · exact List.Pairwise.nil
  · rw [List.pairwise_filterMap]
    apply List.Pairwise.imp _ List.pairwise_lt_range
    intro c c' hlt b hb b' hb'
    rw [Option.map_eq_some_iff] at hb hb'
    obtain ⟨_, _, rfl⟩ := hb
    obtain ⟨_, _, rfl⟩ := hb'
    exact hlt

/-- **`edges(a)` / `edges_directed(a, Outgoing)` in order** -/
theorem edgesOut_eq_succAsc {s : State} {g : G} (_h : Inv s) (r : R s g) (a : Nat) :
    edgesOut s a = (g.succAsc a).map fun p => (a, p.1, p.2) := by
  unfold G.succAsc
  apply row_eq r.wf a _ (fun b => g.weight a b) (edgesOut_sorted s a)
  · intro t; rw [mem_edgesOut, r.edges]
  · intro b w hw; exact (live_of_edge r.wf hw).2

/-- **`edges_directed(a, Incoming)` in order** (the pairs are `(a, source, w)`: finding D6) -/
theorem edgesIn_eq_predAsc {s : State} {g : G} (_h : Inv s) (r : R s g) (a : Nat) :
    edgesIn s a = (g.predAsc a).map fun p => (a, p.1, p.2) := by
  unfold G.predAsc
  apply row_eq r.wf a _ (fun b => g.weight b a) (edgesIn_sorted s a)
  · intro t; rw [mem_edgesIn, r.edges]
  · intro b w hw; exact (live_of_edge r.wf hw).1

/-- **`neighbors(a)` in order** -/
theorem neighborsOut_eq_succAsc {s : State} {g : G} (h : Inv s) (r : R s g) (a : Nat) :
    neighborsOut s a = (g.succAsc a).map (·.1) := by
  unfold neighborsOut
  rw [edgesOut_eq_succAsc h r, List.map_map]
  rfl

/-- **`neighbors_directed(a, Incoming)` in order** -/
theorem neighborsIn_eq_predAsc {s : State} {g : G} (h : Inv s) (r : R s g) (a : Nat) :
    neighborsIn s a = (g.predAsc a).map (·.1) := by
  unfold neighborsIn
  rw [edgesIn_eq_predAsc h r, List.map_map]
  rfl

/-! ### `edge_references()` -/

theorem leKW_iff (a b : (Nat × Nat) × Int) : leKW a b = true ↔
    (a.1.1 < b.1.1 ∨ (a.1.1 = b.1.1 ∧ (a.1.2 < b.1.2 ∨ (a.1.2 = b.1.2 ∧ a.2 ≤ b.2)))) := by
  simp [leKW]

/-- row-major: strictly ascending in `(source, target)` lexicographically -/
theorem edgeRefs_lex (s : State) :
    (edgeRefs s).Pairwise (fun t t' => t.1 < t'.1 ∨ (t.1 = t'.1 ∧ t.2.1 < t'.2.1)) := by
  unfold edgeRefs
  rw [List.pairwise_flatMap]
  constructor
  · intro r _
    rw [List.pairwise_filterMap]
    apply List.Pairwise.imp _ List.pairwise_lt_range
    intro c c' hlt b hb b' hb'
    rw [Option.map_eq_some_iff] at hb hb'
    obtain ⟨_, _, rfl⟩ := hb
    obtain ⟨_, _, rfl⟩ := hb'
    exact Or.inr ⟨rfl, hlt⟩
  · apply List.Pairwise.imp _ List.pairwise_lt_range
    intro r r' hlt x hx y hy
    rw [List.mem_filterMap] at hx hy
    obtain ⟨_, _, hx⟩ := hx
    obtain ⟨_, _, hy⟩ := hy
    rw [Option.map_eq_some_iff] at hx hy
    obtain ⟨_, _, rfl⟩ := hx
    obtain ⟨_, _, rfl⟩ := hy
    exact Or.inl hlt

/-- **`edge_references()` in order**: the edges of the simple graph sorted by their normalised key -/
theorem edgeRefs_eq_edgeRefsAsc {s : State} {g : G} (r : R s g) : edgeRefs s = g.edgeRefsAsc := by
  have hkey : (edgeRefs s).map (fun t => (key s.dir t.1 t.2.1, t.2.2)) =
      (edgeRefs s).map (fun t => ((t.1, t.2.1), t.2.2)) := by
    apply List.map_congr_left
    intro t ht
    have h1 := ((mem_edgeRefs s t).1 ht).1
    unfold key
    cases hd : s.dir
    · rw [hd] at h1
      simp only [Bool.false_eq_true, false_or, if_false] at h1 ⊢
      rw [Nat.max_eq_left h1, Nat.min_eq_right h1]
    · simp
  have hperm := edgeRefs_perm r
  rw [hkey] at hperm
  have heq : (edgeRefs s).map (fun t => ((t.1, t.2.1), t.2.2)) = g.edges.mergeSort leKW := by
    apply List.Perm.eq_of_pairwise (le := fun a b => leKW a b = true)
    · intro a b _ _ h1 h2
      rw [leKW_iff] at h1 h2
      obtain ⟨⟨a1, a2⟩, aw⟩ := a
      obtain ⟨⟨b1, b2⟩, bw⟩ := b
      simp only at h1 h2
      have e1 : a1 = b1 := by omega
      have e2 : a2 = b2 := by omega
      have e3 : aw = bw := by omega
      rw [e1, e2, e3]
    · rw [List.pairwise_map]
      apply List.Pairwise.imp _ (edgeRefs_lex s)
      intro t t' h
      rw [leKW_iff]
      simp only
      omega
    · apply List.pairwise_mergeSort
      · intro a b c h1 h2
        rw [leKW_iff] at *
        omega
      · intro a b
        rw [Bool.or_eq_true, leKW_iff, leKW_iff]
        omega
    · exact hperm.trans (List.mergeSort_perm _ _).symm
  unfold G.edgeRefsAsc
  rw [← heq, List.map_map]
  conv => lhs; rw [← List.map_id (edgeRefs s)]
  apply List.map_congr_left
  intro t _
  rfl

/-! ### what the ordered observers of the simple graph are (no matrix involved) -/

theorem mem_succAsc {g : G} (hwf : g.WF) (a : Nat) (p : Nat × Int) :
    p ∈ g.succAsc a ↔ g.weight a p.1 = some p.2 := by
  obtain ⟨b, w⟩ := p
  unfold G.succAsc
  simp only [List.mem_filterMap, Option.map_eq_some_iff, Prod.mk.injEq]
  constructor
  · rintro ⟨b', _, w', hw', rfl, rfl⟩; exact hw'
  · intro hw; exact ⟨b, (mem_idsAsc g b).2 (live_of_edge hwf hw).2, w, hw, rfl, rfl⟩

theorem mem_predAsc {g : G} (hwf : g.WF) (a : Nat) (p : Nat × Int) :
    p ∈ g.predAsc a ↔ g.weight p.1 a = some p.2 := by
  obtain ⟨b, w⟩ := p
  unfold G.predAsc
  simp only [List.mem_filterMap, Option.map_eq_some_iff, Prod.mk.injEq]
  constructor
  · rintro ⟨b', _, w', hw', rfl, rfl⟩; exact hw'
  · intro hw; exact ⟨b, (mem_idsAsc g b).2 (live_of_edge hwf hw).1, w, hw, rfl, rfl⟩

theorem succAsc_sorted {g : G} (hwf : g.WF) (a : Nat) : (g.succAsc a).Pairwise (fun p q => p.1 < q.1) := by
  unfold G.succAsc
  rw [List.pairwise_filterMap]
  apply List.Pairwise.imp _ (idsAsc_sorted hwf)
  intro c c' hlt p hp p' hp'
  rw [Option.map_eq_some_iff] at hp hp'
  obtain ⟨_, _, rfl⟩ := hp
  obtain ⟨_, _, rfl⟩ := hp'
  exact hlt

theorem predAsc_sorted {g : G} (hwf : g.WF) (a : Nat) : (g.predAsc a).Pairwise (fun p q => p.1 < q.1) := by
  unfold G.predAsc
  rw [List.pairwise_filterMap]
  apply List.Pairwise.imp _ (idsAsc_sorted hwf)
  intro c c' hlt p hp p' hp'
  rw [Option.map_eq_some_iff] at hp hp'
  obtain ⟨_, _, rfl⟩ := hp
  obtain ⟨_, _, rfl⟩ := hp'
  exact hlt

theorem mem_nodesAsc (g : G) (p : Nat × Int) : p ∈ g.nodesAsc ↔ g.nodeWeight p.1 = some p.2 := by
  obtain ⟨i, w⟩ := p
  unfold G.nodesAsc
  simp only [List.mem_filterMap, Option.map_eq_some_iff, Prod.mk.injEq]
  constructor
  · rintro ⟨i', _, w', hw', rfl, rfl⟩; exact hw'
  · intro hw
    refine ⟨i, (mem_idsAsc g i).2 ?_, w, hw, rfl, rfl⟩
    rw [Spec.live_iff, hw]; rfl

/-- `edgeRefsAsc` lists exactly the edges, strictly ascending in `(source, target)` -/
theorem edgeRefsAsc_spec {g : G} (hwf : g.WF) :
    (g.edgeRefsAsc.map fun t => ((t.1, t.2.1), t.2.2)).Perm g.edges ∧
    g.edgeRefsAsc.Pairwise (fun t t' => t.1 < t'.1 ∨ (t.1 = t'.1 ∧ t.2.1 < t'.2.1)) := by
  have hperm := List.mergeSort_perm g.edges leKW
  have hmap : (g.edgeRefsAsc.map fun t => ((t.1, t.2.1), t.2.2)) = g.edges.mergeSort leKW := by
    unfold G.edgeRefsAsc
    rw [List.map_map]
    conv => rhs; rw [← List.map_id (g.edges.mergeSort leKW)]
    apply List.map_congr_left
    intro e _; rfl
  refine ⟨by rw [hmap]; exact hperm, ?_⟩
  have hsorted : (g.edges.mergeSort leKW).Pairwise (fun a b => leKW a b = true) := by
    apply List.pairwise_mergeSort
    · intro a b c h1 h2
      rw [leKW_iff] at *
      omega
    · intro a b
      rw [Bool.or_eq_true, leKW_iff, leKW_iff]
      omega
  have hnd : ((g.edges.mergeSort leKW).map (·.1)).Nodup := (hperm.map _).nodup_iff.2 hwf.2.1
  have hne : (g.edges.mergeSort leKW).Pairwise (fun a b => a.1 ≠ b.1) := by
    rw [List.Nodup, List.pairwise_map] at hnd
    exact hnd
  unfold G.edgeRefsAsc
  rw [List.pairwise_map]
  apply List.Pairwise.imp _ (hsorted.and hne)
  intro a b ⟨hle, hk⟩
  rw [leKW_iff] at hle
  obtain ⟨⟨a1, a2⟩, aw⟩ := a
  obtain ⟨⟨b1, b2⟩, bw⟩ := b
  simp only at hle hk ⊢
  have : ¬ (a1 = b1 ∧ a2 = b2) := fun ⟨h1, h2⟩ => hk (by rw [h1, h2])
  omega

end PetgraphModel.MatrixProofs
