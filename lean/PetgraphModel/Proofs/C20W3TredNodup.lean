import PetgraphModel.Proofs.C20W3Tred
/-
C20 (wave 3) — "each pair once": on duplicate-free toposorted rows (a simple DAG) the rows of the
mirrored `dag_transitive_reduction_closure` are duplicate-free; hence the pairs of the composed run.
-/
namespace PetgraphModel.C20.Tred
open PetgraphModel PetgraphModel.MGraph

theorem mergeRow_nodup (Q : List Nat) (l : List Nat) : ∀ (tc mark : List Nat), tc.Nodup →
    (∀ z ∈ tc, z ∈ mark ∨ z ∈ Q) → (∀ y ∈ l, y ∉ Q) →
    (mergeRow l tc mark).1.Nodup ∧ ∀ z ∈ (mergeRow l tc mark).1, z ∈ (mergeRow l tc mark).2 ∨ z ∈ Q := by
  induction l with
  | nil => intro tc mark h1 h2 _; exact ⟨h1, h2⟩
  | cons a t ih =>
    intro tc mark h1 h2 h3
    unfold mergeRow
    simp only [List.foldl_cons]
    by_cases hc : mark.contains a = true
    · simp only [hc, if_true]
      exact ih tc mark h1 h2 (fun y hy => h3 y (List.mem_cons_of_mem _ hy))
    · simp only [hc, Bool.false_eq_true, if_false]
      have ha : a ∉ mark := by simpa using hc
      have haQ : a ∉ Q := h3 a (by simp)
      apply ih (tc ++ [a]) (a :: mark)
      · rw [List.nodup_append]
        refine ⟨h1, by simp, ?_⟩
        intro z hz w hw e
        have : w = a := by simpa using hw
        subst this; subst e
        cases h2 z hz with
        | inl h => exact ha h
        | inr h => exact haQ h
      · intro z hz
        cases List.mem_append.mp hz with
        | inl h =>
          cases h2 z h with
          | inl h' => exact Or.inl (List.mem_cons_of_mem _ h')
          | inr h' => exact Or.inr h'
        | inr h =>
          have : z = a := by simpa using h
          exact Or.inl (this ▸ List.mem_cons_self)
      · exact fun y hy => h3 y (List.mem_cons_of_mem _ hy)

/-- duplicate-freeness invariant of the neighbour loop after the prefix `P` -/
structure NInv (P : List Nat) (st : List Nat × List Nat × List Nat) : Prop where
  red : st.1.Nodup
  redP : ∀ z ∈ st.1, z ∈ P
  clo : st.2.1.Nodup
  cloP : ∀ z ∈ st.2.1, z ∈ st.2.2 ∨ z ∈ P

theorem rowStep_ninv (clos : Nat → List Nat) (P : List Nat) (st : List Nat × List Nat × List Nat) (x : Nat)
    (hx : ∀ z ∈ P, z < x) (hcl : ∀ y ∈ clos x, x < y) (h : NInv P st) : NInv (P ++ [x]) (rowStep clos st x) := by
  obtain ⟨h1, h2, h3, h4⟩ := h
  have hxP : x ∉ P := fun hm => Nat.lt_irrefl _ (hx x hm)
  unfold rowStep
  by_cases hc : st.2.2.contains x = true
  · simp only [hc, if_true]
    exact ⟨h1, fun z hz => List.mem_append_left _ (h2 z hz), h3, fun z hz => by
      cases h4 z hz with
      | inl h => exact Or.inl h
      | inr h => exact Or.inr (List.mem_append_left _ h)⟩
  · simp only [hc, Bool.false_eq_true, if_false]
    have hxm : x ∉ st.2.2 := by simpa using hc
    have hm := mergeRow_nodup (P ++ [x]) (clos x) (st.2.1 ++ [x]) st.2.2
      (by
        rw [List.nodup_append]
        refine ⟨h3, by simp, ?_⟩
        intro z hz w hw e
        have : w = x := by simpa using hw
        subst this; subst e
        cases h4 z hz with
        | inl h => exact hxm h
        | inr h => exact hxP h)
      (by
        intro z hz
        cases List.mem_append.mp hz with
        | inl h =>
          cases h4 z h with
          | inl h' => exact Or.inl h'
          | inr h' => exact Or.inr (List.mem_append_left _ h')
        | inr h => exact Or.inr (List.mem_append_right _ h))
      (by
        intro y hy hyQ
        have hlt := hcl y hy
        cases List.mem_append.mp hyQ with
        | inl h => have := hx y h; omega
        | inr h => have : y = x := by simpa using h
                   omega)
    refine ⟨?_, ?_, hm.1, hm.2⟩
    · rw [List.nodup_append]
      refine ⟨h1, by simp, ?_⟩
      intro z hz w hw e
      have : w = x := by simpa using hw
      subst this; subst e
      exact hxP (h2 z hz)
    · intro z hz
      cases List.mem_append.mp hz with
      | inl h => exact List.mem_append_left _ (h2 z h)
      | inr h => exact List.mem_append_right _ h

/-- in an ascending duplicate-free list every element of a prefix is strictly below the next one -/
theorem ascending_prefix_lt (P : List Nat) (x : Nat) (S : List Nat) (hasc : ascending (P ++ x :: S) = true)
    (hnd : (P ++ x :: S).Nodup) : ∀ z ∈ P, z < x := by
  intro z hz
  have hle := ascending_prefix P x S hasc z hz
  have hne : z ≠ x := by
    intro e
    subst e
    exact (List.nodup_append.mp hnd).2.2 z hz z (by simp) rfl
  omega

theorem foldl_rowStep_ninv (clos : Nat → List Nat) :
    ∀ (S P : List Nat) (st : List Nat × List Nat × List Nat), ascending (P ++ S) = true → (P ++ S).Nodup →
      (∀ x ∈ S, ∀ y ∈ clos x, x < y) → NInv P st → NInv (P ++ S) (S.foldl (rowStep clos) st) := by
  intro S
  induction S with
  | nil => intro P st _ _ _ h; simpa using h
  | cons x t ih =>
    intro P st hasc hnd hcl hinv
    simp only [List.foldl_cons]
    have hstep := rowStep_ninv clos P st x (ascending_prefix_lt P x t hasc hnd) (hcl x (by simp)) hinv
    have := ih (P ++ [x]) _ (by simpa using hasc) (by simpa using hnd) (fun z hz => hcl z (by simp [hz])) hstep
    simpa using this

theorem rowFor_nodup (clos : Nat → List Nat) (row : List Nat) (hasc : ascending row = true) (hnd : row.Nodup)
    (hcl : ∀ x ∈ row, ∀ y ∈ clos x, x < y) : (rowFor clos row).1.Nodup ∧ (rowFor clos row).2.Nodup := by
  have := foldl_rowStep_ninv clos row [] ([], [], []) (by simpa using hasc) (by simpa using hnd) hcl
    ⟨by simp, by simp, by simp, by simp⟩
  unfold rowFor
  exact ⟨this.red, this.clo⟩

/-- **every row of the mirrored `dag_transitive_reduction_closure` is duplicate-free** when the input
rows are (toposorted, ascending and) duplicate-free -/
theorem reductionClosure_nodup (rows : List (List Nat))
    (hts : ∀ i x, x ∈ rows.getD i [] → i < x) (hasc : ∀ i, ascending (rows.getD i []) = true)
    (hnd : ∀ i, (rows.getD i []).Nodup) (i : Nat) :
    ((reductionClosure rows).1.getD i []).Nodup ∧ ((reductionClosure rows).2.getD i []).Nodup := by
  have hout : ∀ j, rows.length ≤ j → (fun j => rows.getD j []) j = [] := fun j hj => by
    simp [List.getD, List.getElem?_eq_none hj]
  -- generalise over the suffix processed by `rcFrom`
  have main : ∀ (rest : List (List Nat)) (k : Nat), k + rest.length = rows.length →
      (∀ m, m < rest.length → rest.getD m [] = rows.getD (k + m) []) →
      ∀ m, ((rcFrom k rest).1.getD m []).Nodup ∧ ((rcFrom k rest).2.getD m []).Nodup := by
    intro rest
    induction rest with
    | nil => intro k _ _ m; simp [rcFrom]
    | cons row t ih =>
      intro k hlen hrows
      have hrow : row = rows.getD k [] := by simpa using hrows 0 (by simp)
      have hlen' : k + 1 + t.length = rows.length := by simp at hlen; omega
      have hrows' : ∀ m, m < t.length → t.getD m [] = rows.getD (k + 1 + m) [] := fun m hm => by
        have := hrows (m + 1) (by simp; omega)
        simp only [List.getD_cons_succ] at this
        rw [this]; congr 1; omega
      have ih' := ih (k + 1) hlen' hrows'
      have hsuffix := rcFrom_spec (fun j => rows.getD j []) hts hasc rows.length hout t (k + 1) hlen' hrows'
      -- the closure rows read by this row only hold larger nodes
      have hcl : ∀ x ∈ row, ∀ y ∈ (if k < x then (rcFrom (k + 1) t).2.getD (x - (k + 1)) [] else []), x < y := by
        intro x hx y hy
        have hkx : k < x := hts k x (hrow ▸ hx)
        simp only [hkx, if_true] at hy
        by_cases hxn : x - (k + 1) < t.length
        · have hr := ((hsuffix.2.2 _ hxn).1 y).mp hy
          have e : k + 1 + (x - (k + 1)) = x := by omega
          rw [e] at hr
          exact R_lt (nb := fun j => rows.getD j []) hts hr
        · have hge : (rcFrom (k + 1) t).2.length ≤ x - (k + 1) := by
            rw [(rcFrom_length t (k + 1)).2]; omega
          have : (rcFrom (k + 1) t).2.getD (x - (k + 1)) [] = [] := by
            simp [List.getD_eq_getElem?_getD, List.getElem?_eq_none hge]
          rw [this] at hy; cases hy
      have hrf := rowFor_nodup _ row (hrow ▸ hasc k) (hrow ▸ hnd k) hcl
      intro m
      cases m with
      | zero => simpa [rcFrom] using hrf
      | succ m => simpa [rcFrom] using ih' m
  have := main rows 0 (by simp) (fun m _ => by simp) i
  simpa [reductionClosure] using this

/-- pairs read off duplicate-free rows through an injective renaming are duplicate-free -/
theorem rowPairs_indexed_nodup (f : Nat → Nat) (rows : List (List Nat)) (n : Nat)
    (hf : ∀ i j, i < n → j < n → f i = f j → i = j) (hlen : rows.length ≤ n)
    (hsmall : ∀ i x, x ∈ rows.getD i [] → x < n) (hnd : ∀ i, (rows.getD i []).Nodup) :
    (rowPairs f (indexed rows)).Nodup := by
  unfold rowPairs indexed
  rw [List.nodup_iff_pairwise_ne, List.pairwise_flatMap]
  constructor
  · intro r hr
    obtain ⟨i, _, rfl⟩ := List.mem_map.mp hr
    simp only
    rw [List.pairwise_map]
    refine List.Pairwise.imp_of_mem ?_ (hnd i)
    intro a b ha hb hab e
    exact hab (hf a b (hsmall i a ha) (hsmall i b hb) (Prod.mk.inj e).2)
  · rw [List.pairwise_map]
    refine List.Pairwise.imp_of_mem ?_ (List.nodup_range (n := rows.length))
    intro i j hi hj hij x hx y hy e
    simp only [List.mem_map] at hx hy
    obtain ⟨_, _, rfl⟩ := hx
    obtain ⟨_, _, rfl⟩ := hy
    have hi' : i < n := Nat.lt_of_lt_of_le (List.mem_range.mp hi) hlen
    have hj' : j < n := Nat.lt_of_lt_of_le (List.mem_range.mp hj) hlen
    exact hij (hf i j hi' hj' (Prod.mk.inj e).1)

/-- the rows `dag_to_toposorted_adjacency_list` produces for a SIMPLE DAG are duplicate-free -/
theorem rows_nodup (v : View) (topo : List Nat) (h : DagInput v topo) (hs : simpleB v.g = true) (i : Nat) :
    ((toposorted v.pred id v.g.nodes.length topo).1.getD i []).Nodup := by
  rw [List.nodup_iff_count]
  intro x
  have hc := (toposorted_correct v topo h.directed h.nodup h.mem h.pred h.fwd h.small
    (fun e he => (h.endpoints e he).2)).2.2 i x
  rw [hc]
  have hnd : (v.g.edges.map fun e => (e.src, e.tgt)).Nodup := by simpa [simpleB] using hs
  -- at most one edge has the endpoints of ranks `i` and `x`
  have hinj : ∀ e ∈ v.g.edges, (topo.idxOf e.src = i ∧ topo.idxOf e.tgt = x) →
      (e.src, e.tgt) = (unrank topo i, unrank topo x) := by
    intro e he hix
    have hs' : e.src ∈ topo := (h.mem _).mpr (h.endpoints e he).1
    have ht' : e.tgt ∈ topo := (h.mem _).mpr (h.endpoints e he).2
    rw [← hix.1, ← hix.2, unrank_idxOf hs', unrank_idxOf ht']
  have hle : ∀ (es : List Edge), (es.map fun e => (e.src, e.tgt)).Nodup → (∀ e ∈ es, e ∈ v.g.edges) →
      (es.filter fun e => topo.idxOf e.src = i ∧ topo.idxOf e.tgt = x).length ≤ 1 := by
    intro es
    induction es with
    | nil => intro _ _; simp
    | cons e t ih =>
      intro hn hsub
      simp only [List.map_cons] at hn
      have hn' := List.nodup_cons.mp hn
      have iht := ih hn'.2 (fun e' he' => hsub e' (List.mem_cons_of_mem _ he'))
      by_cases hp : topo.idxOf e.src = i ∧ topo.idxOf e.tgt = x
      · have hnone : (t.filter fun e => topo.idxOf e.src = i ∧ topo.idxOf e.tgt = x) = [] := by
          rw [List.filter_eq_nil_iff]
          intro e' he' hp'
          have hp'' : topo.idxOf e'.src = i ∧ topo.idxOf e'.tgt = x := by simpa using hp'
          apply hn'.1
          rw [hinj e (hsub e (by simp)) hp, ← hinj e' (hsub e' (List.mem_cons_of_mem _ he')) hp'']
          exact List.mem_map.mpr ⟨e', he', rfl⟩
        rw [List.filter_cons, if_pos (by simpa using hp), hnone]
        simp
      · rw [List.filter_cons, if_neg (by simpa using hp)]
        exact iht
  exact hle v.g.edges hnd (fun e he => he)

/-- **each pair once**: on a simple DAG the closure pairs and the reduction pairs of the composed run
are duplicate-free -/
theorem end_to_end_nodup (v : View) (topo : List Nat) (h : DagInput v topo) (hs : simpleB v.g = true) :
    (cloPairs topo (modelAnswer v topo)).Nodup ∧ (redPairs topo (modelAnswer v topo)).Nodup := by
  have hrows := rows_spec v topo h
  have hcomp := composed_rows v topo h
  have hnd := reductionClosure_nodup _ hrows.2.1 hrows.2.2 (rows_nodup v topo h hs)
  have hf : ∀ i j, i < topo.length → j < topo.length → unrank topo i = unrank topo j → i = j := by
    intro i j hi hj e
    rw [← idxOf_unrank h.nodup hi, ← idxOf_unrank h.nodup hj, e]
  constructor
  · unfold cloPairs modelAnswer
    simp only
    exact rowPairs_indexed_nodup _ _ topo.length hf (Nat.le_of_eq hcomp.2.1)
      (fun i x hx => ((hcomp.2.2.1 i x).mp hx).2.1) (fun i => (hnd i).2)
  · unfold redPairs modelAnswer
    simp only
    exact rowPairs_indexed_nodup _ _ topo.length hf (Nat.le_of_eq hcomp.1)
      (fun i x hx => ((hcomp.2.2.2 i x).mp hx).2.1) (fun i => (hnd i).1)

end PetgraphModel.C20.Tred
