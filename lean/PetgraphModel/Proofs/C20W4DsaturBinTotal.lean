import PetgraphModel.Proofs.C20W4DsaturBin
import PetgraphModel.Proofs.C20W4DsaturBinHeap
/-
C20 (wave 4) — `checkB` never fails on a view that describes its graph: the exact mirror of
`dsatur_coloring` (`DsaturBin.run`, binary heap, the encoding's neighbour order) and the order-abstract
model (`DsaturHeap.dsatur`, list heap, the abstract successor order) driven by the oracle that replays
the mirror's trace run in lockstep.  The states are related by `Rel`: the heaps hold the same entries
(`Perm`), the adjacent-colour sets agree, everything else is equal; the heap invariant (`IsHeap`)
makes the entry popped by the binary heap one the oracle may choose.
-/
namespace PetgraphModel.C20.DsaturBin
open PetgraphModel PetgraphModel.MGraph PetgraphModel.C20
open PetgraphModel.C20.DsaturHeap (Entry keyLe adjOf setInsert)

/-- the lockstep relation between the exact mirror's state and the order-abstract model's state -/
structure Rel (v : View) (c : St) (a : DsaturHeap.St) : Prop where
  heap : c.heap.Perm a.queue
  isHeap : IsHeap c.heap
  colored : c.colored = a.colored
  seen : c.seen = a.seen
  maxColor : c.maxColor = a.maxColor
  adj : ∀ w, adjOf c.adjCol w = adjOf a.adjCol w
  deg : ∀ w ∈ v.g.nodes, degOf c.degMap w = DsaturHeap.degOf v.g w
  nodesIn : ∀ e ∈ a.queue, e.2.2 ∈ v.g.nodes

theorem rel_visitNbr {v : View} {c : St} {a : DsaturHeap.St} (color nbor : Nat) (h : Rel v c a)
    (hn : nbor ∈ v.g.nodes) :
    Rel v (visitNbr color c nbor) (DsaturHeap.visitNbr v.g color a nbor) := by
  have hx : ((setInsert (adjOf c.adjCol nbor) color).length, degOf c.degMap nbor, nbor) =
      ((setInsert (adjOf a.adjCol nbor) color).length, DsaturHeap.degOf v.g nbor, nbor) := by
    rw [h.adj, h.deg nbor hn]
  refine ⟨?_, ?_, h.colored, h.seen, h.maxColor, ?_, h.deg, ?_⟩
  · show (push c.heap _).Perm (a.queue ++ [_])
    rw [hx]
    exact (push_perm _ _).trans ((h.heap.cons _).trans (List.perm_append_singleton _ _).symm)
  · exact push_heap h.isHeap _
  · intro w
    show adjOf ((nbor, _) :: c.adjCol) w = adjOf ((nbor, _) :: a.adjCol) w
    rw [DsaturHeap.adjOf_cons, DsaturHeap.adjOf_cons, h.adj, h.adj]
  · intro e he
    have he' : e ∈ a.queue ++ [_] := he
    rcases List.mem_append.mp he' with h1 | h1
    · exact h.nodesIn e h1
    · simp only [List.mem_singleton] at h1
      rw [h1]; exact hn

theorem rel_visitNbrs {v : View} (color : Nat) : ∀ (l : List Nat) {c : St} {a : DsaturHeap.St},
    Rel v c a → (∀ n ∈ l, n ∈ v.g.nodes) →
    Rel v (visitNbrs color c l) (DsaturHeap.visitNbrs v.g color a l)
  | [], _, _, h, _ => h
  | n :: l, _, _, h, hl =>
    rel_visitNbrs color l (rel_visitNbr color n h (hl n List.mem_cons_self))
      (fun m hm => hl m (List.mem_cons_of_mem _ hm))

/-- the relation does not see the order in which the abstract model visits the neighbours -/
theorem rel_abs_perm {v : View} {c : St} {a : DsaturHeap.St} (color : Nat) {l₁ l₂ : List Nat}
    (hp : l₁.Perm l₂) (h : Rel v c (DsaturHeap.visitNbrs v.g color a l₁)) :
    Rel v c (DsaturHeap.visitNbrs v.g color a l₂) := by
  obtain ⟨a1, a2, a3, a4, a5⟩ := DsaturHeap.visitNbrs_spec v.g color l₁ a
  obtain ⟨b1, b2, b3, b4, b5⟩ := DsaturHeap.visitNbrs_spec v.g color l₂ a
  have hq : (DsaturHeap.visitNbrs v.g color a l₁).queue.Perm (DsaturHeap.visitNbrs v.g color a l₂).queue := by
    rw [a5, b5]
    exact (hp.map _).append_left _
  refine ⟨h.heap.trans hq, h.isHeap, ?_, ?_, ?_, ?_, h.deg, ?_⟩
  · rw [h.colored, a2, b2]
  · rw [h.seen, a1, b1]
  · rw [h.maxColor, a3, b3]
  · intro w
    rw [h.adj, a4, b4]
    simp only [hp.mem_iff]
  · intro e he
    exact h.nodesIn e (hq.mem_iff.mpr he)

theorem succ_mem_nodes {g : MGraph} (hg : EndpointsOk g) {a b : Nat} (h : b ∈ g.succ a) : b ∈ g.nodes := by
  obtain ⟨e, he, h1 | h1⟩ := MGraph.mem_succ.mp h
  · rw [← h1.2]; exact (hg e he).2
  · rw [← h1.2.1]; exact (hg e he).1

/-- one iteration of the `while` loop keeps the relation: `c` after the pop, `a` after the erase -/
theorem rel_body {v : View} (hg : EndpointsOk v.g)
    (hview : ∀ x ∈ v.g.nodes, (v.succ x).Perm (v.g.succ x))
    {c : St} {a : DsaturHeap.St} (h : Rel v c a) (e : Entry) (hn : e.2.2 ∈ v.g.nodes) :
    Rel v (body v c e) (DsaturHeap.body v.g a e) := by
  unfold body DsaturHeap.body
  simp only [h.seen]
  split
  · exact h
  · have hp := hview e.2.2 hn
    have hsub : ∀ n ∈ v.succ e.2.2, n ∈ v.g.nodes := fun n hm => succ_mem_nodes hg (hp.mem_iff.mp hm)
    rw [h.adj]
    apply rel_abs_perm _ hp
    apply rel_visitNbrs _ _ _ hsub
    exact ⟨h.heap, h.isHeap, by simp [h.colored], by simp, by simp [h.maxColor], h.adj, h.deg, h.nodesIn⟩

/-! ### the trace -/

theorem visitNbrs_trace (color : Nat) : ∀ (l : List Nat) (c : St), (visitNbrs color c l).trace = c.trace
  | [], _ => rfl
  | n :: l, c => by
    show (visitNbrs color (visitNbr color c n) l).trace = c.trace
    rw [visitNbrs_trace color l]; rfl

theorem body_trace (v : View) (c : St) (e : Entry) : (body v c e).trace = c.trace := by
  by_cases hs : e.2.2 ∈ c.seen
  · simp [body, hs]
  · simp only [body, List.contains_iff_mem, hs, if_false]
    rw [visitNbrs_trace]

/-- the entries the loop pops, in order (until the heap is empty or the fuel runs out) -/
def popsOf (v : View) : Nat → St → List Entry
  | 0, _ => []
  | f+1, st =>
    match pop st.heap with
    | none => []
    | some (e, h) => e :: popsOf v f (body v { st with heap := h, trace := e :: st.trace } e)

theorem loop_trace (v : View) : ∀ (f : Nat) (st st' : St), loop v f st = some st' →
    st'.trace.reverse = st.trace.reverse ++ popsOf v f st
  | 0, _, _, h => by simp [loop] at h
  | f+1, st, st', h => by
    cases hp : pop st.heap with
    | none =>
      simp only [loop, hp, Option.some.injEq] at h
      subst h
      simp [popsOf, hp]
    | some r =>
      obtain ⟨e, hh⟩ := r
      simp only [loop, hp] at h
      simp only [popsOf, hp]
      rw [loop_trace v f _ _ h, body_trace]
      simp

theorem loop_mono (v : View) : ∀ (f : Nat) (st st' : St), loop v f st = some st' →
    ∀ k, loop v (f + k) st = some st'
  | 0, _, _, h, _ => by simp [loop] at h
  | f+1, st, st', h, k => by
    have : f + 1 + k = (f + k) + 1 := by omega
    rw [this]
    cases hp : pop st.heap with
    | none =>
      simp only [loop, hp] at h ⊢
      exact h
    | some r =>
      obtain ⟨e, hh⟩ := r
      simp only [loop, hp] at h ⊢
      exact loop_mono v f _ _ h k

/-! ### lockstep -/

theorem getD_append_cons (pre : List Entry) (e : Entry) (rest : List Entry) :
    (pre ++ e :: rest).getD pre.length default = e := by
  simp [List.getD_eq_getElem?_getD]

/-- the order-abstract model driven by the oracle that replays the mirror's pops runs in lockstep with
the mirror -/
theorem lockstep {v : View} (hg : EndpointsOk v.g)
    (hview : ∀ x ∈ v.g.nodes, (v.succ x).Perm (v.g.succ x)) :
    ∀ (f : Nat) (c : St) (a : DsaturHeap.St) (pre : List Entry), Rel v c a →
      ∀ a', DsaturHeap.run v.g (traceOracle (pre ++ popsOf v f c)) f pre.length a = some a' →
      ∃ c', loop v f c = some c' ∧ c'.colored = a'.colored ∧ c'.maxColor = a'.maxColor
  | 0, _, _, _, _, a', h => by simp [DsaturHeap.run] at h
  | f+1, c, a, pre, hr, a', h => by
    unfold DsaturHeap.run at h
    unfold loop
    by_cases hq : a.queue = []
    · have hc : c.heap = [] := by
        have := hr.heap.length_eq
        rw [hq] at this
        exact List.eq_nil_of_length_eq_zero (by simpa using this)
      have hp : pop c.heap = none := pop_none.mpr hc
      simp only [hq, List.isEmpty_nil, if_true, Option.some.injEq] at h
      subst h
      simp only [hp]
      exact ⟨c, rfl, hr.colored, hr.maxColor⟩
    · have hemp : a.queue.isEmpty = false := by simpa using hq
      have hc : c.heap ≠ [] := by
        intro hc
        have := hr.heap.length_eq
        rw [hc] at this
        exact hq (List.eq_nil_of_length_eq_zero (by simpa using this.symm))
      obtain ⟨⟨e, hh⟩, hp⟩ : ∃ r, pop c.heap = some r := by
        cases hpo : pop c.heap with
        | none => exact absurd (pop_none.mp hpo) hc
        | some r => exact ⟨r, rfl⟩
      have hperm := pop_perm hp
      obtain ⟨hheap', hmax⟩ := pop_heap hr.isHeap hp
      have hpops : popsOf v (f + 1) c =
          e :: popsOf v f (body v { c with heap := hh, trace := e :: c.trace } e) := by
        rw [popsOf]; simp only [hp]
      have heq : e ∈ a.queue := hr.heap.mem_iff.mp (hperm.mem_iff.mpr List.mem_cons_self)
      have hall : ∀ x ∈ a.queue, keyLe x e = true := fun x hx => hmax x (hr.heap.mem_iff.mpr hx)
      have hch : (traceOracle (pre ++ popsOf v (f + 1) c)).choose pre.length a.queue = e := by
        simp only [traceOracle, hpops, getD_append_cons]
        have h1 : a.queue.contains e = true := by simpa using heq
        have h2 : (a.queue.all fun x => keyLe x e) = true := List.all_eq_true.mpr hall
        rw [if_pos (by rw [h1, h2]; rfl)]
      simp only [hemp, Bool.false_eq_true, if_false, hch] at h
      simp only [hp]
      have hrel : Rel v { c with heap := hh, trace := e :: c.trace } { a with queue := a.queue.erase e } := by
        refine ⟨?_, hheap', hr.colored, hr.seen, hr.maxColor, hr.adj, hr.deg, ?_⟩
        · have := (hperm.symm.trans hr.heap).erase e
          simpa using this.symm.symm
        · intro x hx
          exact hr.nodesIn x (List.mem_of_mem_erase hx)
      have hrel' := rel_body hg hview hrel e (hr.nodesIn e heq)
      have hpre : pre ++ popsOf v (f + 1) c =
          (pre ++ [e]) ++ popsOf v f (body v { c with heap := hh, trace := e :: c.trace } e) := by
        rw [hpops]; simp
      rw [hpre] at h
      have hlen : pre.length + 1 = (pre ++ [e]).length := by simp
      rw [hlen] at h
      exact lockstep hg hview f _ _ (pre ++ [e]) hrel' a' h

/-! ### the first loop -/

/-- the entry pushed for a node by the first loop -/
def mkInit (v : View) (n : Nat) : Entry := (0, (v.outOf n).length, n)

theorem degOf_cons (m : List (Nat × Nat)) (n d w : Nat) :
    degOf ((n, d) :: m) w = if w = n then d else degOf m w := by
  unfold degOf
  simp only [List.lookup_cons]
  by_cases h : w = n
  · subst h; simp
  · have : (w == n) = false := by simpa using h
    simp [this, h]

theorem initFold (v : View) : ∀ (l : List Nat) (st : St),
    (l.foldl (initStep v) st).heap = l.foldl (fun h n => push h (mkInit v n)) st.heap ∧
    (∀ w, degOf (l.foldl (initStep v) st).degMap w =
      if w ∈ l then (v.outOf w).length else degOf st.degMap w) ∧
    (l.foldl (initStep v) st).colored = st.colored ∧ (l.foldl (initStep v) st).seen = st.seen ∧
    (l.foldl (initStep v) st).maxColor = st.maxColor ∧ (l.foldl (initStep v) st).adjCol = st.adjCol ∧
    (l.foldl (initStep v) st).trace = st.trace
  | [], st => by simp
  | n :: l, st => by
    obtain ⟨h1, h2, h3, h4, h5, h6, h7⟩ := initFold v l (initStep v st n)
    simp only [List.foldl_cons]
    refine ⟨h1, ?_, h3, h4, h5, h6, h7⟩
    intro w
    rw [h2 w]
    have hd : degOf (initStep v st n).degMap w = if w = n then (v.outOf n).length else degOf st.degMap w :=
      degOf_cons _ _ _ _
    rw [hd]
    by_cases hl : w ∈ l
    · simp [hl]
    · by_cases hn : w = n
      · subst hn; simp
      · simp [hl, hn]

theorem rel_init (v : View) (hview : ∀ x ∈ v.g.nodes, (v.succ x).Perm (v.g.succ x)) :
    Rel v (initSt v) (DsaturHeap.init v.g) := by
  obtain ⟨h1, h2, h3, h4, h5, h6, _⟩ := initFold v v.g.nodes {}
  have hlen : ∀ x ∈ v.g.nodes, (v.outOf x).length = DsaturHeap.degOf v.g x := by
    intro x hx
    have := (hview x hx).length_eq
    simp only [View.succ, List.length_map] at this
    simp [DsaturHeap.degOf, hx, this]
  have hmap : v.g.nodes.map (mkInit v) = v.g.nodes.map fun x => (0, DsaturHeap.degOf v.g x, x) := by
    apply List.map_congr_left
    intro x hx
    simp only [mkInit, hlen x hx]
  refine ⟨?_, ?_, ?_, ?_, ?_, ?_, ?_, ?_⟩
  · show (initSt v).heap.Perm (v.g.nodes.map fun x => (0, DsaturHeap.degOf v.g x, x))
    unfold initSt
    rw [h1, ← hmap]
    have := foldl_push_perm (mkInit v) v.g.nodes []
    simp only [List.append_nil] at this
    exact this.trans ((List.reverse_perm _).map _)
  · unfold initSt
    rw [h1]
    exact foldl_push_heap _ _ _ isHeap_nil
  · unfold initSt; rw [h3]; rfl
  · unfold initSt; rw [h4]; rfl
  · unfold initSt; rw [h5]; rfl
  · intro w; unfold initSt; rw [h6]; rfl
  · intro w hw
    unfold initSt
    rw [h2 w]
    simp [hw, hlen w hw]
  · intro e he
    have he' : e ∈ v.g.nodes.map fun x => (0, DsaturHeap.degOf v.g x, x) := he
    obtain ⟨x, hx, rfl⟩ := List.mem_map.mp he'
    exact hx

/-! ### `checkB` never fails -/

/-- **the exact mirror is always an instance of the order-abstract model**: on an undirected graph
without dangling edges and with a duplicate-free node list, for every view whose neighbour lists are
rearrangements of the abstract successor lists (every encoding of the harness), the mirror run
succeeds within its fuel and `checkB` accepts it. -/
theorem checkB_complete (v : View) (hd : v.g.directed = false) (hg : EndpointsOk v.g) (hnd : v.g.nodes.Nodup)
    (hview : ∀ x ∈ v.g.nodes, (v.succ x).Perm (v.g.succ x)) : checkB v = true := by
  obtain ⟨col, k, order, hds, _⟩ :=
    DsaturHeap.dsatur_heap_model v.g hd hg hnd
      (traceOracle (popsOf v (DsaturHeap.fuelBound v.g) (initSt v))) (traceOracle_valid _) _ (Nat.le_refl _)
  have hds' := hds
  unfold DsaturHeap.dsatur at hds'
  cases hrun : DsaturHeap.run v.g (traceOracle (popsOf v (DsaturHeap.fuelBound v.g) (initSt v)))
      (DsaturHeap.fuelBound v.g) 0 (DsaturHeap.init v.g) with
  | none => rw [hrun] at hds'; simp at hds'
  | some a' =>
    rw [hrun] at hds'
    simp only [Option.map_some, Option.some.injEq, Prod.mk.injEq] at hds'
    obtain ⟨c', hloop, hcol, hmax⟩ :=
      lockstep hg hview (DsaturHeap.fuelBound v.g) (initSt v) (DsaturHeap.init v.g) [] (rel_init v hview) a'
        (by simpa using hrun)
    have hloop' := loop_mono v _ _ _ hloop ((v.g.nodes.map fun a => (v.outOf a).length).sum + 1)
    have htr := loop_trace v _ _ _ hloop
    have hit : (initSt v).trace = [] := (initFold v v.g.nodes {}).2.2.2.2.2.2
    rw [hit] at htr
    simp only [List.reverse_nil, List.nil_append] at htr
    have hrunv : run v = some (col, k, popsOf v (DsaturHeap.fuelBound v.g) (initSt v)) := by
      unfold run fuel
      rw [Nat.add_assoc, hloop']
      simp only [Option.map_some, htr, hcol, hmax, hds'.1, hds'.2]
    unfold checkB
    rw [hrunv]
    simp only [hds, decide_true]

/-- the same from the Boolean checks -/
theorem checkB_complete_of_B (v : View) (hh : hypsB v.g = true) (hp : viewPermB v = true) :
    checkB v = true := by
  obtain ⟨hd, hg, hnd⟩ := hypsB_sound v.g hh
  refine checkB_complete v hd hg hnd (fun x hx => ?_)
  simp only [viewPermB, List.all_eq_true] at hp
  exact List.isPerm_iff.mp (hp x hx)

/-- **the exact mirror, unconditionally**: on an undirected graph without dangling edges and with a
duplicate-free node list, for every view whose neighbour lists are rearrangements of the abstract
successor lists, `DsaturBin.run` — the function whose answer the driver compares with /repo exactly —
returns the greedy colouring along a duplicate-free, saturation-respecting order of all nodes; the
judge's clauses hold and `k ≤ 2` on bipartite graphs. -/
theorem run_model (v : View) (hd : v.g.directed = false) (hg : EndpointsOk v.g) (hnd : v.g.nodes.Nodup)
    (hview : ∀ x ∈ v.g.nodes, (v.succ x).Perm (v.g.succ x)) :
    ∃ col k trace order, run v = some (col, k, trace) ∧
      order.Nodup ∧ (∀ x, x ∈ order ↔ x ∈ v.g.nodes) ∧
      col = Dsatur.greedy v.g order ∧ k = Dsatur.count col ∧ DsaturHeap.SatRespecting v.g order ∧
      (v.g.nodes ≠ [] → ColouringOk v.g col k) ∧ (Bipartite v.g → k ≤ 2) :=
  checkB_model v hd hg hnd (checkB_complete v hd hg hnd hview)

/-- the hypotheses are satisfiable by a non-trivial view (a path 1 – 0 – 2 whose encoding lists the
nodes as 2, 0, 1 and the neighbours of 0 newest edge first), and the mirror's answer on it -/
example :
    let g : MGraph := ⟨false, [2, 0, 1], [⟨0, 0, 1, 1⟩, ⟨1, 0, 2, 1⟩]⟩
    let out := [(2, [(0, 1)]), (0, [(2, 1), (1, 0)]), (1, [(0, 0)])]
    let v : View := { g := g, nb := 3, ix := [], out := out, inn := out }
    hypsB g = true ∧ viewPermB v = true ∧ checkB v = true ∧
      (run v).map (fun r => (r.1, r.2.1)) = some ([(1, 1), (2, 1), (0, 0)], 2) := by
  decide

end PetgraphModel.C20.DsaturBin
