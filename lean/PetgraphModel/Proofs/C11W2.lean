import PetgraphModel.Proofs.C11Models
/-
C11, wave 2 — the `prev` matrix of the `floyd_warshall_path` model spells out shortest paths.

Invariant (at the boundaries of the passes of the outer loop, `K` = the intermediate nodes used so
far): for every row `i` and every finite entry `dist[i][j]`, following `prev[i][·]` from `j` leads
back to `i` along arcs `q → x` of the graph that are *good* (`dist[i][q] + w ≤ dist[i][x]`) and whose
tail `q` is `i` itself or a node of `K` (`RD`).  One pass through `k` replaces some entries of row `i`
by the corresponding entries of row `k`; because row `k` is a feasible potential for the arcs with
tail in `K` (`FK`, part of the invariant of `floydWarshall_ok`), an entry that is *not* replaced has
no replaced ancestor, so its chain survives unchanged, and the chain of a replaced entry follows
row `k` up to the first entry that is not replaced.  At the end all rows are exact, hence all good
arcs are tight and the chain costs exactly `dist[i][j]`.
-/
namespace PetgraphModel.C11W2
open PetgraphModel PetgraphModel.MGraph PetgraphModel.Oracle PetgraphModel.DistProofs PetgraphModel.C11P
open PetgraphModel.C11M PetgraphModel.C11MP

/-! ### one step / one pass, on the whole state (`dist` and `prev`) -/

theorem fwStep_char2 (B : Meas) (k i : Nat) (st : FW) (j : Nat) :
    (fwStep B k i st j = st) ∨
    (Dd B st.d i k ≠ B.max ∧ Dd B st.d k j ≠ B.max ∧ (B.oadd (Dd B st.d i k) (Dd B st.d k j)).2 = false ∧
      (B.oadd (Dd B st.d i k) (Dd B st.d k j)).1 < Dd B st.d i j ∧
      (fwStep B k i st j).d = tset st.d (i, j) (B.oadd (Dd B st.d i k) (Dd B st.d k j)).1 ∧
      ∀ a b, tget (fwStep B k i st j).p (a, b) =
        if (a, b) = (i, j) then tget st.p (k, j) else tget st.p (a, b)) := by
  unfold fwStep FW.dist Dd
  by_cases hc : ((((tget st.d (i, k)).getD B.max) == B.max) || (((tget st.d (k, j)).getD B.max) == B.max)) = true
  · left; simp only [hc, if_true]
  · simp only [hc]
    by_cases hc2 : (!(B.oadd ((tget st.d (i, k)).getD B.max) ((tget st.d (k, j)).getD B.max)).2 &&
        decide ((tget st.d (i, j)).getD B.max > (B.oadd ((tget st.d (i, k)).getD B.max) ((tget st.d (k, j)).getD B.max)).1)) = true
    · right
      simp only [hc2, if_true]
      simp only [Bool.or_eq_true, not_or, beq_iff_eq] at hc
      simp only [Bool.and_eq_true, Bool.not_eq_true', decide_eq_true_eq] at hc2
      refine ⟨hc.1, hc.2, hc2.1, hc2.2, by simp, ?_⟩
      intro a b
      cases hp : tget st.p (k, j) with
      | none => simp only [Bool.false_eq_true, if_false, tget_terase]
      | some x => simp only [Bool.false_eq_true, if_false, tget_tset]
    · left; simp only [hc2]; simp

/-- relation between the state at the start of pass `k` and a state later in the same pass -/
structure PassRel2 (B : Meas) (k : Nat) (S T : FW) : Prop where
  base : PassRel B k S.d T.d
  prow : ∀ x, tget T.p (k, x) = tget S.p (k, x)
  pval : ∀ a b, (Dd B T.d a b = Dd B S.d a b ∧ tget T.p (a, b) = tget S.p (a, b)) ∨
    (Dd B S.d a k ≠ B.max ∧ Dd B S.d k b ≠ B.max ∧ Dd B T.d a b = Dd B S.d a k + Dd B S.d k b ∧
      Dd B T.d a b < Dd B S.d a b ∧ tget T.p (a, b) = tget S.p (k, b))

theorem PassRel2.refl {B : Meas} (k : Nat) {S : FW} (h : DBd B S.d) : PassRel2 B k S S :=
  ⟨PassRel.refl k h, fun _ => rfl, fun _ _ => Or.inl ⟨rfl, rfl⟩⟩

theorem fwStep_passRel2 {B : Meas} {k : Nat} {S : FW} (hkk : Dd B S.d k k = 0) (hno : NoOv B k S.d)
    (i : Nat) (st : FW) (j : Nat) (h : PassRel2 B k S st) : PassRel2 B k S (fwStep B k i st j) := by
  have hbase := fwStep_passRel hkk hno i st j h.base
  rcases fwStep_char2 B k i st j with h' | ⟨h1, h2, _, hlt, hd, hp⟩
  · rw [h']; exact h
  · have hs1 := (h.base.stab i).1
    have hs2 := (h.base.stab j).2
    rw [hs1] at h1
    rw [hs2] at h2
    have hov := hno i j h1 h2
    have hex := oadd_exact hov
    rw [hs1, hs2] at hlt hd
    rw [hex] at hlt hd
    have hik : i ≠ k := by
      intro hik; subst hik
      rw [hkk, hs2] at hlt; omega
    refine ⟨hbase, ?_, ?_⟩
    · intro x
      rw [hp]
      have : ¬ ((k, x) = (i, j)) := by
        intro hh; exact hik (by cases hh; rfl)
      rw [if_neg this]
      exact h.prow x
    · intro a b
      by_cases hab : (a, b) = (i, j)
      · right
        have ha : a = i := by cases hab; rfl
        have hb : b = j := by cases hab; rfl
        subst ha; subst hb
        refine ⟨h1, h2, ?_, ?_, ?_⟩
        · rw [hd, Dd_tset]; simp
        · rw [hd, Dd_tset]
          have := h.base.mono a b
          simp only [and_self, if_true]
          omega
        · rw [hp]; simp only [if_true]; exact h.prow b
      · have hab' : ¬ (a = i ∧ b = j) := fun hh => hab (by rw [hh.1, hh.2])
        rw [hp, if_neg hab, hd, Dd_tset, if_neg hab']
        exact h.pval a b

theorem fwPass_passRel2 {B : Meas} {k : Nat} (ord : List Nat) (st : FW) (hbd : DBd B st.d)
    (hkk : Dd B st.d k k = 0) (hno : NoOv B k st.d) : PassRel2 B k st (fwPass B ord k st) := by
  unfold fwPass
  apply foldl_inv (fun T : FW => PassRel2 B k st T) _ _ ord st (PassRel2.refl k hbd)
  intro T i hT
  apply foldl_inv (fun T : FW => PassRel2 B k st T) _ _ ord T hT
  intro T j hT
  exact fwStep_passRel2 hkk hno i T j hT

/-! ### the chains of a row -/

/-- `RD g B K st r x c`: following `prev[r][·]` from `x` leads back to `r` along arcs of the graph of
total cost `c`; every arc `u → x'` on the way is good (`dist[r][u] + w ≤ dist[r][x']`, both finite)
and its tail is `r` or a node of `K` -/
inductive RD (g : MGraph) (B : Meas) (K : List Nat) (st : FW) (r : Nat) : Nat → Int → Prop
  | root : RD g B K st r r 0
  | step {u x : Nat} {c w : Int} : RD g B K st r u c → tget st.p (r, x) = some u → x ≠ r →
      (u, x, w) ∈ g.arcs → Dd B st.d r u ≠ B.max → Dd B st.d r x ≠ B.max →
      Dd B st.d r u + w ≤ Dd B st.d r x → (u = r ∨ u ∈ K) → RD g B K st r x (c + w)

theorem RD.walk {g : MGraph} {B : Meas} {K : List Nat} {st : FW} {r x : Nat} {c : Int}
    (h : RD g B K st r x c) : WalkCost g r x c := by
  induction h with
  | root => exact WalkCost.nil _
  | step _ _ _ harc _ _ _ _ ih => exact WalkCost.snoc ih harc

theorem RD.tree {g : MGraph} {B : Meas} {K : List Nat} {st : FW} {r x : Nat} {c : Int}
    (h : RD g B K st r x c) :
    TreeWalk g (fun y => if y == r then none else tget st.p (r, y)) r x c := by
  induction h with
  | root => exact TreeWalk.root
  | step hprev hp hne harc h1 h2 h3 h4 ih =>
    rename_i u' x' c' w'
    refine TreeWalk.step ih ?_ harc
    have : (x' == r) = false := by simpa using hne
    simp only [this]
    exact hp

/-- telescoping the good arcs -/
theorem RD.cost_le {g : MGraph} {B : Meas} {K : List Nat} {st : FW} {r x : Nat} {c : Int}
    (h : RD g B K st r x c) : c ≤ Dd B st.d r x - Dd B st.d r r := by
  induction h with
  | root => omega
  | step _ _ _ _ _ _ hle _ ih => omega

/-- every finite entry of every row hangs in the tree of its row -/
def RowInv (g : MGraph) (B : Meas) (K : List Nat) (st : FW) : Prop :=
  ∀ i ∈ g.nodes, ∀ j, Dd B st.d i j ≠ B.max → ∃ c, RD g B K st i j c

/-- **one pass keeps the trees** (in the branch without a negative diagonal entry) -/
theorem pass_tree {B : Meas} {g : MGraph} (hwf : g.WellFormed) {ord : List Nat}
    (hord : ∀ x, x ∈ ord ↔ x ∈ g.nodes) {Wm : Int}
    (hWm : 0 ≤ Wm) (hW : ∀ a b w, (a, b, w) ∈ g.arcs → -Wm ≤ w ∧ w ≤ Wm)
    {k : Nat} (hk : k ∈ ord) {K : List Nat} (S : FW) {u : Int} (hu : 0 ≤ u)
    (hA : FAlways B g S.d) (hG : FGood B g K S.d u)
    (hfit : 2 * u + Wm < B.max ∧ B.min ≤ -(2 * u))
    (hG' : FGood B g (k :: K) (fwPass B ord k S).d (2 * u))
    (hR : RowInv g B K S) : RowInv g B (k :: K) (fwPass B ord k S) := by
  have hkn : k ∈ g.nodes := (hord k).1 hk
  have hkk : Dd B S.d k k = 0 := hG.dg k hkn
  have hno : NoOv B k S.d := by
    intro a b h1 h2
    have := hG.ub a k h1
    have := hG.ub k b h2
    exact oadd_fits (by omega) (by omega)
  have hrel := fwPass_passRel2 ord S hA.bd hkk hno
  have hrelax : ∀ i j, i ∈ g.nodes → j ∈ g.nodes → Dd B S.d i k ≠ B.max → Dd B S.d k j ≠ B.max →
      Dd B (fwPass B ord k S).d i j ≤ Dd B S.d i k + Dd B S.d k j := fun i j hi hj h1 h2 =>
    fwPass_relaxes ord S hA.bd hkk hno ((hord i).2 hi) ((hord j).2 hj) h1 h2
  generalize fwPass B ord k S = T at hrel hrelax hG' ⊢
  -- A: the chain of an entry that is not replaced survives unchanged
  have hAlem : ∀ i ∈ g.nodes, ∀ x c, RD g B K S i x c → Dd B T.d i x = Dd B S.d i x →
      RD g B (k :: K) T i x c := by
    intro i hi x c hrd
    induction hrd with
    | root => intro _; exact RD.root
    | step hprev hp hne harc hfu hfx hle htail ih =>
      rename_i u' x' c' w'
      intro hsame
      have hxn : x' ∈ g.nodes := (arc_nodes hwf harc).2
      have hw := hW u' x' w' harc
      -- the predecessor entry is the old one
      have hpT : tget T.p (i, x') = some u' := by
        rcases hrel.pval i x' with ⟨_, hp'⟩ | ⟨_, _, _, hlt, _⟩
        · rw [hp']; exact hp
        · omega
      -- the ancestor is not replaced either
      have husame : Dd B T.d i u' = Dd B S.d i u' := by
        rcases hrel.pval i u' with ⟨hd', _⟩ | ⟨h1, h2, hval, hlt, _⟩
        · exact hd'
        · exfalso
          rcases htail with hui | huK
          · subst hui
            have := hG.dg u' hi
            have := hG'.dg u' hi
            omega
          · have hfk := hG.fk k hkn u' x' w' harc huK h2
            have hub := hG.ub k u' h2
            have h2' : Dd B S.d k x' ≠ B.max := by omega
            have := hrelax i x' hi hxn h1 h2'
            omega
      refine RD.step (ih husame) hpT hne harc (by rw [husame]; exact hfu) (by rw [hsame]; exact hfx)
        (by rw [husame, hsame]; exact hle) ?_
      rcases htail with h | h
      · exact Or.inl h
      · exact Or.inr (List.mem_cons_of_mem _ h)
  -- B: the chain of a replaced entry follows row `k` up to the first entry that is not replaced
  have hBlem : ∀ i ∈ g.nodes, Dd B S.d i k ≠ B.max → ∀ x c, RD g B K S k x c →
      ∃ c', RD g B (k :: K) T i x c' := by
    intro i hi hik x c hrd
    have hubik := hG.ub i k hik
    induction hrd with
    | root =>
      obtain ⟨c0, hc0⟩ := hR i hi k hik
      exact ⟨c0, hAlem i hi k c0 hc0 (hrel.base.stab i).1⟩
    | step hprev hp hne harc hfu hfx hle htail ih =>
      rename_i u' x' c' w'
      obtain ⟨cu, hcu⟩ := ih
      have hxn : x' ∈ g.nodes := (arc_nodes hwf harc).2
      have hun : u' ∈ g.nodes := (arc_nodes hwf harc).1
      have hubx := hG.ub k x' hfx
      have hubu := hG.ub k u' hfu
      by_cases hxi : x' = i
      · subst hxi; exact ⟨0, RD.root⟩
      · have hrx := hrelax i x' hi hxn hik hfx
        have hru := hrelax i u' hi hun hik hfu
        rcases hrel.pval i x' with ⟨hd', _⟩ | ⟨_, _, hval, _, hp'⟩
        · -- not replaced: the old chain of row `i`
          have hfin : Dd B S.d i x' ≠ B.max := by omega
          obtain ⟨c0, hc0⟩ := hR i hi x' hfin
          exact ⟨c0, hAlem i hi x' c0 hc0 hd'⟩
        · refine ⟨cu + w', RD.step hcu (by rw [hp']; exact hp) hxi harc (by omega) (by omega) (by omega) ?_⟩
          rcases htail with h | h
          · exact Or.inr (by rw [h]; exact List.mem_cons_self ..)
          · exact Or.inr (List.mem_cons_of_mem _ h)
  intro i hi j hfin
  rcases hrel.pval i j with ⟨hd', _⟩ | ⟨h1, h2, _, _, _⟩
  · obtain ⟨c0, hc0⟩ := hR i hi j (by rw [← hd']; exact hfin)
    exact ⟨c0, hAlem i hi j c0 hc0 hd'⟩
  · obtain ⟨c0, hc0⟩ := hR k hkn j h2
    exact hBlem i hi h1 j c0 hc0

/-! ### the initialisation -/

/-- before the main loops every off-diagonal entry is an arc, and its predecessor is its row -/
def InitP (g : MGraph) (st : FW) : Prop :=
  ∀ a b y, tget st.d (a, b) = some y → a ≠ b → tget st.p (a, b) = some a ∧ (a, b, y) ∈ g.arcs

theorem fwInitEdge_initP {B : Meas} {g : MGraph} (st : FW) (e : Edge) (he : e ∈ g.edges)
    (h : InitP g st) : InitP g (fwInitEdge B g.directed st e) := by
  unfold fwInitEdge
  have harc1 : (e.src, e.tgt, e.w) ∈ g.arcs := mem_arcs.mpr ⟨e, he, rfl, Or.inl ⟨rfl, rfl⟩⟩
  split
  · split
    · rename_i hd
      have hd : g.directed = false := by simpa using hd
      have harc2 : (e.tgt, e.src, e.w) ∈ g.arcs := mem_arcs.mpr ⟨e, he, rfl, Or.inr ⟨hd, rfl, rfl⟩⟩
      intro a b y hy hne
      simp only [tget_tset] at hy ⊢
      by_cases h1 : (a, b) = (e.tgt, e.src)
      · rw [if_pos h1] at hy ⊢
        rw [Prod.mk.injEq] at h1
        obtain ⟨rfl, rfl⟩ := h1
        cases hy; exact ⟨rfl, harc2⟩
      · rw [if_neg h1] at hy ⊢
        by_cases h2 : (a, b) = (e.src, e.tgt)
        · rw [if_pos h2] at hy ⊢
          rw [Prod.mk.injEq] at h2
          obtain ⟨rfl, rfl⟩ := h2
          cases hy; exact ⟨rfl, harc1⟩
        · rw [if_neg h2] at hy ⊢; exact h a b y hy hne
    · intro a b y hy hne
      simp only [tget_tset] at hy ⊢
      by_cases h2 : (a, b) = (e.src, e.tgt)
      · rw [if_pos h2] at hy ⊢
        rw [Prod.mk.injEq] at h2
        obtain ⟨rfl, rfl⟩ := h2
        cases hy; exact ⟨rfl, harc1⟩
      · rw [if_neg h2] at hy ⊢; exact h a b y hy hne
  · exact h

theorem fwInitEdges_initP {B : Meas} {g : MGraph} :
    ∀ (es : List Edge) (st : FW), (∀ e ∈ es, e ∈ g.edges) → InitP g st →
      InitP g (es.foldl (fwInitEdge B g.directed) st) := by
  intro es
  induction es with
  | nil => intro st _ h; exact h
  | cons e es ih =>
    intro st hes h
    simp only [List.foldl_cons]
    exact ih _ (fun x hx => hes x (List.mem_cons_of_mem _ hx))
      (fwInitEdge_initP st e (hes e (List.mem_cons_self ..)) h)

theorem fwDiag_initP {B : Meas} {g : MGraph} (st : FW) (i : Nat) (h : InitP g st) :
    InitP g (fwDiag B st i) := by
  unfold fwDiag
  split
  · intro a b y hy hne
    simp only [tget_tset] at hy ⊢
    have h1 : ¬ ((a, b) = (i, i)) := by
      intro hh
      rw [Prod.mk.injEq] at hh
      exact hne (hh.1.trans hh.2.symm)
    rw [if_neg h1] at hy ⊢
    exact h a b y hy hne
  · exact h

theorem fwInit_initP (B : Meas) (v : View) : InitP v.g (fwInit B v) := by
  unfold fwInit
  apply foldl_inv (InitP v.g) _ (fun st i hst => fwDiag_initP st i hst)
  apply fwInitEdges_initP _ _ (fun e he => he)
  intro a b y hy
  simp [tget] at hy

/-! ### the outer loop -/

theorem outer_tree {B : Meas} {g : MGraph} (hwf : g.WellFormed) {ord : List Nat}
    (hord : ∀ x, x ∈ ord ↔ x ∈ g.nodes) {Wm : Int}
    (hWm : 0 ≤ Wm) (hW : ∀ a b w, (a, b, w) ∈ g.arcs → -Wm ≤ w ∧ w ≤ Wm) :
    ∀ (l : List Nat) (K : List Nat) (S : FW) (u : Int), (∀ x ∈ l, x ∈ ord) → 0 ≤ u →
      FAlways B g S.d → (FNeg B g S.d ∨ (FGood B g K S.d u ∧ RowInv g B K S)) →
      (dbl l.length u + Wm < B.max ∧ B.min ≤ -(dbl l.length u)) →
      FAlways B g (l.foldl (fun st k => fwPass B ord k st) S).d ∧
      (FNeg B g (l.foldl (fun st k => fwPass B ord k st) S).d ∨
        (FGood B g (l.reverse ++ K) (l.foldl (fun st k => fwPass B ord k st) S).d (dbl l.length u) ∧
          RowInv g B (l.reverse ++ K) (l.foldl (fun st k => fwPass B ord k st) S))) := by
  intro l
  induction l with
  | nil => intro K S u _ _ hA hG _; exact ⟨hA, by simpa [dbl] using hG⟩
  | cons k l ih =>
    intro K S u hl hu hA hG hfit
    simp only [List.foldl_cons, List.length_cons, dbl, List.reverse_cons, List.append_assoc,
      List.singleton_append] at hfit ⊢
    have hk := hl k (List.mem_cons_self ..)
    have hl' : ∀ x ∈ l, x ∈ ord := fun x hx => hl x (List.mem_cons_of_mem _ hx)
    rcases hG with hneg | ⟨hgood, hrow⟩
    · have hmono := fwPass_mono B k ord S
      have hA' : FAlways B g (fwPass B ord k S).d := by
        refine ⟨fwPass_bd B k ord S hA.bd, ?_, ?_⟩
        · intro a b w harc
          have := hA.arc a b w harc
          have := hmono a b
          omega
        · intro i hi
          have := hA.dgle i hi
          have := hmono i i
          omega
      exact ih (k :: K) _ (2 * u) hl' (by omega) hA' (Or.inl (fneg_mono hmono hneg)) hfit
    · have h2u := le_dbl l.length (2 * u) (by omega)
      have hfit' : 2 * u + Wm < B.max ∧ B.min ≤ -(2 * u) := ⟨by omega, by omega⟩
      obtain ⟨hA', hG'⟩ := pass_good hwf hord hWm hW hk S hu hA hgood hfit'
      rcases hG' with hneg' | hgood'
      · exact ih (k :: K) _ (2 * u) hl' (by omega) hA' (Or.inl hneg') hfit
      · exact ih (k :: K) _ (2 * u) hl' (by omega) hA'
          (Or.inr ⟨hgood', pass_tree hwf hord hWm hW hk S hu hA hgood hfit' hgood' hrow⟩) hfit

theorem floydWarshall_some {B : Meas} {v : View} {st : FW} (h : floydWarshall B v = some st) :
    st = fwMatrix B v ∧ ¬ FNeg B v.g (fwMatrix B v).d := by
  obtain ⟨hord, _⟩ := ordByIx_spec v
  unfold floydWarshall at h
  simp only at h
  split at h
  · simp at h
  · rename_i hany
    cases h
    change ¬ ((ordByIx v).any (fun i => decide ((fwMatrix B v).dist B i i < 0)) = true) at hany
    refine ⟨rfl, ?_⟩
    rintro ⟨i, hi, hlt⟩
    apply hany
    simp only [List.any_eq_true, decide_eq_true_eq]
    exact ⟨i, (hord i).2 hi, hlt⟩

/-- **floyd_warshall_path, the predecessor matrix.**  If the model answers `Ok`, then in every row
`i` the entries `prev[i][·]` lead from `i` to every `j` with a finite `dist[i][j]` along arcs of the
graph at exactly that (shortest) distance — under the width hypothesis of `floydWarshall_ok`. -/
theorem floydWarshall_prev (B : Meas) (v : View) (hwf : v.g.WellFormed) (Wm : Int) (hWm : 0 ≤ Wm)
    (hW : ∀ e ∈ v.g.edges, -Wm ≤ e.w ∧ e.w ≤ Wm)
    (hfit : dbl v.g.nodes.length Wm + Wm < B.max ∧ B.min ≤ -(dbl v.g.nodes.length Wm))
    (st : FW) (h : floydWarshall B v = some st) :
    ∀ i ∈ v.g.nodes, ∀ j y, tget st.d (i, j) = some y →
      TreeWalk v.g (fun x => if x == i then none else tget st.p (i, x)) i j y := by
  have hok := floydWarshall_ok B v hwf Wm hWm hW hfit st h
  obtain ⟨hst, hnoneg⟩ := floydWarshall_some h
  subst hst
  obtain ⟨hord, hlen⟩ := ordByIx_spec v
  have hmaxpos : 0 < B.max := by have := le_dbl v.g.nodes.length Wm hWm; omega
  have hWarc : ∀ a b w, (a, b, w) ∈ v.g.arcs → -Wm ≤ w ∧ w ≤ Wm := by
    intro a b w harc
    obtain ⟨e, he, hw, _⟩ := mem_arcs.mp harc
    rw [← hw]; exact hW e he
  -- the initial matrix (as in `floydWarshall_ok`)
  have hI0 : InitInv B v.g.directed Wm ({} : FW).d := by
    refine ⟨?_, ?_, fun _ => ?_⟩
    · intro a b y hy; simp [tget] at hy
    · intro a b hne; simp [Dd, tget] at hne
    · intro a b; simp [Dd, tget]
  obtain ⟨hI1, _, hrelax⟩ := fwInit_inv (B := B) (dir := v.g.directed) v.g.edges {} hW hI0
  obtain ⟨⟨hbd2, hub2⟩, hm2, hdiag⟩ := fwDiags_inv (B := B) hWm v.g.nodes
    (v.g.edges.foldl (fwInitEdge B v.g.directed) {}) ⟨hI1.bd, hI1.ub⟩
  have hA0 : FAlways B v.g (fwInit B v).d := by
    refine ⟨hbd2, ?_, hdiag⟩
    intro a b w harc
    obtain ⟨e, he, hw, hor⟩ := mem_arcs.mp harc
    have hr := hrelax e he
    have := hm2 a b
    rcases hor with ⟨h1, h2⟩ | ⟨hd, h1, h2⟩
    · rw [← h1, ← h2, ← hw]
      have := hm2 e.src e.tgt
      show Dd B (fwInit B v).d e.src e.tgt ≤ e.w
      unfold fwInit
      omega
    · rw [← h1, ← h2, ← hw]
      have := hm2 e.tgt e.src
      have := hr.2 hd
      show Dd B (fwInit B v).d e.tgt e.src ≤ e.w
      unfold fwInit
      omega
  have hP0 := fwInit_initP B v
  have hG0 : FNeg B v.g (fwInit B v).d ∨
      (FGood B v.g [] (fwInit B v).d Wm ∧ RowInv v.g B [] (fwInit B v)) := by
    by_cases hneg : FNeg B v.g (fwInit B v).d
    · exact Or.inl hneg
    · right
      have hdg : ∀ i ∈ v.g.nodes, Dd B (fwInit B v).d i i = 0 := by
        intro i hi
        have h1 := hA0.dgle i hi
        have h2 : ¬ Dd B (fwInit B v).d i i < 0 := fun hh => hneg ⟨i, hi, hh⟩
        omega
      refine ⟨⟨hdg, hub2, ?_⟩, ?_⟩
      · intro i _ u j w _ hu; cases hu
      · intro i hi j hfin
        by_cases hji : j = i
        · subst hji; exact ⟨0, RD.root⟩
        · have hsome := Dd_some hA0.bd hfin
          obtain ⟨hp, harc⟩ := hP0 i j _ hsome (fun hh => hji hh.symm)
          have h0 := hdg i hi
          exact ⟨0 + Dd B (fwInit B v).d i j,
            RD.step RD.root hp hji harc (by omega) hfin (by omega) (Or.inl rfl)⟩
  obtain ⟨hA, hG⟩ := outer_tree hwf hord hWm hWarc (ordByIx v) [] (fwInit B v) Wm (fun x hx => hx) hWm hA0 hG0
    (by rw [hlen]; exact hfit)
  rw [← fwMatrix_eq] at hA hG
  rcases hG with hneg | ⟨hgood, hrow⟩
  · exact absurd hneg hnoneg
  · intro i hi j y hy
    have hylt := hA.bd i j y hy
    have hD : Dd B (fwMatrix B v).d i j = y := by simp [Dd, hy]
    obtain ⟨c, hc⟩ := hrow i hi j (by omega)
    have hle := hc.cost_le
    have h0 := hgood.dg i hi
    have hsh := ((hok i hi).1 j y hy).2 c hc.walk
    have hcy : c = y := by omega
    subst hcy
    exact hc.tree

/-! ### `prev` has an entry only where `dist` has one; the entry is the tail of a tight arc -/

/-- a stored predecessor belongs to a stored distance -/
def PSome (st : FW) : Prop := ∀ a b q, tget st.p (a, b) = some q → ∃ y, tget st.d (a, b) = some y

theorem fwInitEdge_psome (B : Meas) (dir : Bool) (st : FW) (e : Edge) (h : PSome st) :
    PSome (fwInitEdge B dir st e) := by
  unfold fwInitEdge
  split
  · split
    · intro a b q hq
      simp only [tget_tset] at hq ⊢
      by_cases h1 : (a, b) = (e.tgt, e.src)
      · rw [if_pos h1]; exact ⟨_, rfl⟩
      · rw [if_neg h1] at hq ⊢
        by_cases h2 : (a, b) = (e.src, e.tgt)
        · rw [if_pos h2]; exact ⟨_, rfl⟩
        · rw [if_neg h2] at hq ⊢; exact h a b q hq
    · intro a b q hq
      simp only [tget_tset] at hq ⊢
      by_cases h2 : (a, b) = (e.src, e.tgt)
      · rw [if_pos h2]; exact ⟨_, rfl⟩
      · rw [if_neg h2] at hq ⊢; exact h a b q hq
  · exact h

theorem fwDiag_psome (B : Meas) (st : FW) (i : Nat) (h : PSome st) : PSome (fwDiag B st i) := by
  unfold fwDiag
  split
  · intro a b q hq
    simp only [tget_tset] at hq ⊢
    by_cases h1 : (a, b) = (i, i)
    · rw [if_pos h1]; exact ⟨_, rfl⟩
    · rw [if_neg h1] at hq ⊢; exact h a b q hq
  · exact h

theorem fwStep_psome (B : Meas) (k i : Nat) (st : FW) (j : Nat) (h : PSome st) :
    PSome (fwStep B k i st j) := by
  rcases fwStep_char2 B k i st j with h' | ⟨_, _, _, _, hd, hp⟩
  · rw [h']; exact h
  · intro a b q hq
    rw [hp] at hq
    rw [hd, tget_tset]
    by_cases h1 : (a, b) = (i, j)
    · rw [if_pos h1]; exact ⟨_, rfl⟩
    · rw [if_neg h1] at hq ⊢; exact h a b q hq

theorem fwMatrix_psome (B : Meas) (v : View) : PSome (fwMatrix B v) := by
  unfold fwMatrix
  apply foldl_inv PSome _ _ (ordByIx v)
  · apply foldl_inv PSome _ (fun st i hst => fwDiag_psome B st i hst)
    apply foldl_inv PSome _ (fun st e hst => fwInitEdge_psome B v.g.directed st e hst)
    intro a b q hq
    simp [tget] at hq
  · intro st k hst
    apply foldl_inv PSome _ _ (ordByIx v) st hst
    intro st i hst
    apply foldl_inv PSome _ _ (ordByIx v) st hst
    intro st j hst
    exact fwStep_psome B k i st j hst

/-- **`prev[i][j]` is the penultimate node of a shortest walk from `i` to `j`**, and there is no
entry exactly for the pairs without a walk (off the diagonal). -/
theorem floydWarshall_prev_arc (B : Meas) (v : View) (hwf : v.g.WellFormed) (Wm : Int) (hWm : 0 ≤ Wm)
    (hW : ∀ e ∈ v.g.edges, -Wm ≤ e.w ∧ e.w ≤ Wm)
    (hfit : dbl v.g.nodes.length Wm + Wm < B.max ∧ B.min ≤ -(dbl v.g.nodes.length Wm))
    (st : FW) (h : floydWarshall B v = some st) :
    ∀ i ∈ v.g.nodes, ∀ j, j ≠ i →
      (tget st.p (i, j) = none ↔ ¬ ∃ c, WalkCost v.g i j c) ∧
      (∀ q, tget st.p (i, j) = some q →
        ∃ a w, IsShortest v.g i q a ∧ tget st.d (i, q) = some a ∧ (q, j, w) ∈ v.g.arcs ∧
          tget st.d (i, j) = some (a + w) ∧ IsShortest v.g i j (a + w)) := by
  have hok := floydWarshall_ok B v hwf Wm hWm hW hfit st h
  have htree := floydWarshall_prev B v hwf Wm hWm hW hfit st h
  have hps : PSome st := by
    obtain ⟨hst, _⟩ := floydWarshall_some h
    rw [hst]; exact fwMatrix_psome B v
  intro i hi j hji
  have hji' : (j == i) = false := by simpa using hji
  obtain ⟨hex, hinf, _⟩ := hok i hi
  -- a stored distance has a stored predecessor, which is the tail of a tight arc
  have key : ∀ y, tget st.d (i, j) = some y →
      ∃ q a w, tget st.p (i, j) = some q ∧ IsShortest v.g i q a ∧ tget st.d (i, q) = some a ∧
        (q, j, w) ∈ v.g.arcs ∧ y = a + w := by
    intro y hy
    have htw := htree i hi j y hy
    cases htw with
    | root => exact absurd rfl hji
    | step hprev hp harc =>
      rename_i u c w
      simp only [hji'] at hp
      have hwalk := hprev.walk
      cases hdu : tget st.d (i, u) with
      | none => exact absurd ⟨c, hwalk⟩ ((hinf u).1 hdu)
      | some a =>
        have hsa := hex u a hdu
        have h1 := hsa.2 c hwalk
        have h2 := (hex j _ hy).2 (a + w) (WalkCost.snoc hsa.1 harc)
        have hac : a = c := by omega
        subst hac
        exact ⟨u, a, w, hp, hsa, hdu, harc, rfl⟩
  constructor
  · constructor
    · intro hn
      apply (hinf j).1
      cases hd : tget st.d (i, j) with
      | none => rfl
      | some y =>
        obtain ⟨q, _, _, hq, _⟩ := key y hd
        rw [hn] at hq; cases hq
    · intro hno
      have hd := (hinf j).2 hno
      cases hq : tget st.p (i, j) with
      | none => rfl
      | some q =>
        obtain ⟨y, hy⟩ := hps i j q hq
        rw [hd] at hy; cases hy
  · intro q hq
    obtain ⟨y, hy⟩ := hps i j q hq
    obtain ⟨q', a, w, hq', hsa, hda, harc, hyw⟩ := key y hy
    rw [hq] at hq'; cases hq'
    subst hyw
    exact ⟨a, w, hsa, hda, harc, hy, hex j _ hy⟩

end PetgraphModel.C11W2
