import PetgraphModel.Proofs.CsrRep
set_option linter.style.nameCheck false
namespace PetgraphModel.CsrProofs
open PetgraphModel.CsrM

def bump (s : State) : State := { s with edgeCount := s.edgeCount + 1 }

/-- `try_add_edge` with its boolean conditions resolved -/
theorem tryAddEdge_unfold (s : State) (a b : Nat) (w : Int) :
    tryAddEdge s a b w =
      match addEdge_ s a b w with
      | none => none
      | some (s1, .error e) => some (s1, .error e)
      | some (s1, .ok false) => some (s1, .ok false)
      | some (s1, .ok true) =>
        if s1.directed = true then some (s1, .ok true)
        else if a = b then some (bump s1, .ok true)
        else match addEdge_ (bump s1) b a w with
          | none => none
          | some (s3, .error e) => some (s3, .error e)
          | some (s3, .ok ret2) => if s.debug = true ∧ ret2 = false then none else some (s3, .ok true) := by
  unfold tryAddEdge
  cases h : addEdge_ s a b w with
  | none => rfl
  | some p =>
    obtain ⟨s1, r⟩ := p
    cases r with
    | error e => rfl
    | ok ret =>
      cases ret with
      | false => simp
      | true =>
        cases hd : s1.directed with
        | true => simp [hd]
        | false =>
          by_cases hab : a = b
          · subst hab; simp [hd, bump]
          · simp only [hd, Bool.not_false, Bool.and_true, if_true, Bool.false_eq_true, if_false, hab, bump]
            have hne : (a != b) = true := by simp [hab]
            simp only [hne]
            cases addEdge_ _ b a w with
            | none => rfl
            | some q =>
              obtain ⟨s3, r3⟩ := q
              cases r3 with
              | error e => rfl
              | ok ret2 => cases ret2 <;> cases s.debug <;> simp

/-- the abstract edge map of a list of rows -/
def look (R : List Row) (a b : Nat) : Option Int :=
  match R[a]? with
  | some r => lookupRow b r
  | none => none

theorem look_of_lt (R : List Row) (a b : Nat) (ha : a < R.length) : look R a b = lookupRow b R[a] := by
  simp [look, List.getElem?_eq_getElem ha]

theorem look_of_ge (R : List Row) (a b : Nat) (ha : R.length ≤ a) : look R a b = none := by
  simp [look, List.getElem?_eq_none ha]

theorem look_none_iff (R : List Row) (a b : Nat) (ha : a < R.length) : look R a b = none ↔ b ∉ keys R[a] := by
  rw [look_of_lt R a b ha, lookupRow_none_iff]

theorem RowsOK.look_oob {R : List Row} (ok : RowsOK R) (a b : Nat) (hb : R.length ≤ b) : look R a b = none := by
  by_cases ha : a < R.length
  · rw [look_none_iff R a b ha]
    intro hm
    have := (ok _ (List.getElem_mem ha)).2 b hm
    omega
  · exact look_of_ge R a b (by omega)

theorem look_insAt (R : List Row) (a b : Nat) (w : Int) (ha : a < R.length) (x y : Nat) :
    look (insAt R a b w) x y = if x = a ∧ y = b then some w else look R x y := by
  by_cases hx : x < R.length
  · rw [look_of_lt _ x y (by rw [insAt_length]; exact hx), insAt_getElem R a b w x hx, look_of_lt R x y hx]
    by_cases hxa : x = a
    · subst hxa
      simp only [if_true, lookupRow_insRow, true_and]
    · simp [hxa]
  · rw [look_of_ge _ x y (by rw [insAt_length]; omega), look_of_ge R x y (by omega)]
    have : ¬ x = a := by omega
    simp [this]

/-- undirected: the edge map is symmetric -/
def Sym (R : List Row) : Prop := ∀ x y, look R x y = look R y x

/-- the representation invariant of `Csr` -/
structure Good (s : State) (R : List Row) : Prop where
  rep : Rep s R
  ok : RowsOK R
  sym : s.directed = false → Sym R
  dcount : s.directed = true → s.edgeCount = 0

/-- the parameters of a `Csr` value that no operation changes -/
def SameParams (s' s : State) : Prop :=
  s'.directed = s.directed ∧ s'.modulus = s.modulus ∧ s'.cutoff = s.cutoff ∧ s'.debug = s.debug

theorem SameParams.refl (s : State) : SameParams s s := ⟨rfl, rfl, rfl, rfl⟩

theorem Good.tryAddEdge_oob {s : State} {R : List Row} (g : Good s R) (a b : Nat) (w : Int)
    (h : ¬ (a < R.length ∧ b < R.length)) : tryAddEdge s a b w = some (s, .error (a, b)) := by
  rw [tryAddEdge_unfold, addEdge__oob s a b w (by rw [g.rep.nodeCount]; exact h)]

theorem Good.tryAddEdge_present {s : State} {R : List Row} (g : Good s R) (a b : Nat) (w : Int)
    (ha : a < R.length) (hb : b < R.length) (h : look R a b ≠ none) :
    tryAddEdge s a b w = some (s, .ok false) := by
  have hin : b ∈ keys R[a] := by
    by_contra hc; exact h ((look_none_iff R a b ha).mpr hc)
  rw [tryAddEdge_unfold, g.rep.addEdge__present g.ok a b w ha hb hin]

theorem bump_rep {s : State} {R : List Row} (h : Rep s R) : Rep (bump s) R := ⟨h.col, h.wts, h.row, h.nw⟩

theorem Good.tryAddEdge_absent {s : State} {R : List Row} (g : Good s R) (a b : Nat) (w : Int)
    (ha : a < R.length) (hb : b < R.length) (h : look R a b = none) :
    ∃ s' R', tryAddEdge s a b w = some (s', .ok true) ∧ Good s' R' ∧ SameParams s' s ∧
      s'.nodeWeights = s.nodeWeights ∧ R'.length = R.length ∧ s'.edgeCountQ = s.edgeCountQ + 1 ∧
      ∀ x y, look R' x y =
        if (x = a ∧ y = b) ∨ (s.directed = false ∧ x = b ∧ y = a) then some w else look R x y := by
  have hin : b ∉ keys R[a] := (look_none_iff R a b ha).mp h
  obtain ⟨s1, e1, rep1, hd1, hm1, hc1, hdb1, hnw1, hec1, hcl1⟩ := g.rep.addEdge__absent g.ok a b w ha hb hin
  have ok1 : RowsOK (insAt R a b w) := g.ok.insAt a b w ha hb hin
  rw [tryAddEdge_unfold, e1]
  by_cases hdir : s.directed = true
  · -- Directed: one insertion
    have hd1' : s1.directed = true := by rw [hd1]; exact hdir
    simp only [hd1', if_true]
    refine ⟨s1, insAt R a b w, rfl, ⟨rep1, ok1, ?_, ?_⟩, ⟨hd1, hm1, hc1, hdb1⟩, hnw1, insAt_length .., ?_, ?_⟩
    · intro hc; rw [hd1'] at hc; cases hc
    · intro _; rw [hec1]; exact g.dcount hdir
    · simp [State.edgeCountQ, hd1', hdir, hcl1]
    · intro x y; rw [look_insAt R a b w ha]; simp [hdir]
  · have hdir' : s.directed = false := by cases hh : s.directed <;> simp_all
    have hd1' : s1.directed = false := by rw [hd1]; exact hdir'
    have symR := g.sym hdir'
    simp only [hd1', Bool.false_eq_true, if_false]
    by_cases hab : a = b
    · -- self loop: one insertion, counted once
      subst hab
      simp only [if_true]
      refine ⟨bump s1, insAt R a a w, rfl, ⟨bump_rep rep1, ok1, ?_, ?_⟩,
        ⟨hd1, hm1, hc1, hdb1⟩, hnw1, insAt_length .., ?_, ?_⟩
      · intro _ x y
        rw [look_insAt R a a w ha, look_insAt R a a w ha, symR x y]
        by_cases h1 : x = a ∧ y = a
        · simp [h1]
        · have h2 : ¬ (y = a ∧ x = a) := fun hh => h1 ⟨hh.2, hh.1⟩
          simp [h1, h2]
      · intro hc; have : (bump s1).directed = s1.directed := rfl
        rw [this, hd1'] at hc; cases hc
      · simp [State.edgeCountQ, hdir', bump, hec1, hd1']
      · intro x y; rw [look_insAt R a a w ha]
        by_cases h1 : x = a ∧ y = a <;> simp [h1, hdir']
    · -- a ≠ b: mirrored insertion into row b
      simp only [hab, if_false]
      have rep2 : Rep (bump s1) (insAt R a b w) := bump_rep rep1
      have hb1 : b < (insAt R a b w).length := by rw [insAt_length]; exact hb
      have ha1 : a < (insAt R a b w).length := by rw [insAt_length]; exact ha
      have hin2 : a ∉ keys (insAt R a b w)[b] := by
        rw [← look_none_iff _ b a hb1, look_insAt R a b w ha]
        have : ¬ (b = a ∧ a = b) := fun hh => hab hh.2
        simp only [this, if_false]
        rw [← symR a b]; exact h
      obtain ⟨s3, e3, rep3, hd3, hm3, hc3, hdb3, hnw3, hec3, hcl3⟩ := rep2.addEdge__absent ok1 b a w hb1 ha1 hin2
      have ok3 := ok1.insAt b a w hb1 ha1 hin2
      rw [e3]
      have hlook : ∀ x y, look (insAt (insAt R a b w) b a w) x y =
          if (x = a ∧ y = b) ∨ (x = b ∧ y = a) then some w else look R x y := by
        intro x y
        rw [look_insAt _ b a w hb1, look_insAt R a b w ha]
        by_cases h1 : x = b ∧ y = a
        · simp [h1]
        · by_cases h2 : x = a ∧ y = b <;> simp [h1, h2]
      have hd3' : s3.directed = false := by rw [hd3]; exact hd1'
      refine ⟨s3, insAt (insAt R a b w) b a w, by simp, ⟨rep3, ok3, ?_, ?_⟩, ?_, ?_, ?_, ?_, ?_⟩
      · intro _ x y
        rw [hlook, hlook, symR x y]
        by_cases h1 : (x = a ∧ y = b) ∨ (x = b ∧ y = a)
        · have h2 : (y = a ∧ x = b) ∨ (y = b ∧ x = a) := by
            rcases h1 with h1 | h1
            · exact Or.inr ⟨h1.2, h1.1⟩
            · exact Or.inl ⟨h1.2, h1.1⟩
          simp [h1, h2]
        · have h2 : ¬ ((y = a ∧ x = b) ∨ (y = b ∧ x = a)) := by
            intro hh; apply h1
            rcases hh with hh | hh
            · exact Or.inr ⟨hh.2, hh.1⟩
            · exact Or.inl ⟨hh.2, hh.1⟩
          simp [h1, h2]
      · intro hc; rw [hd3'] at hc; cases hc
      · exact ⟨by rw [hd3]; exact hd1, by rw [hm3]; exact hm1, by rw [hc3]; exact hc1, by rw [hdb3]; exact hdb1⟩
      · rw [hnw3]; exact hnw1
      · rw [insAt_length, insAt_length]
      · simp [State.edgeCountQ, hd3', hdir', hec3, bump, hec1]
      · intro x y; rw [hlook]; simp [hdir']

end PetgraphModel.CsrProofs
