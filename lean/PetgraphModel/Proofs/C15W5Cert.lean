import PetgraphModel.Proofs.C15W5Search
import PetgraphModel.Proofs.C15W5Barrier
/-
C15 wave 5 — a search that ends without an augmentation certifies that its start vertex cannot be
matched additionally: the outer vertices `S`, split into blocks by their `first_inner` entry, and the
non-outer vertices `T` whose mate is outer form a Tutte–Berge barrier for the start vertex (the block
of the dummy entry and the block of every vertex of `T` are odd, all neighbours of `S` are in the
same block or in `T`), so every matching misses a vertex of `S` (`odd_blocks_miss`).
-/
namespace PetgraphModel.C15W5
open PetgraphModel PetgraphModel.C15 PetgraphModel.C15M PetgraphModel.C15P PetgraphModel.C15W2

/-- a duplicate-free list consisting of a base element and a part closed under a fixed-point-free
involution has odd length -/
theorem odd_of_involution_base (f : Nat → Nat) (l : List Nat) (hl : l.Nodup) (base : Nat) (hb : base ∈ l)
    (h : ∀ a ∈ l, a ≠ base → f a ∈ l ∧ f a ≠ base ∧ f a ≠ a ∧ f (f a) = a) : l.length % 2 = 1 := by
  have hlen : (l.erase base).length = l.length - 1 := List.length_erase_of_mem hb
  have hpos : 0 < l.length := List.length_pos_of_mem hb
  have hev := even_of_involution f (l.erase base).length (l.erase base) rfl (hl.erase base) (by
    intro a ha
    obtain ⟨hne, hal⟩ := (hl.mem_erase_iff).mp ha
    obtain ⟨h1, h2, h3, h4⟩ := h a hal hne
    exact ⟨(hl.mem_erase_iff).mpr ⟨h2, h1⟩, h3, h4⟩)
  omega

section
variable {c : Ctx}

/-- **a failed search is a certificate**: no matching covers the start vertex together with every
vertex the current matching covers -/
theorem failed_noExt (hv : VHyp c.v c.mode) (hcomp : VComp c.v) {n0 : Nat} (hm : MateInv c.v c.m0 n0)
    (st : SSt) (hF : Failed c n0 st) (hsv : c.sv ∈ c.v.g.nodes) (N : List (Nat × Nat))
    (hN : IsMatching c.v.g N) (hcov : ∀ a ∈ c.v.g.nodes, (c.μ a).isSome = true → Covered N a) :
    ¬ Covered N c.sv := by
  intro hsvcov
  obtain ⟨_, _, ⟨P, ord, I⟩, hX⟩ := hF
  obtain ⟨Sc, hC, hall⟩ := hX hsv
  -- abbreviations
  let out : Nat → Bool := fun a => outerAt c st.1 a
  let tB : Nat → Bool := fun b => !out b && (match c.μ b with | some z => out z | none => false)
  have htB : ∀ b, tB b = true ↔ outerAt c st.1 b = false ∧ ∃ z, c.μ b = some z ∧ outerAt c st.1 z = true := by
    intro b
    simp only [tB, out, Bool.and_eq_true, Bool.not_eq_true']
    cases hμ : c.μ b with
    | none => simp
    | some z => simp
  have hsvo : outerAt c st.1 c.sv = true := (I.abs.svFree hsv).1
  have hsvfree : c.μ c.sv = none := (I.abs.svFree hsv).2
  have hidx_inj : ∀ a ∈ c.v.g.nodes, ∀ b ∈ c.v.g.nodes, c.v.toIndex a = c.v.toIndex b → a = b := hv.ix.inj
  have hmemS : ∀ a, a ∈ c.v.g.nodes.filter out ↔ a ∈ c.v.g.nodes ∧ outerAt c st.1 a = true := by
    intro a; simp [out, List.mem_filter]
  have hmemB : ∀ i a, a ∈ (c.v.g.nodes.filter out).filter (fun x => Fn c st.1 x == i) ↔
      a ∈ c.v.g.nodes ∧ outerAt c st.1 a = true ∧ Fn c st.1 a = i := by
    intro i a
    rw [List.mem_filter, hmemS]
    simp [and_assoc]
  have hSnd : (c.v.g.nodes.filter out).Nodup := hv.nodup.filter _
  have hTnd : (c.v.g.nodes.filter tB).Nodup := hv.nodup.filter _
  -- the mate function
  let f : Nat → Nat := fun a => (c.μ a).getD 0
  -- the block of a vertex of `T` is odd
  have hoddT : ∀ t ∈ c.v.g.nodes, tB t = true →
      ((c.v.g.nodes.filter out).filter (fun x => Fn c st.1 x == c.v.toIndex t)).length % 2 = 1 := by
    intro t ht htT
    obtain ⟨hot, z, hμt, hoz⟩ := (htB t).mp htT
    have hzn : z ∈ c.v.g.nodes := hm.mate_mem hμt
    have hμz : c.μ z = some t := hm.symm t ht z hμt
    have hFz : Fn c st.1 z = c.v.toIndex t := by
      rcases outer_struct hv I z hzn hoz with ⟨_, _, h3⟩ | ⟨_, u, h1, _, _, _, h5⟩
      · rw [hμz] at h3; cases h3
      · rw [hμz] at h1
        have : t = u := Option.some.inj h1
        subst this
        exact h5 hot
    apply odd_of_involution_base f _ (hSnd.filter _) z ((hmemB _ z).mpr ⟨hzn, hoz, hFz⟩)
    intro a ha haz
    obtain ⟨han, hoa, hFa⟩ := (hmemB _ a).mp ha
    rcases outer_struct hv I a han hoa with ⟨_, h2, _⟩ | ⟨_, u, h1, h2, hun, h4, h5⟩
    · exfalso
      rw [hFa] at h2
      exact hv.idx_ne_nb ht h2
    · have hfa : f a = u := by simp [f, h1]
      have hfu : f u = a := by simp [f, h2]
      cases hou : outerAt c st.1 u with
      | false =>
        exfalso
        have e : c.v.toIndex u = c.v.toIndex t := (h5 hou).symm.trans hFa
        have : u = t := hidx_inj u hun t ht e
        rw [this, hμt] at h2
        exact haz (Option.some.inj h2).symm
      | true =>
        rw [hfa]
        refine ⟨(hmemB _ u).mpr ⟨hun, hou, (h4 hou).trans hFa⟩, ?_, ?_, hfu⟩
        · intro e
          rw [e, hμz] at h2
          have : t = a := Option.some.inj h2
          rw [← this, hot] at hoa; cases hoa
        · intro e
          rw [e] at h1
          exact (hm.joined a han a h1).1 rfl
  -- the block of the dummy entry is odd
  have hoddD : ((c.v.g.nodes.filter out).filter (fun x => Fn c st.1 x == c.v.nb)).length % 2 = 1 := by
    have hFsv : Fn c st.1 c.sv = c.v.nb := by
      rcases outer_struct hv I c.sv hsv hsvo with ⟨_, h2, _⟩ | ⟨h1, _⟩
      · exact h2
      · exact absurd rfl h1
    apply odd_of_involution_base f _ (hSnd.filter _) c.sv ((hmemB _ c.sv).mpr ⟨hsv, hsvo, hFsv⟩)
    intro a ha hasv
    obtain ⟨han, hoa, hFa⟩ := (hmemB _ a).mp ha
    rcases outer_struct hv I a han hoa with ⟨h1, _, _⟩ | ⟨_, u, h1, h2, hun, h4, h5⟩
    · exact absurd h1 hasv
    · have hfa : f a = u := by simp [f, h1]
      have hfu : f u = a := by simp [f, h2]
      cases hou : outerAt c st.1 u with
      | false =>
        exfalso
        have e : c.v.nb = c.v.toIndex u := hFa.symm.trans (h5 hou)
        exact hv.idx_ne_nb hun e.symm
      | true =>
        rw [hfa]
        refine ⟨(hmemB _ u).mpr ⟨hun, hou, (h4 hou).trans hFa⟩, ?_, ?_, hfu⟩
        · intro e
          rw [e, hsvfree] at h2; cases h2
        · intro e
          rw [e] at h1
          exact (hm.joined a han a h1).1 rfl
  -- the certificate
  have hmiss := odd_blocks_miss c.v.g N hN (c.v.g.nodes.filter out) (c.v.g.nodes.filter tB) hSnd hTnd
    (Fn c st.1)
    (by
      intro a ha b hJ
      obtain ⟨han, hoa⟩ := (hmemS a).mp ha
      obtain ⟨e, he⟩ := hcomp.comp a b hJ
      obtain ⟨_, hbn, _⟩ := hv.out a b e he
      have hne : b ≠ a := fun h => hJ.1 h.symm
      have haSc : a ∈ Sc := hall a han hoa
      cases hob : outerAt c st.1 b with
      | true =>
        left
        exact ⟨(hmemS b).mpr ⟨hbn, hob⟩, (hC.eq a haSc b (hall b hbn hob) e he hne).symm⟩
      | false =>
        right
        obtain ⟨z, hz, hoz⟩ := hC.inner a haSc b e he hne hob
        exact List.mem_filter.mpr ⟨hbn, (htB b).mpr ⟨hob, z, hz, hoz⟩⟩)
    ((c.v.g.nodes.filter tB).map c.v.toIndex ++ [c.v.nb])
    (by
      refine List.nodup_append.mpr ⟨?_, by simp, ?_⟩
      · apply nodup_map_of_inj_on _ _ hTnd
        intro x hx y hy e
        exact hidx_inj x (List.mem_filter.mp hx).1 y (List.mem_filter.mp hy).1 e
      · intro i hi j hj
        simp only [List.mem_singleton] at hj
        subst hj
        obtain ⟨t, ht, e⟩ := List.mem_map.mp hi
        intro e'
        exact hv.idx_ne_nb (List.mem_filter.mp ht).1 (e.trans e'))
    (by
      intro i hi
      rcases List.mem_append.mp hi with hi | hi
      · obtain ⟨t, ht, e⟩ := List.mem_map.mp hi
        rw [← e]
        exact hoddT t (List.mem_filter.mp ht).1 (List.mem_filter.mp ht).2
      · simp only [List.mem_singleton] at hi
        rw [hi]; exact hoddD)
    (by simp)
  obtain ⟨a, ha, hna⟩ := hmiss
  obtain ⟨han, hoa⟩ := (hmemS a).mp ha
  rcases outer_struct hv I a han hoa with ⟨h1, _, _⟩ | ⟨_, u, h1, _⟩
  · rw [h1] at hna; exact hna hsvcov
  · exact hna (hcov a han (by rw [h1]; rfl))

end

end PetgraphModel.C15W5
