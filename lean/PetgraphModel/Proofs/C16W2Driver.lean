import PetgraphModel.Proofs.C16W2Base
import PetgraphModel.Driver.C16
/-
C16, second wave — every view the driver accepts (`Driver/C16.lean`, `viewOkB`) satisfies the extra
hypothesis `SuccBounded` of the full-correctness theorems (on the nodes, which is all that is needed
for a well-formed graph: `succBounded_of_nodes`).
-/
namespace PetgraphModel.C16P
open PetgraphModel MGraph

theorem span_loop_length (p : Nat → Bool) : ∀ (as acc : List Nat),
    (List.span.loop p as acc).1.length + (List.span.loop p as acc).2.length = acc.length + as.length := by
  intro as
  induction as with
  | nil => intro acc; simp [List.span.loop]
  | cons a as ih =>
    intro acc
    simp only [List.span.loop]
    cases p a with
    | true => simp only; rw [ih]; simp; omega
    | false => simp

theorem sortNats_length (l : List Nat) : (sortNats l).length = l.length := by
  have aux : ∀ (l acc : List Nat),
      (l.foldl (fun acc x => let (a, b) := acc.span (· ≤ x); a ++ x :: b) acc).length = acc.length + l.length := by
    intro l
    induction l with
    | nil => intro acc; simp
    | cons x xs ih =>
      intro acc
      simp only [List.foldl_cons, List.length_cons]
      rw [ih]
      have hl := span_loop_length (· ≤ x) acc []
      simp only [List.length_append, List.length_cons, List.span]
      simp only [List.length_nil] at hl
      omega
  unfold sortNats
  rw [aux]; simp

theorem viewOkB_succ_length (v : View) (h : C16.viewOkB v = true) :
    ∀ a, a ∈ v.g.nodes → (v.succ a).length = (v.g.succ a).length := by
  intro a ha
  unfold C16.viewOkB at h
  have := (List.all_eq_true.mp h) a ha
  simp only [Bool.and_eq_true] at this
  have h1 := this.1
  unfold sameSet at h1
  have h2 : sortNats (v.succ a) = sortNats (v.g.succ a) := by simpa using h1
  have := congrArg List.length h2
  rwa [sortNats_length, sortNats_length] at this

end PetgraphModel.C16P
