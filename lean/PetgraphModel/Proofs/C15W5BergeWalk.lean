import PetgraphModel.Proofs.C15W5BergeAug
/-
C15 wave 5 — Berge's theorem, part 3 (hard direction).  Both statements are proved by induction on
the number of pairs of `M`, deleting two nodes of the graph per step:

* `aug_from_of_cover`: if `N` covers everything `M` covers and the `M`-free node `u`, an
  `M`-augmenting path starts at `u` (follow the `N`-pair at `u` to `x₁`; if `x₁` is covered by `M`,
  with mate `x₂`, delete `u`, `x₁` and continue from `x₂`);
* `augPath_of_larger`: if `N` is larger than `M`: either `N` covers everything `M` covers (then the
  pigeonhole step gives a start node for the first statement), or some pair `{y, z}` of `M` has `y`
  free in `N`: delete `y`, `z`; `M` loses one pair and `N` at most one.
Core Lean only.
-/
namespace PetgraphModel.C15W5
open PetgraphModel PetgraphModel.C15

/-- an augmenting path of the smaller graph and a matching that agrees on its nodes -/
theorem augPath_transfer {g g' : MGraph} {M M' : List (Nat × Nat)} {p : List Nat}
    (hg : ∀ a b, Joined g' a b → Joined g a b)
    (hI : ∀ a b, a ∈ p → (InM M' a b ↔ InM M a b)) (hp : AugPath g' M' p) : AugPath g M p := by
  have hC : ∀ a, a ∈ p → ¬ Covered M' a → ¬ Covered M a := by
    rintro a ha hna ⟨b, hb⟩
    exact hna ⟨b, (hI a b ha).2 hb⟩
  refine ⟨hp.nodup, altFrom_transfer hg p false (fun a b ha _ => hI a b ha) hp.alt, hp.two, ?_, ?_⟩
  · intro a ha
    exact hC a (List.mem_of_head? ha) (hp.headFree a ha)
  · intro a ha
    exact hC a (List.mem_of_getLast? ha) (hp.lastFree a ha)

/-- one pair of `N` between two `M`-free nodes is an augmenting path -/
theorem augPath_pair {g : MGraph} {M N : List (Nat × Nat)} (hN : IsMatching g N) {u x : Nat}
    (h : InM N u x) (hu : ¬ Covered M u) (hx : ¬ Covered M x) : AugPath g M [u, x] := by
  refine ⟨?_, ?_, by simp, ?_, ?_⟩
  · simp only [List.nodup_cons, List.mem_cons, List.not_mem_nil, or_false, not_false_eq_true,
      List.nodup_nil, and_true]
    exact m_ne hN h
  · refine ⟨m_joined hN h, ?_, trivial⟩
    constructor
    · intro h'; exact absurd (covered_of_inM h') hu
    · intro h'; cases h'
  · intro a ha
    simp only [List.head?_cons, Option.some.injEq] at ha
    subst ha; exact hu
  · intro a ha
    simp only [List.getLast?_cons_cons, List.getLast?_singleton, Option.some.injEq] at ha
    subst ha; exact hx

/-- the walk argument: if `N` covers everything `M` covers and also the `M`-free node `u`, an
`M`-augmenting path starts at `u` -/
theorem aug_from_of_cover_aux : ∀ (n : Nat) (g : MGraph) (M N : List (Nat × Nat)) (u : Nat),
    M.length = n → IsMatching g M → IsMatching g N → (∀ a, Covered M a → Covered N a) →
    Covered N u → ¬ Covered M u → ∃ p, AugPath g M p ∧ p.head? = some u := by
  intro n
  induction n with
  | zero =>
    intro g M N u hlen _ hN _ hNu hMu
    obtain ⟨x1, hx1⟩ := hNu
    have hM0 : M = [] := List.eq_nil_of_length_eq_zero hlen
    refine ⟨[u, x1], augPath_pair hN hx1 hMu ?_, rfl⟩
    rintro ⟨b, hb⟩
    subst hM0
    simp [InM] at hb
  | succ n ih =>
    intro g M N u hlen hM hN hcov hNu hMu
    obtain ⟨x1, hx1⟩ := hNu
    by_cases hMx1 : Covered M x1
    · obtain ⟨x2, hx2⟩ := hMx1
      have hx2u : x2 ≠ u := by
        rintro rfl; exact hMu (covered_of_inM' hx2)
      have hx12 : x1 ≠ x2 := m_ne hM hx2
      have hux1 : u ≠ x1 := m_ne hN hx1
      obtain ⟨e, he, hee⟩ := exists_pair_of_inM hx2
      obtain ⟨f, hf, hff⟩ := exists_pair_of_inM hx1
      have hIM : ∀ {x y}, InM (M.erase e) x y ↔ InM M x y ∧ x ≠ x1 ∧ x ≠ x2 :=
        inM_erase_pair hM he hee
      have hCM : ∀ {x}, Covered (M.erase e) x ↔ Covered M x ∧ x ≠ x1 ∧ x ≠ x2 :=
        covered_erase_pair hM he hee
      have hIN : ∀ {x y}, InM (N.erase f) x y ↔ InM N x y ∧ x ≠ u ∧ x ≠ x1 :=
        inM_erase_pair hN hf hff
      have hCN : ∀ {x}, Covered (N.erase f) x ↔ Covered N x ∧ x ≠ u ∧ x ≠ x1 :=
        covered_erase_pair hN hf hff
      have hM' : IsMatching (del g [u, x1]) (M.erase e) := by
        refine m_del (m_erase hM e) _ ?_
        intro a ha
        have := hCM.1 ha
        simp only [List.mem_cons, List.not_mem_nil, or_false, not_or]
        exact ⟨fun h => hMu (h ▸ this.1), this.2.1⟩
      have hN' : IsMatching (del g [u, x1]) (N.erase f) := by
        refine m_del (m_erase hN f) _ ?_
        intro a ha
        have := hCN.1 ha
        simp only [List.mem_cons, List.not_mem_nil, or_false, not_or]
        exact this.2
      have hcov' : ∀ a, Covered (M.erase e) a → Covered (N.erase f) a := by
        intro a ha
        have := hCM.1 ha
        exact hCN.2 ⟨hcov a this.1, fun h => hMu (h ▸ this.1), this.2.1⟩
      have hNx2 : Covered (N.erase f) x2 :=
        hCN.2 ⟨hcov x2 (covered_of_inM' hx2), hx2u, fun h => hx12 h.symm⟩
      have hMx2 : ¬ Covered (M.erase e) x2 := fun h => (hCM.1 h).2.2 rfl
      have hlen' : (M.erase e).length = n := by
        have := length_erase_add_one he
        omega
      obtain ⟨p', hp', hhead⟩ := ih (del g [u, x1]) (M.erase e) (N.erase f) x2 hlen' hM' hN' hcov'
        hNx2 hMx2
      have hnotX : ∀ a ∈ p', a ∉ [u, x1] := altFrom_del_notMem p' false hp'.two hp'.alt
      have hnotX' : ∀ a ∈ p', a ≠ u ∧ a ≠ x1 := by
        intro a ha
        have := hnotX a ha
        simpa only [List.mem_cons, List.not_mem_nil, or_false, not_or] using this
      have halt' : AltFrom g M false p' := by
        refine altFrom_transfer (fun _ _ => joined_of_del) p' false ?_ hp'.alt
        intro a b ha hb
        rw [hIM]
        constructor
        · exact fun h => h.1
        · intro h
          refine ⟨h, (hnotX' a ha).2, ?_⟩
          rintro rfl
          have : b = x1 := m_unique hM h (inM_symm hx2)
          exact (hnotX' b hb).2 this
      match p', hp', hhead, hnotX', halt' with
      | [], hp', _, _, _ => exact absurd hp'.two (by simp)
      | [_], hp', _, _, _ => exact absurd hp'.two (by simp)
      | x2' :: y :: r, hp', hhead, hnotX', halt' =>
        simp only [List.head?_cons, Option.some.injEq] at hhead
        subst hhead
        refine ⟨u :: x1 :: x2' :: y :: r, ⟨?_, ?_, by simp, ?_, ?_⟩, rfl⟩
        · refine List.nodup_cons.2 ⟨?_, List.nodup_cons.2 ⟨?_, hp'.nodup⟩⟩
          · intro h
            rcases List.mem_cons.1 h with h | h
            · exact hux1 h
            · exact (hnotX' u h).1 rfl
          · intro h
            exact (hnotX' x1 h).2 rfl
        · refine ⟨m_joined hN hx1, ?_, m_joined hM hx2, ?_, halt'⟩
          · constructor
            · intro h'; exact absurd (covered_of_inM h') hMu
            · intro h'; cases h'
          · exact ⟨fun _ => rfl, fun _ => hx2⟩
        · intro a ha
          simp only [List.head?_cons, Option.some.injEq] at ha
          subst ha; exact hMu
        · intro a ha
          have ha' : (y :: r).getLast? = some a := by
            simpa only [List.getLast?_cons_cons] using ha
          have ha'' : (x2' :: y :: r).getLast? = some a := by
            simpa only [List.getLast?_cons_cons] using ha
          have hfree := hp'.lastFree a ha''
          have hmem : a ∈ y :: r := List.mem_of_getLast? ha'
          have hne2 : a ≠ x2' := by
            rintro rfl
            exact (List.nodup_cons.1 hp'.nodup).1 hmem
          intro hc
          exact hfree (hCM.2 ⟨hc, (hnotX' a (List.mem_cons_of_mem _ hmem)).2, hne2⟩)
    · exact ⟨[u, x1], augPath_pair hN hx1 hMu hMx1, rfl⟩

theorem aug_from_of_cover (g : MGraph) (M N : List (Nat × Nat)) (u : Nat) (hM : IsMatching g M)
    (hN : IsMatching g N) (hcov : ∀ a, Covered M a → Covered N a) (hNu : Covered N u)
    (hMu : ¬ Covered M u) : ∃ p, AugPath g M p ∧ p.head? = some u :=
  aug_from_of_cover_aux M.length g M N u rfl hM hN hcov hNu hMu

theorem augPath_of_larger_aux : ∀ (n : Nat) (g : MGraph) (M N : List (Nat × Nat)),
    M.length = n → IsMatching g M → IsMatching g N → M.length < N.length → ∃ p, AugPath g M p := by
  intro n
  induction n with
  | zero =>
    intro g M N hlen hM hN hlt
    obtain ⟨u, hNu, hMu⟩ := exists_covered_not_covered hN hlt
    have hM0 : M = [] := List.eq_nil_of_length_eq_zero hlen
    have hcov : ∀ a, Covered M a → Covered N a := by
      rintro a ⟨b, hb⟩
      subst hM0
      simp [InM] at hb
    obtain ⟨p, hp, _⟩ := aug_from_of_cover g M N u hM hN hcov hNu hMu
    exact ⟨p, hp⟩
  | succ n ih =>
    intro g M N hlen hM hN hlt
    by_cases hD : ∃ y, Covered M y ∧ ¬ Covered N y
    · obtain ⟨y, ⟨z, hyz⟩, hNy⟩ := hD
      obtain ⟨e, he, hee⟩ := exists_pair_of_inM hyz
      have hIM : ∀ {a b}, InM (M.erase e) a b ↔ InM M a b ∧ a ≠ y ∧ a ≠ z :=
        inM_erase_pair hM he hee
      have hCM : ∀ {a}, Covered (M.erase e) a ↔ Covered M a ∧ a ≠ y ∧ a ≠ z :=
        covered_erase_pair hM he hee
      have hM' : IsMatching (del g [y, z]) (M.erase e) := by
        refine m_del (m_erase hM e) _ ?_
        intro a ha
        have := hCM.1 ha
        simp only [List.mem_cons, List.not_mem_nil, or_false, not_or]
        exact this.2
      have hlen' : (M.erase e).length = n := by
        have := length_erase_add_one he
        omega
      have hN' : ∃ N', IsMatching (del g [y, z]) N' ∧ N.length ≤ N'.length + 1 := by
        by_cases hNz : Covered N z
        · obtain ⟨w, hzw⟩ := hNz
          obtain ⟨f, hf, hff⟩ := exists_pair_of_inM hzw
          have hCN : ∀ {a}, Covered (N.erase f) a ↔ Covered N a ∧ a ≠ z ∧ a ≠ w :=
            covered_erase_pair hN hf hff
          refine ⟨N.erase f, m_del (m_erase hN f) _ ?_, ?_⟩
          · intro a ha
            have := hCN.1 ha
            simp only [List.mem_cons, List.not_mem_nil, or_false, not_or]
            exact ⟨fun h => hNy (h ▸ this.1), this.2.1⟩
          · have := length_erase_add_one hf
            omega
        · refine ⟨N, m_del hN _ ?_, by omega⟩
          intro a ha
          simp only [List.mem_cons, List.not_mem_nil, or_false, not_or]
          exact ⟨fun h => hNy (h ▸ ha), fun h => hNz (h ▸ ha)⟩
      obtain ⟨N', hN', hlenN⟩ := hN'
      obtain ⟨p, hp⟩ := ih (del g [y, z]) (M.erase e) N' hlen' hM' hN' (by omega)
      have hnotX : ∀ a ∈ p, a ∉ [y, z] := altFrom_del_notMem p false hp.two hp.alt
      refine ⟨p, augPath_transfer (fun _ _ => joined_of_del) ?_ hp⟩
      intro a b ha
      have := hnotX a ha
      simp only [List.mem_cons, List.not_mem_nil, or_false, not_or] at this
      rw [hIM]
      exact ⟨fun h => h.1, fun h => ⟨h, this⟩⟩
    · have hcov : ∀ a, Covered M a → Covered N a := by
        intro a ha
        apply Classical.byContradiction
        intro hna
        exact hD ⟨a, ha, hna⟩
      obtain ⟨u, hNu, hMu⟩ := exists_covered_not_covered hN hlt
      obtain ⟨p, hp, _⟩ := aug_from_of_cover g M N u hM hN hcov hNu hMu
      exact ⟨p, hp⟩

/-- T2 (hard direction): a larger matching yields an augmenting path -/
theorem augPath_of_larger (g : MGraph) (M N : List (Nat × Nat)) (hM : IsMatching g M)
    (hN : IsMatching g N) (hlt : M.length < N.length) : ∃ p, AugPath g M p :=
  augPath_of_larger_aux M.length g M N rfl hM hN hlt

end PetgraphModel.C15W5
