import PetgraphModel.Driver.C11
import PetgraphModel.Proofs.C11W4
/-
C11, wave 4 — the driver only judges inside the scope of the model theorems.

`DInv`: the flag `ok` of the driver state is set only by a `graph` line whose checks `wfB`,
`viewArcsB`, `nbB` passed for the very view the state holds.  It holds initially and is preserved by
every step, whatever the lines are.  Under it, a request whose pre-check (`preFloat`, `preSpfa`,
`preFw`) answers `none` satisfies all Boolean hypotheses of the `…_checked` theorems; and when the
pre-check answers `some why` the driver's verdict is that `SPECFAIL …` line (nothing is judged).
-/
namespace PetgraphModel.C11W4D
open PetgraphModel PetgraphModel.C11M PetgraphModel.C11

def DInv (d : DState) : Prop :=
  d.ok = true → viewArcsB d.v = true ∧ wfB d.v.g = true ∧ nbB d.v = true

theorem init_inv : DInv {} := by intro h; cases h

theorem step_inv (d : DState) (req : List String) (impl : String) (h : DInv d) :
    DInv (step d req impl).1 := by
  unfold step
  split
  · exact init_inv
  · split
    · exact h
    · rename_i v _
      split
      · intro h'; cases h'
      · split
        · intro h'; cases h'
        · split
          · intro h'; cases h'
          · rename_i h1 h2 h3
            intro _
            have h1 : wfB v.g = true := by simpa using h1
            have h2 : viewArcsB v = true := by
              cases hb : viewArcsB v with
              | true => rfl
              | false => simp [hb] at h2
            have h3 : nbB v = true := by simpa using h3
            exact ⟨h2, h1, h3⟩
  all_goals (dsimp only; repeat' split) <;> exact h

/-- the driver state after any sequence of protocol lines -/
def run (lines : List (List String × String)) : DState :=
  lines.foldl (fun d l => (step d l.1 l.2).1) {}

theorem run_inv (lines : List (List String × String)) : DInv (run lines) := by
  unfold run
  suffices h : ∀ (d : DState), DInv d → DInv (lines.foldl (fun d l => (step d l.1 l.2).1) d) from h {} init_inv
  induction lines with
  | nil => intro d h; exact h
  | cons l ls ih => intro d h; exact ih _ (step_inv d l.1 l.2 h)

theorem okGraph_none {d : DState} (h : okGraph d = none) : d.ok = true := by
  unfold okGraph at h
  split at h
  · assumption
  · cases h

theorem or_none {a b : Option String} (h : a.or b = none) : a = none ∧ b = none := by
  cases a <;> cases b <;> simp_all

/-- `bf <s>` / `fnc <s>` are judged only inside the scope of `C11_bellman_ford_checked`,
`C11_find_negative_cycle_checked` and `C11_bellman_ford_values_exact_range` -/
theorem preFloat_scope {d : DState} (hd : DInv d) {s : Nat} (h : preFloat d s = none) :
    viewArcsB d.v = true ∧ wfB d.v.g = true ∧ srcB d.v s = true ∧ fitBfB d.v = true := by
  unfold preFloat at h
  obtain ⟨h1, h2⟩ := or_none h
  obtain ⟨h2, h3⟩ := or_none h2
  obtain ⟨hv, hwf, _⟩ := hd (okGraph_none h1)
  refine ⟨hv, hwf, ?_, ?_⟩
  · unfold srcCheck at h2
    split at h2
    · assumption
    · cases h2
  · cases hf : fitBfB d.v with
    | true => rfl
    | false => rw [hf] at h3; simp at h3

/-- `spfa <ty> <s>` is judged only inside the scope of `C11_spfa_checked` for the cost type of the
request, and — for `f64` — of `C11_spfa_values_exact_range` -/
theorem preSpfa_scope {d : DState} (hd : DInv d) {ty : String} {s : Nat} (h : preSpfa d ty s = none) :
    viewArcsB d.v = true ∧ wfB d.v.g = true ∧ srcB d.v s = true ∧ nbB d.v = true ∧
    fitSpfaB (proofMeas ty) d.v = true ∧ fitSpfaB (rangeOf ty) d.v = true ∧ signOk ty d.v = true := by
  unfold preSpfa at h
  obtain ⟨h1, h2⟩ := or_none h
  obtain ⟨h2, h3⟩ := or_none h2
  obtain ⟨hv, hwf, _⟩ := hd (okGraph_none h1)
  have hs : srcB d.v s = true := by
    unfold srcCheck at h2
    split at h2
    · assumption
    · cases h2
  split at h3
  · cases h3
  · rename_i hnb
    split at h3
    · rename_i hf
      simp only [Bool.and_eq_true] at hf
      exact ⟨hv, hwf, hs, by simpa using hnb, hf.1.1, hf.1.2, hf.2⟩
    · cases h3

/-- `fw <ty>` / `fwp <ty>` are judged only inside the scope of `C11_floyd_checked` (and of
`C11_floyd_values_exact_range` for `f64`) -/
theorem preFw_scope {d : DState} (hd : DInv d) {ty : String} (h : preFw d ty = none) :
    wfB d.v.g = true ∧ fitFloydB (proofMeas ty) d.v = true ∧ fitFloydB (rangeOf ty) d.v = true ∧
    signOk ty d.v = true := by
  unfold preFw at h
  obtain ⟨h1, h2⟩ := or_none h
  obtain ⟨_, hwf, _⟩ := hd (okGraph_none h1)
  split at h2
  · rename_i hf
    simp only [Bool.and_eq_true] at hf
    exact ⟨hwf, hf.1.1, hf.1.2, hf.2⟩
  · cases h2

theorem rangeOf_f64 : rangeOf "f64" = Meas.exactF64 := by simp [rangeOf]

theorem rangeOf_f32 : rangeOf "f32" = Meas.exactF32 := by simp [rangeOf]

/-- for every cost type that is not unsigned the width hypotheses are checked for the type itself -/
theorem proofMeas_signed {ty : String} (h : unsignedTy ty = false) : proofMeas ty = measOf ty := by
  simp [proofMeas, h]

/-- `bf32 <s>` / `fnc32 <s>` are judged only inside the scope of `C11_bellman_ford_checked`,
`C11_find_negative_cycle_checked` and `C11_bellman_ford_values_exact_range_f32` -/
theorem preFloat32_scope {d : DState} (hd : DInv d) {s : Nat} (h : preFloat32 d s = none) :
    viewArcsB d.v = true ∧ wfB d.v.g = true ∧ srcB d.v s = true ∧ fitBf32B d.v = true := by
  unfold preFloat32 at h
  obtain ⟨h1, h2⟩ := or_none h
  obtain ⟨h2, h3⟩ := or_none h2
  obtain ⟨hv, hwf, _⟩ := hd (okGraph_none h1)
  refine ⟨hv, hwf, ?_, ?_⟩
  · unfold srcCheck at h2
    split at h2
    · assumption
    · cases h2
  · cases hf : fitBf32B d.v with
    | true => rfl
    | false => rw [hf] at h3; simp at h3

theorem step_bf32_blocked (d : DState) (s impl why : String) (h : preFloat32 d (s.toNat?.getD 0) = some why) :
    (step d ["bf32", s] impl).2 = why ∧ (step d ["fnc32", s] impl).2 = why := by
  simp only [step, h, and_self]

/-- a failed pre-check IS the verdict: nothing is judged or compared outside the proved scope -/
theorem step_bf_blocked (d : DState) (s impl why : String) (h : preFloat d (s.toNat?.getD 0) = some why) :
    (step d ["bf", s] impl).2 = why := by
  simp only [step, h]

theorem step_fnc_blocked (d : DState) (s impl why : String) (h : preFloat d (s.toNat?.getD 0) = some why) :
    (step d ["fnc", s] impl).2 = why := by
  simp only [step, h]

theorem step_spfa_blocked (d : DState) (ty s impl why : String) (h : preSpfa d ty (s.toNat?.getD 0) = some why) :
    (step d ["spfa", ty, s] impl).2 = why := by
  simp only [step, h]

theorem step_fw_blocked (d : DState) (ty impl why : String) (h : preFw d ty = some why) :
    (step d ["fw", ty] impl).2 = why ∧ (step d ["fwp", ty] impl).2 = why := by
  simp only [step, h, and_self]

end PetgraphModel.C11W4D
