import PetgraphModel.Proofs.C16Cut
/-
C16, second wave — articulation points, Part II (pure graph theory): a *DFS certificate*
(discovery numbers, a parent relation `T` forming a forest of tree edges, no cross edges, low-link
values that are locally consistent) determines the cut vertices of an undirected graph:

  `x` is a cut vertex  iff  `x` is a non-root with a tree child `c`, `low c ≥ disc x`,
                           or a root with two different tree children.

Independent of the stack machine; `C16W2ApMachine`/`C16W2ApMain` extract such a certificate from
the final state of the mirrored search.
-/
namespace PetgraphModel.C16P.W2Ap
open PetgraphModel MGraph C16S

/-- `AncT T u x`: `u` is a forest ancestor of `x` (reflexive), `T p c` = "`p` is the parent of `c`" -/
inductive AncT (T : Nat → Nat → Prop) : Nat → Nat → Prop
  | refl (u : Nat) : AncT T u u
  | step {u p x : Nat} : AncT T u p → T p x → AncT T u x

structure DfsCert (g : MGraph) (B : Nat) (disc low : Nat → Nat) (T : Nat → Nat → Prop)
    (res : Nat → Prop) : Prop where
  disc_lt : ∀ a, a ∈ g.nodes → disc a < B
  disc_inj : ∀ a b, a ∈ g.nodes → b ∈ g.nodes → disc a = disc b → a = b
  T_nodes : ∀ p c, T p c → p ∈ g.nodes ∧ c ∈ g.nodes
  T_fun : ∀ p p' c, T p c → T p' c → p = p'
  T_adj : ∀ p c, T p c → g.Adj p c
  T_lt : ∀ p c, T p c → disc p < disc c
  nocross : ∀ a b, a ∈ g.nodes → b ∈ g.nodes → g.Adj a b → disc a < disc b → AncT T a b
  low_le : ∀ x, x ∈ g.nodes → low x ≤ disc x
  low_nbr : ∀ x w, x ∈ g.nodes → g.Adj x w → ¬ T w x → low x ≤ disc w
  low_child : ∀ p c, T p c → low p ≤ low c
  low_att : ∀ x, x ∈ g.nodes → low x = disc x ∨ (∃ w, g.Adj x w ∧ low x = disc w) ∨
    (∃ c, T x c ∧ low x = low c)
  res_iff : ∀ x, res x ↔ x ∈ g.nodes ∧
    ((∃ q c, T q x ∧ T x c ∧ disc x ≤ low c) ∨
     ((¬ ∃ q, T q x) ∧ ∃ c1 c2, c1 ≠ c2 ∧ T x c1 ∧ T x c2))

section
variable {g : MGraph} {B : Nat} {disc low : Nat → Nat} {T : Nat → Nat → Prop} {res : Nat → Prop}

theorem anc_trans {a b c : Nat} (h1 : AncT T a b) (h2 : AncT T b c) : AncT T a c := by
  induction h2 with
  | refl => exact h1
  | step _ ht ih => exact AncT.step ih ht

theorem anc_head {u c x : Nat} (h : T u c) (h2 : AncT T c x) : AncT T u x :=
  anc_trans (AncT.step (AncT.refl u) h) h2

theorem anc_disc_le (C : DfsCert g B disc low T res) {u x : Nat} (h : AncT T u x) : disc u ≤ disc x := by
  induction h with
  | refl => exact Nat.le_refl _
  | step _ ht ih => have := C.T_lt _ _ ht; omega

theorem anc_proper {u x : Nat} (h : AncT T u x) (hne : u ≠ x) : ∃ p, AncT T u p ∧ T p x := by
  cases h with
  | refl => exact (hne rfl).elim
  | step h1 ht => exact ⟨_, h1, ht⟩

theorem anc_lt (C : DfsCert g B disc low T res) {u x : Nat} (h : AncT T u x) (hne : u ≠ x) :
    disc u < disc x := by
  obtain ⟨p, h1, ht⟩ := anc_proper h hne
  have := anc_disc_le C h1
  have := C.T_lt _ _ ht
  omega

theorem anc_chain (C : DfsCert g B disc low T res) {a b x : Nat} (h1 : AncT T a x) (h2 : AncT T b x) :
    AncT T a b ∨ AncT T b a := by
  induction h1 generalizing b with
  | refl => exact Or.inr h2
  | @step p x' ha ht ih =>
    cases h2 with
    | refl => exact Or.inl (AncT.step ha ht)
    | @step p' _ hb ht' =>
      have : p = p' := C.T_fun _ _ _ ht ht'
      subst this
      exact ih hb

theorem anc_first_child {x y : Nat} (h : AncT T x y) (hne : x ≠ y) : ∃ c, T x c ∧ AncT T c y := by
  induction h with
  | refl => exact (hne rfl).elim
  | @step p y' hxp ht ih =>
    by_cases hxp' : x = p
    · subst hxp'; exact ⟨y', ht, AncT.refl _⟩
    · obtain ⟨c, hc, hcp⟩ := ih hxp'
      exact ⟨c, hc, AncT.step hcp ht⟩

theorem anc_nodes (C : DfsCert g B disc low T res) {u x : Nat} (h : AncT T u x) (hu : u ∈ g.nodes) :
    x ∈ g.nodes := by
  cases h with
  | refl => exact hu
  | step _ ht => exact (C.T_nodes _ _ ht).2

theorem anc_low (C : DfsCert g B disc low T res) {c b : Nat} (h : AncT T c b) : low c ≤ low b := by
  induction h with
  | refl => exact Nat.le_refl _
  | step _ ht ih => have := C.low_child _ _ ht; omega

theorem adj_nodes (hwf : g.WellFormed) {a b : Nat} (h : g.Adj a b) : a ∈ g.nodes ∧ b ∈ g.nodes := by
  obtain ⟨e, he, h⟩ := h
  have := hwf.2 e he
  rcases h with ⟨h1, h2⟩ | ⟨_, h1, h2⟩
  · exact ⟨h1 ▸ this.1, h2 ▸ this.2⟩
  · exact ⟨h2 ▸ this.2, h1 ▸ this.1⟩

/-- a tree path avoiding `y` is a path of `g − y` -/
theorem anc_reach_avoid (C : DfsCert g B disc low T res) (y : Nat) {u x : Nat} (h : AncT T u x)
    (hav : ∀ z, AncT T u z → AncT T z x → z ≠ y) : Reach (g.removeNode y) u x := by
  induction h with
  | refl => exact Reach.refl _
  | @step p x' hup ht ih =>
    have h1 : Reach (g.removeNode y) u p :=
      ih (fun z hz1 hz2 => hav z hz1 (AncT.step hz2 ht))
    refine Reach.step h1 (adj_removeNode.mpr ⟨C.T_adj _ _ ht, ?_, ?_⟩)
    · exact hav p hup (AncT.step (AncT.refl _) ht)
    · exact hav x' (AncT.step hup ht) (AncT.refl _)

theorem sub_reach (C : DfsCert g B disc low T res) {x c y : Nat} (hT : T x c) (h : AncT T c y) :
    Reach (g.removeNode x) c y := by
  apply anc_reach_avoid C x h
  intro z hz _ hzx
  subst hzx
  have := anc_disc_le C hz
  have := C.T_lt _ _ hT
  omega

theorem up_reach (C : DfsCert g B disc low T res) {x q w : Nat} (hT : T q x) (h : AncT T w q) :
    Reach (g.removeNode x) w q := by
  apply anc_reach_avoid C x h
  intro z _ hz hzx
  subst hzx
  have := anc_disc_le C hz
  have := C.T_lt _ _ hT
  omega

/-- the low value of `c` is attained inside the subtree of `c` -/
theorem low_witness (C : DfsCert g B disc low T res) : ∀ (n c : Nat), c ∈ g.nodes → B - disc c ≤ n →
    ∃ b, AncT T c b ∧ (low c = disc b ∨ ∃ w, g.Adj b w ∧ low c = disc w) := by
  intro n
  induction n with
  | zero => intro c hc hn; have := C.disc_lt c hc; omega
  | succ n ih =>
    intro c hc hn
    rcases C.low_att c hc with h | ⟨w, hw, h⟩ | ⟨c', hc', h⟩
    · exact ⟨c, AncT.refl _, Or.inl h⟩
    · exact ⟨c, AncT.refl _, Or.inr ⟨w, hw, h⟩⟩
    · have hlt := C.T_lt _ _ hc'
      have hc'n := (C.T_nodes _ _ hc').2
      have := C.disc_lt c' hc'n
      obtain ⟨b, hb, hb2⟩ := ih c' hc'n (by omega)
      refine ⟨b, anc_head hc' hb, ?_⟩
      rw [h]; exact hb2

/-- walks of `g` between nodes other than `x` can be rerouted around `x` as soon as all neighbours
of `x` are pairwise connected in `g − x` -/
theorem reach_avoid (x : Nat)
    (h : ∀ y z, g.Adj y x → g.Adj x z → y ≠ x → z ≠ x → Reach (g.removeNode x) y z)
    {a b : Nat} (hab : Reach g a b) (ha : a ≠ x) :
    (b ≠ x → Reach (g.removeNode x) a b) ∧
    (b = x → ∃ y, y ≠ x ∧ g.Adj y x ∧ Reach (g.removeNode x) a y) := by
  induction hab with
  | refl => exact ⟨fun _ => Reach.refl _, fun h' => (ha h').elim⟩
  | @step b c hab' hadj ih =>
    by_cases hb : b = x
    · obtain ⟨y, hy, hyx, hay⟩ := ih.2 hb
      refine ⟨fun hc => ?_, fun hc => ⟨y, hy, hc ▸ hyx, hay⟩⟩
      exact reach_trans hay (h y c hyx (hb ▸ hadj) hy hc)
    · have hab'' := ih.1 hb
      refine ⟨fun hc => Reach.step hab'' (adj_removeNode.mpr ⟨hadj, hb, hc⟩), fun hc => ?_⟩
      exact ⟨b, hb, hc ▸ hadj, hab''⟩

/-- the subtree of a child `c` of `x` is closed under the edges of `g − x`, provided no node of the
subtree has a non-parent edge to a proper ancestor of `x` -/
theorem subtree_closed (hu : g.directed = false) (hwf : g.WellFormed)
    (C : DfsCert g B disc low T res) {x c : Nat} (hT : T x c)
    (hno : ∀ z b, AncT T z x → z ≠ x → AncT T c b → g.Adj b z → ¬ T z b → False)
    {z : Nat} (h : Reach (g.removeNode x) c z) : AncT T c z := by
  induction h with
  | refl => exact AncT.refl _
  | @step b z hcb hadj ih =>
    obtain ⟨hadj', hbx, hzx⟩ := adj_removeNode.mp hadj
    obtain ⟨hbn, hzn⟩ := adj_nodes hwf hadj'
    rcases Nat.lt_trichotomy (disc b) (disc z) with hlt | heq | hgt
    · exact anc_trans ih (C.nocross b z hbn hzn hadj' hlt)
    · have := C.disc_inj b z hbn hzn heq; subst this; exact ih
    · have hzb : AncT T z b := C.nocross z b hzn hbn (adj_symm hu hadj') hgt
      rcases anc_chain C ih hzb with h1 | h1
      · exact h1
      · by_cases hzc : z = c
        · subst hzc; exact AncT.refl _
        · obtain ⟨p, hzp, hpc⟩ := anc_proper h1 hzc
          have : p = x := C.T_fun _ _ _ hpc hT
          subst this
          -- `z` is a proper ancestor of `x`
          by_cases hTzb : T z b
          · -- then `z` is the parent of `b`, which lies in the subtree
            by_cases hbc : c = b
            · subst hbc
              have : z = p := C.T_fun _ _ _ hTzb hT
              exact (hzx this).elim
            · obtain ⟨p', hcp', hp'b⟩ := anc_proper ih hbc
              have : z = p' := C.T_fun _ _ _ hTzb hp'b
              subst this; exact hcp'
          · exact (hno z b hzp hzx ih hadj' hTzb).elim

/-- **certificate ⇒ cut vertex** -/
theorem res_cut (hu : g.directed = false) (hwf : g.WellFormed) (C : DfsCert g B disc low T res)
    (x : Nat) (hr : res x) : CutVertex g x := by
  rw [cutVertex_iff_separates g hu hwf.1]
  obtain ⟨hx, hcase⟩ := (C.res_iff x).mp hr
  refine ⟨hx, ?_⟩
  rcases hcase with ⟨q, c, hq, hc, hlow⟩ | ⟨hroot, c1, c2, hne, h1, h2⟩
  · have hdq := C.T_lt _ _ hq
    have hdc := C.T_lt _ _ hc
    refine ⟨c, q, (C.T_nodes _ _ hc).2, (C.T_nodes _ _ hq).1, ?_, ?_, ?_, ?_⟩
    · intro h; subst h; omega
    · intro h; subst h; omega
    · exact Reach.step (Reach.step (Reach.refl _) (adj_symm hu (C.T_adj _ _ hc))) (adj_symm hu (C.T_adj _ _ hq))
    · intro hreach
      have hanc : AncT T c q := by
        apply subtree_closed hu hwf C hc ?_ hreach
        intro z b hzx hzne hcb hadj hnT
        have h1 := anc_lt C hzx hzne
        have h2 := anc_low C hcb
        have hbn : b ∈ g.nodes := anc_nodes C hcb (C.T_nodes _ _ hc).2
        have h3 := C.low_nbr b z hbn hadj hnT
        omega
      have := anc_disc_le C hanc
      omega
  · have hd1 := C.T_lt _ _ h1
    have hd2 := C.T_lt _ _ h2
    refine ⟨c1, c2, (C.T_nodes _ _ h1).2, (C.T_nodes _ _ h2).2, ?_, ?_, ?_, ?_⟩
    · intro h; subst h; omega
    · intro h; subst h; omega
    · exact Reach.step (Reach.step (Reach.refl _) (adj_symm hu (C.T_adj _ _ h1))) (C.T_adj _ _ h2)
    · intro hreach
      have hanc : AncT T c1 c2 := by
        apply subtree_closed hu hwf C h1 ?_ hreach
        intro z b hzx hzne _ _ _
        obtain ⟨p, _, hp⟩ := anc_proper hzx hzne
        exact hroot ⟨p, hp⟩
      obtain ⟨p, hp1, hp2⟩ := anc_proper hanc hne
      have : p = x := C.T_fun _ _ _ hp2 h2
      subst this
      have := anc_disc_le C hp1
      omega

/-- **no certificate ⇒ not a cut vertex**: all neighbours of `x` stay connected in `g − x` -/
theorem nonres_nbrs (hu : g.directed = false) (hwf : g.WellFormed) (C : DfsCert g B disc low T res)
    (x : Nat) (hx : x ∈ g.nodes) (hr : ¬ res x) :
    ∀ y z, g.Adj y x → g.Adj x z → y ≠ x → z ≠ x → Reach (g.removeNode x) y z := by
  have hsymm : ∀ {a b : Nat}, Reach (g.removeNode x) a b → Reach (g.removeNode x) b a :=
    fun h => reach_symm (g := g.removeNode x) hu h
  have hnr : ¬ ((∃ q c, T q x ∧ T x c ∧ disc x ≤ low c) ∨
      ((¬ ∃ q, T q x) ∧ ∃ c1 c2, c1 ≠ c2 ∧ T x c1 ∧ T x c2)) :=
    fun h => hr ((C.res_iff x).mpr ⟨hx, h⟩)
  by_cases hpar : ∃ q, T q x
  · obtain ⟨q, hq⟩ := hpar
    have hdq := C.T_lt _ _ hq
    -- every neighbour is connected to the parent `q`
    have hub : ∀ y, g.Adj x y → y ≠ x → Reach (g.removeNode x) y q := by
      intro y hadj hyx
      obtain ⟨_, hyn⟩ := adj_nodes hwf hadj
      rcases Nat.lt_trichotomy (disc y) (disc x) with hlt | heq | hgt
      · have hyx' : AncT T y x := C.nocross y x hyn hx (adj_symm hu hadj) hlt
        obtain ⟨p, hyp, hp⟩ := anc_proper hyx' hyx
        have : p = q := C.T_fun _ _ _ hp hq
        subst this
        exact up_reach C hq hyp
      · exact (hyx (C.disc_inj y x hyn hx heq)).elim
      · have hxy : AncT T x y := C.nocross x y hx hyn hadj hgt
        obtain ⟨c, hc, hcy⟩ := anc_first_child hxy (Ne.symm hyx)
        have hdc := C.T_lt _ _ hc
        have hcn := (C.T_nodes _ _ hc).2
        have hlow : low c < disc x := by
          apply Classical.byContradiction
          intro h
          exact hnr (Or.inl ⟨q, c, hq, hc, by omega⟩)
        obtain ⟨b, hcb, hb⟩ := low_witness C (B - disc c) c hcn (Nat.le_refl _)
        have hdb := anc_disc_le C hcb
        rcases hb with hb | ⟨w, hbw, hw⟩
        · omega
        · obtain ⟨hbn, hwn⟩ := adj_nodes hwf hbw
          have hwb : AncT T w b := C.nocross w b hwn hbn (adj_symm hu hbw) (by omega)
          have hxb : AncT T x b := anc_head hc hcb
          have hwx : AncT T w x := by
            rcases anc_chain C hxb hwb with h | h
            · have := anc_disc_le C h; omega
            · exact h
          have hwne : w ≠ x := by intro h; subst h; omega
          obtain ⟨p, hwp, hp⟩ := anc_proper hwx hwne
          have : p = q := C.T_fun _ _ _ hp hq
          subst this
          have r1 : Reach (g.removeNode x) c y := sub_reach C hc hcy
          have r2 : Reach (g.removeNode x) c b := sub_reach C hc hcb
          have r3 : Reach (g.removeNode x) b w :=
            Reach.step (Reach.refl _) (adj_removeNode.mpr ⟨hbw, by intro h; subst h; omega, hwne⟩)
          have r4 : Reach (g.removeNode x) w p := up_reach C hq hwp
          exact reach_trans (hsymm r1) (reach_trans r2 (reach_trans r3 r4))
    intro y z hy hz hyx hzx
    exact reach_trans (hub y (adj_symm hu hy) hyx) (hsymm (hub z hz hzx))
  · -- a root: every neighbour lies below the unique child
    have hub : ∀ y, g.Adj x y → y ≠ x → ∃ c, T x c ∧ Reach (g.removeNode x) c y := by
      intro y hadj hyx
      obtain ⟨_, hyn⟩ := adj_nodes hwf hadj
      rcases Nat.lt_trichotomy (disc y) (disc x) with hlt | heq | hgt
      · have hyx' : AncT T y x := C.nocross y x hyn hx (adj_symm hu hadj) hlt
        obtain ⟨p, _, hp⟩ := anc_proper hyx' hyx
        exact (hpar ⟨p, hp⟩).elim
      · exact (hyx (C.disc_inj y x hyn hx heq)).elim
      · have hxy : AncT T x y := C.nocross x y hx hyn hadj hgt
        obtain ⟨c, hc, hcy⟩ := anc_first_child hxy (Ne.symm hyx)
        exact ⟨c, hc, sub_reach C hc hcy⟩
    intro y z hy hz hyx hzx
    obtain ⟨c1, hc1, r1⟩ := hub y (adj_symm hu hy) hyx
    obtain ⟨c2, hc2, r2⟩ := hub z hz hzx
    have : c1 = c2 := by
      apply Classical.byContradiction
      intro hne
      exact hnr (Or.inr ⟨hpar, c1, c2, hne, hc1, hc2⟩)
    subst this
    exact reach_trans (hsymm r1) r2

/-- **a DFS certificate characterises the cut vertices** -/
theorem cert_cut (hu : g.directed = false) (hwf : g.WellFormed) (C : DfsCert g B disc low T res)
    (x : Nat) : res x ↔ CutVertex g x := by
  constructor
  · exact res_cut hu hwf C x
  · intro hcut
    apply Classical.byContradiction
    intro hr
    obtain ⟨hx, u, w, _, _, hux, hwx, huw, hnuw⟩ := (cutVertex_iff_separates g hu hwf.1 x).mp hcut
    exact hnuw ((reach_avoid x (nonres_nbrs hu hwf C x hx hr) huw hux).1 hwx)

end
end PetgraphModel.C16P.W2Ap
