import PetgraphModel.Spec.C05Scope
import PetgraphModel.Proofs.CsrReaders
import PetgraphModel.Proofs.AdjList
/-
C05, wave 5 — soundness of the run-time checks of `Spec/C05Scope.lean`: a check that evaluates to `true` implies
the hypothesis of the C05 theorems it stands for.
-/
set_option linter.style.nameCheck false
namespace PetgraphModel.CsrProofs
open PetgraphModel.CsrM PetgraphModel.AppendSpec PetgraphModel.C05Scope

theorem offsetsOf_eq (acc : Nat) (R : List Row) : offsetsOf acc R = offsets acc R := by
  induction R generalizing acc with
  | nil => rfl
  | cons r rs ih => simp [offsetsOf, offsets, ih]

theorem lookupKey_none_of_forall (k : Nat × Nat) (es : List ((Nat × Nat) × Int)) (h : ∀ e ∈ es, e.1 ≠ k) :
    lookupKey k es = none := by
  induction es with
  | nil => rfl
  | cons e es ih =>
    obtain ⟨k', w⟩ := e
    have h1 : k' ≠ k := h (k', w) (List.mem_cons_self ..)
    simp only [lookupKey, h1, if_false]
    exact ih fun e he => h e (List.mem_cons_of_mem _ he)

/-- an abstract graph whose edges only mention existing nodes has no edge at a node that does not exist -/
theorem SG.lookup_oob (g : SG) (hk : ∀ e ∈ g.edges, e.1.1 < g.n ∧ e.1.2 < g.n) (a b : Nat)
    (h : g.n ≤ a ∨ g.n ≤ b) : g.lookup a b = none := by
  unfold SG.lookup
  apply lookupKey_none_of_forall
  intro e he heq
  have := hk e he
  unfold key at heq
  split at heq <;> (rw [heq] at this; simp at this; omega)

theorem key_false_comm (x y : Nat) : key false x y = key false y x := by
  unfold key
  by_cases h1 : x ≤ y <;> by_cases h2 : y ≤ x <;> simp [h1, h2]
  · have : x = y := by omega
    subst this; exact ⟨rfl, rfl⟩
  · omega

theorem rowsOfSG_length (g : SG) : (rowsOfSG g).length = g.n := by simp [rowsOfSG]

theorem rowsOfSG_getElem (g : SG) (a : Nat) (h : a < (rowsOfSG g).length) : (rowsOfSG g)[a] = g.succ a := by
  simp [rowsOfSG]

theorem rowsOfSG_ok (g : SG) : RowsOK (rowsOfSG g) := by
  intro r hr
  obtain ⟨a, ha, rfl⟩ := List.getElem_of_mem hr
  rw [rowsOfSG_getElem, rowsOfSG_length, SG.succ_eq_tabulate]
  exact ⟨tabulate_asc _ _, tabulate_keys_lt _ _⟩

theorem rowsOfSG_look (g : SG) (hk : ∀ e ∈ g.edges, e.1.1 < g.n ∧ e.1.2 < g.n) (a b : Nat) :
    look (rowsOfSG g) a b = g.lookup a b := by
  by_cases ha : a < g.n
  · have ha' : a < (rowsOfSG g).length := by rw [rowsOfSG_length]; exact ha
    rw [look_of_lt _ a b ha', rowsOfSG_getElem, SG.succ_eq_tabulate, lookupRow_tabulate]
    by_cases hb : b < g.n
    · simp [hb]
    · simp only [hb, if_false]; exact (SG.lookup_oob g hk a b (Or.inr (by omega))).symm
  · rw [look_of_ge _ a b (by rw [rowsOfSG_length]; omega)]
    exact (SG.lookup_oob g hk a b (Or.inl (by omega))).symm

/-- **soundness of the Csr scope check** -/
theorem csrScope_check (s : State) (g : SG) (h : csrScopeB s g = true) :
    Good s (rowsOfSG g) ∧ Abs s (rowsOfSG g) g := by
  simp only [csrScopeB, Bool.and_eq_true, beq_iff_eq, Bool.or_eq_true, Bool.not_eq_true', List.all_eq_true,
    decide_eq_true_eq] at h
  obtain ⟨⟨⟨⟨⟨⟨⟨hcol, hwts⟩, hrow⟩, hnodes⟩, hdir⟩, hcount⟩, hdc⟩, hk⟩ := h
  have hk' : ∀ e ∈ g.edges, e.1.1 < g.n ∧ e.1.2 < g.n := hk
  have hlook := rowsOfSG_look g hk'
  refine ⟨⟨⟨hcol, hwts, by rw [hrow, offsetsOf_eq], ?_⟩, rowsOfSG_ok g, ?_, ?_⟩, ⟨hdir, hnodes, hlook, hcount⟩⟩
  · rw [rowsOfSG_length, SG.n, hnodes]
  · intro hd x y
    rw [hlook, hlook]
    unfold SG.lookup
    rw [hdir, hd, key_false_comm]
  · intro hd
    rcases hdc with h1 | h1
    · rw [hd] at h1; cases h1
    · exact h1

theorem capB_iff (m n : Nat) : capB m n = true ↔ (m = 0 ∨ n ≤ m) := by
  simp [capB]

theorem ascB_iff (xs : List Nat) : ascB xs = true ↔ Asc xs := by
  unfold Asc
  induction xs with
  | nil => simp [ascB]
  | cons x xs ih =>
    cases xs with
    | nil => simp [ascB]
    | cons y rest =>
      simp only [ascB, Bool.and_eq_true, decide_eq_true_eq, ih, List.pairwise_cons]
      constructor
      · rintro ⟨hxy, h1, h2⟩
        refine ⟨?_, h1, h2⟩
        intro z hz
        rcases List.mem_cons.mp hz with rfl | hz
        · exact hxy
        · exact Nat.lt_trans hxy (h1 z hz)
      · rintro ⟨h0, h1, h2⟩
        exact ⟨h0 y (List.mem_cons_self ..), h1, h2⟩

theorem sortedB_iff (xs : List Nat) : sortedB xs = true ↔ xs.Pairwise (· ≤ ·) := by
  induction xs with
  | nil => simp [sortedB]
  | cons x xs ih =>
    cases xs with
    | nil => simp [sortedB]
    | cons y rest =>
      simp only [sortedB, Bool.and_eq_true, decide_eq_true_eq, ih, List.pairwise_cons]
      constructor
      · rintro ⟨hxy, h1, h2⟩
        refine ⟨?_, h1, h2⟩
        intro z hz
        rcases List.mem_cons.mp hz with rfl | hz
        · exact hxy
        · exact Nat.le_trans hxy (h1 z hz)
      · rintro ⟨h0, h1, h2⟩
        exact ⟨h0 y (List.mem_cons_self ..), h1, h2⟩

theorem representableB_iff (m : Nat) (es : List Edge) :
    representableB m es = true ↔ (m = 0 ∨ ∀ e ∈ es, e.1 < m ∧ e.2.1 < m) := by
  simp [representableB]

end PetgraphModel.CsrProofs

namespace PetgraphModel.AdjProofs
open PetgraphModel.AdjM PetgraphModel.AppendSpec PetgraphModel.C05Scope

theorem rowOfML_eq (g : ML) (a : Nat) : rowOfML g a = rowOf g a := rfl

/-- **soundness of the adj::List scope check** -/
theorem listScope_check (s : State) (g : ML) (h : listScopeB s g = true) : LAbs s g := by
  simp only [listScopeB, Bool.and_eq_true, beq_iff_eq, List.all_eq_true, decide_eq_true_eq, List.mem_range] at h
  obtain ⟨⟨hsuc, hids⟩, hsrc⟩ := h
  refine ⟨by rw [hsuc]; simp, ?_, ?_, hsrc⟩
  · intro a ha
    rw [hsuc]; simp [ha, rowOfML_eq]
  · intro a
    by_cases ha : a < g.n
    · exact hids a ha
    · have : g.outOf a = [] := by
        unfold ML.outOf
        rw [List.filter_eq_nil_iff]
        intro e he
        have := hsrc e he
        simp; omega
      simp [this]

end PetgraphModel.AdjProofs
