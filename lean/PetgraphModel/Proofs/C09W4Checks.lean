import PetgraphModel.Proofs.C09W3Driver
import PetgraphModel.Proofs.C09W4Abstract
/-
C09 (wave 4, G-A): the run-time checks of `Oracle/C09Checks.lean` / `Driver/C09.lean` imply the
hypotheses of the C09 theorems — so every case the driver judges is provably inside their scope.
-/
namespace PetgraphModel.C09P
open PetgraphModel PetgraphModel.MGraph PetgraphModel.C09J PetgraphModel.C09M PetgraphModel.Trav

theorem wfB_sound {g : MGraph} (h : wfB g = true) : g.WellFormed := by
  simp only [wfB, Bool.and_eq_true, decide_eq_true_eq, List.all_eq_true, List.contains_iff_mem] at h
  exact ⟨h.1, fun e he => h.2 e he⟩

theorem lookup_empty_of_all {rows : List (Nat × List (Nat × Nat))} {nodes : List Nat}
    (h : rows.all (fun r => nodes.contains r.1 || r.2.isEmpty) = true) {a : Nat} (ha : a ∉ nodes) :
    (rows.lookup a).getD [] = [] := by
  induction rows with
  | nil => rfl
  | cons r rest ih =>
    simp only [List.all_cons, Bool.and_eq_true] at h
    obtain ⟨k, row⟩ := r
    simp only [List.lookup_cons]
    by_cases hk : a = k
    · subst hk
      simp only [beq_self_eq_true]
      have := h.1
      simp only [Bool.or_eq_true, List.contains_iff_mem, List.isEmpty_iff] at this
      rcases this with h' | h'
      · exact absurd h' ha
      · simpa using h'
    · have : (a == k) = false := by simpa using hk
      simp only [this]
      exact ih h.2

theorem houtB_sound {v : View} (h : houtB v = true) :
    ∀ a, a ∉ v.g.nodes → v.succ a = [] ∧ v.pred a = [] := by
  simp only [houtB, Bool.and_eq_true] at h
  intro a ha
  constructor
  · simp only [View.succ, View.outOf, lookup_empty_of_all h.1 ha, List.map_nil]
  · simp only [View.pred, View.innOf, lookup_empty_of_all h.2 ha, List.map_nil]

theorem ixOkB_sound {v : View} (h : ixOkB v = true) : IxLt v ∧ IxInj v := by
  simp only [ixOkB, Bool.and_eq_true, List.all_eq_true, decide_eq_true_eq, Bool.or_eq_true, bne_iff_ne,
    ne_eq, beq_iff_eq] at h
  refine ⟨h.1, fun a ha b hb hab => ?_⟩
  rcases h.2 a ha b hb with h' | h'
  · exact absurd hab h'
  · exact h'

theorem sizeB_sound {v : View} (h : sizeB v = true) : 2 * v.g.nodes.length + 1 ≤ usizeMax := by
  simpa [sizeB] using h

theorem compactB_sound {v : View} (h : compactB v = true) : Compact v := by
  simp only [compactB, List.all_eq_true, List.mem_range, List.any_eq_true, beq_iff_eq] at h
  exact fun i hi => h i hi

theorem erSetOkB_sound {g : MGraph} {er : List (Nat × Nat)} (h : erSetOkB g er = true) : ErSet g er := by
  simp only [erSetOkB, Bool.and_eq_true, List.all_eq_true, List.any_eq_true, beq_iff_eq] at h
  intro a b
  rw [uadj_iff_normP, uadj_iff_normP]
  constructor
  · intro hm
    obtain ⟨p, hp, hpe⟩ := List.mem_map.mp hm
    obtain ⟨q, hq, hqe⟩ := h.1 p hp
    exact List.mem_map.mpr ⟨q, hq, hqe.trans hpe⟩
  · intro hm
    obtain ⟨q, hq, hqe⟩ := List.mem_map.mp hm
    obtain ⟨p, hp, hpe⟩ := h.2 q hq
    exact List.mem_map.mpr ⟨p, hp, hpe.trans hqe⟩

theorem erOkB_sound {g : MGraph} {er : List (Nat × Nat)} (h : erOkB g er = true) : ErOk g er :=
  List.isPerm_iff.mp h

theorem eoOkB_sound {v : View} {eo : List Nat} (h : eoOkB v eo = true) :
    (eo.filterMap v.edge?).Perm v.g.edges :=
  List.isPerm_iff.mp h

theorem nodeB_sound {g : MGraph} {a : Nat} (h : nodeB g a = true) : a ∈ g.nodes := by
  simpa [nodeB] using h

/-- everything the `graph` line check gives -/
structure CaseOk (v : View) : Prop where
  view : ViewOk v
  pred : ∀ a b, b ∈ v.pred a ↔ v.g.Adj b a
  succLe : TravProofs.SuccLe v
  predLe : TravProofs.PredLe v
  wf : v.g.WellFormed
  ixLt : IxLt v
  ixInj : IxInj v
  size : 2 * v.g.nodes.length + 1 ≤ usizeMax

theorem caseOkB_sound {v : View} (h : C09.caseOkB v = true) : CaseOk v := by
  simp only [C09.caseOkB, Bool.and_eq_true] at h
  obtain ⟨⟨⟨⟨hv, hw⟩, ho⟩, hi⟩, hs⟩ := h
  have hwf := wfB_sound hw
  have hvv := viewOkB_viewOk v hv hwf (houtB_sound ho)
  exact ⟨hvv.1, hvv.2, viewOkB_succLe v hv, viewOkB_predLe v hv, hwf, (ixOkB_sound hi).1, (ixOkB_sound hi).2,
    sizeB_sound hs⟩

/-- the driver accepts the `graph` line exactly when `caseOkB` holds -/
theorem caseWhy_none_iff (v : View) : C09.caseWhy v = none ↔ C09.caseOkB v = true := by
  unfold C09.caseWhy C09.caseOkB
  cases viewOkB_eq : C09.viewOkB v <;> cases wfB v.g <;> cases houtB v <;> cases ixOkB v <;> cases sizeB v <;> simp

theorem closed_of_caseOk {v : View} (h : CaseOk v) : Closed v ∧ Closed (rev v) :=
  ⟨closed_of_viewOk h.view h.wf, closed_rev h.pred h.wf⟩

end PetgraphModel.C09P
