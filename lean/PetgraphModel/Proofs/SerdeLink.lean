import PetgraphModel.Proofs.SerdeBase
/-
Helper lemmas for C17 (part 2): `link_edges` of `Graph` and `StableGraph` establishes the linked-list invariant.
-/
namespace PetgraphModel.SerdeProofs
open PetgraphModel.Serde

/-- what `linkNodes` does to slot `i` -/
def relink (a b e i : Nat) (nd : NodeSlot) : NodeSlot :=
  { w := nd.w, n0 := if i = a then e else nd.n0, n1 := if i = b then e else nd.n1 }

theorem linkNodes_some {nodes : List NodeSlot} {a b e : Nat} {ns : List NodeSlot} {x0 x1 : Nat}
    (h : linkNodes nodes a b e = some (ns, x0, x1)) :
    ∃ an bn, nodes[a]? = some an ∧ nodes[b]? = some bn ∧ x0 = an.n0 ∧ x1 = bn.n1 ∧
      ns.length = nodes.length ∧ ∀ i, ns[i]? = (nodes[i]?).map (relink a b e i) := by
  unfold linkNodes at h
  by_cases hmax : Nat.max a b ≥ nodes.length
  · simp [hmax] at h
  · rw [if_neg hmax] at h
    cases ha : nodes[a]? with
    | none => simp [ha] at h
    | some an =>
      cases hb : nodes[b]? with
      | none => simp [ha, hb] at h
      | some bn =>
        have hal : a < nodes.length := (List.getElem?_eq_some_iff.1 ha).1
        have hbl : b < nodes.length := (List.getElem?_eq_some_iff.1 hb).1
        have ha' : nodes[a] = an := (List.getElem?_eq_some_iff.1 ha).2
        have hb' : nodes[b] = bn := (List.getElem?_eq_some_iff.1 hb).2
        simp only [ha, hb] at h
        refine ⟨an, bn, rfl, rfl, ?_⟩
        by_cases hab : a = b
        · subst hab
          rw [if_pos rfl] at h
          simp only [Option.some.injEq, Prod.mk.injEq] at h
          obtain ⟨rfl, rfl, rfl⟩ := h
          have : an = bn := by simp_all
          subst this
          refine ⟨rfl, rfl, by simp, ?_⟩
          intro i
          rw [List.getElem?_set]
          by_cases hi : a = i
          · subst hi; simp [hal, ha', relink]
          · have : ¬ i = a := fun h => hi h.symm
            simp only [hi, if_false]
            cases hn : nodes[i]? <;> simp [relink, this]
        · rw [if_neg hab] at h
          simp only [Option.some.injEq, Prod.mk.injEq] at h
          obtain ⟨rfl, rfl, rfl⟩ := h
          refine ⟨rfl, rfl, by simp, ?_⟩
          intro i
          rw [List.getElem?_set, List.getElem?_set]
          by_cases hib : b = i
          · subst hib
            have h2 : ¬ b = a := fun h => hab h.symm
            simp [hbl, hb', relink, h2]
          · by_cases hia : a = i
            · subst hia
              simp [hal, ha', relink, hib, hab]
            · have h1 : ¬ i = a := fun h => hia h.symm
              have h2 : ¬ i = b := fun h => hib h.symm
              simp only [hib, hia, if_false]
              cases hn : nodes[i]? <;> simp [relink, h1, h2]

/-! ### the adjacency lists `link_edges` builds -/

def incP (k i : Nat) (s : EdgeSlot) : Bool := s.w.isSome && s.node k == i

/-- live edges whose endpoint `k` is node `i`, most recent first -/
def incident (edges : List EdgeSlot) (k i : Nat) : List Nat := idxDesc (incP k i) edges edges.length
def vacantE (edges : List EdgeSlot) : List Nat := idxDesc (fun (s : EdgeSlot) => s.w.isNone) edges edges.length
def vacantN (nodes : List NodeSlot) : List Nat := idxDesc (fun (s : NodeSlot) => s.w.isNone) nodes nodes.length

theorem incident_snoc (edges : List EdgeSlot) (x : EdgeSlot) (k i : Nat) :
    incident (edges ++ [x]) k i = if incP k i x then edges.length :: incident edges k i else incident edges k i := by
  unfold incident
  rw [List.length_append, List.length_singleton]
  exact idxDesc_snoc ..

theorem vacantE_snoc (edges : List EdgeSlot) (x : EdgeSlot) :
    vacantE (edges ++ [x]) = if x.w.isNone then edges.length :: vacantE edges else vacantE edges := by
  unfold vacantE
  rw [List.length_append, List.length_singleton]
  exact idxDesc_snoc ..

theorem vacantN_snoc (nodes : List NodeSlot) (x : NodeSlot) :
    vacantN (nodes ++ [x]) = if x.w.isNone then nodes.length :: vacantN nodes else vacantN nodes := by
  unfold vacantN
  rw [List.length_append, List.length_singleton]
  exact idxDesc_snoc ..

/-- adjacency part of the invariant: every live node's two lists are exactly its incident live edges (here in the
    order `link_edges` produces: descending edge index), every live edge joins live nodes -/
structure Linked (END : Nat) (nodes : List NodeSlot) (done : List EdgeSlot) : Prop where
  heads : ∀ (i : Nat) (nd : NodeSlot), nodes[i]? = some nd → nd.w.isSome = true →
    Chain done END 0 nd.n0 (incident done 0 i) ∧ Chain done END 1 nd.n1 (incident done 1 i)
  endpoints : ∀ (e : Nat) (s : EdgeSlot), done[e]? = some s → s.w.isSome = true →
    (∃ a : NodeSlot, nodes[s.src]? = some a ∧ a.w.isSome = true) ∧ (∃ b : NodeSlot, nodes[s.tgt]? = some b ∧ b.w.isSome = true)

theorem getElem?_snoc_cases {α} (l : List α) (x : α) (e : Nat) (s : α) (h : (l ++ [x])[e]? = some s) :
    l[e]? = some s ∨ (e = l.length ∧ s = x) := by
  by_cases he : e < l.length
  · left; rwa [List.getElem?_append_left he] at h
  · right
    have hl := (List.getElem?_eq_some_iff.1 h).1
    simp at hl
    have : e = l.length := by omega
    subst this
    simp at h
    exact ⟨rfl, h.symm⟩

theorem Linked.step_vacant {END : Nat} {nodes : List NodeSlot} {done : List EdgeSlot} (x : EdgeSlot)
    (L : Linked END nodes done) (hx : x.w = none) : Linked END nodes (done ++ [x]) := by
  constructor
  · intro i nd hi hl
    obtain ⟨c0, c1⟩ := L.heads i nd hi hl
    rw [incident_snoc, incident_snoc]
    simp only [incP, hx, Option.isSome_none, Bool.false_and, Bool.false_eq_true, if_false]
    exact ⟨c0.snoc x, c1.snoc x⟩
  · intro e s hs hl
    rcases getElem?_snoc_cases done x e s hs with h | ⟨_, rfl⟩
    · exact L.endpoints e s h hl
    · simp [hx] at hl

theorem Linked.step_live {END : Nat} {nodes ns : List NodeSlot} {done : List EdgeSlot} (e : EdgeSlot) {x0 x1 : Nat}
    (L : Linked END nodes done) (hl : linkNodes nodes e.src e.tgt done.length = some (ns, x0, x1))
    (hw : e.w.isSome = true)
    (ha : ∀ an, nodes[e.src]? = some an → an.w.isSome = true)
    (hb : ∀ bn, nodes[e.tgt]? = some bn → bn.w.isSome = true) :
    Linked END ns (done ++ [{ e with n0 := x0, n1 := x1 }]) := by
  obtain ⟨an, bn, han, hbn, rfl, rfl, hlen, hns⟩ := linkNodes_some hl
  constructor
  · intro i nd' hi hlive
    rw [hns i] at hi
    cases hnd : nodes[i]? with
    | none => simp [hnd] at hi
    | some nd =>
      simp only [hnd, Option.map_some, Option.some.injEq] at hi
      subst hi
      have hlive' : nd.w.isSome = true := by simpa [relink] using hlive
      obtain ⟨c0, c1⟩ := L.heads i nd hnd hlive'
      rw [incident_snoc, incident_snoc]
      constructor
      · by_cases hia : i = e.src
        · subst hia
          have : nd = an := by rw [hnd] at han; exact Option.some.inj han
          subst this
          have hp : incP 0 e.src ({ e with n0 := nd.n0, n1 := bn.n1 } : EdgeSlot) = true := by
            simp [incP, hw, EdgeSlot.node]
          rw [if_pos hp]
          have : (relink e.src e.tgt done.length e.src nd).n0 = done.length := by simp [relink]
          rw [this]
          exact c0.push _ (by simp [EdgeSlot.next])
        · have hp : incP 0 i ({ e with n0 := an.n0, n1 := bn.n1 } : EdgeSlot) = false := by
            simp [incP, EdgeSlot.node]; intro _; exact fun h => hia h.symm
          rw [hp]
          have : (relink e.src e.tgt done.length i nd).n0 = nd.n0 := by simp [relink, hia]
          rw [this]
          exact c0.snoc _
      · by_cases hib : i = e.tgt
        · subst hib
          have : nd = bn := by rw [hnd] at hbn; exact Option.some.inj hbn
          subst this
          have hp : incP 1 e.tgt ({ e with n0 := an.n0, n1 := nd.n1 } : EdgeSlot) = true := by
            simp [incP, hw, EdgeSlot.node]
          rw [if_pos hp]
          have : (relink e.src e.tgt done.length e.tgt nd).n1 = done.length := by simp [relink]
          rw [this]
          exact c1.push _ (by simp [EdgeSlot.next])
        · have hp : incP 1 i ({ e with n0 := an.n0, n1 := bn.n1 } : EdgeSlot) = false := by
            simp [incP, EdgeSlot.node]; intro _; exact fun h => hib h.symm
          rw [hp]
          have : (relink e.src e.tgt done.length i nd).n1 = nd.n1 := by simp [relink, hib]
          rw [this]
          exact c1.snoc _
  · intro e' s hs hlive
    have keep : ∀ (j : Nat) (nd : NodeSlot), nodes[j]? = some nd → nd.w.isSome = true → ∃ a : NodeSlot, ns[j]? = some a ∧ a.w.isSome = true := by
      intro j nd hj hjl
      refine ⟨relink e.src e.tgt done.length j nd, ?_, by simpa [relink] using hjl⟩
      rw [hns j, hj]; rfl
    rcases getElem?_snoc_cases done _ e' s hs with h | ⟨_, rfl⟩
    · obtain ⟨⟨a, ha1, ha2⟩, ⟨b, hb1, hb2⟩⟩ := L.endpoints e' s h hlive
      exact ⟨keep _ a ha1 ha2, keep _ b hb1 hb2⟩
    · exact ⟨keep _ an han (ha an han), keep _ bn hbn (hb bn hbn)⟩


/-! ### the edge loop of `StableGraph::link_edges` -/

/-- what serialization keeps of an edge slot -/
def skel (e : EdgeSlot) : Option Int × Nat × Nat := (e.w, e.src, e.tgt)

structure LinkInv (END : Nat) (st : LinkSt) : Prop where
  linked : Linked END st.nodes st.done
  free : Chain st.done END 0 st.free (vacantE st.done)
  count : st.count = (st.done.filter (fun (e : EdgeSlot) => e.w.isSome)).length

/-- how the node array may change while edges are linked: weights and vacant slots stay -/
structure NodesKept (nodes nodes' : List NodeSlot) : Prop where
  len : nodes'.length = nodes.length
  w : ∀ i : Nat, (nodes'[i]?).map (fun (n : NodeSlot) => n.w) = (nodes[i]?).map (fun (n : NodeSlot) => n.w)
  vac : ∀ (i : Nat) (nd : NodeSlot), nodes[i]? = some nd → nd.w = none → nodes'[i]? = some nd

theorem NodesKept.refl (nodes : List NodeSlot) : NodesKept nodes nodes :=
  ⟨rfl, fun _ => rfl, fun _ _ h _ => h⟩

theorem NodesKept.trans {a b c : List NodeSlot} (h1 : NodesKept a b) (h2 : NodesKept b c) : NodesKept a c :=
  ⟨h2.len.trans h1.len, fun i => (h2.w i).trans (h1.w i), fun i nd h hv => h2.vac i nd (h1.vac i nd h hv) hv⟩

theorem NodesKept.of_link {nodes ns : List NodeSlot} {a b e x0 x1 : Nat}
    (hl : linkNodes nodes a b e = some (ns, x0, x1))
    (ha : ∀ an : NodeSlot, nodes[a]? = some an → an.w.isSome = true)
    (hb : ∀ bn : NodeSlot, nodes[b]? = some bn → bn.w.isSome = true) : NodesKept nodes ns := by
  obtain ⟨an, bn, han, hbn, _, _, hlen, hns⟩ := linkNodes_some hl
  refine ⟨hlen, ?_, ?_⟩
  · intro i
    rw [hns i]
    cases nodes[i]? <;> simp [relink]
  · intro i nd hi hv
    rw [hns i, hi]
    have h1 : i ≠ a := by
      intro h; subst h
      have := ha nd hi; simp [hv] at this
    have h2 : i ≠ b := by
      intro h; subst h
      have := hb nd hi; simp [hv] at this
    simp [relink, h1, h2]

theorem linkEdgesStable_inv (END : Nat) (rest : List EdgeSlot) :
    ∀ (st st' : LinkSt), linkEdgesStable END rest st = .ok st' → LinkInv END st →
      LinkInv END st' ∧ NodesKept st.nodes st'.nodes ∧ st'.done.map skel = st.done.map skel ++ rest.map skel := by
  induction rest with
  | nil =>
    intro st st' h I
    simp only [linkEdgesStable, Except.ok.injEq] at h
    subst h
    exact ⟨I, NodesKept.refl _, by simp⟩
  | cons e rest ih =>
    intro st st' h I
    unfold linkEdgesStable at h
    by_cases hv : e.w.isNone = true
    · rw [if_pos hv] at h
      have hw : e.w = none := by simpa using hv
      obtain ⟨I', K, S⟩ := ih _ st' h (by
        constructor
        · exact I.linked.step_vacant _ (by simpa using hw)
        · show Chain (st.done ++ [_]) END 0 st.done.length (vacantE (st.done ++ [_]))
          rw [vacantE_snoc]
          simp only [hw, Option.isNone_none, if_true]
          exact I.free.push _ (by simp [EdgeSlot.next])
        · show st.count = _
          rw [List.filter_append]
          simp [hw, I.count])
      refine ⟨I', K, ?_⟩
      rw [S]; simp [skel]
    · rw [if_neg hv] at h
      have hw : e.w.isSome = true := by
        cases hh : e.w <;> simp_all
      by_cases hmax : Nat.max e.src e.tgt ≥ st.nodes.length
      · simp [hmax] at h
      · simp only [hmax, if_false] at h
        cases han : st.nodes[e.src]? with
        | none => simp [han] at h
        | some an =>
          cases hbn : st.nodes[e.tgt]? with
          | none => simp [han, hbn] at h
          | some bn =>
            simp only [han, hbn] at h
            by_cases hav : an.w.isNone = true
            · simp [hav] at h
            · rw [if_neg hav] at h
              by_cases hbv : bn.w.isNone = true
              · simp [hbv] at h
              · rw [if_neg hbv] at h
                cases hl : linkNodes st.nodes e.src e.tgt st.done.length with
                | none => simp [hl] at h
                | some r =>
                  obtain ⟨ns, x0, x1⟩ := r
                  simp only [hl] at h
                  have ha : ∀ an' : NodeSlot, st.nodes[e.src]? = some an' → an'.w.isSome = true := by
                    intro an' h'; rw [han] at h'; cases Option.some.inj h'
                    cases hh : an.w <;> simp_all
                  have hb : ∀ bn' : NodeSlot, st.nodes[e.tgt]? = some bn' → bn'.w.isSome = true := by
                    intro bn' h'; rw [hbn] at h'; cases Option.some.inj h'
                    cases hh : bn.w <;> simp_all
                  obtain ⟨I', K, S⟩ := ih _ st' h (by
                    constructor
                    · exact I.linked.step_live e hl hw ha hb
                    · show Chain (st.done ++ [_]) END 0 st.free (vacantE (st.done ++ [_]))
                      rw [vacantE_snoc]
                      have : ({ e with n0 := x0, n1 := x1 } : EdgeSlot).w.isNone = false := by
                        cases hh : e.w <;> simp_all
                      rw [this]
                      exact I.free.snoc _
                    · show st.count + 1 = _
                      rw [List.filter_append]
                      simp [hw, I.count])
                  refine ⟨I', (NodesKept.of_link hl ha hb).trans K, ?_⟩
                  rw [S]; simp [skel]

end PetgraphModel.SerdeProofs
