import PetgraphModel.Proofs.C20W2Dsatur
import PetgraphModel.Model.C20DsaturHeap
/-
C20 (wave 3) — auxiliary lemmas for `Proofs/C20W3Dsatur.lean`: duplicate-free lists and `eraseDups`,
`leastFree` depends on the member set only, `setInsert`, the exact effect of the neighbour loop
`visitNbrs`, and the sum that bounds the number of pushes.
-/
namespace PetgraphModel.C20.DsaturHeap
open PetgraphModel PetgraphModel.MGraph

/-! ### lists -/

theorem eraseDups_nodup : ∀ (n : Nat) (l : List Nat), l.length ≤ n → l.eraseDups.Nodup := by
  intro n
  induction n with
  | zero =>
    intro l hl
    have : l = [] := List.eq_nil_of_length_eq_zero (by omega)
    subst this; simp
  | succ n ih =>
    intro l hl
    cases l with
    | nil => simp
    | cons a t =>
      rw [List.eraseDups_cons]
      refine List.nodup_cons.mpr ⟨?_, ih _ ?_⟩
      · rw [List.mem_eraseDups]
        simp
      · have := List.length_filter_le (fun b => !b == a) t
        simp only [List.length_cons] at hl
        omega

/-- a duplicate-free list with the members of `l₂` is as long as `l₂.eraseDups` -/
theorem length_eq_eraseDups {l₁ l₂ : List Nat} (h₁ : l₁.Nodup) (h : ∀ c, c ∈ l₁ ↔ c ∈ l₂) :
    l₁.length = l₂.eraseDups.length := by
  apply List.Perm.length_eq
  rw [List.perm_ext_iff_of_nodup h₁ (eraseDups_nodup _ l₂ (Nat.le_refl _))]
  intro c
  rw [List.mem_eraseDups]
  exact h c

theorem foldl_max_eq (l : List Nat) (a : Nat) : l.foldl max a = max a (l.foldl max 0) := by
  induction l generalizing a with
  | nil => simp
  | cons y t ih =>
    simp only [List.foldl_cons]
    rw [ih (max a y), ih (max 0 y)]
    omega

theorem maxOf_cons (c : Nat) (l : List Nat) : Dsatur.maxOf (c :: l) = max (Dsatur.maxOf l) c := by
  unfold Dsatur.maxOf
  simp only [List.foldl_cons]
  rw [foldl_max_eq]
  omega

/-- `leastFree` depends on the member set only -/
theorem leastFree_congr {a b : List Nat} (h : ∀ c, c ∈ a ↔ c ∈ b) : Dsatur.leastFree a = Dsatur.leastFree b := by
  have ha := Dsatur.leastFree_spec a
  have hb := Dsatur.leastFree_spec b
  rcases Nat.lt_trichotomy (Dsatur.leastFree a) (Dsatur.leastFree b) with hlt | heq | hgt
  · exact absurd ((h _).mpr (hb.2 _ hlt)) ha.1
  · exact heq
  · exact absurd ((h _).mp (ha.2 _ hgt)) hb.1

/-! ### `setInsert` -/

theorem mem_setInsert {s : List Nat} {c x : Nat} : x ∈ setInsert s c ↔ x ∈ s ∨ x = c := by
  unfold setInsert
  split
  · rename_i hc
    have hc' : c ∈ s := by simpa using hc
    constructor
    · exact Or.inl
    · rintro (h | h)
      · exact h
      · exact h ▸ hc'
  · simp

theorem setInsert_nodup {s : List Nat} {c : Nat} (h : s.Nodup) : (setInsert s c).Nodup := by
  unfold setInsert
  split
  · exact h
  · rename_i hc
    have hc' : c ∉ s := by simpa using hc
    rw [List.nodup_append]
    refine ⟨h, by simp, ?_⟩
    intro a ha b hb
    simp only [List.mem_singleton] at hb
    subst hb
    intro e
    exact hc' (e ▸ ha)

theorem setInsert_idem (s : List Nat) (c : Nat) : setInsert (setInsert s c) c = setInsert s c := by
  have : c ∈ setInsert s c := mem_setInsert.mpr (Or.inr rfl)
  generalize setInsert s c = s' at this ⊢
  unfold setInsert
  simp [this]

theorem length_le_setInsert (s : List Nat) (c : Nat) : s.length ≤ (setInsert s c).length := by
  unfold setInsert
  split <;> simp

/-! ### the neighbour loop -/

theorem adjOf_cons (m : List (Nat × List Nat)) (n : Nat) (s : List Nat) (w : Nat) :
    adjOf ((n, s) :: m) w = if w = n then s else adjOf m w := by
  unfold adjOf
  simp only [List.lookup_cons]
  by_cases h : w = n
  · subst h; simp
  · have : (w == n) = false := by simpa using h
    simp [this, h]

/-- the entry pushed for the neighbour `n` -/
def pushed (g : MGraph) (c : Nat) (m : List (Nat × List Nat)) (n : Nat) : Entry :=
  ((setInsert (adjOf m n) c).length, degOf g n, n)

/-- the exact effect of the neighbour loop: every neighbour's set gets the colour, and one entry per
neighbour (with the new size of its set) is appended to the heap -/
theorem visitNbrs_spec (g : MGraph) (c : Nat) : ∀ (nbrs : List Nat) (st : St),
    (visitNbrs g c st nbrs).seen = st.seen ∧ (visitNbrs g c st nbrs).colored = st.colored ∧
    (visitNbrs g c st nbrs).maxColor = st.maxColor ∧
    (∀ w, adjOf (visitNbrs g c st nbrs).adjCol w =
      if w ∈ nbrs then setInsert (adjOf st.adjCol w) c else adjOf st.adjCol w) ∧
    (visitNbrs g c st nbrs).queue = st.queue ++ nbrs.map (pushed g c st.adjCol) := by
  intro nbrs
  induction nbrs with
  | nil => intro st; simp [visitNbrs]
  | cons n t ih =>
    intro st
    have hstep : visitNbrs g c st (n :: t) = visitNbrs g c (visitNbr g c st n) t := rfl
    rw [hstep]
    obtain ⟨h1, h2, h3, h4, h5⟩ := ih (visitNbr g c st n)
    have hadj : ∀ w, adjOf (visitNbr g c st n).adjCol w =
        if w = n then setInsert (adjOf st.adjCol n) c else adjOf st.adjCol w := by
      intro w
      simp only [visitNbr]
      exact adjOf_cons _ _ _ _
    have hins : ∀ w, setInsert (adjOf (visitNbr g c st n).adjCol w) c = setInsert (adjOf st.adjCol w) c := by
      intro w
      rw [hadj w]
      split
      · rename_i e; subst e; exact setInsert_idem _ _
      · rfl
    refine ⟨h1, h2, h3, ?_, ?_⟩
    · intro w
      rw [h4 w]
      by_cases hw : w ∈ t
      · simp only [hw, if_true, List.mem_cons, or_true]
        exact hins w
      · simp only [hw, if_false, List.mem_cons, or_false]
        rw [hadj w]
        split
        · rename_i e; subst e; rfl
        · rfl
    · rw [h5]
      have hq : (visitNbr g c st n).queue = st.queue ++ [pushed g c st.adjCol n] := rfl
      rw [hq, List.map_cons, List.append_assoc, List.singleton_append]
      congr 2
      apply List.map_congr_left
      intro m _
      simp only [pushed]
      rw [hins m]

/-! ### the measure: pushes still to come -/

/-- the number of entries the not yet coloured nodes will push -/
def rem (g : MGraph) (order : List Nat) : Nat :=
  ((g.nodes.filter fun w => !order.contains w).map fun w => (g.succ w).length).sum

theorem sum_filter_split (f : Nat → Nat) (order : List Nat) (v : Nat) (hv : v ∉ order) :
    ∀ (l : List Nat), l.Nodup → v ∈ l →
    ((l.filter fun w => !order.contains w).map f).sum =
      ((l.filter fun w => !(order ++ [v]).contains w).map f).sum + f v := by
  intro l
  induction l with
  | nil => intro _ h; cases h
  | cons a t ih =>
    intro hnd hmem
    have hnd' := List.nodup_cons.mp hnd
    by_cases hav : a = v
    · subst hav
      -- `a` does not occur in `t`: the two filters agree on `t`
      have hsame : (t.filter fun w => !order.contains w) = t.filter fun w => !(order ++ [a]).contains w := by
        apply List.filter_congr
        intro x hx
        have : x ≠ a := fun e => hnd'.1 (e ▸ hx)
        simp [this]
      simp only [List.filter_cons]
      have h1 : (!order.contains a) = true := by simpa using hv
      have h2 : (!(order ++ [a]).contains a) = false := by simp
      simp only [h1, h2, if_true, List.map_cons, List.sum_cons, hsame]
      simp
      omega
    · have hmem' : v ∈ t := by
        cases List.mem_cons.mp hmem with
        | inl e => exact absurd e.symm hav
        | inr e => exact e
      have := ih hnd'.2 hmem'
      simp only [List.filter_cons]
      by_cases hao : a ∈ order
      · have h1 : (!order.contains a) = false := by simpa using hao
        have h2 : (!(order ++ [v]).contains a) = false := by simp [hao]
        simp only [h1, h2]
        simpa using this
      · have h1 : (!order.contains a) = true := by simpa using hao
        have h2 : (!(order ++ [v]).contains a) = true := by simp [hao, hav]
        simp only [h1, h2, if_true, List.map_cons, List.sum_cons]
        omega

theorem rem_step (g : MGraph) (hnd : g.nodes.Nodup) (order : List Nat) (v : Nat) (hv : v ∈ g.nodes)
    (hvo : v ∉ order) : rem g order = rem g (order ++ [v]) + (g.succ v).length :=
  sum_filter_split (fun w => (g.succ w).length) order v hvo g.nodes hnd hv

theorem rem_nil (g : MGraph) : rem g [] = (g.nodes.map fun v => (g.succ v).length).sum := by
  have : (g.nodes.filter fun _ => true) = g.nodes := List.filter_eq_self.mpr (fun _ _ => rfl)
  simp [rem, this]

end PetgraphModel.C20.DsaturHeap
