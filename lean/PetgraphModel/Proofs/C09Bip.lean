import PetgraphModel.Proofs.C09Models
/-
`is_bipartite_undirected` (mirror model `C09M.bipartite`) decides 2-colourability of the component of
the start node, for every view whose neighbour iteration describes the graph.  Core Lean only.

Invariant: red / blue nodes are joined to `s` by a walk of even / odd length; a coloured node that has
left the queue has all its neighbours in the other colour.  `false` is answered at an edge between
two nodes whose walks have equal parity (an odd closed walk through `s`), `true` when the queue is
empty (then blue-membership is a proper colouring of everything reachable).
-/
namespace PetgraphModel.C09P
open PetgraphModel PetgraphModel.MGraph PetgraphModel.C09J PetgraphModel.C09M

/-- a walk from `s` to `x` whose length has parity `p` (`true` = odd) -/
inductive WalkPar (g : MGraph) (s : Nat) : Nat → Bool → Prop
  | zero : WalkPar g s s false
  | step {x y : Nat} {p : Bool} : WalkPar g s x p → g.Adj x y → WalkPar g s y (!p)

theorem walkPar_col {g : MGraph} {s : Nat} {col : Nat → Bool}
    (hcol : ∀ x y, Reach g s x → g.Adj x y → col x ≠ col y) {x : Nat} {p : Bool} (h : WalkPar g s x p) :
    Reach g s x ∧ col x = (col s != p) := by
  induction h with
  | zero => exact ⟨Reach.refl _, by simp⟩
  | step _ hadj ih =>
    rename_i x y p _
    refine ⟨Reach.step ih.1 hadj, ?_⟩
    have := hcol x y ih.1 hadj
    rw [ih.2] at this
    cases hs : col s <;> cases hp : p <;> cases hy : col y <;> simp_all

/-- two adjacent nodes with walks of equal parity: no proper 2-colouring of the component -/
theorem not_twoCol_of_same_parity {g : MGraph} {s x y : Nat} {p : Bool} (hx : WalkPar g s x p)
    (hy : WalkPar g s y p) (hadj : g.Adj x y) : ¬ TwoCol g s := by
  rintro ⟨col, hcol⟩
  have h1 := walkPar_col hcol hx
  have h2 := walkPar_col hcol hy
  exact hcol x y h1.1 hadj (h1.2.trans h2.2.symm)

structure BipInv (g : MGraph) (s : Nat) (cur : Option Nat) (q red blue : List Nat) : Prop where
  disj : ∀ x, x ∈ red → x ∈ blue → False
  redWalk : ∀ x ∈ red, WalkPar g s x false
  blueWalk : ∀ x ∈ blue, WalkPar g s x true
  queued : ∀ x ∈ q, x ∈ red ∨ x ∈ blue
  done : ∀ x, (x ∈ red ∨ x ∈ blue) → x ∉ q → some x ≠ cur →
    ∀ y, g.Adj x y → (x ∈ red → y ∈ blue) ∧ (x ∈ blue → y ∈ red)
  start : s ∈ red
  nodupQ : q.Nodup

/-- the neighbour loop of node `n` (coloured `isRed` xor `isBlue`, not in the queue any more) -/
theorem bipNeigh_spec {g : MGraph} {s n : Nat} : ∀ (ns q red blue : List Nat),
    BipInv g s (some n) q red blue → n ∉ q →
    (n ∈ red ∨ n ∈ blue) → (∀ y ∈ ns, g.Adj n y) →
    (match bipNeigh (red.contains n) (blue.contains n) ns q red blue with
     | none => ¬ TwoCol g s
     | some (q', red', blue') =>
        BipInv g s (some n) q' red' blue' ∧ n ∉ q' ∧ (∀ x ∈ red, x ∈ red') ∧ (∀ x ∈ blue, x ∈ blue') ∧
        (∀ y ∈ ns, (n ∈ red → y ∈ blue') ∧ (n ∈ blue → y ∈ red'))) := by
  intro ns
  induction ns with
  | nil =>
    intro q red blue inv hnq _ _
    simp only [bipNeigh]
    exact ⟨inv, hnq, fun _ h => h, fun _ h => h, by simp⟩
  | cons y ys ih =>
    intro q red blue inv hnq hn hadj
    have hny : g.Adj n y := hadj y (List.mem_cons_self ..)
    have hadj' : ∀ z ∈ ys, g.Adj n z := fun z hz => hadj z (List.mem_cons_of_mem _ hz)
    simp only [bipNeigh]
    by_cases hnr : n ∈ red
    · -- `n` is red
      have hnb : n ∉ blue := fun h => inv.disj n hnr h
      have cr : red.contains n = true := by simpa using hnr
      have cb : blue.contains n = false := by simpa using hnb
      simp only [cr, cb, Bool.true_and, Bool.false_and, Bool.or_false]
      by_cases hyr : y ∈ red
      · have : red.contains y = true := by simpa using hyr
        simp only [this, if_true]
        exact not_twoCol_of_same_parity (inv.redWalk n hnr) (inv.redWalk y hyr) hny
      · have c1 : red.contains y = false := by simpa using hyr
        by_cases hyb : y ∈ blue
        · have c2 : blue.contains y = true := by simpa using hyb
          simp only [c1, c2]
          have := ih q red blue inv hnq hn hadj'
          simp only [cr, cb] at this
          revert this
          cases bipNeigh true false ys q red blue with
          | none => exact fun h => h
          | some r =>
            obtain ⟨q', red', blue'⟩ := r
            rintro ⟨i1, i2, i3, i4, i5⟩
            refine ⟨i1, i2, i3, i4, ?_⟩
            intro z hz
            cases List.mem_cons.mp hz with
            | inl h => subst h; exact ⟨fun _ => i4 z hyb, fun h => absurd h hnb⟩
            | inr h => exact i5 z h
        · have c2 : blue.contains y = false := by simpa using hyb
          simp only [c1, c2]
          have hyn : y ≠ n := fun h => hyr (h ▸ hnr)
          have inv' : BipInv g s (some n) (q ++ [y]) red (y :: blue) := by
            refine ⟨?_, inv.redWalk, ?_, ?_, ?_, inv.start, ?_⟩
            rotate_right
            · refine List.nodup_append.mpr ⟨inv.nodupQ, by simp, ?_⟩
              intro a ha b hb hab
              have : b = y := by simpa using hb
              subst this; subst hab
              cases inv.queued a ha with
              | inl h => exact hyr h
              | inr h => exact hyb h
            · intro x hx hxb
              cases List.mem_cons.mp hxb with
              | inl h => exact hyr (h ▸ hx)
              | inr h => exact inv.disj x hx h
            · intro x hx
              cases List.mem_cons.mp hx with
              | inl h => subst h; exact WalkPar.step (inv.redWalk n hnr) hny
              | inr h => exact inv.blueWalk x h
            · intro x hx
              cases List.mem_append.mp hx with
              | inl h =>
                cases inv.queued x h with
                | inl h => exact Or.inl h
                | inr h => exact Or.inr (List.mem_cons_of_mem _ h)
              | inr h =>
                have : x = y := by simpa using h
                exact Or.inr (this ▸ List.mem_cons_self ..)
            · intro x hx hxq hxn z hz
              have hxq' : x ∉ q := fun h => hxq (List.mem_append_left _ h)
              have hxy : x ≠ y := fun h => hxq (List.mem_append_right _ (by simp [h]))
              have hx' : x ∈ red ∨ x ∈ blue := by
                cases hx with
                | inl h => exact Or.inl h
                | inr h =>
                  cases List.mem_cons.mp h with
                  | inl h => exact absurd h hxy
                  | inr h => exact Or.inr h
              have := inv.done x hx' hxq' hxn z hz
              refine ⟨fun h => List.mem_cons_of_mem _ (this.1 h), fun h => ?_⟩
              cases List.mem_cons.mp h with
              | inl h => exact absurd h hxy
              | inr h => exact this.2 h
          have hnq' : n ∉ q ++ [y] := by
            intro h
            cases List.mem_append.mp h with
            | inl h => exact hnq h
            | inr h =>
              have hh : n = y := by simpa using h
              exact hyn hh.symm
          have := ih (q ++ [y]) red (y :: blue) inv' hnq' (Or.inl hnr) hadj'
          have cb' : (y :: blue).contains n = false := by
            simp only [List.contains_cons, cb, Bool.or_false]
            simpa using fun h : n = y => hyn h.symm
          simp only [cr, cb'] at this
          simp only [Bool.not_false, Bool.and_self, if_true]
          revert this
          cases bipNeigh true false ys (q ++ [y]) red (y :: blue) with
          | none => exact fun h => h
          | some r =>
            obtain ⟨q', red', blue'⟩ := r
            rintro ⟨i1, i2, i3, i4, i5⟩
            refine ⟨i1, i2, i3, fun x hx => i4 x (List.mem_cons_of_mem _ hx), ?_⟩
            intro z hz
            cases List.mem_cons.mp hz with
            | inl h => subst h; exact ⟨fun _ => i4 z (List.mem_cons_self ..), fun h => absurd h hnb⟩
            | inr h => exact ⟨fun h' => (i5 z h).1 h', fun h' => absurd h' hnb⟩
    · -- `n` is blue
      have hnb : n ∈ blue := by
        cases hn with
        | inl h => exact absurd h hnr
        | inr h => exact h
      have cr : red.contains n = false := by simpa using hnr
      have cb : blue.contains n = true := by simpa using hnb
      simp only [cr, cb, Bool.true_and, Bool.false_and, Bool.false_or]
      by_cases hyb : y ∈ blue
      · have : blue.contains y = true := by simpa using hyb
        simp only [this, if_true]
        exact not_twoCol_of_same_parity (inv.blueWalk n hnb) (inv.blueWalk y hyb) hny
      · have c2 : blue.contains y = false := by simpa using hyb
        by_cases hyr : y ∈ red
        · have c1 : red.contains y = true := by simpa using hyr
          simp only [c1, c2]
          have := ih q red blue inv hnq hn hadj'
          simp only [cr, cb] at this
          revert this
          cases bipNeigh false true ys q red blue with
          | none => exact fun h => h
          | some r =>
            obtain ⟨q', red', blue'⟩ := r
            rintro ⟨i1, i2, i3, i4, i5⟩
            refine ⟨i1, i2, i3, i4, ?_⟩
            intro z hz
            cases List.mem_cons.mp hz with
            | inl h => subst h; exact ⟨fun h => absurd h hnr, fun _ => i3 z hyr⟩
            | inr h => exact i5 z h
        · have c1 : red.contains y = false := by simpa using hyr
          simp only [c1, c2]
          have hyn : y ≠ n := fun h => hyb (h ▸ hnb)
          have inv' : BipInv g s (some n) (q ++ [y]) (y :: red) blue := by
            refine ⟨?_, ?_, inv.blueWalk, ?_, ?_, List.mem_cons_of_mem _ inv.start, ?_⟩
            rotate_right
            · refine List.nodup_append.mpr ⟨inv.nodupQ, by simp, ?_⟩
              intro a ha b hb hab
              have : b = y := by simpa using hb
              subst this; subst hab
              cases inv.queued a ha with
              | inl h => exact hyr h
              | inr h => exact hyb h
            · intro x hxr hx
              cases List.mem_cons.mp hxr with
              | inl h => exact hyb (h ▸ hx)
              | inr h => exact inv.disj x h hx
            · intro x hx
              cases List.mem_cons.mp hx with
              | inl h =>
                subst h
                have := WalkPar.step (inv.blueWalk n hnb) hny
                simpa using this
              | inr h => exact inv.redWalk x h
            · intro x hx
              cases List.mem_append.mp hx with
              | inl h =>
                cases inv.queued x h with
                | inl h => exact Or.inl (List.mem_cons_of_mem _ h)
                | inr h => exact Or.inr h
              | inr h =>
                have : x = y := by simpa using h
                exact Or.inl (this ▸ List.mem_cons_self ..)
            · intro x hx hxq hxn z hz
              have hxq' : x ∉ q := fun h => hxq (List.mem_append_left _ h)
              have hxy : x ≠ y := fun h => hxq (List.mem_append_right _ (by simp [h]))
              have hx' : x ∈ red ∨ x ∈ blue := by
                cases hx with
                | inr h => exact Or.inr h
                | inl h =>
                  cases List.mem_cons.mp h with
                  | inl h => exact absurd h hxy
                  | inr h => exact Or.inl h
              have := inv.done x hx' hxq' hxn z hz
              refine ⟨fun h => ?_, fun h => List.mem_cons_of_mem _ (this.2 h)⟩
              cases List.mem_cons.mp h with
              | inl h => exact absurd h hxy
              | inr h => exact this.1 h
          have hnq' : n ∉ q ++ [y] := by
            intro h
            cases List.mem_append.mp h with
            | inl h => exact hnq h
            | inr h =>
              have hh : n = y := by simpa using h
              exact hyn hh.symm
          have := ih (q ++ [y]) (y :: red) blue inv' hnq' (Or.inr hnb) hadj'
          have cr' : (y :: red).contains n = false := by
            simp only [List.contains_cons, cr, Bool.or_false]
            simpa using fun h : n = y => hyn h.symm
          simp only [cr', cb] at this
          simp only [Bool.not_false, Bool.and_self, if_true]
          revert this
          cases bipNeigh false true ys (q ++ [y]) (y :: red) blue with
          | none => exact fun h => h
          | some r =>
            obtain ⟨q', red', blue'⟩ := r
            rintro ⟨i1, i2, i3, i4, i5⟩
            refine ⟨i1, i2, fun x hx => i3 x (List.mem_cons_of_mem _ hx), i4, ?_⟩
            intro z hz
            cases List.mem_cons.mp hz with
            | inl h => subst h; exact ⟨fun h => absurd h hnr, fun _ => i3 z (List.mem_cons_self ..)⟩
            | inr h => exact ⟨fun h' => absurd h' hnr, fun h' => (i5 z h).2 h'⟩

theorem bipLoop_spec (v : View) (hv : ViewOk v) (s : Nat) : ∀ (f : Nat) (q red blue : List Nat),
    BipInv v.g s none q red blue →
    (bipLoop v f q red blue = .answer true → TwoCol v.g s) ∧
    (bipLoop v f q red blue = .answer false → ¬ TwoCol v.g s) ∧
    bipLoop v f q red blue ≠ .panic := by
  intro f
  induction f with
  | zero => intro q red blue _; simp [bipLoop]
  | succ f ih =>
    intro q red blue inv
    cases q with
    | nil =>
      simp only [bipLoop]
      refine ⟨fun _ => ?_, (fun h => by cases h), (by intro h; cases h)⟩
      -- blue-membership is a proper colouring of everything reachable from `s`
      have hcol : ∀ x, Reach v.g s x → x ∈ red ∨ x ∈ blue := by
        intro x hx
        induction hx with
        | refl => exact Or.inl inv.start
        | step _ hadj ih =>
          have := inv.done _ ih (by simp) (by simp) _ hadj
          cases ih with
          | inl h => exact Or.inr (this.1 h)
          | inr h => exact Or.inl (this.2 h)
      refine ⟨fun x => blue.contains x, ?_⟩
      intro x y hx hxy
      have hd := inv.done x (hcol x hx) (by simp) (by simp) y hxy
      cases hcol x hx with
      | inl hr =>
        have hxb : x ∉ blue := fun h => inv.disj x hr h
        have hyb := hd.1 hr
        have e1 : blue.contains x = false := by simpa using hxb
        have e2 : blue.contains y = true := by simpa using hyb
        show blue.contains x ≠ blue.contains y
        rw [e1, e2]; simp
      | inr hb =>
        have hyr := hd.2 hb
        have hyb : y ∉ blue := fun h => inv.disj y hyr h
        have e1 : blue.contains x = true := by simpa using hb
        have e2 : blue.contains y = false := by simpa using hyb
        show blue.contains x ≠ blue.contains y
        rw [e1, e2]; simp
    | cons n q =>
      simp only [bipLoop]
      have hn : n ∈ red ∨ n ∈ blue := inv.queued n (List.mem_cons_self ..)
      have hne : (red.contains n == blue.contains n) = false := by
        cases hn with
        | inl h =>
          have : n ∉ blue := fun hb => inv.disj n h hb
          have e1 : red.contains n = true := by simpa using h
          have e2 : blue.contains n = false := by simpa using this
          rw [e1, e2]; rfl
        | inr h =>
          have : n ∉ red := fun hr => inv.disj n hr h
          have e1 : red.contains n = false := by simpa using this
          have e2 : blue.contains n = true := by simpa using h
          rw [e1, e2]; rfl
      simp only [hne, Bool.false_eq_true, if_false]
      have hnq : n ∉ q := (List.nodup_cons.mp inv.nodupQ).1
      have inv1 : BipInv v.g s (some n) q red blue := by
        refine ⟨inv.disj, inv.redWalk, inv.blueWalk, fun x hx => inv.queued x (List.mem_cons_of_mem _ hx), ?_, inv.start,
          (List.nodup_cons.mp inv.nodupQ).2⟩
        intro x hx hxq hxn z hz
        exact inv.done x hx (fun h => by
          cases List.mem_cons.mp h with
          | inl h => exact hxn (by rw [h])
          | inr h => exact hxq h) (by simp) z hz
      have hsp := bipNeigh_spec (v.succ n) q red blue inv1 hnq hn (fun y hy => (hv n y).mp hy)
      revert hsp
      cases bipNeigh (red.contains n) (blue.contains n) (v.succ n) q red blue with
      | none =>
        intro hsp
        exact ⟨(fun h => by cases h), (fun _ => hsp), (by intro h; cases h)⟩
      | some r =>
        obtain ⟨q', red', blue'⟩ := r
        rintro ⟨i1, i2, i3, i4, i5⟩
        apply ih q' red' blue'
        refine ⟨i1.disj, i1.redWalk, i1.blueWalk, i1.queued, ?_, i1.start, i1.nodupQ⟩
        intro x hx hxq _ z hz
        by_cases hxn : x = n
        · subst hxn
          have hz' : z ∈ v.succ x := (hv x z).mpr hz
          exact ⟨fun h => by
              cases hn with
              | inl hr => exact (i5 z hz').1 hr
              | inr hb => exact absurd (i4 x hb) (fun hb' => i1.disj x h hb'),
            fun h => by
              cases hn with
              | inr hb => exact (i5 z hz').2 hb
              | inl hr => exact absurd (i3 x hr) (fun hr' => i1.disj x hr' h)⟩
        · exact i1.done x hx hxq (by simpa using hxn) z hz

/-- **`is_bipartite_undirected` decides 2-colourability of the start node's component** (mirror model,
every view whose neighbour iteration describes the graph, any fuel): an answer `true` / `false` is
right, and the internal assertion never fires. -/
theorem bipartite_spec (v : View) (hv : ViewOk v) (s : Nat) :
    (∀ b, bipartite v s = .answer b → (b = true ↔ TwoCol v.g s)) ∧ bipartite v s ≠ .panic := by
  have inv0 : BipInv v.g s none [s] [s] [] := by
    refine ⟨by simp, ?_, by simp, by simp, ?_, by simp, by simp⟩
    · intro x hx
      have : x = s := by simpa using hx
      exact this ▸ WalkPar.zero
    · intro x hx hxq
      exfalso
      apply hxq
      cases hx with
      | inl h' => simpa using h'
      | inr h' => simp at h'
  obtain ⟨h1, h2, h3⟩ := bipLoop_spec v hv s (fuel v) [s] [s] [] inv0
  refine ⟨?_, h3⟩
  intro b hb
  cases b with
  | true => exact ⟨fun _ => h1 hb, fun _ => rfl⟩
  | false => exact ⟨(fun h => by cases h), (fun h => absurd h (h2 hb))⟩

end PetgraphModel.C09P
