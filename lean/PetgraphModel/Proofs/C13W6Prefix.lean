import PetgraphModel.Driver.C13
/-
C13, wave 6 — the driver's prefix run of the model's iterator (`iterPrefixR`: at most `k` calls of `next()` and
one more for the end flag) against its full drain (`iterModelR`: cap `n1!/(n1-n0)! + 2`): a prefix run that saw the
iterator END is the full drain.
-/
namespace PetgraphModel.C13
open PetgraphModel PetgraphModel.C13.Vf2

theorem iterLoopR_cap_mono (I : Inst) (fuel : Nat) :
    ∀ (k K : Nat) (m : M) (acc vs : List (List Nat)), k ≤ K →
      iterLoopR I fuel k m acc = some (vs, true) → iterLoopR I fuel K m acc = some (vs, true) := by
  intro k
  induction k with
  | zero =>
    intro K m acc vs _ h
    unfold iterLoopR at h
    cases K with
    | zero => unfold iterLoopR; exact h
    | succ K' =>
      unfold iterLoopR
      cases hi : isomorphisms I true fuel m with
      | none => rw [hi] at h; cases h
      | some x =>
        obtain ⟨m', r⟩ := x
        rw [hi] at h
        cases r with
        | none => exact h
        | some mp => simp at h
  | succ k ih =>
    intro K m acc vs hK h
    cases K with
    | zero => omega
    | succ K' =>
      unfold iterLoopR at h ⊢
      cases hi : isomorphisms I true fuel m with
      | none => rw [hi] at h; cases h
      | some x =>
        obtain ⟨m', r⟩ := x
        rw [hi] at h
        cases r with
        | none => exact h
        | some mp => exact ih K' m' _ vs (by omega) h

/-- a prefix run of the model that saw the iterator end is the model's full drain -/
theorem iterPrefixR_ended (I : Inst) (fuel k : Nat) (vs : List (List Nat))
    (hk : k ≤ fallingFact I.g1.n I.g0.n + 2)
    (h : iterPrefixR I fuel k = some (some (vs, true))) : iterModelR I fuel = some (some (vs, true)) := by
  unfold iterPrefixR at h
  unfold iterModelR
  split at h
  · cases h
  · rename_i hc
    rw [if_neg hc]
    cases hl : iterLoopR I fuel k (M.init I) [] with
    | none => rw [hl] at h; cases h
    | some x =>
      rw [hl] at h
      simp only [Option.map_some, Option.some.injEq] at h
      subst h
      rw [iterLoopR_cap_mono I fuel k _ (M.init I) [] vs hk hl]
      rfl

theorem iterPrefixR_none_iff (I : Inst) (fuel k : Nat) :
    iterPrefixR I fuel k = some none ↔ iterModelR I fuel = some none := by
  unfold iterPrefixR iterModelR
  split
  · simp
  · constructor
    · intro h
      cases hl : iterLoopR I fuel k (M.init I) [] <;> rw [hl] at h <;> simp at h
    · intro h
      cases hl : iterLoopR I fuel (fallingFact I.g1.n I.g0.n + 2) (M.init I) [] <;> rw [hl] at h <;> simp at h

end PetgraphModel.C13
