import PetgraphModel.Proofs.VisitTable
import PetgraphModel.Proofs.C06W3Spec
/-
C06 wave 3 — positive theorems about the adaptors AS THE CODE IS, for everything the findings D23 and D24 do not touch.
Every lemma is stated for an ARBITRARY setting `cfg` of the two switches, so it applies to `Cfg.asIs` whatever its current
definition is (both findings open, or D24 repaired in /repo and its switch off in `Cfg.asIs`).

* D24 only concerns `GetAdjacencyMatrix for Reversed`: `reversed Cfg.asIs t` is `reversed Cfg.ideal t` with the inner
  graph's adjacency rows in place of the transposed ones; every other trait is the ideal one.  Over an undirected inner
  view the adjacency relation is symmetric, so there the as-is adaptor is consistent on ALL traits.
* D23 only concerns `IntoNeighbors` / `IntoEdges` of `UndirectedAdaptor`.
* Stacks: no adaptor computes any other trait from the adjacency rows, and none computes a trait other than
  `neighbors` / `edges` from `neighbors` / `edges`; hence an as-is stack without `UndirectedAdaptor` agrees with the ideal
  stack on every trait but `is_adjacent`, an as-is stack with neither `Reversed` nor `UndirectedAdaptor` is the ideal stack,
  and ANY as-is stack agrees with the ideal one on everything but `neighbors`, `edges`, `is_adjacent`.
-/
namespace PetgraphModel.Visit
open PetgraphModel

/-- the view without its `GetAdjacencyMatrix` answers -/
def dropAdj (t : Table) : Table := { t with adj := none }

/-- the view without the three traits the findings D23 / D24 can reach: `neighbors`, `edges`, `is_adjacent` -/
def dropD (t : Table) : Table := { t with nbrs := none, edges := none, adj := none }

theorem dropAdj_consistent {qs : List Nat} {t : Table} (h : TableConsistent qs t) : TableConsistent qs (dropAdj t) := by
  refine ⟨h.ids, h.refs, h.index, h.compact, h.erefs, h.eix, h.nbrs, h.nbrsOut, h.nbrsIn, h.edges, h.edgesOut,
    h.edgesIn, ?_⟩
  intro er _ r hr; cases hr

theorem dropD_consistent {qs : List Nat} {t : Table} (h : TableConsistent qs t) : TableConsistent qs (dropD t) := by
  refine ⟨h.ids, h.refs, h.index, h.compact, h.erefs, h.eix, ?_, h.nbrsOut, h.nbrsIn, ?_, h.edgesOut,
    h.edgesIn, ?_⟩
  all_goals (intro er _ r hr; cases hr)

/-! ### `Reversed`, for any setting of the switches -/

/-- D24 in one line: `Reversed` is the ideal adaptor on every trait, except that with the switch on
`adjacency_matrix` / `is_adjacent` are the inner graph's -/
theorem reversed_cfg_eq (cfg : Cfg) (t : Table) :
    reversed cfg t = { reversed Cfg.ideal t with adj := if cfg.d24 then t.adj else (reversed Cfg.ideal t).adj } := rfl

theorem reversed_cfg_dropAdj (cfg : Cfg) (t : Table) : dropAdj (reversed cfg t) = dropAdj (reversed Cfg.ideal t) := rfl

/-- with the D24 switch off `Reversed` is the ideal adaptor, whatever the D23 switch -/
theorem reversed_eq_ideal (cfg : Cfg) (h24 : cfg.d24 = false) (t : Table) : reversed cfg t = reversed Cfg.ideal t := by
  rw [reversed_cfg_eq, h24]; rfl

/-- `Reversed` as it is: consistent on every trait except `is_adjacent` -/
theorem reversed_cfg_consistent {qs : List Nat} {t : Table} (cfg : Cfg) (h : TableConsistent qs t) :
    TableConsistent qs (dropAdj (reversed cfg t)) := by
  rw [reversed_cfg_dropAdj]; exact dropAdj_consistent (reversed_consistent h)

/-- over an UNDIRECTED inner view D24 is invisible: `Reversed` satisfies every clause, switch on or off -/
theorem reversed_cfg_consistent_undirected {qs : List Nat} {t : Table} (cfg : Cfg) (hd : t.directed = false)
    (h : TableConsistent qs t) : TableConsistent qs (reversed cfg t) := by
  have hi := reversed_consistent h
  cases h24 : cfg.d24 with
  | false => rw [reversed_eq_ideal cfg h24]; exact hi
  | true =>
    rw [reversed_cfg_eq, h24]
    refine ⟨hi.ids, hi.refs, hi.index, hi.compact, hi.erefs, hi.eix, hi.nbrs, hi.nbrsOut, hi.nbrsIn, hi.edges,
      hi.edgesOut, hi.edgesIn, ?_⟩
    show whenSome (t.erefs.map (·.map ERef.swap)) fun er' => whenSome t.adj fun r =>
      r.map (·.1) = qs ∧ ∀ a ∈ qs, ∀ b ∈ qs, (b ∈ rowOf r a ↔ expAdj t.directed er' a b = true)
    rw [whenSome_map]
    intro er her r hr
    obtain ⟨hk, hadj⟩ := h.adj er her r hr
    refine ⟨hk, fun a ha b hb => ?_⟩
    rw [hadj a ha b hb, expAdj_map_swap, hd, expAdj_und_symm]

/-! ### `UndirectedAdaptor`, for any setting of the switches -/

theorem undirected_cfg_dropD (cfg : Cfg) (t : Table) : dropD (undirected cfg t) = dropD (undirected Cfg.ideal t) := rfl

/-- `UndirectedAdaptor` as it is: consistent on every trait except `neighbors` / `edges` (D23) -/
theorem undirected_cfg_consistent {qs : List Nat} {t : Table} (cfg : Cfg) (h : TableConsistent qs t) :
    TableConsistent qs (dropD (undirected cfg t)) := by
  rw [undirected_cfg_dropD]; exact dropD_consistent (undirected_consistent h)

/-! ### stacks, for any setting of the switches -/

/-- no adaptor reads the adjacency rows to compute another trait -/
theorem dropAdj_applyOp_inner (cfg : Cfg) (op : Op) (t : Table) :
    dropAdj (applyOp cfg op t) = dropAdj (applyOp cfg op (dropAdj t)) := by
  cases op <;> rfl

/-- apart from `is_adjacent`, every adaptor but `UndirectedAdaptor` is the ideal one -/
theorem dropAdj_applyOp_cfg (cfg : Cfg) (op : Op) (hop : op ≠ .und) (t : Table) :
    dropAdj (applyOp cfg op t) = dropAdj (applyOp Cfg.ideal op t) := by
  cases op with
  | und => exact absurd rfl hop
  | _ => rfl

theorem dropAdj_applyStack (cfg : Cfg) (ops : List Op) (hops : Op.und ∉ ops) : ∀ (t t' : Table), dropAdj t = dropAdj t' →
    dropAdj (applyStack cfg ops t) = dropAdj (applyStack Cfg.ideal ops t') := by
  induction ops with
  | nil => intro t t' h; exact h
  | cons op ops ih =>
    intro t t' h
    simp only [applyStack, List.foldl_cons]
    have h1 : op ≠ .und := fun e => hops (by simp [e])
    have h2 : Op.und ∉ ops := fun e => hops (by simp [e])
    apply ih h2
    rw [dropAdj_applyOp_inner, h, ← dropAdj_applyOp_inner, dropAdj_applyOp_cfg cfg op h1]

/-- a stack AS IT IS that contains no `UndirectedAdaptor` agrees with the ideal stack on every trait but `is_adjacent`,
and is consistent there -/
theorem applyStack_cfg_without_und {qs : List Nat} (cfg : Cfg) (ops : List Op) (t : Table) (hund : Op.und ∉ ops)
    (hok : StackOk t.directed ops) (h : TableConsistent qs t) :
    dropAdj (applyStack cfg ops t) = dropAdj (applyStack Cfg.ideal ops t) ∧
    TableConsistent qs (dropAdj (applyStack cfg ops t)) := by
  have e := dropAdj_applyStack cfg ops hund t t rfl
  exact ⟨e, e ▸ dropAdj_consistent (applyStack_consistent ops t hok h)⟩

theorem undirected_eq_ideal (cfg : Cfg) (h23 : cfg.d23 = false) (t : Table) :
    undirected cfg t = undirected Cfg.ideal t := by
  unfold undirected; rw [h23]; rfl

theorem applyOp_cfg_eq_ideal (cfg : Cfg) (op : Op) (h1 : cfg.d24 = false ∨ op ≠ .rev) (h2 : cfg.d23 = false ∨ op ≠ .und)
    (t : Table) : applyOp cfg op t = applyOp Cfg.ideal op t := by
  cases op with
  | rev =>
    rcases h1 with h | h
    · exact reversed_eq_ideal cfg h t
    · exact absurd rfl h
  | und =>
    rcases h2 with h | h
    · exact undirected_eq_ideal cfg h t
    · exact absurd rfl h
  | _ => rfl

/-- a stack in which every adaptor whose finding is switched on is absent IS the ideal stack: with the D24 switch off
(or without `Reversed`) and with the D23 switch off (or without `UndirectedAdaptor`) -/
theorem applyStack_cfg_eq_ideal (cfg : Cfg) (ops : List Op) (hrev : cfg.d24 = false ∨ Op.rev ∉ ops)
    (hund : cfg.d23 = false ∨ Op.und ∉ ops) (t : Table) :
    applyStack cfg ops t = applyStack Cfg.ideal ops t := by
  induction ops generalizing t with
  | nil => rfl
  | cons op ops ih =>
    simp only [applyStack, List.foldl_cons]
    rw [applyOp_cfg_eq_ideal cfg op (hrev.imp id fun h e => h (by simp [e])) (hund.imp id fun h e => h (by simp [e]))]
    exact ih (hrev.imp id fun h e => h (by simp [e])) (hund.imp id fun h e => h (by simp [e])) _

/-- no adaptor computes a trait other than `neighbors` / `edges` / `is_adjacent` from those three -/
theorem dropD_applyOp_inner (cfg : Cfg) (op : Op) (t : Table) :
    dropD (applyOp cfg op t) = dropD (applyOp cfg op (dropD t)) := by
  cases op <;> rfl

theorem dropD_applyOp_cfg (cfg : Cfg) (op : Op) (t : Table) :
    dropD (applyOp cfg op t) = dropD (applyOp Cfg.ideal op t) := by
  cases op <;> rfl

theorem dropD_applyStack (cfg : Cfg) (ops : List Op) : ∀ (t t' : Table), dropD t = dropD t' →
    dropD (applyStack cfg ops t) = dropD (applyStack Cfg.ideal ops t') := by
  induction ops with
  | nil => intro t t' h; exact h
  | cons op ops ih =>
    intro t t' h
    simp only [applyStack, List.foldl_cons]
    apply ih
    rw [dropD_applyOp_inner, h, ← dropD_applyOp_inner, dropD_applyOp_cfg cfg op]

/-- EVERY stack as it is (any depth, `Reversed` and `UndirectedAdaptor` included) agrees with the ideal stack on all
traits but `neighbors`, `edges`, `is_adjacent` — identifiers, references, counts, both index traits, `edge_references`,
`neighbors_directed`, `edges_directed` — and is consistent there -/
theorem applyStack_cfg_unaffected {qs : List Nat} (cfg : Cfg) (ops : List Op) (t : Table)
    (hok : StackOk t.directed ops) (h : TableConsistent qs t) :
    dropD (applyStack cfg ops t) = dropD (applyStack Cfg.ideal ops t) ∧
    TableConsistent qs (dropD (applyStack cfg ops t)) := by
  have e := dropD_applyStack cfg ops t t rfl
  exact ⟨e, e ▸ dropD_consistent (applyStack_consistent ops t hok h)⟩

end PetgraphModel.Visit
