import PetgraphModel.Proofs.C08W4Judge
import PetgraphModel.Proofs.C08W4Prune
/-
C08 (wave 4): the clauses of the property about `depth_first_search`, bundled, in terms of the
ABSTRACT graph — what an event stream has to satisfy independently of any neighbour order — and the
proof that every stream the reference machine accepts on a view whose neighbour lists are permutations
of the abstract graph's satisfies them.  With `judgeEvents_sound` this is what the driver's `ok`
guarantees of an implementation answer.
-/
namespace PetgraphModel.TravProofs
open PetgraphModel PetgraphModel.Trav PetgraphModel.MGraph

/-- "reports a well-nested Discover/Finish pair for each reached node with strictly increasing times,
classifies every traversed edge correctly as tree, back or cross/forward, and honours
Continue/Prune/Break exactly", for the forward event list `L` of a traversal of `g` from `starts` whose
visitor answers the `k`-th event with `ctlAt script k`, and that ended with result `r`. -/
structure EventClauses (g : MGraph) (starts : List Nat) (script : List Ctl) (L : List Ev) (r : Res) : Prop where
  /-- times are `0, 1, 2, …` in order of the Discover/Finish events -/
  times : L.filterMap evTime = List.range (L.filterMap evTime).length
  /-- no node is discovered or finished twice; only discovered nodes are finished -/
  once : (discOf L).Nodup ∧ (finOf L).Nodup ∧ ∀ n, n ∈ finOf L → n ∈ discOf L
  /-- Discover/Finish match like brackets -/
  nested : nestRun [] L = some (openOf L)
  /-- on `Continue` nothing stays open: every discovered node is finished, the stream is balanced, and
  every start node was discovered -/
  closed : r = .cont → openOf L = [] ∧ (∀ n, n ∈ discOf L → n ∈ finOf L) ∧ Balanced L
  discover : ∀ pre post n t, L = pre ++ .discover n t :: post →
    n ∉ discOf pre ∧ ((openOf pre = [] ∧ n ∈ starts) ∨
      ∃ u pre', pre = pre' ++ [.tree u n] ∧ ctlAt script pre'.length = .cont)
  finish : ∀ pre post n t, L = pre ++ .finish n t :: post →
    (∃ rest, openOf pre = n :: rest) ∧ n ∈ discOf pre ∧ n ∉ finOf pre
  /-- tree edge: target undiscovered, source the innermost open call, an edge of the graph; answered
  `Continue` it is followed by the target's Discover -/
  tree : ∀ pre post u w, L = pre ++ .tree u w :: post →
    w ∉ discOf pre ∧ (∃ rest, openOf pre = u :: rest) ∧ g.Adj u w ∧
    (ctlAt script pre.length = .cont → ∃ t post', post = .discover w t :: post')
  /-- back edge: target is an unfinished ancestor (or the node itself) -/
  back : ∀ pre post u w, L = pre ++ .back u w :: post →
    w ∈ discOf pre ∧ w ∉ finOf pre ∧ (∃ rest, openOf pre = u :: rest ∧ w ∈ u :: rest) ∧ g.Adj u w
  /-- cross/forward edge: target finished -/
  cross : ∀ pre post u w, L = pre ++ .cross u w :: post →
    w ∈ finOf pre ∧ (∃ rest, openOf pre = u :: rest ∧ w ∉ u :: rest) ∧ g.Adj u w
  /-- every edge of a node that is not pruned is reported exactly once -/
  edgesComplete : ∀ pre mid post u t t', L = pre ++ .discover u t :: (mid ++ .finish u t' :: post) →
    ctlAt script pre.length ≠ .prune → (uEdges u mid).Perm (g.succ u)
  /-- `Break` stops at once -/
  brk : ∀ pre e post, L = pre ++ e :: post → ctlAt script pre.length = .brk → post = [] ∧ r = .brk
  resBrk : r = .brk ↔ ∃ pre e, L = pre ++ [e] ∧ ctlAt script pre.length = .brk
  /-- `Prune` on Discover goes straight to Finish -/
  pruneDiscover : ∀ pre post u t, L = pre ++ .discover u t :: post → ctlAt script pre.length = .prune →
    ∃ post', post = .finish u (t + 1) :: post'
  /-- `Prune` on a tree edge skips the subtree -/
  pruneTree : ∀ pre post u w, L = pre ++ .tree u w :: post → ctlAt script pre.length = .prune →
    ∃ e post', post = e :: post' ∧ fromNode u e
  /-- on back and cross/forward edges `Prune` is `Continue` -/
  nontree : ∀ pre post e u w, L = pre ++ e :: post → (e = .back u w ∨ e = .cross u w) →
    ctlAt script pre.length ≠ .brk → ∃ e' post', post = e' :: post' ∧ fromNode u e'
  /-- `Prune` on Finish is the documented panic -/
  pruneFinish : (∀ pre post n t, L = pre ++ .finish n t :: post → ctlAt script pre.length = .prune →
      post = [] ∧ r = .panicPruneFinish) ∧
    (r = .panicPruneFinish ↔ ∃ pre n t, L = pre ++ [.finish n t] ∧ ctlAt script pre.length = .prune)

theorem clauses_of_accepts {v : View} (hp : ∀ a, (v.succ a).Perm (v.g.succ a)) {starts : List Nat}
    {script : List Ctl} {L : List Ev} {r : Res} (h : Accepts v starts script L r) (hr : r ≠ .fuel) :
    EventClauses v.g starts script L r := by
  have adj : ∀ {u w}, w ∈ v.succ u → v.g.Adj u w := fun hw => MGraph.mem_succ.mp ((hp _).mem_iff.mp hw)
  refine ⟨acc_times h, acc_once h, (acc_nested h).1, ?_, ?_, ?_, ?_, ?_, ?_, ?_, ?_, acc_result_brk h, ?_, ?_, ?_, ?_⟩
  · intro hc
    subst hc
    exact ⟨(acc_nested h).2.1 rfl, (acc_nested h).2.2 rfl, acc_balanced h⟩
  · intro pre post n t hL; exact acc_discover h hL
  · intro pre post n t hL; exact acc_finish h hL
  · intro pre post u w hL
    obtain ⟨h1, h2, h3, h4⟩ := acc_tree h hL
    refine ⟨h1, h2, adj h3, fun hc => ?_⟩
    rcases h4 hc with h5 | ⟨_, h5⟩
    · exact h5
    · exact absurd h5 hr
  · intro pre post u w hL
    obtain ⟨h1, h2, h3, h4⟩ := acc_back h hL
    exact ⟨h1, h2, h3, adj h4⟩
  · intro pre post u w hL
    obtain ⟨h1, h2, h3⟩ := acc_cross h hL
    exact ⟨h1, h2, adj h3⟩
  · intro pre mid post u t t' hL hc
    rw [acc_edges_complete h hL hc]
    exact hp u
  · intro pre e post hL hc; exact acc_break h hL hc
  · intro pre post u t hL hc; exact acc_prune_discover h hL hc
  · intro pre post u w hL hc
    rcases acc_prune_tree h hL hc with ⟨_, h1⟩ | h1
    · exact absurd h1 hr
    · exact h1
  · intro pre post e u w hL he hc
    rcases acc_nontree_next h hL he hc with ⟨_, h1⟩ | h1
    · exact absurd h1 hr
    · exact h1
  · exact ⟨fun pre post n t hL hc => acc_prune_finish h hL hc, acc_result_panic h⟩

/-- **What the run-time judge's acceptance means.**  An implementation answer `evs | res` accepted by
`judgeEvents` satisfies every clause of the property about `depth_first_search` w.r.t. the abstract
graph and the control script; and when the traversal ran to completion every start node was discovered
and the discovered nodes are exactly those reachable from the start nodes respecting the prunes. -/
theorem judgeEvents_clauses (g : MGraph) (starts : List Nat) (script : List Ctl) (evs : List Ev) (res : String)
    (h : C08.judgeEvents g starts script evs res = none) :
    ∃ r, r ≠ .fuel ∧ res = resStr r ∧ EventClauses g starts script evs r ∧
      (r = .cont → (∀ x, x ∈ starts → x ∈ discOf evs) ∧
        ∀ x, x ∈ discOf evs ↔ ∃ s, s ∈ starts ∧ PReach g script evs s x) := by
  obtain ⟨v, r, hg, hperm, hv, hacc, hrf, hres, hst⟩ := judgeEvents_sound g starts script evs res h
  subst hg
  refine ⟨r, hrf, hres, clauses_of_accepts hperm hacc hrf, ?_⟩
  intro hc
  subst hc
  exact ⟨hst rfl, fun x => acc_reach_prune hv hacc (hst rfl) x⟩

end PetgraphModel.TravProofs
