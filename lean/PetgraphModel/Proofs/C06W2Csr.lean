import PetgraphModel.Model.C06Views
import PetgraphModel.Proofs.C06ExtractedNorm
import PetgraphModel.Proofs.C06W2Base
import PetgraphModel.Proofs.CsrIter
import PetgraphModel.Theorems.C05
/-
C06 wave 2 — the visit-trait table computed from the `Csr` storage model (`csrTable`, Model/C06ViewsCsr.lean) is
consistent.

Main results (end of file, namespace `PetgraphModel.Visit`; the helper lemmas live in `PetgraphModel.Visit.CsrW2`):
* `csrTable_consistent`       DIRECTED `Csr`: `TableConsistent (nodeIdentifiers s) (csrTable s)` — the code as it stands
* `csrTable_consistent_undirected`   UNDIRECTED `Csr` behind `repairD7` (finding D7 stays open for the unrepaired table)
* `csrTable_callsOk`          no trait call made for the table panics (both edge types)
* `csrTable_consistent_all_histories`, `csrTable_consistent_from_sorted`, `csrTable_consistent_all_histories_undirected`
                              the corollaries over every history from `with_nodes(n)` / `from_sorted_edges(..)`
Hypotheses: the representation invariant `C05T.Inv`; `IxFits s` (the node count does not exceed the capacity of the
index type `Ix`, so that `Ix::new(i)` is `i` for every node — without it `node_identifiers()` repeats ids);
for the undirected table in addition `EdgeCountOk` (no bound on the node count: wave 5, the pair code `pcode` of `repairD7`)
(`edge_count()` counts every edge once: not part of `C05T.Inv`, derived from the refinement relation `C05T.Abs`
in `csr_edgeCountOk`).
-/
set_option linter.style.nameCheck false
namespace PetgraphModel.Visit
open PetgraphModel PetgraphModel.CsrM PetgraphModel.CsrProofs PetgraphModel.Visit.CsrView

namespace CsrW2

/-- `Ix::new` does not wrap on the nodes of `s` -/
def IxFits (s : State) : Prop := s.modulus = 0 ∨ s.nodeCount ≤ s.modulus

theorem mkIx_of_lt {m n i : Nat} (h : m = 0 ∨ n ≤ m) (hi : i < n) : mkIx m i = i := by
  unfold mkIx
  rcases h with h | h
  · simp [h]
  · split
    · rfl
    · exact Nat.mod_eq_of_lt (by omega)

theorem nodeIdentifiers_eq {s : State} (hf : IxFits s) : nodeIdentifiers s = List.range s.nodeCount := by
  unfold nodeIdentifiers
  have : ∀ a ∈ List.range s.nodeCount, mkIx s.modulus a = id a := by
    intro a ha; exact mkIx_of_lt hf (List.mem_range.1 ha)
  rw [List.map_congr_left this, List.map_id]

/-! ### the references of one row and of all rows, as the harness prints them -/

/-- the references `zipRefs` makes of one row -/
def vrow (src st : Nat) (r : Row) : List Visit.ERef :=
  (zipRefs src st (r.map (·.1)) (r.map (·.2))).map eref

theorem vrow_nil (src st : Nat) : vrow src st [] = [] := by simp [vrow, zipRefs]

theorem vrow_cons (src st : Nat) (x : Nat × Int) (r : Row) :
    vrow src st (x :: r) = ⟨st, src, x.1, x.2⟩ :: vrow src (st + 1) r := by
  simp [vrow, zipRefs, eref]

theorem mem_vrow (src : Nat) (r : Row) : ∀ (st : Nat) (e : Visit.ERef),
    e ∈ vrow src st r ↔ ∃ j x, r[j]? = some x ∧ e = ⟨st + j, src, x.1, x.2⟩ := by
  induction r with
  | nil => intro st e; simp [vrow_nil]
  | cons y ys ih =>
    intro st e
    rw [vrow_cons, List.mem_cons, ih]
    constructor
    · rintro (h | ⟨j, x, hj, he⟩)
      · exact ⟨0, y, by simp, by simpa using h⟩
      · exact ⟨j + 1, x, by simpa using hj, by rw [he]; congr 1; omega⟩
    · rintro ⟨j, x, hj, he⟩
      cases j with
      | zero =>
        left
        have : y = x := by simpa using hj
        subst this; simpa using he
      | succ j => exact Or.inr ⟨j, x, by simpa using hj, by rw [he]; congr 1; omega⟩

theorem vrow_ids (src st : Nat) (r : Row) : (vrow src st r).map (·.id) = List.range' st r.length := by
  have := (zipRefs_proj src st r).2
  simpa [vrow, List.map_map, Function.comp_def, eref] using this

theorem vrow_tgt (src st : Nat) (r : Row) : (vrow src st r).map (·.tgt) = keys r := by
  induction r generalizing st with
  | nil => simp [vrow_nil]
  | cons y ys ih => simp [vrow_cons, ih]

theorem vrow_length (src st : Nat) (r : Row) : (vrow src st r).length = r.length := by
  simp [vrow, zipRefs_length]

/-- all references, as the harness prints them -/
def vall (m i idx : Nat) (R : List Row) : List Visit.ERef := (allRefs m i idx R).map eref

theorem vall_nil (m i idx : Nat) : vall m i idx [] = [] := by simp [vall, allRefs]

theorem vall_cons (m i idx : Nat) (r : Row) (R : List Row) :
    vall m i idx (r :: R) = vrow (mkIx m i) idx r ++ vall m (i + 1) (idx + r.length) R := by
  simp [vall, vrow, allRefs]

theorem mem_vall (m : Nat) (R : List Row) : ∀ (i idx : Nat) (e : Visit.ERef),
    e ∈ vall m i idx R ↔
      ∃ k r j x, R[k]? = some r ∧ r[j]? = some x ∧ e = ⟨idx + start R k + j, mkIx m (i + k), x.1, x.2⟩ := by
  induction R with
  | nil => intro i idx e; simp [vall_nil]
  | cons r0 R ih =>
    intro i idx e
    rw [vall_cons, List.mem_append, mem_vrow, ih]
    constructor
    · rintro (⟨j, x, hj, he⟩ | ⟨k, r, j, x, hk, hj, he⟩)
      · exact ⟨0, r0, j, x, by simp, hj, by simpa using he⟩
      · refine ⟨k + 1, r, j, x, by simpa using hk, hj, ?_⟩
        rw [he, start_cons_succ]
        congr 1 <;> first | omega | (congr 1; omega)
    · rintro ⟨k, r, j, x, hk, hj, he⟩
      cases k with
      | zero =>
        left
        have : r0 = r := by simpa using hk
        subst this
        exact ⟨j, x, hj, by simpa using he⟩
      | succ k =>
        right
        refine ⟨k, r, j, x, by simpa using hk, hj, ?_⟩
        rw [he, start_cons_succ]
        congr 1 <;> first | omega | (congr 1; omega)

theorem vall_ids (m i idx : Nat) (R : List Row) : (vall m i idx R).map (·.id) = List.range' idx R.flatten.length := by
  have := (allRefs_proj m i idx R).2
  simpa [vall, List.map_map, Function.comp_def, eref] using this

theorem vall_length (m i idx : Nat) (R : List Row) : (vall m i idx R).length = R.flatten.length := by
  have := congrArg List.length (vall_ids m i idx R)
  simpa using this

/-! ### what the model's readers answer under the invariant -/

section readers
variable {s : State} {R : List Row}

theorem csr_erefs_eq (good : Good s R) : ((edgeReferences s).getD []).map eref = vall s.modulus 0 0 R := by
  rw [good.rep.edgeReferences]; rfl

theorem csr_edgesOf_eq (good : Good s R) (a : Nat) (ha : a < R.length) :
    edgesOf s a = some (zipRefs a (start R a) (R[a].map (·.1)) (R[a].map (·.2))) := by
  simp only [edgesOf, good.rep.range_lt a ha, good.rep.col, good.rep.wts, slice_map_rows R _ a ha]

theorem csr_edges_row (good : Good s R) (a : Nat) (ha : a < R.length) :
    ((edgesOf s a).getD []).map eref = vrow a (start R a) R[a] := by
  rw [csr_edgesOf_eq good a ha]; rfl

theorem csr_nbrs_row (good : Good s R) (a : Nat) (ha : a < R.length) :
    (neighborsSlice s a).getD [] = keys R[a] := by
  simp [neighborsSlice, good.rep.neighborsOf_lt a ha]

theorem mem_vall0 {m : Nat} (hf : m = 0 ∨ R.length ≤ m) (e : Visit.ERef) :
    e ∈ vall m 0 0 R ↔ ∃ k r j x, R[k]? = some r ∧ r[j]? = some x ∧ e = ⟨start R k + j, k, x.1, x.2⟩ := by
  rw [mem_vall]
  constructor
  · rintro ⟨k, r, j, x, hk, hj, he⟩
    have hk' : k < R.length := (List.getElem?_eq_some_iff.1 hk).1
    refine ⟨k, r, j, x, hk, hj, ?_⟩
    rw [he, Nat.zero_add, Nat.zero_add, mkIx_of_lt hf hk']
  · rintro ⟨k, r, j, x, hk, hj, he⟩
    have hk' : k < R.length := (List.getElem?_eq_some_iff.1 hk).1
    refine ⟨k, r, j, x, hk, hj, ?_⟩
    rw [he, Nat.zero_add, Nat.zero_add, mkIx_of_lt hf hk']

/-- the references with source `a` are exactly the references of row `a` -/
theorem mem_filter_src {m : Nat} (hf : m = 0 ∨ R.length ≤ m) (a : Nat) (ha : a < R.length) (e : Visit.ERef) :
    e ∈ (vall m 0 0 R).filter (fun e => e.src == a) ↔ e ∈ vrow a (start R a) R[a] := by
  rw [List.mem_filter, mem_vall0 hf, mem_vrow]
  constructor
  · rintro ⟨⟨k, r, j, x, hk, hj, he⟩, hsrc⟩
    have hka : k = a := by rw [he] at hsrc; simpa using hsrc
    subst hka
    have hr : r = R[k] := by
      have := List.getElem?_eq_getElem ha
      rw [this] at hk; exact (Option.some.inj hk).symm
    subst hr
    exact ⟨j, x, hj, he⟩
  · rintro ⟨j, x, hj, he⟩
    exact ⟨⟨a, R[a], j, x, List.getElem?_eq_getElem ha, hj, he⟩, by rw [he]; simp⟩

theorem vall_ids_nodup (m : Nat) : ((vall m 0 0 R).map (·.id)).Nodup := by
  rw [vall_ids]; exact List.nodup_range'

theorem vrow_nodup (src st : Nat) (r : Row) : (vrow src st r).Nodup := by
  apply nodup_of_nodup_map (·.id)
  rw [vrow_ids]; exact List.nodup_range'

end readers

/-! ### the node clauses (both edge types) -/

section nodes
variable {s : State} {R : List Row}

theorem csr_idsOk (hf : IxFits s) : idsOk (nodeIdentifiers s) (csrTable s) := by
  simp only [idsOk, csrTable, whenSome_some]
  refine ⟨?_, fun a h => h, ?_⟩
  · rw [nodeIdentifiers_eq hf]; exact List.nodup_range
  · simp [nodeIdentifiers]

theorem csr_refsOk (good : Good s R) : refsOk (csrTable s) := by
  simp only [refsOk, csrTable, whenSome_some]
  have : (nodeReferences s).map (·.1) = nodeIdentifiers s := by
    unfold nodeReferences nodeIdentifiers
    rw [good.rep.nw, good.rep.nodeCount]
    apply List.ext_getElem
    · simp [good.rep.nw]
    · intro i h1 h2; simp
  rw [this]

theorem csr_indexOk (hf : IxFits s) : indexOk (csrTable s) := by
  simp only [indexOk, csrTable, whenSome_some]
  have hq := nodeIdentifiers_eq hf
  refine ⟨?_, ?_, ?_⟩
  · intro a ha
    rw [lookup_map_self (fun q => toIndex q) _ a ha]
    rw [hq] at ha
    exact List.mem_range.1 ha
  · have : (nodeIdentifiers s).map (fun a => ((nodeIdentifiers s).map fun q => (q, toIndex q)).lookup a)
        = (nodeIdentifiers s).map some := by
      apply List.map_congr_left
      intro a ha
      rw [lookup_map_self (fun q => toIndex q) _ a ha]; rfl
    rw [this, hq]
    exact nodup_map_of_inj_on _ _ List.nodup_range (fun x _ y _ h => Option.some.inj h)
  · intro a ha
    rw [lookup_map_self (fun q => fromIndex s (toIndex q)) _ a ha]
    rw [hq] at ha
    show some (mkIx s.modulus a) = some a
    rw [mkIx_of_lt hf (List.mem_range.1 ha)]

theorem csr_compactOk (hf : IxFits s) : compactOk (csrTable s) := by
  intro _
  simp only [csrTable, whenSome_some]
  have : (nodeIdentifiers s).map (fun a => (((nodeIdentifiers s).map fun q => (q, toIndex q)).lookup a).getD s.nodeCount)
      = (nodeIdentifiers s).map id := by
    apply List.map_congr_left
    intro a ha
    rw [lookup_map_self (fun q => toIndex q) _ a ha]; rfl
  rw [this, List.map_id, nodeIdentifiers_eq hf]

theorem csr_eixOk : eixOk (csrTable s) := by
  simp only [eixOk, csrTable, whenSome_some]
  exact whenSome_none _

theorem csr_nbrsOutOk : nbrsOutOk (nodeIdentifiers s) (csrTable s) := by
  simp only [nbrsOutOk, csrTable, whenSome_some]; exact whenSome_none _
theorem csr_nbrsInOk : nbrsInOk (nodeIdentifiers s) (csrTable s) := by
  simp only [nbrsInOk, csrTable, whenSome_some]; exact whenSome_none _
theorem csr_edgesOutOk : edgesOutOk (nodeIdentifiers s) (csrTable s) := by
  simp only [edgesOutOk, csrTable, whenSome_some]; exact whenSome_none _
theorem csr_edgesInOk : edgesInOk (nodeIdentifiers s) (csrTable s) := by
  simp only [edgesInOk, csrTable, whenSome_some]; exact whenSome_none _

end nodes

/-! ### the adjacency bitmap -/

section bitmap
open PetgraphModel.Extracted

theorem bit_inj {n a b c d : Nat} (hb : b < n) (hd : d < n) (h : n * a + b = n * c + d) : a = c ∧ b = d := by
  rcases Nat.lt_trichotomy a c with hlt | heq | hgt
  · have := Nat.mul_le_mul_left n (show a + 1 ≤ c from hlt)
    rw [Nat.mul_succ] at this; omega
  · subst heq; exact ⟨rfl, by omega⟩
  · have := Nat.mul_le_mul_left n (show c + 1 ≤ a from hgt)
    rw [Nat.mul_succ] at this; omega

theorem bit_lt {n a b : Nat} (ha : a < n) (hb : b < n) : n * a + b < n * n := by
  have := Nat.mul_le_mul_left n (show a + 1 ≤ n from ha)
  rw [Nat.mul_succ] at this; omega

/-- the loop of `adjacency_matrix` does not panic when all endpoints are below `n`, and sets exactly the bits
of the references (both orientations if undirected) -/
theorem adjLoop_spec (s : State) : ∀ (refs : List CsrM.ERef) (m : BitSet), m.cap = s.nodeCount * s.nodeCount →
    (∀ e ∈ refs, e.2.1 < s.nodeCount ∧ e.2.2.1 < s.nodeCount) →
    ∃ m', adjLoop s m refs = some m' ∧ m'.cap = m.cap ∧
      ∀ i, i ∈ m'.bits ↔ (i ∈ m.bits ∨ ∃ e ∈ refs, i = s.nodeCount * e.2.1 + e.2.2.1 ∨
        (s.directed = false ∧ i = s.nodeCount * e.2.2.1 + e.2.1)) := by
  intro refs
  induction refs with
  | nil => intro m _ _; exact ⟨m, rfl, rfl, by simp⟩
  | cons e es ih =>
    intro m hcap hlt
    have he := hlt e (List.mem_cons_self ..)
    have h1 : s.nodeCount * e.2.1 + e.2.2.1 < m.cap := by rw [hcap]; exact bit_lt he.1 he.2
    have h2 : e.2.1 + s.nodeCount * e.2.2.1 < m.cap := by
      rw [hcap, Nat.add_comm]; exact bit_lt he.2 he.1
    cases hd : s.directed with
    | true =>
      have hput : adjPut s m e = some { m with bits := (s.nodeCount * e.2.1 + e.2.2.1) :: m.bits } := by
        simp [adjPut, BitSet.put, AdjWidth.bitBuild_Csr_eq, h1, hd]
      obtain ⟨m', e1, e2, e3⟩ := ih { m with bits := (s.nodeCount * e.2.1 + e.2.2.1) :: m.bits } hcap
        (fun x hx => hlt x (List.mem_cons_of_mem _ hx))
      refine ⟨m', by simp [adjLoop, hput, e1], e2, fun i => ?_⟩
      rw [e3]
      simp only [List.mem_cons, hd, Bool.true_eq_false, false_and, or_false, exists_eq_or_imp]
      constructor
      · rintro ((h | h) | h)
        · exact Or.inr (Or.inl h)
        · exact Or.inl h
        · exact Or.inr (Or.inr h)
      · rintro (h | h | h)
        · exact Or.inl (Or.inr h)
        · exact Or.inl (Or.inl h)
        · exact Or.inr h
    | false =>
      have hput : adjPut s m e = some { m with bits := (e.2.1 + s.nodeCount * e.2.2.1) ::
          (s.nodeCount * e.2.1 + e.2.2.1) :: m.bits } := by
        simp [adjPut, BitSet.put, AdjWidth.bitBuild_Csr_eq, AdjWidth.bitBuildSym_Csr_eq, h1, h2, hd]
      obtain ⟨m', e1, e2, e3⟩ := ih { m with bits := (e.2.1 + s.nodeCount * e.2.2.1) ::
          (s.nodeCount * e.2.1 + e.2.2.1) :: m.bits } hcap
        (fun x hx => hlt x (List.mem_cons_of_mem _ hx))
      refine ⟨m', by simp [adjLoop, hput, e1], e2, fun i => ?_⟩
      rw [e3]
      simp only [hd, List.mem_cons, true_and, exists_eq_or_imp]
      constructor
      · rintro ((h | h | h) | h)
        · exact Or.inr (Or.inl (Or.inr (by omega)))
        · exact Or.inr (Or.inl (Or.inl h))
        · exact Or.inl h
        · exact Or.inr (Or.inr h)
      · rintro (h | (h | h) | h)
        · exact Or.inl (Or.inr (Or.inr h))
        · exact Or.inl (Or.inr (Or.inl h))
        · exact Or.inl (Or.inl (by omega))
        · exact Or.inr h

end bitmap

/-! ### the edge clauses -/

section edges
open PetgraphModel.Extracted
variable {s : State} {R : List Row}

theorem IxFits.rows (good : Good s R) (hf : IxFits s) : s.modulus = 0 ∨ R.length ≤ s.modulus := by
  rw [← good.rep.nodeCount]; exact hf

theorem mem_ids_iff (good : Good s R) (hf : IxFits s) (a : Nat) : a ∈ nodeIdentifiers s ↔ a < R.length := by
  rw [nodeIdentifiers_eq hf, List.mem_range, good.rep.nodeCount]

theorem vall_endpoints (good : Good s R) (hf : IxFits s) (e : Visit.ERef) (he : e ∈ vall s.modulus 0 0 R) :
    e.src < R.length ∧ e.tgt < R.length := by
  rw [mem_vall0 (hf.rows good)] at he
  obtain ⟨k, r, j, x, hk, hj, rfl⟩ := he
  have hk' := List.getElem?_eq_some_iff.1 hk
  obtain ⟨hk1, hk2⟩ := hk'
  refine ⟨hk1, ?_⟩
  have hr : r ∈ R := by rw [← hk2]; exact List.getElem_mem hk1
  have hx : x ∈ r := List.mem_of_getElem? hj
  exact (good.ok r hr).2 x.1 (List.mem_map_of_mem hx)

/-- `adjacency_matrix()` does not panic, and `is_adjacent(a, b)` holds exactly when some listed reference joins
`a` to `b` (in either orientation if undirected) -/
theorem csr_adjacency (good : Good s R) (hf : IxFits s) :
    ∃ M, adjacencyMatrix s = some M ∧ ∀ a b, a < R.length → b < R.length →
      (isAdjacent s M a b = true ↔ ∃ e ∈ vall s.modulus 0 0 R,
        (e.src = a ∧ e.tgt = b) ∨ (s.directed = false ∧ e.src = b ∧ e.tgt = a)) := by
  have hn := good.rep.nodeCount
  have hend : ∀ e ∈ allRefs s.modulus 0 0 R, e.2.1 < s.nodeCount ∧ e.2.2.1 < s.nodeCount := by
    intro e he
    rw [hn]
    exact vall_endpoints good hf (eref e) (List.mem_map_of_mem he)
  obtain ⟨M, h1, h2, h3⟩ := adjLoop_spec s (allRefs s.modulus 0 0 R) ⟨s.nodeCount * s.nodeCount, []⟩ rfl hend
  refine ⟨M, by simp [adjacencyMatrix, good.rep.edgeReferences, h1], ?_⟩
  intro a b ha hb
  have hcap : s.nodeCount * a + b < M.cap := by
    rw [h2]; exact bit_lt (by omega) (by omega)
  simp only [isAdjacent, BitSet.contains, AdjWidth.bitRead_Csr_eq, hcap, decide_true, Bool.true_and,
    List.contains_iff_mem, h3, List.not_mem_nil, false_or]
  constructor
  · rintro ⟨e, he, h⟩
    have hb' := hend e he
    refine ⟨eref e, List.mem_map_of_mem he, ?_⟩
    rcases h with h | ⟨hd, h⟩
    · have := bit_inj (by omega) hb'.2 h
      exact Or.inl ⟨this.1.symm, this.2.symm⟩
    · have := bit_inj (by omega) hb'.1 h
      exact Or.inr ⟨hd, this.2.symm, this.1.symm⟩
  · rintro ⟨e', he', h⟩
    obtain ⟨e, he, rfl⟩ := List.mem_map.1 he'
    refine ⟨e, he, ?_⟩
    rcases h with ⟨h1, h2⟩ | ⟨hd, h1, h2⟩
    · left
      have h1' : e.2.1 = a := h1
      have h2' : e.2.2.1 = b := h2
      rw [h1', h2']
    · right
      have h1' : e.2.1 = b := h1
      have h2' : e.2.2.1 = a := h2
      exact ⟨hd, by rw [h1', h2']⟩

theorem expAdj_iff (dir : Bool) (er : List Visit.ERef) (a b : Nat) :
    expAdj dir er a b = true ↔ ∃ e ∈ er, (e.src = a ∧ e.tgt = b) ∨ (dir = false ∧ e.src = b ∧ e.tgt = a) := by
  simp only [expAdj, List.any_eq_true]
  constructor
  · rintro ⟨e, he, h⟩
    refine ⟨e, he, ?_⟩
    cases dir <;> simp_all
  · rintro ⟨e, he, h⟩
    refine ⟨e, he, ?_⟩
    cases dir <;> simp_all

/-- `is_adjacent` agrees with `edge_references` — for both edge types -/
theorem csr_adjOk (good : Good s R) (hf : IxFits s) : adjOk (nodeIdentifiers s) (csrTable s) := by
  simp only [adjOk, csrTable, whenSome_some]
  rw [csr_erefs_eq good]
  refine ⟨rowsOver_keys _ _, ?_⟩
  intro a ha b hb
  obtain ⟨M, hM, hadj⟩ := csr_adjacency good hf
  rw [rowOf_rowsOver _ _ a ha, hM, List.mem_filter, expAdj_iff]
  simp only [Option.getD_some]
  rw [hadj a b ((mem_ids_iff good hf a).1 ha) ((mem_ids_iff good hf b).1 hb)]
  exact ⟨fun h => h.2, fun h => ⟨hb, h⟩⟩

theorem csr_erefsOk_dir (good : Good s R) (hf : IxFits s) (hd : s.directed = true) : erefsOk (csrTable s) := by
  simp only [erefsOk, csrTable, whenSome_some]
  rw [csr_erefs_eq good]
  refine ⟨vall_ids_nodup _, ?_, ?_⟩
  · rw [vall_length, State.edgeCountQ, if_pos hd, good.rep.column_length]
  · intro e he
    have := vall_endpoints good hf e he
    exact ⟨(mem_ids_iff good hf _).2 this.1, (mem_ids_iff good hf _).2 this.2⟩

theorem csr_edges_perm_dir (good : Good s R) (hf : IxFits s) (a : Nat) (ha : a < R.length) :
    (vrow a (start R a) R[a]).Perm (expOut true (vall s.modulus 0 0 R) a) := by
  simp only [expOut, if_true]
  exact perm_of_nodup_mem (vrow_nodup _ _ _)
    (nodup_of_nodup_map (·.id) _ (nodup_filter_ids (vall_ids_nodup _) _))
    (fun e => (mem_filter_src (hf.rows good) a ha e).symm)

theorem csr_edgesOk_dir (good : Good s R) (hf : IxFits s) (hd : s.directed = true) :
    edgesOk (nodeIdentifiers s) (csrTable s) := by
  simp only [edgesOk, csrTable, whenSome_some]
  rw [csr_erefs_eq good, hd]
  apply rowsMatch_rowsOver
  intro a ha
  have ha' := (mem_ids_iff good hf a).1 ha
  rw [csr_edges_row good a ha']
  exact csr_edges_perm_dir good hf a ha'

theorem csr_nbrsOk_dir (good : Good s R) (hf : IxFits s) (hd : s.directed = true) :
    nbrsOk (nodeIdentifiers s) (csrTable s) := by
  simp only [nbrsOk, csrTable, whenSome_some]
  rw [csr_erefs_eq good, hd]
  apply rowsMatch_rowsOver
  intro a ha
  have ha' := (mem_ids_iff good hf a).1 ha
  rw [csr_nbrs_row good a ha', ← vrow_tgt a (start R a) R[a]]
  exact (csr_edges_perm_dir good hf a ha').map _

/-- no trait call made for the table panics (both edge types) -/
theorem csr_callsOk (good : Good s R) (hf : IxFits s) : callsOk s := by
  refine ⟨by rw [good.rep.edgeReferences]; rfl, ?_, ?_⟩
  · obtain ⟨M, hM, _⟩ := csr_adjacency good hf
    rw [hM]; rfl
  · intro a ha
    have ha' := (mem_ids_iff good hf a).1 ha
    refine ⟨?_, by rw [csr_edgesOf_eq good a ha']; rfl⟩
    simp [neighborsSlice, good.rep.neighborsOf_lt a ha']

end edges

/-! ### rows as an edge map (used for the undirected table) -/

section rowsmap
variable {s : State} {R : List Row}

theorem mem_row_iff_lookup (r : Row) (h : Asc (keys r)) (b : Nat) (w : Int) :
    (b, w) ∈ r ↔ lookupRow b r = some w := by
  induction r with
  | nil => simp [lookupRow]
  | cons x xs ih =>
    simp only [Asc, keys_cons, List.pairwise_cons] at h
    have ih' := ih h.2
    simp only [List.mem_cons, lookupRow]
    by_cases hx : x.1 = b
    · simp only [hx, if_true]
      constructor
      · rintro (h1 | h1)
        · rw [← h1]
        · have := h.1 b (List.mem_map_of_mem (f := (·.1)) h1)
          omega
      · intro h1
        left
        have : x.2 = w := Option.some.inj h1
        rw [← this, ← hx]
    · simp only [hx, if_false]
      rw [← ih']
      constructor
      · rintro (h1 | h1)
        · exact absurd (by rw [← h1]) hx
        · exact h1
      · intro h1; exact Or.inr h1

/-- a reference `a → b` with weight `w` is listed exactly when the edge map of the rows says so -/
theorem vall_has (good : Good s R) (hf : IxFits s) (a b : Nat) (w : Int) :
    (∃ i, (⟨i, a, b, w⟩ : Visit.ERef) ∈ vall s.modulus 0 0 R) ↔ look R a b = some w := by
  constructor
  · rintro ⟨i, he⟩
    rw [mem_vall0 (hf.rows good)] at he
    obtain ⟨k, r, j, x, hk, hj, he⟩ := he
    obtain ⟨hk1, hk2⟩ := List.getElem?_eq_some_iff.1 hk
    injection he with _ h2 h3 h4
    subst h2
    rw [look_of_lt R a b hk1, hk2, ← mem_row_iff_lookup r (by rw [← hk2]; exact (good.ok _ (List.getElem_mem hk1)).1)]
    have hx : x ∈ r := List.mem_of_getElem? hj
    rw [h3, h4]; exact hx
  · intro h
    have ha : a < R.length := by
      by_contra hc
      rw [look_of_ge R a b (by omega)] at h; cases h
    rw [look_of_lt R a b ha, ← mem_row_iff_lookup _ (good.ok _ (List.getElem_mem ha)).1] at h
    obtain ⟨j, hj⟩ := List.mem_iff_getElem?.1 h
    exact ⟨start R a + j, (mem_vall0 (hf.rows good) _).2 ⟨a, R[a], j, (b, w), List.getElem?_eq_getElem ha, hj, rfl⟩⟩

theorem asc_nodup {l : List Nat} (h : Asc l) : l.Nodup :=
  List.Pairwise.imp (fun hab => Nat.ne_of_lt hab) h

/-- no parallel edges: a listed reference is determined by its endpoints -/
theorem vall_unique (good : Good s R) (hf : IxFits s) (e1 e2 : Visit.ERef)
    (h1 : e1 ∈ vall s.modulus 0 0 R) (h2 : e2 ∈ vall s.modulus 0 0 R)
    (hs : e1.src = e2.src) (ht : e1.tgt = e2.tgt) : e1 = e2 := by
  rw [mem_vall0 (hf.rows good)] at h1 h2
  obtain ⟨k1, r1, j1, x1, hk1, hj1, rfl⟩ := h1
  obtain ⟨k2, r2, j2, x2, hk2, hj2, rfl⟩ := h2
  simp only at hs ht
  subst hs
  have hr : r1 = r2 := by rw [hk1] at hk2; exact Option.some.inj hk2
  subst hr
  obtain ⟨hk, hke⟩ := List.getElem?_eq_some_iff.1 hk1
  have hasc : Asc (keys r1) := by rw [← hke]; exact (good.ok _ (List.getElem_mem hk)).1
  have hj : j1 = j2 := by
    have e1 : (keys r1)[j1]? = some x1.1 := by simp [keys, hj1]
    have e2 : (keys r1)[j2]? = some x2.1 := by simp [keys, hj2]
    have hlt : j1 < (keys r1).length := (List.getElem?_eq_some_iff.1 e1).1
    exact (List.getElem?_inj hlt (asc_nodup hasc)).1 (by rw [e1, e2, ht])
  subst hj
  have : x1 = x2 := by rw [hj1] at hj2; exact Option.some.inj hj2
  subst this; rfl

theorem look_lt (good : Good s R) {a b : Nat} {w : Int} (h : look R a b = some w) : a < R.length ∧ b < R.length := by
  have ha : a < R.length := by
    by_contra hc
    rw [look_of_ge R a b (by omega)] at h; cases h
  refine ⟨ha, ?_⟩
  by_contra hc
  rw [good.ok.look_oob a b (by omega)] at h; cases h

end rowsmap

/-! ### undirected `Csr` behind the repair of D7 -/

section undirected
variable {s : State} {R : List Row}

/-- the `fix` of `repairD7`: the edge is identified by its endpoint pair -/
def fixId (e : Visit.ERef) : Visit.ERef := { e with id := pcode (min e.src e.tgt) (max e.src e.tgt) }

/-- the references `repairD7` keeps: one per edge -/
def upperRefs (m : Nat) (R : List Row) : List Visit.ERef :=
  (vall m 0 0 R).filter fun e => decide (e.src ≤ e.tgt)

theorem repairD7_erefs (t : Table) :
    (repairD7 t).erefs = t.erefs.map fun l => (l.filter fun e => decide (e.src ≤ e.tgt)).map fixId := rfl
theorem repairD7_edges (t : Table) : (repairD7 t).edges = t.edges.map (mapRows fun _ l => l.map fixId) := rfl
theorem repairD7_directed (t : Table) : (repairD7 t).directed = t.directed := rfl
theorem repairD7_ids (t : Table) : (repairD7 t).ids = t.ids := rfl
theorem repairD7_edgeCount (t : Table) : (repairD7 t).edgeCount = t.edgeCount := rfl
theorem repairD7_nbrs (t : Table) : (repairD7 t).nbrs = t.nbrs := rfl
theorem repairD7_adj (t : Table) : (repairD7 t).adj = t.adj := rfl

theorem mapRows_rowsOver {α β : Type} (g : Nat → List α → List β) (qs : List Nat) (f : Nat → List α) :
    mapRows g (rowsOver qs f) = rowsOver qs fun a => g a (f a) := by
  simp [mapRows, rowsOver, List.map_map, Function.comp_def]

theorem mem_upper (good : Good s R) (hf : IxFits s) (e' : Visit.ERef) :
    e' ∈ (upperRefs s.modulus R).map fixId ↔
      ∃ k b w, look R k b = some w ∧ k ≤ b ∧ e' = ⟨pcode k b, k, b, w⟩ := by
  constructor
  · intro h
    obtain ⟨e, he, rfl⟩ := List.mem_map.1 h
    obtain ⟨hmem, hp⟩ := List.mem_filter.1 he
    obtain ⟨i, k, b, w⟩ := e
    have hkb : k ≤ b := by simpa using hp
    refine ⟨k, b, w, (vall_has good hf k b w).1 ⟨i, hmem⟩, hkb, ?_⟩
    simp only [fixId, Nat.min_eq_left hkb, Nat.max_eq_right hkb]
  · rintro ⟨k, b, w, hl, hkb, rfl⟩
    obtain ⟨i, hi⟩ := (vall_has good hf k b w).2 hl
    refine List.mem_map.2 ⟨⟨i, k, b, w⟩, List.mem_filter.2 ⟨hi, by simpa using hkb⟩, ?_⟩
    simp only [fixId, Nat.min_eq_left hkb, Nat.max_eq_right hkb]

theorem mem_rowfix (good : Good s R) (hf : IxFits s) (a : Nat) (ha : a < R.length) (e' : Visit.ERef) :
    e' ∈ (vrow a (start R a) R[a]).map fixId ↔
      ∃ b w, look R a b = some w ∧ e' = ⟨pcode (min a b) (max a b), a, b, w⟩ := by
  constructor
  · intro h
    obtain ⟨e, he, rfl⟩ := List.mem_map.1 h
    rw [← mem_filter_src (hf.rows good) a ha, List.mem_filter] at he
    obtain ⟨i, k, b, w⟩ := e
    have hk : k = a := by simpa using he.2
    subst hk
    exact ⟨b, w, (vall_has good hf k b w).1 ⟨i, he.1⟩, rfl⟩
  · rintro ⟨b, w, hl, rfl⟩
    obtain ⟨i, hi⟩ := (vall_has good hf a b w).2 hl
    refine List.mem_map.2 ⟨⟨i, a, b, w⟩, ?_, rfl⟩
    rw [← mem_filter_src (hf.rows good) a ha, List.mem_filter]
    exact ⟨hi, by simp⟩

theorem upper_ids_nodup (good : Good s R) (hf : IxFits s) :
    (((upperRefs s.modulus R).map fixId).map (·.id)).Nodup := by
  rw [List.map_map]
  apply nodup_map_of_inj_on
  · exact nodup_of_nodup_map (·.id) _ (nodup_filter_ids (vall_ids_nodup _) _)
  · intro e1 h1 e2 h2 h
    obtain ⟨m1, p1⟩ := List.mem_filter.1 h1
    obtain ⟨m2, p2⟩ := List.mem_filter.1 h2
    have q1 : e1.src ≤ e1.tgt := by simpa using p1
    have q2 : e2.src ≤ e2.tgt := by simpa using p2
    have b1 := vall_endpoints good hf e1 m1
    have b2 := vall_endpoints good hf e2 m2
    have h' : pcode e1.src e1.tgt = pcode e2.src e2.tgt := by
      simpa [fixId, Nat.min_eq_left q1, Nat.max_eq_right q1, Nat.min_eq_left q2, Nat.max_eq_right q2] using h
    have := code_inj h'
    exact vall_unique good hf e1 e2 m1 m2 this.1 this.2

theorem rowfix_nodup (good : Good s R) (hf : IxFits s) (a : Nat) (ha : a < R.length) :
    ((vrow a (start R a) R[a]).map fixId).Nodup := by
  apply nodup_map_of_inj_on _ _ (vrow_nodup _ _ _)
  intro e1 h1 e2 h2 h
  rw [← mem_filter_src (hf.rows good) a ha, List.mem_filter] at h1 h2
  have hs : e1.src = e2.src := by
    have := congrArg Visit.ERef.src h; simpa [fixId] using this
  have ht : e1.tgt = e2.tgt := by
    have := congrArg Visit.ERef.tgt h; simpa [fixId] using this
  exact vall_unique good hf e1 e2 h1.1 h2.1 hs ht

/-- row `a` of `edges`, re-identified, is what the kept references prescribe for the undirected graph -/
theorem csr_edges_perm_und (good : Good s R) (hf : IxFits s) (hd : s.directed = false)
    (a : Nat) (ha : a < R.length) :
    ((vrow a (start R a) R[a]).map fixId).Perm (expOut false ((upperRefs s.modulus R).map fixId) a) := by
  have sym := good.sym hd
  apply perm_of_nodup_mem (rowfix_nodup good hf a ha) (expOut_nodup (upper_ids_nodup good hf) a)
  intro e'
  rw [mem_rowfix good hf a ha]
  simp only [expOut, Bool.false_eq_true, if_false]
  constructor
  · rintro ⟨b, w, hl, rfl⟩
    by_cases hab : a ≤ b
    · refine List.mem_map.2 ⟨⟨pcode a b, a, b, w⟩, List.mem_filter.2 ⟨?_, by simp [incident]⟩, ?_⟩
      · exact (mem_upper good hf _).2 ⟨a, b, w, hl, hab, rfl⟩
      · simp [orientOut, Nat.min_eq_left hab, Nat.max_eq_right hab]
    · have hba : b ≤ a := by omega
      have hne : ¬ b = a := by omega
      refine List.mem_map.2 ⟨⟨pcode b a, b, a, w⟩, List.mem_filter.2 ⟨?_, by simp [incident]⟩, ?_⟩
      · exact (mem_upper good hf _).2 ⟨b, a, w, by rw [sym b a]; exact hl, hba, rfl⟩
      · simp [orientOut, hne, ERef.swap, Nat.min_eq_right hba, Nat.max_eq_left hba]
  · intro h
    obtain ⟨e'', he'', rfl⟩ := List.mem_map.1 h
    obtain ⟨hmem, hinc⟩ := List.mem_filter.1 he''
    obtain ⟨k, b, w, hl, hkb, rfl⟩ := (mem_upper good hf _).1 hmem
    by_cases hka : k = a
    · subst hka
      exact ⟨b, w, hl, by simp [orientOut, Nat.min_eq_left hkb, Nat.max_eq_right hkb]⟩
    · have hb : b = a := by simpa [incident, hka] using hinc
      subst hb
      exact ⟨k, w, by rw [sym b k]; exact hl,
        by simp [orientOut, hka, ERef.swap, Nat.min_eq_right hkb, Nat.max_eq_left hkb]⟩

theorem csr_erefsOk_und (good : Good s R) (hf : IxFits s) (hd : s.directed = false)
    (hcount : (upperRefs s.modulus R).length = s.edgeCount) : erefsOk (repairD7 (csrTable s)) := by
  unfold erefsOk
  rw [repairD7_erefs, repairD7_edgeCount, repairD7_ids]
  simp only [csrTable, Option.map_some, whenSome_some]
  rw [csr_erefs_eq good]
  refine ⟨upper_ids_nodup good hf, ?_, ?_⟩
  · rw [List.length_map]
    show (upperRefs s.modulus R).length = _
    rw [hcount, State.edgeCountQ, hd]; rfl
  · intro e' he'
    obtain ⟨e, he, rfl⟩ := List.mem_map.1 he'
    have := vall_endpoints good hf e (List.mem_filter.1 he).1
    exact ⟨(mem_ids_iff good hf _).2 this.1, (mem_ids_iff good hf _).2 this.2⟩

theorem csr_edgesOk_und (good : Good s R) (hf : IxFits s) (hd : s.directed = false) :
    edgesOk (nodeIdentifiers s) (repairD7 (csrTable s)) := by
  unfold edgesOk
  rw [repairD7_erefs, repairD7_edges, repairD7_directed]
  simp only [csrTable, Option.map_some, whenSome_some, mapRows_rowsOver]
  rw [csr_erefs_eq good, hd]
  apply rowsMatch_rowsOver
  intro a ha
  have ha' := (mem_ids_iff good hf a).1 ha
  rw [csr_edges_row good a ha']
  exact csr_edges_perm_und good hf hd a ha'

theorem csr_nbrsOk_und (good : Good s R) (hf : IxFits s) (hd : s.directed = false) :
    nbrsOk (nodeIdentifiers s) (repairD7 (csrTable s)) := by
  unfold nbrsOk
  rw [repairD7_erefs, repairD7_nbrs, repairD7_directed]
  simp only [csrTable, Option.map_some, whenSome_some]
  rw [csr_erefs_eq good, hd]
  apply rowsMatch_rowsOver
  intro a ha
  have ha' := (mem_ids_iff good hf a).1 ha
  have h1 : keys R[a] = ((vrow a (start R a) R[a]).map fixId).map (·.tgt) := by
    rw [List.map_map, ← vrow_tgt a (start R a) R[a]]
    apply List.map_congr_left
    intro e _; rfl
  rw [csr_nbrs_row good a ha', h1]
  exact (csr_edges_perm_und good hf hd a ha').map _

theorem csr_adjOk_und (good : Good s R) (hf : IxFits s) (hd : s.directed = false) :
    adjOk (nodeIdentifiers s) (repairD7 (csrTable s)) := by
  have sym := good.sym hd
  unfold adjOk
  rw [repairD7_erefs, repairD7_adj, repairD7_directed]
  simp only [csrTable, Option.map_some, whenSome_some]
  rw [csr_erefs_eq good, hd]
  refine ⟨rowsOver_keys _ _, ?_⟩
  intro a ha b hb
  obtain ⟨M, hM, hadj⟩ := csr_adjacency good hf
  rw [rowOf_rowsOver _ _ a ha, hM, List.mem_filter, expAdj_iff]
  simp only [Option.getD_some]
  rw [hadj a b ((mem_ids_iff good hf a).1 ha) ((mem_ids_iff good hf b).1 hb)]
  constructor
  · rintro ⟨_, e, he, h⟩
    obtain ⟨i, k, t, w⟩ := e
    -- in either orientation the edge map holds `a — b`
    have hl : look R a b = some w := by
      rcases h with ⟨h1, h2⟩ | ⟨_, h1, h2⟩
      · simp only at h1 h2; subst h1; subst h2
        exact (vall_has good hf _ _ w).1 ⟨i, he⟩
      · simp only at h1 h2; subst h1; subst h2
        rw [sym]; exact (vall_has good hf _ _ w).1 ⟨i, he⟩
    by_cases hab : a ≤ b
    · exact ⟨⟨pcode a b, a, b, w⟩, (mem_upper good hf _).2 ⟨a, b, w, hl, hab, rfl⟩, Or.inl ⟨rfl, rfl⟩⟩
    · exact ⟨⟨pcode b a, b, a, w⟩, (mem_upper good hf _).2 ⟨b, a, w, by rw [sym]; exact hl, by omega, rfl⟩,
        Or.inr ⟨trivial, rfl, rfl⟩⟩
  · rintro ⟨e', he', h⟩
    refine ⟨hb, ?_⟩
    obtain ⟨k, t, w, hl, _, rfl⟩ := (mem_upper good hf _).1 he'
    obtain ⟨i, hi⟩ := (vall_has good hf k t w).2 hl
    exact ⟨⟨i, k, t, w⟩, hi, by
      rcases h with h | ⟨_, h⟩
      · exact Or.inl h
      · exact Or.inr ⟨hd, h⟩⟩

end undirected

/-! ### `edge_count()` of an undirected `Csr` counts every edge once -/

section count
open PetgraphModel.AppendSpec
variable {s : State} {R : List Row}

/-- `edge_count()` is the number of listed references with `source ≤ target` (for `Undirected`: every edge is
stored in both rows, a self-loop once, and counted once) -/
def EdgeCountOk (s : State) : Prop :=
  (((edgeReferences s).getD []).filter fun e => decide (e.2.1 ≤ e.2.2.1)).length = s.edgeCount

theorem edgeCountOk_iff (good : Good s R) : EdgeCountOk s ↔ (upperRefs s.modulus R).length = s.edgeCount := by
  unfold EdgeCountOk upperRefs
  rw [← csr_erefs_eq good, List.filter_map, List.length_map]
  rfl

/-- the abstract simple graph keeps one entry per edge, undirected edges under the canonical key -/
def SGWF (g : SG) : Prop :=
  (g.edges.map (·.1)).Nodup ∧ (g.directed = false → ∀ k ∈ g.edges.map (·.1), k.1 ≤ k.2)

theorem mem_keys_iff_lookupKey (k : Nat × Nat) (es : List ((Nat × Nat) × Int)) :
    k ∈ es.map (·.1) ↔ ∃ w, lookupKey k es = some w := by
  induction es with
  | nil => simp [lookupKey]
  | cons e es ih =>
    obtain ⟨k', w'⟩ := e
    simp only [List.map_cons, List.mem_cons, lookupKey]
    by_cases hk : k' = k
    · subst hk; simp
    · have hk' : ¬ k = k' := fun e => hk e.symm
      simp only [hk, hk', if_false, false_or]
      exact ih

theorem SGWF.addEdge {g : SG} (h : SGWF g) (a b : Nat) (w : Int) : SGWF (g.addEdge a b w).1 := by
  unfold SG.addEdge
  split
  · split
    · exact h
    · rename_i _ hhas
      have hnot : key g.directed a b ∉ g.edges.map (·.1) := by
        intro hm
        obtain ⟨w', hw'⟩ := (mem_keys_iff_lookupKey _ _).1 hm
        apply hhas
        simp [SG.has, SG.lookup, hw']
      refine ⟨?_, ?_⟩
      · show ((g.edges ++ [(key g.directed a b, w)]).map (·.1)).Nodup
        rw [List.map_append, List.nodup_append]
        refine ⟨h.1, by simp, ?_⟩
        intro x hx y hy
        have : y = key g.directed a b := by simpa using hy
        subst this
        intro e; subst e; exact hnot hx
      · intro hd k hk
        have hd' : g.directed = false := hd
        have hk' : k ∈ (g.edges ++ [(key g.directed a b, w)]).map (·.1) := hk
        rw [List.map_append, List.mem_append] at hk'
        rcases hk' with hk' | hk'
        · exact h.2 hd' k hk'
        · have : k = key g.directed a b := by simpa using hk'
          subst this
          unfold key
          rw [hd']
          by_cases hab : a ≤ b <;> simp [hab] <;> omega
  · exact h

theorem SGWF.step {g : SG} (h : SGWF g) (m : Nat) (op : CsrM.Op) : SGWF (specStep m g op).1 := by
  cases op with
  | addNode w =>
    -- `add_node` adds no edge; on a full graph (capacity `m` of the index type) it changes nothing at all
    by_cases hf : m = 0 ∨ g.n < m
    · simp only [specStep, SG.addNodeCap_fit m g w hf]; exact h
    · simp only [specStep, SG.addNodeCap_full m g w hf]; exact h
  | clearEdges => exact ⟨by simp [specStep, AppendSpec.SG.clearEdges], by intro _ k hk; simp [specStep, AppendSpec.SG.clearEdges] at hk⟩
  | setWeight a w =>
    show SGWF (match g.setWeight a w with | some g' => (g', Out.unit) | none => (g, Out.panic)).1
    unfold SG.setWeight
    by_cases ha : a < g.n
    · simp only [ha, if_true]; exact h
    · simp only [ha, if_false]; exact h
  | addEdge a b w =>
    have := h.addEdge a b w
    show SGWF (match g.addEdge a b w with
      | (g', .ok r) => (g', Out.bool r) | (g', .error _) => (g', Out.panic)).1
    rcases hh : g.addEdge a b w with ⟨g', r⟩
    rw [hh] at this
    cases r <;> exact this
  | tryAddEdge a b w => exact h.addEdge a b w

theorem SGWF.run {g : SG} (h : SGWF g) (m : Nat) (ops : List CsrM.Op) : SGWF (specRun m g ops).1 := by
  induction ops generalizing g with
  | nil => exact h
  | cons op ops ih => exact ih (h.step m op)

/-- under the abstraction the `edge_count` field is the number of references `repairD7` keeps -/
theorem edgeCountOk_of_abs {g : SG} (good : Good s R) (hf : IxFits s) (abs : Abs s R g) (wf : SGWF g)
    (hd : s.directed = false) : EdgeCountOk s := by
  rw [edgeCountOk_iff good]
  have hgd : g.directed = false := by rw [abs.dir]; exact hd
  have hU : ((upperRefs s.modulus R).map fun e => (e.src, e.tgt)).Nodup := by
    apply nodup_map_of_inj_on
    · exact nodup_of_nodup_map (·.id) _ (nodup_filter_ids (vall_ids_nodup _) _)
    · intro e1 h1 e2 h2 h
      have := Prod.mk.inj h
      exact vall_unique good hf e1 e2 (List.mem_filter.1 h1).1 (List.mem_filter.1 h2).1 this.1 this.2
  have hperm : ((upperRefs s.modulus R).map fun e => (e.src, e.tgt)).Perm (g.edges.map (·.1)) := by
    apply perm_of_nodup_mem hU wf.1
    rintro ⟨a, b⟩
    constructor
    · intro h
      obtain ⟨e, he, hab⟩ := List.mem_map.1 h
      obtain ⟨hmem, hp⟩ := List.mem_filter.1 he
      obtain ⟨i, k, t, w⟩ := e
      have hkt : k ≤ t := by simpa using hp
      obtain ⟨h1, h2⟩ := Prod.mk.inj hab
      simp only at h1 h2; subst h1; subst h2
      have hl := (vall_has good hf k t w).1 ⟨i, hmem⟩
      rw [abs.look, SG.lookup, hgd] at hl
      have hkey : key false k t = (k, t) := by simp [key, hkt]
      rw [hkey] at hl
      exact (mem_keys_iff_lookupKey _ _).2 ⟨w, hl⟩
    · intro h
      have hab : a ≤ b := wf.2 hgd (a, b) h
      obtain ⟨w, hw⟩ := (mem_keys_iff_lookupKey _ _).1 h
      have hl : look R a b = some w := by
        rw [abs.look, SG.lookup, hgd]
        have hkey : key false a b = (a, b) := by simp [key, hab]
        rw [hkey]; exact hw
      obtain ⟨i, hi⟩ := (vall_has good hf a b w).2 hl
      exact List.mem_map.2 ⟨⟨i, a, b, w⟩, List.mem_filter.2 ⟨hi, by simpa using hab⟩, rfl⟩
  have := hperm.length_eq
  rw [List.length_map, List.length_map] at this
  rw [this]
  have hc := abs.count
  rw [State.edgeCountQ, hd] at hc
  simp only [Bool.false_eq_true, if_false] at hc
  rw [hc]; rfl

end count

/-! ### histories -/

section histories
open PetgraphModel.AppendSpec

/-- every history keeps the invariant, the abstraction, the type parameters and `IxFits` (since /repo commit
8cab180 `add_node` panics rather than exceed the capacity of the index type, so no hypothesis on the history is
needed any more; `specRun` takes that capacity as a parameter) -/
theorem csr_run_facts {s0 : State} {R0 : List Row} {g0 : SG} (good : Good s0 R0) (abs : Abs s0 R0 g0)
    (ops : List CsrM.Op) (h0 : IxFits s0) :
    ∃ R, Good (run s0 ops).1 R ∧ Abs (run s0 ops).1 R (specRun s0.modulus g0 ops).1 ∧
      SameParams (run s0 ops).1 s0 ∧ IxFits (run s0 ops).1 := by
  induction ops generalizing s0 R0 g0 with
  | nil => exact ⟨R0, good, abs, SameParams.refl s0, h0⟩
  | cons op ops ih =>
    obtain ⟨R1, good1, abs1, _, sp1, hl1⟩ := step_refines good abs op
    have h0' : IxFits (step s0 op).1 := by
      unfold IxFits
      rw [sp1.2.1, good1.rep.nodeCount, hl1]
      have hn := good.rep.nodeCount
      unfold IxFits at h0
      cases op with
      | addNode w =>
        simp only [nodesAfterC]
        split <;> omega
      | _ => simp only [nodesAfterC]; omega
    obtain ⟨R2, good2, abs2, sp2, hf2⟩ := ih good1 abs1 h0'
    rw [sp1.2.1] at abs2
    refine ⟨R2, by simpa [run] using good2, by simpa [run, specRun] using abs2, ?_, by simpa [run] using hf2⟩
    simp only [run]
    exact ⟨sp2.1.trans sp1.1, sp2.2.1.trans sp1.2.1, sp2.2.2.1.trans sp1.2.2.1, sp2.2.2.2.trans sp1.2.2.2⟩

theorem fromSorted_directed {m c : Nat} {dbg : Bool} {es : List Edge} {s : State}
    (h : fromSortedEdges m c dbg es = .ok s) : s.directed = true ∧ s.modulus = m := by
  unfold fromSortedEdges at h
  split at h
  · injection h with h; subst h; exact ⟨rfl, rfl⟩
  · dsimp only at h
    split at h
    · cases h
    · injection h with h; subst h; exact ⟨rfl, rfl⟩

end histories

end CsrW2

open CsrW2

/-! ### main theorems -/

/-- **directed `Csr`: the visit traits describe one consistent graph** in every state that satisfies the
representation invariant and whose node count fits the index type. -/
theorem csrTable_consistent (s : State) (h : C05T.Inv s) (hf : IxFits s) (hd : s.directed = true) :
    TableConsistent (nodeIdentifiers s) (csrTable s) := by
  obtain ⟨R, good⟩ := h
  exact {
    ids := csr_idsOk hf
    refs := csr_refsOk good
    index := csr_indexOk hf
    compact := csr_compactOk hf
    erefs := csr_erefsOk_dir good hf hd
    eix := csr_eixOk
    nbrs := csr_nbrsOk_dir good hf hd
    nbrsOut := csr_nbrsOutOk
    nbrsIn := csr_nbrsInOk
    edges := csr_edgesOk_dir good hf hd
    edgesOut := csr_edgesOutOk
    edgesIn := csr_edgesInOk
    adj := csr_adjOk good hf }

theorem csrTable_callsOk (s : State) (h : C05T.Inv s) (hf : IxFits s) : CsrView.callsOk s := by
  obtain ⟨R, good⟩ := h
  exact csr_callsOk good hf

/-- **undirected `Csr`, behind the repair of the recorded finding D7**: with `edge_references` listing every edge
once (source ≤ target) under its endpoint-pair id, the table is consistent.  `hcount` is the part of the
invariant that `C05T.Inv` does not record (`edge_count()` counts every edge once); it follows from the
abstraction relation (`csr_edgeCountOk`). -/
theorem csrTable_consistent_undirected (s : State) (h : C05T.Inv s) (hf : IxFits s) (hd : s.directed = false) (hcount : EdgeCountOk s) :
    TableConsistent (nodeIdentifiers s) (repairD7 (csrTable s)) := by
  obtain ⟨R, good⟩ := h
  exact {
    ids := csr_idsOk hf
    refs := csr_refsOk good
    index := csr_indexOk hf
    compact := csr_compactOk hf
    erefs := csr_erefsOk_und good hf hd ((edgeCountOk_iff good).1 hcount)
    eix := fun _ _ => whenSome_none _
    nbrs := csr_nbrsOk_und good hf hd
    nbrsOut := fun _ _ => whenSome_none _
    nbrsIn := fun _ _ => whenSome_none _
    edges := csr_edgesOk_und good hf hd
    edgesOut := fun _ _ => whenSome_none _
    edgesIn := fun _ _ => whenSome_none _
    adj := csr_adjOk_und good hf hd }

/-- `hcount` from the refinement relation of C05 -/
theorem csr_edgeCountOk (s : State) (R : List Row) (g : AppendSpec.SG) (good : C05T.Good s R) (abs : C05T.Abs s R g)
    (wf : SGWF g) (hf : IxFits s) (hd : s.directed = false) : EdgeCountOk s :=
  edgeCountOk_of_abs good hf abs wf hd

/-- **all histories, directed**: after any sequence of `add_node` / `add_edge` / `try_add_edge` / `clear_edges` /
`IndexMut` calls (valid or not) on `Csr::<_, _, Directed, _>::with_nodes(n)` (wave 5: no `Fits` hypothesis on the history — at the capacity of the index
type `add_node` panics and leaves the graph as it was), the visit-trait table is consistent and no trait call panics. -/
theorem csrTable_consistent_all_histories (m c : Nat) (dbg : Bool) (n : Nat) (ops : List CsrM.Op)
    (h0 : m = 0 ∨ n ≤ m) :
    let s := (run (withNodes true m c dbg n) ops).1
    TableConsistent (nodeIdentifiers s) (csrTable s) ∧ CsrView.callsOk s := by
  intro s
  obtain ⟨R, good, _, _⟩ := C05T.C05_csr_all_histories true m c dbg n ops
  have hinit := C05T.C05_csr_inv_init true m c dbg n
  obtain ⟨_, _, _, sp, hf⟩ := csr_run_facts (good_withNodes true m c dbg n) hinit.2.2 ops
    (by simpa [IxFits, withNodes, State.nodeCount] using h0)
  have hd : s.directed = true := sp.1
  exact ⟨csrTable_consistent s ⟨R, good⟩ hf hd, csrTable_callsOk s ⟨R, good⟩ hf⟩

/-- **all histories, directed, starting from `from_sorted_edges`** -/
theorem csrTable_consistent_from_sorted (m c : Nat) (dbg : Bool) (es : List Edge) (s0 : State) (ops : List CsrM.Op)
    (h : fromSortedEdges m c dbg es = .ok s0) (h0 : IxFits s0) :
    let s := (run s0 ops).1
    TableConsistent (nodeIdentifiers s) (csrTable s) ∧ CsrView.callsOk s := by
  intro s
  obtain ⟨_, _, R0, good0, abs0⟩ := C05T.C05_from_sorted_equals_fold m c dbg es s0 h
  have hm : s0.modulus = m := (fromSorted_directed h).2
  obtain ⟨R, good, _, sp, hf⟩ := csr_run_facts good0 abs0 ops h0
  have hd : s.directed = true := sp.1.trans (fromSorted_directed h).1
  exact ⟨csrTable_consistent s ⟨R, good⟩ hf hd, csrTable_callsOk s ⟨R, good⟩ hf⟩

/-- **all histories, undirected** (behind `repairD7`) -/
theorem csrTable_consistent_all_histories_undirected (m c : Nat) (dbg : Bool) (n : Nat) (ops : List CsrM.Op)
    (h0 : m = 0 ∨ n ≤ m) :
    let s := (run (withNodes false m c dbg n) ops).1
    TableConsistent (nodeIdentifiers s) (repairD7 (csrTable s)) ∧ CsrView.callsOk s := by
  intro s
  have hinit := C05T.C05_csr_inv_init false m c dbg n
  obtain ⟨R, good, abs, sp, hf⟩ := csr_run_facts (good_withNodes false m c dbg n) hinit.2.2 ops
    (by simpa [IxFits, withNodes, State.nodeCount] using h0)
  have hd : s.directed = false := sp.1
  have wf : SGWF (specRun (withNodes false m c dbg n).modulus
      { directed := false, nodes := List.replicate n 0, edges := [] } ops).1 :=
    SGWF.run ⟨by simp, by intro _ k hk; simp at hk⟩ _ ops
  exact ⟨csrTable_consistent_undirected s ⟨R, good⟩ hf hd (edgeCountOk_of_abs good hf abs wf hd),
    csrTable_callsOk s ⟨R, good⟩ hf⟩

/-! ### non-vacuity and the tie to the dumped witness -/

/-- the table computed from the model for `Csr<Undirected>` with the single edge `0 – 1` (weight 3) is, field for
field, the table dumped from the real crate (`C06T.w4` in Theorems/C06.lean, finding D7; not imported here to keep
Theorems/C06.lean free to import this file): unrepaired it violates the property, repaired it satisfies it -/
example : csrTable (run (CsrM.new false 4294967296 32 true) [.addNode 10, .addNode 11, .addEdge 0 1 3]).1 =
    { directed := false, ids := some [0, 1], refs := some [(0, 10), (1, 11)], nodeCount := some 2,
      nodeBound := 2, toIx := [(0, 0), (1, 1)], fromIx := [(0, 0), (1, 1)], compact := true,
      erefs := some [⟨0, 0, 1, 3⟩, ⟨1, 1, 0, 3⟩], edgeCount := some 1, edgeBound := none, eix := none,
      nbrs := some [(0, [1]), (1, [0])], nbrsOut := none, nbrsIn := none,
      edges := some [(0, [⟨0, 0, 1, 3⟩]), (1, [⟨1, 1, 0, 3⟩])], edgesOut := none, edgesIn := none,
      adj := some [(0, [1]), (1, [0])] } := by
  decide
example : checkTable [0, 1] (csrTable (run (CsrM.new false 4294967296 32 true) [.addNode 10, .addNode 11, .addEdge 0 1 3]).1) = false := by
  decide
example : checkTable [0, 1] (repairD7 (csrTable (run (CsrM.new false 4294967296 32 true) [.addNode 10, .addNode 11, .addEdge 0 1 3]).1)) = true := by
  decide

/-- the hypotheses of the history theorems are satisfiable by non-trivial histories (self-loop, duplicate edge,
out-of-range endpoint, `clear_edges`, `add_node` after edges) -/
example :
    let s := (run (withNodes true 256 32 true 3)
      [.addEdge 0 2 5, .addEdge 1 1 7, .tryAddEdge 0 2 9, .tryAddEdge 1 3 1, .addNode 4, .addEdge 3 0 2]).1
    TableConsistent (nodeIdentifiers s) (csrTable s) ∧ CsrView.callsOk s :=
  csrTable_consistent_all_histories 256 32 true 3 _ (by omega)
example :
    let s := (run (withNodes false 256 32 true 3)
      [.addEdge 0 2 5, .addEdge 1 1 7, .tryAddEdge 2 0 9, .clearEdges, .addNode 4, .addEdge 3 0 2, .addEdge 1 1 1]).1
    TableConsistent (nodeIdentifiers s) (repairD7 (csrTable s)) ∧ CsrView.callsOk s :=
  csrTable_consistent_all_histories_undirected 256 32 true 3 _ (by omega)

end PetgraphModel.Visit
