import PetgraphModel.Proofs.C16W2ApDefs
/-
C16, second wave — articulation points, Part I (b): the invariant of the stack machine.

`Core` (discovery numbers, parents, gray path, descendants), `LowInv` (low-link values),
`ApsInv` (result set), over a gray path `G` and a tracker `st`.
-/
namespace PetgraphModel.C16P.W2Ap
open PetgraphModel MGraph C16M

/-- `Anc st u x`: following `parent` from `x` reaches `u` -/
inductive Anc (st : AP) : Nat → Nat → Prop
  | refl (u : Nat) : Anc st u u
  | step {u p x : Nat} : Anc st u p → pO st x = some p → Anc st u x

theorem anc_mono {st st' : AP} (h : ∀ i p, pO st i = some p → pO st' i = some p) {u x : Nat}
    (ha : Anc st u x) : Anc st' u x := by
  induction ha with
  | refl => exact Anc.refl _
  | step _ hp ih => exact Anc.step ih (h _ _ hp)

/-- the gray path is a parent chain ending in a root; all frames below the top are running -/
def Chain (st : AP) : List (Nat × FS) → Prop
  | [] => True
  | [(r, _)] => pO st r = none
  | (u, _) :: (p, sp) :: rest => pO st u = some p ∧ (∃ P R, sp = .run P R) ∧ Chain st ((p, sp) :: rest)

theorem chain_head_state (st : AP) (u : Nat) (s s' : FS) (rest : List (Nat × FS))
    (h : Chain st ((u, s) :: rest)) : Chain st ((u, s') :: rest) := by
  cases rest with
  | nil => exact h
  | cons y rest => obtain ⟨p, sp⟩ := y; exact h

theorem chain_tail (st : AP) (x : Nat × FS) (rest : List (Nat × FS)) (h : Chain st (x :: rest)) :
    Chain st rest := by
  cases rest with
  | nil => trivial
  | cons y rest => obtain ⟨u, s⟩ := x; obtain ⟨p, sp⟩ := y; exact h.2.2

theorem chain_tail_run (st : AP) : ∀ (rest : List (Nat × FS)) (x : Nat × FS), Chain st (x :: rest) →
    ∀ u s, (u, s) ∈ rest → ∃ P R, s = .run P R := by
  intro rest
  induction rest with
  | nil => intro x _ u s h; cases h
  | cons y rest ih =>
    intro x h u s hm
    obtain ⟨u0, s0⟩ := x; obtain ⟨p, sp⟩ := y
    cases List.mem_cons.mp hm with
    | inl h' => cases h'; exact h.2.1
    | inr h' => exact ih (p, sp) h.2.2 u s h'

theorem chain_anc (st : AP) : ∀ (rest : List (Nat × FS)) (h0 : Nat) (s0 : FS), Chain st ((h0, s0) :: rest) →
    ∀ u s, (u, s) ∈ (h0, s0) :: rest → Anc st u h0 := by
  intro rest
  induction rest with
  | nil =>
    intro h0 s0 _ u s hm
    simp only [List.mem_singleton, Prod.mk.injEq] at hm
    rw [hm.1]; exact Anc.refl _
  | cons y rest ih =>
    intro h0 s0 h u s hm
    obtain ⟨p, sp⟩ := y
    cases List.mem_cons.mp hm with
    | inl h' => cases h'; exact Anc.refl _
    | inr h' => exact Anc.step (ih p sp h.2.2 u s h') h.1

theorem chain_congr (st st' : AP) : ∀ (G : List (Nat × FS)), (∀ u s, (u, s) ∈ G → pO st' u = pO st u) →
    Chain st G → Chain st' G := by
  intro G
  induction G with
  | nil => intro _ _; trivial
  | cons x rest ih =>
    intro hp h
    obtain ⟨u, s⟩ := x
    cases rest with
    | nil =>
      show pO st' u = none
      rw [hp u s (List.mem_cons_self ..)]; exact h
    | cons y rest =>
      obtain ⟨p, sp⟩ := y
      refine ⟨?_, h.2.1, ih (fun u' s' hm => hp u' s' (List.mem_cons_of_mem _ hm)) h.2.2⟩
      rw [hp u s (List.mem_cons_self ..)]; exact h.1

theorem chain_root (st : AP) (u : Nat) (s : FS) (rest : List (Nat × FS)) (h : Chain st ((u, s) :: rest))
    (hp : pO st u = none) : rest = [] := by
  cases rest with
  | nil => rfl
  | cons y rest => obtain ⟨p, sp⟩ := y; rw [h.1] at hp; cases hp

/-- `x` is visited and its `rootCheck` has been executed -/
def Finished (G : List (Nat × FS)) (st : AP) (x : Nat) : Prop :=
  x ∈ st.visited ∧ ∀ s, (x, s) ∈ G → s = .fin

/-- `x` is visited and no longer on the gray path (its `noBack` has been executed, or it is a
finished root of an earlier tree) -/
def Folded (G : List (Nat × FS)) (st : AP) (x : Nat) : Prop :=
  x ∈ st.visited ∧ ∀ s, (x, s) ∉ G

structure Core (v : View) (G : List (Nat × FS)) (st : AP) : Prop where
  tab : TabOk v st
  gvalid : ∀ u s, (u, s) ∈ G → Valid v u
  gnodup : (G.map (·.1)).Nodup
  disc_vis : ∀ i, i ∈ st.visited ↔ (dO st i).isSome
  disc_lt : ∀ i d, dO st i = some d → d < st.time
  disc_inj : ∀ i j d, dO st i = some d → dO st j = some d → i = j
  par_vis : ∀ i p, pO st i = some p → p ∈ st.visited ∧ i ∈ nbr v p
  par_lt : ∀ i p, pO st i = some p → i ∈ st.visited → dN st p < dN st i
  par_unvis : ∀ i p, pO st i = some p → i ∉ st.visited → ∃ rest, G = (i, .pend) :: rest
  chain : Chain st G
  pend_unvis : ∀ u, (u, FS.pend) ∈ G → u ∉ st.visited
  nonpend_vis : ∀ u s, (u, s) ∈ G → s ≠ .pend → u ∈ st.visited
  run_split : ∀ u P R, (u, FS.run P R) ∈ G → (nbr v u).reverse = P ++ R
  proc_vis : ∀ u P R w, (u, FS.run P R) ∈ G → w ∈ P → w ∈ st.visited ∨ (w, FS.pend) ∈ G
  done_vis : ∀ x w, Finished G st x → w ∈ nbr v x → w ∈ st.visited
  desc : ∀ x u s, x ∈ st.visited → (u, s) ∈ G → u ∈ st.visited → dN st u ≤ dN st x → Anc st u x
  done_desc : ∀ x w, Finished G st x → w ∈ nbr v x → dN st x < dN st w → Anc st x w

structure LowInv (v : View) (G : List (Nat × FS)) (st : AP) : Prop where
  low_le : ∀ i, i ∈ st.visited → ∃ l, lO st i = some l ∧ l ≤ dN st i
  proc_low : ∀ u P R w, (u, FS.run P R) ∈ G → w ∈ P → w ∈ st.visited → some w ≠ pO st u →
    lN st u ≤ dN st w
  done_low : ∀ x w, Finished G st x → w ∈ nbr v x → some w ≠ pO st x → lN st x ≤ dN st w
  low_fold : ∀ c u, pO st c = some u → Folded G st c → lN st u ≤ lN st c
  low_att : ∀ x, x ∈ st.visited → lN st x = dN st x ∨
    (∃ w, w ∈ nbr v x ∧ w ∈ st.visited ∧ lN st x = dN st w) ∨
    (∃ c, pO st c = some x ∧ Folded G st c ∧ lN st x = lN st c)

structure ApsInv (G : List (Nat × FS)) (st : AP) : Prop where
  aps_vis : ∀ i, i ∈ st.aps → i ∈ st.visited
  aps_sound : ∀ i, i ∈ st.aps →
    (∃ q c, pO st i = some q ∧ pO st c = some i ∧ Folded G st c ∧ dN st i ≤ lN st c) ∨
    (pO st i = none ∧ ∃ c1 c2, c1 ≠ c2 ∧ pO st c1 = some i ∧ pO st c2 = some i)
  aps_nonroot : ∀ u q c, pO st u = some q → pO st c = some u → Folded G st c → dN st u ≤ lN st c →
    u ∈ st.aps
  aps_root : ∀ r c1 c2, pO st r = none → Finished G st r → c1 ≠ c2 → pO st c1 = some r →
    pO st c2 = some r → r ∈ st.aps

structure Inv (v : View) (G : List (Nat × FS)) (st : AP) : Prop where
  core : Core v G st
  low : LowInv v G st
  aps : ApsInv G st

/-- `children_count[r]` (the value `n`) describes the tree children of `r` -/
structure CcOk (st : AP) (r : Nat) (n : Nat) : Prop where
  zero : n = 0 → ∀ c, pO st c ≠ some r
  one : n = 1 → ∃ c0, pO st c0 = some r ∧ ∀ c, pO st c = some r → c = c0
  many : n ≥ 2 → ∃ c1 c2, c1 ≠ c2 ∧ pO st c1 = some r ∧ pO st c2 = some r

/-! ### simple consequences -/

theorem Core.dO_some {v : View} {G : List (Nat × FS)} {st : AP} (C : Core v G st) {i : Nat}
    (h : i ∈ st.visited) : dO st i = some (dN st i) := by
  have := (C.disc_vis i).mp h
  unfold dN
  cases hd : dO st i with
  | none => rw [hd] at this; cases this
  | some d => rfl

theorem Core.dN_lt {v : View} {G : List (Nat × FS)} {st : AP} (C : Core v G st) {i : Nat}
    (h : i ∈ st.visited) : dN st i < st.time := C.disc_lt i _ (C.dO_some h)

theorem Core.dN_inj {v : View} {G : List (Nat × FS)} {st : AP} (C : Core v G st) {i j : Nat}
    (hi : i ∈ st.visited) (hj : j ∈ st.visited) (h : dN st i = dN st j) : i = j :=
  C.disc_inj i j (dN st i) (C.dO_some hi) (h ▸ C.dO_some hj)

theorem Core.lt_nb {v : View} {G : List (Nat × FS)} {st : AP} (C : Core v G st) (hi : IndexOk v)
    {i : Nat} (h : Valid v i) : i < st.nb ∧ i < st.disc.length ∧ i < st.low.length ∧ i < st.parent.length := by
  have := valid_lt v hi i h
  exact ⟨C.tab.nb ▸ this, C.tab.disc ▸ this, C.tab.low ▸ this, C.tab.parent ▸ this⟩

theorem LowInv.lO_some {v : View} {G : List (Nat × FS)} {st : AP} (L : LowInv v G st) {i : Nat}
    (h : i ∈ st.visited) : lO st i = some (lN st i) ∧ lN st i ≤ dN st i := by
  obtain ⟨l, h1, h2⟩ := L.low_le i h
  unfold lN
  rw [h1]; exact ⟨rfl, h2⟩

/-- no frame other than the head is pending -/
theorem Core.pend_head {v : View} {G : List (Nat × FS)} {st : AP} (C : Core v G st) {x : Nat × FS}
    {rest : List (Nat × FS)} (hG : G = x :: rest) {w : Nat} (h : (w, FS.pend) ∈ rest) : False := by
  subst hG
  obtain ⟨P, R, h'⟩ := chain_tail_run st rest x C.chain w _ h
  cases h'

/-- a node of the gray path occurs once -/
theorem Core.head_notin {v : View} {st : AP} {u : Nat} {s : FS} {rest : List (Nat × FS)}
    (C : Core v ((u, s) :: rest) st) (s' : FS) : (u, s') ∉ rest := by
  intro h
  have := C.gnodup
  simp only [List.map_cons, List.nodup_cons] at this
  exact this.1 (List.mem_map.mpr ⟨(u, s'), h, rfl⟩)

/-! ### changing only the state of the head frame / only `low` and `aps` -/

theorem folded_head_iff (u : Nat) (s s' : FS) (rest : List (Nat × FS)) (st : AP) (x : Nat) :
    Folded ((u, s) :: rest) st x ↔ Folded ((u, s') :: rest) st x := by
  unfold Folded
  constructor <;> rintro ⟨h1, h2⟩ <;> refine ⟨h1, fun s0 hs0 => ?_⟩ <;>
    cases List.mem_cons.mp hs0 with
    | inl h => cases h; exact h2 _ (List.mem_cons_self ..)
    | inr h => exact h2 s0 (List.mem_cons_of_mem _ h)

theorem finished_head_iff (u : Nat) (s s' : FS) (hs : s ≠ .fin) (hs' : s' ≠ .fin)
    (rest : List (Nat × FS)) (st : AP) (x : Nat) :
    Finished ((u, s) :: rest) st x ↔ Finished ((u, s') :: rest) st x := by
  unfold Finished
  constructor <;> rintro ⟨h1, h2⟩ <;> refine ⟨h1, fun s0 hs0 => ?_⟩ <;>
    cases List.mem_cons.mp hs0 with
    | inl h =>
      cases h
      have := h2 _ (List.mem_cons_self ..)
      first | exact (hs this).elim | exact (hs' this).elim
    | inr h => exact h2 s0 (List.mem_cons_of_mem _ h)

theorem finished_ne_head {u : Nat} {s : FS} (hs : s ≠ .fin) {rest : List (Nat × FS)} {st : AP} {x : Nat}
    (h : Finished ((u, s) :: rest) st x) : x ≠ u := by
  intro hx; subst hx
  exact hs (h.2 _ (List.mem_cons_self ..))

theorem folded_ne_head {u : Nat} {s : FS} {rest : List (Nat × FS)} {st : AP} {x : Nat}
    (h : Folded ((u, s) :: rest) st x) : x ≠ u := by
  intro hx; subst hx
  exact h.2 _ (List.mem_cons_self ..)

theorem anc_congr {st st' : AP} (hp : ∀ j, pO st' j = pO st j) {u x : Nat} : Anc st' u x ↔ Anc st u x :=
  ⟨anc_mono (fun i p h => by rw [← hp]; exact h), anc_mono (fun i p h => by rw [hp]; exact h)⟩

/-- `Core` only looks at `visited`, `time`, `disc`, `parent` (and the table sizes) -/
theorem core_congr {v : View} {G : List (Nat × FS)} {st st' : AP} (C : Core v G st)
    (htab : TabOk v st') (hvis : st'.visited = st.visited) (htime : st'.time = st.time)
    (hd : ∀ j, dO st' j = dO st j) (hp : ∀ j, pO st' j = pO st j) : Core v G st' := by
  have hdN : ∀ j, dN st' j = dN st j := by intro j; simp only [dN, hd]
  have hfin : ∀ x, Finished G st' x ↔ Finished G st x := by intro x; simp only [Finished, hvis]
  refine
    { tab := htab, gvalid := C.gvalid, gnodup := C.gnodup, disc_vis := ?_, disc_lt := ?_, disc_inj := ?_,
      par_vis := ?_, par_lt := ?_, par_unvis := ?_,
      chain := chain_congr st st' G (fun u _ _ => hp u) C.chain,
      pend_unvis := ?_, nonpend_vis := ?_, run_split := C.run_split, proc_vis := ?_, done_vis := ?_,
      desc := ?_, done_desc := ?_ }
  · intro i; rw [hvis, hd]; exact C.disc_vis i
  · intro i d; rw [hd, htime]; exact C.disc_lt i d
  · intro i j d; rw [hd, hd]; exact C.disc_inj i j d
  · intro i p; rw [hp, hvis]; exact C.par_vis i p
  · intro i p; rw [hp, hvis, hdN, hdN]; exact C.par_lt i p
  · intro i p; rw [hp, hvis]; exact C.par_unvis i p
  · intro u; rw [hvis]; exact C.pend_unvis u
  · intro u s; rw [hvis]; exact C.nonpend_vis u s
  · intro u P R w; rw [hvis]; exact C.proc_vis u P R w
  · intro x w; rw [hfin, hvis]; exact C.done_vis x w
  · intro x u s; rw [hvis, hdN, hdN, anc_congr hp]; exact C.desc x u s
  · intro x w; rw [hfin, hdN, hdN, anc_congr hp]; exact C.done_desc x w

theorem tabOk_stLow {v : View} {st : AP} (h : TabOk v st) (u : Nat) (x : Option Nat) : TabOk v (stLow st u x) :=
  ⟨h.nb, by simp [stLow, h.low], h.disc, h.parent, h.visited⟩

theorem tabOk_stAps {v : View} {st : AP} (h : TabOk v st) (u : Nat) : TabOk v (stAps st u) :=
  ⟨h.nb, h.low, h.disc, h.parent, h.visited⟩

theorem core_stLow {v : View} {G : List (Nat × FS)} {st : AP} (C : Core v G st) (u : Nat) (x : Option Nat) :
    Core v G (stLow st u x) :=
  core_congr C (tabOk_stLow C.tab u x) rfl rfl (fun _ => rfl) (fun _ => rfl)

theorem core_stAps {v : View} {G : List (Nat × FS)} {st : AP} (C : Core v G st) (u : Nat) :
    Core v G (stAps st u) :=
  core_congr C (tabOk_stAps C.tab u) rfl rfl (fun _ => rfl) (fun _ => rfl)

/-- `LowInv` does not look at `aps` -/
theorem low_stAps {v : View} {G : List (Nat × FS)} {st : AP} (L : LowInv v G st) (u : Nat) :
    LowInv v G (stAps st u) :=
  ⟨L.low_le, L.proc_low, L.done_low, L.low_fold, L.low_att⟩

end PetgraphModel.C16P.W2Ap
