import PetgraphModel.Oracle.C12W4
import PetgraphModel.Driver.C12
import PetgraphModel.Proofs.C12Prim
import PetgraphModel.Proofs.C12Driver
/-
C12, wave 4 — `min_spanning_tree_prim` on DIRECTED storage.

* `judgePrimDirected` decides the specification `DirPrimTree` (`Oracle/C12W4.lean`): sound and complete.
* What `DirPrimTree` implies: the tree's node set is exactly the set of nodes reachable from the first
  node by directed walks; one edge less than nodes; the targets are pairwise distinct and never the
  first node; read as undirected edges the stream is acyclic (a tree).
* The Prim mirror model, on every directed view (`DView`: `g.edges(a)` = the stored out-edges of
  `a`), terminates without fault or panic within `primFuel` and emits exactly such a tree.
-/
namespace PetgraphModel.MST
open PetgraphModel MGraph

/-! ### the judge decides `DirPrimTree` -/

theorem dgrowStep_none {E : List Edge} {T : List Nat} {s : Nat × Nat × Int} (h : dgrowStep E T s = none) :
    s.1 ∈ T ∧ s.2.1 ∉ T ∧ (∃ e ∈ E, e.src = s.1 ∧ e.tgt = s.2.1 ∧ e.w = s.2.2) ∧
    (∀ e ∈ E, e.src ∈ T → e.tgt ∉ T → s.2.2 ≤ e.w) := by
  unfold dgrowStep at h
  cases c1 : T.contains s.1 with
  | false => rw [c1] at h; cases h
  | true =>
    cases c2 : T.contains s.2.1 with
    | true => rw [c1, c2] at h; cases h
    | false =>
      cases c3 : (E.any fun e => e.src == s.1 && e.tgt == s.2.1 && e.w == s.2.2) with
      | false => rw [c1, c2, c3] at h; cases h
      | true =>
        cases c4 : (E.all fun e => !T.contains e.src || T.contains e.tgt || decide (s.2.2 ≤ e.w)) with
        | false => rw [c1, c2, c3, c4] at h; cases h
        | true =>
          simp only [List.any_eq_true, Bool.and_eq_true, beq_iff_eq] at c3
          simp only [List.all_eq_true, Bool.or_eq_true, Bool.not_eq_true', decide_eq_true_eq] at c4
          refine ⟨by simpa using c1, by simpa using c2, ?_, ?_⟩
          · obtain ⟨e, he, ⟨h5, h6⟩, h7⟩ := c3
            exact ⟨e, he, h5, h6, h7⟩
          · intro e he hs ht
            rcases c4 e he with (h5 | h5) | h5
            · have : e.src ∉ T := by simpa using h5
              exact absurd hs this
            · exact absurd (by simpa using h5) ht
            · exact h5

theorem dgrowStep_of {E : List Edge} {T : List Nat} {s : Nat × Nat × Int} (h1 : s.1 ∈ T) (h2 : s.2.1 ∉ T)
    (h3 : ∃ e ∈ E, e.src = s.1 ∧ e.tgt = s.2.1 ∧ e.w = s.2.2)
    (h4 : ∀ e ∈ E, e.src ∈ T → e.tgt ∉ T → s.2.2 ≤ e.w) : dgrowStep E T s = none := by
  unfold dgrowStep
  have c1 : T.contains s.1 = true := by simpa using h1
  have c2 : T.contains s.2.1 = false := by simpa using h2
  have c3 : (E.any fun e => e.src == s.1 && e.tgt == s.2.1 && e.w == s.2.2) = true := by
    obtain ⟨e, he, h5, h6, h7⟩ := h3
    simp only [List.any_eq_true, Bool.and_eq_true, beq_iff_eq]
    exact ⟨e, he, ⟨h5, h6⟩, h7⟩
  have c4 : (E.all fun e => !T.contains e.src || T.contains e.tgt || decide (s.2.2 ≤ e.w)) = true := by
    simp only [List.all_eq_true, Bool.or_eq_true, Bool.not_eq_true', decide_eq_true_eq]
    intro e he
    by_cases hs : e.src ∈ T
    · by_cases ht : e.tgt ∈ T
      · exact Or.inl (Or.inr (by simpa using ht))
      · exact Or.inr (h4 e he hs ht)
    · exact Or.inl (Or.inl (by simpa using hs))
  rw [c1, c2, c3, c4]
  rfl

theorem dgrowRun_sound {E : List Edge} : ∀ {S : List (Nat × Nat × Int)} {T T' : List Nat},
    dgrowRun E T S = .ok T' → DGrow E T S T'
  | [], T, T', h => by simp only [dgrowRun, Except.ok.injEq] at h; subst h; exact .nil T
  | (a, b, w) :: S, T, T', h => by
    simp only [dgrowRun] at h
    split at h
    · cases h
    · rename_i hs
      obtain ⟨h1, h2, h3, h4⟩ := dgrowStep_none hs
      exact .cons h1 h2 h3 h4 (dgrowRun_sound h)

theorem dgrowRun_complete {E : List Edge} {T T' : List Nat} {S : List (Nat × Nat × Int)}
    (h : DGrow E T S T') : dgrowRun E T S = .ok T' := by
  induction h with
  | nil T => rfl
  | cons h1 h2 h3 h4 _ ih =>
    simp only [dgrowRun, dgrowStep_of (s := (_, _, _)) h1 h2 h3 h4]
    exact ih

theorem closedB_iff {E : List Edge} {T : List Nat} :
    (E.all fun e => !T.contains e.src || T.contains e.tgt) = true ↔ ∀ e ∈ E, e.src ∈ T → e.tgt ∈ T := by
  simp only [List.all_eq_true, Bool.or_eq_true, Bool.not_eq_true', List.contains_iff_mem]
  constructor
  · intro h e he hs
    rcases h e he with h1 | h1
    · have : e.src ∉ T := by simpa using h1
      exact absurd hs this
    · exact h1
  · intro h e he
    by_cases hs : e.src ∈ T
    · exact Or.inr (h e he hs)
    · exact Or.inl (by simpa using hs)

/-- **the judge for directed storage decides the specification** -/
theorem judgePrimDirected_iff (V : List Nat) (E : List Edge) (S : List (Nat × Nat × Int)) :
    judgePrimDirected V E S = none ↔
      (V = [] ∧ S = []) ∨ ∃ r rest, V = r :: rest ∧ DirPrimTree E r S := by
  cases V with
  | nil =>
    simp only [judgePrimDirected, true_and, reduceCtorEq, false_and, exists_false, or_false]
    cases S <;> simp
  | cons r rest =>
    simp only [judgePrimDirected, reduceCtorEq, false_and, false_or, List.cons.injEq]
    constructor
    · intro h
      split at h
      · cases h
      · rename_i T hT
        split at h
        · rename_i hc
          exact ⟨r, rest, ⟨rfl, rfl⟩, T, dgrowRun_sound hT, closedB_iff.mp hc⟩
        · cases h
    · rintro ⟨r', rest', ⟨rfl, rfl⟩, T, hg, hc⟩
      rw [dgrowRun_complete hg]
      simp only [closedB_iff.mpr hc, if_true]

/-! ### what the specification implies -/

/-- a stream edge as an abstract edge -/
def tripleEdge (s : Nat × Nat × Int) : Edge := ⟨0, s.1, s.2.1, s.2.2⟩

theorem DGrow.length {E : List Edge} {T T' : List Nat} {S : List (Nat × Nat × Int)} (h : DGrow E T S T') :
    T'.length = T.length + S.length := by
  induction h with
  | nil => simp
  | cons _ _ _ _ _ ih => simp only [List.length_cons] at ih ⊢; omega

theorem DGrow.nodup {E : List Edge} {T T' : List Nat} {S : List (Nat × Nat × Int)} (h : DGrow E T S T')
    (hn : T.Nodup) : T'.Nodup := by
  induction h with
  | nil => exact hn
  | cons _ h2 _ _ _ ih => exact ih (List.nodup_cons.mpr ⟨h2, hn⟩)

theorem DGrow.mono {E : List Edge} {T T' : List Nat} {S : List (Nat × Nat × Int)} (h : DGrow E T S T') :
    ∀ x ∈ T, x ∈ T' := by
  induction h with
  | nil => exact fun _ hx => hx
  | cons _ _ _ _ _ ih => exact fun x hx => ih x (List.mem_cons_of_mem _ hx)

/-- the final node set is the initial one plus the targets, in reverse order of arrival -/
theorem DGrow.nodes_eq {E : List Edge} {T T' : List Nat} {S : List (Nat × Nat × Int)} (h : DGrow E T S T') :
    T' = (S.map (·.2.1)).reverse ++ T := by
  induction h with
  | nil => simp
  | cons _ _ _ _ _ ih => rw [ih]; simp

/-- every taken node is reachable from the initial ones by stored edges in their stored direction -/
theorem DGrow.reach {g : MGraph} {T T' : List Nat} {S : List (Nat × Nat × Int)}
    (h : DGrow g.edges T S T') (r : Nat) (hT : ∀ x ∈ T, Reach g r x) : ∀ x ∈ T', Reach g r x := by
  induction h with
  | nil => exact hT
  | @cons T a b w S T' h1 _ h3 _ _ ih =>
    apply ih
    intro x hx
    rcases List.mem_cons.mp hx with rfl | hx
    · obtain ⟨e, he, hs, ht, _⟩ := h3
      exact Reach.step (hT a h1) ⟨e, he, Or.inl ⟨hs, ht⟩⟩
    · exact hT x hx

/-- the sources: every edge element starts at the first node or at the target of an earlier one -/
theorem DGrow.sources {E : List Edge} {T T' : List Nat} {S : List (Nat × Nat × Int)} (h : DGrow E T S T') :
    ∀ (l1 : List (Nat × Nat × Int)) (s : Nat × Nat × Int) (l2 : List (Nat × Nat × Int)),
      S = l1 ++ s :: l2 → (s.1 ∈ T ∨ ∃ p ∈ l1, p.2.1 = s.1) ∧ s.2.1 ∉ T ∧ ∀ p ∈ l1, p.2.1 ≠ s.2.1 := by
  induction h with
  | nil => intro l1 s l2 h; simp at h
  | @cons T a b w S T' h1 h2 _ _ _ ih =>
    intro l1 s l2 hdec
    rcases List.cons_eq_append_iff.mp hdec with ⟨rfl, h'⟩ | ⟨l1', rfl, h'⟩
    · cases h'
      exact ⟨Or.inl h1, h2, by simp⟩
    · obtain ⟨k1, k2, k3⟩ := ih l1' s l2 h'
      refine ⟨?_, fun hm => k2 (List.mem_cons_of_mem _ hm), ?_⟩
      · rcases k1 with k1 | ⟨p, hp, hpe⟩
        · rcases List.mem_cons.mp k1 with rfl | k1
          · exact Or.inr ⟨(a, s.1, w), by simp, rfl⟩
          · exact Or.inl k1
        · exact Or.inr ⟨p, List.mem_cons_of_mem _ hp, hpe⟩
      · intro p hp
        rcases List.mem_cons.mp hp with rfl | hp
        · intro heq
          exact k2 (by simp [← heq])
        · exact k3 p hp

/-- read as undirected edges, the stream is a forest (every edge reaches a new node) -/
theorem DGrow.acyclic {E : List Edge} {T T' : List Nat} {S : List (Nat × Nat × Int)} (h : DGrow E T S T') :
    ∀ A : List Edge, Acyclic A → (∀ e ∈ A, e.src ∈ T ∧ e.tgt ∈ T) →
      Acyclic ((S.map tripleEdge).reverse ++ A) := by
  induction h with
  | nil => intro A hA _; simpa using hA
  | @cons T a b w S T' h1 h2 _ _ _ ih =>
    intro A hA hends
    have hnc : ¬ Conn A (tripleEdge (a, b, w)).src (tripleEdge (a, b, w)).tgt :=
      fun hc => h2 (MstModel.conn_stays hends hc h1)
    have := ih (tripleEdge (a, b, w) :: A) (acyclic_cons hA hnc) (by
      intro e he
      rcases List.mem_cons.mp he with rfl | he
      · exact ⟨List.mem_cons_of_mem _ h1, List.mem_cons_self ..⟩
      · exact ⟨List.mem_cons_of_mem _ (hends e he).1, List.mem_cons_of_mem _ (hends e he).2⟩)
    simpa using this

/-- what holds of an accepted stream on directed storage -/
structure DirPrimFacts (g : MGraph) (r : Nat) (S : List (Nat × Nat × Int)) (T : List Nat) : Prop where
  /-- the tree's nodes: the first node and the targets, each once -/
  nodes : T = (S.map (·.2.1)).reverse ++ [r]
  nodup : T.Nodup
  /-- exactly the nodes reachable from the first node by directed walks -/
  reach : ∀ x, x ∈ T ↔ Reach g r x
  count : S.length + 1 = T.length
  /-- every edge element is a stored edge of `g`, in its stored direction, with its weight -/
  edges : ∀ s ∈ S, ∃ e ∈ g.edges, e.src = s.1 ∧ e.tgt = s.2.1 ∧ e.w = s.2.2
  /-- it starts at the first node or at the target of an earlier edge element; targets are new -/
  order : ∀ l1 s l2, S = l1 ++ s :: l2 →
    (s.1 = r ∨ ∃ p ∈ l1, p.2.1 = s.1) ∧ s.2.1 ≠ r ∧ ∀ p ∈ l1, p.2.1 ≠ s.2.1
  /-- an (undirected) tree -/
  acyclic : Acyclic (S.map tripleEdge)

theorem DGrow.edges {E : List Edge} {T T' : List Nat} {S : List (Nat × Nat × Int)} (h : DGrow E T S T') :
    ∀ s ∈ S, ∃ e ∈ E, e.src = s.1 ∧ e.tgt = s.2.1 ∧ e.w = s.2.2 := by
  induction h with
  | nil => intro s hs; cases hs
  | cons _ _ h3 _ _ ih =>
    intro s hs
    rcases List.mem_cons.mp hs with rfl | hs
    · exact h3
    · exact ih s hs

/-- **`DirPrimTree` on a directed graph: an out-tree spanning exactly the nodes reachable from the
first node** -/
theorem dirPrimTree_facts {g : MGraph} (hd : g.directed = true) {r : Nat} {S : List (Nat × Nat × Int)}
    (h : DirPrimTree g.edges r S) : ∃ T, DirPrimFacts g r S T := by
  obtain ⟨T, hg, hc⟩ := h
  refine ⟨T, hg.nodes_eq, hg.nodup (by simp), ?_, ?_, hg.edges, ?_, ?_⟩
  · intro x
    constructor
    · exact hg.reach r (by simp; exact Reach.refl r) x
    · intro hr
      induction hr with
      | refl => exact hg.mono r (by simp)
      | step _ hadj ih =>
        obtain ⟨e, he, h' | ⟨hnd, _⟩⟩ := hadj
        · rw [← h'.2]; exact hc e he (h'.1 ▸ ih)
        · rw [hd] at hnd; cases hnd
  · have := hg.length; simp at this; omega
  · intro l1 s l2 hdec
    obtain ⟨k1, k2, k3⟩ := hg.sources l1 s l2 hdec
    refine ⟨?_, fun heq => k2 (by simp [heq]), k3⟩
    rcases k1 with k1 | k1
    · exact Or.inl (by simpa using k1)
    · exact Or.inr k1
  · have := hg.acyclic [] (by intro l1 e l2 h; simp at h) (by simp)
    simp only [List.append_nil] at this
    exact Acyclic.perm (List.reverse_perm _) this

end PetgraphModel.MST

namespace PetgraphModel.MstModel
open PetgraphModel PetgraphModel.MST

/-! ### the Prim mirror model on directed views -/

/-- what the model needs from the view of a directed graph: `g.edges(a)` = stored out-edges of `a` -/
structure DView (v : View) : Prop where
  nodup : v.g.nodes.Nodup
  ixInj : ∀ a ∈ v.g.nodes, ∀ b ∈ v.g.nodes, v.toIndex a = v.toIndex b → a = b
  ends : ∀ e ∈ v.g.edges, e.src ∈ v.g.nodes ∧ e.tgt ∈ v.g.nodes
  outSound : ∀ a ∈ v.g.nodes, ∀ oe ∈ v.outOf a, ∃ e ∈ v.g.edges, e.w = v.weight oe.2 ∧
    e.src = a ∧ e.tgt = oe.1
  outComplete : ∀ e ∈ v.g.edges, ∃ oe ∈ v.outOf e.src, oe.1 = e.tgt ∧ v.weight oe.2 = e.w

/-- an item as a stream edge in abstract ids -/
def itemTriple (it : Item) : Nat × Nat × Int := (it.a, it.b, it.w)

structure DInv (v : View) (h : Heap) (Tn : List Nat) : Prop where
  tsub : ∀ x ∈ Tn, x ∈ v.g.nodes
  tnodup : Tn.Nodup
  hin : ∀ it ∈ h, it.a ∈ Tn ∧ IsOut v it
  closed : ∀ a ∈ Tn, ∀ oe ∈ v.outOf a, oe.1 ∈ Tn ∨ outItem v a oe ∈ h
  heap : IsHeap h

theorem contains_map_ix' {v : View} (hinj : ∀ a ∈ v.g.nodes, ∀ b ∈ v.g.nodes, v.toIndex a = v.toIndex b → a = b)
    {Tn : List Nat} (hT : ∀ x ∈ Tn, x ∈ v.g.nodes) {b : Nat} (hb : b ∈ v.g.nodes) :
    (Tn.map v.toIndex).contains (v.toIndex b) = true ↔ b ∈ Tn := by
  simp only [List.contains_iff_mem, List.mem_map]
  constructor
  · rintro ⟨x, hx, heq⟩
    rw [← hinj x (hT x hx) b hb heq]; exact hx
  · intro h; exact ⟨b, h, rfl⟩

theorem pending_cons' {v : View} (hnd : v.g.nodes.Nodup) {Tn : List Nat} {b : Nat} (hb : b ∈ v.g.nodes)
    (hbT : b ∉ Tn) : pending v (b :: Tn) + (v.outOf b).length = pending v Tn :=
  sum_filter_remove (fun x => (v.outOf x).length) v.g.nodes Tn b hnd hb hbT

theorem primLoop_dspec (v : View) (hv : DView v) : ∀ (f : Nat) (h : Heap) (Tn : List Nat)
    (acc : List EdgeEl) (r : Res),
    DInv v h Tn → h.length + pending v Tn < f → primLoop v f h (Tn.map v.toIndex) acc = r →
    ∃ (B : List Item) (Tn' : List Nat),
      r = .ok v.g.nodes (acc.reverse ++ B.map (toEl v.g.nodes)) ∧
      DGrow v.g.edges Tn (B.map itemTriple) Tn' ∧ (∀ e ∈ v.g.edges, e.src ∈ Tn' → e.tgt ∈ Tn') ∧
      (∀ it ∈ B, it.a ∈ v.g.nodes ∧ it.b ∈ v.g.nodes)
  | 0, _, _, _, _, _, hfuel, _ => by omega
  | f+1, h, Tn, acc, r, inv, hfuel, hrun => by
    simp only [primLoop, List.length_map] at hrun
    have fin : (∀ e ∈ v.g.edges, e.src ∈ Tn → e.tgt ∈ Tn) → Res.ok v.g.nodes acc.reverse = r →
        ∃ (B : List Item) (Tn' : List Nat),
          r = .ok v.g.nodes (acc.reverse ++ B.map (toEl v.g.nodes)) ∧
          DGrow v.g.edges Tn (B.map itemTriple) Tn' ∧ (∀ e ∈ v.g.edges, e.src ∈ Tn' → e.tgt ∈ Tn') ∧
          (∀ it ∈ B, it.a ∈ v.g.nodes ∧ it.b ∈ v.g.nodes) := by
      intro hc heq
      subst heq
      exact ⟨[], Tn, by simp, .nil Tn, hc, by simp⟩
    split at hrun
    · rename_i hfull
      have hall := full_of_length inv.tnodup inv.tsub hfull
      exact fin (fun e he _ => hall _ (hv.ends e he).2) hrun
    · split at hrun
      · rename_i hp
        have hnil : h = [] := pop_none.mp hp
        refine fin ?_ hrun
        intro e he hs
        obtain ⟨oe, hoe, ht, _⟩ := hv.outComplete e he
        rcases inv.closed e.src hs oe hoe with h1 | hit
        · rw [← ht]; exact h1
        · rw [hnil] at hit; cases hit
      · rename_i it h' hp
        have hperm := pop_perm hp
        have hit : it ∈ h := hperm.mem_iff.mpr (List.mem_cons_self ..)
        have hh' : ∀ x ∈ h', x ∈ h := fun x hx => hperm.mem_iff.mpr (List.mem_cons_of_mem _ hx)
        obtain ⟨hita, oe0, hoe0, hoeq⟩ := inv.hin it hit
        have hitaN : it.a ∈ v.g.nodes := inv.tsub _ hita
        obtain ⟨e0, he0, hw0, hs0, ht0⟩ := hv.outSound it.a hitaN oe0 hoe0
        have hb0 : oe0.1 = it.b := by rw [← hoeq]; rfl
        have hw0' : v.weight oe0.2 = it.w := by rw [← hoeq]; rfl
        have hitbN : it.b ∈ v.g.nodes := by rw [← hb0, ← ht0]; exact (hv.ends e0 he0).2
        have hlen : h.length = h'.length + 1 := by have := hperm.length_eq; simpa using this
        split at hrun
        · -- target already taken: skip
          rename_i hcont
          have hbT : it.b ∈ Tn := (contains_map_ix' hv.ixInj inv.tsub hitbN).mp hcont
          refine primLoop_dspec v hv f h' Tn acc r ?_ (by omega) hrun
          refine { inv with hin := fun x hx => inv.hin x (hh' x hx), closed := ?_,
                            heap := (pop_heap inv.heap hp).1 }
          intro a ha oe hoe
          rcases inv.closed a ha oe hoe with h1 | hx
          · exact Or.inl h1
          · rcases List.mem_cons.mp (hperm.mem_iff.mp hx) with heq | hx'
            · refine Or.inl ?_
              have : oe.1 = it.b := by rw [← heq]; rfl
              rw [this]; exact hbT
            · exact Or.inr hx'
        · -- a new node: accept the edge, push the node's out-edges
          rename_i hcont
          have hbT : it.b ∉ Tn := fun hmem => hcont ((contains_map_ix' hv.ixInj inv.tsub hitbN).mpr hmem)
          rw [posOf_mem hitaN, posOf_mem hitbN] at hrun
          have hmin := (pop_heap inv.heap hp).2
          -- the popped item is a lightest stored edge leaving the taken set
          have hK : ∀ e ∈ v.g.edges, e.src ∈ Tn → e.tgt ∉ Tn → it.w ≤ e.w := by
            intro e he h1 h2
            obtain ⟨oe1, hoe1, ht1, hw1⟩ := hv.outComplete e he
            rcases inv.closed e.src h1 oe1 hoe1 with h3 | h3
            · exact absurd (ht1 ▸ h3) h2
            · have := hmin _ h3; simp only [outItem] at this; omega
          have inv' : DInv v (pushEdges v h' it.b) (it.b :: Tn) := by
            refine ⟨?_, List.nodup_cons.mpr ⟨hbT, inv.tnodup⟩, ?_, ?_,
              foldl_push_heap (outItem v it.b) (v.outOf it.b) h' (pop_heap inv.heap hp).1⟩
            · intro x hx
              rcases List.mem_cons.mp hx with rfl | hx
              · exact hitbN
              · exact inv.tsub x hx
            · intro x hx
              rcases mem_pushEdges.mp hx with ⟨oe, hoe, rfl⟩ | hx'
              · exact ⟨List.mem_cons_self .., oe, hoe, rfl⟩
              · obtain ⟨h1, h2⟩ := inv.hin x (hh' x hx')
                exact ⟨List.mem_cons_of_mem _ h1, h2⟩
            · intro a ha oe hoe
              rcases List.mem_cons.mp ha with rfl | ha
              · exact Or.inr (mem_pushEdges.mpr (Or.inl ⟨oe, hoe, rfl⟩))
              · rcases inv.closed a ha oe hoe with h1 | hx
                · exact Or.inl (List.mem_cons_of_mem _ h1)
                · rcases List.mem_cons.mp (hperm.mem_iff.mp hx) with heq | hx'
                  · refine Or.inl ?_
                    have : oe.1 = it.b := by rw [← heq]; rfl
                    rw [this]; exact List.mem_cons_self ..
                  · exact Or.inr (mem_pushEdges.mpr (Or.inr hx'))
          have hrun' : primLoop v f (pushEdges v h' it.b) ((it.b :: Tn).map v.toIndex)
              (toEl v.g.nodes it :: acc) = r := by simpa [toEl] using hrun
          have hfuel' : (pushEdges v h' it.b).length + pending v (it.b :: Tn) < f := by
            rw [pushEdges_length]
            have := pending_cons' hv.nodup hitbN hbT
            omega
          obtain ⟨B, Tn', hes, hgrow, hclosed, hB⟩ := primLoop_dspec v hv f _ _ _ r inv' hfuel' hrun'
          refine ⟨it :: B, Tn', ?_, ?_, hclosed, ?_⟩
          · rw [hes]; simp
          · simp only [List.map_cons, itemTriple]
            exact .cons hita hbT ⟨e0, he0, hs0, by rw [ht0, hb0], by rw [hw0, hw0']⟩ hK hgrow
          · intro x hx
            rcases List.mem_cons.mp hx with rfl | hx
            · exact ⟨hitaN, hitbN⟩
            · exact hB x hx

/-- **Prim model on directed storage**: on every directed view the model terminates within its fuel
without fault or panic; on the empty graph it emits nothing; otherwise it emits the nodes in order
and a greedy out-tree from the first node (`DirPrimTree`): stored edges in stored direction, each a
lightest edge leaving the tree so far, until no stored edge leaves the tree. -/
theorem prim_directed_correct (v : View) (hv : DView v) :
    (v.g.nodes = [] → prim v = .ok [] []) ∧
    ∀ s rest, v.g.nodes = s :: rest →
      ∃ A : List Item, prim v = .ok v.g.nodes (A.map (toEl v.g.nodes)) ∧
        DirPrimTree v.g.edges s (A.map itemTriple) ∧ ∀ it ∈ A, it.a ∈ v.g.nodes ∧ it.b ∈ v.g.nodes := by
  constructor
  · intro h; simp [prim, h]
  · intro s rest hV
    have hsN : s ∈ v.g.nodes := by rw [hV]; exact List.mem_cons_self ..
    have inv0 : DInv v (pushEdges v [] s) [s] := by
      refine ⟨by simpa using hsN, by simp, ?_, ?_, foldl_push_heap (outItem v s) (v.outOf s) [] isHeap_nil⟩
      · intro x hx
        rcases mem_pushEdges.mp hx with ⟨oe, hoe, rfl⟩ | hx'
        · exact ⟨by simp [outItem], oe, hoe, rfl⟩
        · cases hx'
      · intro a ha oe hoe
        have : a = s := by simpa using ha
        subst this
        exact Or.inr (mem_pushEdges.mpr (Or.inl ⟨oe, hoe, rfl⟩))
    have hfuel : (pushEdges v [] s).length + pending v [s] < primFuel v := by
      rw [pushEdges_length]
      have h1 := pending_cons' hv.nodup (Tn := []) hsN (by simp)
      have h2 : pending v [] = (v.g.nodes.map fun x => (v.outOf x).length).sum := by
        have : (v.g.nodes.filter fun _ => true) = v.g.nodes := List.filter_eq_self.mpr (fun _ _ => rfl)
        simp [pending, this]
      unfold primFuel
      simp only [List.length_nil] at *
      omega
    have hrun : prim v = primLoop v (primFuel v) (pushEdges v [] s) ([s].map v.toIndex) [] := by
      simp [prim, hV]
    obtain ⟨B, Tn', hes, hgrow, hclosed, hB⟩ := primLoop_dspec v hv _ _ _ _ _ inv0 hfuel hrun.symm
    exact ⟨B, by rw [hes]; simp, ⟨Tn', hgrow, hclosed⟩, hB⟩

end PetgraphModel.MstModel

namespace PetgraphModel.C12
open PetgraphModel PetgraphModel.MST PetgraphModel.MstModel

theorem dviewB_sound {v : View} (hw : wfB v.g = true) (hk : kviewB v = true) (h : dviewB v = true) :
    DView v := by
  obtain ⟨hnd, hends⟩ := wfB_sound hw
  obtain ⟨_, hinj⟩ := kviewB_sound hk
  simp only [dviewB, Bool.and_eq_true, List.all_eq_true, List.any_eq_true, beq_iff_eq] at h
  refine ⟨hnd, hinj, hends, ?_, ?_⟩
  · intro a ha oe hoe
    obtain ⟨e, he, ⟨h1, h2⟩, h3⟩ := h.1 a ha oe hoe
    exact ⟨e, he, h1, h2, h3⟩
  · intro e he
    obtain ⟨oe, hoe, h1, h2⟩ := h.2 e he
    exact ⟨oe, hoe, h1, h2⟩

/-- an accepted `graph` line of a directed encoding satisfies `DView` -/
theorem viewOkB_dview {v : View} (h : viewOkB v = true) (hd : v.g.directed = true) : DView v := by
  simp only [viewOkB, Bool.and_eq_true, Bool.or_eq_true] at h
  obtain ⟨⟨⟨⟨hw, hk⟩, _⟩, hdv⟩, _⟩ := h
  rcases hdv with hdv | hdv
  · rw [hd] at hdv; cases hdv
  · exact dviewB_sound hw hk hdv

/-- the driver's named side conditions are exactly `viewOkB` -/
theorem viewFailure_none_iff (v : View) : viewFailure v = none ↔ viewOkB v = true := by
  simp only [viewFailure, viewOkB]
  generalize wfB v.g = a
  generalize kviewB v = b
  generalize (v.g.directed || pviewB v) = c
  generalize (!v.g.directed || dviewB v) = d
  generalize viewIdsB v = e
  cases a <;> cases b <;> cases c <;> cases d <;> cases e <;> simp

end PetgraphModel.C12
