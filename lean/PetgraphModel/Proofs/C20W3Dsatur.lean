import PetgraphModel.Proofs.C20W3DsaturBase
/-
C20 (wave 3) — the heap mechanism of `dsatur_coloring` (`Model/C20DsaturHeap.lean`): lazy deletion is
sound (every node is coloured exactly once), the result is the greedy colouring along the pop order,
and the pop order respects the saturation rule — for every tie-breaking of the heap.
-/
namespace PetgraphModel.C20.DsaturHeap
open PetgraphModel PetgraphModel.MGraph

/-- the saturation rule (the hypothesis of `Dsatur.greedy_bipartite`): every node of the order is
picked while no later node has more distinct neighbour colours -/
def SatRespecting (g : MGraph) (order : List Nat) : Prop :=
  ∀ i (_ : i < order.length), ∀ j (_ : j < order.length), i ≤ j →
    ((Dsatur.adjColours g (Dsatur.greedy g (order.take i)) order[j]).eraseDups.length ≤
     (Dsatur.adjColours g (Dsatur.greedy g (order.take i)) order[i]).eraseDups.length)

/-- the saturation degree of `w` under the partial colouring `col` -/
def sat (g : MGraph) (col : List (Nat × Nat)) (w : Nat) : Nat := (Dsatur.adjColours g col w).eraseDups.length

/-- the loop invariant; `order` = the nodes popped unseen so far, in pop order -/
structure Inv (g : MGraph) (order : List Nat) (st : St) : Prop where
  col : st.colored = Dsatur.greedy g order
  seen : ∀ x, x ∈ st.seen ↔ x ∈ order
  nodup : order.Nodup
  sub : ∀ x ∈ order, x ∈ g.nodes
  adjNodup : ∀ w, (adjOf st.adjCol w).Nodup
  adjMem : ∀ w c, c ∈ adjOf st.adjCol w ↔ c ∈ Dsatur.adjColours g (Dsatur.greedy g order) w
  maxc : st.maxColor = Dsatur.maxOf ((Dsatur.greedy g order).map (·.2))
  /-- (H1) no entry overstates the saturation of its node -/
  h1 : ∀ e ∈ st.queue, e.2.2 ∈ g.nodes ∧ e.1 ≤ (adjOf st.adjCol e.2.2).length
  /-- (H2) every node still to be coloured has an up-to-date entry -/
  h2 : ∀ w ∈ g.nodes, w ∉ order → ((adjOf st.adjCol w).length, degOf g w, w) ∈ st.queue
  /-- every node was picked while no node still to be coloured had a larger saturation -/
  hist : ∀ pre x post, order = pre ++ x :: post → ∀ w ∈ g.nodes, w ∉ pre →
    sat g (Dsatur.greedy g pre) w ≤ sat g (Dsatur.greedy g pre) x

theorem Inv.adjLen {g : MGraph} {order : List Nat} {st : St} (h : Inv g order st) (w : Nat) :
    (adjOf st.adjCol w).length = sat g (Dsatur.greedy g order) w :=
  length_eq_eraseDups (h.adjNodup w) (h.adjMem w)

theorem greedy_append (g : MGraph) (order : List Nat) (v : Nat) :
    Dsatur.greedy g (order ++ [v]) = Dsatur.colourNode g (Dsatur.greedy g order) v := by
  unfold Dsatur.greedy
  rw [List.foldl_append]
  rfl

theorem keyLe_fst {a b : Entry} (h : keyLe a b = true) : a.1 ≤ b.1 := by
  unfold keyLe at h
  simp only [Bool.or_eq_true, Bool.and_eq_true, decide_eq_true_eq, beq_iff_eq] at h
  omega

/-- the colours next to `w` after `v` (not coloured before) got the colour `c` -/
theorem mem_adjColours_cons {g : MGraph} (hd : g.directed = false) {col : List (Nat × Nat)} {v c w c' : Nat}
    (hv : v ∉ col.map (·.1)) :
    c' ∈ Dsatur.adjColours g ((v, c) :: col) w ↔ c' ∈ Dsatur.adjColours g col w ∨ (c' = c ∧ w ∈ g.succ v) := by
  have hnone := Dsatur.lookup_none_of_not_key hv
  rw [Dsatur.mem_adjColours, Dsatur.mem_adjColours]
  constructor
  · rintro ⟨u, hadj, hl⟩
    simp only [List.lookup_cons] at hl
    by_cases huv : u = v
    · subst huv
      simp only [beq_self_eq_true, Option.some.injEq] at hl
      exact Or.inr ⟨hl.symm, MGraph.mem_succ.mpr (adj_symm_undirected hd hadj)⟩
    · have : (u == v) = false := by simpa using huv
      simp only [this] at hl
      exact Or.inl ⟨u, hadj, hl⟩
  · rintro (⟨u, hadj, hl⟩ | ⟨rfl, hw⟩)
    · refine ⟨u, hadj, ?_⟩
      have huv : u ≠ v := fun e => by rw [e, hnone] at hl; cases hl
      have : (u == v) = false := by simpa using huv
      simp only [List.lookup_cons, this]
      exact hl
    · exact ⟨v, adj_symm_undirected hd (MGraph.mem_succ.mp hw), by simp⟩

/-! ### one iteration -/

/-- a stale entry is dropped -/
theorem inv_skip {g : MGraph} {order : List Nat} {st : St} (h : Inv g order st) (e : Entry)
    (hs : e.2.2 ∈ st.seen) : Inv g order { st with queue := st.queue.erase e } := by
  refine ⟨h.col, h.seen, h.nodup, h.sub, h.adjNodup, h.adjMem, h.maxc, ?_, ?_, h.hist⟩
  · intro e' he'
    exact h.h1 e' (List.mem_of_mem_erase he')
  · intro w hw hwo
    have hne : ((adjOf st.adjCol w).length, degOf g w, w) ≠ e := by
      intro heq
      apply hwo
      rw [← h.seen]
      rw [← heq] at hs
      exact hs
    exact (List.mem_erase_of_ne hne).mpr (h.h2 w hw hwo)

/-- a node is coloured: the invariant for the order extended by that node -/
theorem inv_colour {g : MGraph} (hd : g.directed = false) (hg : EndpointsOk g)
    {order : List Nat} {st st' : St} (h : Inv g order st) (e : Entry)
    (he : e ∈ st.queue) (hmax : ∀ e' ∈ st.queue, keyLe e' e = true) (hs : e.2.2 ∉ st.seen)
    (c : Nat) (hc : c = Dsatur.leastFree (adjOf st.adjCol e.2.2))
    (hseen : st'.seen = e.2.2 :: st.seen) (hcol : st'.colored = (e.2.2, c) :: st.colored)
    (hmaxc : st'.maxColor = max st.maxColor c)
    (hadj : ∀ w, adjOf st'.adjCol w =
      if w ∈ g.succ e.2.2 then setInsert (adjOf st.adjCol w) c else adjOf st.adjCol w)
    (hq : st'.queue = st.queue.erase e ++ (g.succ e.2.2).map (pushed g c st.adjCol)) :
    Inv g (order ++ [e.2.2]) st' := by
  obtain ⟨s, d, v⟩ := e
  simp only at hs hc hseen hcol hmaxc hadj hq
  have hvn : v ∈ g.nodes := (h.h1 _ he).1
  have hvo : v ∉ order := fun hm => hs ((h.seen v).mpr hm)
  have hkeys : (Dsatur.greedy g order).map (·.1) = order.reverse := (Dsatur.greedy_spec g hd order h.nodup).1
  have hvk : v ∉ (Dsatur.greedy g order).map (·.1) := by rw [hkeys, List.mem_reverse]; exact hvo
  -- the colour is the greedy one
  have hc' : c = Dsatur.leastFree (Dsatur.adjColours g (Dsatur.greedy g order) v) := by
    rw [hc]; exact leastFree_congr (h.adjMem v)
  have hgreedy : Dsatur.greedy g (order ++ [v]) = (v, c) :: Dsatur.greedy g order := by
    rw [greedy_append, hc']; rfl
  refine ⟨?_, ?_, ?_, ?_, ?_, ?_, ?_, ?_, ?_, ?_⟩
  · rw [hcol, hgreedy, h.col]
  · intro x
    rw [hseen, List.mem_cons, List.mem_append, List.mem_singleton, h.seen]
    exact or_comm
  · rw [List.nodup_append]
    refine ⟨h.nodup, by simp, ?_⟩
    intro a ha b hb
    simp only [List.mem_singleton] at hb
    subst hb
    intro e'
    exact hvo (e' ▸ ha)
  · intro x hx
    rcases List.mem_append.mp hx with hx | hx
    · exact h.sub x hx
    · simp only [List.mem_singleton] at hx; exact hx ▸ hvn
  · intro w
    rw [hadj w]
    split
    · exact setInsert_nodup (h.adjNodup w)
    · exact h.adjNodup w
  · intro w c'
    rw [hgreedy, mem_adjColours_cons hd hvk, hadj w, ← h.adjMem w c']
    by_cases hw : w ∈ g.succ v
    · simp only [hw, if_true, and_true]
      exact mem_setInsert
    · simp only [hw, if_false, and_false, or_false]
  · rw [hmaxc, hgreedy, List.map_cons, maxOf_cons, h.maxc]
  · -- (H1)
    intro e' he'
    rw [hq] at he'
    rcases List.mem_append.mp he' with he' | he'
    · have := h.h1 e' (List.mem_of_mem_erase he')
      refine ⟨this.1, Nat.le_trans this.2 ?_⟩
      rw [hadj]
      split
      · exact length_le_setInsert _ _
      · exact Nat.le_refl _
    · obtain ⟨n, hn, rfl⟩ := List.mem_map.mp he'
      simp only [pushed]
      refine ⟨(adj_nodes hg (MGraph.mem_succ.mp hn)).2, ?_⟩
      rw [hadj n]
      simp [hn]
  · -- (H2)
    intro w hw hwo
    have hwo' : w ∉ order := fun hm => hwo (List.mem_append.mpr (Or.inl hm))
    have hwv : w ≠ v := fun e' => hwo (List.mem_append.mpr (Or.inr (by simp [e'])))
    rw [hq, List.mem_append, hadj w]
    by_cases hws : w ∈ g.succ v
    · right
      simp only [hws, if_true]
      exact List.mem_map.mpr ⟨w, hws, rfl⟩
    · left
      simp only [hws, if_false]
      have hne : ((adjOf st.adjCol w).length, degOf g w, w) ≠ (s, d, v) := by
        intro heq
        simp only [Prod.mk.injEq] at heq
        exact hwv heq.2.2
      exact (List.mem_erase_of_ne hne).mpr (h.h2 w hw hwo')
  · -- the history of the saturation rule
    intro pre x post hsplit w hw hwp
    rcases List.eq_nil_or_concat post with rfl | ⟨L, b, rfl⟩
    · have := List.append_inj' hsplit rfl
      obtain ⟨hpre, hx⟩ := this
      simp only [List.cons.injEq, and_true] at hx
      subst hpre; subst hx
      -- `v` is popped now: `w`'s up-to-date entry is in the heap and not larger
      have hent := h.h2 w hw hwp
      have h1 := keyLe_fst (hmax _ hent)
      have h2 := (h.h1 _ he).2
      simp only at h1 h2
      rw [← h.adjLen w, ← h.adjLen v]
      omega
    · rw [List.concat_eq_append] at hsplit
      have hsplit' : order ++ [v] = (pre ++ x :: L) ++ [b] := by simpa using hsplit
      have := (List.append_inj' hsplit' rfl).1
      exact h.hist pre x L this w hw hwp

theorem body_unseen_eq (g : MGraph) (st : St) (e : Entry) (h : e.2.2 ∉ st.seen) :
    body g { st with queue := st.queue.erase e } e =
      visitNbrs g (Dsatur.leastFree (adjOf st.adjCol e.2.2))
        { queue := st.queue.erase e,
          colored := (e.2.2, Dsatur.leastFree (adjOf st.adjCol e.2.2)) :: st.colored,
          adjCol := st.adjCol, seen := e.2.2 :: st.seen,
          maxColor := max st.maxColor (Dsatur.leastFree (adjOf st.adjCol e.2.2)) } (g.succ e.2.2) := by
  simp [body, h]

/-- one iteration of the `while` loop keeps the invariant (for the same or the extended order) and
uses up one unit of the measure -/
theorem body_inv {g : MGraph} (hd : g.directed = false) (hg : EndpointsOk g) (hnd : g.nodes.Nodup)
    {order : List Nat} {st : St} (h : Inv g order st) (e : Entry)
    (he : e ∈ st.queue) (hmax : ∀ e' ∈ st.queue, keyLe e' e = true) :
    ∃ order', Inv g order' (body g { st with queue := st.queue.erase e } e) ∧
      (body g { st with queue := st.queue.erase e } e).queue.length + rem g order' + 1 =
        st.queue.length + rem g order := by
  have hlen : (st.queue.erase e).length = st.queue.length - 1 := List.length_erase_of_mem he
  have hpos : 0 < st.queue.length := List.length_pos_of_mem he
  by_cases hs : e.2.2 ∈ st.seen
  · refine ⟨order, ?_, ?_⟩
    · have : body g { st with queue := st.queue.erase e } e = { st with queue := st.queue.erase e } := by
        simp [body, hs]
      rw [this]
      exact inv_skip h e hs
    · have : body g { st with queue := st.queue.erase e } e = { st with queue := st.queue.erase e } := by
        simp [body, hs]
      rw [this]
      simp only [hlen]
      omega
  · refine ⟨order ++ [e.2.2], ?_, ?_⟩
    · rw [body_unseen_eq g st e hs]
      obtain ⟨h1, h2, h3, h4, h5⟩ := visitNbrs_spec g (Dsatur.leastFree (adjOf st.adjCol e.2.2)) (g.succ e.2.2)
        { queue := st.queue.erase e,
          colored := (e.2.2, Dsatur.leastFree (adjOf st.adjCol e.2.2)) :: st.colored,
          adjCol := st.adjCol, seen := e.2.2 :: st.seen,
          maxColor := max st.maxColor (Dsatur.leastFree (adjOf st.adjCol e.2.2)) }
      exact inv_colour hd hg h e he hmax hs _ rfl h1 h2 h3 h4 h5
    · rw [body_unseen_eq g st e hs]
      obtain ⟨_, _, _, _, h5⟩ := visitNbrs_spec g (Dsatur.leastFree (adjOf st.adjCol e.2.2)) (g.succ e.2.2)
        { queue := st.queue.erase e,
          colored := (e.2.2, Dsatur.leastFree (adjOf st.adjCol e.2.2)) :: st.colored,
          adjCol := st.adjCol, seen := e.2.2 :: st.seen,
          maxColor := max st.maxColor (Dsatur.leastFree (adjOf st.adjCol e.2.2)) }
      rw [h5]
      have hvo : e.2.2 ∉ order := fun hm => hs ((h.seen _).mpr hm)
      have := rem_step g hnd order e.2.2 (h.h1 e he).1 hvo
      simp only [List.length_append, List.length_map, hlen]
      omega

/-! ### the loop -/

theorem run_spec {g : MGraph} (hd : g.directed = false) (hg : EndpointsOk g) (hnd : g.nodes.Nodup)
    (o : Oracle) (ho : o.Valid) : ∀ (fuel t : Nat) (st : St) (order : List Nat), Inv g order st →
      st.queue.length + rem g order < fuel →
      ∃ st' order', run g o fuel t st = some st' ∧ Inv g order' st' ∧ st'.queue = [] := by
  intro fuel
  induction fuel with
  | zero => intro t st order _ hf; omega
  | succ f ih =>
    intro t st order h hf
    unfold run
    by_cases hq : st.queue = []
    · refine ⟨st, order, ?_, h, hq⟩
      simp [hq]
    · have hemp : st.queue.isEmpty = false := by simpa using hq
      simp only [hemp, Bool.false_eq_true, if_false]
      obtain ⟨he, hmax⟩ := ho t st.queue hq
      obtain ⟨order', hinv, hmeas⟩ := body_inv hd hg hnd h (o.choose t st.queue) he hmax
      exact ih (t + 1) _ order' hinv (by omega)

theorem inv_init (g : MGraph) : Inv g [] (init g) := by
  refine ⟨rfl, by simp [init], by simp, by simp, ?_, ?_, rfl, ?_, ?_, ?_⟩
  · intro w; simp [init, adjOf]
  · intro w c
    rw [Dsatur.mem_adjColours]
    simp [init, adjOf, Dsatur.greedy]
  · intro e he
    simp only [init, List.mem_map] at he
    obtain ⟨v, hv, rfl⟩ := he
    exact ⟨hv, Nat.zero_le _⟩
  · intro w hw _
    simp only [init, List.mem_map]
    exact ⟨w, hw, by simp [adjOf]⟩
  · intro pre x post hsplit
    cases pre <;> simp at hsplit

/-- the history invariant gives the saturation rule in the indexed form -/
theorem satRespecting_of_hist {g : MGraph} {order : List Nat} (hnd : order.Nodup)
    (hsub : ∀ x ∈ order, x ∈ g.nodes)
    (hist : ∀ pre x post, order = pre ++ x :: post → ∀ w ∈ g.nodes, w ∉ pre →
      sat g (Dsatur.greedy g pre) w ≤ sat g (Dsatur.greedy g pre) x) : SatRespecting g order := by
  intro i hi j hj hij
  have hsplit : order = order.take i ++ order[i] :: order.drop (i + 1) := by
    rw [← List.drop_eq_getElem_cons hi, List.take_append_drop]
  refine hist _ _ _ hsplit order[j] (hsub _ (List.getElem_mem hj)) ?_
  intro hm
  obtain ⟨k, hk, hke⟩ := List.mem_take_iff_getElem.mp hm
  have hk' : k < order.length := by omega
  have := (List.getElem_inj (h₀ := hk') (h₁ := hj) hnd).mp hke
  omega

theorem dsatur_heap_model (g : MGraph) (hd : g.directed = false) (hg : EndpointsOk g) (hnd : g.nodes.Nodup)
    (o : Oracle) (ho : o.Valid) (fuel : Nat) (hf : fuelBound g ≤ fuel) :
    ∃ col k order, dsatur g o fuel = some (col, k) ∧
      order.Nodup ∧ (∀ x, x ∈ order ↔ x ∈ g.nodes) ∧
      col = Dsatur.greedy g order ∧ k = Dsatur.count col ∧ SatRespecting g order ∧
      (g.nodes ≠ [] → ColouringOk g col k) ∧ (Bipartite g → k ≤ 2) := by
  have hmeas : (init g).queue.length + rem g [] < fuel := by
    rw [rem_nil]
    unfold fuelBound at hf
    simp only [init, List.length_map]
    omega
  obtain ⟨st, order, hrun, hinv, hq⟩ := run_spec hd hg hnd o ho fuel 0 (init g) [] (inv_init g) hmeas
  have hall : ∀ x, x ∈ order ↔ x ∈ g.nodes := by
    intro x
    refine ⟨hinv.sub x, fun hx => ?_⟩
    apply Classical.byContradiction
    intro hxo
    have := hinv.h2 x hx hxo
    rw [hq] at this
    cases this
  have hsat := satRespecting_of_hist hinv.nodup hinv.sub hinv.hist
  have hk : st.maxColor + 1 = Dsatur.count st.colored := by
    rw [hinv.maxc, hinv.col]; rfl
  obtain ⟨hkeys, hproper, hbelow, hused⟩ := Dsatur.greedy_spec g hd order hinv.nodup
  refine ⟨st.colored, st.maxColor + 1, order, ?_, hinv.nodup, hall, hinv.col, hk, hsat, ?_, ?_⟩
  · simp [dsatur, hrun]
  · intro hne
    rw [hk, hinv.col]
    have hkn : ∀ a, a ∈ (Dsatur.greedy g order).map (·.1) ↔ a ∈ g.nodes := by
      intro a; rw [hkeys, List.mem_reverse]; exact hall a
    have htotal : ∀ a ∈ g.nodes, (colourOf (Dsatur.greedy g order) a).isSome :=
      fun a ha => Dsatur.lookup_isSome_of_key ((hkn a).mpr ha)
    refine ⟨?_, ?_, htotal, ?_, hbelow, ?_⟩
    · rw [hkeys]; exact hinv.nodup.perm (List.reverse_perm order).symm
    · intro p hp
      exact (hkn p.1).mp (List.mem_map.mpr ⟨p, hp, rfl⟩)
    · intro e he hst
      obtain ⟨cs, hcs⟩ := Option.isSome_iff_exists.mp (htotal _ (hg e he).1)
      obtain ⟨ct, hct⟩ := Option.isSome_iff_exists.mp (htotal _ (hg e he).2)
      rw [hcs, hct]
      intro heq
      simp only [Option.some.injEq] at heq
      exact hproper e.src e.tgt cs ct hcs hct ⟨e, he, Or.inl ⟨rfl, rfl⟩⟩ hst heq
    · intro c hc
      have hone : order ≠ [] := by
        intro ho'
        cases hn : g.nodes with
        | nil => exact hne hn
        | cons a t =>
          have := (hall a).mpr (by rw [hn]; simp)
          rw [ho'] at this
          cases this
      exact hused hone c (List.mem_range.mp hc)
  · intro hb
    rw [hk, hinv.col]
    exact Dsatur.greedy_bipartite g order hd hb hinv.nodup hsat

/-
Sanity check against the seeded change `C20-dsatur-saturation-lags` (the two lines of the neighbour
loop swapped: the neighbour is queued with the size of its set BEFORE the colour is inserted), done
by `#eval` on a copy of the model with the swapped lines, on the double broom of `seeded_demo.rs`
(nodes 0-1-2-3 a path, leaves 4,5,6 at 0 and 7,8,9 at 3; `fuelBound` = 29):
* this model, `firstMax` / `lastMax`: pop orders `[0,1,2,3,4,…,9]` / `[3,2,1,0,6,5,4,9,8,7]`, (H2) holds
  after each of the 28 iterations, the order is `SatRespecting`, 2 colours;
* swapped model, `firstMax` / `lastMax`: pop orders `[0,3,1,2,4,…,9]` / `[3,0,1,2,6,5,4,9,8,7]`: (H2) fails
  from the first iteration on (the pushed entry understates the saturation of the neighbour), the
  order is NOT `SatRespecting` (the other hub is popped while the hub's neighbour has saturation 1),
  3 colours — although the colouring is still `Dsatur.greedy` along the pop order.
So clause (H2) of `inv_colour` (it uses that `pushed` carries the length of the set AFTER
`setInsert`) really depends on the order of those two lines.
-/

end PetgraphModel.C20.DsaturHeap
