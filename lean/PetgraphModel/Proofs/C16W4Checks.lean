import PetgraphModel.Proofs.C16W2Driver
/-
C16, fourth wave — the run-time checks of `Driver/C16.lean` (`wfB`, `viewOkB`, `rowsOkB`, `indexOkB`,
`rootOkB`, and their conjunctions `graphScopeB`, `sfScopeB`, `apScopeB`) imply the hypotheses of the
full-correctness theorems of the mirror models (`WellFormed`, `ViewOk`, the length bound, `root ∈ nodes`,
`IndexOk`): every case the driver judges is inside the scope of those theorems.
-/
namespace PetgraphModel.C16P.W4
open PetgraphModel MGraph C16O C16P

/-! ### `sameSet` (equality of the insertion-sorted lists) gives a permutation -/

theorem span_loop_append (p : Nat → Bool) : ∀ (l acc : List Nat),
    (List.span.loop p l acc).1 ++ (List.span.loop p l acc).2 = acc.reverse ++ l := by
  intro l
  induction l with
  | nil => intro acc; simp [List.span.loop]
  | cons a t ih =>
    intro acc
    unfold List.span.loop
    split
    · rw [ih]; simp
    · simp

theorem span_append (p : Nat → Bool) (l : List Nat) : (l.span p).1 ++ (l.span p).2 = l := by
  have := span_loop_append p l []
  simpa [List.span] using this

theorem sortNats_foldl_perm : ∀ (l acc : List Nat),
    (l.foldl (fun acc x => let (a, b) := acc.span (· ≤ x); a ++ x :: b) acc).Perm (acc ++ l) := by
  intro l
  induction l with
  | nil => intro acc; simp
  | cons x t ih =>
    intro acc
    simp only [List.foldl_cons]
    refine (ih _).trans ?_
    have h1 : ((acc.span (· ≤ x)).1 ++ x :: (acc.span (· ≤ x)).2).Perm (acc ++ [x]) := by
      refine List.perm_middle.trans ?_
      rw [span_append]
      exact (List.perm_append_singleton x acc).symm
    have : (acc ++ x :: t) = (acc ++ [x]) ++ t := by simp
    rw [this]
    exact List.Perm.append_right t h1

theorem sortNats_perm (l : List Nat) : (sortNats l).Perm l := by
  have := sortNats_foldl_perm l []
  simpa [sortNats] using this

theorem sameSet_perm {a b : List Nat} (h : sameSet a b = true) : a.Perm b := by
  have : sortNats a = sortNats b := by simpa [sameSet] using h
  exact (sortNats_perm a).symm.trans (this ▸ sortNats_perm b)

theorem sameSet_refl (a : List Nat) : sameSet a a = true := by simp [sameSet]

/-! ### the single checks -/

theorem wfB_sound (g : MGraph) (h : C16.wfB g = true) : g.WellFormed := by
  unfold C16.wfB at h
  simp only [Bool.and_eq_true, nodupB_iff, List.all_eq_true, List.contains_iff_mem] at h
  exact ⟨h.1, fun e he => h.2 e he⟩

theorem wfB_complete (g : MGraph) (h : g.WellFormed) : C16.wfB g = true := by
  unfold C16.wfB
  simp only [Bool.and_eq_true, nodupB_iff, List.all_eq_true, List.contains_iff_mem]
  exact ⟨h.1, fun e he => h.2 e he⟩

theorem rootOkB_sound (v : View) (r : Nat) (h : C16.rootOkB v r = true) : r ∈ v.g.nodes := by
  simpa [C16.rootOkB] using h

theorem adj_left_mem_nodes {g : MGraph} (hwf : g.WellFormed) {a b : Nat} (h : g.Adj a b) : a ∈ g.nodes := by
  obtain ⟨e, he, h | h⟩ := h
  · exact h.1 ▸ (hwf.2 e he).1
  · exact h.2.2 ▸ (hwf.2 e he).2

theorem lookup_mem {β : Type} : ∀ (m : List (Nat × β)) (k : Nat) (r : β), m.lookup k = some r → (k, r) ∈ m := by
  intro m
  induction m with
  | nil => intro k r h; simp [List.lookup] at h
  | cons x xs ih =>
    intro k r h
    obtain ⟨k', r'⟩ := x
    by_cases hk : k = k'
    · subst hk
      simp [List.lookup] at h
      subst h
      exact List.mem_cons_self ..
    · have hb : (k == k') = false := by simpa using hk
      simp only [List.lookup, hb] at h
      exact List.mem_cons_of_mem _ (ih k r h)

/-- an accepted view enumerates nothing for an id that is not a node -/
theorem succ_nil_of_rowsOkB (v : View) (h : C16.rowsOkB v = true) (a : Nat) (ha : a ∉ v.g.nodes) :
    v.succ a = [] := by
  unfold View.succ View.outOf
  cases hl : v.out.lookup a with
  | none => simp
  | some row =>
    have hm := lookup_mem v.out a row hl
    unfold C16.rowsOkB at h
    have := (List.all_eq_true.mp h) (a, row) hm
    simp only [Bool.or_eq_true, List.contains_iff_mem, List.isEmpty_iff] at this
    rcases this with h1 | h1
    · exact (ha h1).elim
    · simp [h1]

/-- on the nodes an accepted view enumerates a permutation of the abstract graph's successor list -/
theorem viewOkB_perm (v : View) (h : C16.viewOkB v = true) (a : Nat) (ha : a ∈ v.g.nodes) :
    (v.succ a).Perm (v.g.succ a) := by
  unfold C16.viewOkB at h
  have := (List.all_eq_true.mp h) a ha
  simp only [Bool.and_eq_true] at this
  exact sameSet_perm this.1

/-- **`ViewOk` from the three checks of the `graph` line** -/
theorem viewOk_of_checks (v : View) (h1 : C16.wfB v.g = true) (h2 : C16.viewOkB v = true)
    (h3 : C16.rowsOkB v = true) : ViewOk v := by
  intro a b
  by_cases ha : a ∈ v.g.nodes
  · exact ((viewOkB_perm v h2 a ha).mem_iff).trans MGraph.mem_succ
  · rw [succ_nil_of_rowsOkB v h3 a ha]
    constructor
    · intro hb; cases hb
    · intro hadj; exact absurd (adj_left_mem_nodes (wfB_sound v.g h1) hadj) ha

theorem indexOkB_sound (v : View) (h : C16.indexOkB v = true) : IndexOk v := by
  unfold C16.indexOkB at h
  simp only [Bool.and_eq_true, beq_iff_eq, List.all_eq_true, decide_eq_true_eq, List.contains_iff_mem,
    Bool.or_eq_true, bne_iff_ne, ne_eq] at h
  obtain ⟨⟨⟨hk, hb⟩, hs⟩, hinj⟩ := h
  refine ⟨hk, hb, hs, ?_⟩
  intro a b ha hb' he
  rcases hinj a ha b hb' with h | h
  · exact (h he).elim
  · exact h

theorem indexOkB_complete (v : View) (h : IndexOk v) : C16.indexOkB v = true := by
  unfold C16.indexOkB
  simp only [Bool.and_eq_true, beq_iff_eq, List.all_eq_true, decide_eq_true_eq, List.contains_iff_mem,
    Bool.or_eq_true, bne_iff_ne, ne_eq]
  refine ⟨⟨⟨h.keys, h.bound⟩, h.succNodes⟩, ?_⟩
  intro a ha b hb
  by_cases he : v.toIndex a = v.toIndex b
  · exact Or.inr (h.inj a b ha hb he)
  · exact Or.inl he

/-! ### the conjunctions the driver evaluates -/

structure GraphScope (v : View) : Prop where
  wf : v.g.WellFormed
  view : ViewOk v
  bounded : ∀ a, a ∈ v.g.nodes → (v.succ a).length ≤ (v.g.succ a).length
  perm : ∀ a, a ∈ v.g.nodes → (v.succ a).Perm (v.g.succ a)

theorem graphScopeB_sound (v : View) (h : C16.graphScopeB v = true) : GraphScope v := by
  unfold C16.graphScopeB at h
  simp only [Bool.and_eq_true] at h
  obtain ⟨⟨h1, h2⟩, h3⟩ := h
  exact ⟨wfB_sound v.g h1, viewOk_of_checks v h1 h2 h3,
    fun a ha => Nat.le_of_eq (viewOkB_perm v h2 a ha).length_eq, viewOkB_perm v h2⟩

theorem sfScopeB_sound (v : View) (r : Nat) (h : C16.sfScopeB v r = true) :
    GraphScope v ∧ r ∈ v.g.nodes := by
  unfold C16.sfScopeB at h
  simp only [Bool.and_eq_true] at h
  exact ⟨graphScopeB_sound v h.1, rootOkB_sound v r h.2⟩

theorem apScopeB_sound (v : View) (h : C16.apScopeB v = true) :
    GraphScope v ∧ v.g.directed = false ∧ IndexOk v := by
  unfold C16.apScopeB at h
  simp only [Bool.and_eq_true, Bool.not_eq_true'] at h
  exact ⟨graphScopeB_sound v h.1.1, h.1.2, indexOkB_sound v h.2⟩

end PetgraphModel.C16P.W4
