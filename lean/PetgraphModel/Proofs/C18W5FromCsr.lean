import PetgraphModel.Proofs.C18W5Built
import PetgraphModel.Theorems.C05
import PetgraphModel.Proofs.C06W2Csr
/-
C18 (wave 5) — `Csr::<(), (), Undirected, Ix>::from_graph6_string` builds exactly the decoded graph.

The calls after the decoder (`new()`, `add_node(())` × order, `add_edge(a, b, ())` per edge: `csrOps`) are a history from
`with_nodes(0)`, so `C05_csr_all_histories` / `csr_run_facts` apply: the result satisfies the invariant, represents the
abstract graph the spec machine builds from the same calls, and every answer is the spec machine's.  The spec machine is
computed on `csrOps n es` (`CsrFG.specRun_csrOps`): nodes `replicate n 0`, edge map `es` (weight `()` = 0), no panic when
the index type has room — and a panic of `add_node` when it has not (`CsrFG.specRun_addNodes_panics`).  `edge_references()`
lists all stored entries row by row (`vall`); normalised with `min/max` every decoded edge occurs exactly twice
(`CsrFG.refs_perm`: the references with `source ≤ target` are the decoded edges once, those with `source > target` once more).
-/
namespace PetgraphModel.G6V
open PetgraphModel PetgraphModel.Visit
open PetgraphModel.CsrM PetgraphModel.CsrProofs PetgraphModel.AppendSpec

namespace CsrFG

theorem specRun_append (m : Nat) (g : SG) (ops1 ops2 : List CsrM.Op) :
    specRun m g (ops1 ++ ops2) =
      ((specRun m (specRun m g ops1).1 ops2).1, (specRun m g ops1).2 ++ (specRun m (specRun m g ops1).1 ops2).2) := by
  induction ops1 generalizing g with
  | nil => rfl
  | cons op t ih =>
    simp only [List.cons_append, specRun]
    rw [ih]

/-- the `add_node` phase of the spec machine within the capacity -/
theorem specRun_addNodes (m : Nat) (j : Nat) (g : SG) (hfit : m = 0 ∨ g.n + j ≤ m) :
    (specRun m g (List.replicate j (.addNode 0))).1 = { g with nodes := g.nodes ++ List.replicate j 0 } ∧
    (specRun m g (List.replicate j (.addNode 0))).2.any csrPanicked = false := by
  induction j generalizing g with
  | zero => simp [specRun]
  | succ j ih =>
    have hs := SG.addNodeCap_fit m g 0 (by omega)
    have := ih (g.addNode 0).1 (by simp only [SG.addNode, SG.n, List.length_append, List.length_singleton] at *; omega)
    simp only [List.replicate_succ, specRun, specStep, hs, List.any_cons, this.2, csrPanicked, Bool.or_false]
    refine ⟨?_, trivial⟩
    rw [this.1]
    simp [SG.addNode]

/-- … and beyond it: some call panics -/
theorem specRun_addNodes_panics (m : Nat) (j : Nat) (g : SG) (hm : m ≠ 0) (hg : g.n ≤ m) (hj : m < g.n + j) :
    (specRun m g (List.replicate j (.addNode 0))).2.any csrPanicked = true := by
  induction j generalizing g with
  | zero => omega
  | succ j ih =>
    by_cases hlt : g.n < m
    · have hs := SG.addNodeCap_fit m g 0 (Or.inr hlt)
      have := ih (g.addNode 0).1 (by simp only [SG.addNode, SG.n, List.length_append, List.length_singleton] at *; omega)
        (by simp only [SG.addNode, SG.n, List.length_append, List.length_singleton] at *; omega)
      simp only [List.replicate_succ, specRun, specStep, hs, List.any_cons, this, Bool.or_true]
    · have hs := SG.addNodeCap_full m g 0 (by omega)
      simp only [List.replicate_succ, specRun, specStep, hs, List.any_cons, csrPanicked, Bool.true_or]


theorem lookupKey_unit (k : Nat × Nat) (l : List (Nat × Nat)) :
    lookupKey k (l.map fun e => (e, (0 : Int))) = if k ∈ l then some 0 else none := by
  induction l with
  | nil => simp [lookupKey]
  | cons x l ih =>
    simp only [List.map_cons, lookupKey, ih, List.mem_cons]
    by_cases hx : x = k
    · simp [hx]
    · have : ¬ k = x := fun e => hx e.symm
      simp [hx, this]

theorem key_lt {a b : Nat} (h : a < b) : key false a b = (a, b) := by
  simp [key, Nat.le_of_lt h]

/-- the `add_edge` phase of the spec machine -/
theorem specRun_addEdges (m n : Nat) (es pre : List (Nat × Nat)) (g : SG) (hdir : g.directed = false)
    (hn : g.n = n) (hg : g.edges = pre.map fun e => (e, (0 : Int)))
    (hes : ∀ e ∈ es, e.1 < e.2 ∧ e.2 < n) (hnd : (pre ++ es).Nodup) :
    (specRun m g (es.map fun e => CsrM.Op.addEdge e.1 e.2 0)).1 =
      { g with edges := (pre ++ es).map fun e => (e, (0 : Int)) } ∧
    (specRun m g (es.map fun e => CsrM.Op.addEdge e.1 e.2 0)).2.any csrPanicked = false := by
  induction es generalizing g pre with
  | nil =>
    simp only [List.map_nil, specRun, List.append_nil, List.any_nil, and_true]
    rw [← hg]
  | cons e es ih =>
    obtain ⟨h1, h2⟩ := hes e (List.mem_cons_self ..)
    have hnot : e ∉ pre := by
      intro hm
      have := List.nodup_append.1 hnd
      exact this.2.2 e hm e (List.mem_cons_self ..) rfl
    have hlook : g.lookup e.1 e.2 = none := by
      unfold SG.lookup
      rw [hdir, key_lt h1, hg, lookupKey_unit, if_neg hnot]
    have hs := SG.addEdge_absent g e.1 e.2 0 (by rw [hn]; omega) hlook
    have hk : key g.directed e.1 e.2 = (e.1, e.2) := by rw [hdir, key_lt h1]
    rw [hk] at hs
    have := ih (pre ++ [e]) { g with edges := g.edges ++ [((e.1, e.2), 0)] } hdir hn
      (by simp [hg]) (fun x hx => hes x (List.mem_cons_of_mem _ hx)) (by simpa using hnd)
    simp only [List.map_cons, specRun, specStep, hs, List.any_cons, this.2, csrPanicked, Bool.or_false]
    refine ⟨?_, trivial⟩
    rw [this.1]
    simp


/-- the abstract simple graph `from_graph6_string` must build -/
def target (n : Nat) (es : List (Nat × Nat)) : SG :=
  { directed := false, nodes := List.replicate n 0, edges := es.map fun e => (e, (0 : Int)) }

/-- the spec machine on the calls of `from_graph6_string` -/
theorem specRun_csrOps (m n : Nat) (es : List (Nat × Nat)) (hes : ∀ e ∈ es, e.1 < e.2 ∧ e.2 < n) (hnd : es.Nodup)
    (hfit : m = 0 ∨ n ≤ m) :
    (specRun m { directed := false, nodes := List.replicate 0 0, edges := [] } (csrOps n es)).1 = target n es ∧
    (specRun m { directed := false, nodes := List.replicate 0 0, edges := [] } (csrOps n es)).2.any csrPanicked = false := by
  obtain ⟨a1, a2⟩ := specRun_addNodes m n { directed := false, nodes := List.replicate 0 0, edges := [] }
    (by simpa [SG.n] using hfit)
  have b := specRun_addEdges m n es [] (specRun m { directed := false, nodes := List.replicate 0 0, edges := [] }
    (List.replicate n (.addNode 0))).1 (by rw [a1]) (by rw [a1]; simp [SG.n]) (by rw [a1]; rfl) hes (by simpa using hnd)
  unfold csrOps
  rw [specRun_append]
  refine ⟨?_, ?_⟩
  · show (specRun m _ _).1 = _
    rw [b.1, a1]; simp [target]
  · show ((specRun m _ _).2 ++ (specRun m _ _).2).any csrPanicked = false
    rw [List.any_append, a2, b.2]; rfl

theorem key_false (x y : Nat) : key false x y = (min x y, max x y) := by
  unfold key
  by_cases h : x ≤ y
  · rw [Nat.min_eq_left h, Nat.max_eq_right h]; simp [h]
  · have h' : y ≤ x := by omega
    rw [Nat.min_eq_right h', Nat.max_eq_left h']; simp [h]

/-- the normalised endpoint pair of a reference -/
def norm (e : Visit.ERef) : Nat × Nat := (min e.src e.tgt, max e.src e.tgt)

section built
open PetgraphModel.Visit.CsrW2
variable {s : State} {R : List Row} {n : Nat} {es : List (Nat × Nat)}

theorem look_target (abs : Abs s R (target n es)) (x y : Nat) :
    look R x y = if (min x y, max x y) ∈ es then some 0 else none := by
  rw [abs.look, SG.lookup]
  show lookupKey (key false x y) (es.map fun e => (e, (0 : Int))) = _
  rw [key_false, lookupKey_unit]

theorem norm_mem (good : Good s R) (hf : IxFits s) (abs : Abs s R (target n es)) (e : Visit.ERef)
    (he : e ∈ vall s.modulus 0 0 R) : norm e ∈ es := by
  have h := (vall_has good hf e.src e.tgt e.w).1 ⟨e.id, he⟩
  rw [look_target abs] at h
  by_contra hc
  have hc' : ¬ (min e.src e.tgt, max e.src e.tgt) ∈ es := hc
  rw [if_neg hc'] at h; cases h

theorem exists_ref (good : Good s R) (hf : IxFits s) (abs : Abs s R (target n es)) (x y : Nat)
    (h : (min x y, max x y) ∈ es) : ∃ e ∈ vall s.modulus 0 0 R, e.src = x ∧ e.tgt = y := by
  have hl : look R x y = some 0 := by rw [look_target abs, if_pos h]
  obtain ⟨i, hi⟩ := (vall_has good hf x y 0).2 hl
  exact ⟨_, hi, rfl, rfl⟩

theorem half_perm (good : Good s R) (hf : IxFits s) (abs : Abs s R (target n es)) (hnd : es.Nodup)
    (P : Visit.ERef → Bool)
    (hP : ∀ e1 e2 : Visit.ERef, P e1 = true → P e2 = true → norm e1 = norm e2 → e1.src = e2.src ∧ e1.tgt = e2.tgt)
    (hex : ∀ p ∈ es, ∃ e ∈ vall s.modulus 0 0 R, P e = true ∧ norm e = p) :
    (((vall s.modulus 0 0 R).filter P).map norm).Perm es := by
  apply perm_of_nodup_mem _ hnd
  · intro p
    constructor
    · intro h
      obtain ⟨e, he, rfl⟩ := List.mem_map.1 h
      exact norm_mem good hf abs e (List.mem_filter.1 he).1
    · intro h
      obtain ⟨e, he, hpe, rfl⟩ := hex p h
      exact List.mem_map.2 ⟨e, List.mem_filter.2 ⟨he, hpe⟩, rfl⟩
  · apply nodup_map_of_inj_on
    · exact nodup_of_nodup_map (·.id) _ (nodup_filter_ids (vall_ids_nodup _) _)
    · intro e1 h1 e2 h2 h
      obtain ⟨m1, p1⟩ := List.mem_filter.1 h1
      obtain ⟨m2, p2⟩ := List.mem_filter.1 h2
      obtain ⟨hs, ht⟩ := hP e1 e2 p1 p2 h
      exact vall_unique good hf e1 e2 m1 m2 hs ht

theorem double_perm {α : Type} (l : List α) : (l ++ l).Perm (l.flatMap fun e => List.replicate 2 e) := by
  induction l with
  | nil => exact List.Perm.nil
  | cons x l ih =>
    simp only [List.flatMap_cons, List.replicate, List.cons_append, List.nil_append]
    exact List.Perm.cons _ (List.perm_middle.trans (List.Perm.cons _ ih))

/-- every decoded edge is referenced exactly twice (once per direction) -/
theorem refs_perm (good : Good s R) (hf : IxFits s) (abs : Abs s R (target n es)) (hnd : es.Nodup)
    (hes : ∀ e ∈ es, e.1 < e.2) :
    ((vall s.modulus 0 0 R).map norm).Perm (es.flatMap fun e => List.replicate 2 e) := by
  have h1 := half_perm good hf abs hnd (fun e => decide (e.src ≤ e.tgt))
    (by
      intro e1 e2 p1 p2 h
      have p1 := of_decide_eq_true p1
      have p2 := of_decide_eq_true p2
      unfold norm at h
      have := Prod.mk.inj h
      omega)
    (by
      intro p hp
      have hlt := hes p hp
      obtain ⟨e, he, h1, h2⟩ := exists_ref good hf abs p.1 p.2
        (by rw [Nat.min_eq_left (Nat.le_of_lt hlt), Nat.max_eq_right (Nat.le_of_lt hlt)]; exact hp)
      refine ⟨e, he, decide_eq_true (by omega), ?_⟩
      unfold norm
      rw [h1, h2, Nat.min_eq_left (Nat.le_of_lt hlt), Nat.max_eq_right (Nat.le_of_lt hlt)])
  have h2 := half_perm good hf abs hnd (fun e => !decide (e.src ≤ e.tgt))
    (by
      intro e1 e2 p1 p2 h
      have p1 : ¬ e1.src ≤ e1.tgt := by simpa using p1
      have p2 : ¬ e2.src ≤ e2.tgt := by simpa using p2
      unfold norm at h
      have := Prod.mk.inj h
      omega)
    (by
      intro p hp
      have hlt := hes p hp
      obtain ⟨e, he, h1, h2⟩ := exists_ref good hf abs p.2 p.1
        (by rw [Nat.min_eq_right (Nat.le_of_lt hlt), Nat.max_eq_left (Nat.le_of_lt hlt)]; exact hp)
      refine ⟨e, he, by simp only [Bool.not_eq_true', decide_eq_false_iff_not]; omega, ?_⟩
      unfold norm
      rw [h1, h2, Nat.min_eq_right (Nat.le_of_lt hlt), Nat.max_eq_left (Nat.le_of_lt hlt)])
  have h3 := (List.filter_append_perm (fun e : Visit.ERef => decide (e.src ≤ e.tgt)) (vall s.modulus 0 0 R)).map norm
  rw [List.map_append] at h3
  exact h3.symm.trans ((List.Perm.append h1 h2).trans (double_perm es))

end built

end CsrFG

open PetgraphModel.Visit.CsrW2 in
/-- `Csr::<(), (), Undirected, Ix>::from_graph6_string`: if the decoder answers `(n, es)` and the index type has room
(`modulus = Ix::max() + 1`, `0` for `usize`), the call does not panic and builds the nodes `0..n` and exactly the decoded
edges; `edge_references()` lists each of them once per direction (`mult = 2`: open finding D7 of C06), `edge_count()` counts
each once. -/
theorem fromGraph6Csr_built (modulus cutoff : Nat) (debug : Bool) (str : List Char) (n : Nat) (es : List (Nat × Nat))
    (hd : G6.decode str = some (n, es)) (hes : ∀ e ∈ es, e.1 < e.2 ∧ e.2 < n) (hnd : es.Nodup)
    (hfit : modulus = 0 ∨ n ≤ modulus) :
    ∃ s, fromGraph6Csr modulus cutoff debug str = some s ∧ C05T.Inv s ∧ CsrW2.IxFits s ∧ s.directed = false ∧
      s.nodeCount = n ∧ Built 2 (csrTable s) n es := by
  have hinit := C05T.C05_csr_inv_init false modulus cutoff debug 0
  have hnew : CsrM.new false modulus cutoff debug = withNodes false modulus cutoff debug 0 := rfl
  obtain ⟨R, good, abs, sp, hf⟩ := csr_run_facts (good_withNodes false modulus cutoff debug 0) hinit.2.2
    (csrOps n es) (Or.inr (Nat.zero_le _))
  obtain ⟨_, _, _, hout, _⟩ := run_refines (good_withNodes false modulus cutoff debug 0) hinit.2.2 (csrOps n es)
  obtain ⟨g1, g2⟩ := CsrFG.specRun_csrOps modulus n es hes hnd hfit
  change Abs _ R (specRun modulus _ _).1 at abs
  change _ = (specRun modulus _ _).2 at hout
  rw [g1] at abs
  have hnp : (run (withNodes false modulus cutoff debug 0) (csrOps n es)).2.any csrPanicked = false := by
    rw [hout]; exact g2
  refine ⟨(run (withNodes false modulus cutoff debug 0) (csrOps n es)).1, ?_, ⟨R, good⟩, hf, sp.1, ?_, ?_⟩
  · unfold fromGraph6Csr
    rw [hd]
    simp only [hnew, hnp]
    rfl
  · rw [good.rep.nodeCount, ← Abs.n good abs]; simp [CsrFG.target, SG.n]
  · have hnc : (run (withNodes false modulus cutoff debug 0) (csrOps n es)).1.nodeCount = n := by
      rw [good.rep.nodeCount, ← Abs.n good abs]; simp [CsrFG.target, SG.n]
    refine ⟨sp.1, ?_, ?_, ?_, ?_⟩
    · show some (nodeIdentifiers _) = _
      rw [nodeIdentifiers_eq hf, hnc]
    · show some (State.nodeCount _) = _
      rw [hnc]
    · show some (State.edgeCountQ _) = _
      rw [abs.count]; simp [CsrFG.target, SG.edgeCount]
    · refine ⟨_, rfl, ?_⟩
      rw [csr_erefs_eq good]
      exact CsrFG.refs_perm good hf abs hnd (fun e he => (hes e he).1)


/-- … and panics (`add_node`: the assertion `i <= Ix::max()`) when the index type is too small -/
theorem fromGraph6Csr_panics (modulus cutoff : Nat) (debug : Bool) (str : List Char) (n : Nat) (es : List (Nat × Nat))
    (hd : G6.decode str = some (n, es)) (hfit : ¬ (modulus = 0 ∨ n ≤ modulus)) :
    fromGraph6Csr modulus cutoff debug str = none := by
  have hinit := C05T.C05_csr_inv_init false modulus cutoff debug 0
  have hnew : CsrM.new false modulus cutoff debug = withNodes false modulus cutoff debug 0 := rfl
  obtain ⟨_, _, _, hout, _⟩ := run_refines (good_withNodes false modulus cutoff debug 0) hinit.2.2 (csrOps n es)
  change _ = (specRun modulus _ _).2 at hout
  have hp : (run (withNodes false modulus cutoff debug 0) (csrOps n es)).2.any csrPanicked = true := by
    rw [hout]
    unfold csrOps
    rw [CsrFG.specRun_append]
    show ((specRun modulus _ _).2 ++ (specRun modulus _ _).2).any csrPanicked = true
    rw [List.any_append, CsrFG.specRun_addNodes_panics modulus n _ (by omega) (Nat.zero_le _)
      (by simp only [SG.n, List.replicate, List.length_nil]; omega)]
    rfl
  unfold fromGraph6Csr
  rw [hd]
  simp only [hnew, hp]
  rfl

theorem fromGraph6Csr_decode_none (modulus cutoff : Nat) (debug : Bool) (str : List Char) (hd : G6.decode str = none) :
    fromGraph6Csr modulus cutoff debug str = none := by
  unfold fromGraph6Csr
  rw [hd]

end PetgraphModel.G6V
