import PetgraphModel.Proofs.C01W2Main
import PetgraphModel.Proofs.StableGraphCompact
/-
C01, wave 4 — the conversions `StableGraph::from(Graph)` / `Graph::from(StableGraph)` link the C01
mirror model (`G`, `Model/Graph.lean`) with the C02 mirror model (`SG`, `Model/StableGraph.lean`).

C01 models the round trip `Graph::from(StableGraph::from(g))` as `G.rebuild` (= `filter_map` keeping
everything).  C02 models `Graph::from(stable_graph)` as `SG.toGraph` on its own state type, in which
a plain `Graph` is a state without vacancies.  `toStable` is `StableGraph::from(graph)` between the
two state types (every weight wrapped in `Some`, links kept, counts = lengths, both free lists empty).

* `rebuild_toGraph` — the two models agree on the round trip: `SG.toGraph (toStable s)` is
  `toStable` of `G.rebuild s`, for every state satisfying C01's invariant;
* `inv_toStable` — `StableGraph::from(graph)` establishes C02's invariant;
* `abs_toStable` — C02's reference multigraph of `toStable s` is C01's plain multigraph, every slot live;
* `toGraph_image` — `Graph::from(stable_graph)` always lands in the image of `toStable`: the
  result is a C01 state built by `add_node` / `add_edge` alone (hence satisfying `Inv1`).
-/
namespace PetgraphModel.C01Conv
open PetgraphModel

/-- a non-negative `i64` weight of the C02 harness as the `Nat` weight of the C01 model -/
def toStableNode (n : G.Node) : SG.Node := { w := some (n.weight : Int), n0 := n.next0, n1 := n.next1 }
def toStableEdge (e : G.Edge) : SG.Edge :=
  { w := some (e.weight : Int), n0 := e.next0, n1 := e.next1, a := e.src, b := e.tgt }

/-- `StableGraph::from(graph)` between the two mirror models (`noLimit`: the index type is `usize`;
`debug`: `debug_assert!`s are compiled in — C02's model carries both as parameters) -/
def toStable (noLimit debug : Bool) (s : G.State) : SG.State :=
  { directed := s.directed, fin := s.endv, noLimit := noLimit, debug := debug,
    nodes := s.nodes.map toStableNode, edges := s.edges.map toStableEdge,
    nodeCount := s.nodes.length, edgeCount := s.edges.length, freeNode := s.endv, freeEdge := s.endv }

theorem toStable_empty (nl dbg : Bool) (endv : Nat) (d : Bool) :
    toStable nl dbg (G.empty endv d) = SG.empty d endv nl dbg := rfl

/-! ### the two `add_node` / `add_edge` agree -/

theorem mkIx_small (nl dbg : Bool) (g : G.State) {n : Nat} (h : n ≤ g.endv) : SG.mkIx (toStable nl dbg g) n = n := by
  unfold SG.mkIx toStable
  dsimp only
  split
  · rfl
  · exact Nat.mod_eq_of_lt (by omega)

theorem canPush_room (nl dbg : Bool) (g : G.State) {n : Nat} (h : n < g.endv) : SG.canPush (toStable nl dbg g) n = true := by
  unfold SG.canPush
  rw [mkIx_small nl dbg g (Nat.le_of_lt h)]
  cases nl
  · show (decide (g.endv ≠ n)) = true
    exact decide_eq_true (by omega)
  · show (decide (n < g.endv)) = true
    exact decide_eq_true h

theorem tryAddNode_agree (nl dbg : Bool) (g : G.State) (w : Nat) (h : g.nodes.length < g.endv) :
    SG.tryAddNode (toStable nl dbg g) (w : Int) = .ok (toStable nl dbg (G.tryAddNode g w).1, .ok g.nodes.length) ∧
    G.tryAddNode g w = ({ g with nodes := g.nodes ++ [⟨w, g.endv, g.endv⟩] }, some g.nodes.length) := by
  have hg : G.tryAddNode g w = ({ g with nodes := g.nodes ++ [⟨w, g.endv, g.endv⟩] }, some g.nodes.length) :=
    GProofs.tryAddNode_room w (by omega)
  refine ⟨?_, hg⟩
  rw [hg]
  unfold SG.tryAddNode
  have hf : ¬ (toStable nl dbg g).freeNode ≠ (toStable nl dbg g).fin := by simp [toStable]
  rw [if_neg hf]
  unfold SG.pushNode
  have hlen : (toStable nl dbg g).nodes.length = g.nodes.length := by simp [toStable]
  rw [hlen, canPush_room nl dbg g h, mkIx_small nl dbg g (Nat.le_of_lt h)]
  simp [toStable, toStableNode]

theorem getElem?_map_toStableNode (ns : List G.Node) (i : Nat) :
    (ns.map toStableNode)[i]? = (ns[i]?).map toStableNode := by simp

theorem linkNodes_agree (ns : List G.Node) (a b idx : Nat) (ha : a < ns.length) (hb : b < ns.length) :
    SG.linkNodes (ns.map toStableNode) a b idx =
      (if a = b then
        .ok ((ns.set a { ns[a] with next0 := idx, next1 := idx }).map toStableNode, ns[a].next0, ns[a].next1)
       else
        .ok (((ns.set a { ns[a] with next0 := idx }).set b { ns[b] with next1 := idx }).map toStableNode,
          ns[a].next0, ns[b].next1)) := by
  unfold SG.linkNodes
  have hmax : ¬ max a b ≥ (ns.map toStableNode).length := by simp; omega
  rw [if_neg hmax]
  have hga : (ns.map toStableNode)[a]? = some (toStableNode ns[a]) := by simp [List.getElem?_eq_getElem ha]
  have hgb : (ns.map toStableNode)[b]? = some (toStableNode ns[b]) := by simp [List.getElem?_eq_getElem hb]
  by_cases hab : a = b
  · subst hab
    simp only [if_true, hga]
    simp [toStableNode, List.map_set]
  · simp only [hab, if_false, hga, hgb]
    simp [toStableNode, List.map_set]

theorem tryAddEdge_agree (nl dbg : Bool) (g : G.State) (a b w : Nat) (h : g.edges.length < g.endv)
    (ha : a < g.nodes.length) (hb : b < g.nodes.length) :
    ∃ g', G.tryAddEdge g a b w = (g', .ok g.edges.length) ∧
      SG.tryAddEdge (toStable nl dbg g) a b (w : Int) = .ok (toStable nl dbg g', .ok g.edges.length) ∧
      g'.endv = g.endv ∧ g'.directed = g.directed ∧ g'.nodes.length = g.nodes.length ∧
      g'.nodes.map (·.weight) = g.nodes.map (·.weight) ∧
      ∃ x0 x1, g'.edges = g.edges ++ [⟨w, x0, x1, a, b⟩] := by
  have hga := List.getElem?_eq_getElem ha
  have hgb := List.getElem?_eq_getElem hb
  have hcg : G.canGrow g g.edges.length = true := by simp [G.canGrow]; omega
  have hmax : ¬ max a b ≥ g.nodes.length := by omega
  have hf : ¬ (toStable nl dbg g).freeEdge ≠ (toStable nl dbg g).fin := by simp [toStable]
  have hlen : (toStable nl dbg g).edges.length = g.edges.length := by simp [toStable]
  have hnodes : (toStable nl dbg g).nodes = g.nodes.map toStableNode := rfl
  by_cases hab : a = b
  · subst hab
    refine ⟨{ g with nodes := g.nodes.set a { g.nodes[a] with next0 := g.edges.length, next1 := g.edges.length },
                     edges := g.edges ++ [⟨w, g.nodes[a].next0, g.nodes[a].next1, a, a⟩] }, ?_, ?_, rfl, rfl, ?_, ?_, _, _, rfl⟩
    · unfold G.tryAddEdge
      simp only [hcg, Bool.not_true, Bool.false_eq_true, if_false, hmax, if_true, hga]
    · unfold SG.tryAddEdge
      rw [if_neg hf]
      simp only [hlen, canPush_room nl dbg g h, mkIx_small nl dbg g (Nat.le_of_lt h), Bool.not_true,
        Bool.false_eq_true, if_false, hnodes, linkNodes_agree g.nodes a a g.edges.length ha ha, if_true]
      simp [toStable, toStableEdge]
    · simp
    · simp [List.map_set]
      apply List.ext_getElem?
      intro i
      simp only [List.getElem?_set, List.getElem?_map, List.length_map]
      split
      · rename_i hi; subst hi; simp [ha]
      · rfl
  · refine ⟨{ g with nodes := (g.nodes.set a { g.nodes[a] with next0 := g.edges.length }).set b { g.nodes[b] with next1 := g.edges.length },
                     edges := g.edges ++ [⟨w, g.nodes[a].next0, g.nodes[b].next1, a, b⟩] }, ?_, ?_, rfl, rfl, ?_, ?_, _, _, rfl⟩
    · unfold G.tryAddEdge
      simp only [hcg, Bool.not_true, Bool.false_eq_true, if_false, hmax, hab, hga, hgb]
    · unfold SG.tryAddEdge
      rw [if_neg hf]
      simp only [hlen, canPush_room nl dbg g h, mkIx_small nl dbg g (Nat.le_of_lt h), Bool.not_true,
        Bool.false_eq_true, if_false, hnodes, linkNodes_agree g.nodes a b g.edges.length ha hb, hab]
      simp [toStable, toStableEdge]
    · simp
    · apply List.ext_getElem?
      intro i
      simp only [List.getElem?_set, List.getElem?_map, List.length_map, List.length_set]
      by_cases hbi : b = i
      · subst hbi; simp [hb]
      · simp only [hbi, if_false]
        by_cases hai : a = i
        · subst hai; simp [ha]
        · simp [hai]

/-! ### the two conversion loops agree -/

theorem maskAt_nil (i : Nat) : G.maskAt [] i = true := by simp [G.maskAt]

theorem nodes_agree (nl dbg : Bool) : ∀ (ns : List G.Node) (i : Nat) (g : G.State) (m : List Nat),
    g.nodes.length + ns.length ≤ g.endv →
    ∃ g', G.fmNodes [] 0 ns i g m = (g', m ++ List.range' g.nodes.length ns.length) ∧
      SG.toGraphNodes (ns.map toStableNode) (toStable nl dbg g) m =
        .ok (toStable nl dbg g', m ++ List.range' g.nodes.length ns.length) ∧
      g'.endv = g.endv ∧ g'.directed = g.directed ∧ g'.edges = g.edges ∧
      g'.nodes.map (·.weight) = g.nodes.map (·.weight) ++ ns.map (·.weight) := by
  intro ns
  induction ns with
  | nil => intro i g m _; exact ⟨g, by simp [G.fmNodes], by simp [SG.toGraphNodes], rfl, rfl, rfl, by simp⟩
  | cons nd rest ih =>
    intro i g m hlen
    simp only [List.length_cons] at hlen
    obtain ⟨h1, h2⟩ := tryAddNode_agree nl dbg g nd.weight (by omega)
    obtain ⟨g', e1, e2, e3, e4, e5, e6⟩ := ih (i + 1) { g with nodes := g.nodes ++ [⟨nd.weight, g.endv, g.endv⟩] }
      (m ++ [g.nodes.length]) (by simp; omega)
    have hr : List.range' g.nodes.length (rest.length + 1) = g.nodes.length :: List.range' (g.nodes.length + 1) rest.length := by
      simp [List.range'_succ]
    refine ⟨g', ?_, ?_, e3, e4, e5, ?_⟩
    · simp only [G.fmNodes, maskAt_nil, if_true, Nat.add_zero, h2, e1]
      simp [List.length_cons, hr]
    · simp only [List.map_cons, SG.toGraphNodes]
      simp only [toStableNode, h1, h2, e2]
      simp [List.length_cons, hr]
    · rw [e6]
      simp

theorem range_get (n x : Nat) (h : x < n) : (List.range n)[x]? = some x := by
  simp [h]

theorem edges_agree (nl dbg : Bool) (n : Nat) : ∀ (es : List G.Edge) (i : Nat) (g : G.State),
    g.nodes.length = n → n ≤ g.endv → g.edges.length + es.length ≤ g.endv → (∀ e ∈ es, e.src < n ∧ e.tgt < n) →
    ∃ g', G.fmEdges [] 0 (List.range n) es i g = .ok g' ∧
      SG.toGraphEdges (List.range n) (es.map toStableEdge) (toStable nl dbg g) = .ok (toStable nl dbg g') ∧
      g'.endv = g.endv ∧ g'.directed = g.directed ∧ g'.nodes.map (·.weight) = g.nodes.map (·.weight) ∧
      g'.edges.map GProofs.edgeEnds = g.edges.map GProofs.edgeEnds ++ es.map GProofs.edgeEnds := by
  intro es
  induction es with
  | nil => intro i g _ _ _ _; exact ⟨g, by simp [G.fmEdges], by simp [SG.toGraphEdges], rfl, rfl, rfl, by simp⟩
  | cons ed rest ih =>
    intro i g hn hle hlen hends
    simp only [List.length_cons] at hlen
    obtain ⟨hs, ht⟩ := hends ed (List.mem_cons_self ..)
    obtain ⟨g1, a1, a2, a3, a4, a5, a6, x0, x1, a7⟩ := tryAddEdge_agree nl dbg g ed.src ed.tgt ed.weight (by omega)
      (by omega) (by omega)
    obtain ⟨g', e1, e2, e3, e4, e5, e6⟩ := ih (i + 1) g1 (by rw [a5]; exact hn) (by rw [a3]; exact hle)
      (by rw [a3, a7]; simp; omega) (fun e he => hends e (List.mem_cons_of_mem _ he))
    have hsne : (ed.src != g.endv) = true := by simp; omega
    have htne : (ed.tgt != g.endv) = true := by simp; omega
    refine ⟨g', ?_, ?_, e3.trans a3, e4.trans a4, e5.trans a6, ?_⟩
    · simp only [G.fmEdges, range_get n _ hs, range_get n _ ht, hsne, htne, Bool.and_self, if_true, maskAt_nil,
        Nat.add_zero, a1, e1]
    · have hfin : (toStable nl dbg g).fin = g.endv := rfl
      have hd : ((toStable nl dbg g).debug && (decide (ed.src = (toStable nl dbg g).fin) || decide (ed.tgt = (toStable nl dbg g).fin))) = false := by
        rw [hfin]
        have h1 : decide (ed.src = g.endv) = false := decide_eq_false (by omega)
        have h2 : decide (ed.tgt = g.endv) = false := decide_eq_false (by omega)
        simp [h1, h2]
      simp only [List.map_cons, SG.toGraphEdges]
      simp only [toStableEdge, range_get n _ hs, range_get n _ ht, hd, Bool.false_eq_true, if_false, a2, e2]
    · rw [e6, a7]
      simp [GProofs.edgeEnds]

/-! ### the round trip -/

theorem boundOf_all_some {α : Type} : ∀ (l : List (Option α)), (∀ x ∈ l, x.isSome = true) → SG.boundOf l = l.length := by
  intro l
  induction l with
  | nil => intro _; rfl
  | cons x xs ih =>
    intro h
    have hx : x.isSome = true := h x (List.mem_cons_self ..)
    have := ih (fun y hy => h y (List.mem_cons_of_mem _ hy))
    unfold SG.boundOf
    rw [this]
    cases xs with
    | nil => simp [hx]
    | cons y ys => simp

theorem nodeBound_toStable (nl dbg : Bool) (s : G.State) : SG.nodeBound (toStable nl dbg s) = s.nodes.length := by
  unfold SG.nodeBound
  rw [boundOf_all_some]
  · simp [toStable]
  · intro x hx
    simp [toStable, toStableNode] at hx
    obtain ⟨n, _, hn⟩ := hx
    rw [← hn]; rfl

theorem edgeBound_toStable (nl dbg : Bool) (s : G.State) : SG.edgeBound (toStable nl dbg s) = s.edges.length := by
  unfold SG.edgeBound
  rw [boundOf_all_some]
  · simp [toStable]
  · intro x hx
    simp [toStable, toStableEdge] at hx
    obtain ⟨n, _, hn⟩ := hx
    rw [← hn]; rfl

/-- **the two models agree on the round trip** `Graph::from(StableGraph::from(g))`: C02's
`Graph::from` applied to `StableGraph::from` of a C01 state is (the embedding of) C01's `rebuild`;
node weights and `(source, target, weight)` per edge index are those of `g` -/
theorem rebuild_toGraph (nl dbg : Bool) (s : G.State) (h : GProofs.Inv s) :
    ∃ s', G.rebuild s = .ok s' ∧ SG.toGraph (toStable nl dbg s) = .ok (toStable nl dbg s') ∧
      s'.endv = s.endv ∧ s'.directed = s.directed ∧ s'.nodes.map (·.weight) = s.nodes.map (·.weight) ∧
      s'.edges.map GProofs.edgeEnds = s.edges.map GProofs.edgeEnds := by
  obtain ⟨g0, n1, n2, n3, n4, n5, n6⟩ := nodes_agree nl dbg s.nodes 0 (G.empty s.endv s.directed) []
    (by simpa [G.empty] using h.szN)
  have hlen0 : g0.nodes.length = s.nodes.length := by
    have := congrArg List.length n6
    simpa [G.empty] using this
  have hm : ([] : List Nat) ++ List.range' (G.empty s.endv s.directed).nodes.length s.nodes.length = List.range s.nodes.length := by
    simp [G.empty, List.range_eq_range']
  rw [hm] at n1 n2
  have hendv0 : g0.endv = s.endv := n3
  obtain ⟨s', e1, e2, e3, e4, e5, e6⟩ := edges_agree nl dbg s.nodes.length s.edges 0 g0 hlen0
    (by rw [hendv0]; exact h.szN) (by rw [n5, hendv0]; simpa [G.empty] using h.szE)
    (fun e he => by
      obtain ⟨i, hi⟩ := List.mem_iff_getElem?.mp he
      exact h.ends i e hi)
  refine ⟨s', ?_, ?_, e3.trans n3, e4.trans n4, ?_, ?_⟩
  · unfold G.rebuild G.filterMap
    rw [n1]
    exact e1
  · unfold SG.toGraph
    have hn : (toStable nl dbg s).nodes = s.nodes.map toStableNode := rfl
    have he : (toStable nl dbg s).edges = s.edges.map toStableEdge := rfl
    have hemp : SG.empty (toStable nl dbg s).directed (toStable nl dbg s).fin (toStable nl dbg s).noLimit (toStable nl dbg s).debug =
        toStable nl dbg (G.empty s.endv s.directed) := rfl
    rw [hn, he, hemp, n2]
    dsimp only
    rw [nodeBound_toStable, List.take_of_length_le (by simp)]
    exact e2
  · rw [e5, n6]; simp [G.empty]
  · rw [e6, n5]; simp [G.empty]

/-! ### `StableGraph::from(graph)` establishes C02's invariant -/

theorem chain_of_isList {edges : List G.Edge} {kb : Bool} {k endv h : Nat} {l : List Nat} (hsz : edges.length ≤ endv)
    (hk : (k = 0 ∧ kb = false) ∨ (k = 1 ∧ kb = true))
    (hl : GProofs.IsList edges kb endv h l) :
    SGProofs.Chain (SGProofs.enext (edges.map toStableEdge) k) endv h l := by
  induction hl with
  | nil => exact SGProofs.Chain.nil
  | @cons e t ed he _ ih =>
    have hlt := GProofs.lt_of_getElem? he
    refine SGProofs.Chain.cons (by omega) ?_ ih
    unfold SGProofs.enext
    rw [List.getElem?_map, he]
    rcases hk with ⟨h0, hb⟩ | ⟨h1, hb⟩ <;> subst_vars <;> simp [toStableEdge, SG.Edge.next, G.Edge.next]

theorem countP_all {α : Type} (p : α → Bool) : ∀ (l : List α), (∀ x ∈ l, p x = true) → l.countP p = l.length := by
  intro l h
  rw [List.countP_eq_length]
  exact h

/-- `StableGraph::from(graph)` of a C01 state satisfying C01's invariant satisfies C02's invariant -/
theorem inv_toStable (nl dbg : Bool) (s : G.State) (h : GProofs.Inv s) : SGProofs.Inv (toStable nl dbg s) := by
  obtain ⟨adj, hl, hn, hm⟩ := h.lists
  have hnodes : (toStable nl dbg s).nodes = s.nodes.map toStableNode := rfl
  have hedges : (toStable nl dbg s).edges = s.edges.map toStableEdge := rfl
  have hfin : (toStable nl dbg s).fin = s.endv := rfl
  have hedge : ∀ (e : Nat) (x : SG.Edge), (toStable nl dbg s).edges[e]? = some x →
      ∃ ed, s.edges[e]? = some ed ∧ x = toStableEdge ed := by
    intro e x hx
    rw [hedges, List.getElem?_map] at hx
    cases hed : s.edges[e]? with
    | none => rw [hed] at hx; cases hx
    | some ed => rw [hed] at hx; simp at hx; exact ⟨ed, rfl, hx.symm⟩
  have hnode : ∀ (i : Nat) (n : SG.Node), (toStable nl dbg s).nodes[i]? = some n →
      ∃ nd, s.nodes[i]? = some nd ∧ n = toStableNode nd := by
    intro i n hx
    rw [hnodes, List.getElem?_map] at hx
    cases hnd : s.nodes[i]? with
    | none => rw [hnd] at hx; cases hx
    | some nd => rw [hnd] at hx; simp at hx; exact ⟨nd, rfl, hx.symm⟩
  refine ⟨by simpa [toStable] using h.szN, by simpa [toStable] using h.szE, ?_, ?_, ?_, ?_, ?_, ?_, ?_, ?_⟩
  · intro e x hx hw
    obtain ⟨ed, _, rfl⟩ := hedge e x hx
    simp [toStableEdge] at hw
  · intro e x hx _ k hk
    obtain ⟨ed, hed, rfl⟩ := hedge e x hx
    obtain ⟨h1, h2⟩ := h.ends e ed hed
    have hkk : k = 0 ∨ k = 1 := by omega
    rcases hkk with rfl | rfl
    · refine ⟨toStableNode s.nodes[ed.src], ?_, Or.inl rfl⟩
      rw [hnodes, List.getElem?_map]
      simp [toStableEdge, SG.Edge.node, List.getElem?_eq_getElem h1]
    · refine ⟨toStableNode s.nodes[ed.tgt], ?_, Or.inl rfl⟩
      rw [hnodes, List.getElem?_map]
      simp [toStableEdge, SG.Edge.node, List.getElem?_eq_getElem h2]
  · intro k hk i n hn' _
    obtain ⟨nd, hnd, rfl⟩ := hnode i n hn'
    have hkk : k = 0 ∨ k = 1 := by omega
    rcases hkk with rfl | rfl
    · refine ⟨adj false i, ?_, ?_⟩
      · rw [hfin, hedges]
        have := chain_of_isList (k := 0) h.szE (Or.inl ⟨rfl, rfl⟩) (hl false i nd hnd)
        simpa [toStableNode, SG.Node.next, G.Node.next] using this
      · intro e
        rw [hm false i e]
        constructor
        · rintro ⟨ed, hed, hk'⟩
          refine ⟨by simp, toStableEdge ed, by rw [hedges, List.getElem?_map, hed]; rfl, rfl, ?_⟩
          simpa [toStableEdge, SG.Edge.node, G.Edge.node] using hk'
        · rintro ⟨_, x, hx, _, hk'⟩
          obtain ⟨ed, hed, rfl⟩ := hedge e x hx
          exact ⟨ed, hed, by simpa [toStableEdge, SG.Edge.node, G.Edge.node] using hk'⟩
    · refine ⟨adj true i, ?_, ?_⟩
      · rw [hfin, hedges]
        have := chain_of_isList (k := 1) h.szE (Or.inr ⟨rfl, rfl⟩) (hl true i nd hnd)
        simpa [toStableNode, SG.Node.next, G.Node.next] using this
      · intro e
        rw [hm true i e]
        constructor
        · rintro ⟨ed, hed, hk'⟩
          refine ⟨by simp, toStableEdge ed, by rw [hedges, List.getElem?_map, hed]; rfl, rfl, ?_⟩
          simpa [toStableEdge, SG.Edge.node, G.Edge.node] using hk'
        · rintro ⟨_, x, hx, _, hk'⟩
          obtain ⟨ed, hed, rfl⟩ := hedge e x hx
          exact ⟨ed, hed, by simpa [toStableEdge, SG.Edge.node, G.Edge.node] using hk'⟩
  · refine ⟨[], SGProofs.Chain.nil, ?_⟩
    intro e
    constructor
    · intro he; cases he
    · rintro ⟨x, hx, hw⟩
      obtain ⟨ed, _, rfl⟩ := hedge e x hx
      simp [toStableEdge] at hw
  · refine ⟨[], SGProofs.Chain.nil, ?_, trivial⟩
    intro i
    constructor
    · intro he; cases he
    · rintro ⟨n, hx, hw, _⟩
      obtain ⟨nd, _, rfl⟩ := hnode i n hx
      simp [toStableNode] at hw
  · intro i hi; cases hi
  · show s.nodes.length = _
    rw [hnodes, countP_all]
    · simp
    · intro x hx
      simp [toStableNode] at hx
      obtain ⟨nd, _, rfl⟩ := hx
      rfl
  · show s.edges.length = _
    rw [hedges, countP_all]
    · simp
    · intro x hx
      simp [toStableEdge] at hx
      obtain ⟨ed, _, rfl⟩ := hx
      rfl

/-! ### the reference multigraphs agree -/

/-- C01's plain multigraph as a C02 reference multigraph: every slot live, stamps forgotten -/
def liftSpec (sp : CGS.Spec) : SGSpec.Spec :=
  { directed := sp.directed,
    nodes := sp.nodes.map fun (w : Nat) => some (w : Int),
    edges := sp.edges.map fun (e : CGS.SEdge) => some ⟨e.src, e.tgt, (e.weight : Int)⟩ }

theorem abs_toStable (nl dbg : Bool) (s : G.State) (st : Nat → Nat) (ck : Nat) :
    SGProofs.abs (toStable nl dbg s) = liftSpec (GProofs.absG s st ck) := by
  have hn : (toStable nl dbg s).nodes.map (·.w) = (GProofs.absG s st ck).nodes.map fun (w : Nat) => some (w : Int) := by
    simp [toStable, GProofs.absG, toStableNode, List.map_map, Function.comp_def]
  have he : (toStable nl dbg s).edges.map SGProofs.absEdge =
      (GProofs.absG s st ck).edges.map fun (e : CGS.SEdge) => some ⟨e.src, e.tgt, (e.weight : Int)⟩ := by
    apply List.ext_getElem?
    intro i
    simp only [List.getElem?_map]
    rw [GProofs.absG_edges_get]
    show Option.map SGProofs.absEdge ((s.edges.map toStableEdge)[i]?) = _
    rw [List.getElem?_map]
    cases s.edges[i]? <;> simp [SGProofs.absEdge, toStableEdge, GProofs.absEdgeG]
  unfold SGProofs.abs liftSpec
  rw [hn, he]
  rfl

/-! ### `Graph::from(stable_graph)` lands in the C01 model -/

theorem canPush_full (nl dbg : Bool) (g : G.State) : SG.canPush (toStable nl dbg g) g.endv = false := by
  unfold SG.canPush
  rw [mkIx_small nl dbg g (Nat.le_refl _)]
  cases nl
  · show (decide (g.endv ≠ g.endv)) = false
    exact decide_eq_false (by simp)
  · show (decide (g.endv < g.endv)) = false
    exact decide_eq_false (by omega)

theorem tryAddNode_image (nl dbg : Bool) (g : G.State) (hn : g.nodes.length ≤ g.endv) (w : Int) (hw : 0 ≤ w)
    (g1 : SG.State) (i : Nat) (h : SG.tryAddNode (toStable nl dbg g) w = .ok (g1, .ok i)) :
    g1 = toStable nl dbg (G.tryAddNode g w.toNat).1 := by
  by_cases hroom : g.nodes.length < g.endv
  · have := (tryAddNode_agree nl dbg g w.toNat hroom).1
    rw [Int.toNat_of_nonneg hw, h] at this
    simp only [Except.ok.injEq, Prod.mk.injEq] at this
    exact this.1
  · have hlen : g.nodes.length = g.endv := by omega
    exfalso
    unfold SG.tryAddNode at h
    have hf : ¬ (toStable nl dbg g).freeNode ≠ (toStable nl dbg g).fin := by simp [toStable]
    rw [if_neg hf] at h
    unfold SG.pushNode at h
    have hl : (toStable nl dbg g).nodes.length = g.endv := by simp [toStable, hlen]
    rw [hl, canPush_full] at h
    simp at h

theorem tryAddEdge_image (nl dbg : Bool) (g : G.State) (he : g.edges.length ≤ g.endv) (a b : Nat) (w : Int) (hw : 0 ≤ w)
    (g1 : SG.State) (i : Nat) (h : SG.tryAddEdge (toStable nl dbg g) a b w = .ok (g1, .ok i)) :
    g1 = toStable nl dbg (G.tryAddEdge g a b w.toNat).1 := by
  by_cases hgood : g.edges.length < g.endv ∧ a < g.nodes.length ∧ b < g.nodes.length
  · obtain ⟨g', h1, h2, _⟩ := tryAddEdge_agree nl dbg g a b w.toNat hgood.1 hgood.2.1 hgood.2.2
    rw [Int.toNat_of_nonneg hw, h] at h2
    simp only [Except.ok.injEq, Prod.mk.injEq] at h2
    rw [h1]
    exact h2.1
  · exfalso
    unfold SG.tryAddEdge at h
    have hf : ¬ (toStable nl dbg g).freeEdge ≠ (toStable nl dbg g).fin := by simp [toStable]
    rw [if_neg hf] at h
    have hl : (toStable nl dbg g).edges.length = g.edges.length := by simp [toStable]
    by_cases hroom : g.edges.length < g.endv
    · have hmax : max a b ≥ (toStable nl dbg g).nodes.length := by
        simp only [toStable, List.length_map]
        omega
      simp only [hl, canPush_room nl dbg g hroom, Bool.not_true, Bool.false_eq_true, if_false] at h
      unfold SG.linkNodes at h
      rw [if_pos hmax] at h
      simp at h
    · have hlen : g.edges.length = g.endv := by omega
      rw [hl, hlen, canPush_full] at h
      simp at h

theorem nodes_image (nl dbg : Bool) : ∀ (ns : List SG.Node) (g : G.State) (m : List Nat) (r : SG.State) (m' : List Nat),
    GProofs.Inv1 g → (∀ n ∈ ns, ∀ w, n.w = some w → 0 ≤ w) →
    SG.toGraphNodes ns (toStable nl dbg g) m = .ok (r, m') →
    ∃ g', r = toStable nl dbg g' ∧ GProofs.Inv1 g' ∧ g'.endv = g.endv ∧ g'.directed = g.directed := by
  intro ns
  induction ns with
  | nil =>
    intro g m r m' hi _ h
    simp only [SG.toGraphNodes, Except.ok.injEq, Prod.mk.injEq] at h
    exact ⟨g, h.1.symm, hi, rfl, rfl⟩
  | cons n ns ih =>
    intro g m r m' hi hw h
    have hw' : ∀ n' ∈ ns, ∀ w, n'.w = some w → 0 ≤ w := fun n' hn' => hw n' (List.mem_cons_of_mem _ hn')
    rw [SG.toGraphNodes] at h
    cases hnw : n.w with
    | none =>
      simp only [hnw] at h
      exact ih g _ r m' hi hw' h
    | some w =>
      simp only [hnw] at h
      cases hres : SG.tryAddNode (toStable nl dbg g) w with
      | error x => rw [hres] at h; cases h
      | ok p =>
        obtain ⟨g1, rr⟩ := p
        cases rr with
        | error x => rw [hres] at h; cases h
        | ok i =>
          rw [hres] at h
          have hg1 := tryAddNode_image nl dbg g hi.1.szN w (hw n (List.mem_cons_self ..) w hnw) g1 i hres
          subst hg1
          obtain ⟨g', h1, h2, h3, h4⟩ := ih _ _ r m' (GProofs.inv1_tryAddNode hi w.toNat) hw' h
          have hfr : (G.tryAddNode g w.toNat).1.endv = g.endv ∧ (G.tryAddNode g w.toNat).1.directed = g.directed := by
            simp only [G.tryAddNode]
            split <;> exact ⟨rfl, rfl⟩
          exact ⟨g', h1, h2, h3.trans hfr.1, h4.trans hfr.2⟩

theorem tryAddEdge_frame (g : G.State) (a b w : Nat) :
    (G.tryAddEdge g a b w).1.endv = g.endv ∧ (G.tryAddEdge g a b w).1.directed = g.directed := by
  simp only [G.tryAddEdge]
  repeat' split
  all_goals exact ⟨rfl, rfl⟩

theorem edges_image (nl dbg : Bool) (m : List Nat) : ∀ (es : List SG.Edge) (g : G.State) (r : SG.State),
    GProofs.Inv1 g → (∀ e ∈ es, ∀ w, e.w = some w → 0 ≤ w) →
    SG.toGraphEdges m es (toStable nl dbg g) = .ok r →
    ∃ g', r = toStable nl dbg g' ∧ GProofs.Inv1 g' ∧ g'.endv = g.endv ∧ g'.directed = g.directed := by
  intro es
  induction es with
  | nil =>
    intro g r hi _ h
    simp only [SG.toGraphEdges, Except.ok.injEq] at h
    exact ⟨g, h.symm, hi, rfl, rfl⟩
  | cons e es ih =>
    intro g r hi hw h
    have hw' : ∀ e' ∈ es, ∀ w, e'.w = some w → 0 ≤ w := fun e' he' => hw e' (List.mem_cons_of_mem _ he')
    rw [SG.toGraphEdges] at h
    cases hew : e.w with
    | none =>
      simp only [hew] at h
      exact ih g r hi hw' h
    | some w =>
      simp only [hew] at h
      split at h
      · rename_i sa sb _ _
        split at h
        · cases h
        · cases hres : SG.tryAddEdge (toStable nl dbg g) sa sb w with
          | error x => rw [hres] at h; cases h
          | ok p =>
            obtain ⟨g1, rr⟩ := p
            cases rr with
            | error x => rw [hres] at h; cases h
            | ok i =>
              rw [hres] at h
              have hg1 := tryAddEdge_image nl dbg g hi.1.szE sa sb w (hw e (List.mem_cons_self ..) w hew) g1 i hres
              subst hg1
              obtain ⟨g', h1, h2, h3, h4⟩ := ih _ r (GProofs.inv1_tryAddEdge hi sa sb w.toNat) hw' h
              exact ⟨g', h1, h2, h3.trans (tryAddEdge_frame g sa sb w.toNat).1, h4.trans (tryAddEdge_frame g sa sb w.toNat).2⟩
      · cases h

/-- **`Graph::from(stable_graph)` lands in the C01 model**: for ANY state of the C02 model (vacancies,
free lists, any history) whose live weights are non-negative (C01 models weights as `Nat`), the
result of C02's `Graph::from` is the embedding of a C01 state that satisfies C01's (removal-free)
invariant `Inv1` — it is built by `add_node` / `add_edge` alone -/
theorem toGraph_image (sg r : SG.State)
    (hwn : ∀ n ∈ sg.nodes, ∀ w, n.w = some w → 0 ≤ w) (hwe : ∀ e ∈ sg.edges, ∀ w, e.w = some w → 0 ≤ w)
    (h : SG.toGraph sg = .ok r) :
    ∃ g : G.State, r = toStable sg.noLimit sg.debug g ∧ GProofs.Inv1 g ∧ g.endv = sg.fin ∧ g.directed = sg.directed := by
  unfold SG.toGraph at h
  have hemp : SG.empty sg.directed sg.fin sg.noLimit sg.debug = toStable sg.noLimit sg.debug (G.empty sg.fin sg.directed) := rfl
  rw [hemp] at h
  split at h
  · cases h
  · rename_i g0 m hn
    obtain ⟨g1, h1, h2, h3, h4⟩ := nodes_image _ _ sg.nodes _ _ g0 m (GProofs.inv1_empty sg.fin sg.directed) hwn hn
    subst h1
    obtain ⟨g2, e1, e2, e3, e4⟩ := edges_image _ _ _ sg.edges g1 r h2 hwe h
    exact ⟨g2, e1, e2, e3.trans h3, e4.trans h4⟩

/-- C02's invariant after any history of the C02 alphabet (used for the non-vacuity examples) -/
theorem sg_run_inv : ∀ (ops : List SG.Op) (s : SG.State), SGProofs.Inv s →
    ∃ s' outs, SG.run s ops = .ok (s', outs) ∧ SGProofs.Inv s' := by
  intro ops
  induction ops with
  | nil => intro s hinv; exact ⟨s, [], rfl, hinv⟩
  | cons op ops ih =>
    intro s hinv
    obtain ⟨s1, o, h1, hinv1⟩ := SGProofs.step_inv_all hinv op
    obtain ⟨s2, os, h2, hinv2⟩ := ih s1 hinv1
    exact ⟨s2, o :: os, by simp [SG.run, h1, h2], hinv2⟩

/-- under C02's invariant `Graph::from(stable_graph)` returns normally -/
theorem toGraph_ok {sg : SG.State} (hinv : SGProofs.Inv sg) : ∃ r, SG.toGraph sg = .ok r := by
  obtain ⟨s', out, h, _⟩ := SGProofs.step_inv_all hinv .compact
  simp only [SG.step, SG.compact] at h
  cases hr : SG.toGraph sg with
  | ok r => exact ⟨r, rfl⟩
  | error x => rw [hr] at h; cases h

end PetgraphModel.C01Conv
