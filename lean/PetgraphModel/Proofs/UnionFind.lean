import PetgraphModel.Model.UnionFind
import PetgraphModel.Spec.Partition
import PetgraphModel.Proofs.UnionFindBase
import PetgraphModel.Proofs.UnionFindSpec
/-
Definitions used by the C19 statements and their proofs.
Generic forest lemmas live in `Proofs/UnionFindBase.lean`, quick-find / `Connected` lemmas in
`Proofs/UnionFindSpec.lean`.
-/
namespace PetgraphModel.UFProofs
open PetgraphModel PetgraphModel.UF PetgraphModel.PartitionSpec

structure Inv (s : State) : Prop where
  lenEq : s.rank.length = s.parent.length
  parentLt : ∀ x (h : x < s.parent.length), s.parent[x] < s.parent.length
  rankLt : ∀ x (h : x < s.parent.length), s.parent[x] ≠ x →
    s.rank[x]?.getD 0 < s.rank[s.parent[x]]?.getD 0
  fits : s.modulus = 0 ∨ s.parent.length ≤ s.modulus

/-- abstract effect of a call on the partition -/
def specStep (q : QF) : Op → QF
  | .newSet => q.newSet
  | .union x y | .tryUnion x y => if x ≠ y ∧ x < q.len ∧ y < q.len then q.union x y else q
  | _ => q

def specRun (q : QF) : List Op → QF
  | [] => q
  | op :: ops => specRun (specStep q op) ops

/-- representative of `x` in the concrete state (a total function for the statement of `specOut`;
`C19_root_total` shows the `getD` default is never used for in-range `x`) -/
def rootOf (s : State) (x : Nat) : Nat :=
  match tryFind s x with
  | .ok (some r) => r
  | _ => x

def firstBad (len x y : Nat) : Option Nat :=
  if x ≥ len then some x else if y ≥ len then some y else none

def specOut (s : State) (q : QF) : Op → Out
  | .newSet => .ix q.len
  | .find x => if x < q.len then .ix (rootOf s x) else .panic
  | .tryFind x => if x < q.len then .optIx (some (rootOf s x)) else .optIx none
  | .findMut x => if x < q.len then .ix (rootOf s x) else .panic
  | .tryFindMut x => if x < q.len then .optIx (some (rootOf s x)) else .optIx none
  | .equiv x y => match firstBad q.len x y with
    | some _ => .panic
    | none => .bool (q.same x y)
  | .tryEquiv x y => match firstBad q.len x y with
    | some b => .res (.error b)
    | none => .res (.ok (q.same x y))
  | .union x y => if x = y then .bool false else match firstBad q.len x y with
    | some _ => .panic
    | none => .bool (!q.same x y)
  | .tryUnion x y => if x = y then .res (.ok false) else match firstBad q.len x y with
    | some b => .res (.error b)
    | none => .res (.ok (!q.same x y))
  | .labeling => .list ((List.range q.len).map (rootOf s))
  | .len => .ix q.len
  | .capacityOp => .unit

/-- union pairs actually performed, tracking the element count -/
def unionsOf (n : Nat) : List Op → List (Nat × Nat)
  | [] => []
  | .newSet :: ops => unionsOf (n + 1) ops
  | .union x y :: ops | .tryUnion x y :: ops =>
    if x ≠ y ∧ x < n ∧ y < n then (x, y) :: unionsOf n ops else unionsOf n ops
  | _ :: ops => unionsOf n ops

/-- the history never grows past the index type's capacity -/
def Fits (m n : Nat) : List Op → Bool
  | [] => true
  | .newSet :: ops => (m == 0 || n < m) && Fits m (n + 1) ops
  | _ :: ops => Fits m n ops

/-! ### helper lemmas -/
open PetgraphModel.UFBase PetgraphModel.UFSpec

/-- the rank vector as a total function -/
def rk (s : State) : Nat → Nat := fun x => s.rank[x]?.getD 0

theorem Inv.wf {s : State} (h : Inv s) : WF s.parent (rk s) := by
  refine ⟨?_, ?_⟩
  · intro x p hp
    have hx := lt_of_getElem?_eq_some hp
    have := h.parentLt x hx
    rw [List.getElem?_eq_getElem hx] at hp
    cases hp; exact this
  · intro x p hp hne
    have hx := lt_of_getElem?_eq_some hp
    have := h.rankLt x hx
    rw [List.getElem?_eq_getElem hx] at hp
    cases hp; exact this hne

theorem Inv.of_wf {s : State} (wf : WF s.parent (rk s)) (hl : s.rank.length = s.parent.length)
    (hf : s.modulus = 0 ∨ s.parent.length ≤ s.modulus) : Inv s := by
  refine ⟨hl, ?_, ?_, hf⟩
  · intro x hx
    exact wf.parentLt x _ (List.getElem?_eq_getElem hx)
  · intro x hx hne
    exact wf.rankLt x _ (List.getElem?_eq_getElem hx) hne

/-- `s'` is a compressed version of `s`: same size, same roots -/
structure Pres (s s' : State) : Prop where
  inv : Inv s'
  len : s'.parent.length = s.parent.length
  modulus : s'.modulus = s.modulus
  roots : ∀ z r, IsRoot s.parent z r → IsRoot s'.parent z r

theorem Pres.refl {s : State} (h : Inv s) : Pres s s := ⟨h, rfl, rfl, fun _ _ h => h⟩

theorem Pres.trans {s s1 s2 : State} (p1 : Pres s s1) (p2 : Pres s1 s2) : Pres s s2 :=
  ⟨p2.inv, p2.len.trans p1.len, p2.modulus.trans p1.modulus,
    fun _ _ h => p2.roots _ _ (p1.roots _ _ h)⟩

/-! #### `tryFind` -/

theorem tryFind_ge {s : State} {x : Nat} (hx : s.len ≤ x) : tryFind s x = .ok none := by
  simp [tryFind, hx]

theorem tryFind_of_isRoot {s : State} (h : Inv s) {x r : Nat} (hr : IsRoot s.parent x r) :
    tryFind s x = .ok (some r) := by
  have hx : ¬ x ≥ s.len := by have := hr.lt; unfold State.len; omega
  have := findLoop_eq h.wf hr (fuel := s.len + 1) (by unfold State.len; omega)
  simp [tryFind, hx, this]

theorem isRoot_rootOf {s : State} (h : Inv s) {x : Nat} (hx : x < s.len) :
    IsRoot s.parent x (rootOf s x) := by
  obtain ⟨r, hr⟩ := root_exists h.wf (x := x) hx
  have := tryFind_of_isRoot h hr
  simp only [rootOf, this]
  exact hr

theorem rootOf_eq {s : State} (h : Inv s) {x r : Nat} (hr : IsRoot s.parent x r) :
    rootOf s x = r := by
  simp only [rootOf, tryFind_of_isRoot h hr]

theorem tryFind_lt {s : State} (h : Inv s) {x : Nat} (hx : x < s.len) :
    tryFind s x = .ok (some (rootOf s x)) :=
  tryFind_of_isRoot h (isRoot_rootOf h hx)

theorem rootOf_ge {s : State} {x : Nat} (hx : s.len ≤ x) : rootOf s x = x := by
  simp only [rootOf, tryFind_ge hx]

theorem Pres.rootOf {s s' : State} (p : Pres s s') (h : Inv s) (x : Nat) :
    rootOf s' x = rootOf s x := by
  by_cases hx : x < s.len
  · exact rootOf_eq p.inv (p.roots _ _ (isRoot_rootOf h hx))
  · have hx' : s.len ≤ x := by omega
    rw [rootOf_ge hx', rootOf_ge (by have := p.len; unfold State.len at *; omega)]

theorem Pres.tryFind {s s' : State} (p : Pres s s') (h : Inv s) (x : Nat) :
    tryFind s' x = tryFind s x := by
  have hl : s'.len = s.len := p.len
  by_cases hx : x < s.len
  · rw [tryFind_lt h hx, tryFind_lt p.inv (by omega), p.rootOf h]
  · rw [tryFind_ge (by omega), tryFind_ge (by omega)]

theorem tryFind_eq_iff {s : State} (h : Inv s) {x y : Nat} (hx : x < s.len) (hy : y < s.len) :
    tryFind s x = tryFind s y ↔ rootOf s x = rootOf s y := by
  rw [tryFind_lt h hx, tryFind_lt h hy]
  constructor
  · intro e; simpa using e
  · intro e; rw [e]

/-! #### `findMutRec`, `tryFindMut` -/

theorem findMutRec_spec {s : State} (h : Inv s) {x : Nat} (hx : x < s.len) :
    ∃ s', findMutRec s x = .ok (s', rootOf s x) ∧ Pres s s' ∧ s'.rank = s.rank ∧
      (∀ (j pj : Nat), s.parent[j]? = some pj → s.parent[pj]? = some pj →
        s'.parent[j]? = some pj) := by
  have hp : s.parent[x]? = some s.parent[x] := List.getElem?_eq_getElem hx
  obtain ⟨par', r, h1, wf', hlen, hr, pres, fix⟩ :=
    halveLoop_spec (ρ := rk s) (s.len + 1) s.parent x s.parent[x] h.wf hp
      (by have := above_le (rk s) s.parent.length x; unfold State.len; omega)
  have hr' := rootOf_eq h hr
  subst hr'
  refine ⟨{ s with parent := par' }, ?_, ⟨?_, hlen, rfl, pres⟩, rfl, fix⟩
  · simp [findMutRec, hp, h1]
  · exact Inv.of_wf wf' (h.lenEq.trans hlen.symm) (by rw [hlen]; exact h.fits)

theorem tryFindMut_ge {s : State} {x : Nat} (hx : s.len ≤ x) : tryFindMut s x = .ok (s, none) := by
  simp [tryFindMut, hx]

theorem tryFindMut_lt {s : State} (h : Inv s) {x : Nat} (hx : x < s.len) :
    ∃ s', tryFindMut s x = .ok (s', some (rootOf s x)) ∧ Pres s s' ∧ s'.rank = s.rank := by
  obtain ⟨s', h1, p, hr, _⟩ := findMutRec_spec h hx
  refine ⟨s', ?_, p, hr⟩
  have : ¬ x ≥ s.len := by omega
  simp [tryFindMut, this, h1]

/-! #### `tryUnion` -/

theorem tryUnion_same (s : State) (x : Nat) : tryUnion s x x = .ok (s, .ok false) := by
  simp [tryUnion]

theorem tryUnion_bad1 {s : State} {x y : Nat} (hxy : x ≠ y) (hx : s.len ≤ x) :
    tryUnion s x y = .ok (s, .error x) := by
  simp [tryUnion, hxy, tryFindMut_ge hx]

theorem tryUnion_bad2 {s : State} (h : Inv s) {x y : Nat} (hxy : x ≠ y) (hx : x < s.len)
    (hy : s.len ≤ y) : ∃ s', tryUnion s x y = .ok (s', .error y) ∧ Pres s s' := by
  obtain ⟨s1, h1, p, _⟩ := tryFindMut_lt h hx
  have hy1 : s1.len ≤ y := by have := p.len; unfold State.len at *; omega
  exact ⟨s1, by simp [tryUnion, hxy, h1, tryFindMut_ge hy1], p⟩

theorem tryUnion_good {s : State} (h : Inv s) {x y : Nat} (hxy : x ≠ y) (hx : x < s.len)
    (hy : y < s.len) :
    ∃ s', tryUnion s x y = .ok (s', .ok (!(rootOf s x == rootOf s y))) ∧ Inv s' ∧
      s'.parent.length = s.parent.length ∧ s'.modulus = s.modulus ∧
      ∃ a b, ((a = rootOf s x ∧ b = rootOf s y) ∨ (a = rootOf s y ∧ b = rootOf s x)) ∧
        ∀ z r, IsRoot s.parent z r → IsRoot s'.parent z (if r = a then b else r) := by
  obtain ⟨s1, h1, p1, _⟩ := tryFindMut_lt h hx
  have hy1 : y < s1.len := by have := p1.len; unfold State.len at *; omega
  obtain ⟨s2, h2, p2, _⟩ := tryFindMut_lt p1.inv hy1
  rw [p1.rootOf h] at h2
  have p := p1.trans p2
  have hra := (p.roots _ _ (isRoot_rootOf h hx)).self
  have hrb := (p.roots _ _ (isRoot_rootOf h hy)).self
  generalize rootOf s x = ra at *
  generalize rootOf s y = rb at *
  by_cases hab : ra = rb
  · subst hab
    refine ⟨s2, ?_, p.inv, p.len, p.modulus, ra, ra, .inl ⟨rfl, rfl⟩, ?_⟩
    · simp [tryUnion, hxy, h1, h2]
    · intro z r hr
      have : (if r = ra then ra else r) = r := by split <;> simp_all
      rw [this]; exact p.roots _ _ hr
  · have hal := lt_of_getElem?_eq_some hra
    have hbl := lt_of_getElem?_eq_some hrb
    have hl2 := p.inv.lenEq
    have hxr : s2.rank[ra]? = some s2.rank[ra] := List.getElem?_eq_getElem (by omega)
    have hyr : s2.rank[rb]? = some s2.rank[rb] := List.getElem?_eq_getElem (by omega)
    have ea : rk s2 ra = s2.rank[ra] := by simp [rk, hxr]
    have eb : rk s2 rb = s2.rank[rb] := by simp [rk, hyr]
    have hne : (ra == rb) = false := by simp [hab]
    rw [hne]
    rcases Nat.lt_trichotomy s2.rank[ra] s2.rank[rb] with hlt | heq | hgt
    · -- ra below rb
      refine ⟨{ s2 with parent := s2.parent.set ra rb }, ?_, ?_, ?_, p.modulus, ra, rb,
        .inl ⟨rfl, rfl⟩, ?_⟩
      · simp [tryUnion, hxy, h1, h2, hab, hxr, hyr, hlt]
      · apply Inv.of_wf
        · exact link_wf (ρ := rk s2) p.inv.wf hra hrb hab
            (by show rk s2 ra < rk s2 rb; rw [ea, eb]; exact hlt)
            (fun _ _ => rfl) (Nat.le_refl _)
        · simp only [List.length_set]; exact hl2
        · simp only [List.length_set]; exact p.inv.fits
      · simp only [List.length_set]; exact p.len
      · intro z r hr
        exact link_roots hra hrb hab (p.roots _ _ hr)
    · -- equal ranks: rb below ra, rank of ra incremented
      have hba : rb ≠ ra := Ne.symm hab
      refine ⟨{ s2 with parent := s2.parent.set rb ra,
                        rank := s2.rank.set ra (s2.rank[ra] + 1) }, ?_, ?_, ?_, p.modulus, rb, ra,
        .inr ⟨rfl, rfl⟩, ?_⟩
      · have h3 : ¬ s2.rank[ra] < s2.rank[rb] := by omega
        have h4 : ¬ s2.rank[ra] > s2.rank[rb] := by omega
        simp [tryUnion, hxy, h1, h2, hab, hxr, hyr, h3, h4]
      · apply Inv.of_wf
        · refine link_wf (ρ := rk s2) p.inv.wf hrb hra hba ?_ ?_ ?_
          · simp only [rk, List.getElem?_set_ne hab, hyr]
            rw [List.getElem?_set_self (by omega)]
            simp; omega
          · intro z hz
            simp only [rk, List.getElem?_set_ne (Ne.symm hz)]
          · simp only [rk]
            rw [List.getElem?_set_self (by omega), hxr]
            simp
        · simp only [List.length_set]; exact hl2
        · simp only [List.length_set]; exact p.inv.fits
      · simp only [List.length_set]; exact p.len
      · intro z r hr
        exact link_roots hrb hra hba (p.roots _ _ hr)
    · -- rb below ra
      have hba : rb ≠ ra := Ne.symm hab
      refine ⟨{ s2 with parent := s2.parent.set rb ra }, ?_, ?_, ?_, p.modulus, rb, ra,
        .inr ⟨rfl, rfl⟩, ?_⟩
      · have h3 : ¬ s2.rank[ra] < s2.rank[rb] := by omega
        simp [tryUnion, hxy, h1, h2, hab, hxr, hyr, h3, hgt]
      · apply Inv.of_wf
        · exact link_wf (ρ := rk s2) p.inv.wf hrb hra hba
            (by show rk s2 rb < rk s2 ra; rw [ea, eb]; exact hgt)
            (fun _ _ => rfl) (Nat.le_refl _)
        · simp only [List.length_set]; exact hl2
        · simp only [List.length_set]; exact p.inv.fits
      · simp only [List.length_set]; exact p.len
      · intro z r hr
        exact link_roots hrb hra hba (p.roots _ _ hr)

/-! #### `into_labeling` -/

theorem labelLoop_spec : ∀ (n : Nat) (s : State) (ix : Nat), Inv s → ix + n = s.len →
    (∀ (j pj : Nat), j < ix → s.parent[j]? = some pj → s.parent[pj]? = some pj) →
    ∃ s', labelLoop s n ix = .ok s' ∧ s'.parent.length = s.parent.length ∧
      (∀ z r, IsRoot s.parent z r → IsRoot s'.parent z r) ∧
      (∀ (j pj : Nat), s'.parent[j]? = some pj → s'.parent[pj]? = some pj)
  | 0, s, ix, _, hn, hfix =>
    ⟨s, rfl, rfl, fun _ _ h => h, fun j pj hj =>
      hfix j pj (by have := lt_of_getElem?_eq_some hj; unfold State.len at hn; omega) hj⟩
  | n+1, s, ix, h, hn, hfix => by
    have hix : ix < s.len := by omega
    have hp : s.parent[ix]? = some s.parent[ix] := List.getElem?_eq_getElem hix
    have hk : s.parent[ix] < s.len := h.parentLt ix hix
    obtain ⟨s1, h1, p1, _, fix1⟩ := findMutRec_spec h hk
    have hr0 := isRoot_rootOf h hix
    have hrk' : rootOf s s.parent[ix] = rootOf s ix := rootOf_eq h (hr0.parent hp)
    rw [hrk'] at h1
    have hr1 := p1.roots _ _ hr0
    have hix1 : ix < s1.parent.length := hr1.lt
    obtain ⟨wf2, pres2⟩ := set_root_preserve p1.inv.wf hr1
    have inv2 : Inv { s1 with parent := s1.parent.set ix (rootOf s ix) } := by
      apply Inv.of_wf
      · exact wf2
      · simp only [List.length_set]; exact p1.inv.lenEq
      · simp only [List.length_set]; exact p1.inv.fits
    have hB : ∀ (q : Nat), s1.parent[q]? = some q →
        (s1.parent.set ix (rootOf s ix))[q]? = some q := by
      intro q hq
      by_cases hqi : q = ix
      · subst hqi
        rw [List.getElem?_set_self hix1, hr1.of_self hq]
      · rw [List.getElem?_set_ne (Ne.symm hqi)]; exact hq
    have hfix2 : ∀ (j pj : Nat), j < ix + 1 →
        (s1.parent.set ix (rootOf s ix))[j]? = some pj →
        (s1.parent.set ix (rootOf s ix))[pj]? = some pj := by
      intro j pj hj hjp
      by_cases hji : j = ix
      · subst hji
        rw [List.getElem?_set_self hix1] at hjp
        cases hjp
        exact hB _ hr1.self
      · rw [List.getElem?_set_ne (Ne.symm hji)] at hjp
        have hjl : j < s.parent.length := by unfold State.len at hix; omega
        have h0 := hfix j _ (by omega) (List.getElem?_eq_getElem hjl)
        have h1' := fix1 j _ (List.getElem?_eq_getElem hjl) h0
        rw [h1'] at hjp
        cases hjp
        exact hB _ (fix1 _ _ h0 h0)
    have hlen2 : ix + 1 + n = State.len { s1 with parent := s1.parent.set ix (rootOf s ix) } := by
      have := p1.len
      simp only [State.len, List.length_set] at hn ⊢
      omega
    obtain ⟨s', h3, hlen3, pres3, fix3⟩ := labelLoop_spec n _ (ix + 1) inv2 hlen2 hfix2
    refine ⟨s', ?_, ?_, ?_, fix3⟩
    · unfold labelLoop
      simp only [hp, h1]
      exact h3
    · rw [hlen3]; simp only [List.length_set]; exact p1.len
    · intro z r hr; exact pres3 _ _ (pres2 _ _ (p1.roots _ _ hr))

theorem intoLabeling_spec {s : State} (h : Inv s) :
    intoLabeling s = .ok ((List.range s.len).map (rootOf s)) := by
  obtain ⟨s', h1, hlen, pres, fix⟩ := labelLoop_spec s.len s 0 h (by simp)
    (by intro j pj hj; omega)
  have : s'.parent = (List.range s.len).map (rootOf s) := by
    apply List.ext_getElem?
    intro i
    by_cases hi : i < s.len
    · have hi' : i < s'.parent.length := by unfold State.len at hi; omega
      have e := List.getElem?_eq_getElem hi'
      have hroot := fix _ _ e
      have r1 : IsRoot s'.parent i s'.parent[i] := by
        by_cases hs : s'.parent[i] = i
        · rw [hs] at e ⊢; exact .root e
        · exact .step e hs (.root hroot)
      have r2 := pres _ _ (isRoot_rootOf h hi)
      rw [e, r1.functional r2, List.getElem?_map, List.getElem?_range hi]
      rfl
    · rw [List.getElem?_eq_none (by unfold State.len at hi; omega),
        List.getElem?_eq_none (by simp; omega)]
  simp only [intoLabeling, h1, this]

/-! #### classification of calls -/

theorem op_cases (n : Nat) (op : Op) :
    op = .newSet ∨
    (∃ x y, (op = .union x y ∨ op = .tryUnion x y) ∧ x ≠ y ∧ x < n ∧ y < n) ∨
    (op ≠ .newSet ∧
      ∀ x y, (op = .union x y ∨ op = .tryUnion x y) → ¬ (x ≠ y ∧ x < n ∧ y < n)) := by
  cases op with
  | newSet => exact .inl rfl
  | union x y =>
    by_cases hc : x ≠ y ∧ x < n ∧ y < n
    · exact .inr (.inl ⟨x, y, .inl rfl, hc⟩)
    · refine .inr (.inr ⟨by simp, ?_⟩)
      intro x' y' h; simp at h; obtain ⟨rfl, rfl⟩ := h; exact hc
  | tryUnion x y =>
    by_cases hc : x ≠ y ∧ x < n ∧ y < n
    · exact .inr (.inl ⟨x, y, .inr rfl, hc⟩)
    · refine .inr (.inr ⟨by simp, ?_⟩)
      intro x' y' h; simp at h; obtain ⟨rfl, rfl⟩ := h; exact hc
  | _ => exact .inr (.inr ⟨by simp, by simp⟩)

theorem specStep_pres {q : QF} {op : Op} (hns : op ≠ .newSet)
    (hu : ∀ x y, (op = .union x y ∨ op = .tryUnion x y) → ¬ (x ≠ y ∧ x < q.len ∧ y < q.len)) :
    specStep q op = q := by
  cases op with
  | newSet => exact absurd rfl hns
  | union x y => have := hu x y (.inl rfl); simp only [specStep, this, if_false]
  | tryUnion x y => have := hu x y (.inr rfl); simp only [specStep, this, if_false]
  | _ => rfl

theorem step_union_fst {s s' : State} {x y : Nat} {r : Except Nat Bool}
    (h : tryUnion s x y = .ok (s', r)) :
    (step s (.union x y)).1 = s' ∧ (step s (.tryUnion x y)).1 = s' := by
  cases r <;> simp [step, h]

theorem tryUnion_pres {s : State} (h : Inv s) {x y : Nat}
    (hbad : ¬ (x ≠ y ∧ x < s.len ∧ y < s.len)) :
    ∃ s' r, tryUnion s x y = .ok (s', r) ∧ Pres s s' := by
  by_cases hxy : x = y
  · subst hxy; exact ⟨s, _, tryUnion_same s x, Pres.refl h⟩
  · by_cases hx : x < s.len
    · have hy : s.len ≤ y := by omega
      obtain ⟨s', h1, p⟩ := tryUnion_bad2 h hxy hx hy
      exact ⟨s', _, h1, p⟩
    · exact ⟨s, _, tryUnion_bad1 hxy (by omega), Pres.refl h⟩

theorem step_pres {s : State} (h : Inv s) (op : Op) (hns : op ≠ .newSet)
    (hu : ∀ x y, (op = .union x y ∨ op = .tryUnion x y) → ¬ (x ≠ y ∧ x < s.len ∧ y < s.len)) :
    Pres s (step s op).1 := by
  cases op with
  | newSet => exact absurd rfl hns
  | find x => simp only [step]; split <;> exact Pres.refl h
  | tryFind x => simp only [step]; split <;> exact Pres.refl h
  | findMut x =>
    by_cases hx : x < s.len
    · obtain ⟨s', h1, p, _⟩ := findMutRec_spec h hx
      simp only [step, hx, if_true, h1]; exact p
    · simp only [step, hx, if_false]; exact Pres.refl h
  | tryFindMut x =>
    by_cases hx : x < s.len
    · obtain ⟨s', h1, p, _⟩ := tryFindMut_lt h hx
      simp only [step, h1]; exact p
    · simp only [step, tryFindMut_ge (Nat.le_of_not_lt hx)]; exact Pres.refl h
  | equiv x y => simp only [step]; split <;> exact Pres.refl h
  | tryEquiv x y => simp only [step]; split <;> exact Pres.refl h
  | union x y =>
    obtain ⟨s', r, h1, p⟩ := tryUnion_pres h (hu x y (.inl rfl))
    rw [(step_union_fst h1).1]; exact p
  | tryUnion x y =>
    obtain ⟨s', r, h1, p⟩ := tryUnion_pres h (hu x y (.inr rfl))
    rw [(step_union_fst h1).2]; exact p
  | labeling => simp only [step]; split <;> exact Pres.refl h
  | len => exact Pres.refl h
  | capacityOp => exact Pres.refl h

/-! #### `new_set` -/

theorem mkIx_eq {m n : Nat} (h : m = 0 ∨ n < m) : mkIx m n = n := by
  unfold mkIx
  split
  · rfl
  · rcases h with h | h
    · contradiction
    · exact Nat.mod_eq_of_lt h

theorem isRoot_append {parent : List Nat} {l : List Nat} {z r : Nat} (h : IsRoot parent z r) :
    IsRoot (parent ++ l) z r := by
  induction h with
  | root h =>
    exact .root (by rw [List.getElem?_append, if_pos (lt_of_getElem?_eq_some h)]; exact h)
  | step h hne _ ih =>
    exact .step (by rw [List.getElem?_append, if_pos (lt_of_getElem?_eq_some h)]; exact h) hne ih

theorem newSet_spec {s : State} (h : Inv s) (hfit : s.modulus = 0 ∨ s.len < s.modulus) :
    (newSet s).2 = s.len ∧ Inv (newSet s).1 ∧ (newSet s).1.len = s.len + 1 ∧
    (newSet s).1.modulus = s.modulus ∧
    (∀ z, z < s.len → rootOf (newSet s).1 z = rootOf s z) ∧
    rootOf (newSet s).1 s.len = s.len := by
  have hm : mkIx s.modulus s.parent.length = s.parent.length := mkIx_eq hfit
  have hlast : (s.parent ++ [s.parent.length])[s.parent.length]? = some s.parent.length := by
    simp
  have inv' : Inv (newSet s).1 := by
    simp only [newSet, hm]
    apply Inv.of_wf
    · refine ⟨?_, ?_⟩
      · intro x p hp
        simp only [List.getElem?_append, List.length_append, List.length_singleton] at hp ⊢
        split at hp
        · have := h.wf.parentLt _ _ hp; omega
        · have hx := lt_of_getElem?_eq_some hp
          simp at hx
          have : x - s.parent.length = 0 := by omega
          rw [this] at hp; simp at hp; omega
      · intro x p hp hne
        simp only [List.getElem?_append] at hp
        split at hp
        · have hlt := h.wf.parentLt _ _ hp
          have := h.wf.rankLt _ _ hp hne
          have e1 : rk { s with parent := s.parent ++ [s.parent.length], rank := s.rank ++ [0] } x
              = rk s x := by
            simp only [rk, List.getElem?_append]
            rw [if_pos (by have := h.lenEq; omega)]
          have e2 : rk { s with parent := s.parent ++ [s.parent.length], rank := s.rank ++ [0] } p
              = rk s p := by
            simp only [rk, List.getElem?_append]
            rw [if_pos (by have := h.lenEq; omega)]
          rw [e1, e2]; exact this
        · have hx := lt_of_getElem?_eq_some hp
          simp at hx
          have h0 : x - s.parent.length = 0 := by omega
          rw [h0] at hp; simp at hp; omega
    · simp only [List.length_append, List.length_singleton]; have := h.lenEq; omega
    · simp only [List.length_append, List.length_singleton]
      rcases hfit with hf | hf
      · exact .inl hf
      · exact .inr hf
  refine ⟨hm, inv', ?_, rfl, ?_, ?_⟩
  · simp [newSet, State.len]
  · intro z hz
    have := isRoot_append (l := [s.parent.length]) (isRoot_rootOf h hz)
    apply rootOf_eq inv'
    simp only [newSet, hm]; exact this
  · apply rootOf_eq inv'
    simp only [newSet, hm]
    exact .root hlast

/-! #### the refinement relation is preserved -/

theorem merge_rel {n : Nat} {f c : Nat → Nat} {x y a b : Nat} (hx : x < n) (hy : y < n)
    (hrel : ∀ z w, z < n → w < n → (f z = f w ↔ c z = c w))
    (hab : (a = f x ∧ b = f y) ∨ (a = f y ∧ b = f x)) :
    ∀ z w, z < n → w < n →
      ((if f z = a then b else f z) = (if f w = a then b else f w) ↔
       (if c z = c y then c x else c z) = (if c w = c y then c x else c w)) := by
  intro z w hz hw
  have h1 := hrel z w hz hw
  have h2 := hrel z x hz hx
  have h3 := hrel z y hz hy
  have h4 := hrel w x hw hx
  have h5 := hrel w y hw hy
  have h6 := hrel x y hx hy
  rcases hab with ⟨rfl, rfl⟩ | ⟨rfl, rfl⟩ <;> grind

/-- the canonical quick-find state of a concrete state: label = representative -/
def canonQ (s : State) : QF := ⟨(List.range s.len).map (rootOf s)⟩

theorem canonQ_len (s : State) : (canonQ s).len = s.len := by simp [canonQ, QF.len]

theorem canonQ_cl {s : State} {x : Nat} (hx : x < s.len) : cl (canonQ s) x = rootOf s x := by
  simp [cl, canonQ, List.getElem?_range hx]

theorem rootOf_lt {s : State} (h : Inv s) {x : Nat} (hx : x < s.len) : rootOf s x < s.len :=
  (isRoot_rootOf h hx).root_lt

theorem rel_iff {s : State} {q : QF} (h : Inv s) (hl : s.len = q.len) :
    (∀ x y, x < s.len → y < s.len → (tryFind s x = tryFind s y ↔ q.same x y = true)) ↔
    (∀ x y, x < s.len → y < s.len → (rootOf s x = rootOf s y ↔ cl q x = cl q y)) := by
  constructor
  · intro hr x y hx hy
    rw [← tryFind_eq_iff h hx hy, hr x y hx hy, same_iff (by omega) (by omega)]
  · intro hr x y hx hy
    rw [tryFind_eq_iff h hx hy, hr x y hx hy, same_iff (by omega) (by omega)]

theorem canonQ_rel {s : State} (h : Inv s) :
    ∀ x y, x < s.len → y < s.len → (tryFind s x = tryFind s y ↔ (canonQ s).same x y = true) := by
  rw [rel_iff h (canonQ_len s).symm]
  intro x y hx hy
  rw [canonQ_cl hx, canonQ_cl hy]

theorem step_rel {s : State} {q : QF} (op : Op) (h : Inv s) (ok : Ok q) (hl : s.len = q.len)
    (hrel : ∀ x y, x < s.len → y < s.len → (rootOf s x = rootOf s y ↔ cl q x = cl q y))
    (hfit : op = .newSet → s.modulus = 0 ∨ s.len < s.modulus) :
    Inv (step s op).1 ∧ Ok (specStep q op) ∧ (step s op).1.len = (specStep q op).len ∧
    (step s op).1.modulus = s.modulus ∧
    (∀ x y, x < (step s op).1.len → y < (step s op).1.len →
      (rootOf (step s op).1 x = rootOf (step s op).1 y ↔
        cl (specStep q op) x = cl (specStep q op) y)) := by
  rcases op_cases s.len op with rfl | ⟨x, y, hop, hxy, hx, hy⟩ | ⟨hns, hu⟩
  · obtain ⟨_, inv', hlen, hmod, hroots, hlast⟩ := newSet_spec h (hfit rfl)
    have e : (step s .newSet).1 = (newSet s).1 := rfl
    rw [e]
    refine ⟨inv', ok_newSet ok, by rw [hlen, hl]; exact (len_newSet q).symm, hmod, ?_⟩
    intro x y hx' hy'
    rw [hlen] at hx' hy'
    simp only [specStep]
    by_cases hxn : x = s.len <;> by_cases hyn : y = s.len
    · subst hxn hyn; simp
    · subst hxn
      have hy2 : y < s.len := by omega
      rw [hlast, hroots y hy2, hl, cl_newSet_len, cl_newSet_lt (by omega)]
      have := rootOf_lt h hy2
      have := cl_lt ok (x := y) (by omega)
      constructor <;> intro <;> omega
    · subst hyn
      have hx2 : x < s.len := by omega
      rw [hlast, hroots x hx2, hl, cl_newSet_len, cl_newSet_lt (by omega)]
      have := rootOf_lt h hx2
      have := cl_lt ok (x := x) (by omega)
      constructor <;> intro <;> omega
    · have hx2 : x < s.len := by omega
      have hy2 : y < s.len := by omega
      rw [hroots x hx2, hroots y hy2, cl_newSet_lt (by omega), cl_newSet_lt (by omega)]
      exact hrel x y hx2 hy2
  · obtain ⟨s', h1, inv', hlen, hmod, a, b, hab, hroots⟩ := tryUnion_good h hxy hx hy
    have hs' : (step s op).1 = s' := by
      rcases hop with rfl | rfl
      · exact (step_union_fst h1).1
      · exact (step_union_fst h1).2
    have hq' : specStep q op = q.union x y := by
      have : x ≠ y ∧ x < q.len ∧ y < q.len := ⟨hxy, by omega, by omega⟩
      rcases hop with rfl | rfl <;> simp only [specStep] <;> rw [if_pos this]
    have hlen' : s'.len = s.len := hlen
    have hxq : x < q.len := by omega
    have hyq : y < q.len := by omega
    rw [hs', hq']
    refine ⟨inv', ok_union ok hxq hyq, by rw [hlen', len_union hxq hyq, hl], hmod, ?_⟩
    intro z w hz hw
    rw [hlen'] at hz hw
    have hr : ∀ z, z < s.len → rootOf s' z = if rootOf s z = a then b else rootOf s z :=
      fun z hz => rootOf_eq inv' (hroots _ _ (isRoot_rootOf h hz))
    rw [hr z hz, hr w hw, cl_union hxq hyq (by omega), cl_union hxq hyq (by omega)]
    exact merge_rel hx hy hrel hab z w hz hw
  · have p := step_pres h op hns hu
    have hq' : specStep q op = q := specStep_pres hns (by rw [← hl]; exact hu)
    have hlen' : (step s op).1.len = s.len := p.len
    rw [hq']
    refine ⟨p.inv, ok, by rw [hlen', hl], p.modulus, ?_⟩
    intro x y hx hy
    rw [p.rootOf h, p.rootOf h]
    exact hrel x y (by omega) (by omega)

theorem same_eq {s : State} {q : QF} (h : Inv s)
    (hrel : ∀ x y, x < s.len → y < s.len → (tryFind s x = tryFind s y ↔ q.same x y = true))
    {x y : Nat} (hx : x < s.len) (hy : y < s.len) :
    q.same x y = (rootOf s x == rootOf s y) := by
  have := hrel x y hx hy
  rw [tryFind_eq_iff h hx hy] at this
  rw [Bool.eq_iff_iff, ← this]; simp

theorem specStep_len (q : QF) (op : Op) :
    (specStep q op).len = if op = .newSet then q.len + 1 else q.len := by
  cases op with
  | newSet => simp [specStep, len_newSet]
  | union x y =>
    simp only [specStep]
    split
    · rename_i hc; simp [len_union hc.2.1 hc.2.2]
    · simp
  | tryUnion x y =>
    simp only [specStep]
    split
    · rename_i hc; simp [len_union hc.2.1 hc.2.2]
    · simp
  | _ => simp [specStep]

theorem fits_cons {m n : Nat} {op : Op} {ops : List Op} (h : Fits m n (op :: ops) = true) :
    (op = .newSet → m = 0 ∨ n < m) ∧ Fits m (if op = .newSet then n + 1 else n) ops = true := by
  cases op <;> simp_all [Fits]

theorem run_cons_fst (s : State) (op : Op) (ops : List Op) :
    (run s (op :: ops)).1 = (run (step s op).1 ops).1 := rfl

theorem run_rel (m : Nat) : ∀ (ops : List Op) (s : State) (q : QF), Inv s → Ok q →
    s.len = q.len → s.modulus = m →
    (∀ x y, x < s.len → y < s.len → (rootOf s x = rootOf s y ↔ cl q x = cl q y)) →
    Fits m s.len ops = true →
    Inv (run s ops).1 ∧ (run s ops).1.len = (specRun q ops).len ∧
    ∀ x y, x < (run s ops).1.len → y < (run s ops).1.len →
      (rootOf (run s ops).1 x = rootOf (run s ops).1 y ↔
        cl (specRun q ops) x = cl (specRun q ops) y)
  | [], s, q, h, _, hl, _, hrel, _ => ⟨h, hl, hrel⟩
  | op :: ops, s, q, h, ok, hl, hm, hrel, hf => by
    obtain ⟨hfit, hf'⟩ := fits_cons hf
    obtain ⟨inv', ok', hl', hm', hrel'⟩ :=
      step_rel op h ok hl hrel (fun e => by rw [hm]; exact hfit e)
    rw [run_cons_fst]
    show Inv (run (step s op).1 ops).1 ∧
      (run (step s op).1 ops).1.len = (specRun (specStep q op) ops).len ∧ _
    refine run_rel m ops _ _ inv' ok' hl' (hm'.trans hm) hrel' ?_
    rw [hl', specStep_len, ← hl]
    exact hf'

/-! ### obligations (statements fixed by `Theorems/C19.lean`) -/

theorem inv_new (m n : Nat) (h : m = 0 ∨ n ≤ m) : Inv (UF.new m n) := by
  have hp : ∀ x (hx : x < n), ((List.range n).map (mkIx m))[x]? = some x := by
    intro x hx
    rw [List.getElem?_map, List.getElem?_range hx]
    simp only [Option.map_some]
    rw [mkIx_eq (by omega)]
  apply Inv.of_wf
  · refine ⟨?_, ?_⟩
    · intro x p hx
      have hl := lt_of_getElem?_eq_some hx
      simp only [UF.new, List.length_map, List.length_range] at hl hx ⊢
      rw [hp x hl] at hx; cases hx; exact hl
    · intro x p hx hne
      have hl := lt_of_getElem?_eq_some hx
      simp only [UF.new, List.length_map, List.length_range] at hl hx
      rw [hp x hl] at hx; cases hx; exact absurd rfl hne
  · simp [UF.new]
  · simp only [UF.new, List.length_map, List.length_range]; exact h

theorem inv_step (s : State) (op : Op) (h : Inv s)
    (hfit : op = .newSet → s.modulus = 0 ∨ s.len < s.modulus) : Inv (step s op).1 := by
  rcases op_cases s.len op with rfl | ⟨x, y, hop, hxy, hx, hy⟩ | ⟨hns, hu⟩
  · exact (newSet_spec h (hfit rfl)).2.1
  · obtain ⟨s', h1, inv', _⟩ := tryUnion_good h hxy hx hy
    rcases hop with rfl | rfl
    · rw [(step_union_fst h1).1]; exact inv'
    · rw [(step_union_fst h1).2]; exact inv'
  · exact (step_pres h op hns hu).inv

theorem root_total (s : State) (h : Inv s) (x : Nat) (hx : x < s.len) :
    ∃ r, tryFind s x = .ok (some r) ∧ r < s.len ∧ s.parent[r]? = some r :=
  ⟨rootOf s x, tryFind_lt h hx, rootOf_lt h hx, (isRoot_rootOf h hx).self⟩

theorem all_histories (m n : Nat) (ops : List Op) (hm : m = 0 ∨ n ≤ m) (hf : Fits m n ops) :
    let s := (run (UF.new m n) ops).1
    let q := specRun (QF.new n) ops
    Inv s ∧ s.len = q.len ∧
    ∀ x y, x < s.len → y < s.len → (tryFind s x = tryFind s y ↔ q.same x y = true) := by
  intro s q
  have h0 := inv_new m n hm
  have hl0 : (UF.new m n).len = n := by simp [UF.new, State.len]
  have hl : (UF.new m n).len = (QF.new n).len := by rw [hl0, len_new]
  have hrel0 : ∀ x y, x < (UF.new m n).len → y < (UF.new m n).len →
      (rootOf (UF.new m n) x = rootOf (UF.new m n) y ↔ cl (QF.new n) x = cl (QF.new n) y) := by
    intro x y hx hy
    have hr : ∀ z, z < (UF.new m n).len → rootOf (UF.new m n) z = z := by
      intro z hz
      apply rootOf_eq h0
      refine .root ?_
      rw [hl0] at hz
      simp only [UF.new, List.getElem?_map, List.getElem?_range hz, Option.map_some]
      rw [mkIx_eq (by omega)]
    rw [hr x hx, hr y hy, cl_new (by omega), cl_new (by omega)]
  obtain ⟨inv', hl', hrel'⟩ :=
    run_rel m ops (UF.new m n) (QF.new n) h0 (ok_new n) hl rfl hrel0 (by rw [hl0]; exact hf)
  exact ⟨inv', hl', (rel_iff inv' hl').mpr hrel'⟩

theorem outputs (s : State) (q : QF) (op : Op) (h : Inv s) (hl : s.len = q.len)
    (hrel : ∀ x y, x < s.len → y < s.len → (tryFind s x = tryFind s y ↔ q.same x y = true))
    (hfit : op = .newSet → s.modulus = 0 ∨ s.len < s.modulus) :
    (step s op).2 = specOut s q op := by
  cases op with
  | newSet =>
    show Out.ix (mkIx s.modulus s.parent.length) = Out.ix q.len
    have e : mkIx s.modulus s.parent.length = s.parent.length := mkIx_eq (hfit rfl)
    rw [e, ← hl]; rfl
  | find x =>
    by_cases hx : x < s.len
    · have hq : x < q.len := by omega
      simp [step, tryFind_lt h hx, specOut, hq]
    · have hq : ¬ x < q.len := by omega
      simp [step, tryFind_ge (Nat.le_of_not_lt hx), specOut, hq]
  | tryFind x =>
    by_cases hx : x < s.len
    · have hq : x < q.len := by omega
      simp [step, tryFind_lt h hx, specOut, hq]
    · have hq : ¬ x < q.len := by omega
      simp [step, tryFind_ge (Nat.le_of_not_lt hx), specOut, hq]
  | findMut x =>
    by_cases hx : x < s.len
    · have hq : x < q.len := by omega
      obtain ⟨s', h1, _⟩ := findMutRec_spec h hx
      simp [step, hx, h1, specOut, hq]
    · have hq : ¬ x < q.len := by omega
      simp [step, hx, specOut, hq]
  | tryFindMut x =>
    by_cases hx : x < s.len
    · have hq : x < q.len := by omega
      obtain ⟨s', h1, _⟩ := tryFindMut_lt h hx
      simp [step, h1, specOut, hq]
    · have hq : ¬ x < q.len := by omega
      simp [step, tryFindMut_ge (Nat.le_of_not_lt hx), specOut, hq]
  | equiv x y =>
    by_cases hx : x < s.len <;> by_cases hy : y < s.len
    · have hq1 : ¬ q.len ≤ x := by omega
      have hq2 : ¬ q.len ≤ y := by omega
      simp [step, tryFind_lt h hx, tryFind_lt h hy, specOut, firstBad, hq1, hq2,
        same_eq h hrel hx hy]
    · have hq1 : ¬ q.len ≤ x := by omega
      have hq2 : q.len ≤ y := by omega
      simp [step, tryFind_lt h hx, tryFind_ge (Nat.le_of_not_lt hy), specOut, firstBad, hq1, hq2]
    · have hq1 : q.len ≤ x := by omega
      simp [step, tryFind_ge (Nat.le_of_not_lt hx), tryFind_lt h hy, specOut, firstBad, hq1]
    · have hq1 : q.len ≤ x := by omega
      simp [step, tryFind_ge (Nat.le_of_not_lt hx), tryFind_ge (Nat.le_of_not_lt hy), specOut,
        firstBad, hq1]
  | tryEquiv x y =>
    by_cases hx : x < s.len <;> by_cases hy : y < s.len
    · have hq1 : ¬ q.len ≤ x := by omega
      have hq2 : ¬ q.len ≤ y := by omega
      simp [step, tryEquiv, tryFind_lt h hx, tryFind_lt h hy, specOut, firstBad, hq1, hq2,
        same_eq h hrel hx hy]
    · have hq1 : ¬ q.len ≤ x := by omega
      have hq2 : q.len ≤ y := by omega
      simp [step, tryEquiv, tryFind_lt h hx, tryFind_ge (Nat.le_of_not_lt hy), specOut, firstBad,
        hq1, hq2]
    · have hq1 : q.len ≤ x := by omega
      simp [step, tryEquiv, tryFind_ge (Nat.le_of_not_lt hx), specOut, firstBad, hq1]
    · have hq1 : q.len ≤ x := by omega
      simp [step, tryEquiv, tryFind_ge (Nat.le_of_not_lt hx), specOut, firstBad, hq1]
  | union x y =>
    by_cases hxy : x = y
    · subst hxy; simp [step, tryUnion_same, specOut]
    · by_cases hx : x < s.len
      · by_cases hy : y < s.len
        · have hq1 : ¬ q.len ≤ x := by omega
          have hq2 : ¬ q.len ≤ y := by omega
          obtain ⟨s', h1, _⟩ := tryUnion_good h hxy hx hy
          simp [step, h1, specOut, hxy, firstBad, hq1, hq2, same_eq h hrel hx hy]
        · have hq1 : ¬ q.len ≤ x := by omega
          have hq2 : q.len ≤ y := by omega
          obtain ⟨s', h1, _⟩ := tryUnion_bad2 h hxy hx (Nat.le_of_not_lt hy)
          simp [step, h1, specOut, hxy, firstBad, hq1, hq2]
      · have hq1 : q.len ≤ x := by omega
        simp [step, tryUnion_bad1 hxy (Nat.le_of_not_lt hx), specOut, hxy, firstBad, hq1]
  | tryUnion x y =>
    by_cases hxy : x = y
    · subst hxy; simp [step, tryUnion_same, specOut]
    · by_cases hx : x < s.len
      · by_cases hy : y < s.len
        · have hq1 : ¬ q.len ≤ x := by omega
          have hq2 : ¬ q.len ≤ y := by omega
          obtain ⟨s', h1, _⟩ := tryUnion_good h hxy hx hy
          simp [step, h1, specOut, hxy, firstBad, hq1, hq2, same_eq h hrel hx hy]
        · have hq1 : ¬ q.len ≤ x := by omega
          have hq2 : q.len ≤ y := by omega
          obtain ⟨s', h1, _⟩ := tryUnion_bad2 h hxy hx (Nat.le_of_not_lt hy)
          simp [step, h1, specOut, hxy, firstBad, hq1, hq2]
      · have hq1 : q.len ≤ x := by omega
        simp [step, tryUnion_bad1 hxy (Nat.le_of_not_lt hx), specOut, hxy, firstBad, hq1]
  | labeling => simp [step, intoLabeling_spec h, specOut, hl]
  | len => simp [step, specOut, hl]
  | capacityOp => rfl

theorem specOut_ne_fault (s : State) (q : QF) (op : Op) (f : Fault) : specOut s q op ≠ .fault f := by
  cases op <;> simp only [specOut] <;> (repeat' split) <;> simp

theorem no_fault (s : State) (op : Op) (h : Inv s) : ∀ f, (step s op).2 ≠ .fault f := by
  intro f
  by_cases hop : op = .newSet
  · subst hop; simp [step]
  · rw [outputs s (canonQ s) op h (canonQ_len s).symm (canonQ_rel h) (fun e => absurd e hop)]
    exact specOut_ne_fault _ _ _ _

theorem compression_invisible (s : State) (op : Op) (h : Inv s)
    (hnm : ∀ q : QF, s.len = q.len → specStep q op = q) (x : Nat) (hx : x < s.len) :
    tryFind (step s op).1 x = tryFind s x := by
  have _ := hx
  rcases op_cases s.len op with rfl | ⟨a, b, hop, hab, ha, hb⟩ | ⟨hns, hu⟩
  · have := hnm (canonQ s) (canonQ_len s).symm
    have := congrArg QF.len this
    simp only [specStep, len_newSet] at this
    omega
  · have hn := len_new s.len
    have e := hnm (QF.new s.len) hn.symm
    have hq : specStep (QF.new s.len) op = (QF.new s.len).union a b := by
      have : a ≠ b ∧ a < (QF.new s.len).len ∧ b < (QF.new s.len).len := ⟨hab, by omega, by omega⟩
      rcases hop with rfl | rfl <;> simp only [specStep] <;> rw [if_pos this]
    rw [hq] at e
    have ha' : a < (QF.new s.len).len := by omega
    have hb' : b < (QF.new s.len).len := by omega
    have e2 : cl ((QF.new s.len).union a b) b = cl (QF.new s.len) b := by rw [e]
    rw [cl_union ha' hb' hb', if_pos rfl, cl_new ha, cl_new hb] at e2
    exact absurd e2 hab
  · exact (step_pres h op hns hu).tryFind h x

theorem try_errors (s : State) (x y : Nat) (h : Inv s) (hbad : ¬ (x < s.len ∧ y < s.len)) (z : Nat)
    (hz : z < s.len) :
    tryFind (step s (.tryUnion x y)).1 z = tryFind s z ∧ tryFind (step s (.union x y)).1 z = tryFind s z := by
  have _ := hz
  obtain ⟨s', r, h1, p⟩ := tryUnion_pres h (x := x) (y := y) (fun hc => hbad hc.2)
  rw [(step_union_fst h1).1, (step_union_fst h1).2]
  exact ⟨p.tryFind h z, p.tryFind h z⟩

theorem unionsOf_pres {n : Nat} {op : Op} {ops : List Op} (hns : op ≠ .newSet)
    (hu : ∀ x y, (op = .union x y ∨ op = .tryUnion x y) → ¬ (x ≠ y ∧ x < n ∧ y < n)) :
    unionsOf n (op :: ops) = unionsOf n ops := by
  cases op with
  | newSet => exact absurd rfl hns
  | union x y => have := hu x y (.inl rfl); simp only [unionsOf, this, if_false]
  | tryUnion x y => have := hu x y (.inr rfl); simp only [unionsOf, this, if_false]
  | _ => rfl

theorem specRun_connected : ∀ (ops : List Op) (q : QF) (us : List (Nat × Nat)), Ok q →
    (∀ p, p ∈ us → p.1 < q.len ∧ p.2 < q.len) →
    (∀ x y, x < q.len → y < q.len → (cl q x = cl q y ↔ Connected us x y)) →
    ∀ x y, x < (specRun q ops).len → y < (specRun q ops).len →
      (cl (specRun q ops) x = cl (specRun q ops) y ↔ Connected (us ++ unionsOf q.len ops) x y)
  | [], q, us, _, _, hrel => by
    simpa [specRun, unionsOf] using hrel
  | op :: ops, q, us, ok, hus, hrel => by
    rcases op_cases q.len op with rfl | ⟨a, b, hop, hab, ha, hb⟩ | ⟨hns, hu⟩
    · have hus' : ∀ p, p ∈ us → p.1 < q.newSet.len ∧ p.2 < q.newSet.len := by
        intro p hp; have := hus p hp; rw [len_newSet]; omega
      have hrel' : ∀ x y, x < q.newSet.len → y < q.newSet.len →
          (cl q.newSet x = cl q.newSet y ↔ Connected us x y) := by
        rw [len_newSet]
        exact connected_newSet hus hrel (fun x hx => cl_lt ok hx) (fun x hx => cl_newSet_lt hx)
          (cl_newSet_len q)
      have := specRun_connected ops q.newSet us (ok_newSet ok) hus' hrel'
      rw [len_newSet] at this
      exact this
    · have hq : specStep q op = q.union a b := by
        have : a ≠ b ∧ a < q.len ∧ b < q.len := ⟨hab, ha, hb⟩
        rcases hop with rfl | rfl <;> simp only [specStep] <;> rw [if_pos this]
      have hun : unionsOf q.len (op :: ops) = (a, b) :: unionsOf q.len ops := by
        have : a ≠ b ∧ a < q.len ∧ b < q.len := ⟨hab, ha, hb⟩
        rcases hop with rfl | rfl <;> simp only [unionsOf] <;> rw [if_pos this]
      have hlen := len_union ha hb
      have hus' : ∀ p, p ∈ us ++ [(a, b)] → p.1 < (q.union a b).len ∧ p.2 < (q.union a b).len := by
        intro p hp
        rw [hlen]
        rcases List.mem_append.mp hp with hp | hp
        · exact hus p hp
        · simp at hp; subst hp; exact ⟨ha, hb⟩
      have hrel' : ∀ x y, x < (q.union a b).len → y < (q.union a b).len →
          (cl (q.union a b) x = cl (q.union a b) y ↔ Connected (us ++ [(a, b)]) x y) := by
        rw [hlen]
        intro x y hx hy
        rw [cl_union ha hb hx, cl_union ha hb hy]
        exact connected_union ha hb hus hrel x y hx hy
      have := specRun_connected ops (q.union a b) (us ++ [(a, b)]) (ok_union ok ha hb) hus' hrel'
      rw [hlen, List.append_assoc, List.singleton_append] at this
      show ∀ x y, x < (specRun (specStep q op) ops).len → y < (specRun (specStep q op) ops).len →
        (cl (specRun (specStep q op) ops) x = cl (specRun (specStep q op) ops) y ↔ _)
      rw [hq, hun]
      exact this
    · have hq : specStep q op = q := specStep_pres hns hu
      show ∀ x y, x < (specRun (specStep q op) ops).len → y < (specRun (specStep q op) ops).len →
        (cl (specRun (specStep q op) ops) x = cl (specRun (specStep q op) ops) y ↔ _)
      rw [hq, unionsOf_pres hns hu]
      exact specRun_connected ops q us ok hus hrel

theorem connected_nil {x y : Nat} (h : Connected [] x y) : x = y := by
  induction h with
  | refl x => rfl
  | edge h => simp at h
  | symm _ ih => exact ih.symm
  | trans _ _ ih1 ih2 => exact ih1.trans ih2

theorem qf_connected (n : Nat) (ops : List Op) (x y : Nat)
    (hx : x < (specRun (QF.new n) ops).len) (hy : y < (specRun (QF.new n) ops).len) :
    (specRun (QF.new n) ops).same x y = true ↔ Connected (unionsOf n ops) x y := by
  rw [same_iff hx hy]
  have := specRun_connected ops (QF.new n) [] (ok_new n) (by simp)
    (by
      intro x y hx hy
      rw [len_new] at hx hy
      rw [cl_new hx, cl_new hy]
      exact ⟨fun e => e ▸ .refl _, connected_nil⟩) x y hx hy
  rw [len_new, List.nil_append] at this
  exact this

end PetgraphModel.UFProofs
