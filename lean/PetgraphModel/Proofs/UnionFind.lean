import PetgraphModel.Model.UnionFind
import PetgraphModel.Spec.Partition
/-
Definitions used by the C19 statements and (to be filled in) their proofs.
-/
namespace PetgraphModel.UFProofs
open PetgraphModel PetgraphModel.UF PetgraphModel.PartitionSpec

structure Inv (s : State) : Prop where
  lenEq : s.rank.length = s.parent.length
  parentLt : ∀ x (h : x < s.parent.length), s.parent[x] < s.parent.length
  rankLt : ∀ x (h : x < s.parent.length), s.parent[x] ≠ x →
    s.rank[x]?.getD 0 < s.rank[s.parent[x]]?.getD 0
  fits : s.modulus = 0 ∨ s.parent.length ≤ s.modulus

/-- abstract effect of a call on the partition -/
def specStep (q : QF) : Op → QF
  | .newSet => q.newSet
  | .union x y | .tryUnion x y => if x ≠ y ∧ x < q.len ∧ y < q.len then q.union x y else q
  | _ => q

def specRun (q : QF) : List Op → QF
  | [] => q
  | op :: ops => specRun (specStep q op) ops

/-- representative of `x` in the concrete state (a total function for the statement of `specOut`;
`C19_root_total` shows the `getD` default is never used for in-range `x`) -/
def rootOf (s : State) (x : Nat) : Nat :=
  match tryFind s x with
  | .ok (some r) => r
  | _ => x

def firstBad (len x y : Nat) : Option Nat :=
  if x ≥ len then some x else if y ≥ len then some y else none

def specOut (s : State) (q : QF) : Op → Out
  | .newSet => .ix q.len
  | .find x => if x < q.len then .ix (rootOf s x) else .panic
  | .tryFind x => if x < q.len then .optIx (some (rootOf s x)) else .optIx none
  | .findMut x => if x < q.len then .ix (rootOf s x) else .panic
  | .tryFindMut x => if x < q.len then .optIx (some (rootOf s x)) else .optIx none
  | .equiv x y => match firstBad q.len x y with
    | some _ => .panic
    | none => .bool (q.same x y)
  | .tryEquiv x y => match firstBad q.len x y with
    | some b => .res (.error b)
    | none => .res (.ok (q.same x y))
  | .union x y => if x = y then .bool false else match firstBad q.len x y with
    | some _ => .panic
    | none => .bool (!q.same x y)
  | .tryUnion x y => if x = y then .res (.ok false) else match firstBad q.len x y with
    | some b => .res (.error b)
    | none => .res (.ok (!q.same x y))
  | .labeling => .list ((List.range q.len).map (rootOf s))
  | .len => .ix q.len
  | .capacityOp => .unit

/-- union pairs actually performed, tracking the element count -/
def unionsOf (n : Nat) : List Op → List (Nat × Nat)
  | [] => []
  | .newSet :: ops => unionsOf (n + 1) ops
  | .union x y :: ops | .tryUnion x y :: ops =>
    if x ≠ y ∧ x < n ∧ y < n then (x, y) :: unionsOf n ops else unionsOf n ops
  | _ :: ops => unionsOf n ops

/-- the history never grows past the index type's capacity -/
def Fits (m n : Nat) : List Op → Bool
  | [] => true
  | .newSet :: ops => (m == 0 || n < m) && Fits m (n + 1) ops
  | _ :: ops => Fits m n ops

/-! ### obligations (statements fixed by `Theorems/C19.lean`) -/

theorem inv_new (m n : Nat) (h : m = 0 ∨ n ≤ m) : Inv (UF.new m n) := by sorry

theorem inv_step (s : State) (op : Op) (h : Inv s)
    (hfit : op = .newSet → s.modulus = 0 ∨ s.len < s.modulus) : Inv (step s op).1 := by sorry

theorem no_fault (s : State) (op : Op) (h : Inv s) : ∀ f, (step s op).2 ≠ .fault f := by sorry

theorem root_total (s : State) (h : Inv s) (x : Nat) (hx : x < s.len) :
    ∃ r, tryFind s x = .ok (some r) ∧ r < s.len ∧ s.parent[r]? = some r := by sorry

theorem all_histories (m n : Nat) (ops : List Op) (hm : m = 0 ∨ n ≤ m) (hf : Fits m n ops) :
    let s := (run (UF.new m n) ops).1
    let q := specRun (QF.new n) ops
    Inv s ∧ s.len = q.len ∧
    ∀ x y, x < s.len → y < s.len → (tryFind s x = tryFind s y ↔ q.same x y = true) := by sorry

theorem outputs (s : State) (q : QF) (op : Op) (h : Inv s) (hl : s.len = q.len)
    (hrel : ∀ x y, x < s.len → y < s.len → (tryFind s x = tryFind s y ↔ q.same x y = true))
    (hfit : op = .newSet → s.modulus = 0 ∨ s.len < s.modulus) :
    (step s op).2 = specOut s q op := by sorry

theorem compression_invisible (s : State) (op : Op) (h : Inv s)
    (hnm : ∀ q : QF, s.len = q.len → specStep q op = q) (x : Nat) (hx : x < s.len) :
    tryFind (step s op).1 x = tryFind s x := by sorry

theorem try_errors (s : State) (x y : Nat) (h : Inv s) (hbad : ¬ (x < s.len ∧ y < s.len)) (z : Nat)
    (hz : z < s.len) :
    tryFind (step s (.tryUnion x y)).1 z = tryFind s z ∧ tryFind (step s (.union x y)).1 z = tryFind s z := by sorry

theorem qf_connected (n : Nat) (ops : List Op) (x y : Nat)
    (hx : x < (specRun (QF.new n) ops).len) (hy : y < (specRun (QF.new n) ops).len) :
    (specRun (QF.new n) ops).same x y = true ↔ Connected (unionsOf n ops) x y := by sorry

end PetgraphModel.UFProofs
