import PetgraphModel.Proofs.C08W3Sum
import PetgraphModel.Driver.C08
/-
C08 (wave 3): the fuel the driver (`Driver/C08.lean`) hands to the walker models is at least the
bound of the totality theorems (`walkFuel`, `|nodes| + 1`, `dfsFuel`) for every view it accepts
(`viewOkB`: the neighbour lists of every node are permutations of the abstract graph's), and such a
view keeps its neighbour lists inside the node list — so on those views no model run ends by lack of
fuel.
-/
namespace PetgraphModel.TravProofs
open PetgraphModel PetgraphModel.Trav PetgraphModel.MGraph

theorem viewOkB_perm (v : View) (h : C08.viewOkB v = true) (a : Nat) (ha : a ∈ v.g.nodes) :
    (v.succ a).Perm (v.g.succ a) ∧ (v.pred a).Perm (v.g.pred a) := by
  unfold C08.viewOkB at h
  have := (List.all_eq_true.mp h) a ha
  simp only [Bool.and_eq_true] at this
  exact ⟨sameSet_perm this.1, sameSet_perm this.2⟩

theorem viewOkB_succLe (v : View) (h : C08.viewOkB v = true) : SuccLe v :=
  fun a ha => Nat.le_of_eq (viewOkB_perm v h a ha).1.length_eq

theorem viewOkB_predLe (v : View) (h : C08.viewOkB v = true) : PredLe v :=
  fun a ha => Nat.le_of_eq (viewOkB_perm v h a ha).2.length_eq

/-- on the nodes, an accepted view enumerates exactly the neighbours of the abstract graph -/
theorem viewOkB_succ_iff (v : View) (h : C08.viewOkB v = true) (a : Nat) (ha : a ∈ v.g.nodes) (b : Nat) :
    b ∈ v.succ a ↔ v.g.Adj a b :=
  ((viewOkB_perm v h a ha).1.mem_iff).trans mem_gsucc

theorem viewOkB_pred_iff (v : View) (h : C08.viewOkB v = true) (a : Nat) (ha : a ∈ v.g.nodes) (b : Nat) :
    b ∈ v.pred a ↔ v.g.Adj b a :=
  ((viewOkB_perm v h a ha).2.mem_iff).trans mem_gpred

theorem viewOkB_closed (v : View) (h : C08.viewOkB v = true) (hwf : v.g.WellFormed) : Closed v :=
  fun u hu w hw => (adj_mem_nodes hwf ((viewOkB_succ_iff v h u hu w).mp hw)).2

/-- every fuel the driver uses is at least the bound of the corresponding totality theorem -/
theorem driver_fuel (v : View) (h : C08.viewOkB v = true) (hwf : v.g.WellFormed) :
    walkFuel v ≤ C08.bigFuel v ∧ walkFuel v ≤ 2 * C08.bigFuel v ∧
    v.g.nodes.length + 1 ≤ C08.bigFuel v + 4 ∧ v.g.nodes.length + 1 ≤ 2 * C08.bigFuel v + 4 ∧
    v.g.nodes.length + 1 ≤ v.g.nodes.length + 2 ∧ dfsFuel v ≤ 4 * C08.bigFuel v := by
  have h1 := walkFuel_le_of_succLe v hwf (viewOkB_succLe v h)
  have h2 := wsum_le_of_succLe v hwf (viewOkB_succLe v h)
  simp only [C08.bigFuel, dfsFuel]
  refine ⟨?_, ?_, ?_, ?_, ?_, ?_⟩ <;> omega

/-! ### the driver's own exhaustive loops agree with `bfsAll` / `topoAll` whenever those return -/

theorem driver_bfsAll_eq (v : View) : ∀ (k : Nat) (b : Bfs) (acc out : List Nat),
    bfsAll v k b acc = some out → C08.bfsAll v k b acc = out := by
  intro k
  induction k with
  | zero => intro b acc out h; simp [bfsAll] at h
  | succ k ih =>
    intro b acc out h
    rw [bfsAll] at h
    rw [C08.bfsAll]
    split at h
    · rename_i b' hb
      rw [hb]
      simpa using h
    · rename_i x b' hb
      rw [hb]
      exact ih _ _ _ h

theorem driver_topoAll_eq (v : View) (inner : Nat) : ∀ (k : Nat) (t : Topo) (acc out : List Nat),
    topoAll v inner k t acc = some out → C08.topoAll v inner k t acc = out := by
  intro k
  induction k with
  | zero => intro t acc out h; simp [topoAll] at h
  | succ k ih =>
    intro t acc out h
    rw [topoAll] at h
    rw [C08.topoAll]
    split at h
    · cases h
    · rename_i t' ht
      rw [ht]
      simpa using h
    · rename_i x t' ht
      rw [ht]
      exact ih _ _ _ h

/-- an accepted view of a well-formed graph that enumerates nothing for a non-node is consistent -/
theorem viewOkB_viewOk (v : View) (h : C08.viewOkB v = true) (hwf : v.g.WellFormed)
    (hout : ∀ a, a ∉ v.g.nodes → v.succ a = [] ∧ v.pred a = []) : ViewOk v ∧ PredOk v := by
  constructor
  · intro a b
    by_cases ha : a ∈ v.g.nodes
    · exact viewOkB_succ_iff v h a ha b
    · rw [(hout a ha).1]
      constructor
      · intro hb; cases hb
      · intro hadj; exact absurd (adj_mem_nodes hwf hadj).1 ha
  · intro a b
    by_cases ha : a ∈ v.g.nodes
    · exact viewOkB_pred_iff v h a ha b
    · rw [(hout a ha).2]
      constructor
      · intro hb; cases hb
      · intro hadj; exact absurd (adj_mem_nodes hwf hadj).2 ha

/-! ### the driver's scripted walker runs (`takeN`, `runDfs`, `runPost`) never report `FUEL` -/

/-- `takeN` over any walker with an invariant `P` that makes `next` return and a measure `m` that drops
with every emitted node: the tokens appended are node ids and `x`, never `FUEL` -/
theorem takeN_total {σ : Type} (next : σ → Option (Option Nat × σ)) (P : σ → Prop) (m : σ → Nat)
    (hnext : ∀ s, P s → ∃ r s', next s = some (r, s') ∧ P s' ∧ (r ≠ none → m s' + 1 ≤ m s) ∧ m s' ≤ m s) :
    ∀ (f : Nat) (k : Option Nat) (s : σ) (acc : List String), P s → m s + 1 ≤ f →
      ∃ (s' : σ) (toks : List (Option Nat)), C08.takeN next f k s acc = (s', acc ++ toks.map C08.showTok) ∧ P s' ∧ m s' ≤ m s := by
  intro f
  induction f with
  | zero => intro k s acc _ h; omega
  | succ f ih =>
    intro k s acc hP hm
    rw [C08.takeN]
    split
    · exact ⟨s, [], by simp, hP, Nat.le_refl _⟩
    · obtain ⟨r, s1, h1, h2, h3, h4⟩ := hnext s hP
      rw [h1]
      cases r with
      | none => exact ⟨s1, [none], by simp [C08.showTok], h2, h4⟩
      | some n =>
        have := h3 (by simp)
        obtain ⟨s', toks, g1, g2, g3⟩ := ih (k.map (· - 1)) s1 (acc ++ [toString n]) h2 (by omega)
        refine ⟨s', some n :: toks, ?_, g2, by omega⟩
        simp only [g1, List.map_cons, C08.showTok, List.append_assoc, List.cons_append, List.nil_append]

/-- the invariant under which `dfsNext` / `postNext` return within `inner` fuel -/
def DfsP (v : View) (inner : Nat) (d : Dfs) : Prop :=
  (∀ x, x ∈ d.stack → x ∈ v.g.nodes) ∧ d.stack.length + wsum v d.disc v.g.nodes + 1 ≤ inner
def PostP (v : View) (inner : Nat) (d : Trav.Post) : Prop :=
  (∀ x, x ∈ d.stack → x ∈ v.g.nodes) ∧ d.stack.length + wsum v d.disc v.g.nodes + 1 ≤ inner

theorem dfsP_next (v : View) (hcl : Closed v) (inner : Nat) (d : Dfs) (hP : DfsP v inner d) :
    ∃ r d', dfsNext v inner d = some (r, d') ∧ DfsP v inner d' ∧
      (r ≠ none → ucount d'.disc v.g.nodes + 1 ≤ ucount d.disc v.g.nodes) ∧
      ucount d'.disc v.g.nodes ≤ ucount d.disc v.g.nodes := by
  obtain ⟨r, d', h1, h2, h3, h4, h5⟩ := dfsNext_total v hcl inner d hP.1 (by have := hP.2; omega)
  exact ⟨r, d', h1, ⟨h2, by have := hP.2; omega⟩, h4, h5⟩

theorem postP_next (v : View) (hcl : Closed v) (inner : Nat) (d : Trav.Post) (hP : PostP v inner d) :
    ∃ r d', postNext v inner d = some (r, d') ∧ PostP v inner d' ∧
      (r ≠ none → ucount d'.fin v.g.nodes + 1 ≤ ucount d.fin v.g.nodes) ∧
      ucount d'.fin v.g.nodes ≤ ucount d.fin v.g.nodes := by
  obtain ⟨r, d', h1, h2, h3, h4, h5⟩ := postNext_total v hcl inner d hP.1 hP.2
  exact ⟨r, d', h1, ⟨h2, by have := hP.2; omega⟩, h4, h5⟩

/-- `runDfs`: for every script whose `move_to` targets are nodes, the answer consists of node ids and
`x` only -/
theorem runDfs_no_fuel (v : View) (hcl : Closed v) (hi : walkFuel v ≤ C08.bigFuel v)
    (cmds : List C08.Cmd) (hc : ∀ s, C08.Cmd.new s ∈ cmds → s ∈ v.g.nodes) :
    ∃ toks : List (Option Nat), C08.runDfs v cmds = toks.map C08.showTok := by
  have hn : v.g.nodes.length + 1 ≤ C08.bigFuel v + 4 := by simp only [C08.bigFuel]; omega
  have key : ∀ (cmds : List C08.Cmd) (st : Dfs × List String),
      (∀ s, C08.Cmd.new s ∈ cmds → s ∈ v.g.nodes) →
      DfsP v (C08.bigFuel v) st.1 → (∃ toks : List (Option Nat), st.2 = toks.map C08.showTok) →
      ∃ toks : List (Option Nat), (cmds.foldl (fun (st : Dfs × List String) c =>
        match c with
        | .new s => (st.1.moveTo s, st.2)
        | .reset => (st.1.reset, st.2)
        | .take k => C08.takeN (dfsNext v (C08.bigFuel v)) (C08.bigFuel v + 4) (some k) st.1 st.2
        | .all => C08.takeN (dfsNext v (C08.bigFuel v)) (C08.bigFuel v + 4) none st.1 st.2) st).2
        = toks.map C08.showTok := by
    intro cmds
    induction cmds with
    | nil => intro st _ _ h; exact h
    | cons c rest ih =>
      intro st hc hP htoks
      have hrest : ∀ s, C08.Cmd.new s ∈ rest → s ∈ v.g.nodes := fun s hs => hc s (List.mem_cons_of_mem _ hs)
      rw [List.foldl_cons]
      have htake : ∀ k, ∃ toks : List (Option Nat), ∃ s',
          C08.takeN (dfsNext v (C08.bigFuel v)) (C08.bigFuel v + 4) k st.1 st.2 = (s', toks.map C08.showTok) ∧
          DfsP v (C08.bigFuel v) s' := by
        intro k
        obtain ⟨toks0, h0⟩ := htoks
        obtain ⟨s', toks, g1, g2, _⟩ := takeN_total (dfsNext v (C08.bigFuel v)) (DfsP v (C08.bigFuel v))
          (fun d => ucount d.disc v.g.nodes) (fun d hd => dfsP_next v hcl _ d hd)
          (C08.bigFuel v + 4) k st.1 st.2 hP (by have := ucount_le_length st.1.disc v.g.nodes; omega)
        exact ⟨toks0 ++ toks, s', by rw [g1, h0, List.map_append], g2⟩
      cases c with
      | new s =>
        refine ih _ hrest ?_ htoks
        have hs := hc s (List.mem_cons_self ..)
        refine ⟨(by intro x hx; simp [Dfs.moveTo] at hx; exact hx ▸ hs), ?_⟩
        have := wsum_le_nil v st.1.disc v.g.nodes
        simp only [Dfs.moveTo, List.length_cons, List.length_nil, walkFuel] at hi ⊢
        omega
      | reset =>
        refine ih _ hrest ?_ htoks
        refine ⟨(by intro x hx; simp [Dfs.reset] at hx), ?_⟩
        simp only [Dfs.reset, List.length_nil, walkFuel] at hi ⊢
        omega
      | take k =>
        obtain ⟨toks, s', g1, g2⟩ := htake (some k)
        simp only [g1]
        exact ih (s', toks.map C08.showTok) hrest g2 ⟨toks, rfl⟩
      | all =>
        obtain ⟨toks, s', g1, g2⟩ := htake none
        simp only [g1]
        exact ih (s', toks.map C08.showTok) hrest g2 ⟨toks, rfl⟩
  unfold C08.runDfs
  refine key cmds ({}, []) hc ⟨(by intro x hx; cases hx), ?_⟩ ⟨[], rfl⟩
  simp only [List.length_nil, walkFuel] at hi ⊢
  show 0 + wsum v [] v.g.nodes + 1 ≤ C08.bigFuel v
  omega

/-- `runPost`: the same for the `DfsPostOrder` script runner -/
theorem runPost_no_fuel (v : View) (hcl : Closed v) (hi : walkFuel v ≤ 2 * C08.bigFuel v)
    (cmds : List C08.Cmd) (hc : ∀ s, C08.Cmd.new s ∈ cmds → s ∈ v.g.nodes) :
    ∃ toks : List (Option Nat), C08.runPost v cmds = toks.map C08.showTok := by
  have hn : v.g.nodes.length + 1 ≤ 2 * C08.bigFuel v + 4 := by simp only [C08.bigFuel]; omega
  have key : ∀ (cmds : List C08.Cmd) (st : Trav.Post × List String),
      (∀ s, C08.Cmd.new s ∈ cmds → s ∈ v.g.nodes) →
      PostP v (2 * C08.bigFuel v) st.1 → (∃ toks : List (Option Nat), st.2 = toks.map C08.showTok) →
      ∃ toks : List (Option Nat), (cmds.foldl (fun (st : Trav.Post × List String) c =>
        match c with
        | .new s => (st.1.moveTo s, st.2)
        | .reset => (({} : Trav.Post), st.2)
        | .take k => C08.takeN (postNext v (2 * C08.bigFuel v)) (2 * C08.bigFuel v + 4) (some k) st.1 st.2
        | .all => C08.takeN (postNext v (2 * C08.bigFuel v)) (2 * C08.bigFuel v + 4) none st.1 st.2) st).2
        = toks.map C08.showTok := by
    intro cmds
    induction cmds with
    | nil => intro st _ _ h; exact h
    | cons c rest ih =>
      intro st hc hP htoks
      have hrest : ∀ s, C08.Cmd.new s ∈ rest → s ∈ v.g.nodes := fun s hs => hc s (List.mem_cons_of_mem _ hs)
      rw [List.foldl_cons]
      have htake : ∀ k, ∃ toks : List (Option Nat), ∃ s',
          C08.takeN (postNext v (2 * C08.bigFuel v)) (2 * C08.bigFuel v + 4) k st.1 st.2 = (s', toks.map C08.showTok) ∧
          PostP v (2 * C08.bigFuel v) s' := by
        intro k
        obtain ⟨toks0, h0⟩ := htoks
        obtain ⟨s', toks, g1, g2, _⟩ := takeN_total (postNext v (2 * C08.bigFuel v)) (PostP v (2 * C08.bigFuel v))
          (fun d => ucount d.fin v.g.nodes) (fun d hd => postP_next v hcl _ d hd)
          (2 * C08.bigFuel v + 4) k st.1 st.2 hP (by have := ucount_le_length st.1.fin v.g.nodes; omega)
        exact ⟨toks0 ++ toks, s', by rw [g1, h0, List.map_append], g2⟩
      cases c with
      | new s =>
        refine ih _ hrest ?_ htoks
        have hs := hc s (List.mem_cons_self ..)
        refine ⟨(by intro x hx; simp [Post.moveTo] at hx; exact hx ▸ hs), ?_⟩
        have := wsum_le_nil v st.1.disc v.g.nodes
        simp only [Post.moveTo, List.length_cons, List.length_nil, walkFuel] at hi ⊢
        omega
      | reset =>
        refine ih _ hrest ?_ htoks
        refine ⟨(by intro x hx; cases hx), ?_⟩
        simp only [walkFuel] at hi
        show 0 + wsum v [] v.g.nodes + 1 ≤ 2 * C08.bigFuel v
        omega
      | take k =>
        obtain ⟨toks, s', g1, g2⟩ := htake (some k)
        simp only [g1]
        exact ih (s', toks.map C08.showTok) hrest g2 ⟨toks, rfl⟩
      | all =>
        obtain ⟨toks, s', g1, g2⟩ := htake none
        simp only [g1]
        exact ih (s', toks.map C08.showTok) hrest g2 ⟨toks, rfl⟩
  unfold C08.runPost
  refine key cmds ({}, []) hc ⟨(by intro x hx; cases hx), ?_⟩ ⟨[], rfl⟩
  simp only [walkFuel] at hi
  show 0 + wsum v [] v.g.nodes + 1 ≤ 2 * C08.bigFuel v
  omega

end PetgraphModel.TravProofs
